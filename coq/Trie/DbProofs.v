(* Trie/DbProofs.v — trie/database.go, Database.Commit (Trie/DbModel.v): batching is
   UNOBSERVABLE.  The nodes written by commit are a function of (memory, root)
   alone (db_collect: the post-order list of (hash, blob)); whatever the flush
   threshold `limit` (aquadb.IdealBatchSize), disk-after-final-Write = the puts
   applied in order to disk-before.  Then: what the disk holds afterwards, what
   uncache leaves in memory, and Database.Node before = after. *)
From Coq Require Import ZifyBool ZifyN ZifyNat.
From AQ Require Import Lib.Bytes Trie.TrieModel Trie.DbModel.
Local Open Scope N_scope.

Definition dstate := (diskdb * batch)%type.
Definition puts := list (bytes * bytes).
(* the disk after the pending batch has been written *)
Definition flush (st : dstate) : diskdb := batch_write (fst st) (snd st).

(* ------------------------------------------------------------------ db_commit, unfolded *)
(* the loop over the children (the local `fix go` of db_commit) *)
Definition commit_list (F : bytes -> dstate -> res dstate) : list bytes -> dstate -> res dstate :=
  fix go (cs : list bytes) (st : dstate) : res dstate :=
    match cs with [] => Ok st | c :: t => bind (F c st) (go t) end.
(* batch.Put(hash, blob); if batch.ValueSize() >= limit { batch.Write(); batch.Reset() } *)
Definition node_put (limit : N) (h : bytes) (n : mnode) (st : dstate) : res dstate :=
  let '(d, b) := st in
  let b' := batch_put b h (mn_blob n) in
  if limit <=? b_size b' then Ok (batch_write d b', batch_empty) else Ok (d, b').

Lemma db_commit_S f limit m h st :
  db_commit (S f) limit m h st =
  match mem_get m h with
  | None => Ok st
  | Some n => bind (commit_list (db_commit f limit m) (mn_children n) st) (node_put limit h n)
  end.
Proof. reflexivity. Qed.

(* ------------------------------------------------------------------ the limit-free collector *)
Definition collect_list (F : bytes -> res puts) : list bytes -> res puts :=
  fix go (cs : list bytes) : res puts :=
    match cs with [] => Ok [] | c :: t => bind (F c) (fun p => bind (go t) (fun q => Ok (p ++ q))) end.
Fixpoint db_collect (fuel : nat) (m : memdb) (h : bytes) : res puts :=
  match fuel with
  | O => OutOfFuel
  | S f =>
    match mem_get m h with
    | None => Ok []
    | Some n => bind (collect_list (db_collect f m) (mn_children n)) (fun ps => Ok (ps ++ [(h, mn_blob n)]))
    end
  end.

(* r (a result of commit from st) realises the collector's result rc *)
Definition commit_spec (rc : res puts) (r : res dstate) (st : dstate) : Prop :=
  match rc with
  | Ok ps => exists st', r = Ok st' /\ flush st' = fold_left disk_put ps (flush st)
  | OutOfFuel => r = OutOfFuel
  | _ => False
  end.

(* Put then maybe Write+Reset: the flushed disk gains exactly this put *)
Lemma flush_node_put limit h n st :
  exists st', node_put limit h n st = Ok st' /\ flush st' = disk_put (flush st) (h, mn_blob n).
Proof.
  destruct st as [d b]. unfold node_put. destruct (limit <=? b_size (batch_put b h (mn_blob n)));
    eexists; (split; [reflexivity|]); unfold flush, batch_write; cbn [fst snd batch_put b_puts batch_empty fold_left];
    now rewrite fold_left_app.
Qed.

Lemma commit_list_spec (F : bytes -> dstate -> res dstate) (G : bytes -> res puts) cs :
  (forall c st, In c cs -> commit_spec (G c) (F c st) st) ->
  forall st, commit_spec (collect_list G cs) (commit_list F cs st) st.
Proof.
  induction cs as [|a cs IH]; intros Hc st.
  - exists st. split; reflexivity.
  - cbn [collect_list commit_list]. pose proof (Hc a st (or_introl eq_refl)) as Ha.
    destruct (G a) as [p| | | |]; cbn [commit_spec bind] in *; try contradiction.
    + destruct Ha as (st1 & E1 & F1). rewrite E1. cbn [bind].
      specialize (IH (fun c st Hin => Hc c st (or_intror Hin)) st1).
      fold (collect_list G) in *. fold (commit_list F) in *.
      destruct (collect_list G cs) as [q| | | |]; cbn [commit_spec bind] in *; try contradiction.
      * destruct IH as (st2 & E2 & F2). exists st2. split; [exact E2|]. now rewrite F2, F1, fold_left_app.
      * exact IH.
    + now rewrite Ha.
Qed.

(* the collector determines commit, whatever the flush threshold *)
Lemma db_commit_spec fuel limit m : forall h st,
  commit_spec (db_collect fuel m h) (db_commit fuel limit m h st) st.
Proof.
  induction fuel as [|f IH]; intros h st; [reflexivity|].
  rewrite db_commit_S. cbn [db_collect]. destruct (mem_get m h) as [n|].
  - pose proof (commit_list_spec (db_commit f limit m) (db_collect f m) (mn_children n)
                  (fun c st _ => IH c st) st) as Hl.
    destruct (collect_list (db_collect f m) (mn_children n)) as [ps| | | |]; cbn [commit_spec bind] in *;
      try contradiction.
    + destruct Hl as (st1 & E1 & F1). rewrite E1. cbn [bind].
      destruct (flush_node_put limit h n st1) as (st2 & E2 & F2). exists st2. split; [exact E2|].
      rewrite F2, F1, fold_left_app. reflexivity.
    + now rewrite Hl.
  - exists st. split; reflexivity.
Qed.

(* the collector never fails otherwise *)
Lemma collect_list_res (G : bytes -> res puts) cs :
  (forall c, (exists p, G c = Ok p) \/ G c = OutOfFuel) ->
  (exists p, collect_list G cs = Ok p) \/ collect_list G cs = OutOfFuel.
Proof.
  intros HG. induction cs as [|a cs IH]; [left; now exists []|].
  cbn [collect_list]. fold (collect_list G). destruct (HG a) as [[p ->]| ->]; [|now right].
  cbn [bind]. destruct IH as [[q ->]| ->]; [left; now eexists|now right].
Qed.
Lemma db_collect_res fuel m : forall h, (exists p, db_collect fuel m h = Ok p) \/ db_collect fuel m h = OutOfFuel.
Proof.
  induction fuel as [|f IH]; intros h; [now right|]. cbn [db_collect].
  destruct (mem_get m h) as [n|]; [|left; now exists []].
  destruct (collect_list_res (db_collect f m) (mn_children n) IH) as [[p ->]| ->]; [left; now eexists|now right].
Qed.

(* ------------------------------------------------------------------ T1 *)
Theorem db_commit_flush : forall fuel limit m h st st',
  db_commit fuel limit m h st = Ok st' ->
  exists ps, db_collect fuel m h = Ok ps /\ flush st' = fold_left disk_put ps (flush st).
Proof.
  intros fuel limit m h st st' E. pose proof (db_commit_spec fuel limit m h st) as Hs.
  destruct (db_collect fuel m h) as [ps| | | |]; cbn [commit_spec] in Hs; try contradiction.
  - destruct Hs as (st1 & E1 & F1). rewrite E in E1. injection E1 as <-. eauto.
  - rewrite E in Hs. discriminate.
Qed.
Theorem db_commit_of_collect : forall fuel limit m h st ps,
  db_collect fuel m h = Ok ps ->
  exists st', db_commit fuel limit m h st = Ok st' /\ flush st' = fold_left disk_put ps (flush st).
Proof.
  intros fuel limit m h st ps E. pose proof (db_commit_spec fuel limit m h st) as Hs. now rewrite E in Hs.
Qed.
Theorem db_commit_limit_irrelevant : forall fuel l1 l2 m h st st1,
  db_commit fuel l1 m h st = Ok st1 ->
  exists st2, db_commit fuel l2 m h st = Ok st2 /\ flush st2 = flush st1.
Proof.
  intros fuel l1 l2 m h st st1 E. destruct (db_commit_flush _ _ _ _ _ _ E) as (ps & Ec & F1).
  destruct (db_commit_of_collect fuel l2 m h st ps Ec) as (st2 & E2 & F2). exists st2. split; [exact E2|congruence].
Qed.
Theorem db_commit_fuel_limit_irrelevant : forall fuel l1 l2 m h st,
  db_commit fuel l1 m h st = OutOfFuel -> db_commit fuel l2 m h st = OutOfFuel.
Proof.
  intros fuel l1 l2 m h st E. pose proof (db_commit_spec fuel l1 m h st) as H1.
  pose proof (db_commit_spec fuel l2 m h st) as H2.
  destruct (db_collect fuel m h) as [ps| | | |]; cbn [commit_spec] in *; try contradiction; [|exact H2].
  destruct H1 as (st1 & E1 & _). rewrite E in E1. discriminate.
Qed.
(* no other failure exists *)
Theorem db_commit_res : forall fuel limit m h st,
  (exists st', db_commit fuel limit m h st = Ok st') \/ db_commit fuel limit m h st = OutOfFuel.
Proof.
  intros fuel limit m h st. pose proof (db_commit_spec fuel limit m h st) as Hs.
  destruct (db_collect_res fuel m h) as [[p E]|E]; rewrite E in Hs; cbn [commit_spec] in Hs.
  - destruct Hs as (st' & E' & _). left. eauto.
  - now right.
Qed.

(* ------------------------------------------------------------------ T2 *)
Definition pre_step (limit : N) : dstate -> bytes * bytes -> dstate :=
  fun '(d, b) kv =>
    let b' := batch_put b (fst kv) (snd kv) in
    if limit <? b_size b' then (batch_write d b', batch_empty) else (d, b').
Lemma pre_loop_flush limit pre : forall st,
  flush (fold_left (pre_step limit) pre st) = fold_left disk_put pre (flush st).
Proof.
  induction pre as [|[k v] pre IH]; intros st; [reflexivity|]. cbn [fold_left]. rewrite IH. f_equal.
  destruct st as [d b]. unfold pre_step. cbn [fst snd].
  destruct (limit <? b_size (batch_put b k v)); unfold flush, batch_write;
    cbn [fst snd batch_put b_puts batch_empty fold_left]; now rewrite fold_left_app.
Qed.

(* Database.Commit without any mention of the batch or its threshold *)
Theorem tdb_commit_char : forall fuel limit m pre d root,
  tdb_commit fuel limit m pre d root =
  bind (db_collect fuel m root) (fun ps =>
    Ok (db_uncache fuel m root, fold_left disk_put ps (fold_left disk_put pre d))).
Proof.
  intros fuel limit m pre d root. unfold tdb_commit.
  change (fold_left _ pre (d, batch_empty)) with (fold_left (pre_step limit) pre (d, batch_empty)).
  pose proof (pre_loop_flush limit pre (d, batch_empty)) as Hp.
  destruct (fold_left (pre_step limit) pre (d, batch_empty)) as [d1 b1].
  pose proof (db_commit_spec fuel limit m root (d1, b1)) as Hs.
  destruct (db_collect fuel m root) as [ps| | | |]; cbn [commit_spec bind] in *; try contradiction.
  - destruct Hs as ([d2 b2] & E & F). rewrite E. cbn [bind]. do 2 f_equal.
    change (batch_write d2 b2) with (flush (d2, b2)). rewrite F, Hp. reflexivity.
  - now rewrite Hs.
Qed.
Theorem tdb_commit_limit_irrelevant : forall fuel l1 l2 m pre d root,
  tdb_commit fuel l1 m pre d root = tdb_commit fuel l2 m pre d root.
Proof. intros. now rewrite !tdb_commit_char. Qed.

(* ------------------------------------------------------------------ lookups *)
Lemma mem_get_del m h k : mem_get (mem_del m h) k = if bytes_eqb h k then None else mem_get m k.
Proof.
  induction m as [|[k' n] m IH]; cbn [mem_del mem_get].
  - now destruct (bytes_eqb h k).
  - destruct (bytes_eqb_spec k' h) as [->|N].
    + rewrite IH. now destruct (bytes_eqb h k).
    + cbn [mem_get]. rewrite IH. destruct (bytes_eqb_spec k' k) as [->|]; [|reflexivity].
      destruct (bytes_eqb_spec h k) as [->|]; [contradiction|reflexivity].
Qed.
Lemma disk_get_del d h k : disk_get (disk_del d h) k = if bytes_eqb h k then None else disk_get d k.
Proof.
  induction d as [|[k' n] d IH]; cbn [disk_del disk_get].
  - now destruct (bytes_eqb h k).
  - destruct (bytes_eqb_spec k' h) as [->|N].
    + rewrite IH. now destruct (bytes_eqb h k).
    + cbn [disk_get]. rewrite IH. destruct (bytes_eqb_spec k' k) as [->|]; [|reflexivity].
      destruct (bytes_eqb_spec h k) as [->|]; [contradiction|reflexivity].
Qed.
Lemma disk_get_put d k v x : disk_get (disk_put d (k, v)) x = if bytes_eqb k x then Some v else disk_get d x.
Proof. unfold disk_put. cbn [disk_get fst]. rewrite disk_get_del. now destruct (bytes_eqb k x). Qed.

(* the last put for key k *)
Fixpoint plast (k : bytes) (ps : puts) : option bytes :=
  match ps with
  | [] => None
  | (k', v) :: t => match plast k t with Some w => Some w | None => if bytes_eqb k' k then Some v else None end
  end.
Lemma disk_get_fold ps : forall d k,
  disk_get (fold_left disk_put ps d) k = match plast k ps with Some w => Some w | None => disk_get d k end.
Proof.
  induction ps as [|[k' v] ps IH]; intros d k; [reflexivity|]. cbn [fold_left plast]. rewrite IH.
  destruct (plast k ps); [reflexivity|]. rewrite disk_get_put. now destruct (bytes_eqb k' k).
Qed.
Lemma plast_in k ps w : plast k ps = Some w -> In (k, w) ps.
Proof.
  induction ps as [|[k' v] ps IH]; cbn [plast]; [discriminate|].
  destruct (plast k ps) as [w'|]; [intros E; right; now apply IH|].
  destruct (bytes_eqb_spec k' k) as [->|]; [intros E; injection E as ->; now left|discriminate].
Qed.
Lemma plast_none k ps : plast k ps = None -> forall v, ~ In (k, v) ps.
Proof.
  induction ps as [|[k' v'] ps IH]; cbn [plast]; [intros _ v []|].
  destruct (plast k ps) as [w'|]; [discriminate|].
  destruct (bytes_eqb_spec k' k) as [->|N]; [discriminate|]. intros _ v [E|Hin]; [injection E as -> ->; now apply N|].
  now apply (IH eq_refl v).
Qed.

(* ------------------------------------------------------------------ reachability through child references *)
Inductive reach (m : memdb) (r : bytes) : bytes -> Prop :=
| reach_refl : mem_get m r <> None -> reach m r r
| reach_step h n c : reach m r h -> mem_get m h = Some n -> In c (mn_children n) -> mem_get m c <> None ->
                       reach m r c.

Lemma reach_trans m a b c : reach m a b -> reach m b c -> reach m a c.
Proof. intros Hab Hbc. induction Hbc; [exact Hab|]. eapply reach_step; eauto. Qed.
Lemma reach_root_mem m r k : reach m r k -> mem_get m r <> None.
Proof. induction 1; assumption. Qed.
Lemma reach_end_mem m r k : reach m r k -> mem_get m k <> None.
Proof. destruct 1; assumption. Qed.
Lemma reach_inv_left m r k : reach m r k ->
  k = r \/ exists n c, mem_get m r = Some n /\ In c (mn_children n) /\ mem_get m c <> None /\ reach m c k.
Proof.
  induction 1 as [Hr|h n c Hrh IH Hn Hc Hm]; [now left|]. right. destruct IH as [->|(n0 & c0 & E0 & Hc0 & Hm0 & Hr0)].
  - exists n, c. repeat split; auto. now apply reach_refl.
  - exists n0, c0. repeat split; auto. eapply reach_step; eauto.
Qed.

(* ------------------------------------------------------------------ what the collector lists *)
Lemma collect_list_in (G : bytes -> res puts) cs : forall ps, collect_list G cs = Ok ps ->
  forall c, In c cs -> exists pc, G c = Ok pc /\ incl pc ps.
Proof.
  induction cs as [|a cs IH]; intros ps E c Hin; [contradiction|].
  cbn [collect_list] in E. fold (collect_list G) in E. destruct (G a) as [p| | | |] eqn:Ea; try discriminate.
  cbn [bind] in E. destruct (collect_list G cs) as [q| | | |]; try discriminate. cbn [bind] in E. injection E as <-.
  destruct Hin as [->|Hin].
  - exists p. split; [exact Ea|now apply incl_appl].
  - destruct (IH q eq_refl c Hin) as (pc & Ec & Hi). exists pc. split; [exact Ec|now apply incl_appr].
Qed.
Lemma collect_list_from (G : bytes -> res puts) cs : forall ps, collect_list G cs = Ok ps ->
  forall e, In e ps -> exists c pc, In c cs /\ G c = Ok pc /\ In e pc.
Proof.
  induction cs as [|a cs IH]; intros ps E e Hin.
  - injection E as <-. contradiction.
  - cbn [collect_list] in E. fold (collect_list G) in E. destruct (G a) as [p| | | |] eqn:Ea; try discriminate.
    cbn [bind] in E. destruct (collect_list G cs) as [q| | | |]; try discriminate. cbn [bind] in E. injection E as <-.
    apply in_app_or in Hin. destruct Hin as [Hin|Hin].
    + exists a, p. repeat split; auto. now left.
    + destruct (IH q eq_refl e Hin) as (c & pc & Hc & Ec & Hi). exists c, pc. repeat split; auto. now right.
Qed.

Lemma collect_sound fuel m : forall h ps, db_collect fuel m h = Ok ps ->
  forall k v, In (k, v) ps -> reach m h k /\ exists n, mem_get m k = Some n /\ v = mn_blob n.
Proof.
  induction fuel as [|f IH]; intros h ps E k v Hin; [discriminate|]. cbn [db_collect] in E.
  destruct (mem_get m h) as [n|] eqn:En; [|injection E as <-; contradiction].
  destruct (collect_list (db_collect f m) (mn_children n)) as [pcs| | | |] eqn:El; try discriminate.
  cbn [bind] in E. injection E as <-. apply in_app_or in Hin. destruct Hin as [Hin|[Hin|[]]].
  - destruct (collect_list_from _ _ _ El _ Hin) as (c & pc & Hc & Ec & Hi).
    destruct (IH c pc Ec k v Hi) as [Hr Hn]. split; [|exact Hn].
    apply (reach_trans m h c k); [|exact Hr]. eapply reach_step; eauto.
    + apply reach_refl. congruence.
    + exact (reach_root_mem _ _ _ Hr).
  - injection Hin as <- <-. split; [apply reach_refl; congruence|eauto].
Qed.
Lemma collect_complete fuel m : forall h ps, db_collect fuel m h = Ok ps ->
  forall k, reach m h k -> exists v, In (k, v) ps.
Proof.
  induction fuel as [|f IH]; intros h ps E k Hr; [discriminate|]. cbn [db_collect] in E.
  destruct (mem_get m h) as [n|] eqn:En; [|destruct (reach_root_mem _ _ _ Hr En)].
  destruct (collect_list (db_collect f m) (mn_children n)) as [pcs| | | |] eqn:El; try discriminate.
  cbn [bind] in E. injection E as <-.
  destruct (reach_inv_left _ _ _ Hr) as [->|(n0 & c & E0 & Hc & Hm & Hrc)].
  - exists (mn_blob n). apply in_or_app. right. now left.
  - rewrite En in E0. injection E0 as <-.
    destruct (collect_list_in _ _ _ El c Hc) as (pc & Ec & Hi).
    destruct (IH c pc Ec k Hrc) as (v & Hv). exists v. apply in_or_app. left. now apply Hi.
Qed.

(* ------------------------------------------------------------------ T3: the disk afterwards *)
Theorem tdb_commit_disk : forall fuel limit m d root m' d',
  tdb_commit fuel limit m [] d root = Ok (m', d') ->
  (forall h n, reach m root h -> mem_get m h = Some n -> disk_get d' h = Some (mn_blob n)) /\
  (forall k, ~ reach m root k -> disk_get d' k = disk_get d k).
Proof.
  intros fuel limit m d root m' d' E. rewrite tdb_commit_char in E. cbn [fold_left] in E.
  destruct (db_collect fuel m root) as [ps| | | |] eqn:Ec; try discriminate. cbn [bind] in E. injection E as _ <-.
  split.
  - intros h n Hr En. rewrite disk_get_fold. destruct (collect_complete _ _ _ _ Ec h Hr) as (v & Hv).
    destruct (plast h ps) as [w|] eqn:Ep; [|destruct (plast_none _ _ Ep v Hv)].
    apply plast_in in Ep. destruct (collect_sound _ _ _ _ Ec _ _ Ep) as (_ & n' & En' & ->). congruence.
  - intros k Hn. rewrite disk_get_fold. destruct (plast k ps) as [w|] eqn:Ep; [|reflexivity].
    apply plast_in in Ep. destruct (collect_sound _ _ _ _ Ec _ _ Ep) as (Hr & _). contradiction.
Qed.

(* reachability is decided by the collector's list *)
Lemma reach_dec_of_collect fuel m root ps : db_collect fuel m root = Ok ps ->
  forall k, reach m root k \/ ~ reach m root k.
Proof.
  intros Ec k. destruct (plast k ps) as [w|] eqn:Ep.
  - left. apply plast_in in Ep. now destruct (collect_sound _ _ _ _ Ec _ _ Ep).
  - right. intros Hr. destruct (collect_complete _ _ _ _ Ec k Hr) as (v & Hv). exact (plast_none _ _ Ep v Hv).
Qed.

(* ------------------------------------------------------------------ uncache *)
Definition sub (m1 m2 : memdb) : Prop := forall k n, mem_get m1 k = Some n -> mem_get m2 k = Some n.
Lemma sub_refl m : sub m m. Proof. intros k n E. exact E. Qed.
Lemma sub_trans m1 m2 m3 : sub m1 m2 -> sub m2 m3 -> sub m1 m3.
Proof. intros H12 H23 k n E. auto. Qed.
Lemma sub_ne m1 m2 k : sub m1 m2 -> mem_get m1 k <> None -> mem_get m2 k <> None.
Proof. intros Hs Hn. destruct (mem_get m1 k) as [n|] eqn:E; [|contradiction]. rewrite (Hs _ _ E). discriminate. Qed.
Lemma sub_none m1 m2 k : sub m1 m2 -> mem_get m2 k = None -> mem_get m1 k = None.
Proof. intros Hs E. destruct (mem_get m1 k) as [n|] eqn:E1; [|reflexivity]. rewrite (Hs _ _ E1) in E. discriminate. Qed.
Lemma reach_sub m1 m2 r k : sub m1 m2 -> reach m1 r k -> reach m2 r k.
Proof.
  intros Hs. induction 1 as [Hr|h n c Hrh IH Hn Hc Hm]; [apply reach_refl; now apply (sub_ne m1)|].
  eapply reach_step; eauto. now apply (sub_ne m1).
Qed.

(* uncache only removes *)
Lemma uncache_fold_sub f (IH : forall m h, sub (db_uncache f m h) m) cs : forall m,
  sub (fold_left (db_uncache f) cs m) m.
Proof.
  induction cs as [|a cs IHc]; intros m; [apply sub_refl|]. cbn [fold_left].
  eapply sub_trans; [apply IHc|apply IH].
Qed.
Lemma uncache_sub f : forall m h, sub (db_uncache f m h) m.
Proof.
  induction f as [|f IH]; intros m h; [apply sub_refl|]. cbn [db_uncache].
  destruct (mem_get m h) as [n|]; [|apply sub_refl]. intros k n1 E. rewrite mem_get_del in E.
  destruct (bytes_eqb h k); [discriminate|]. exact (uncache_fold_sub f IH _ _ _ _ E).
Qed.

(* uncache removes only what is reachable (no fuel condition) *)
Lemma uncache_keeps f : forall m h k, ~ reach m h k -> mem_get (db_uncache f m h) k = mem_get m k.
Proof.
  induction f as [|f IH]; intros m h k Hn; [reflexivity|]. cbn [db_uncache].
  destruct (mem_get m h) as [n|] eqn:En; [|reflexivity]. rewrite mem_get_del.
  destruct (bytes_eqb_spec h k) as [->|N]; [destruct Hn; apply reach_refl; congruence|].
  assert (Hf : forall cs m2, (forall c, In c cs -> In c (mn_children n)) -> sub m2 m ->
             mem_get m2 k = mem_get m k -> mem_get (fold_left (db_uncache f) cs m2) k = mem_get m k).
  { induction cs as [|a cs IHc]; intros m2 Hin Hs E; [exact E|]. cbn [fold_left]. apply IHc.
    - intros c Hc. apply Hin. now right.
    - eapply sub_trans; [apply uncache_sub|exact Hs].
    - rewrite IH; [exact E|]. intros Hr. apply Hn. pose proof (reach_sub _ _ _ _ Hs Hr) as Hr'.
      apply (reach_trans m h a k); [|exact Hr']. eapply reach_step.
      + apply reach_refl. congruence.
      + exact En.
      + apply Hin. now left.
      + exact (reach_root_mem _ _ _ Hr'). }
  apply Hf; [auto|apply sub_refl|reflexivity].
Qed.

(* fuel that lets the commit of h succeed *)
Definition fuel_ok (f : nat) (m : memdb) (h : bytes) : Prop := exists p, db_collect f m h = Ok p.
Lemma collect_list_ok (G : bytes -> res puts) cs :
  (forall c, In c cs -> exists p, G c = Ok p) -> exists ps, collect_list G cs = Ok ps.
Proof.
  induction cs as [|a cs IH]; intros Hc; [now exists []|]. cbn [collect_list]. fold (collect_list G).
  destruct (Hc a (or_introl eq_refl)) as [p ->]. destruct (IH (fun c Hin => Hc c (or_intror Hin))) as [q ->].
  cbn [bind]. now eexists.
Qed.
Lemma fuel_ok_children f m h n : fuel_ok (S f) m h -> mem_get m h = Some n ->
  forall c, In c (mn_children n) -> fuel_ok f m c.
Proof.
  intros [p Hp] En c Hc. cbn [db_collect] in Hp. rewrite En in Hp.
  destruct (collect_list (db_collect f m) (mn_children n)) as [pcs| | | |] eqn:El; try discriminate.
  destruct (collect_list_in _ _ _ El c Hc) as (pc & Ec & _). now exists pc.
Qed.
Lemma fuel_ok_sub f : forall m1 m2 h, sub m1 m2 -> fuel_ok f m2 h -> fuel_ok f m1 h.
Proof.
  induction f as [|f IH]; intros m1 m2 h Hs Hok; [destruct Hok as [p Hp]; discriminate|].
  unfold fuel_ok. cbn [db_collect]. destruct (mem_get m1 h) as [n|] eqn:E1; [|now eexists].
  destruct (collect_list_ok (db_collect f m1) (mn_children n)) as [ps ->]; [|cbn [bind]; now eexists].
  intros c Hc. apply (IH m1 m2 c Hs). exact (fuel_ok_children f m2 h n Hok (Hs _ _ E1) c Hc).
Qed.

(* the removed set is closed under child references of the base memory m0 *)
Definition closed (m2 m0 : memdb) : Prop :=
  forall x n c, mem_get m0 x = Some n -> mem_get m2 x = None -> In c (mn_children n) -> mem_get m2 c = None.

Lemma closed_path m2 m c k : sub m2 m -> closed m2 m -> reach m c k -> mem_get m2 k = None \/ reach m2 c k.
Proof.
  intros Hs Hc. induction 1 as [Hr|h n c0 Hrh IH Hn Hc0 Hm].
  - destruct (mem_get m2 c) as [n|] eqn:E; [right; apply reach_refl; congruence|now left].
  - destruct IH as [E|Hr2]; [left; exact (Hc h n c0 Hn E Hc0)|].
    destruct (mem_get m2 c0) as [n0|] eqn:E0; [right|now left].
    pose proof (reach_end_mem _ _ _ Hr2) as Hne. destruct (mem_get m2 h) as [n'|] eqn:E'; [|contradiction].
    pose proof (Hs _ _ E') as E2. rewrite Hn in E2. injection E2 as <-.
    eapply reach_step; eauto. congruence.
Qed.

Definition U3 (f : nat) : Prop := forall m h k, fuel_ok f m h -> reach m h k -> mem_get (db_uncache f m h) k = None.

Lemma closed_pres f (HU : U3 f) m0 m2 c : sub m2 m0 -> closed m2 m0 -> fuel_ok f m2 c ->
  closed (db_uncache f m2 c) m0.
Proof.
  intros Hs Hc Hok x n c' E0 Ex Hc'. destruct (mem_get m2 x) as [n1|] eqn:E2.
  - pose proof (Hs _ _ E2) as E2'. rewrite E0 in E2'. injection E2' as <-.
    destruct (mem_get (db_uncache f m2 c) c') as [n'|] eqn:Ec'; [exfalso|reflexivity].
    assert (Hnn : ~ ~ reach m2 c x). { intros Hn. rewrite (uncache_keeps f m2 c x Hn) in Ex. congruence. }
    apply Hnn. intros Hr. pose proof (uncache_sub f m2 c _ _ Ec') as E2c.
    assert (Hr' : reach m2 c c') by (eapply reach_step; eauto; congruence).
    rewrite (HU m2 c c' Hok Hr') in Ec'. discriminate.
  - apply (sub_none _ m2); [apply uncache_sub|]. exact (Hc x n c' E0 E2 Hc').
Qed.

(* with enough fuel uncache removes everything reachable *)
Lemma uncache_removes f : U3 f.
Proof.
  induction f as [|f IH]; intros m h k Hok Hr; [destruct Hok as [p Hp]; discriminate|].
  cbn [db_uncache]. destruct (mem_get m h) as [n|] eqn:En; [|destruct (reach_root_mem _ _ _ Hr En)].
  rewrite mem_get_del. destruct (bytes_eqb_spec h k) as [|N]; [reflexivity|].
  destruct (reach_inv_left _ _ _ Hr) as [->|(n0 & c & E0 & Hc & Hm & Hrc)]; [contradiction|].
  rewrite En in E0. injection E0 as <-.
  pose proof (fuel_ok_children f m h n Hok En) as Hoks.
  assert (Hf : forall cs m2, (forall a, In a cs -> fuel_ok f m a) -> sub m2 m -> closed m2 m ->
             (mem_get m2 k = None \/ In c cs) -> mem_get (fold_left (db_uncache f) cs m2) k = None).
  { induction cs as [|a cs IHc]; intros m2 Hoa Hs Hcl Hd; [destruct Hd as [E|[]]; exact E|].
    cbn [fold_left]. apply IHc.
    - intros a' Ha'. apply Hoa. now right.
    - eapply sub_trans; [apply uncache_sub|exact Hs].
    - apply closed_pres; auto. apply (fuel_ok_sub f m2 m a Hs). apply Hoa. now left.
    - destruct Hd as [E|[->|Hin]].
      + left. apply (sub_none _ m2); [apply uncache_sub|exact E].
      + left. destruct (closed_path m2 m c k Hs Hcl Hrc) as [E|Hr2].
        * apply (sub_none _ m2); [apply uncache_sub|exact E].
        * apply IH; [|exact Hr2]. apply (fuel_ok_sub f m2 m c Hs). apply Hoa. now left.
      + now right. }
  apply Hf; [exact Hoks|apply sub_refl| |now right].
  intros x n1 c1 E1 E2. congruence.
Qed.

(* uncache removes exactly the nodes reachable from the root *)
Theorem uncache_spec : forall f m h, fuel_ok f m h -> forall k,
  (reach m h k -> mem_get (db_uncache f m h) k = None) /\
  (~ reach m h k -> mem_get (db_uncache f m h) k = mem_get m k).
Proof. intros f m h Hok k. split; [now apply uncache_removes|apply uncache_keeps]. Qed.

(* ------------------------------------------------------------------ T3: readers see no difference *)
Theorem tdb_commit_node : forall fuel limit m d root m' d',
  tdb_commit fuel limit m [] d root = Ok (m', d') ->
  forall h, tdb_node m' d' h = tdb_node m d h.
Proof.
  intros fuel limit m d root m' d' E h. destruct (tdb_commit_disk _ _ _ _ _ _ _ E) as [Hd1 Hd2].
  rewrite tdb_commit_char in E. destruct (db_collect fuel m root) as [ps| | | |] eqn:Ec; try discriminate.
  cbn [bind] in E. injection E as <- _.
  assert (Hok : fuel_ok fuel m root) by now exists ps.
  unfold tdb_node. destruct (reach_dec_of_collect _ _ _ _ Ec h) as [Hr|Hn].
  - rewrite (uncache_removes fuel m root h Hok Hr).
    pose proof (reach_end_mem _ _ _ Hr) as Hne. destruct (mem_get m h) as [n|] eqn:En; [|contradiction].
    exact (Hd1 h n Hr En).
  - rewrite (uncache_keeps fuel m root h Hn), (Hd2 h Hn). reflexivity.
Qed.

(* ---- the same with pending preimages: they are written first (puts in order), then the nodes *)
Theorem tdb_commit_disk_pre : forall fuel limit m pre d root m' d',
  tdb_commit fuel limit m pre d root = Ok (m', d') ->
  (forall h n, reach m root h -> mem_get m h = Some n -> disk_get d' h = Some (mn_blob n)) /\
  (forall k, ~ reach m root k -> disk_get d' k = disk_get (fold_left disk_put pre d) k).
Proof.
  intros fuel limit m pre d root m' d' E. rewrite tdb_commit_char in E.
  destruct (db_collect fuel m root) as [ps| | | |] eqn:Ec; try discriminate. cbn [bind] in E. injection E as _ <-.
  split.
  - intros h n Hr En. rewrite disk_get_fold. destruct (collect_complete _ _ _ _ Ec h Hr) as (v & Hv).
    destruct (plast h ps) as [w|] eqn:Ep; [|destruct (plast_none _ _ Ep v Hv)].
    apply plast_in in Ep. destruct (collect_sound _ _ _ _ Ec _ _ Ep) as (_ & n' & En' & ->). congruence.
  - intros k Hn. rewrite disk_get_fold. destruct (plast k ps) as [w|] eqn:Ep; [|reflexivity].
    apply plast_in in Ep. destruct (collect_sound _ _ _ _ Ec _ _ Ep) as (Hr & _). contradiction.
Qed.
Theorem tdb_commit_node_pre : forall fuel limit m pre d root m' d',
  tdb_commit fuel limit m pre d root = Ok (m', d') ->
  forall h, tdb_node m' d' h = tdb_node m (fold_left disk_put pre d) h.
Proof.
  intros fuel limit m pre d root m' d' E h. destruct (tdb_commit_disk_pre _ _ _ _ _ _ _ _ E) as [Hd1 Hd2].
  rewrite tdb_commit_char in E. destruct (db_collect fuel m root) as [ps| | | |] eqn:Ec; try discriminate.
  cbn [bind] in E. injection E as <- _.
  assert (Hok : fuel_ok fuel m root) by now exists ps.
  unfold tdb_node. destruct (reach_dec_of_collect _ _ _ _ Ec h) as [Hr|Hn].
  - rewrite (uncache_removes fuel m root h Hok Hr).
    pose proof (reach_end_mem _ _ _ Hr) as Hne. destruct (mem_get m h) as [n|] eqn:En; [|contradiction].
    exact (Hd1 h n Hr En).
  - rewrite (uncache_keeps fuel m root h Hn), (Hd2 h Hn). reflexivity.
Qed.

Print Assumptions db_commit_flush.
Print Assumptions db_commit_limit_irrelevant.
Print Assumptions db_commit_fuel_limit_irrelevant.
Print Assumptions tdb_commit_limit_irrelevant.
Print Assumptions tdb_commit_disk.
Print Assumptions uncache_spec.
Print Assumptions tdb_commit_node.
Print Assumptions tdb_commit_node_pre.
