(* Trie/TrieLazyGetProofs.v — reading through the lazy invariant (TrieLazyDefs.lzf):
   what decodeNode builds for a stored node is a lazy form of it (dec_lzf);
   tryGet on any lazy form returns the content and a lazy form again
   (try_get_lazy); Trie.TryGet / trie.New / SetCacheLimit keep lazy_trie; a
   freshly built trie (all flags dirty, no cached hash) is a lazy form of itself. *)
From AQ Require Import Lib.Bytes Rlp.RlpSpec Rlp.RlpProofs Trie.MptSpec Trie.TrieModel Trie.TrieInv
  Trie.TrieProofs Trie.TrieRootProofs Trie.TrieCodecDefs Trie.TrieCodecProofs Trie.TrieReopenProofs
  Trie.TrieLazyDefs.
From AQ Require Trie.TrieDeleteProofs Trie.TrieDecodeProofs.
From Coq Require Import ZifyBool ZifyN ZifyNat.
Local Open Scope nat_scope.

(* every flag below n is dirty *)
Fixpoint alldirty (n : node) : bool :=
  match n with
  | NShort _ c f => fdirty f && alldirty c
  | NFull cs f => fdirty f && forallb alldirty cs
  | _ => true
  end.

Lemma alldirty_short k c f : alldirty (NShort k c f) = fdirty f && alldirty c.
Proof. reflexivity. Qed.
Lemma alldirty_full cs f : alldirty (NFull cs f) = fdirty f && forallb alldirty cs.
Proof. reflexivity. Qed.

Lemma Forall2_diag {A} (R : A -> A -> Prop) l : Forall (fun c => R c c) l -> Forall2 R l l.
Proof. induction 1; constructor; assumption. Qed.

Lemma canon_short_child k c f : canon (NShort k c f) = true -> child_shape c.
Proof.
  intros Hc. destruct (canon_short_inv _ _ _ Hc) as [_ [(v & -> & _)|(cs & f' & -> & _ & Hcc)]].
  - right. left. eauto.
  - right. right. exact Hcc.
Qed.

Section LazyGet.
Variable H : bytes -> bytes.
Hypothesis Hlen : forall x, length (H x) = 32%nat.

(* ------------------------------------------------------------------ inversions *)

Lemma lzf_nil_inv d s x : lzf H d s NNil x -> x = NNil.
Proof.
  intros Hu. inversion Hu as [? ? Ha| | | |]; subst; [destruct Ha as [Hc _]; discriminate Hc|reflexivity].
Qed.

Lemma lzf_val_inv d s v x : lzf H d s (NVal v) x -> x = NVal v.
Proof.
  intros Hu. inversion Hu as [? ? Ha| | | |]; subst; [destruct Ha as [Hc _]; discriminate Hc|reflexivity].
Qed.

(* flag_ok does not mention the generation *)
Lemma flag_ok_regen d s m f gen : flag_ok H d s m f -> flag_ok H d s m (mkFlag (fhash f) gen (fdirty f)).
Proof. intros Hf. exact Hf. Qed.

(* ------------------------------------------------------------------ (1) decoding gives a lazy form *)

Lemma dec_child_lzf d gen c : child_shape c -> all_fits H c -> cov1 H (stored H d) c ->
  (canon c = true -> big H c = false -> lzf H d true c (dec_node H gen None c)) ->
  lzf H d true c (dec_child H gen c) /\ hash_big H c (dec_child H gen c).
Proof.
  intros [->|[[v ->]|Hc]] Hfit [Hst Hcov] IH.
  - split; [apply lzf_nil|intros h E; discriminate E].
  - split; [apply lzf_val|intros h E; discriminate E].
  - rewrite (dec_child_canon H gen c Hc). destruct (big H c) eqn:Eb.
    + split; [|intros h _; exact Eb]. apply lzf_hash. unfold avail.
      split; [exact Hc|]. split; [exact Hfit|]. split; [apply Hst; [exact Hc|reflexivity]|exact Hcov].
    + split; [apply IH; [exact Hc|reflexivity]|]. intros h E. exfalso. exact (dec_node_neq_hash H gen None c h Hc E).
Qed.

Lemma dec_lzf_gen d gen : forall m hash s, canon m = true -> all_fits H m -> covers H d m ->
  (forall h, hash = Some h ->
     h = H (spec_enc H m) /\ (s = true -> big H m = true) /\ stored H d m) ->
  (hash = None -> s = true /\ big H m = false) ->
  lzf H d s m (dec_node H gen hash m).
Proof.
  induction m as [|k c f IH|cs f IH|h|v] using node_ind'; intros hash s Hc Hfit Hcov Hh Hn; try discriminate Hc.
  - rewrite dec_node_short.
    pose proof (canon_short_child _ _ _ Hc) as Hs.
    pose proof Hfit as [_ Hfitc]. pose proof (proj1 (covers_p_short H (stored H d) k c f) Hcov) as Hcovc.
    destruct (dec_child_lzf d gen c Hs Hfitc Hcovc) as [U B].
    { intros Hcc Hsm. apply IH; try assumption; [exact (proj2 Hcovc)|intros h E; discriminate E|]. intros _. split; [reflexivity|exact Hsm]. }
    apply lzf_short; [exact U|exact B|]. split; cbn [fhash fdirty].
    + intros h E. destruct (Hh h E) as (E1 & E2 & _). split; assumption.
    + split.
      * intros _. split; [exact Hc|]. split; [exact Hfit|]. split; [exact Hcov|].
        intros h E. exact (proj2 (proj2 (Hh h E))).
      * intros E _. exact (Hn E).
  - rewrite dec_node_full. pose proof (canon_full_children _ _ Hc) as Hs.
    pose proof (proj1 (all_fits_full H cs f) Hfit) as [_ Hfitc].
    pose proof (proj1 (covers_p_full H (stored H d) cs f) Hcov) as Hcovc.
    assert (HF : Forall (fun c => lzf H d true c (dec_child H gen c) /\ hash_big H c (dec_child H gen c)) cs).
    { rewrite Forall_forall in *. intros x Hin.
      apply dec_child_lzf; [apply Hs; exact Hin|apply Hfitc; exact Hin|apply Hcovc; exact Hin|].
      intros Hcx Hsm. apply (IH x Hin); [exact Hcx|apply Hfitc; exact Hin|exact (proj2 (Hcovc x Hin))| |].
      - intros h E; discriminate E.
      - intros _. split; [reflexivity|exact Hsm]. }
    apply lzf_full.
    + apply Forall2_map_r. eapply Forall_impl; [|exact HF]. cbv beta. tauto.
    + apply Forall2_map_r. eapply Forall_impl; [|exact HF]. cbv beta. tauto.
    + split; cbn [fhash fdirty].
      * intros h E. destruct (Hh h E) as (E1 & E2 & _). split; assumption.
      * split.
        -- intros _. split; [exact Hc|]. split; [exact Hfit|]. split; [exact Hcov|].
           intros h E. exact (proj2 (proj2 (Hh h E))).
        -- intros E _. exact (Hn E).
Qed.

(* the node resolveHash returns for a stored node *)
Lemma dec_lzf : forall d gen s m, avail H d m -> (s = true -> big H m = true) ->
  lzf H d s m (dec_node H gen (Some (H (spec_enc H m))) m).
Proof.
  intros d gen s m (Hc & Hfit & Hst & Hcov) Hb. apply dec_lzf_gen; try assumption.
  - intros h E. injection E as <-. split; [reflexivity|]. split; assumption.
  - intros E; discriminate E.
Qed.

(* an embedded child decoded in place (no cached hash) *)
Lemma dec_lzf_embedded : forall d gen c, canon c = true -> all_fits H c -> covers H d c ->
  big H c = false -> lzf H d true c (dec_node H gen None c).
Proof.
  intros d gen c Hc Hfit Hcov Hb. apply dec_lzf_gen; try assumption.
  - intros h E; discriminate E.
  - intros _. split; [reflexivity|exact Hb].
Qed.

(* ------------------------------------------------------------------ (2) tryGet *)

Lemma get_lz : forall fuel d gen s m x key,
  canon m = true -> lzf H d s m x -> (s = true -> hash_big H m x) ->
  tkeyb key = true ->
  2 * length key + (if is_hash x then 2 else 1) <= fuel ->
  exists x' did, try_get fuel d gen x key = Ok (lookup (content_of m) key, x', did)
                 /\ lzf H d s m x' /\ (forall h, x' = NHash h -> x = NHash h) /\ (did = false -> x' = x).
Proof.
  induction fuel as [|fuel IH]; intros d gen s m x key Hc Hu Hsz Hk Hfuel;
    [clear - Hfuel; destruct (is_hash x); lia|].
  rewrite D.try_get_S.
  inversion Hu as [s0 m0 Ha | s0 | s0 v | s0 k c x1 f f' Hu1 Hb1 Hfl | s0 cs xs f f' Hus Hbs Hfl]; subst;
    try discriminate Hc.
  - (* a hash node: resolve through the database, continue on the decoded node *)
    pose proof Ha as (_ & Hfit & Hst & Hcov). cbn [is_hash] in Hfuel.
    rewrite (resolve_stored H Hlen d m gen Hc (all_fits_top H m Hc Hfit) Hst). cbn [bind].
    destruct (IH d gen s m (dec_node H gen (Some (H (spec_enc H m))) m) key Hc) as (x' & did & E & U & Hh & _).
    + apply dec_lzf; [exact Ha|]. intros Es. exact (Hsz Es _ eq_refl).
    + intros _ h E. exfalso. exact (dec_node_neq_hash H _ _ _ _ Hc E).
    + exact Hk.
    + rewrite dec_node_not_hash by exact Hc. lia.
    + rewrite E. cbn [bind]. exists x', true. split; [reflexivity|]. split; [exact U|]. split.
      * intros h Eh. exfalso. exact (dec_node_neq_hash H _ _ _ _ Hc (Hh h Eh)).
      * intros Ed; discriminate Ed.
  - (* short node *)
    rewrite D.canon_short_eq in Hc. apply andb_true_iff in Hc as [Hne Hc]. apply D.nonempty_len in Hne.
    rewrite D.content_short.
    cbn [is_hash] in Hfuel.
    destruct (has_prefix key k) eqn:Hp; cbn [negb].
    + apply D.has_prefix_true in Hp. remember (skipn (length k) key) as rest eqn:Er. clear Er. subst key.
      rewrite app_length in Hfuel. rewrite D.lookup_pre_key.
      destruct c as [| | cs' fc| |v]; try discriminate Hc.
      * apply andb_true_iff in Hc as [Hpath Hcc]. rewrite D.tkeyb_app_path in Hk by auto.
        destruct (IH d gen true (NFull cs' fc) x1 rest Hcc Hu1) as (x' & did & E & U & Hh & Hd).
        -- intros _. exact Hb1.
        -- exact Hk.
        -- destruct (is_hash x1); lia.
        -- rewrite E. cbn [bind]. destruct did.
           ++ exists (NShort k x' (mkFlag (fhash f') gen (fdirty f'))), true. split; [reflexivity|]. split; [|split].
              ** apply lzf_short; [exact U| |apply flag_ok_regen; exact Hfl].
                 intros h Eh. apply (Hb1 h). exact (Hh h Eh).
              ** intros h Eh; discriminate Eh.
              ** intros Ed; discriminate Ed.
           ++ exists (NShort k x1 f'), false. split; [reflexivity|]. split; [exact Hu|]. split.
              ** intros h Eh; discriminate Eh.
              ** reflexivity.
      * apply andb_true_iff in Hc as [Htk Hv]. apply (D.tkeyb_app_nil k rest Htk) in Hk. subst rest.
        apply lzf_val_inv in Hu1. subst x1.
        destruct fuel as [|fuel']; [lia|]. rewrite D.try_get_S. cbn [bind].
        exists (NShort k (NVal v) f'), false. split; [reflexivity|]. split; [exact Hu|]. split.
        -- intros h Eh; discriminate Eh.
        -- reflexivity.
    + rewrite D.lookup_pre_key_none by (apply D.has_prefix_false; auto).
      exists (NShort k x1 f'), false. split; [reflexivity|]. split; [exact Hu|]. split.
      * intros h Eh; discriminate Eh.
      * reflexivity.
  - (* full node *)
    destruct key as [|k0 rest]; [discriminate Hk|].
    pose proof Hc as Hc'. apply (D.canon_full_elim cs f) in Hc' as (Hl17 & Hs & _).
    pose proof (Forall2_len _ _ _ Hus) as Hlx.
    apply D.tkeyb_head in Hk as [Hi Hk]. cbn [length is_hash] in Hfuel.
    rewrite D.get_child_ok by lia. cbn [bind]. rewrite (D.lookup_full cs f) by auto.
    specialize (Hs (nidx k0) Hi). unfold D.slot_ok in Hs.
    pose proof (Forall2_nth_d (lzf H d true) NNil NNil (lzf_nil H d true) _ _ Hus (nidx k0)) as Hu1.
    pose proof (Forall2_nth_d (hash_big H) NNil NNil (hash_big_nil H) _ _ Hbs (nidx k0)) as Hb1.
    remember (nth (nidx k0) cs NNil) as c eqn:Ec.
    remember (nth (nidx k0) xs NNil) as x1 eqn:Ex.
    destruct Hk as [(Hn & Hk & Hlt)|[-> ->]].
    + destruct (Nat.ltb_spec (nidx k0) 16) as [_|Hbad]; [|lia]. apply orb_true_iff in Hs as [Hs|Hs].
      * apply D.is_nil_eq in Hs. rewrite Hs in Hu1 |- *. apply lzf_nil_inv in Hu1. rewrite Hu1.
        destruct fuel as [|fuel']; [lia|]. rewrite D.try_get_S. cbn [bind].
        exists (NFull xs f'), false. split; [reflexivity|]. split; [exact Hu|]. split.
        -- intros h Eh; discriminate Eh.
        -- reflexivity.
      * destruct (IH d gen true c x1 rest Hs Hu1) as (x' & did & E & U & Hh & Hd).
        -- intros _. exact Hb1.
        -- exact Hk.
        -- destruct (is_hash x1); lia.
        -- rewrite E. cbn [bind]. destruct did.
           ++ rewrite set_child_ok by lia. cbn [bind].
              exists (NFull (set_nth xs (nidx k0) x') (mkFlag (fhash f') gen (fdirty f'))), true.
              split; [reflexivity|]. split; [|split].
              ** apply lzf_full; [| |apply flag_ok_regen; exact Hfl]; apply Forall2_set_nth; try assumption.
                 { rewrite <- Ec. exact U. }
                 { rewrite <- Ec. intros h Eh. apply (Hb1 h). exact (Hh h Eh). }
              ** intros h Eh; discriminate Eh.
              ** intros Ed; discriminate Ed.
           ++ exists (NFull xs f'), false. split; [reflexivity|]. split; [exact Hu|]. split.
              ** intros h Eh; discriminate Eh.
              ** reflexivity.
    + rewrite D.nidx_term in Hs. cbn [Nat.ltb Nat.leb] in Hs.
      destruct fuel as [|fuel']; [lia|]. rewrite D.try_get_S.
      destruct c as [| | | |v]; try discriminate Hs.
      * apply lzf_nil_inv in Hu1. rewrite Hu1. cbn [bind].
        exists (NFull xs f'), false. split; [reflexivity|]. split; [exact Hu|]. split.
        -- intros h Eh; discriminate Eh.
        -- reflexivity.
      * apply lzf_val_inv in Hu1. rewrite Hu1. cbn [bind].
        exists (NFull xs f'), false. split; [reflexivity|]. split; [exact Hu|]. split.
        -- intros h Eh; discriminate Eh.
        -- reflexivity.
Qed.

(* tryGet on a lazy form.  In child position (s = true) a hash node must stand
   for a node stored by hash (hash_big), as lzf_short / lzf_full guarantee; at
   the root (s = false) there is no such condition. *)
Theorem try_get_lazy : forall fuel d gen s m x key,
  canon_root m = true -> lzf H d s m x -> (s = true -> hash_big H m x) ->
  tkeyb key = true -> 2 * length key + 3 <= fuel ->
  exists x' did, try_get fuel d gen x key = Ok (lookup (content_of m) key, x', did)
                 /\ lzf H d s m x' /\ (did = false -> x' = x).
Proof.
  intros fuel d gen s m x key Hcr Hu Hsz Hk Hfuel.
  unfold canon_root in Hcr. apply orb_true_iff in Hcr as [Hnil|Hc].
  - apply D.is_nil_eq in Hnil. subst m. pose proof (lzf_nil_inv _ _ _ Hu) as ->.
    destruct fuel as [|fuel]; [lia|]. rewrite try_get_nil.
    exists NNil, false. split; [reflexivity|]. split; [exact Hu|reflexivity].
  - destruct (get_lz fuel d gen s m x key Hc Hu Hsz Hk) as (x' & did & E & U & _ & Hd).
    + destruct (is_hash x); lia.
    + exists x', did. split; [exact E|]. split; assumption.
Qed.

Corollary try_get_lazy_root : forall fuel d gen m x key,
  canon_root m = true -> lzf H d false m x -> tkeyb key = true -> 2 * length key + 3 <= fuel ->
  exists x' did, try_get fuel d gen x key = Ok (lookup (content_of m) key, x', did)
                 /\ lzf H d false m x' /\ (did = false -> x' = x).
Proof.
  intros fuel d gen m x key Hcr Hu Hk Hfuel. apply try_get_lazy; try assumption.
  intros E; discriminate E.
Qed.

(* ------------------------------------------------------------------ (3) Trie.TryGet *)

Theorem trie_get_lazy : forall d m t k, lazy_trie H d m t ->
  exists t', trie_get t d k = Ok (lookup (content_of m) (keybytes_to_hex k), t') /\ lazy_trie H d m t'.
Proof.
  intros d m t k (Hcr & Hu & Hg & Hl). unfold trie_get.
  destruct (try_get_lazy_root (key_fuel (keybytes_to_hex k)) d (tgen t) m (troot t) (keybytes_to_hex k) Hcr Hu)
    as (x' & did & E & U & _).
  - apply TrieDecodeProofs.tkeyb_keybytes_to_hex.
  - unfold key_fuel. generalize (length (keybytes_to_hex k)). clear. intros n. lia.
  - rewrite E. cbn [bind]. destruct did.
    + eexists. split; [reflexivity|]. unfold lazy_trie. cbn [troot tgen tlimit]. auto.
    + exists t. split; [reflexivity|]. unfold lazy_trie. auto.
Qed.

(* ------------------------------------------------------------------ (4) trie.New *)

Theorem trie_new_lazy : forall d m, avail H d m ->
  mpt_root_hex H (content_of m) <> zero_hash -> mpt_root_hex H (content_of m) <> empty_root H ->
  exists t, trie_new H (mpt_root_hex H (content_of m)) d = Ok t /\ lazy_trie H d m t.
Proof.
  intros d m Ha Hz He. pose proof Ha as (Hc & Hfit & Hst & Hcov).
  rewrite <- (root_hash_eq H m Hc) in *.
  exists (mkTrie (dec_node H 0 (Some (H (spec_enc H m))) m) 0 0). split.
  - unfold trie_new. apply bytes_eqb_neq in Hz, He. rewrite Hz, He. cbn [orb].
    rewrite (resolve_stored H Hlen d m 0%N Hc (all_fits_top H m Hc Hfit) Hst). reflexivity.
  - unfold lazy_trie. cbn [troot tgen tlimit]. split; [|split; [|split; reflexivity]].
    + unfold canon_root. rewrite Hc. apply orb_true_r.
    + apply dec_lzf; [exact Ha|]. intros E; discriminate E.
Qed.

Lemma trie_new_empty d : trie_new H (empty_root H) d = Ok empty_trie.
Proof. unfold trie_new. rewrite (bytes_eqb_refl (empty_root H)), orb_true_r. reflexivity. Qed.

Lemma trie_new_zero d : trie_new H zero_hash d = Ok empty_trie.
Proof. unfold trie_new. rewrite (bytes_eqb_refl zero_hash). reflexivity. Qed.

Lemma lazy_empty d : lazy_trie H d NNil empty_trie.
Proof.
  unfold lazy_trie, empty_trie. cbn [troot tgen tlimit].
  split; [reflexivity|]. split; [apply lzf_nil|]. split; reflexivity.
Qed.

(* ------------------------------------------------------------------ (5) SetCacheLimit *)

Lemma lazy_set_limit d m t l : lazy_trie H d m t -> (l < 65536)%N ->
  lazy_trie H d m (mkTrie (troot t) (tgen t) l).
Proof.
  intros (Hcr & Hu & Hg & _) Hl. unfold lazy_trie. cbn [troot tgen tlimit]. auto.
Qed.

(* ------------------------------------------------------------------ (6) fresh tries *)

Lemma fresh_lzf d : forall n s, child_shape n -> nohash n = true -> alldirty n = true -> lzf H d s n n.
Proof.
  induction n as [|k c f IH|cs f IH|h|v] using node_ind'; intros s Hsh Hn Hd.
  - apply lzf_nil.
  - destruct Hsh as [E|[[v E]|Hc]]; try discriminate E.
    cbn [nohash] in Hn. apply andb_prop in Hn as [Hf Hnc].
    rewrite alldirty_short in Hd. apply andb_prop in Hd as [Hdf Hdc].
    pose proof (canon_short_child _ _ _ Hc) as Hs.
    apply lzf_short.
    + apply IH; assumption.
    + intros h E. subst c. destruct Hs as [E|[[v E]|E]]; discriminate E.
    + unfold fnohash in Hf. split.
      * intros h E. rewrite E in Hf. discriminate Hf.
      * split; [intros E|intros _ E]; rewrite E in Hdf; discriminate Hdf.
  - destruct Hsh as [E|[[v E]|Hc]]; try discriminate E.
    cbn [nohash] in Hn. apply andb_prop in Hn as [Hf Hnc].
    rewrite alldirty_full in Hd. apply andb_prop in Hd as [Hdf Hdc].
    pose proof (canon_full_children _ _ Hc) as Hs.
    rewrite forallb_forall in Hnc, Hdc. rewrite Forall_forall in IH, Hs.
    apply lzf_full.
    + apply Forall2_diag. apply Forall_forall. intros x Hin. apply (IH x Hin); auto.
    + apply Forall2_diag. apply Forall_forall. intros x Hin h E. subst x.
      destruct (Hs _ Hin) as [E|[[v E]|E]]; discriminate E.
    + unfold fnohash in Hf. split.
      * intros h E. rewrite E in Hf. discriminate Hf.
      * split; [intros E|intros _ E]; rewrite E in Hdf; discriminate Hdf.
  - destruct Hsh as [E|[[v E]|Hc]]; discriminate.
  - apply lzf_val.
Qed.

(* a trie built in memory (every flag dirty, no cached hash) is a lazy form of itself *)
Lemma fresh_lazy : forall d n, canon_root n = true -> nohash n = true -> alldirty n = true ->
  lzf H d false n n.
Proof.
  intros d n Hcr Hn Hd. apply fresh_lzf; try assumption.
  unfold canon_root in Hcr. apply orb_true_iff in Hcr as [Hnil|Hc].
  - left. apply D.is_nil_eq. exact Hnil.
  - right. right. exact Hc.
Qed.

Lemma fresh_lazy_trie : forall d n g l, canon_root n = true -> nohash n = true -> alldirty n = true ->
  (g < 65536)%N -> (l < 65536)%N -> lazy_trie H d n (mkTrie n g l).
Proof.
  intros d n g l Hcr Hn Hd Hg Hl. unfold lazy_trie. cbn [troot tgen tlimit].
  split; [exact Hcr|]. split; [apply fresh_lazy; assumption|]. split; assumption.
Qed.

End LazyGet.
