(* Trie/TrieInsertProofs.v — trie.go insert on a canonical, loaded trie:
   it succeeds, keeps the canonical shape, and updates the abstract content as a
   finite map. *)
From Coq Require Import ZifyBool ZifyN ZifyNat.
From AQ Require Import Lib.Bytes Rlp.RlpSpec Trie.MptSpec Trie.TrieModel Trie.TrieInv Trie.TrieProofs.
Local Open Scope N_scope.

Lemma forallb_set_nth (P : node -> bool) l i x :
  forallb P l = true -> P x = true -> forallb P (set_nth l i x) = true.
Proof.
  revert i. induction l as [|h t IH]; intros [|i] Hl Hx; cbn [set_nth forallb] in *; auto.
  - apply andb_true_iff in Hl as [_ Ht]. now rewrite Hx, Ht.
  - apply andb_true_iff in Hl as [Hh Ht]. now rewrite Hh, IH.
Qed.

Lemma full_set_lookup cs f f' i x k0 r : length cs = 17%nat -> (i < 17)%nat ->
  lookup (content_of (NFull (set_nth cs i x) f')) (k0 :: r) =
  if Nat.eqb (nidx k0) i then lookup (content_of x) r else lookup (content_of (NFull cs f)) (k0 :: r).
Proof.
  intros Hl Hi. rewrite !lookup_full by (rewrite ?set_nth_length; exact Hl).
  destruct (Nat.eqb_spec (nidx k0) i) as [E|Hn].
  - rewrite E. destruct (Nat.ltb_spec i 17); [|lia]. now rewrite nth_set_nth_eq by lia.
  - now rewrite nth_set_nth_neq by auto.
Qed.

Lemma slot_ok_canon_root i c : (i < 16)%nat -> slot_ok i c = true -> canon_root c = true.
Proof. unfold slot_ok, canon_root. intros Hi. destruct (Nat.ltb_spec i 16); [auto|lia]. Qed.
Lemma canon_not_nil n : canon n = true -> is_nil n = false.
Proof. destruct n; [discriminate| | | |]; reflexivity. Qed.

Lemma hang_slot gen a r1 nv :
  ((r1 = [] /\ a = term) \/ (nibb a = true /\ tkeyb r1 = true)) ->
  (exists v0, nv = NVal v0 /\ nonempty v0 = true) ->
  slot_ok (nidx a) (hang gen r1 nv) = true /\ is_nil (hang gen r1 nv) = false.
Proof.
  intros [[-> ->]|[Ha Hr]] (v0 & -> & Hv).
  - cbn. auto.
  - apply nibb_nidx in Ha. unfold slot_ok. destruct (Nat.ltb_spec (nidx a) 16); [|lia].
    destruct r1 as [|x r1]; [discriminate|]. cbn [hang is_nil orb canon nonempty andb]. rewrite Hr, Hv. auto.
Qed.
Lemma canon_short_full k cs f fl :
  canon (NShort k (NFull cs f) fl) = nonempty k && (pathb k && canon (NFull cs f)).
Proof. reflexivity. Qed.
Lemma nohash_short k c f : nohash (NShort k c f) = fnohash f && nohash c.
Proof. reflexivity. Qed.
Lemma hang_slot_full gen a r1 nv :
  nibb a = true -> pathb r1 = true -> (exists cs f, nv = NFull cs f) -> canon nv = true ->
  slot_ok (nidx a) (hang gen r1 nv) = true /\ is_nil (hang gen r1 nv) = false.
Proof.
  intros Ha Hr (cs & f & ->) Hc. apply nibb_nidx in Ha. unfold slot_ok.
  destruct (Nat.ltb_spec (nidx a) 16); [|lia].
  destruct r1 as [|x r1]; cbn [hang].
  - split; [cbn [is_nil orb]; exact Hc|reflexivity].
  - rewrite canon_short_full, Hr, Hc. auto.
Qed.

Lemma nohash_hang gen r nv : nohash nv = true -> nohash (hang gen r nv) = true.
Proof. intros H. destruct r; cbn [hang nohash]; auto. Qed.

Lemma nidx_le16 a r1 : ((r1 = [] /\ a = term) \/ (nibb a = true /\ tkeyb r1 = true)) -> (nidx a < 17)%nat.
Proof. intros [[_ ->]|[Ha _]]; [cbn; lia|apply nibb_nidx in Ha; lia]. Qed.

Theorem insert_canon : forall fuel d gen n key v,
  canon_root n = true -> tkeyb key = true -> nonempty v = true -> (length key < fuel)%nat ->
  exists dirty n', insert fuel d gen n key (NVal v) = Ok (dirty, n') /\ canon n' = true /\
    (dirty = false -> n' = n) /\
    (forall cs f, n = NFull cs f -> exists cs' f', n' = NFull cs' f') /\
    (forall k', lookup (content_of n') k' = if bytes_eqb key k' then Some v else lookup (content_of n) k') /\
    (nohash n = true -> nohash n' = true).
Proof.
  induction fuel as [|fuel IH]; intros d gen n key v Hn Hk Hv Hf; [lia|].
  rewrite insert_S. destruct key as [|k0 krest]; [discriminate|].
  destruct n as [|nk nv f|cs f|h|v0]; try discriminate.
  - (* nil *)
    exists true, (NShort (k0 :: krest) (NVal v) (new_flag gen)). split; [reflexivity|].
    split; [cbn [canon nonempty andb]; now rewrite Hk, Hv|].
    split; [discriminate|]. split; [discriminate|]. split; [|reflexivity].
    intros k'. cbn [content_of map pre_key fst snd lookup]. now rewrite app_nil_r.
  - (* short *)
    cbn [canon_root is_nil orb] in Hn. pose proof (canon_short_okkey _ _ _ Hn) as Hok.
    destruct (canon_short_inv _ _ _ Hn) as [Hnk Hshape].
    cbv zeta. destruct (Nat.eqb_spec (prefix_len (k0 :: krest) nk) (length nk)) as [Hm|Hm].
    + pose proof (prefix_len_full _ _ Hm) as Hp. rewrite Hm.
      destruct Hshape as [(v0 & -> & Htk & Hv0)|(cs & f' & -> & Hpk & Hc)].
      * (* leaf: same key *)
        pose proof (tkeyb_prefix_eq _ _ Hk Htk Hp) as E. rewrite <- E. rewrite skipn_all.
        destruct fuel as [|fuel]; [cbn [length] in Hf; lia|]. rewrite insert_S.
        cbn [bind]. destruct (bytes_eqb_spec v0 v) as [->|Hne]; cbn [negb].
        -- exists false, (NShort nk (NVal v) f). rewrite E. split; [reflexivity|]. split; [exact Hn|].
           split; [reflexivity|]. split; [discriminate|]. split; [|auto].
           intros k'. cbn [content_of map pre_key fst snd lookup]. rewrite app_nil_r.
           now destruct (bytes_eqb nk k').
        -- exists true, (NShort (k0 :: krest) (NVal v) (new_flag gen)). split; [reflexivity|].
           split; [cbn [canon nonempty andb]; now rewrite Hk, Hv|].
           split; [discriminate|]. split; [discriminate|]. split; [|reflexivity].
           intros k'. cbn [content_of map pre_key fst snd lookup]. rewrite app_nil_r.
           now destruct (bytes_eqb (k0 :: krest) k').
      * (* extension: descend *)
        pose proof (tkeyb_skip_path _ _ Hk Hpk Hp) as Hk'.
        assert (Hlen : (length (skipn (length nk) (k0 :: krest)) < fuel)%nat).
        { rewrite skipn_length. destruct nk; [contradiction|]. cbn [length] in *. lia. }
        assert (Hcr : canon_root (NFull cs f') = true) by (unfold canon_root; now rewrite Hc, orb_true_r).
        destruct (IH d gen _ _ v Hcr Hk' Hv Hlen) as (dirty & n'' & E & Hc'' & Hnd & Hfull & Hlk & Hnh).
        rewrite E. cbn [bind]. pose proof (has_prefix_inv _ _ Hp) as Ekey.
        destruct dirty.
        -- exists true, (NShort nk n'' (new_flag gen)). split; [reflexivity|].
           destruct (Hfull cs f' eq_refl) as (cs' & f'' & ->).
           split; [cbn [canon]; cbn [canon] in Hc''; rewrite Hpk, Hc''; destruct nk; [contradiction|reflexivity]|].
           split; [discriminate|]. split; [discriminate|]. split.
           ++ intros k'. cbn [content_of]. fold (content_of (NFull cs' f'')). fold (content_of (NFull cs f')).
              rewrite !lookup_pre_key. destruct (has_prefix k' nk) eqn:Hp'.
              ** rewrite Hlk. pose proof (has_prefix_inv _ _ Hp') as Ek'.
                 destruct (bytes_eqb_spec (skipn (length nk) (k0 :: krest)) (skipn (length nk) k')) as [Es|Hns];
                 destruct (bytes_eqb_spec (k0 :: krest) k') as [Ek|Hnk']; auto.
                 --- exfalso. apply Hnk'. rewrite Ekey, Ek'. now rewrite Es.
                 --- exfalso. apply Hns. now rewrite Ek.
              ** destruct (bytes_eqb_spec (k0 :: krest) k') as [Ek|]; [|reflexivity].
                 rewrite <- Ek, Hp in Hp'. discriminate.
           ++ rewrite !nohash_short. intros Hh. apply andb_true_iff in Hh as [_ Hh]. now rewrite (Hnh Hh).
        -- specialize (Hnd eq_refl). subst n''.
           exists false, (NShort nk (NFull cs f') f). split; [reflexivity|]. split; [exact Hn|].
           split; [reflexivity|]. split; [discriminate|]. split; [|auto].
           intros k'. destruct (bytes_eqb_spec (k0 :: krest) k') as [<-|]; [|reflexivity].
           cbn [content_of]. fold (content_of (NFull cs f')). rewrite lookup_pre_key, Hp.
           rewrite Hlk. now rewrite bytes_eqb_refl.
    + (* branch out *)
      assert (Hlt : (prefix_len (k0 :: krest) nk < length nk)%nat) by (pose proof (prefix_len_le (k0 :: krest) nk); lia).
      destruct (split_at_diff _ _ Hk Hok Hlt) as (p & a & b & r1 & r2 & Enk & Ekey & Hab & Hlp & Hpp).
      rewrite <- Hlp. clear Hm Hlt Hlp. rewrite Ekey. subst nk.
      rewrite !nth_error_app2 by lia. rewrite Nat.sub_diag. cbn [nth_error].
      replace (skipn (S (length p)) (p ++ a :: r1)) with r1
        by (rewrite skipn_app, skipn_all2 by lia; replace (S (length p) - length p)%nat with 1%nat by lia; reflexivity).
      replace (skipn (S (length p)) (p ++ b :: r2)) with r2
        by (rewrite skipn_app, skipn_all2 by lia; replace (S (length p) - length p)%nat with 1%nat by lia; reflexivity).
      replace (firstn (length p) (p ++ b :: r2)) with p
        by (rewrite firstn_app, Nat.sub_diag, firstn_all; cbn [firstn]; now rewrite app_nil_r).
      rewrite Ekey in Hk, Hf.
      destruct fuel as [|fuel]; [rewrite app_length in Hf; cbn [length] in Hf; lia|]. rewrite !insert_nil. cbn [bind].
      (* facts about the two tails *)
      apply tkeyb_app_inv in Hk as [_ Hkb]; [|discriminate].
      assert (Hb : (r2 = [] /\ b = term) \/ (nibb b = true /\ tkeyb r2 = true)).
      { apply tkeyb_cons in Hkb as [[? ?]|(? & ? & ?)]; auto. }
      assert (H2 : slot_ok (nidx b) (hang gen r2 (NVal v)) = true /\ is_nil (hang gen r2 (NVal v)) = false)
        by (apply hang_slot; eauto).
      assert (Ha17 : (nidx a < 17)%nat /\ slot_ok (nidx a) (hang gen r1 nv) = true /\ is_nil (hang gen r1 nv) = false).
      { destruct Hshape as [(v0 & -> & Htk & Hv0)|(cs & f' & -> & Hpk & Hc)].
        - apply tkeyb_app_inv in Htk as [_ Hta]; [|discriminate].
          assert (Ha : (r1 = [] /\ a = term) \/ (nibb a = true /\ tkeyb r1 = true)).
          { apply tkeyb_cons in Hta as [[? ?]|(? & ? & ?)]; auto. }
          split; [exact (nidx_le16 _ _ Ha)|]. apply hang_slot; eauto.
        - rewrite pathb_app in Hpk. apply andb_true_iff in Hpk as [_ Hpa].
          cbn [pathb forallb] in Hpa. apply andb_true_iff in Hpa as [Ha Hr1]. fold (pathb r1) in Hr1.
          split; [apply nibb_nidx in Ha; lia|]. apply hang_slot_full; eauto. }
      destruct Ha17 as (Ha17 & H1s & H1n). destruct H2 as [H2s H2n].
      pose proof (nidx_le16 _ _ Hb) as Hb17.
      rewrite set_child_ok by (rewrite empty_children_length; exact Ha17). cbn [bind].
      rewrite set_child_ok by (rewrite set_nth_length, empty_children_length; exact Hb17). cbn [bind].
      set (B := NFull (set_nth (set_nth empty_children (nidx a) (hang gen r1 nv)) (nidx b) (hang gen r2 (NVal v))) (new_flag gen)).
      assert (HB : canon B = true) by (apply branch_canon; auto).
      set (R := if Nat.eqb (length p) 0 then B else NShort p B (new_flag gen)).
      assert (ER : (if Nat.eqb (length p) 0 then Ok (true, B) else Ok (true, NShort p B (new_flag gen))) = Ok (true, R))
        by (unfold R; destruct (Nat.eqb (length p) 0); reflexivity).
      rewrite ER. exists true, R. split; [reflexivity|].
      assert (EC : content_of R = map (pre_key p) (content_of B)).
      { unfold R. destruct p as [|x p]; [cbn [length Nat.eqb]; now rewrite map_pre_key_nil|reflexivity]. }
      split.
      { unfold R. destruct p as [|x p]; [exact HB|]. cbn [length Nat.eqb].
        unfold B in *. cbn [canon nonempty andb]. cbn [canon] in HB. now rewrite Hpp, HB. }
      split; [discriminate|]. split; [discriminate|]. split.
      * intros k'. rewrite EC. cbn [content_of]. rewrite map_pre_key_app, !lookup_pre_key.
        destruct (has_prefix k' p) eqn:Hp'.
        2:{ destruct (bytes_eqb_spec (p ++ b :: r2) k') as [Ek|]; [|reflexivity].
            rewrite <- Ek, has_prefix_app in Hp'. discriminate. }
        pose proof (has_prefix_inv _ _ Hp') as Ek'. set (s := skipn (length p) k') in *.
        assert (Eq : bytes_eqb (p ++ b :: r2) k' = bytes_eqb (b :: r2) s).
        { rewrite Ek'. destruct (bytes_eqb_spec (b :: r2) s) as [->|Hns]; [apply bytes_eqb_refl|].
          apply bytes_eqb_neq. intros E. apply app_inv_head in E. contradiction. }
        rewrite Eq. destruct s as [|k1 r].
        -- cbn [bytes_eqb]. unfold B. now rewrite lookup_full_nil.
        -- unfold B. rewrite branch_lookup by auto. rewrite !content_hang.
           cbn [bytes_eqb]. destruct (byte_eqb_spec k1 b) as [->|Hkb1].
           ++ rewrite byte_eqb_refl. cbn [andb content_of map pre_key fst snd lookup]. rewrite app_nil_r.
              destruct (bytes_eqb r2 r); [reflexivity|].
              now rewrite has_prefix_cons_neq by auto.
           ++ destruct (byte_eqb_spec b k1) as [->|_]; [contradiction|]. cbn [andb].
              destruct (byte_eqb_spec k1 a) as [->|Hka].
              ** rewrite has_prefix_cons. rewrite lookup_pre_key. reflexivity.
              ** rewrite has_prefix_cons_neq by auto. reflexivity.
      * intros Hh. cbn [nohash] in Hh. apply andb_true_iff in Hh as [_ Hh].
        assert (nohash B = true).
        { unfold B. cbn [nohash new_flag fnohash fhash andb].
          apply forallb_set_nth; [apply forallb_set_nth; [reflexivity|now apply nohash_hang]|now apply nohash_hang]. }
        unfold R. destruct (Nat.eqb (length p) 0); [assumption|]. cbn [nohash new_flag fnohash fhash andb]. assumption.
  - (* full *)
    cbn [canon_root is_nil orb] in Hn. pose proof Hn as Hn0.
    apply canon_full_iff in Hn as (Hl & Hs & Hc).
    apply tkeyb_cons in Hk as [[-> ->]|(Hkr & Hk0 & Hkt)].
    + (* the terminator: value slot *)
      rewrite get_child_ok by (rewrite Hl; cbn; lia). rewrite nidx_term. cbn [bind].
      pose proof (Hs 16%nat ltac:(lia)) as H16. unfold slot_ok in H16. cbn [Nat.ltb Nat.leb] in H16.
      destruct fuel as [|fuel]; [cbn [length] in Hf; lia|]. rewrite insert_S.
      assert (Hnew : canon (NFull (set_nth cs 16 (NVal v)) (new_flag gen)) = true).
      { apply canon_full_iff. rewrite set_nth_length. split; [exact Hl|]. split.
        - intros i Hi. destruct (Nat.eq_dec i 16) as [->|Hne].
          + rewrite nth_set_nth_eq by lia. exact Hv.
          + rewrite nth_set_nth_neq by auto. apply Hs. lia.
        - pose proof (count_nonnil_set_nth_ge cs 16 (NVal v) eq_refl). lia. }
      assert (Hlknew : forall vold, (nth 16 cs NNil = NNil \/ nth 16 cs NNil = NVal vold) -> forall k',
                 lookup (content_of (NFull (set_nth cs 16 (NVal v)) (new_flag gen))) k' =
                 if bytes_eqb [term] k' then Some v else lookup (content_of (NFull cs f)) k').
      { intros vold Hold k'. destruct k' as [|k1 r]; [now rewrite !lookup_full_nil|].
        rewrite (full_set_lookup cs f) by (auto; lia).
        destruct (Nat.eqb_spec (nidx k1) 16) as [E|Hne].
        - assert (k1 = term) by (apply nidx_inj; rewrite E; reflexivity). subst k1.
          rewrite (lookup_full cs f) by exact Hl. rewrite nidx_term. cbn [Nat.ltb Nat.leb].
          cbn [bytes_eqb]. rewrite byte_eqb_refl. cbn [andb].
          destruct r as [|x r]; [reflexivity|]. cbn [bytes_eqb].
          destruct Hold as [->| ->]; reflexivity.
        - cbn [bytes_eqb]. destruct (byte_eqb_spec term k1) as [<-|]; [rewrite nidx_term in Hne; lia|reflexivity]. }
      assert (Esc : forall x, set_child cs term x = Ok (set_nth cs 16 x)).
      { intros x. rewrite set_child_ok by (rewrite Hl; cbn; lia). now rewrite nidx_term. }
      destruct (nth 16 cs NNil) as [| | | |v0] eqn:E16; try discriminate.
      * cbn [bind]. rewrite Esc. cbn [bind]. exists true, (NFull (set_nth cs 16 (NVal v)) (new_flag gen)).
        split; [reflexivity|]. split; [exact Hnew|]. split; [discriminate|]. split; [eauto|]. split.
        -- apply (Hlknew []). now left.
        -- intros Hh. cbn [nohash] in *. apply andb_true_iff in Hh as [_ Hh]. cbn [new_flag fnohash fhash andb].
           now apply forallb_set_nth.
      * cbn [bind]. destruct (bytes_eqb_spec v0 v) as [->|Hne]; cbn [negb bind].
        -- exists false, (NFull cs f). split; [reflexivity|]. split; [exact Hn0|]. split; [reflexivity|].
           split; [eauto|]. split; [|auto].
           intros k'. destruct (bytes_eqb_spec [term] k') as [<-|]; [|reflexivity].
           rewrite lookup_full by exact Hl. rewrite nidx_term, E16. reflexivity.
        -- rewrite Esc. cbn [bind]. exists true, (NFull (set_nth cs 16 (NVal v)) (new_flag gen)).
           split; [reflexivity|]. split; [exact Hnew|]. split; [discriminate|]. split; [eauto|]. split.
           ++ apply (Hlknew v0). now right.
           ++ intros Hh. cbn [nohash] in *. apply andb_true_iff in Hh as [_ Hh]. cbn [new_flag fnohash fhash andb].
              now apply forallb_set_nth.
    + (* a nibble: descend into the child *)
      pose proof (proj1 (nibb_nidx k0) Hk0) as Hi.
      rewrite get_child_ok by (rewrite Hl; lia). cbn [bind].
      pose proof (Hs (nidx k0) ltac:(lia)) as Hsi.
      pose proof (slot_ok_canon_root _ _ Hi Hsi) as Hcr.
      destruct (IH d gen _ _ v Hcr Hkt Hv ltac:(cbn [length] in Hf; lia)) as (dirty & n'' & E & Hc'' & Hnd & _ & Hlk & Hnh).
      rewrite E. cbn [bind]. destruct dirty.
      * rewrite set_child_ok by (rewrite Hl; lia). cbn [bind].
        exists true, (NFull (set_nth cs (nidx k0) n'') (new_flag gen)). split; [reflexivity|]. split.
        { apply canon_full_iff. rewrite set_nth_length. split; [exact Hl|]. split.
          - intros i Hi'. destruct (Nat.eq_dec i (nidx k0)) as [->|Hne].
            + rewrite nth_set_nth_eq by lia. unfold slot_ok. destruct (Nat.ltb_spec (nidx k0) 16); [|lia].
              rewrite Hc''. apply orb_true_r.
            + rewrite nth_set_nth_neq by auto. apply Hs. lia.
          - pose proof (count_nonnil_set_nth_ge cs (nidx k0) n'' (canon_not_nil _ Hc'')). lia. }
        split; [discriminate|]. split; [eauto|]. split.
        -- intros k'. destruct k' as [|k1 r]; [now rewrite !lookup_full_nil|].
           rewrite (full_set_lookup cs f) by (auto; lia).
           destruct (Nat.eqb_spec (nidx k1) (nidx k0)) as [En|Hne].
           ++ apply nidx_inj in En. subst k1. rewrite Hlk. cbn [bytes_eqb]. rewrite byte_eqb_refl. cbn [andb].
              destruct (bytes_eqb krest r); [reflexivity|].
              rewrite lookup_full by exact Hl. destruct (Nat.ltb_spec (nidx k0) 17); [reflexivity|lia].
           ++ cbn [bytes_eqb]. destruct (byte_eqb_spec k0 k1) as [->|]; [contradiction|reflexivity].
        -- intros Hh. cbn [nohash] in *. apply andb_true_iff in Hh as [_ Hh]. cbn [new_flag fnohash fhash andb].
           apply forallb_set_nth; [exact Hh|]. apply Hnh.
           rewrite forallb_forall in Hh. destruct (nth_in_or_default (nidx k0) cs NNil) as [Hin| ->]; [now apply Hh|reflexivity].
      * specialize (Hnd eq_refl). subst n''.
        exists false, (NFull cs f). split; [reflexivity|]. split; [exact Hn0|]. split; [reflexivity|].
        split; [eauto|]. split; [|auto].
        intros k'. destruct (bytes_eqb_spec (k0 :: krest) k') as [<-|]; [|reflexivity].
        rewrite lookup_full by exact Hl. destruct (Nat.ltb_spec (nidx k0) 17); [|lia].
        rewrite Hlk. now rewrite bytes_eqb_refl.
Qed.
