(* Trie/TrieLazyDeleteProofs.v — delete on a lazily loaded trie.
   `lzf H d sized m x`: the in-memory node x (hash nodes resolvable through the
   database d, cached hashes, dirty flags) represents the canonical loaded node
   m.  trie.go delete on x resolves the hash nodes on the path and otherwise
   behaves like delete on m: same dirty result, and the results are again
   related by lzf (delete_lazy). *)
From AQ Require Import Lib.Bytes Rlp.RlpSpec Rlp.RlpProofs Trie.MptSpec Trie.TrieModel Trie.TrieInv
  Trie.TrieProofs Trie.TrieRootProofs Trie.TrieCodecDefs Trie.TrieCodecProofs Trie.TrieReopenProofs
  Trie.TrieLazyDefs.
From AQ Require Trie.TrieDeleteProofs Trie.TrieDecodeProofs.
From Coq Require Import ZifyBool ZifyN ZifyNat.
Local Open Scope nat_scope.

Module DP := TrieDeleteProofs.

(* ------------------------------------------------------------------ lists *)

Lemma Forall2_set_nth2 (R : node -> node -> Prop) : forall cs xs i c x,
  Forall2 R cs xs -> R c x -> Forall2 R (set_nth cs i c) (set_nth xs i x).
Proof.
  intros cs xs i c x HF. revert i.
  induction HF as [|a b t1 t2 Hab HF IH]; intros [|i] Hx; cbn [set_nth]; constructor; auto.
Qed.

Lemma forallb_is_nil_F2 (R : node -> node -> Prop) : (forall a b, R a b -> is_nil a = is_nil b) ->
  forall cs xs, Forall2 R cs xs -> forallb is_nil cs = forallb is_nil xs.
Proof.
  intros HR cs xs HF. induction HF as [|a b t1 t2 Hab HF IH]; cbn [forallb]; [reflexivity|].
  rewrite (HR _ _ Hab), IH. reflexivity.
Qed.

Lemma single_child_F2 (R : node -> node -> Prop) : (forall a b, R a b -> is_nil a = is_nil b) ->
  forall cs xs, Forall2 R cs xs -> forall i, single_child cs i = single_child xs i.
Proof.
  intros HR cs xs HF. induction HF as [|a b t1 t2 Hab HF IH]; intros i; cbn [single_child]; [reflexivity|].
  rewrite (HR _ _ Hab), (forallb_is_nil_F2 R HR _ _ HF), IH. reflexivity.
Qed.

Section LazyDelete.
Variable H : bytes -> bytes.
Hypothesis Hlen : forall x, length (H x) = 32%nat.

(* ------------------------------------------------------------------ basic facts about lzf *)

Lemma flag_ok_new d s m gen : flag_ok H d s m (new_flag gen).
Proof.
  unfold flag_ok, new_flag. cbn [fhash fdirty]. split; [|split].
  - intros h E. discriminate E.
  - intros E. discriminate E.
  - intros _ E. discriminate E.
Qed.

Lemma lzf_nil_inv d s x : lzf H d s NNil x -> x = NNil.
Proof.
  intros L. inversion L as [s0 m0 Ha| | | |]; subst; [|reflexivity].
  destruct Ha as [Hc _]. discriminate Hc.
Qed.

Lemma lzf_val_inv d s v x : lzf H d s (NVal v) x -> x = NVal v.
Proof.
  intros L. inversion L as [s0 m0 Ha| | | |]; subst; [|reflexivity].
  destruct Ha as [Hc _]. discriminate Hc.
Qed.

Lemma lzf_is_nil d s m x : lzf H d s m x -> is_nil m = is_nil x.
Proof.
  intros L. inversion L as [s0 m0 Ha| | | |]; subst; try reflexivity.
  destruct Ha as [Hc _]. destruct m; try discriminate Hc; reflexivity.
Qed.

(* ------------------------------------------------------------------ a decoded node satisfies the invariant *)

Lemma flag_ok_dec d sized m hash gen :
  canon m = true -> all_fits H m -> covers H d m ->
  (forall h, hash = Some h -> h = H (spec_enc H m) /\ (sized = true -> big H m = true) /\ stored H d m) ->
  (hash = None -> sized = true /\ big H m = false) ->
  flag_ok H d sized m (mkFlag hash gen false).
Proof.
  intros Hc Hfit Hcov Hh Hn. unfold flag_ok. cbn [fhash fdirty]. split; [|split].
  - intros h E. destruct (Hh h E) as (A & B & _). split; assumption.
  - intros _. split; [exact Hc|]. split; [exact Hfit|]. split; [exact Hcov|].
    intros h E. destruct (Hh h E) as (_ & _ & C). exact C.
  - intros E _. exact (Hn E).
Qed.

Lemma dec_child_lzf d gen c : child_shape c -> all_fits H c -> cov1 H (stored H d) c ->
  (canon c = true -> big H c = false -> lzf H d true c (dec_node H gen None c)) ->
  lzf H d true c (dec_child H gen c) /\ hash_big H c (dec_child H gen c).
Proof.
  intros [->|[[v ->]|Hc]] Hfit [Hst Hcov] IH.
  - split; [apply lzf_nil|intros h E; discriminate E].
  - split; [apply lzf_val|intros h E; discriminate E].
  - rewrite (dec_child_canon H gen c Hc). destruct (big H c) eqn:Eb.
    + split; [|intros h _; exact Eb]. apply lzf_hash. unfold avail.
      split; [exact Hc|]. split; [exact Hfit|]. split; [apply Hst; [exact Hc|reflexivity]|exact Hcov].
    + split; [apply IH; [exact Hc|reflexivity]|]. intros h E. exfalso. exact (dec_node_neq_hash H gen None c h Hc E).
Qed.

Lemma dec_lzf_gen d gen : forall m, canon m = true -> all_fits H m -> covers H d m ->
  forall sized hash,
  (forall h, hash = Some h -> h = H (spec_enc H m) /\ (sized = true -> big H m = true) /\ stored H d m) ->
  (hash = None -> sized = true /\ big H m = false) ->
  lzf H d sized m (dec_node H gen hash m).
Proof.
  induction m as [|k c f IH|cs f IH|h|v] using node_ind'; intros Hc Hfit Hcov sized hash Hh Hn;
    try discriminate Hc.
  - rewrite dec_node_short.
    assert (Hs : child_shape c).
    { destruct (canon_short_inv _ _ _ Hc) as [_ [(v & -> & _)|(cs & f' & -> & _ & Hcc)]].
      - right. left. eauto.
      - right. right. exact Hcc. }
    pose proof Hfit as [_ Hfitc]. pose proof (proj1 (covers_p_short H (stored H d) k c f) Hcov) as Hcov1.
    destruct (dec_child_lzf d gen c Hs Hfitc Hcov1) as [U B].
    { intros Hcc Hsm. apply IH; [exact Hcc|exact Hfitc|exact (proj2 Hcov1)| |].
      - intros h E. discriminate E.
      - intros _. split; [reflexivity|exact Hsm]. }
    apply lzf_short; [exact U|exact B|]. apply flag_ok_dec; assumption.
  - rewrite dec_node_full. pose proof (canon_full_children _ _ Hc) as Hs.
    pose proof (proj1 (all_fits_full H cs f) Hfit) as [_ Hfits].
    pose proof (proj1 (covers_p_full H (stored H d) cs f) Hcov) as Hcovs.
    assert (HF : Forall (fun c => lzf H d true c (dec_child H gen c) /\ hash_big H c (dec_child H gen c)) cs).
    { rewrite Forall_forall in *. intros x Hin.
      apply dec_child_lzf; [apply Hs; exact Hin|apply Hfits; exact Hin|apply Hcovs; exact Hin|].
      intros Hcx Hsm. apply (IH x Hin); [exact Hcx|apply Hfits; exact Hin|exact (proj2 (Hcovs x Hin))| |].
      - intros h E. discriminate E.
      - intros _. split; [reflexivity|exact Hsm]. }
    apply lzf_full.
    + apply Forall2_map_r. eapply Forall_impl; [|exact HF]. cbv beta. tauto.
    + apply Forall2_map_r. eapply Forall_impl; [|exact HF]. cbv beta. tauto.
    + apply flag_ok_dec; assumption.
Qed.

(* the node resolveHash returns for an available node *)
Lemma dec_lzf d gen sized m : avail H d m -> (sized = true -> big H m = true) ->
  lzf H d sized m (dec_node H gen (Some (H (spec_enc H m))) m).
Proof.
  intros (Hc & Hfit & Hst & Hcov) Hb. apply dec_lzf_gen; try assumption.
  - intros h E. injection E as <-. split; [reflexivity|]. split; assumption.
  - intros E. discriminate E.
Qed.

(* an embedded child decoded in place *)
Lemma dec_lzf_embedded d gen c : canon c = true -> all_fits H c -> covers H d c -> big H c = false ->
  lzf H d true c (dec_node H gen None c).
Proof.
  intros Hc Hfit Hcov Hsm. apply dec_lzf_gen; try assumption.
  - intros h E. discriminate E.
  - intros _. split; [reflexivity|exact Hsm].
Qed.

(* ------------------------------------------------------------------ delete *)

Lemma del_facts fm d gen m key dm m' : canon m = true -> tkeyb key = true -> length key < fm ->
  delete fm d gen m key = Ok (dm, m') -> DP.del_post m key dm m'.
Proof.
  intros Hc Hk Hfm Hdel. destruct (DP.delete_canon fm d gen m key Hc Hk Hfm) as (dirty & n' & E & P).
  rewrite Hdel in E. injection E as <- <-. exact P.
Qed.

(* the single remaining child of a full node is merged into a short node:
   trie.go resolves the child if it is a hash node *)
Lemma collapse_lazy d gen sized posb cm cx dm m' :
  lzf H d true cm cx -> hash_big H cm cx ->
  bind (resolve d cm gen) (fun cnode =>
    match cnode with
    | NShort ck cv _ => Ok (true, NShort (posb :: ck) cv (new_flag gen))
    | _ => Ok (true, NShort [posb] cm (new_flag gen))
    end) = Ok (dm, m') ->
  exists x',
    bind (resolve d cx gen) (fun cnode =>
      match cnode with
      | NShort ck cv _ => Ok (true, NShort (posb :: ck) cv (new_flag gen))
      | _ => Ok (true, NShort [posb] cx (new_flag gen))
      end) = Ok (dm, x')
    /\ lzf H d sized m' x' /\ (dm = true -> is_hash x' = false).
Proof.
  intros L B E.
  inversion L as [s0 m0 Ha | s0 | s0 v0 | s0 k c x1 f f' Hu1 Hb1 Hfl | s0 cs xs f f' Hus Hbs Hfl]; subst.
  - (* the child is a hash node: resolved through the database *)
    pose proof Ha as (Hc & Hfit & Hst & Hcov). cbn [resolve].
    rewrite (resolve_stored H Hlen d cm gen Hc (all_fits_top H cm Hc Hfit) Hst). cbn [bind].
    destruct cm as [|k c f|cs f|h|v]; try discriminate Hc.
    + cbn [resolve bind] in E. injection E as <- <-. rewrite dec_node_short.
      exists (NShort (posb :: k) (dec_child H gen c) (new_flag gen)). split; [reflexivity|]. split; [|reflexivity].
      pose proof (dec_lzf d gen false _ Ha (fun E0 : false = true => False_ind _ (Bool.diff_false_true E0))) as Ld.
      rewrite dec_node_short in Ld.
      inversion Ld as [ | | | s1 k1 c1 x1 f1 f1' Hu1 Hb1 Hfl1 | ]; subst.
      apply lzf_short; [exact Hu1|exact Hb1|apply flag_ok_new].
    + cbn [resolve bind] in E. injection E as <- <-. rewrite dec_node_full.
      exists (NShort [posb] (NHash (H (spec_enc H (NFull cs f)))) (new_flag gen)).
      split; [reflexivity|]. split; [|reflexivity].
      apply lzf_short; [exact L|exact B|apply flag_ok_new].
  - cbn [resolve bind] in E |- *. injection E as <- <-.
    exists (NShort [posb] NNil (new_flag gen)). split; [reflexivity|]. split; [|reflexivity].
    apply lzf_short; [exact L|exact B|apply flag_ok_new].
  - cbn [resolve bind] in E |- *. injection E as <- <-.
    exists (NShort [posb] (NVal v0) (new_flag gen)). split; [reflexivity|]. split; [|reflexivity].
    apply lzf_short; [exact L|exact B|apply flag_ok_new].
  - cbn [resolve bind] in E |- *. injection E as <- <-.
    exists (NShort (posb :: k) x1 (new_flag gen)). split; [reflexivity|]. split; [|reflexivity].
    apply lzf_short; [exact Hu1|exact Hb1|apply flag_ok_new].
  - cbn [resolve bind] in E |- *. injection E as <- <-.
    exists (NShort [posb] (NFull xs f') (new_flag gen)). split; [reflexivity|]. split; [|reflexivity].
    apply lzf_short; [exact L|exact B|apply flag_ok_new].
Qed.


(* delete on the in-memory form x follows delete on the loaded node m *)
Lemma delete_lazy_gen : forall fuel d gen sized m x key fm dm m',
  canon m = true -> lzf H d sized m x -> (sized = true -> hash_big H m x) ->
  tkeyb key = true -> 2 * length key + (if is_hash x then 2 else 1) <= fuel ->
  length key < fm -> delete fm d gen m key = Ok (dm, m') ->
  exists x', delete fuel d gen x key = Ok (dm, x') /\ lzf H d sized m' x' /\
             (dm = true -> is_hash x' = false).
Proof.
  induction fuel as [|fuel IH]; intros d gen sized m x key fm dm m' Hc Hl Hhb Hk Hfuel Hfm Hdel;
    [clear - Hfuel; destruct (is_hash x); lia|].
  destruct fm as [|fm]; [clear - Hfm; lia|].
  pose proof (del_facts _ _ _ _ _ _ _ Hc Hk Hfm Hdel) as Hpost.
  pose proof Hl as Hl0.
  rewrite DP.delete_S.
  inversion Hl as [s0 m0 Ha | s0 | s0 v0 | s0 k c x1 f f' Hu1 Hb1 Hfl | s0 cs xs f f' Hus Hbs Hfl]; subst;
    try discriminate Hc.
  - (* a hash node: resolve through the database, continue on the decoded node *)
    pose proof Ha as (_ & Hfit & Hst & Hcov). cbn [is_hash] in Hfuel.
    rewrite (resolve_stored H Hlen d m gen Hc (all_fits_top H m Hc Hfit) Hst). cbn [bind].
    assert (Ld : lzf H d sized m (dec_node H gen (Some (H (spec_enc H m))) m)).
    { apply dec_lzf; [exact Ha|]. intros Es. exact (Hhb Es _ eq_refl). }
    destruct (IH d gen sized m (dec_node H gen (Some (H (spec_enc H m))) m) key (S fm) dm m' Hc Ld)
      as (x' & E & L' & Hnh).
    + intros _ h E. exfalso. exact (dec_node_neq_hash H _ _ _ _ Hc E).
    + exact Hk.
    + rewrite dec_node_not_hash by exact Hc. clear - Hfuel. lia.
    + exact Hfm.
    + exact Hdel.
    + rewrite E. cbn [bind]. destruct dm.
      * exists x'. split; [reflexivity|]. split; [exact L'|exact Hnh].
      * exists (dec_node H gen (Some (H (spec_enc H m))) m). split; [reflexivity|]. split; [|discriminate].
        destruct Hpost as [P1 _]. rewrite (P1 eq_refl). exact Ld.
  - (* short node *)
    rewrite DP.delete_S in Hdel. cbv zeta in Hdel |- *. cbn [is_hash] in Hfuel.
    rewrite DP.canon_short_eq in Hc. apply andb_true_iff in Hc as [Hne Hc]. apply DP.nonempty_len in Hne.
    revert Hdel. destruct (Nat.ltb_spec (prefix_len key k) (length k)) as [Hm|Hm]; intros Hdel.
    + injection Hdel as <- <-. exists (NShort k x1 f'). split; [reflexivity|]. split; [exact Hl0|discriminate].
    + pose proof (DP.prefix_len_le_r key k) as Hle.
      assert (Em : prefix_len key k = length k) by (clear - Hm Hle; lia). clear Hm Hle.
      pose proof (DP.prefix_len_full _ _ Em) as Hp. rewrite Em in Hdel |- *. clear Em.
      remember (skipn (length k) key) as rest eqn:Er. clear Er. subst key.
      rewrite app_length in Hfuel, Hfm.
      destruct c as [| |cs' fc| |v]; try discriminate Hc.
      * (* extension over a full node *)
        apply andb_true_iff in Hc as [Hpath Hcc]. rewrite DP.tkeyb_app_path in Hk by auto.
        assert (Hr1 : 1 <= length rest) by (destruct rest; [discriminate|cbn [length]; clear; lia]).
        assert (En : Nat.eqb (length k) (length (k ++ rest)) = false).
        { apply Nat.eqb_neq. rewrite app_length. clear - Hr1. lia. }
        rewrite En in Hdel |- *.
        destruct (delete fm d gen (NFull cs' fc) rest) as [[dc c']| | | |] eqn:Ec; cbn [bind] in Hdel;
          try discriminate Hdel.
        destruct (IH d gen true (NFull cs' fc) x1 rest fm dc c' Hcc Hu1 (fun _ => Hb1) Hk)
          as (x1' & Ex & L' & Hnh).
        -- clear - Hfuel Hne. destruct (is_hash x1); lia.
        -- clear - Hfm Hne. lia.
        -- exact Ec.
        -- rewrite Ex. cbn [bind]. destruct dc; cbn [negb] in Hdel |- *.
           ++ specialize (Hnh eq_refl).
              inversion L' as [s1 m1 Ha1 | s1 | s1 v1 | s1 k1 c1 y1 f1 f1' Hu2 Hb2 Hfl2
                               | s1 cs1 xs1 f1 f1' Hus2 Hbs2 Hfl2]; subst;
                cbn [is_hash] in Hnh; try discriminate Hnh.
              ** injection Hdel as <- <-. exists (NShort k NNil (new_flag gen)).
                 split; [reflexivity|]. split; [|reflexivity].
                 apply lzf_short; [exact L'|intros h E; discriminate E|apply flag_ok_new].
              ** injection Hdel as <- <-. exists (NShort k (NVal v1) (new_flag gen)).
                 split; [reflexivity|]. split; [|reflexivity].
                 apply lzf_short; [exact L'|intros h E; discriminate E|apply flag_ok_new].
              ** injection Hdel as <- <-. exists (NShort (k ++ k1) y1 (new_flag gen)).
                 split; [reflexivity|]. split; [|reflexivity].
                 apply lzf_short; [exact Hu2|exact Hb2|apply flag_ok_new].
              ** injection Hdel as <- <-. exists (NShort k (NFull xs1 f1') (new_flag gen)).
                 split; [reflexivity|]. split; [|reflexivity].
                 apply lzf_short; [exact L'|intros h E; discriminate E|apply flag_ok_new].
           ++ injection Hdel as <- <-. exists (NShort k x1 f').
              split; [reflexivity|]. split; [exact Hl0|discriminate].
      * (* leaf *)
        apply andb_true_iff in Hc as [Htk Hv]. apply (DP.tkeyb_app_nil k rest Htk) in Hk. subst rest.
        rewrite app_nil_r in Hdel |- *. rewrite Nat.eqb_refl in Hdel |- *.
        injection Hdel as <- <-. exists NNil. split; [reflexivity|]. split; [apply lzf_nil|reflexivity].
  - (* full node *)
    rewrite DP.delete_S in Hdel. cbn [is_hash] in Hfuel.
    destruct key as [|k0 krest]; [discriminate Hk|].
    pose proof Hc as Hc'. apply (DP.canon_full_elim cs f) in Hc' as (Hl17 & Hs & _).
    pose proof (Forall2_len _ _ _ Hus) as Hlx.
    apply DP.tkeyb_head in Hk as [Hi Hk]. cbn [length] in Hfuel, Hfm.
    assert (Hi1 : nidx k0 < length cs) by (clear - Hi Hl17; lia).
    assert (Hi2 : nidx k0 < length xs) by (clear - Hi Hl17 Hlx; lia).
    rewrite (DP.get_child_ok cs k0 Hi1) in Hdel. rewrite (DP.get_child_ok xs k0 Hi2).
    cbn [bind] in Hdel |- *.
    specialize (Hs (nidx k0) Hi). unfold DP.slot_ok in Hs.
    pose proof (Forall2_nth_d (lzf H d true) NNil NNil (lzf_nil H d true) _ _ Hus (nidx k0)) as Hu1.
    pose proof (Forall2_nth_d (hash_big H) NNil NNil (hash_big_nil H) _ _ Hbs (nidx k0)) as Hb1.
    destruct (delete fm d gen (nth (nidx k0) cs NNil) krest) as [[dc c']| | | |] eqn:Ec; cbn [bind] in Hdel;
      try discriminate Hdel.
    assert (Hch : exists x1', delete fuel d gen (nth (nidx k0) xs NNil) krest = Ok (dc, x1') /\
                    lzf H d true c' x1' /\ (dc = true -> is_hash x1' = false)).
    { remember (nth (nidx k0) cs NNil) as c eqn:Eqc. remember (nth (nidx k0) xs NNil) as x1 eqn:Eqx.
      clear Eqc Eqx.
      destruct Hk as [(Hn & Hkr & Hlt)|[E1 E2]].
      - destruct (Nat.ltb_spec (nidx k0) 16) as [_|Hbad]; [|clear - Hlt Hbad; lia].
        apply orb_true_iff in Hs as [Hs|Hs].
        + apply DP.is_nil_eq in Hs. subst c. apply lzf_nil_inv in Hu1. subst x1.
          destruct fm as [|fm']; [clear - Hfm; lia|]. destruct fuel as [|fuel']; [clear - Hfuel; lia|].
          rewrite DP.delete_S in Ec. injection Ec as <- <-. rewrite DP.delete_S.
          exists NNil. split; [reflexivity|]. split; [apply lzf_nil|discriminate].
        + apply (IH d gen true c x1 krest fm dc c' Hs Hu1 (fun _ => Hb1) Hkr).
          * clear - Hfuel. destruct (is_hash x1); lia.
          * clear - Hfm. lia.
          * exact Ec.
      - subst k0 krest. rewrite DP.nidx_term in Hs. cbn [Nat.ltb Nat.leb] in Hs.
        destruct fm as [|fm']; [clear - Hfm; cbn [length] in Hfm; lia|].
        destruct fuel as [|fuel']; [clear - Hfuel; cbn [length] in Hfuel; lia|].
        rewrite DP.delete_S in Ec. rewrite DP.delete_S.
        destruct c as [| | | |v]; try discriminate Hs.
        + apply lzf_nil_inv in Hu1. subst x1. injection Ec as <- <-.
          exists NNil. split; [reflexivity|]. split; [apply lzf_nil|discriminate].
        + apply lzf_val_inv in Hu1. subst x1. injection Ec as <- <-.
          exists NNil. split; [reflexivity|]. split; [apply lzf_nil|reflexivity]. }
    destruct Hch as (x1' & Ex & L' & Hnh). rewrite Ex. cbn [bind].
    destruct dc; cbn [negb] in Hdel |- *.
    2:{ injection Hdel as <- <-. exists (NFull xs f'). split; [reflexivity|]. split; [exact Hl0|discriminate]. }
    specialize (Hnh eq_refl).
    rewrite (set_child_ok cs k0 c' Hi1) in Hdel. rewrite (set_child_ok xs k0 x1' Hi2).
    cbn [bind] in Hdel |- *.
    assert (HF : Forall2 (lzf H d true) (set_nth cs (nidx k0) c') (set_nth xs (nidx k0) x1'))
      by (apply Forall2_set_nth2; assumption).
    assert (HB : Forall2 (hash_big H) (set_nth cs (nidx k0) c') (set_nth xs (nidx k0) x1')).
    { apply Forall2_set_nth2; [assumption|]. intros h E. rewrite E in Hnh. discriminate Hnh. }
    rewrite <- (single_child_F2 (lzf H d true) (lzf_is_nil d true) _ _ HF 0).
    remember (set_nth cs (nidx k0) c') as cs1 eqn:Ecs1. remember (set_nth xs (nidx k0) x1') as xs1 eqn:Exs1.
    clear Ecs1 Exs1.
    destruct (single_child cs1 0) as [[pos|]|].
    + cbv zeta in Hdel |- *.
      pose proof (Forall2_nth_d (lzf H d true) NNil NNil (lzf_nil H d true) _ _ HF pos) as Lp.
      pose proof (Forall2_nth_d (hash_big H) NNil NNil (hash_big_nil H) _ _ HB pos) as Bp.
      destruct (Nat.eqb pos 16); cbn [negb] in Hdel |- *.
      * injection Hdel as <- <-.
        exists (NShort [n2b (N.of_nat pos)] (nth pos xs1 NNil) (new_flag gen)).
        split; [reflexivity|]. split; [|reflexivity].
        apply lzf_short; [exact Lp|exact Bp|apply flag_ok_new].
      * exact (collapse_lazy d gen sized _ _ _ dm m' Lp Bp Hdel).
    + injection Hdel as <- <-. exists (NFull xs1 (new_flag gen)).
      split; [reflexivity|]. split; [|reflexivity].
      apply lzf_full; [exact HF|exact HB|apply flag_ok_new].
    + injection Hdel as <- <-. exists (NFull xs1 (new_flag gen)).
      split; [reflexivity|]. split; [|reflexivity].
      apply lzf_full; [exact HF|exact HB|apply flag_ok_new].
Qed.


(* ------------------------------------------------------------------ the root *)

Theorem delete_lazy_dirty : forall d gen m x key fuel,
  canon_root m = true -> lzf H d false m x -> tkeyb key = true -> 2 * length key + 4 <= fuel ->
  exists dm x' m',
    delete (S (length key)) d gen m key = Ok (dm, m') /\
    delete fuel d gen x key = Ok (dm, x') /\
    lzf H d false m' x' /\
    (dm = true -> is_hash x' = false) /\
    (dm = false -> m' = m) /\
    canon_root m' = true /\
    (forall k', tkeyb k' = true ->
       lookup (content_of m') k' = if bytes_eqb key k' then None else lookup (content_of m) k').
Proof.
  intros d gen m x key fuel Hcr Hl Hk Hfuel. unfold canon_root in Hcr. apply orb_true_iff in Hcr as [Hn|Hc].
  - apply DP.is_nil_eq in Hn. subst m. apply lzf_nil_inv in Hl. subst x.
    destruct fuel as [|fuel]; [clear - Hfuel; lia|].
    exists false, NNil, NNil. split; [reflexivity|]. split; [reflexivity|]. split; [apply lzf_nil|].
    split; [discriminate|]. split; [reflexivity|]. split; [reflexivity|].
    intros k' _. destruct (bytes_eqb key k'); reflexivity.
  - destruct (DP.delete_canon (S (length key)) d gen m key Hc Hk (Nat.lt_succ_diag_r _))
      as (dm & m' & E & P1 & P2 & _ & P4 & _).
    destruct (delete_lazy_gen fuel d gen false m x key (S (length key)) dm m' Hc Hl) as (x' & Ex & L' & Hnh).
    + intros E0. discriminate E0.
    + exact Hk.
    + clear - Hfuel. destruct (is_hash x); lia.
    + apply Nat.lt_succ_diag_r.
    + exact E.
    + exists dm, x', m'. split; [exact E|]. split; [exact Ex|]. split; [exact L'|].
      split; [exact Hnh|]. split; [exact P1|]. split; [exact P2|exact P4].
Qed.

Theorem delete_lazy : forall d gen m x key fuel,
  canon_root m = true -> lzf H d false m x -> tkeyb key = true -> (2 * length key + 4 <= fuel)%nat ->
  exists dirty x' dm m',
    delete (S (length key)) d gen m key = Ok (dm, m') /\
    delete fuel d gen x key = Ok (dirty, x') /\
    lzf H d false m' x'.
Proof.
  intros d gen m x key fuel Hcr Hl Hk Hfuel.
  destruct (delete_lazy_dirty d gen m x key fuel Hcr Hl Hk Hfuel) as (dm & x' & m' & E1 & E2 & L & _).
  exists dm, x', dm, m'. split; [exact E1|]. split; [exact E2|exact L].
Qed.

(* Trie.TryDelete on a lazily loaded trie: succeeds (no missing node, no panic),
   the new trie represents a canonical root without the key *)
Theorem trie_delete_lazy : forall d m t key,
  lazy_trie H d m t ->
  exists t' m',
    trie_delete t d key = Ok t' /\ lazy_trie H d m' t' /\
    (forall k', tkeyb k' = true ->
       lookup (content_of m') k' =
       if bytes_eqb (keybytes_to_hex key) k' then None else lookup (content_of m) k').
Proof.
  intros d m t key (Hcr & Hl & Hg & Hlim).
  pose proof (TrieDecodeProofs.tkeyb_keybytes_to_hex key) as Hk.
  destruct (delete_lazy_dirty d (tgen t) m (troot t) (keybytes_to_hex key) (key_fuel (keybytes_to_hex key))
              Hcr Hl Hk) as (dm & x' & m' & _ & E2 & L & _ & _ & Hcr' & Hlk).
  - unfold key_fuel. generalize (length (keybytes_to_hex key)). clear. intros n. lia.
  - exists (mkTrie x' (tgen t) (tlimit t)), m'. split.
    + unfold trie_delete. rewrite E2. reflexivity.
    + split; [|exact Hlk]. unfold lazy_trie. cbn [troot tgen tlimit]. auto.
Qed.

End LazyDelete.
