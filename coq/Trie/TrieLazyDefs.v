(* Trie/TrieLazyDefs.v — the invariant of a trie as the Go code holds it in
   general: partly in memory, partly unloaded to hash nodes whose encodings are
   in the node database, with cached hashes and dirty flags.  `lzf H d sized m x`:
   the in-memory node x represents the canonical, fully loaded node m, given
   database d.  Definitions only. *)
From AQ Require Import Lib.Bytes Rlp.RlpSpec Trie.MptSpec Trie.TrieModel Trie.TrieInv Trie.TrieCodecDefs
  Trie.TrieReopenProofs.
Local Open Scope N_scope.

Section Lazy.
Variable H : bytes -> bytes.
Variable d : db.

(* m is readable from the database together with everything below it *)
Definition avail (m : node) : Prop :=
  canon m = true /\ all_fits H m /\ stored H d m /\ covers H d m.

(* flags of an in-memory node standing for m: a cached hash is the hash of m's
   specification encoding, and (in child position: sized) is only cached when
   the encoding has at least 32 bytes; a clean node (not dirty) has been written or read:
   everything below it that is referenced by hash is in the database, and so is
   the node itself if its hash is cached *)
Definition flag_ok (sized : bool) (m : node) (f : flag) : Prop :=
  (forall h, fhash f = Some h -> h = H (spec_enc H m) /\ (sized = true -> big H m = true)) /\
  (fdirty f = false ->
     canon m = true /\ all_fits H m /\ covers H d m /\ (forall h, fhash f = Some h -> stored H d m)) /\
  (* a clean node without cached hash is an embedded (small) child: decodeNode of an
     inline reference, or a small child after Commit; never the root, never a big node *)
  (fhash f = None -> fdirty f = false -> sized = true /\ big H m = false).

Inductive lzf : bool -> node -> node -> Prop :=
| lzf_hash s m : avail m -> lzf s m (NHash (H (spec_enc H m)))
| lzf_nil s : lzf s NNil NNil
| lzf_val s v : lzf s (NVal v) (NVal v)
| lzf_short s k c x f f' :
    lzf true c x -> hash_big H c x -> flag_ok s (NShort k c f) f' -> lzf s (NShort k c f) (NShort k x f')
| lzf_full s cs xs f f' :
    Forall2 (lzf true) cs xs -> Forall2 (hash_big H) cs xs -> flag_ok s (NFull cs f) f' ->
    lzf s (NFull cs f) (NFull xs f').
End Lazy.

(* a trie value t held over database d represents the canonical loaded root m *)
Definition lazy_trie (H : bytes -> bytes) (d : db) (m : node) (t : trie) : Prop :=
  canon_root m = true /\ lzf H d false m (troot t) /\ tgen t < 65536 /\ tlimit t < 65536.
