(* Trie/TrieFitsProofs.v — `all_fits H n` (every RLP size written in a header,
   for a canonical node and all nodes below it, is below 2^64) derived from a
   bound on the stored data: the total size of keys and values of the node's
   content.  No all_fits premise is needed once the content is bounded.

   Key observation: a child reference inside a node is either the 32-byte hash
   of the child (at most 41 bytes once encoded) or the child's own encoding when
   that is shorter than 32 bytes.  So the encoding of one node is bounded by its
   own key, its own value and a constant: no length induction over the subtree
   is required, only the fact that every key and value occurring below a node
   is accounted for in the size of the node's content. *)
From AQ Require Import Lib.Bytes Rlp.RlpSpec Rlp.RlpProofs Trie.MptSpec Trie.TrieModel Trie.TrieInv
  Trie.TrieProofs Trie.TrieRootProofs Trie.TrieCodecDefs Trie.TrieCodecProofs.
From Coq Require Import ZifyBool ZifyN ZifyNat Permutation.
Local Open Scope N_scope.

(* ------------------------------------------------------------------ sizes of a content *)

(* bytes of keys (as nibble paths) and values *)
Definition content_bytes (J : content) : N :=
  fold_right (fun kv acc => lenN (fst kv) + lenN (snd kv) + acc) 0 J.
(* the same with a per-entry constant *)
Definition content_size (J : content) : N :=
  fold_right (fun kv acc => lenN (fst kv) + lenN (snd kv) + 64 + acc) 0 J.
(* a content with byte keys: two nibbles per key byte plus the terminator *)
Definition byte_content_size (c : content) : N :=
  fold_right (fun kv acc => 2 * lenN (fst kv) + lenN (snd kv) + 65 + acc) 0 c.

Lemma content_bytes_cons (kv : bytes * bytes) (J : content) : content_bytes (kv :: J) = lenN (fst kv) + lenN (snd kv) + content_bytes J.
Proof. reflexivity. Qed.
Lemma content_size_cons (kv : bytes * bytes) (J : content) : content_size (kv :: J) = lenN (fst kv) + lenN (snd kv) + 64 + content_size J.
Proof. reflexivity. Qed.
Lemma byte_content_size_cons (kv : bytes * bytes) (c : content) :
  byte_content_size (kv :: c) = 2 * lenN (fst kv) + lenN (snd kv) + 65 + byte_content_size c.
Proof. reflexivity. Qed.

Lemma content_bytes_app (A B : content) : content_bytes (A ++ B) = content_bytes A + content_bytes B.
Proof.
  induction A as [|kv A IH]; [reflexivity|].
  cbn [app]. rewrite !content_bytes_cons, IH. lia.
Qed.
Lemma content_size_app (A B : content) : content_size (A ++ B) = content_size A + content_size B.
Proof.
  induction A as [|kv A IH]; [reflexivity|].
  cbn [app]. rewrite !content_size_cons, IH. lia.
Qed.
Lemma byte_content_size_app (A B : content) : byte_content_size (A ++ B) = byte_content_size A + byte_content_size B.
Proof.
  induction A as [|kv A IH]; [reflexivity|].
  cbn [app]. rewrite !byte_content_size_cons, IH. lia.
Qed.

Lemma content_bytes_le_size (J : content) : content_bytes J <= content_size J.
Proof.
  induction J as [|kv J IH]; [cbn; lia|].
  rewrite content_bytes_cons, content_size_cons. lia.
Qed.
Lemma content_size_eq (J : content) : content_size J = content_bytes J + 64 * lenN J.
Proof.
  induction J as [|kv J IH]; [reflexivity|].
  rewrite content_bytes_cons, content_size_cons, lenN_cons, IH. lia.
Qed.

Lemma content_bytes_perm (J J' : content) : Permutation J J' -> content_bytes J = content_bytes J'.
Proof.
  induction 1 as [|x l l' _ IH|x y l|l l' l'' _ IH1 _ IH2].
  - reflexivity.
  - rewrite !content_bytes_cons, IH. reflexivity.
  - rewrite !content_bytes_cons. lia.
  - congruence.
Qed.
Lemma content_size_perm (J J' : content) : Permutation J J' -> content_size J = content_size J'.
Proof.
  induction 1 as [|x l l' _ IH|x y l|l l' l'' _ IH1 _ IH2].
  - reflexivity.
  - rewrite !content_size_cons, IH. reflexivity.
  - rewrite !content_size_cons. lia.
  - congruence.
Qed.
Lemma byte_content_size_perm (c c' : content) : Permutation c c' -> byte_content_size c = byte_content_size c'.
Proof.
  induction 1 as [|x l l' _ IH|x y l|l l' l'' _ IH1 _ IH2].
  - reflexivity.
  - rewrite !byte_content_size_cons, IH. reflexivity.
  - rewrite !byte_content_size_cons. lia.
  - congruence.
Qed.

Lemma content_bytes_in (kv : bytes * bytes) (J : content) : In kv J -> lenN (fst kv) + lenN (snd kv) <= content_bytes J.
Proof.
  induction J as [|x J IH]; intros Hin; [destruct Hin|].
  rewrite content_bytes_cons. destruct Hin as [->|Hin]; [lia|]. specialize (IH Hin). lia.
Qed.

(* byte keys *)
Lemma key_nibbles_len s : lenN (key_nibbles s) = 2 * lenN s + 1.
Proof.
  induction s as [|b t IH]; [reflexivity|].
  cbn [key_nibbles]. rewrite !lenN_cons, IH. lia.
Qed.
Lemma content_size_byte_keys (c : content) :
  content_size (map (fun kv => (key_nibbles (fst kv), snd kv)) c) = byte_content_size c.
Proof.
  induction c as [|kv c IH]; [reflexivity|].
  cbn [map]. rewrite content_size_cons, byte_content_size_cons, IH. cbn [fst snd].
  rewrite key_nibbles_len. lia.
Qed.

(* a short node's key is paid for by every entry below it *)
Lemma content_bytes_pre_key_le (k : bytes) (J : content) : content_bytes J <= content_bytes (map (pre_key k) J).
Proof.
  induction J as [|kv J IH]; [cbn; lia|].
  cbn [map]. rewrite !content_bytes_cons. cbn [pre_key fst snd]. rewrite lenN_app. lia.
Qed.
Lemma content_bytes_pre_key (k : bytes) (J : content) : J <> [] -> lenN k + content_bytes J <= content_bytes (map (pre_key k) J).
Proof.
  destruct J as [|kv J]; [congruence|]. intros _.
  cbn [map]. rewrite !content_bytes_cons. cbn [pre_key fst snd]. rewrite lenN_app.
  pose proof (content_bytes_pre_key_le k J). lia.
Qed.

(* a full node's content contains the content of every slot *)
Lemma content_bytes_pre_nib_le i (J : content) : content_bytes J <= content_bytes (map (pre_nib i) J).
Proof.
  induction J as [|kv J IH]; [cbn; lia|].
  cbn [map]. rewrite !content_bytes_cons. cbn [pre_nib fst snd]. rewrite lenN_cons. lia.
Qed.
Lemma content_bytes_join_in : forall (L : list content) i (c : content), In c L -> content_bytes c <= content_bytes (join i L).
Proof.
  induction L as [|c0 L IH]; intros i c Hin; [destruct Hin|].
  cbn [join]. rewrite content_bytes_app. destruct Hin as [->|Hin].
  - pose proof (content_bytes_pre_nib_le i c). lia.
  - specialize (IH (S i) c Hin). lia.
Qed.
Lemma content_bytes_child cs f x : In x cs ->
  content_bytes (content_of x) <= content_bytes (content_of (NFull cs f)).
Proof.
  intros Hin. cbn [content_of]. apply content_bytes_join_in. apply in_map. exact Hin.
Qed.

(* ------------------------------------------------------------------ lengths of encodings *)

Lemma enc_len_le k c : lenN c < two64 -> lenN (enc k c) <= lenN c + 9.
Proof.
  intros H64. destruct k; unfold enc, enc_hdr.
  - destruct (is_single_low c); [lia|].
    destruct (N.ltb_spec (lenN c) 56) as [Hs|Hl].
    + rewrite lenN_app, lenN_cons, lenN_nil. lia.
    + destruct (be_len_bounds (lenN c) Hl H64) as [_ B].
      rewrite lenN_app, lenN_cons. lia.
  - destruct (N.ltb_spec (lenN c) 56) as [Hs|Hl].
    + rewrite lenN_app, lenN_cons, lenN_nil. lia.
    + destruct (be_len_bounds (lenN c) Hl H64) as [_ B].
      rewrite lenN_app, lenN_cons. lia.
Qed.

Lemma fits_Str_of s : lenN s < two64 -> fits (Str s) = true.
Proof. intros Hs. cbn [fits]. now apply N.ltb_lt. Qed.

Lemma encode_Str_le s : lenN s < two64 -> lenN (encode (Str s)) <= lenN s + 9.
Proof. intros Hs. rewrite encode_Str. now apply enc_len_le. Qed.

Lemma fits_Lst_of l : fits_list l = true -> lenN (encode_list l) < two64 -> fits (Lst l) = true.
Proof. intros A B. rewrite fits_Lst, A. cbn [andb]. now apply N.ltb_lt. Qed.

(* compact keys are not longer than the nibble key plus the flag byte *)
Lemma pack_len_aux x : (length (pack x) <= length x)%nat /\
                       (forall a, (length (pack (a :: x)) <= S (length x))%nat).
Proof.
  induction x as [|b t [IH1 IH2]].
  - split; [cbn; lia|]. intros a. cbn. lia.
  - split; [apply IH2|]. intros a. cbn [pack length]. lia.
Qed.
Lemma pack_len x : lenN (pack x) <= lenN x.
Proof. unfold lenN. pose proof (proj1 (pack_len_aux x)). lia. Qed.

Lemma hp_len x t : lenN (hp x t) <= lenN x + 1.
Proof.
  unfold hp. destruct (Nat.even (length x)).
  - rewrite lenN_cons. pose proof (pack_len x). lia.
  - destruct x as [|h r]; [rewrite lenN_nil; lia|].
    rewrite !lenN_cons. pose proof (pack_len r). lia.
Qed.

Lemma removelast_len {A} (l : list A) : lenN (removelast l) <= lenN l.
Proof.
  induction l as [|a l IH]; [cbn; lia|].
  destruct l as [|b l]; [cbn; lia|].
  change (removelast (a :: b :: l)) with (a :: removelast (b :: l)).
  rewrite !lenN_cons in *. lia.
Qed.

Lemma hex_to_compact_len_tkey k : tkeyb k = true -> lenN (hex_to_compact k) <= lenN k + 1.
Proof.
  intros Hk. rewrite hex_to_compact_tkey by exact Hk.
  pose proof (hp_len (removelast k) true). pose proof (removelast_len k). lia.
Qed.
Lemma hex_to_compact_len_path k : pathb k = true -> lenN (hex_to_compact k) <= lenN k + 1.
Proof. intros Hk. rewrite hex_to_compact_path by exact Hk. apply hp_len. Qed.

(* ------------------------------------------------------------------ all_fits, unfolded *)

Section Fits.
Variable H : bytes -> bytes.
Hypothesis Hlen : forall x, length (H x) = 32%nat.

Lemma all_fits_short_iff k c f :
  all_fits H (NShort k c f) <-> fits (spec_item H (NShort k c f)) = true /\ all_fits H c.
Proof. reflexivity. Qed.

Lemma all_fits_go_of cs : (forall x, In x cs -> all_fits H x) ->
  (fix go (l : list node) : Prop :=
     match l with [] => True | x :: t => all_fits H x /\ go t end) cs.
Proof.
  induction cs as [|x t IH]; intros HA; [exact I|].
  split; [apply HA; left; reflexivity|]. apply IH. intros y Hy. apply HA. right. exact Hy.
Qed.

Lemma all_fits_full_of cs f :
  fits (spec_item H (NFull cs f)) = true -> (forall x, In x cs -> all_fits H x) ->
  all_fits H (NFull cs f).
Proof. intros A B. split; [exact A|]. now apply all_fits_go_of. Qed.

Lemma lenH_lt x : lenN (H x) < two64.
Proof. unfold lenN. rewrite Hlen. reflexivity. Qed.
Lemma lenH x : lenN (H x) = 32.
Proof. unfold lenN. rewrite Hlen. reflexivity. Qed.

(* a child reference: at most 41 bytes, and it fits when the child's item does *)
Lemma n_ref_len m J : lenN (encode (n_ref H m J)) <= 41.
Proof.
  destruct J as [|kv J].
  - cbn [n_ref]. pose proof (encode_Str_le []) as B. rewrite lenN_nil in B.
    specialize (B ltac:(reflexivity)). lia.
  - rewrite n_ref_ne by discriminate.
    destruct (N.ltb_spec (lenN (encode (mpt_c H m (kv :: J)))) 32) as [Hs|Hb]; [lia|].
    pose proof (encode_Str_le _ (lenH_lt (encode (mpt_c H m (kv :: J))))) as B.
    rewrite lenH in B. lia.
Qed.

Lemma n_ref_fits m x : canon x = true -> (max_key_len (content_of x) < m)%nat ->
  fits (spec_item H x) = true -> fits (n_ref H m (content_of x)) = true.
Proof.
  intros Hc Hm Hf. rewrite (n_ref_spec H m x Hc Hm).
  destruct (big H x); [|exact Hf]. apply fits_Str_of. apply lenH_lt.
Qed.

(* the slots of a full node *)
Lemma items_fit m B : forall l i,
  slots_ok i l ->
  (forall x, In x l -> canon x = true -> (max_key_len (content_of x) < m)%nat) ->
  (forall x, In x l -> canon x = true -> fits (spec_item H x) = true) ->
  (forall x, In x l -> content_bytes (content_of x) <= B) ->
  B < two64 ->
  fits_list (items H m i l) = true /\ lenN (encode_list (items H m i l)) <= lenN l * (41 + B).
Proof.
  induction l as [|x t IH]; intros i Hs Hm Hf Hb HB.
  - split; [reflexivity|]. cbn. lia.
  - destruct Hs as [Hx Hs].
    destruct (IH (S i) Hs
                 (fun y Hy => Hm y (or_intror Hy))
                 (fun y Hy => Hf y (or_intror Hy))
                 (fun y Hy => Hb y (or_intror Hy)) HB) as [IHf IHl].
    assert (Hone : fits (item_at H m i x) = true /\ lenN (encode (item_at H m i x)) <= 41 + B).
    { unfold item_at. unfold child_ok in Hx. destruct (Nat.ltb i 16).
      - split; [|pose proof (n_ref_len m (content_of x)); lia].
        destruct Hx as [->|Hcx]; [reflexivity|].
        apply n_ref_fits; [exact Hcx|apply Hm; [left; reflexivity|exact Hcx]|
                           apply Hf; [left; reflexivity|exact Hcx]].
      - destruct Hx as [->|[v ->]].
        + cbn [content_of]. split; [reflexivity|].
          pose proof (encode_Str_le []) as E. rewrite lenN_nil in E.
          specialize (E ltac:(reflexivity)). lia.
        + cbn [content_of]. specialize (Hb (NVal v) (or_introl eq_refl)).
          cbn [content_of] in Hb. rewrite content_bytes_cons in Hb. cbn [fst snd] in Hb.
          assert (Hv : lenN v < two64) by lia.
          split; [now apply fits_Str_of|]. pose proof (encode_Str_le v Hv). lia. }
    destruct Hone as [H1 H2]. cbn [items]. split.
    + unfold fits_list in *. cbn [forallb]. now rewrite H1, IHf.
    + rewrite encode_list_cons, lenN_app, lenN_cons. lia.
Qed.

(* ------------------------------------------------------------------ the derivation *)

Definition fits_bound : N := 2 ^ 58.

Lemma all_fits_of_bytes : forall n, canon n = true ->
  content_bytes (content_of n) < fits_bound -> all_fits H n /\ fits (spec_item H n) = true.
Proof.
  assert (HB : fits_bound = 288230376151711744) by reflexivity.
  assert (H64 : two64 = 18446744073709551616) by reflexivity.
  induction n as [|k ch f IH|cs f IH|h|v] using node_ind'; intros Hc Hsz; try discriminate Hc.
  - (* short node *)
    destruct (canon_short_inv k ch f Hc) as [Hkne [(v & -> & Ht & Hv)|(cs0 & f0 & -> & Hp & Hcc)]].
    + (* leaf *)
      assert (Hfit : fits (spec_item H (NShort k (NVal v) f)) = true).
      { rewrite (spec_item_leaf H k v f Ht).
        change (content_of (NShort k (NVal v) f)) with [(k ++ [], v)] in Hsz.
        rewrite content_bytes_cons in Hsz. cbn [fst snd content_bytes fold_right] in Hsz.
        rewrite lenN_app, lenN_nil in Hsz.
        pose proof (hex_to_compact_len_tkey k Ht) as Lk.
        assert (Hk64 : lenN (hex_to_compact k) < two64) by (clear - Lk Hsz HB H64; lia).
        assert (Hv64 : lenN v < two64) by (clear - Hsz HB H64; lia).
        apply fits_Lst_of.
        - unfold fits_list. cbn [forallb]. rewrite (fits_Str_of _ Hk64), (fits_Str_of _ Hv64). reflexivity.
        - rewrite !encode_list_cons, encode_list_nil, !lenN_app, lenN_nil.
          pose proof (encode_Str_le _ Hk64). pose proof (encode_Str_le _ Hv64).
          clear - H0 H1 Lk Hsz HB H64. lia. }
      split; [|exact Hfit]. apply all_fits_short_iff. split; [exact Hfit|exact I].
    + (* extension *)
      pose proof (canon_content_ne _ Hcc) as Hne.
      change (content_of (NShort k (NFull cs0 f0) f))
        with (map (pre_key k) (content_of (NFull cs0 f0))) in Hsz.
      pose proof (content_bytes_pre_key k _ Hne) as Lpre.
      assert (Hcsz : content_bytes (content_of (NFull cs0 f0)) < fits_bound) by (clear - Lpre Hsz; lia).
      destruct (IH Hcc Hcsz) as [IHa IHf].
      assert (Hfit : fits (spec_item H (NShort k (NFull cs0 f0) f)) = true).
      { destruct (spec_item_ext H k cs0 f0 f Hkne Hp Hcc) as (m & Hm & E). rewrite E.
        pose proof (hex_to_compact_len_path k Hp) as Lk.
        assert (Hk64 : lenN (hex_to_compact k) < two64) by (clear - Lk Lpre Hsz HB H64; lia).
        apply fits_Lst_of.
        - unfold fits_list. cbn [forallb]. rewrite (fits_Str_of _ Hk64).
          rewrite (n_ref_fits m _ Hcc Hm IHf). reflexivity.
        - rewrite !encode_list_cons, encode_list_nil, !lenN_app, lenN_nil.
          pose proof (encode_Str_le _ Hk64) as L1.
          pose proof (n_ref_len m (content_of (NFull cs0 f0))) as L2.
          clear - L1 L2 Lk Lpre Hsz HB H64. lia. }
      split; [|exact Hfit]. apply all_fits_short_iff. split; [exact Hfit|exact IHa].
  - (* full node *)
    destruct (canon_full_inv _ _ Hc) as (Hl & Hb & Hnv & H16 & Hcnt).
    rewrite Forall_forall in IH.
    assert (Hchild : forall x, In x cs -> canon x = true ->
                               all_fits H x /\ fits (spec_item H x) = true).
    { intros x Hin Hcx. apply (IH x Hin Hcx).
      pose proof (content_bytes_child cs f x Hin) as L. clear - L Hsz. lia. }
    assert (Hfit : fits (spec_item H (NFull cs f)) = true).
    { destruct (spec_item_full H cs f Hc) as (m & Hm & E). rewrite E.
      destruct (items_fit m (content_bytes (content_of (NFull cs f))) cs 0
                          (canon_slots_ok _ _ Hc) Hm
                          (fun x Hin Hcx => proj2 (Hchild x Hin Hcx))
                          (fun x Hin => content_bytes_child cs f x Hin)
                          ltac:(clear - Hsz HB H64; lia)) as [A B].
      apply fits_Lst_of; [exact A|].
      assert (E17 : lenN cs = 17) by (unfold lenN; rewrite Hl; reflexivity).
      rewrite E17 in B. clear - B Hsz HB H64. lia. }
    split; [|exact Hfit]. apply all_fits_full_of; [exact Hfit|].
    intros x Hin. rewrite forallb_forall in Hb. specialize (Hb x Hin).
    destruct x as [|k0 c0 f0|cs0 f0|h0|v0]; try exact I.
    + cbn [is_nil is_val orb] in Hb. exact (proj1 (Hchild _ Hin Hb)).
    + cbn [is_nil is_val orb] in Hb. exact (proj1 (Hchild _ Hin Hb)).
Qed.

(* the stated theorem: a canonical node whose content is below 2^32 (keys as
   nibble paths + values + 64 per entry) has all its header sizes below 2^64 *)
Theorem all_fits_of_size : forall n, canon n = true ->
  content_size (content_of n) < 2 ^ 32 -> all_fits H n.
Proof.
  intros n Hc Hsz. apply all_fits_of_bytes; [exact Hc|].
  pose proof (content_bytes_le_size (content_of n)) as L.
  assert (HB : fits_bound = 288230376151711744) by reflexivity.
  assert (H32 : 2 ^ 32 = 4294967296) by reflexivity.
  clear - L Hsz HB H32. lia.
Qed.

Theorem fits_of_size : forall n, canon n = true ->
  content_size (content_of n) < 2 ^ 32 -> fits (spec_item H n) = true.
Proof.
  intros n Hc Hsz. apply all_fits_of_bytes; [exact Hc|].
  pose proof (content_bytes_le_size (content_of n)) as L.
  assert (HB : fits_bound = 288230376151711744) by reflexivity.
  assert (H32 : 2 ^ 32 = 4294967296) by reflexivity.
  clear - L Hsz HB H32. lia.
Qed.

(* a root: the empty trie or a canonical node *)
Corollary all_fits_root_of_size : forall n, canon_root n = true ->
  content_size (content_of n) < 2 ^ 32 -> all_fits H n.
Proof.
  intros n Hr Hsz. unfold canon_root in Hr. apply orb_prop in Hr as [Hn|Hc].
  - destruct n; try discriminate Hn. exact I.
  - now apply all_fits_of_size.
Qed.

(* byte keys: the content of the node is (a permutation of) a byte-key content
   c presented with nibble keys; the bound is on the bytes inserted:
   2 * key bytes + value bytes + 65 per entry *)
Corollary all_fits_of_byte_content : forall n c, canon_root n = true ->
  Permutation (content_of n) (map (fun kv => (key_nibbles (fst kv), snd kv)) c) ->
  byte_content_size c < 2 ^ 32 -> all_fits H n.
Proof.
  intros n c Hr HP Hsz. apply all_fits_root_of_size; [exact Hr|].
  rewrite (content_size_perm _ _ HP), content_size_byte_keys. exact Hsz.
Qed.

End Fits.
