(* Trie/MptSpecProofs.v — the specification root of MptSpec.v depends only on
   the finite map a content list represents, not on the order of the list:
   mpt_c / mpt_root_hex / mpt_root are invariant under Permutation of a
   well-formed content (distinct, terminated keys), and mpt_root_hex is
   extensional in the lookup function. *)
From AQ Require Import Lib.Bytes Rlp.RlpSpec Trie.MptSpec Trie.TrieModel Trie.TrieInv.
From Coq Require Import ZifyBool ZifyN ZifyNat Permutation.
Local Open Scope N_scope.

(* ---------- lcp2 is a semilattice meet; lcp is order independent ---------- *)

Lemma lcp2_comm : forall a b, lcp2 a b = lcp2 b a.
Proof.
  induction a as [|x a IH]; intros [|y b]; simpl; try reflexivity.
  destruct (byte_eqb_spec x y) as [->|Hn].
  - destruct (byte_eqb_spec y y); [|congruence]. now rewrite IH.
  - destruct (byte_eqb_spec y x); [congruence|reflexivity].
Qed.

Lemma lcp2_assoc : forall a b c, lcp2 a (lcp2 b c) = lcp2 (lcp2 a b) c.
Proof.
  induction a as [|x a IH]; intros [|y b] [|z c]; simpl; try reflexivity.
  - destruct (byte_eqb_spec x y); reflexivity.
  - destruct (byte_eqb_spec y z) as [Hyz|Hyz]; destruct (byte_eqb_spec x y) as [Hxy|Hxy]; simpl;
      repeat match goal with
             | |- context [byte_eqb ?u ?w] => destruct (byte_eqb_spec u w)
             end; try congruence.
    all: try (now rewrite IH).
Qed.

Lemma lcp2_prefix_l : forall a b, exists r, a = lcp2 a b ++ r.
Proof.
  induction a as [|x a IH]; intros [|y b]; simpl; try (eexists; reflexivity).
  destruct (byte_eqb_spec x y) as [->|Hn].
  - destruct (IH b) as [r Hr]. exists r. simpl. now rewrite <- Hr.
  - eexists; reflexivity.
Qed.

Lemma lcp2_prefix_r a b : exists r, b = lcp2 a b ++ r.
Proof. rewrite lcp2_comm. apply lcp2_prefix_l. Qed.

Lemma lcp_cons2 a b t : lcp (a :: b :: t) = lcp2 a (lcp (b :: t)).
Proof. reflexivity. Qed.

Lemma lcp_perm : forall l l', Permutation l l' -> lcp l = lcp l'.
Proof.
  induction 1 as [|x l l' HP IH|x y l|l l' l'' H1 IH1 H2 IH2].
  - reflexivity.
  - destruct l as [|a t].
    + apply Permutation_nil in HP. now subst.
    + destruct l' as [|a' t']; [apply Permutation_sym, Permutation_nil in HP; discriminate|].
      rewrite !lcp_cons2. now rewrite IH.
  - destruct l as [|a t].
    + simpl. apply lcp2_comm.
    + rewrite (lcp_cons2 y x), (lcp_cons2 x y), (lcp_cons2 x a), (lcp_cons2 y a).
      rewrite lcp2_assoc, (lcp2_comm y x), <- lcp2_assoc. reflexivity.
  - congruence.
Qed.

Lemma lcp_prefix : forall ks k, In k ks -> exists r, k = lcp ks ++ r.
Proof.
  induction ks as [|a [|b t] IH]; intros k Hin.
  - destruct Hin.
  - destruct Hin as [->|[]]. exists []. simpl. now rewrite app_nil_r.
  - rewrite lcp_cons2. destruct Hin as [->|Hin].
    + apply lcp2_prefix_l.
    + destruct (IH k Hin) as [r Hr].
      destruct (lcp2_prefix_r a (lcp (b :: t))) as [r' Hr'].
      exists (r' ++ r). rewrite app_assoc, <- Hr'. exact Hr.
Qed.

(* ---------- generic list facts ---------- *)

Lemma list_max_perm : forall l l', Permutation l l' -> list_max l = list_max l'.
Proof.
  induction 1; simpl; try lia.
Qed.

Lemma NoDup_map_inj_in {A B} (f : A -> B) : forall l,
  NoDup l -> (forall x y, In x l -> In y l -> f x = f y -> x = y) -> NoDup (map f l).
Proof.
  induction l as [|a l IH]; intros Hnd Hinj; simpl; [constructor|].
  inversion Hnd as [|? ? Hni Hnd']; subst. constructor.
  - intros Hin. apply in_map_iff in Hin. destruct Hin as (y & Hy & Hin).
    apply Hni. rewrite (Hinj a y); auto; [left; reflexivity|right; exact Hin].
  - apply IH; auto. intros x y Hx Hy. apply Hinj; right; assumption.
Qed.

Lemma skipn_length_app {A} : forall (p r : list A), skipn (length p) (p ++ r) = r.
Proof. induction p; intros; simpl; auto. Qed.

Lemma perm_short_eq {A} (l l' : list A) : (length l <= 1)%nat -> Permutation l l' -> l = l'.
Proof.
  destruct l as [|a [|b t]]; simpl; intros Hl HP.
  - apply Permutation_nil in HP. now subst.
  - apply Permutation_length_1_inv in HP. now subst.
  - lia.
Qed.

(* ---------- terminated keys ---------- *)

Lemma tkeyb_cons a r : r <> [] -> tkeyb (a :: r) = nibb a && tkeyb r.
Proof. destruct r; [congruence|reflexivity]. Qed.

Lemma nibb_tnib : nibb x10 = false.
Proof. reflexivity. Qed.

Lemma nibb_not_tnib i : nibb i = true -> i <> x10.
Proof. intros E ->. rewrite nibb_tnib in E. discriminate. Qed.

Lemma tkeyb_tail h r : tkeyb (h :: r) = true -> h <> x10 -> tkeyb r = true.
Proof.
  destruct r as [|c r].
  - simpl. intros E Hn. destruct (byte_eqb_spec h term) as [Eh|]; [|discriminate].
    elim Hn. exact Eh.
  - intros E _. rewrite tkeyb_cons in E by discriminate.
    apply andb_true_iff in E. tauto.
Qed.

Lemma tkeyb_term_head r : tkeyb (x10 :: r) = true -> r = [].
Proof.
  destruct r as [|c r]; auto. intros E. rewrite tkeyb_cons in E by discriminate.
  rewrite nibb_tnib in E. discriminate.
Qed.

Lemma tkeyb_app_tail : forall p r, tkeyb (p ++ r) = true -> r <> [] -> tkeyb r = true.
Proof.
  induction p as [|a p IH]; intros r E Hr; [exact E|].
  simpl app in E. rewrite tkeyb_cons in E by (destruct p; simpl; [assumption|discriminate]).
  apply andb_true_iff in E. apply IH; tauto.
Qed.

Lemma tkeyb_no_ext : forall k r, tkeyb k = true -> tkeyb (k ++ r) = true -> r = [].
Proof.
  induction k as [|b [|c t] IH]; intros r Ek Ekr.
  - discriminate.
  - simpl in Ek. destruct (byte_eqb_spec b term) as [->|]; [|discriminate].
    simpl app in Ekr. now apply tkeyb_term_head.
  - rewrite tkeyb_cons in Ek by discriminate.
    change ((b :: c :: t) ++ r) with (b :: (c :: t) ++ r) in Ekr.
    rewrite tkeyb_cons in Ekr by discriminate.
    apply andb_true_iff in Ek. apply andb_true_iff in Ekr. apply IH; tauto.
Qed.

Lemma nibbles16_nibb i : In i nibbles16 -> nibb i = true.
Proof.
  assert (E : forallb nibb nibbles16 = true) by reflexivity.
  rewrite forallb_forall in E. apply E.
Qed.

(* ---------- well-formed contents, sub and strip ---------- *)

Definition wf_content (J : content) : Prop :=
  NoDup (map fst J) /\ Forall (fun kv => tkeyb (fst kv) = true) J.

Lemma in_sub i J r v : In (r, v) (sub i J) <-> In (i :: r, v) J.
Proof.
  unfold sub. rewrite in_flat_map. split.
  - intros [[k v'] [Hin Hx]]. simpl in Hx. destruct k as [|h k]; [contradiction|].
    destruct (byte_eqb_spec h i) as [->|]; [|contradiction].
    destruct Hx as [Hx|[]]. inversion Hx; subst. exact Hin.
  - intros Hin. exists (i :: r, v). split; [exact Hin|]. simpl.
    destruct (byte_eqb_spec i i); [left; reflexivity|congruence].
Qed.

Lemma sub_cons i kv J :
  sub i (kv :: J) =
  match fst kv with
  | h :: r => if byte_eqb h i then [(r, snd kv)] else []
  | [] => []
  end ++ sub i J.
Proof. reflexivity. Qed.

Lemma NoDup_sub i : forall J, NoDup (map fst J) -> NoDup (map fst (sub i J)).
Proof.
  induction J as [|[k v] J IH]; intros Hnd; [constructor|].
  simpl in Hnd. inversion Hnd as [|? ? Hni Hnd']; subst.
  rewrite sub_cons. simpl fst. simpl snd.
  destruct k as [|h r]; [simpl; auto|].
  destruct (byte_eqb_spec h i) as [->|]; [|simpl; auto].
  simpl. constructor; [|auto].
  intros Hin. apply in_map_iff in Hin. destruct Hin as ([r' v'] & Hr & Hin).
  simpl in Hr. subst r'. apply in_sub in Hin. apply Hni.
  apply in_map_iff. exists (i :: r, v'). split; [reflexivity|exact Hin].
Qed.

Lemma wf_sub i J : nibb i = true -> wf_content J -> wf_content (sub i J).
Proof.
  intros Hi [Hnd Hf]. split; [now apply NoDup_sub|].
  rewrite Forall_forall in *. intros [r v] Hin. apply in_sub in Hin.
  specialize (Hf _ Hin). simpl in *. apply (tkeyb_tail i r Hf). now apply nibb_not_tnib.
Qed.

Lemma sub_tnib_short J : wf_content J -> (length (sub tnib J) <= 1)%nat.
Proof.
  intros [Hnd Hf].
  assert (Hk : forall r v, In (r, v) (sub tnib J) -> r = []).
  { intros r v Hin. apply in_sub in Hin. rewrite Forall_forall in Hf.
    specialize (Hf _ Hin). simpl in Hf. now apply tkeyb_term_head. }
  pose proof (NoDup_sub tnib J Hnd) as Hnd'.
  destruct (sub tnib J) as [|[r1 v1] [|[r2 v2] t]]; simpl; try lia.
  exfalso.
  assert (r1 = []) by (apply (Hk r1 v1); left; reflexivity).
  assert (r2 = []) by (apply (Hk r2 v2); right; left; reflexivity).
  subst. simpl in Hnd'. inversion Hnd' as [|? ? Hni _]. apply Hni. left; reflexivity.
Qed.

Lemma sub_perm i J J' : Permutation J J' -> Permutation (sub i J) (sub i J').
Proof. intros HP. unfold sub. now apply Permutation_flat_map. Qed.

Lemma sub_tnib_perm J J' : wf_content J -> Permutation J J' -> sub tnib J = sub tnib J'.
Proof.
  intros Hwf HP. apply perm_short_eq; [now apply sub_tnib_short|now apply sub_perm].
Qed.

Lemma other_key (J : content) k :
  (2 <= length J)%nat -> NoDup (map fst J) -> exists k', In k' (map fst J) /\ k' <> k.
Proof.
  destruct J as [|[k1 v1] [|[k2 v2] t]]; simpl; try lia. intros _ Hnd.
  inversion Hnd as [|? ? Hni _]; subst.
  destruct (bytes_eqb_spec k1 k) as [->|Hn].
  - exists k2. split; [right; left; reflexivity|]. intros ->. apply Hni. left; reflexivity.
  - exists k1. split; [left; reflexivity|exact Hn].
Qed.

Lemma wf_strip J :
  (2 <= length J)%nat -> wf_content J ->
  wf_content (strip (length (lcp (map fst J))) J).
Proof.
  intros Hlen [Hnd Hf].
  set (p := lcp (map fst J)).
  assert (Hp : forall k, In k (map fst J) -> exists r, k = p ++ r)
    by (intros k Hk; now apply lcp_prefix).
  assert (Ht : forall k, In k (map fst J) -> tkeyb k = true).
  { intros k Hk. apply in_map_iff in Hk. destruct Hk as (kv & <- & Hin).
    rewrite Forall_forall in Hf. now apply Hf. }
  split.
  - assert (Emap : map fst (strip (length p) J) = map (skipn (length p)) (map fst J))
      by (unfold strip; rewrite !map_map; reflexivity).
    rewrite Emap.
    apply NoDup_map_inj_in; [exact Hnd|].
    intros x y Hx Hy E. destruct (Hp x Hx) as [rx ->]. destruct (Hp y Hy) as [ry ->].
    rewrite !skipn_length_app in E. now subst.
  - unfold strip. rewrite Forall_forall. intros kv Hin.
    apply in_map_iff in Hin. destruct Hin as ([k v] & <- & Hin). simpl.
    assert (Hk : In k (map fst J)) by (apply in_map_iff; exists (k, v); auto).
    destruct (Hp k Hk) as [r ->]. rewrite skipn_length_app.
    apply (tkeyb_app_tail p r); [now apply Ht|].
    intros ->. rewrite app_nil_r in *.
    destruct (other_key J p Hlen Hnd) as (k' & Hk' & Hne).
    destruct (Hp k' Hk') as [r' ->].
    assert (r' = []) by (apply (tkeyb_no_ext p r'); [now apply Ht|now apply Ht]).
    subst. rewrite app_nil_r in Hne. now apply Hne.
Qed.

Lemma strip_perm n J J' : Permutation J J' -> Permutation (strip n J) (strip n J').
Proof. intros HP. unfold strip. now apply Permutation_map. Qed.

(* ---------- byte keys: key_nibbles is injective onto terminated keys ---------- *)

Lemma key_nibbles_nonnil s : key_nibbles s <> [].
Proof. destruct s; discriminate. Qed.

Lemma hi_nib_lt b : b2n b / 16 < 16.
Proof. pose proof (b2n_lt b). apply N.div_lt_upper_bound; lia. Qed.
Lemma lo_nib_lt b : b2n b mod 16 < 16.
Proof. apply N.mod_lt. lia. Qed.

Lemma nibb_n2b n : n < 16 -> nibb (n2b n) = true.
Proof. intros Hn. unfold nibb. rewrite b2n_n2b by lia. apply N.ltb_lt. exact Hn. Qed.

Lemma tkeyb_key_nibbles : forall s, tkeyb (key_nibbles s) = true.
Proof.
  induction s as [|b t IH]; [reflexivity|].
  cbn [key_nibbles].
  rewrite tkeyb_cons by discriminate.
  rewrite tkeyb_cons by apply key_nibbles_nonnil.
  rewrite IH, (nibb_n2b _ (hi_nib_lt b)), (nibb_n2b _ (lo_nib_lt b)). reflexivity.
Qed.

Lemma key_nibbles_inj : forall a b, key_nibbles a = key_nibbles b -> a = b.
Proof.
  induction a as [|x a IH]; intros [|y b] E; cbn [key_nibbles] in E.
  - reflexivity.
  - exfalso. injection E as _ E. discriminate.
  - exfalso. injection E as _ E. discriminate.
  - injection E as E1 E2 E3.
    apply (f_equal b2n) in E1. apply (f_equal b2n) in E2.
    pose proof (hi_nib_lt x). pose proof (hi_nib_lt y).
    pose proof (lo_nib_lt x). pose proof (lo_nib_lt y).
    rewrite !b2n_n2b in E1, E2 by lia.
    f_equal; [|now apply IH].
    apply b2n_inj. pose proof (N.div_mod (b2n x) 16). pose proof (N.div_mod (b2n y) 16). lia.
Qed.

Definition hexed (c : content) : content :=
  map (fun kv => (key_nibbles (fst kv), snd kv)) c.

Lemma wf_hexed c : NoDup (map fst c) -> wf_content (hexed c).
Proof.
  intros Hnd. split.
  - assert (Emap : map fst (hexed c) = map key_nibbles (map fst c))
      by (unfold hexed; rewrite !map_map; reflexivity).
    rewrite Emap. apply NoDup_map_inj_in; [exact Hnd|].
    intros x y _ _. apply key_nibbles_inj.
  - unfold hexed. rewrite Forall_forall. intros kv Hin.
    apply in_map_iff in Hin. destruct Hin as (kv0 & <- & _). simpl.
    apply tkeyb_key_nibbles.
Qed.

(* ---------- the main theorems ---------- *)

Section SpecPerm.
Variable H : bytes -> bytes.

Definition nref (f : nat) (J' : content) : item :=
  match J' with
  | [] => Str []
  | _ => let c := mpt_c H f J' in
         if lenN (encode c) <? 32 then c else Str (H (encode c))
  end.

Definition big (f : nat) (J : content) : item :=
  match lcp (map fst J) with
  | [] => Lst (map (fun i => nref f (sub i J)) nibbles16
               ++ [Str (match sub tnib J with (_, v) :: _ => v | [] => [] end)])
  | p => Lst [Str (hp p false); nref f (strip (length p) J)]
  end.

Lemma mpt_c_S f J :
  mpt_c H (S f) J =
  match J with
  | [] => Str []
  | [(k, v)] => Lst [Str (hp (removelast k) true); Str v]
  | _ => big f J
  end.
Proof. reflexivity. Qed.

Lemma mpt_c_ge2 f a b t : mpt_c H (S f) (a :: b :: t) = big f (a :: b :: t).
Proof. rewrite mpt_c_S. destruct a. reflexivity. Qed.

Section Step.
Variable f : nat.
Hypothesis IH : forall J J', wf_content J -> Permutation J J' -> mpt_c H f J = mpt_c H f J'.

Lemma nref_perm A B : wf_content A -> Permutation A B -> nref f A = nref f B.
Proof.
  intros Hwf HP. unfold nref. destruct A as [|a A].
  - apply Permutation_nil in HP. now subst.
  - destruct B as [|b B]; [apply Permutation_sym, Permutation_nil in HP; discriminate|].
    now rewrite (IH _ _ Hwf HP).
Qed.

Lemma big_perm J J' :
  wf_content J -> (2 <= length J)%nat -> Permutation J J' -> big f J = big f J'.
Proof.
  intros Hwf Hlen HP. unfold big.
  rewrite <- (lcp_perm (map fst J) (map fst J')) by (now apply Permutation_map).
  pose proof (wf_strip J Hlen Hwf) as Hws.
  destruct (lcp (map fst J)) as [|p0 p].
  - f_equal. f_equal.
    + apply map_ext_in. intros i Hi. apply nref_perm.
      * apply wf_sub; [now apply nibbles16_nibb|exact Hwf].
      * now apply sub_perm.
    + now rewrite (sub_tnib_perm J J' Hwf HP).
  - f_equal. f_equal. f_equal. apply nref_perm; [exact Hws|now apply strip_perm].
Qed.
End Step.

Theorem mpt_c_perm : forall fuel J J',
  wf_content J -> Permutation J J' -> mpt_c H fuel J = mpt_c H fuel J'.
Proof.
  induction fuel as [|f IH]; intros J J' Hwf HP; [reflexivity|].
  destruct J as [|a [|b t]].
  - apply Permutation_nil in HP. subst. reflexivity.
  - apply Permutation_length_1_inv in HP. subst. reflexivity.
  - destruct J' as [|a' [|b' t']]; try (apply Permutation_length in HP; simpl in HP; lia).
    rewrite !mpt_c_ge2. apply big_perm; auto. simpl; lia.
Qed.

Lemma max_key_len_perm J J' : Permutation J J' -> max_key_len J = max_key_len J'.
Proof. intros HP. unfold max_key_len. apply list_max_perm. now apply Permutation_map. Qed.

Theorem mpt_root_hex_perm : forall J J',
  wf_content J -> Permutation J J' -> mpt_root_hex H J = mpt_root_hex H J'.
Proof.
  intros J J' Hwf HP. unfold mpt_root_hex. destruct J as [|a J].
  - apply Permutation_nil in HP. now subst.
  - destruct J' as [|a' J']; [apply Permutation_sym, Permutation_nil in HP; discriminate|].
    rewrite (max_key_len_perm _ _ HP). now rewrite (mpt_c_perm _ _ _ Hwf HP).
Qed.

Lemma lookup_in : forall (J : content) k v,
  NoDup (map fst J) -> (In (k, v) J <-> lookup J k = Some v).
Proof.
  induction J as [|[k0 v0] J IHJ]; intros k v Hnd; simpl.
  - split; [tauto|discriminate].
  - simpl in Hnd. inversion Hnd as [|? ? Hni Hnd']; subst.
    destruct (bytes_eqb_spec k0 k) as [->|Hn].
    + split.
      * intros [E|Hin]; [congruence|]. exfalso. apply Hni.
        apply in_map_iff. exists (k, v). auto.
      * intros E. left. congruence.
    + rewrite <- (IHJ k v Hnd'). split; [|tauto].
      intros [E|Hin]; [congruence|exact Hin].
Qed.

Theorem mpt_root_hex_ext : forall J J',
  wf_content J -> wf_content J' ->
  (forall k, lookup J k = lookup J' k) -> mpt_root_hex H J = mpt_root_hex H J'.
Proof.
  intros J J' Hwf Hwf' Hl. apply mpt_root_hex_perm; [exact Hwf|].
  destruct Hwf as [Hnd _]. destruct Hwf' as [Hnd' _].
  apply NoDup_Permutation.
  - now apply NoDup_map_inv in Hnd.
  - now apply NoDup_map_inv in Hnd'.
  - intros [k v]. rewrite (lookup_in J k v Hnd), (lookup_in J' k v Hnd'). now rewrite Hl.
Qed.

Theorem mpt_root_perm : forall c c',
  NoDup (map fst c) -> Permutation c c' -> mpt_root H c = mpt_root H c'.
Proof.
  intros c c' Hnd HP. unfold mpt_root.
  apply mpt_root_hex_perm; [exact (wf_hexed c Hnd)|].
  now apply Permutation_map.
Qed.

End SpecPerm.
