(* Trie/SecureModel.v — trie/secure_trie.go: SecureTrie = a Trie whose keys are the
   hashes of the caller's keys, plus the preimage bookkeeping (secKeyCache in the
   trie value, preimages in trie.Database).  Code-shaped, definitions only
   (extracted).  hashKey(key) is H key (the hasher's Keccak into hashKeyBuf).
   The preimage store of trie.Database (memory map, then disk under the
   "secure-key-" prefix) is one association list, first write wins
   (insertPreimage keeps an existing entry). *)
From AQ Require Import Lib.Bytes Rlp.RlpSpec Trie.TrieModel.
Local Open Scope N_scope.

Definition kvs := list (bytes * bytes).
Fixpoint kv_get (l : kvs) (k : bytes) : option bytes :=
  match l with [] => None | (k', v) :: t => if bytes_eqb k' k then Some v else kv_get t k end.
Fixpoint kv_del (l : kvs) (k : bytes) : kvs :=
  match l with [] => [] | (k', v) :: t => if bytes_eqb k' k then kv_del t k else (k', v) :: kv_del t k end.
(* Go map assignment: replaces *)
Definition kv_set (l : kvs) (k v : bytes) : kvs := (k, v) :: kv_del l k.
(* Database.insertPreimage: keeps an existing entry *)
Definition pre_put (p : kvs) (kv : bytes * bytes) : kvs :=
  match kv_get p (fst kv) with Some _ => p | None => p ++ [kv] end.

Section Secure.
Variable H : bytes -> bytes.

Record strie := mkStrie { st_trie : trie; st_cache : kvs }.
(* the world of a SecureTrie: its value, the node database, the preimage store *)
Record sstate := mkSstate { ss_t : strie; ss_db : db; ss_pre : kvs }.

(* NewSecure(root, db, cachelimit) *)
Definition sec_new (root : bytes) (d : db) (limit : N) : res strie :=
  bind (trie_new H root d) (fun t => Ok (mkStrie (mkTrie (troot t) (tgen t) limit) [])).

(* TryGet *)
Definition sec_get (st : strie) (d : db) (key : bytes) : res (option bytes * strie) :=
  bind (trie_get (st_trie st) d (H key)) (fun '(v, t') => Ok (v, mkStrie t' (st_cache st))).

(* TryUpdate: the preimage is remembered only when the trie update succeeded *)
Definition sec_update (st : strie) (d : db) (key value : bytes) : res strie :=
  let hk := H key in
  bind (trie_update (st_trie st) d hk value) (fun t' => Ok (mkStrie t' (kv_set (st_cache st) hk key))).

(* TryDelete: the cache entry is dropped BEFORE the trie delete, also when that fails *)
Definition sec_delete (st : strie) (d : db) (key : bytes) : strie * res unit :=
  let hk := H key in
  let cache' := kv_del (st_cache st) hk in
  match trie_delete (st_trie st) d hk with
  | Ok t' => (mkStrie t' cache', Ok tt)
  | Err => (mkStrie (st_trie st) cache', Err)
  | Missing => (mkStrie (st_trie st) cache', Missing)
  | Panic => (mkStrie (st_trie st) cache', Panic)
  | OutOfFuel => (mkStrie (st_trie st) cache', OutOfFuel)
  end.

(* GetKey: cache first, then Database.preimage(BytesToHash(shaKey)); nil = [] *)
Definition sec_getkey (st : strie) (pre : kvs) (sha_key : bytes) : bytes :=
  match kv_get (st_cache st) sha_key with
  | Some k => k
  | None => match kv_get pre (to_hash sha_key) with Some k => k | None => [] end
  end.

(* Commit: flush the cache into the preimage store (keys BytesToHash(hk)), empty it, commit the trie *)
Definition sec_commit (st : strie) (d : db) (pre : kvs) : res (bytes * strie * db) * kvs :=
  let pre' := fold_left (fun p kv => pre_put p (to_hash (fst kv), snd kv)) (st_cache st) pre in
  match trie_commit H (st_trie st) d with
  | Ok (r, t', d') => (Ok (r, mkStrie t' [], d'), pre')
  | Err => (Err, pre') | Missing => (Missing, pre') | Panic => (Panic, pre') | OutOfFuel => (OutOfFuel, pre')
  end.

Definition sec_hash (st : strie) : res (bytes * strie) :=
  bind (trie_hash H (st_trie st)) (fun '(h, t') => Ok (h, mkStrie t' (st_cache st))).

(* histories *)
Inductive sop :=
| SUpdate (k v : bytes) | SDelete (k : bytes) | SGet (k : bytes) | SGetKey (hk : bytes)
| SHash | SCommit | SReopen (root : bytes) (limit : N).

Definition sec_step (s : sstate) (o : sop) : sstate * obs :=
  let st := ss_t s in let d := ss_db s in let pre := ss_pre s in
  match o with
  | SUpdate k v =>
    match sec_update st d k v with Ok st' => (mkSstate st' d pre, ODone) | e => (s, obs_of_fail e) end
  | SDelete k =>
    let '(st', r) := sec_delete st d k in (mkSstate st' d pre, match r with Ok _ => ODone | e => obs_of_fail e end)
  | SGet k =>
    match sec_get st d k with Ok (v, st') => (mkSstate st' d pre, OVal v) | e => (s, obs_of_fail e) end
  | SGetKey hk => (s, OVal (Some (sec_getkey st pre hk)))
  | SHash =>
    match sec_hash st with Ok (h, st') => (mkSstate st' d pre, ORoot h) | e => (s, obs_of_fail e) end
  | SCommit =>
    match sec_commit st d pre with
    | (Ok (r, st', d'), pre') => (mkSstate st' d' pre', ORoot r)
    | (e, pre') => (mkSstate (mkStrie (st_trie st) []) d pre', obs_of_fail e)   (* the cache was flushed before trie.Commit *)
    end
  | SReopen r l =>
    match sec_new r d l with Ok st' => (mkSstate st' d pre, ODone) | e => (s, obs_of_fail e) end
  end.

Fixpoint sec_run (s : sstate) (ops : list sop) : sstate * list obs :=
  match ops with
  | [] => (s, [])
  | o :: t => let '(s1, b) := sec_step s o in let '(s2, bs) := sec_run s1 t in (s2, b :: bs)
  end.

Definition sec_init : sstate := mkSstate (mkStrie empty_trie []) [] [].
End Secure.
