(* Trie/SecureProofs.v — SecureTrie (Trie/SecureModel.v, trie/secure_trie.go) =
   the plain Trie over hashed keys + preimage bookkeeping.
   (1) simulation: the trie/database component of a SecureTrie run IS the plain
       run (TrieModel.step / run_ops) on the translated operations;
   (2) the plain ghost map over nibble keys and the map over the caller's ORIGINAL
       keys stay related, given injectivity of H on the key set K only;
   (3) secure_history: every observation of a SecureTrie history is the one the
       abstract finite map on original keys gives; roots are specification roots
       of the hashed-key map;
   (4) getkey_spec: GetKey returns the preimage. *)
From Coq Require Import ZifyBool ZifyN ZifyNat.
From AQ Require Import Lib.Bytes Rlp.RlpSpec Trie.MptSpec Trie.TrieModel Trie.TrieInv Trie.TrieCodecDefs
  Trie.MptSpecProofs Trie.TrieTheorems Trie.TrieLazyTheorems Trie.SecureModel.
Local Open Scope N_scope.

(* ------------------------------------------------------------------ translation *)
Section SecureSim.
Variable H : bytes -> bytes.

Definition tr (o : sop) : list op :=
  match o with
  | SUpdate k v => [OpUpdate (H k) v]
  | SDelete k => [OpDelete (H k)]
  | SGet k => [OpGet (H k)]
  | SGetKey _ => []
  | SHash => [OpHash]
  | SCommit => [OpCommit]
  | SReopen r l => [OpReopen r; OpLimit l]
  end.

(* the plain-trie world inside a SecureTrie world *)
Definition pstate (s : sstate) : state := mkState (st_trie (ss_t s)) (ss_db s).

Lemma sim_update s k v :
  step H (pstate s) (OpUpdate (H k) v) = (pstate (fst (sec_step H s (SUpdate k v))), snd (sec_step H s (SUpdate k v))).
Proof.
  unfold step, sec_step, sec_update, pstate. cbn [TrieModel.strie sdb].
  destruct (trie_update (st_trie (ss_t s)) (ss_db s) (H k) v); reflexivity.
Qed.
(* also in the failure case of TryDelete: there only the key cache changes *)
Lemma sim_delete s k :
  step H (pstate s) (OpDelete (H k)) = (pstate (fst (sec_step H s (SDelete k))), snd (sec_step H s (SDelete k))).
Proof.
  unfold step, sec_step, sec_delete, pstate. cbn [TrieModel.strie sdb].
  destruct (trie_delete (st_trie (ss_t s)) (ss_db s) (H k)); reflexivity.
Qed.
Lemma sim_get s k :
  step H (pstate s) (OpGet (H k)) = (pstate (fst (sec_step H s (SGet k))), snd (sec_step H s (SGet k))).
Proof.
  unfold step, sec_step, sec_get, pstate. cbn [TrieModel.strie sdb].
  destruct (trie_get (st_trie (ss_t s)) (ss_db s) (H k)) as [[v t']| | | |]; reflexivity.
Qed.
Lemma sim_hash s :
  step H (pstate s) OpHash = (pstate (fst (sec_step H s SHash)), snd (sec_step H s SHash)).
Proof.
  unfold step, sec_step, sec_hash, pstate. cbn [TrieModel.strie sdb].
  destruct (trie_hash H (st_trie (ss_t s))) as [[h t']| | | |]; reflexivity.
Qed.
(* also when trie.Commit fails: then only cache and preimage store changed *)
Lemma sim_commit s :
  step H (pstate s) OpCommit = (pstate (fst (sec_step H s SCommit)), snd (sec_step H s SCommit)).
Proof.
  unfold step, sec_step, sec_commit, pstate. cbn [TrieModel.strie sdb].
  destruct (trie_commit H (st_trie (ss_t s)) (ss_db s)) as [[[r t'] d']| | | |]; reflexivity.
Qed.
(* GetKey: no trie operation *)
Lemma sim_getkey s hk : fst (sec_step H s (SGetKey hk)) = s.
Proof. reflexivity. Qed.
(* NewSecure = trie.New followed by SetCacheLimit, WHEN trie.New succeeds (when it
   fails the secure world is unchanged whereas the plain run of OpReopen; OpLimit
   would still set the limit of the old trie) *)
Lemma sim_reopen s r l t : trie_new H r (ss_db s) = Ok t ->
  sec_step H s (SReopen r l) = (mkSstate (mkStrie (mkTrie (troot t) (tgen t) l) []) (ss_db s) (ss_pre s), ODone) /\
  run_ops H (pstate s) (tr (SReopen r l)) = (pstate (fst (sec_step H s (SReopen r l))), [ODone; ODone]).
Proof.
  intros E. unfold tr, run_ops, step, sec_step, sec_new, pstate. cbn [TrieModel.strie sdb].
  rewrite E. cbn [bind fst snd TrieModel.strie sdb ss_t ss_db st_trie]. split; reflexivity.
Qed.
Lemma sim_reopen_fail s r l : (forall t, trie_new H r (ss_db s) <> Ok t) -> fst (sec_step H s (SReopen r l)) = s.
Proof.
  intros E. unfold sec_step, sec_new. destruct (trie_new H r (ss_db s)) as [t| | | |]; try reflexivity.
  now destruct (E t).
Qed.

(* operations translated to exactly one plain operation *)
Definition plain_sop (o : sop) : Prop := match o with SReopen _ _ | SGetKey _ => False | _ => True end.

(* (1), one step: all of Update / Delete / Get / Hash / Commit, success or failure *)
Theorem sim_step s o : plain_sop o ->
  run_ops H (pstate s) (tr o) = (pstate (fst (sec_step H s o)), [snd (sec_step H s o)]).
Proof.
  destruct o as [k v|k|k|hk| | |r l]; intros Hp; try contradiction; unfold tr, run_ops.
  - now rewrite sim_update.
  - now rewrite sim_delete.
  - now rewrite sim_get.
  - now rewrite sim_hash.
  - now rewrite sim_commit.
Qed.

Lemma run_ops_app a b s :
  run_ops H s (a ++ b) = (fst (run_ops H (fst (run_ops H s a)) b), snd (run_ops H s a) ++ snd (run_ops H (fst (run_ops H s a)) b)).
Proof.
  revert s. induction a as [|o a IH]; intros s.
  - cbn [app run_ops fst snd]. now destruct (run_ops H s b).
  - cbn [app run_ops]. destruct (step H s o) as [s1 ob]. rewrite IH.
    destruct (run_ops H s1 a) as [s2 obl]. reflexivity.
Qed.
Lemma sec_run_cons s o ops :
  sec_run H s (o :: ops) = (fst (sec_run H (fst (sec_step H s o)) ops),
                            snd (sec_step H s o) :: snd (sec_run H (fst (sec_step H s o)) ops)).
Proof.
  cbn [sec_run]. destruct (sec_step H s o) as [s1 b]. cbn [fst snd]. now destruct (sec_run H s1 ops).
Qed.

(* (1), histories of Update / Delete / Get / Hash / Commit *)
Theorem sim_run_plain ops : forall s, Forall plain_sop ops ->
  run_ops H (pstate s) (flat_map tr ops) = (pstate (fst (sec_run H s ops)), snd (sec_run H s ops)).
Proof.
  induction ops as [|o ops IH]; intros s Hp; [reflexivity|].
  inversion Hp as [|? ? Ho Hr]; subst. cbn [flat_map]. rewrite run_ops_app, (sim_step s o Ho). cbn [fst snd].
  rewrite (IH _ Hr), sec_run_cons. reflexivity.
Qed.

(* (1), all histories in which every NewSecure succeeds: GetKey contributes no
   plain operation and no plain observation, NewSecure two of each *)
Fixpoint reopens_ok (s : sstate) (ops : list sop) : Prop :=
  match ops with
  | [] => True
  | o :: r => match o with SReopen r0 _ => exists t, trie_new H r0 (ss_db s) = Ok t | _ => True end /\
              reopens_ok (fst (sec_step H s o)) r
  end.
Definition tr_obs (o : sop) (ob : obs) : list obs :=
  match o with SGetKey _ => [] | SReopen _ _ => [ob; ODone] | _ => [ob] end.
Fixpoint tr_obl (ops : list sop) (obl : list obs) : list obs :=
  match ops, obl with o :: r, ob :: obr => tr_obs o ob ++ tr_obl r obr | _, _ => [] end.

Theorem sim_run ops : forall s, reopens_ok s ops ->
  run_ops H (pstate s) (flat_map tr ops) = (pstate (fst (sec_run H s ops)), tr_obl ops (snd (sec_run H s ops))).
Proof.
  induction ops as [|o ops IH]; intros s Hp; [reflexivity|].
  destruct Hp as [Ho Hr]. cbn [flat_map]. rewrite run_ops_app, sec_run_cons. cbn [fst snd tr_obl].
  assert (E : run_ops H (pstate s) (tr o) = (pstate (fst (sec_step H s o)), tr_obs o (snd (sec_step H s o)))).
  { destruct o as [k v|k|k|hk| | |r l]; try (now apply sim_step).
    - reflexivity.
    - destruct Ho as [t Et]. destruct (sim_reopen s r l t Et) as [E1 E2]. rewrite E2, E1. reflexivity. }
  rewrite E. cbn [fst snd]. now rewrite (IH _ Hr).
Qed.
End SecureSim.

(* ------------------------------------------------------------------ association lists *)
Lemma kv_get_in l x v : kv_get l x = Some v -> In (x, v) l.
Proof.
  induction l as [|[k' v'] l IH]; cbn [kv_get]; [discriminate|].
  destruct (bytes_eqb_spec k' x) as [->|]; [intros E; injection E as ->; now left|right; auto].
Qed.
Lemma kv_get_del l k x : kv_get (kv_del l k) x = if bytes_eqb k x then None else kv_get l x.
Proof.
  induction l as [|[k' v] l IH]; cbn [kv_del kv_get].
  - now destruct (bytes_eqb k x).
  - destruct (bytes_eqb_spec k' k) as [->|N].
    + rewrite IH. now destruct (bytes_eqb k x).
    + cbn [kv_get]. rewrite IH. destruct (bytes_eqb_spec k' x) as [->|]; [|reflexivity].
      destruct (bytes_eqb_spec k x) as [->|]; [contradiction|reflexivity].
Qed.
Lemma kv_get_app l1 l2 x : kv_get (l1 ++ l2) x = match kv_get l1 x with Some v => Some v | None => kv_get l2 x end.
Proof.
  induction l1 as [|[k' v] l1 IH]; cbn [app kv_get]; [reflexivity|]. now destruct (bytes_eqb k' x).
Qed.
Lemma Forall_kv_del (P : bytes * bytes -> Prop) l k : Forall P l -> Forall P (kv_del l k).
Proof.
  induction 1 as [|[k' v] l Hx Hl IH]; cbn [kv_del]; [constructor|].
  destruct (bytes_eqb k' k); [exact IH|now constructor].
Qed.
Lemma pre_put_keep p e x v : kv_get p x = Some v -> kv_get (pre_put p e) x = Some v.
Proof.
  intros E. unfold pre_put. destruct (kv_get p (fst e)); [exact E|]. now rewrite kv_get_app, E.
Qed.
Lemma pre_put_has p a b : exists v, kv_get (pre_put p (a, b)) a = Some v.
Proof.
  unfold pre_put. cbn [fst]. destruct (kv_get p a) as [v|] eqn:E; [eauto|].
  exists b. rewrite kv_get_app, E. cbn [kv_get]. now rewrite bytes_eqb_refl.
Qed.
Lemma pre_put_Forall (P : bytes * bytes -> Prop) p e : Forall P p -> P e -> Forall P (pre_put p e).
Proof.
  intros Hp He. unfold pre_put. destruct (kv_get p (fst e)); [exact Hp|].
  apply Forall_app. split; [exact Hp|now constructor].
Qed.
(* Commit's flush of the key cache into the preimage store *)
Definition flush (c p : kvs) : kvs := fold_left (fun p kv => pre_put p (to_hash (fst kv), snd kv)) c p.
Lemma flush_keep c : forall p x v, kv_get p x = Some v -> kv_get (flush c p) x = Some v.
Proof.
  induction c as [|e c IH]; intros p x v E; [exact E|]. apply IH. now apply pre_put_keep.
Qed.
Lemma flush_has c : forall p a b, In (a, b) c -> exists v, kv_get (flush c p) (to_hash a) = Some v.
Proof.
  induction c as [|e c IH]; intros p a b Hin; [contradiction|]. destruct Hin as [->|Hin].
  - cbn [flush fold_left fst snd]. destruct (pre_put_has p (to_hash a) b) as [v Ev].
    exists v. now apply (flush_keep c).
  - exact (IH _ a b Hin).
Qed.
Lemma flush_Forall (P : bytes * bytes -> Prop) c : forall p,
  Forall P p -> Forall (fun e => P (to_hash (fst e), snd e)) c -> Forall P (flush c p).
Proof.
  induction c as [|e c IH]; intros p Hp Hc; [exact Hp|]. inversion Hc; subst.
  apply IH; [|assumption]. now apply pre_put_Forall.
Qed.

(* ------------------------------------------------------------------ the theorems *)
Section SecureProofs.
Variable H : bytes -> bytes.
Hypothesis Hlen : forall x, length (H x) = 32%nat.
Hypothesis Hcf : forall m1 m2, canon m1 = true -> canon m2 = true ->
  H (spec_enc H m1) = H (spec_enc H m2) -> spec_enc H m1 = spec_enc H m2.
Variable K : bytes -> Prop.                       (* the caller's keys used in the history *)
Hypothesis Hinj : forall k1 k2, K k1 -> K k2 -> H k1 = H k2 -> k1 = k2.

Lemma to_hash_H x : to_hash (H x) = H x.
Proof. unfold to_hash, left_pad. rewrite Hlen. reflexivity. Qed.

Lemma H_eqb k k' : K k -> K k' -> bytes_eqb (H k) (H k') = bytes_eqb k k'.
Proof.
  intros Hk Hk'. destruct (bytes_eqb_spec k k') as [->|N]; [apply bytes_eqb_refl|].
  destruct (bytes_eqb_spec (H k) (H k')) as [E|_]; [|reflexivity]. destruct N. now apply Hinj.
Qed.
Lemma hexH_eqb k k' : K k -> K k' -> bytes_eqb (hexk (H k)) (hexk (H k')) = bytes_eqb k k'.
Proof. intros Hk Hk'. unfold hexk. rewrite hex_eqb. now apply H_eqb. Qed.

(* the keys an operation uses *)
Definition keys_in (o : sop) : Prop :=
  match o with SUpdate k _ | SDelete k | SGet k => K k | _ => True end.

(* ---- (2) the map on ORIGINAL keys *)
Definition amap := bytes -> option bytes.
Definition smap (am : amap) (o : sop) : amap :=
  match o with
  | SUpdate k v => fun k' => if bytes_eqb k k' then (match v with [] => None | _ => Some v end) else am k'
  | SDelete k => fun k' => if bytes_eqb k k' then None else am k'
  | _ => am
  end.
(* with reopening: the maps at the roots committed so far *)
Definition sgmap (am : amap) (asn : snaps) (o : sop) : amap :=
  match o with
  | SReopen r _ => match find_snap r asn with Some a => a | None => am end
  | _ => smap am o
  end.
Definition sgsnaps (am : amap) (asn : snaps) (o : sop) (ob : obs) : snaps :=
  match o, ob with SCommit, ORoot r => (r, am) :: asn | _, _ => asn end.
(* the plain-trie ghost state (TrieLazyTheorems: gmap over nibble keys) through the translated operations *)
Definition tgmap (mp : nmap) (sn : snaps) (o : sop) : nmap := fold_left (fun m po => gmap m sn po) (tr H o) mp.
Definition tsnaps (mp : nmap) (sn : snaps) (o : sop) (ob : obs) : snaps :=
  match o, ob with SCommit, ORoot r => (r, mp) :: sn | _, _ => sn end.

(* mp (nibble keys) is exactly the image of am restricted to K under k |-> hexk (H k) *)
Definition rel (mp : nmap) (am : amap) : Prop :=
  (forall k, K k -> mp (hexk (H k)) = am k) /\
  (forall k' v, mp k' = Some v -> exists k, K k /\ k' = hexk (H k)).
Definition rel_sn (sn asn : snaps) : Prop :=
  Forall2 (fun e a => fst e = fst a /\ rel (snd e) (snd a)) sn asn.

Lemma rel_empty : rel (fun _ => None) (fun _ => None).
Proof. split; [reflexivity|discriminate]. Qed.

Lemma find_snap_rel r sn asn : rel_sn sn asn ->
  match find_snap r sn, find_snap r asn with
  | Some m, Some a => rel m a | None, None => True | _, _ => False end.
Proof.
  induction 1 as [|[r1 m1] [r2 a2] sn asn [E Hr] Hs IH]; cbn [find_snap]; [exact I|].
  cbn [fst snd] in E, Hr. subst r2. destruct (bytes_eqb r1 r); [exact Hr|exact IH].
Qed.

Theorem rel_step mp sn am asn o : rel mp am -> rel_sn sn asn -> keys_in o ->
  rel (tgmap mp sn o) (sgmap am asn o).
Proof.
  intros [R1 R2] Hs Hk. destruct o as [k v|k|k|hk| | |r l]; try (split; assumption).
  - cbn [keys_in] in Hk. split.
    + intros k' Hk'. unfold tgmap. cbn [tr fold_left gmap lmap sgmap smap]. rewrite (hexH_eqb k k' Hk Hk').
      destruct (bytes_eqb k k'); [reflexivity|now apply R1].
    + intros k' v'. unfold tgmap. cbn [tr fold_left gmap lmap].
      destruct (bytes_eqb_spec (hexk (H k)) k') as [<-|_]; [eauto|apply R2].
  - cbn [keys_in] in Hk. split.
    + intros k' Hk'. unfold tgmap. cbn [tr fold_left gmap lmap sgmap smap]. rewrite (hexH_eqb k k' Hk Hk').
      destruct (bytes_eqb k k'); [reflexivity|now apply R1].
    + intros k' v'. unfold tgmap. cbn [tr fold_left gmap lmap].
      destruct (bytes_eqb_spec (hexk (H k)) k') as [<-|_]; [discriminate|apply R2].
  - unfold tgmap. cbn [tr fold_left gmap lmap sgmap]. pose proof (find_snap_rel r sn asn Hs) as Hf.
    destruct (find_snap r sn), (find_snap r asn); try contradiction; [exact Hf|split; assumption].
Qed.
Lemma rel_sn_step mp sn am asn o ob : rel mp am -> rel_sn sn asn ->
  rel_sn (tsnaps mp sn o ob) (sgsnaps am asn o ob).
Proof.
  intros Hr Hs. destruct o; try exact Hs. destruct ob; try exact Hs. constructor; [split; [reflexivity|exact Hr]|exact Hs].
Qed.

(* ---- (4) preimage bookkeeping: ghost flags per original key: kc k = "k's preimage
   is in the key cache", kp k = "k's preimage is in the preimage store" *)
Definition fc (kc : bytes -> bool) (o : sop) : bytes -> bool :=
  match o with
  | SUpdate k _ => fun k' => if bytes_eqb k k' then true else kc k'
  | SDelete k => fun k' => if bytes_eqb k k' then false else kc k'
  | SCommit | SReopen _ _ => fun _ => false
  | _ => kc
  end.
Definition fp (kc kp : bytes -> bool) (o : sop) : bytes -> bool :=
  match o with SCommit => fun k => kp k || kc k | _ => kp end.

Definition entry_ok (e : bytes * bytes) : Prop := K (snd e) /\ fst e = H (snd e).
Definition side_inv (s : sstate) (kc kp : bytes -> bool) : Prop :=
  Forall entry_ok (st_cache (ss_t s)) /\ Forall entry_ok (ss_pre s) /\
  forall k, K k -> (kc k = true -> kv_get (st_cache (ss_t s)) (H k) = Some k) /\
                   (kp k = true -> kv_get (ss_pre s) (H k) = Some k).

Lemma entry_ok_get l k k' : Forall entry_ok l -> K k -> kv_get l (H k) = Some k' -> k' = k.
Proof.
  intros Hl Hk E. apply kv_get_in in E. rewrite Forall_forall in Hl. destruct (Hl _ E) as [Hk' E'].
  cbn [fst snd] in *. symmetry. now apply Hinj.
Qed.

Lemma side_inv_init : side_inv sec_init (fun _ => false) (fun _ => false).
Proof. repeat split; try constructor; discriminate. Qed.

Lemma side_inv_step s o kc kp : side_inv s kc kp -> keys_in o ->
  match o with SUpdate _ _ => snd (sec_step H s o) = ODone | _ => True end ->
  side_inv (fst (sec_step H s o)) (fc kc o) (fp kc kp o).
Proof.
  intros (Hc & Hp & Hf) Hk Hs. destruct o as [k v|k|k|hk| | |r l]; cbn [keys_in] in Hk.
  - unfold sec_step, sec_update in *. destruct (trie_update (st_trie (ss_t s)) (ss_db s) (H k) v) as [t'| | | |];
      cbn [bind fst snd obs_of_fail] in *; try discriminate.
    unfold side_inv. cbn [ss_t ss_pre st_cache fc fp]. split; [|split; [exact Hp|]].
    + unfold kv_set. constructor; [split; [exact Hk|reflexivity]|now apply Forall_kv_del].
    + intros k' Hk'. split; [|apply (Hf k' Hk')]. unfold kv_set. cbn [kv_get]. rewrite kv_get_del, (H_eqb k k' Hk Hk').
      destruct (bytes_eqb_spec k k') as [->|_]; [reflexivity|apply (Hf k' Hk')].
  - assert (E : st_cache (ss_t (fst (sec_step H s (SDelete k)))) = kv_del (st_cache (ss_t s)) (H k) /\
                ss_pre (fst (sec_step H s (SDelete k))) = ss_pre s).
    { unfold sec_step, sec_delete. destruct (trie_delete (st_trie (ss_t s)) (ss_db s) (H k)); split; reflexivity. }
    destruct E as [E1 E2]. unfold side_inv. rewrite E1, E2. cbn [fc fp]. split; [now apply Forall_kv_del|split; [exact Hp|]].
    intros k' Hk'. split; [|apply (Hf k' Hk')]. rewrite kv_get_del, (H_eqb k k' Hk Hk').
    destruct (bytes_eqb k k'); [discriminate|apply (Hf k' Hk')].
  - assert (E : st_cache (ss_t (fst (sec_step H s (SGet k)))) = st_cache (ss_t s) /\
                ss_pre (fst (sec_step H s (SGet k))) = ss_pre s).
    { unfold sec_step, sec_get. destruct (trie_get (st_trie (ss_t s)) (ss_db s) (H k)) as [[v t']| | | |]; split; reflexivity. }
    destruct E as [E1 E2]. unfold side_inv. rewrite E1, E2. cbn [fc fp]. auto.
  - unfold side_inv. cbn [sec_step fst fc fp]. auto.
  - assert (E : st_cache (ss_t (fst (sec_step H s SHash))) = st_cache (ss_t s) /\
                ss_pre (fst (sec_step H s SHash)) = ss_pre s).
    { unfold sec_step, sec_hash. destruct (trie_hash H (st_trie (ss_t s))) as [[h t']| | | |]; split; reflexivity. }
    destruct E as [E1 E2]. unfold side_inv. rewrite E1, E2. cbn [fc fp]. auto.
  - assert (E : st_cache (ss_t (fst (sec_step H s SCommit))) = [] /\
                ss_pre (fst (sec_step H s SCommit)) = flush (st_cache (ss_t s)) (ss_pre s)).
    { unfold sec_step, sec_commit. destruct (trie_commit H (st_trie (ss_t s)) (ss_db s)) as [[[r t'] d']| | | |]; split; reflexivity. }
    destruct E as [E1 E2]. unfold side_inv. rewrite E1, E2. cbn [fc fp].
    assert (Hp' : Forall entry_ok (flush (st_cache (ss_t s)) (ss_pre s))).
    { apply flush_Forall; [exact Hp|]. eapply Forall_impl; [|exact Hc]. intros [a b] [Ha Hb]. cbn [fst snd] in *.
      split; [exact Ha|]. cbn [fst snd]. rewrite Hb. apply to_hash_H. }
    split; [constructor|split; [exact Hp'|]]. intros k Hkk. split; [discriminate|]. intros Hor.
    destruct (kp k) eqn:Ekp.
    + apply flush_keep. now apply (Hf k Hkk).
    + cbn [orb] in Hor. pose proof (proj1 (Hf k Hkk) Hor) as Eg. apply kv_get_in in Eg.
      destruct (flush_has _ (ss_pre s) _ _ Eg) as [v Ev]. rewrite to_hash_H in Ev.
      rewrite Ev. f_equal. exact (entry_ok_get _ _ _ Hp' Hkk Ev).
  - unfold sec_step, sec_new. destruct (trie_new H r (ss_db s)) as [t'| | | |]; cbn [bind fst];
      unfold side_inv; cbn [ss_t ss_pre st_cache fc fp]; (split; [try constructor; exact Hc|split; [exact Hp|]]);
      intros k Hkk; (split; [discriminate|apply (Hf k Hkk)]).
Qed.

(* GetKey on the hash of a key whose preimage is recorded returns that key *)
Lemma getkey_of_flags s kc kp k : side_inv s kc kp -> K k -> kc k || kp k = true ->
  sec_getkey (ss_t s) (ss_pre s) (H k) = k.
Proof.
  intros (Hc & Hp & Hf) Hk Hor. unfold sec_getkey. rewrite to_hash_H.
  destruct (kv_get (st_cache (ss_t s)) (H k)) as [k'|] eqn:E1; [exact (entry_ok_get _ _ _ Hc Hk E1)|].
  destruct (kc k) eqn:Ekc; [rewrite (proj1 (Hf k Hk) Ekc) in E1; discriminate|].
  cbn [orb] in Hor. now rewrite (proj2 (Hf k Hk) Hor).
Qed.

(* ---- (3) the expected observations *)
Definition sec_obs (mp : nmap) (sn : snaps) (am : amap) (kc kp : bytes -> bool) (o : sop) (ob : obs) : Prop :=
  match o with
  | SGet k => ob = OVal (am k)
  | SHash | SCommit => exists m, denotes m mp /\ rel mp am /\ ob = ORoot (mpt_root_hex H (content_of m))
  | SGetKey hk => (exists b, ob = OVal (Some b)) /\
                  forall k, K k -> hk = H k -> kc k || kp k = true -> ob = OVal (Some k)
  | SUpdate _ _ | SDelete _ => ob = ODone
  (* NewSecure on a root committed earlier succeeds; on a never-committed root
     (nothing stored under it) it fails with MissingNodeError, world unchanged *)
  | SReopen r _ => ob = match find_snap r sn with Some _ => ODone | None => OMissing end
  end.
Fixpoint sec_trace (mp : nmap) (sn : snaps) (am : amap) (asn : snaps) (kc kp : bytes -> bool)
    (ops : list sop) (obl : list obs) : Prop :=
  match ops, obl with
  | [], [] => True
  | o :: r, ob :: obr =>
    sec_obs mp sn am kc kp o ob /\
    sec_trace (tgmap mp sn o) (tsnaps mp sn o ob) (sgmap am asn o) (sgsnaps am asn o ob) (fc kc o) (fp kc kp o) r obr
  | _, _ => False
  end.

(* side conditions: those of the plain history theorem (TrieLazyTheorems.lazy_op) on
   the translated operations, read along the SECURE run.  (They cannot be read
   along the plain run of flat_map tr ops when a NewSecure fails: there the plain
   run of [OpReopen r; OpLimit l] still sets the cache limit of the old trie, the
   secure world does not.  For histories without NewSecure the two readings agree:
   lazy_ok_sec_ok below.) *)
Definition sec_op (d : db) (mp : nmap) (sn : snaps) (o : sop) : Prop :=
  fold_right (fun po P => lazy_op H d mp sn po /\ P) True (tr H o).
Fixpoint sec_ok (s : sstate) (mp : nmap) (sn : snaps) (ops : list sop) : Prop :=
  match ops with
  | [] => True
  | o :: rest => sec_op (ss_db s) mp sn o /\
                 sec_ok (fst (sec_step H s o)) (tgmap mp sn o) (tsnaps mp sn o (snd (sec_step H s o))) rest
  end.

(* one SecureTrie operation under the side conditions of the plain history theorem *)
Lemma sec_step_spec s o mp sn am kc kp :
  inv H (pstate s) mp sn -> rel mp am -> side_inv s kc kp -> keys_in o ->
  sec_op (ss_db s) mp sn o ->
  sec_obs mp sn am kc kp o (snd (sec_step H s o)) /\
  inv H (pstate (fst (sec_step H s o))) (tgmap mp sn o) (tsnaps mp sn o (snd (sec_step H s o))).
Proof.
  intros Hi Hr Hsi Hk Hok. destruct o as [k v|k|k|hk| | |r l]; cbn [sec_op tr fold_right] in Hok.
  - destruct Hok as [Hop _]. destruct (lazy_step H Hlen Hcf _ _ _ _ Hi Hop) as (s' & ob & E & Hi' & Hob).
    rewrite sim_update in E. injection E as <- <-. auto.
  - destruct Hok as [Hop _]. destruct (lazy_step H Hlen Hcf _ _ _ _ Hi Hop) as (s' & ob & E & Hi' & Hob).
    rewrite sim_delete in E. injection E as <- <-. auto.
  - destruct Hok as [Hop _]. destruct (lazy_step H Hlen Hcf _ _ _ _ Hi Hop) as (s' & ob & E & Hi' & Hob).
    rewrite sim_get in E. injection E as <- <-. split; [|auto].
    cbn [lazy_obs] in Hob. cbn [sec_obs]. rewrite <- (proj1 Hr k Hk). exact Hob.
  - split; [|exact Hi]. cbn [sec_step snd sec_obs]. split; [eauto|].
    intros k Hkk -> Hor. now rewrite (getkey_of_flags s kc kp k Hsi Hkk Hor).
  - destruct Hok as [Hop _]. destruct (lazy_step H Hlen Hcf _ _ _ _ Hi Hop) as (s' & ob & E & Hi' & Hob).
    rewrite sim_hash in E. injection E as <- <-. split; [|auto].
    destruct Hob as (m & Hd & Eo). exists m. auto.
  - destruct Hok as [Hop _]. destruct (lazy_step H Hlen Hcf _ _ _ _ Hi Hop) as (s' & ob & E & Hi' & Hob).
    rewrite sim_commit in E. injection E as <- <-. split; [|auto].
    destruct Hob as (m & Hd & Eo). exists m. auto.
  - destruct Hok as (Hop & Hop2 & _).
    destruct (lazy_step H Hlen Hcf _ _ _ _ Hi Hop) as (s' & ob & E & Hi' & Hob).
    cbn [lazy_obs] in Hob. unfold step in E. cbn [pstate TrieModel.strie sdb] in E.
    destruct (trie_new H r (ss_db s)) as [t| | | |] eqn:Et.
    + injection E as <- <-. destruct (sim_reopen H s r l t Et) as [E1 _]. rewrite E1. cbn [fst snd sec_obs].
      split; [exact Hob|].
      assert (Hop2' : lazy_op H (sdb (mkState t (ss_db s))) (gmap mp sn (OpReopen r))
                        (gsnaps mp sn (OpReopen r) ODone) (OpLimit l)) by exact Hop2.
      destruct (lazy_step H Hlen Hcf _ _ _ _ Hi' Hop2') as (s2 & ob2 & E2 & Hi2 & Hob2).
      cbn [step TrieModel.strie sdb] in E2. injection E2 as <- <-. exact Hi2.
    + unfold sec_step, sec_new. rewrite Et. cbn [bind fst snd sec_obs]. injection E as <- <-. split; [exact Hob|exact Hi'].
    + unfold sec_step, sec_new. rewrite Et. cbn [bind fst snd sec_obs]. injection E as <- <-. split; [exact Hob|exact Hi'].
    + unfold sec_step, sec_new. rewrite Et. cbn [bind fst snd sec_obs]. injection E as <- <-. split; [exact Hob|exact Hi'].
    + unfold sec_step, sec_new. rewrite Et. cbn [bind fst snd sec_obs]. injection E as <- <-. split; [exact Hob|exact Hi'].
Qed.

Fixpoint flags_run (kc kp : bytes -> bool) (ops : list sop) : (bytes -> bool) * (bytes -> bool) :=
  match ops with [] => (kc, kp) | o :: r => flags_run (fc kc o) (fp kc kp o) r end.

(* THE HISTORY THEOREM for SecureTrie, from any state satisfying the invariants
   (so histories compose), all seven operations including NewSecure, on a root
   committed earlier in the history (succeeds) or on a never-committed root
   (fails with MissingNodeError, world unchanged) *)
Theorem secure_history_from : forall ops s mp sn am asn kc kp,
  inv H (pstate s) mp sn -> rel mp am -> rel_sn sn asn -> side_inv s kc kp ->
  Forall keys_in ops ->
  sec_ok s mp sn ops ->
  exists s' obl, sec_run H s ops = (s', obl) /\ sec_trace mp sn am asn kc kp ops obl /\
    side_inv s' (fst (flags_run kc kp ops)) (snd (flags_run kc kp ops)) /\
    exists mp' sn' am' asn', inv H (pstate s') mp' sn' /\ rel mp' am' /\ rel_sn sn' asn'.
Proof.
  induction ops as [|o ops IH]; intros s mp sn am asn kc kp Hi Hr Hs Hsi Hk Hok.
  - exists s, []. cbn [sec_run sec_trace flags_run fst snd]. eauto 10.
  - inversion Hk as [|? ? Hko Hkr]; subst. destruct Hok as [Hop Hok1].
    destruct (sec_step_spec s o mp sn am kc kp Hi Hr Hsi Hko Hop) as (Hob & Hi1).
    assert (Hsi1 : side_inv (fst (sec_step H s o)) (fc kc o) (fp kc kp o)).
    { apply side_inv_step; auto. destruct o; auto. }
    destruct (IH _ _ _ _ _ _ _ Hi1 (rel_step mp sn am asn o Hr Hs Hko)
                 (rel_sn_step mp sn am asn o (snd (sec_step H s o)) Hr Hs) Hsi1 Hkr Hok1)
      as (s' & obl & E & Ht & Hsi' & Hex).
    exists s', (snd (sec_step H s o) :: obl). rewrite sec_run_cons, E. cbn [fst snd sec_trace flags_run]. auto.
Qed.

(* ... from the empty SecureTrie: NewSecure(common.Hash{}, db, 0) over an empty database *)
Theorem secure_history : forall ops,
  Forall keys_in ops ->
  sec_ok sec_init (fun _ => None) [] ops ->
  exists s' obl, sec_run H sec_init ops = (s', obl) /\
    sec_trace (fun _ => None) [] (fun _ => None) [] (fun _ => false) (fun _ => false) ops obl.
Proof.
  intros ops Hk Hok.
  destruct (secure_history_from ops sec_init _ _ (fun _ => None) [] _ _ (inv_init H) rel_empty
              (Forall2_nil _) side_inv_init Hk Hok) as (s' & obl & E & Ht & _). eauto.
Qed.

(* without NewSecure the side conditions are those of the plain history theorem
   along the plain run of the translated history *)
Definition no_reopen (o : sop) : Prop := match o with SReopen _ _ => False | _ => True end.
Lemma lazy_ok_sec_ok ops : forall s mp sn, Forall no_reopen ops ->
  lazy_ok H (pstate s) mp sn (flat_map (tr H) ops) -> sec_ok s mp sn ops.
Proof.
  induction ops as [|o ops IH]; intros s mp sn Hn Hok; [exact I|].
  inversion Hn as [|? ? Hno Hnr]; subst. cbn [flat_map] in Hok. cbn [sec_ok].
  destruct o as [k v|k|k|hk| | |r l]; cbn [tr app] in Hok; try contradiction.
  - destruct Hok as [Hop Hrest]. rewrite sim_update in Hrest. split; [exact (conj Hop I)|exact (IH _ _ _ Hnr Hrest)].
  - destruct Hok as [Hop Hrest]. rewrite sim_delete in Hrest. split; [exact (conj Hop I)|exact (IH _ _ _ Hnr Hrest)].
  - destruct Hok as [Hop Hrest]. rewrite sim_get in Hrest. split; [exact (conj Hop I)|exact (IH _ _ _ Hnr Hrest)].
  - split; [exact I|exact (IH _ _ _ Hnr Hok)].
  - destruct Hok as [Hop Hrest]. rewrite sim_hash in Hrest. split; [exact (conj Hop I)|exact (IH _ _ _ Hnr Hrest)].
  - destruct Hok as [Hop Hrest]. rewrite sim_commit in Hrest. split; [exact (conj Hop I)|exact (IH _ _ _ Hnr Hrest)].
Qed.
Theorem secure_history_noreopen : forall ops,
  Forall keys_in ops -> Forall no_reopen ops ->
  lazy_ok H init_state (fun _ => None) [] (flat_map (tr H) ops) ->
  exists s' obl, sec_run H sec_init ops = (s', obl) /\
    sec_trace (fun _ => None) [] (fun _ => None) [] (fun _ => false) (fun _ => false) ops obl.
Proof. intros ops Hk Hn Hok. apply secure_history; [exact Hk|]. now apply (lazy_ok_sec_ok ops sec_init). Qed.

(* ---- (2) as a statement about whole histories: whatever the observations, the
   ghost maps over nibble keys and over original keys stay related *)
Fixpoint ghost_run (mp : nmap) (sn : snaps) (am : amap) (asn : snaps) (ops : list sop) (obl : list obs)
    : nmap * snaps * amap * snaps :=
  match ops, obl with
  | o :: r, ob :: obr => ghost_run (tgmap mp sn o) (tsnaps mp sn o ob) (sgmap am asn o) (sgsnaps am asn o ob) r obr
  | _, _ => (mp, sn, am, asn)
  end.
Theorem rel_history : forall ops obl mp sn am asn,
  rel mp am -> rel_sn sn asn -> Forall keys_in ops ->
  let '(mp', sn', am', asn') := ghost_run mp sn am asn ops obl in rel mp' am' /\ rel_sn sn' asn'.
Proof.
  induction ops as [|o ops IH]; intros obl mp sn am asn Hr Hs Hk; [cbn; auto|].
  destruct obl as [|ob obl]; [cbn; auto|]. inversion Hk; subst. cbn [ghost_run].
  apply IH; [now apply rel_step|now apply rel_sn_step|assumption].
Qed.
(* without reopening, the original-key map is the plain fold of smap *)
Lemma sgmap_smap am asn o : (forall r l, o <> SReopen r l) -> sgmap am asn o = smap am o.
Proof. intros Hn. destruct o; try reflexivity. now destruct (Hn root limit). Qed.

(* ---- (4) GetKey after a history *)
Theorem getkey_flags : forall ops k,
  Forall keys_in ops -> sec_ok sec_init (fun _ => None) [] ops -> K k ->
  fst (flags_run (fun _ => false) (fun _ => false) ops) k || snd (flags_run (fun _ => false) (fun _ => false) ops) k = true ->
  snd (sec_step H (fst (sec_run H sec_init ops)) (SGetKey (H k))) = OVal (Some k).
Proof.
  intros ops k Hk Hok Hkk Hor.
  destruct (secure_history_from ops sec_init _ _ (fun _ => None) [] _ _ (inv_init H) rel_empty
              (Forall2_nil _) side_inv_init Hk Hok) as (s' & obl & E & _ & Hsi & _).
  rewrite E. cbn [fst sec_step snd]. now rewrite (getkey_of_flags s' _ _ k Hsi Hkk Hor).
Qed.

(* once flushed by a Commit the preimage stays retrievable *)
Lemma flags_run_kp_mono ops : forall kc kp k, kp k = true -> snd (flags_run kc kp ops) k = true.
Proof.
  induction ops as [|o ops IH]; intros kc kp k E; [exact E|]. cbn [flags_run]. apply IH.
  destruct o; try exact E. cbn [fp]. now rewrite E.
Qed.

(* "the last SUpdate / SDelete on k was an SUpdate" *)
Fixpoint last_upd (b : bool) (ops : list sop) (k : bytes) : bool :=
  match ops with
  | [] => b
  | SUpdate k' _ :: r => last_upd (if bytes_eqb k' k then true else b) r k
  | SDelete k' :: r => last_upd (if bytes_eqb k' k then false else b) r k
  | _ :: r => last_upd b r k
  end.
Lemma last_upd_flags ops : forall b kc kp k, Forall no_reopen ops ->
  (b = true -> kc k || kp k = true) -> last_upd b ops k = true ->
  fst (flags_run kc kp ops) k || snd (flags_run kc kp ops) k = true.
Proof.
  induction ops as [|o ops IH]; intros b kc kp k Hn Hb Hl; [now apply Hb|].
  inversion Hn as [|? ? Hno Hnr]; subst. cbn [flags_run].
  destruct o as [k' v|k'|k'|hk| | |r l]; cbn [last_upd] in Hl; try (eapply IH; [exact Hnr|exact Hb|exact Hl]).
  - (eapply IH; [exact Hnr| |exact Hl]); cbn [fc fp]. destruct (bytes_eqb k' k); [reflexivity|exact Hb].
  - (eapply IH; [exact Hnr| |exact Hl]); cbn [fc fp]. destruct (bytes_eqb k' k); [discriminate|exact Hb].
  - (eapply IH; [exact Hnr| |exact Hl]); cbn [fc fp]. intros Eb. specialize (Hb Eb).
    destruct (kc k), (kp k); try reflexivity; discriminate.
  - contradiction.
Qed.

(* after a history of Update / Delete / Get / GetKey / Hash / Commit on keys in K:
   if the last Update / Delete of k was an Update (with any value, also the empty
   one), GetKey (H k) returns k, whether or not Commits happened in between *)
Theorem getkey_spec : forall ops k,
  Forall keys_in ops -> Forall no_reopen ops ->
  lazy_ok H init_state (fun _ => None) [] (flat_map (tr H) ops) -> K k ->
  last_upd false ops k = true ->
  snd (sec_step H (fst (sec_run H sec_init ops)) (SGetKey (H k))) = OVal (Some k).
Proof.
  intros ops k Hk Hn Hok Hkk Hl. apply getkey_flags; auto; [now apply (lazy_ok_sec_ok ops sec_init)|].
  apply (last_upd_flags ops false); auto; discriminate.
Qed.
End SecureProofs.

Print Assumptions sim_step.
Print Assumptions sim_run.
Print Assumptions rel_history.
Print Assumptions secure_history_from.
Print Assumptions secure_history.
Print Assumptions secure_history_noreopen.
Print Assumptions getkey_spec.
