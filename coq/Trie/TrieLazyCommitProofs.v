(* Trie/TrieLazyCommitProofs.v — Trie.Hash and Trie.Commit on a trie in its
   general in-memory form (TrieLazyDefs.lzf: hash nodes whose encodings are in
   the database, cached hashes, dirty flags, cache generations): hasher.go hash
   with its three shortcuts (cached hash without database; cached hash and
   canUnload: the node is replaced by its hash node; cached hash and clean: kept)
   returns the specification root of the represented content and re-establishes
   the invariant over the database after the writes.
   Main results: lzf_mono, hash_node_lazy, trie_commit_lazy, trie_hash_lazy. *)
From AQ Require Import Lib.Bytes Rlp.RlpSpec Rlp.RlpProofs Trie.MptSpec Trie.TrieModel Trie.TrieInv
  Trie.TrieProofs Trie.TrieRootProofs Trie.TrieCodecDefs Trie.TrieCodecProofs Trie.TrieReopenProofs
  Trie.TrieLazyDefs.
From Coq Require Import ZifyBool ZifyN ZifyNat.
Local Open Scope nat_scope.

(* ------------------------------------------------------------------ lists *)

Lemma Forall2_impl_l {A B} (R R' : A -> B -> Prop) : forall l1 l2,
  Forall (fun a => forall b, R a b -> R' a b) l1 -> Forall2 R l1 l2 -> Forall2 R' l1 l2.
Proof.
  intros l1 l2 HF H2. induction H2 as [|a b t1 t2 Hab H2 IH]; [constructor|].
  inversion HF as [|? ? Ha Ht]; subst. constructor; [apply Ha; exact Hab|apply IH; exact Ht].
Qed.

Lemma Forall2_impl {A B} (R R' : A -> B -> Prop) : (forall a b, R a b -> R' a b) ->
  forall l1 l2, Forall2 R l1 l2 -> Forall2 R' l1 l2.
Proof. intros HR l1 l2 H2. induction H2; constructor; auto. Qed.

Lemma db_put_all_app d w1 w2 : db_put_all d (w1 ++ w2) = db_put_all (db_put_all d w1) w2.
Proof. unfold db_put_all. apply fold_left_app. Qed.

Lemma db_put_all_nil d : db_put_all d [] = d.
Proof. reflexivity. Qed.

(* replacing the flags of a short or full node *)
Definition set_flag (n : node) (fl : flag) : node :=
  match n with
  | NShort k ch _ => NShort k ch fl
  | NFull cs _ => NFull cs fl
  | _ => n
  end.

(* the flags hasher.hash leaves on a node it has walked *)
Definition upd_flag (c : hctx) (f : flag) (r : href) : flag :=
  mkFlag (match r with RHash h => Some h | RInline _ => None end) (fgen f)
         (if hdb c then false else fdirty f).

Lemma set_hash_flag_eq c n r f : node_flag n = Some f ->
  set_hash_flag c n r = set_flag n (upd_flag c f r).
Proof.
  destruct n as [|k ch f0|cs f0|h|v]; intros E; try discriminate E; injection E as ->; reflexivity.
Qed.

Section LazyCommit.
Variable H : bytes -> bytes.
Hypothesis Hlen : forall x, length (H x) = 32%nat.
Hypothesis Hcf : forall m1 m2, canon m1 = true -> canon m2 = true ->
  H (spec_enc H m1) = H (spec_enc H m2) -> spec_enc H m1 = spec_enc H m2.

(* ------------------------------------------------------------------ (0) monotonicity in the database *)

Definition db_le (d d' : db) : Prop := forall m0, canon m0 = true -> stored H d m0 -> stored H d' m0.

Lemma db_le_refl d : db_le d d.
Proof. intros m0 _ Hs. exact Hs. Qed.

Lemma db_le_trans d1 d2 d3 : db_le d1 d2 -> db_le d2 d3 -> db_le d1 d3.
Proof. intros H1 H2 m0 Hc Hs. apply H2; [exact Hc|]. apply H1; assumption. Qed.

Lemma db_le_put_all d w : db_le d (db_put_all d w).
Proof. intros m0 _ Hs. apply stored_mono. exact Hs. Qed.

Lemma covers_mono d d' m : db_le d d' -> covers H d m -> covers H d' m.
Proof. intros Hle. unfold covers. apply covers_p_mono. exact Hle. Qed.

Lemma avail_mono d d' m : db_le d d' -> avail H d m -> avail H d' m.
Proof.
  intros Hle (Hc & Hf & Hs & Hcv). split; [exact Hc|]. split; [exact Hf|]. split.
  - apply Hle; assumption.
  - eapply covers_mono; eassumption.
Qed.

Lemma flag_ok_mono d d' s m f : db_le d d' -> flag_ok H d s m f -> flag_ok H d' s m f.
Proof.
  intros Hle (H1 & H2 & H3). split; [exact H1|]. split; [|exact H3].
  intros Hd. destruct (H2 Hd) as (Hc & Hf & Hcv & Hs). split; [exact Hc|]. split; [exact Hf|]. split.
  - eapply covers_mono; eassumption.
  - intros h Eh. apply Hle; [exact Hc|]. exact (Hs h Eh).
Qed.

Lemma lzf_mono_le d d' : db_le d d' -> forall m s x, lzf H d s m x -> lzf H d' s m x.
Proof.
  intros Hle. induction m as [|k c f IH|cs f IH|h|v] using node_ind'; intros s x L.
  - inversion L as [s0 m0 Ha| | | |]; subst.
    + apply lzf_hash. eapply avail_mono; eassumption.
    + apply lzf_nil.
  - inversion L as [s0 m0 Ha| | |s0 k0 c0 x0 f0 f' L1 B1 O1|]; subst.
    + apply lzf_hash. eapply avail_mono; eassumption.
    + apply lzf_short; [apply IH; exact L1|exact B1|eapply flag_ok_mono; eassumption].
  - inversion L as [s0 m0 Ha| | | |s0 cs0 xs f0 f' Ls Bs O1]; subst.
    + apply lzf_hash. eapply avail_mono; eassumption.
    + apply lzf_full; [|exact Bs|eapply flag_ok_mono; eassumption].
      eapply Forall2_impl_l; [|exact Ls]. eapply Forall_impl; [|exact IH].
      intros a Ha b Hab. apply Ha. exact Hab.
  - inversion L as [s0 m0 Ha| | | |]; subst.
    apply lzf_hash. eapply avail_mono; eassumption.
  - inversion L as [s0 m0 Ha| | | |]; subst.
    + apply lzf_hash. eapply avail_mono; eassumption.
    + apply lzf_val.
Qed.

Lemma lzf_mono : forall d d' s m x,
  (forall m0, canon m0 = true -> stored H d m0 -> stored H d' m0) ->
  lzf H d s m x -> lzf H d' s m x.
Proof. intros d d' s m x Hle L. exact (lzf_mono_le d d' Hle m s x L). Qed.

(* ------------------------------------------------------------------ inversions *)

Lemma lzf_nil_inv d s x : lzf H d s NNil x -> x = NNil.
Proof.
  intros L. inversion L as [s0 m0 Ha| | | |]; subst; [|reflexivity].
  destruct Ha as [Hc _]. discriminate Hc.
Qed.

Lemma lzf_val_inv d s v x : lzf H d s (NVal v) x -> x = NVal v.
Proof.
  intros L. inversion L as [s0 m0 Ha| | | |]; subst; [|reflexivity].
  destruct Ha as [Hc _]. discriminate Hc.
Qed.

Lemma lzf_short_inv d s k c f x : lzf H d s (NShort k c f) x ->
  (x = NHash (H (spec_enc H (NShort k c f))) /\ avail H d (NShort k c f)) \/
  (exists x1 f', x = NShort k x1 f' /\ lzf H d true c x1 /\ hash_big H c x1 /\ flag_ok H d s (NShort k c f) f').
Proof.
  intros L. inversion L as [s0 m0 Ha| | |s0 k0 c0 x0 f0 f' L1 B1 O1|]; subst.
  - left. split; [reflexivity|exact Ha].
  - right. exists x0, f'. auto.
Qed.

Lemma lzf_full_inv d s cs f x : lzf H d s (NFull cs f) x ->
  (x = NHash (H (spec_enc H (NFull cs f))) /\ avail H d (NFull cs f)) \/
  (exists xs f', x = NFull xs f' /\ Forall2 (lzf H d true) cs xs /\ Forall2 (hash_big H) cs xs
                 /\ flag_ok H d s (NFull cs f) f').
Proof.
  intros L. inversion L as [s0 m0 Ha| | | |s0 cs0 xs f0 f' Ls Bs O1]; subst.
  - left. split; [reflexivity|exact Ha].
  - right. exists xs, f'. auto.
Qed.

(* ------------------------------------------------------------------ unfolding hasher.hash *)

Definition walk_of (c : hctx) (x : node) (f' : flag) (force : bool) : res (href * node * writes) :=
  bind (hash_children (fun y => hash_node H c y false) x) (fun '(it, cached, w) =>
    let '(r, w2) := store H c it (fhash f') force in
    Ok (r, set_hash_flag c cached r, w ++ w2)).

Lemma hash_node_flagged c x f' force : node_flag x = Some f' ->
  hash_node H c x force =
  match fhash f' with
  | Some h =>
    if negb (hdb c) then Ok (RHash h, x, [])
    else if can_unload f' c then Ok (RHash h, NHash h, [])
    else if negb (fdirty f') then Ok (RHash h, x, [])
    else walk_of c x f' force
  | None => walk_of c x f' force
  end.
Proof.
  destruct x as [|k ch f|cs f|h|v]; intros E; try discriminate E; injection E as ->; reflexivity.
Qed.

Lemma hash_node_hashnode c h force : hash_node H c (NHash h) force = Ok (RHash h, NHash h, []).
Proof. reflexivity. Qed.

Lemma hash_children_short_nv rec k x1 f : is_val x1 = false ->
  hash_children rec (NShort k x1 f) =
  bind (rec x1) (fun '(r, cch, w) => Ok (Lst [Str (hex_to_compact k); href_item r], NShort k cch f, w)).
Proof. destruct x1; intros E; try discriminate E; reflexivity. Qed.

Lemma store_lazy c it ch force : (forall h, ch = Some h -> h = H (encode it)) ->
  store H c it ch force =
  if (lenN (encode it) <? 32)%N && negb force then (RInline it, [])
  else (RHash (H (encode it)), if hdb c then [(H (encode it), encode it)] else []).
Proof.
  intros Hx. unfold store. cbv zeta.
  destruct ((lenN (encode it) <? 32)%N && negb force); [reflexivity|].
  destruct ch as [h|]; [rewrite (Hx h eq_refl)|]; rewrite (to_hash_H H Hlen); reflexivity.
Qed.

Lemma cond_true m force : (lenN (spec_enc H m) <? 32)%N && negb force = true ->
  big H m = false /\ force = false.
Proof.
  intros E. apply andb_prop in E as [E1 E2]. split.
  - unfold big. clear - E1. lia.
  - destruct force; [discriminate E2|reflexivity].
Qed.

Lemma cond_false m force : (lenN (spec_enc H m) <? 32)%N && negb force = false ->
  big H m = true \/ force = true.
Proof.
  intros E. destruct force; [right; reflexivity|left].
  cbn [negb] in E. rewrite andb_true_r in E. unfold big. clear - E. lia.
Qed.

Lemma href_of_hash m force : big H m = true \/ force = true ->
  href_of H m force = RHash (H (spec_enc H m)).
Proof.
  intros Hbf. unfold href_of. destruct ((lenN (spec_enc H m) <? 32)%N && negb force) eqn:E; [|reflexivity].
  apply cond_true in E as [E1 E2]. destruct Hbf as [Hb|Hf]; congruence.
Qed.

(* the value hasher.hash returns, as in the statement of the task *)
Definition lref (m : node) (force : bool) : href :=
  if big H m || force then RHash (H (spec_enc H m)) else RInline (spec_item H m).

Lemma href_of_lref m force : href_of H m force = lref m force.
Proof.
  unfold lref, href_of. destruct ((lenN (spec_enc H m) <? 32)%N && negb force) eqn:E.
  - apply cond_true in E as [-> ->]. reflexivity.
  - apply cond_false in E as [->| ->]; [reflexivity|]. rewrite orb_true_r. reflexivity.
Qed.

(* ------------------------------------------------------------------ what hasher.hash establishes *)

Definition lz_post (c : hctx) (d : db) (force : bool) (m x' : node) (w : writes) : Prop :=
  wr_ok H w /\ (hdb c = false -> w = []) /\
  lzf H (db_put_all d w) (negb force) m x' /\ (force = false -> hash_big H m x') /\
  (hdb c = true -> (big H m = true \/ force = true) -> stored H (db_put_all d w) m) /\
  (hdb c = true -> covers H (db_put_all d w) m).

Lemma flagged_not_hash x f' : node_flag x = Some f' -> forall c, hash_big H c x.
Proof. intros E c h Eh. subst x. discriminate E. Qed.

(* a hash node, or a node unloaded to its hash node *)
Lemma lz_hash_case c d force m : avail H d m -> (big H m = true \/ force = true) ->
  exists x' w, Ok (RHash (H (spec_enc H m)), NHash (H (spec_enc H m)), @nil (bytes * bytes))
               = Ok (href_of H m force, x', w) /\ lz_post c d force m x' w.
Proof.
  intros Ha Hbf. rewrite (href_of_hash m force Hbf). eexists. eexists. split; [reflexivity|].
  unfold lz_post. rewrite db_put_all_nil. destruct Ha as (Hc & Hf & Hs & Hcv).
  split; [constructor|]. split; [reflexivity|]. split; [apply lzf_hash; repeat split; assumption|].
  split; [|split].
  - intros Ef h _. destruct Hbf as [Hb|Hb]; [exact Hb|congruence].
  - intros _ _. exact Hs.
  - intros _. exact Hcv.
Qed.

(* cached hash, node kept: no database, or clean and not unloadable *)
Lemma cached_keep c d force m x f' h :
  node_flag x = Some f' -> fhash f' = Some h -> lzf H d (negb force) m x ->
  flag_ok H d (negb force) m f' -> (hdb c = true -> fdirty f' = false) ->
  exists x' w, Ok (RHash h, x, @nil (bytes * bytes)) = Ok (href_of H m force, x', w)
               /\ lz_post c d force m x' w.
Proof.
  intros En Ef L (O1 & O2 & _) Hcl. destruct (O1 h Ef) as [-> Hsz].
  assert (Hbf : big H m = true \/ force = true).
  { destruct force; [right; reflexivity|left; apply Hsz; reflexivity]. }
  rewrite (href_of_hash m force Hbf). eexists. eexists. split; [reflexivity|].
  unfold lz_post. rewrite db_put_all_nil.
  split; [constructor|]. split; [reflexivity|]. split; [exact L|].
  split; [intros _; exact (flagged_not_hash x f' En m)|]. split.
  - intros Hdb _. destruct (O2 (Hcl Hdb)) as (_ & _ & _ & Hs). exact (Hs _ Ef).
  - intros Hdb. destruct (O2 (Hcl Hdb)) as (_ & _ & Hcv & _). exact Hcv.
Qed.

(* cached hash, clean, canUnload: the node is replaced by its hash node *)
Lemma cached_unload c d force m f' h :
  fhash f' = Some h -> flag_ok H d (negb force) m f' -> fdirty f' = false ->
  exists x' w, Ok (RHash h, NHash h, @nil (bytes * bytes)) = Ok (href_of H m force, x', w)
               /\ lz_post c d force m x' w.
Proof.
  intros Ef (O1 & O2 & _) Hcl. destruct (O1 h Ef) as [-> Hsz].
  destruct (O2 Hcl) as (Hc & Hf & Hcv & Hs).
  apply lz_hash_case.
  - split; [exact Hc|]. split; [exact Hf|]. split; [exact (Hs _ Ef)|exact Hcv].
  - destruct force; [right; reflexivity|left; apply Hsz; reflexivity].
Qed.

(* after the children: store and the new flags *)
Lemma finish_lazy c m xc f' w1 d force :
  canon m = true -> all_fits H m -> db_sound H d -> wr_ok H w1 -> (hdb c = false -> w1 = []) ->
  node_flag xc = Some f' ->
  flag_ok H d (negb force) m f' ->
  (hdb c = true -> covers H (db_put_all d w1) m) ->
  (forall d' fl, db_le (db_put_all d w1) d' -> flag_ok H d' (negb force) m fl ->
     lzf H d' (negb force) m (set_flag xc fl)) ->
  exists x' w,
    (let '(r, w2) := store H c (spec_item H m) (fhash f') force in
     Ok (r, set_hash_flag c xc r, w1 ++ w2)) = Ok (href_of H m force, x', w)
    /\ lz_post c d force m x' w.
Proof.
  intros Hc Hfit Hs Hw1 Hnw En (O1 & O2 & Hcl) Hcv Hbuild.
  rewrite store_lazy by (intros h Eh; exact (proj1 (O1 h Eh))).
  change (encode (spec_item H m)) with (spec_enc H m). unfold href_of.
  destruct ((lenN (spec_enc H m) <? 32)%N && negb force) eqn:Econd.
  - (* embedded: no hash is cached, nothing is written *)
    destruct (cond_true _ _ Econd) as [Eb Efo].
    rewrite (set_hash_flag_eq c xc _ f' En). rewrite app_nil_r.
    eexists. eexists. split; [reflexivity|]. unfold lz_post.
    split; [exact Hw1|]. split; [exact Hnw|]. split; [|split; [|split]].
    + apply Hbuild; [apply db_le_refl|]. split; [|split].
      * intros h Eh. discriminate Eh.
      * cbn [upd_flag fdirty fhash]. intros Hd. destruct (hdb c) eqn:Edb.
        -- split; [exact Hc|]. split; [exact Hfit|]. split; [exact (Hcv eq_refl)|].
           intros h Eh. discriminate Eh.
        -- rewrite (Hnw eq_refl), db_put_all_nil. destruct (O2 Hd) as (_ & _ & Hcv0 & _).
           split; [exact Hc|]. split; [exact Hfit|]. split; [exact Hcv0|].
           intros h Eh. discriminate Eh.
      * intros _ _. split; [rewrite Efo; reflexivity|exact Eb].
    + intros _. apply (flagged_not_hash _ (upd_flag c f' (RInline (spec_item H m)))).
      destruct xc; try discriminate En; reflexivity.
    + intros _ [E|E]; congruence.
    + exact Hcv.
  - (* referenced by hash: the hash is cached, the encoding written *)
    pose proof (cond_false _ _ Econd) as Hbf.
    rewrite (set_hash_flag_eq c xc _ f' En).
    assert (Hsz : negb force = true -> big H m = true).
    { intros Ef. destruct Hbf as [E|E]; [exact E|]. rewrite E in Ef. discriminate Ef. }
    eexists. eexists. split; [reflexivity|]. unfold lz_post.
    destruct (hdb c) eqn:Edb.
    + (* Commit *)
      pose proof (db_put_all_sound H w1 d Hs Hw1) as Hs1.
      assert (Hst : stored H (db_put_all d (w1 ++ [(H (spec_enc H m), spec_enc H m)])) m).
      { rewrite db_put_all_app. apply (db_put_stored H Hcf); assumption. }
      assert (Hle : db_le (db_put_all d w1) (db_put_all d (w1 ++ [(H (spec_enc H m), spec_enc H m)]))).
      { rewrite db_put_all_app. apply db_le_put_all. }
      assert (Hcv' : covers H (db_put_all d (w1 ++ [(H (spec_enc H m), spec_enc H m)])) m).
      { eapply covers_mono; [exact Hle|]. exact (Hcv eq_refl). }
      split.
      { apply Forall_app. split; [exact Hw1|]. constructor; [|constructor].
        exists m. cbn [fst snd]. auto. }
      split; [intros E; discriminate E|]. split; [|split; [|split]].
      * apply Hbuild; [exact Hle|]. split; [|split].
        -- cbn [upd_flag fhash]. intros h Eh. injection Eh as <-. split; [reflexivity|exact Hsz].
        -- intros _. split; [exact Hc|]. split; [exact Hfit|]. split; [exact Hcv'|].
           intros h _. exact Hst.
        -- intros Eh. discriminate Eh.
      * intros _. apply (flagged_not_hash _ (upd_flag c f' (RHash (H (spec_enc H m))))).
        destruct xc; try discriminate En; reflexivity.
      * intros _ _. exact Hst.
      * intros _. exact Hcv'.
    + (* Hash *)
      rewrite app_nil_r. specialize (Hnw eq_refl). subst w1.
      split; [constructor|]. split; [reflexivity|]. split; [|split; [|split]].
      * apply Hbuild; [apply db_le_refl|]. rewrite db_put_all_nil. split; [|split].
        -- cbn [upd_flag fhash]. intros h Eh. injection Eh as <-. split; [reflexivity|exact Hsz].
        -- cbn [upd_flag fdirty fhash]. rewrite Edb. intros Hd.
           destruct (O2 Hd) as (_ & _ & Hcv0 & Hst0).
           split; [exact Hc|]. split; [exact Hfit|]. split; [exact Hcv0|].
           intros h _. destruct (fhash f') as [h0|] eqn:Ef0; [exact (Hst0 h0 eq_refl)|].
           exfalso. destruct (Hcl eq_refl Hd) as [E1 E2].
           specialize (Hsz E1). congruence.
        -- intros Eh. discriminate Eh.
      * intros _. apply (flagged_not_hash _ (upd_flag c f' (RHash (H (spec_enc H m))))).
        destruct xc; try discriminate En; reflexivity.
      * intros E. discriminate E.
      * intros E. discriminate E.
Qed.

(* ------------------------------------------------------------------ (1) the inner theorem *)

Definition lz_ok (m : node) : Prop :=
  forall d x c force, canon m = true -> all_fits H m ->
    lzf H d (negb force) m x ->
    (force = false -> hash_big H m x) -> db_sound H d ->
    exists x' w, hash_node H c x force = Ok (href_of H m force, x', w) /\ lz_post c d force m x' w.

(* the three shortcuts of hasher.hash on a node with flags *)
Lemma dispatch_lazy c d force m x f' :
  node_flag x = Some f' -> lzf H d (negb force) m x -> flag_ok H d (negb force) m f' ->
  (exists x' w, walk_of c x f' force = Ok (href_of H m force, x', w) /\ lz_post c d force m x' w) ->
  exists x' w, hash_node H c x force = Ok (href_of H m force, x', w) /\ lz_post c d force m x' w.
Proof.
  intros En L O Hwalk. rewrite (hash_node_flagged c x f' force En).
  destruct (fhash f') as [h|] eqn:Ef; [|exact Hwalk].
  destruct (hdb c) eqn:Edb; cbn [negb].
  - destruct (can_unload f' c) eqn:Ecu.
    + apply (cached_unload c d force m f' h Ef O).
      unfold can_unload in Ecu. apply andb_prop in Ecu as [E _].
      destruct (fdirty f'); [discriminate E|reflexivity].
    + destruct (fdirty f') eqn:Efd; cbn [negb]; [exact Hwalk|].
      apply (cached_keep c d force m x f' h En Ef L O). intros _. exact Efd.
  - apply (cached_keep c d force m x f' h En Ef L O). rewrite Edb. intros E. discriminate E.
Qed.

Lemma lzf_canon_nonnil d s m x : canon m = true -> lzf H d s m x ->
  forall (A : Type) (a b : A), match x with NNil => a | _ => b end = b.
Proof.
  intros Hc L A a b. destruct m as [|k c f|cs f|h|v]; try discriminate Hc.
  - destruct (lzf_short_inv _ _ _ _ _ _ L) as [[-> _]|(x1 & f' & -> & _)]; reflexivity.
  - destruct (lzf_full_inv _ _ _ _ _ L) as [[-> _]|(xs & f' & -> & _)]; reflexivity.
Qed.

Lemma slot_lazy c f i m0 x0 d :
  lz_ok m0 -> TrieRootProofs.child_ok i m0 -> lzf H d true m0 x0 ->
  hash_big H m0 x0 -> all_fits H m0 ->
  (canon m0 = true -> max_key_len (content_of m0) < f) -> db_sound H d ->
  exists x' w, hc_slot (fun y => hash_node H c y false) i x0 = Ok (item_at H f i m0, x', w)
    /\ wr_ok H w /\ (hdb c = false -> w = [])
    /\ lzf H (db_put_all d w) true m0 x' /\ hash_big H m0 x'
    /\ (hdb c = true -> cov1 H (stored H (db_put_all d w)) m0).
Proof.
  intros Hx Hok L HB Hfit Hm Hsd. unfold hc_slot, TrieRootProofs.child_ok, item_at in *.
  destruct (Nat.ltb i 16).
  - destruct Hok as [->|Hcx].
    + rewrite (lzf_nil_inv _ _ _ L). exists NNil, []. split; [reflexivity|]. split; [constructor|].
      split; [reflexivity|]. split; [apply lzf_nil|]. split; [apply hash_big_nil|].
      intros _. split; [intros E; discriminate E|exact I].
    + destruct (Hx d x0 c false Hcx Hfit L (fun _ => HB) Hsd) as (x' & w & E & P).
      destruct P as (Hw & Hnw & L' & B' & St & Cv).
      exists x', w. split.
      * rewrite (lzf_canon_nonnil d true m0 x0 Hcx L), E. cbn [bind]. rewrite href_item_of.
        rewrite (n_ref_spec H f m0 Hcx (Hm Hcx)). reflexivity.
      * split; [exact Hw|]. split; [exact Hnw|]. split; [exact L'|]. split; [exact (B' eq_refl)|].
        intros Hdb. split; [|exact (Cv Hdb)].
        intros _ Hbg. apply St; auto.
  - destruct Hok as [->|[v ->]].
    + rewrite (lzf_nil_inv _ _ _ L). exists NNil, []. split; [reflexivity|]. split; [constructor|].
      split; [reflexivity|]. split; [apply lzf_nil|]. split; [apply hash_big_nil|].
      intros _. split; [intros E; discriminate E|exact I].
    + rewrite (lzf_val_inv _ _ _ _ L). exists (NVal v), []. split; [reflexivity|]. split; [constructor|].
      split; [reflexivity|]. split; [apply lzf_val|]. split; [intros h E; discriminate E|].
      intros _. split; [intros E; discriminate E|exact I].
Qed.

Lemma go_lazy c f : forall cs xs i d,
  Forall lz_ok cs -> slots_ok i cs ->
  Forall2 (lzf H d true) cs xs -> Forall2 (hash_big H) cs xs ->
  Forall (all_fits H) cs ->
  (forall x, In x cs -> canon x = true -> max_key_len (content_of x) < f) -> db_sound H d ->
  exists xs' w, hc_go (fun y => hash_node H c y false) i xs = Ok (items H f i cs, xs', w)
    /\ wr_ok H w /\ (hdb c = false -> w = [])
    /\ Forall2 (lzf H (db_put_all d w) true) cs xs' /\ Forall2 (hash_big H) cs xs'
    /\ (hdb c = true -> Forall (cov1 H (stored H (db_put_all d w))) cs).
Proof.
  induction cs as [|m0 t IH]; intros xs i d HF Hs HL HB Hfit Hm Hsd.
  - inversion HL; subst. exists [], []. split; [reflexivity|]. split; [constructor|].
    split; [reflexivity|]. repeat split; constructor.
  - inversion HL as [|? x0 ? xt L0 Lt]; subst.
    inversion HB as [|? ? ? ? B0 Bt]; subst.
    inversion HF as [|? ? Hx HF']; subst. inversion Hfit as [|? ? Hfit0 Hfitt]; subst.
    destruct Hs as [Hxok Hs].
    destruct (slot_lazy c f i m0 x0 d Hx Hxok L0 B0 Hfit0 (Hm m0 (or_introl eq_refl)) Hsd)
      as (x0' & wx & Ex & Hwx & Hnwx & L0' & B0' & Cv0).
    assert (Hle1 : db_le d (db_put_all d wx)) by apply db_le_put_all.
    destruct (IH xt (S i) (db_put_all d wx) HF' Hs
                (Forall2_impl _ _ (fun a b0 => lzf_mono_le _ _ Hle1 a true b0) _ _ Lt)
                Bt Hfitt (fun y Hy => Hm y (or_intror Hy)) (db_put_all_sound H wx d Hsd Hwx))
      as (xt' & wt & Et & Hwt & Hnwt & Lt' & Bt' & Cvt).
    rewrite hc_go_cons, Ex. cbn [bind]. rewrite Et. cbn [bind].
    exists (x0' :: xt'), (wx ++ wt). split; [reflexivity|].
    rewrite db_put_all_app.
    assert (Hle2 : db_le (db_put_all d wx) (db_put_all (db_put_all d wx) wt)) by apply db_le_put_all.
    split; [apply Forall_app; split; assumption|].
    split; [intros Hdb; rewrite (Hnwx Hdb), (Hnwt Hdb); reflexivity|].
    split; [constructor; [exact (lzf_mono_le _ _ Hle2 _ _ _ L0')|exact Lt']|].
    split; [constructor; assumption|].
    intros Hdb. constructor; [|exact (Cvt Hdb)].
    exact (cov1_mono H _ _ Hle2 _ (Cv0 Hdb)).
Qed.

Theorem hash_node_lazy_aux : forall m, lz_ok m.
Proof.
  induction m as [|k ch f IH|cs f IH|h|v] using node_ind';
    unfold lz_ok; intros d x c force Hc Hfit L HB Hsd; try discriminate Hc.
  - (* short node *)
    destruct (lzf_short_inv _ _ _ _ _ _ L) as [[-> Ha]|(x1 & f' & -> & L1 & B1 & O)].
    { rewrite hash_node_hashnode. apply lz_hash_case; [exact Ha|].
      destruct force; [right; reflexivity|left; exact (HB eq_refl _ eq_refl)]. }
    apply (dispatch_lazy c d force (NShort k ch f) (NShort k x1 f') f' eq_refl L O).
    unfold walk_of. pose proof Hc as Hc0. pose proof Hfit as Hfit0.
    rewrite canon_short in Hc. apply andb_prop in Hc as [Hk Hc].
    assert (Hkne : k <> []) by (destruct k; [discriminate Hk|discriminate]).
    destruct Hfit as [_ Hfitc].
    destruct ch as [| |cs0 f0| |v]; try discriminate Hc.
    + (* extension *)
      apply andb_prop in Hc as [Hp Hcc].
      assert (Hnv : is_val x1 = false).
      { destruct (lzf_full_inv _ _ _ _ _ L1) as [[-> _]|(? & ? & -> & _)]; reflexivity. }
      destruct (IH d x1 c false Hcc Hfitc L1 (fun _ => B1) Hsd) as (x1' & w1 & E & P).
      destruct P as (Hw1 & Hnw1 & L1' & B1' & St1 & Cv1).
      rewrite hash_children_short_nv by exact Hnv. rewrite E. cbn [bind].
      destruct (spec_item_ext H k cs0 f0 f Hkne Hp Hcc) as (mm & Hmm & Es).
      rewrite (n_ref_spec H mm _ Hcc Hmm) in Es. rewrite <- href_item_of in Es. rewrite <- Es.
      apply (finish_lazy c (NShort k (NFull cs0 f0) f) (NShort k x1' f') f' w1 d force);
        try assumption; try reflexivity.
      * intros Hdb. apply covers_p_short. split; [|exact (Cv1 Hdb)].
        intros _ Hbg. apply St1; auto.
      * intros d' fl Hle Ofl. cbn [set_flag].
        apply lzf_short; [exact (lzf_mono_le _ _ Hle _ _ _ L1')|exact (B1' eq_refl)|exact Ofl].
    + (* leaf *)
      apply andb_prop in Hc as [Ht Hv].
      pose proof (lzf_val_inv _ _ _ _ L1) as Ex. subst x1.
      rewrite hash_children_short_val. cbn [bind]. rewrite <- (spec_item_leaf H k v f Ht).
      apply (finish_lazy c (NShort k (NVal v) f) (NShort k (NVal v) f') f' [] d force);
        try assumption; try reflexivity.
      * constructor.
      * intros _. apply covers_p_short. split; [intros E; discriminate E|exact I].
      * intros d' fl Hle Ofl. cbn [set_flag].
        apply lzf_short; [apply lzf_val|intros h0 E; discriminate E|exact Ofl].
  - (* full node *)
    destruct (lzf_full_inv _ _ _ _ _ L) as [[-> Ha]|(xs & f' & -> & Ls & Bs & O)].
    { rewrite hash_node_hashnode. apply lz_hash_case; [exact Ha|].
      destruct force; [right; reflexivity|left; exact (HB eq_refl _ eq_refl)]. }
    apply (dispatch_lazy c d force (NFull cs f) (NFull xs f') f' eq_refl L O).
    unfold walk_of.
    destruct (spec_item_full H cs f Hc) as (mm & Hmm & Es).
    pose proof (proj2 (proj1 (all_fits_full H cs f) Hfit)) as Hfits.
    destruct (go_lazy c mm cs xs 0 d IH (canon_slots_ok _ _ Hc) Ls Bs Hfits Hmm Hsd)
      as (xs' & w1 & Eg & Hw1 & Hnw1 & Ls' & Bs' & Cv1).
    rewrite hash_children_full, Eg. cbn [bind]. rewrite <- Es.
    apply (finish_lazy c (NFull cs f) (NFull xs' f') f' w1 d force); try assumption; try reflexivity.
    + intros Hdb. apply covers_p_full. exact (Cv1 Hdb).
    + intros d' fl Hle Ofl. cbn [set_flag]. apply lzf_full; [|exact Bs'|exact Ofl].
      exact (Forall2_impl _ _ (fun a b0 => lzf_mono_le _ _ Hle a true b0) _ _ Ls').
Qed.

(* hasher.hash on the in-memory form x of m: the reference of m; the cached node
   again represents m over the database after the writes *)
Theorem hash_node_lazy : forall (c : hctx) (force : bool) d m x,
  canon m = true -> all_fits H m -> lzf H d (negb force) m x ->
  (force = false -> hash_big H m x) -> db_sound H d ->
  exists x' w,
    hash_node H c x force =
      Ok (if big H m || force then RHash (H (spec_enc H m)) else RInline (spec_item H m), x', w)
    /\ wr_ok H w /\ (hdb c = false -> w = [])
    /\ let d' := db_put_all d w in
       lzf H d' (negb force) m x' /\ (force = false -> hash_big H m x')
       /\ (hdb c = true -> (big H m = true \/ force = true) -> stored H d' m)
       /\ (hdb c = true -> covers H d' m).
Proof.
  intros c force d m x Hc Hfit L HB Hsd.
  destruct (hash_node_lazy_aux m d x c force Hc Hfit L HB Hsd) as (x' & w & E & P).
  exists x', w. rewrite (href_of_lref m force) in E. split; [exact E|].
  destruct P as (P1 & P2 & P3 & P4 & P5 & P6). cbv zeta.
  split; [exact P1|]. split; [exact P2|]. split; [exact P3|]. split; [exact P4|]. split; [exact P5|exact P6].
Qed.

(* with a database (Commit) *)
Theorem hash_node_lazy_db : forall (c : hctx) (force : bool) d m x,
  hdb c = true -> canon m = true -> all_fits H m -> lzf H d (negb force) m x ->
  (force = false -> hash_big H m x) -> db_sound H d ->
  exists x' w,
    hash_node H c x force =
      Ok (if big H m || force then RHash (H (spec_enc H m)) else RInline (spec_item H m), x', w)
    /\ wr_ok H w
    /\ let d' := db_put_all d w in
       lzf H d' (negb force) m x' /\ (force = false -> hash_big H m x')
       /\ ((big H m = true \/ force = true) -> stored H d' m) /\ covers H d' m.
Proof.
  intros c force d m x Hdb Hc Hfit L HB Hsd.
  destruct (hash_node_lazy c force d m x Hc Hfit L HB Hsd) as (x' & w & E & Hw & _ & P).
  exists x', w. split; [exact E|]. split; [exact Hw|]. cbv zeta in *.
  destruct P as (P3 & P4 & P5 & P6).
  split; [exact P3|]. split; [exact P4|]. split; [exact (P5 Hdb)|exact (P6 Hdb)].
Qed.

(* without a database (Hash, Prove): nothing is written *)
Theorem hash_node_lazy_nodb : forall (c : hctx) (force : bool) d m x,
  hdb c = false -> canon m = true -> all_fits H m -> lzf H d (negb force) m x ->
  (force = false -> hash_big H m x) -> db_sound H d ->
  exists x',
    hash_node H c x force =
      Ok (if big H m || force then RHash (H (spec_enc H m)) else RInline (spec_item H m), x', [])
    /\ lzf H d (negb force) m x' /\ (force = false -> hash_big H m x').
Proof.
  intros c force d m x Hdb Hc Hfit L HB Hsd.
  destruct (hash_node_lazy c force d m x Hc Hfit L HB Hsd) as (x' & w & E & _ & Hnw & P).
  rewrite (Hnw Hdb) in *. exists x'. split; [exact E|]. cbv zeta in P. rewrite db_put_all_nil in P.
  destruct P as (P3 & P4 & _). split; [exact P3|exact P4].
Qed.

(* ------------------------------------------------------------------ (2) Trie.Hash / Trie.Commit *)

Lemma hash_root_nonnil_eq t withdb : troot t <> NNil ->
  hash_root H t withdb =
  bind (hash_node H (mkHctx withdb (tgen t) (tlimit t)) (troot t) true) (fun '(hr, cached, w) =>
    match hr with RHash h => Ok (to_hash h, cached, w) | RInline _ => Panic end).
Proof. intros Hne. unfold hash_root. destruct (troot t); [congruence|reflexivity..]. Qed.

Lemma hash_root_lazy withdb d m t :
  lazy_trie H d m t -> all_fits H m -> db_sound H d ->
  exists x' w, hash_root H t withdb = Ok (mpt_root_hex H (content_of m), x', w)
    /\ wr_ok H w /\ (withdb = false -> w = [])
    /\ lzf H (db_put_all d w) false m x'
    /\ (withdb = true -> m <> NNil -> avail H (db_put_all d w) m).
Proof.
  intros (Hcr & L & _ & _) Hfit Hsd.
  unfold canon_root in Hcr. apply orb_true_iff in Hcr as [Hnil|Hc].
  - destruct m; try discriminate Hnil. pose proof (lzf_nil_inv _ _ _ L) as Ex.
    unfold hash_root. rewrite Ex. exists NNil, []. split; [reflexivity|]. split; [constructor|].
    split; [reflexivity|]. split; [apply lzf_nil|].
    intros _ Hne. congruence.
  - assert (Hne : troot t <> NNil).
    { intros E. pose proof (lzf_canon_nonnil d false m (troot t) Hc L bool true false) as E2.
      rewrite E in E2. discriminate E2. }
    rewrite (hash_root_nonnil_eq t withdb Hne).
    destruct (hash_node_lazy_aux m d (troot t) (mkHctx withdb (tgen t) (tlimit t)) true Hc Hfit L
                (fun E => False_ind _ (Bool.diff_true_false E)) Hsd) as (x' & w & E & P).
    rewrite (href_of_hash m true (or_intror eq_refl)) in E.
    destruct P as (P1 & P2 & P3 & _ & P5 & P6). cbn [hdb negb] in *.
    rewrite E. cbn [bind]. rewrite (to_hash_H H Hlen), (root_hash_eq H m Hc).
    exists x', w. split; [reflexivity|]. split; [exact P1|]. split; [exact P2|].
    split; [exact P3|].
    intros Hdb _. split; [exact Hc|]. split; [exact Hfit|]. split; [apply P5; auto|apply P6; exact Hdb].
Qed.

Lemma gen_next_lt g : ((g + 1) mod 65536 < 65536)%N.
Proof. apply N.mod_lt. discriminate. Qed.

Theorem trie_commit_lazy : forall d m t,
  lazy_trie H d m t -> all_fits H m -> db_sound H d ->
  exists t' d', trie_commit H t d = Ok (mpt_root_hex H (content_of m), t', d')
    /\ lazy_trie H d' m t' /\ db_sound H d'
    /\ (forall m0, canon m0 = true -> stored H d m0 -> stored H d' m0)
    /\ (m <> NNil -> avail H d' m).
Proof.
  intros d m t HL Hfit Hsd.
  destruct (hash_root_lazy true d m t HL Hfit Hsd) as (x' & w & E & Hw & _ & L' & Ha).
  destruct HL as (Hcr & _ & Hg & Hl).
  unfold trie_commit. rewrite E. cbn [bind]. eexists. eexists. split; [reflexivity|].
  split; [|split; [|split]].
  - split; [exact Hcr|]. split; [exact L'|]. split; [apply gen_next_lt|exact Hl].
  - apply db_put_all_sound; assumption.
  - apply db_le_put_all.
  - intros Hne. apply Ha; [reflexivity|exact Hne].
Qed.

Theorem trie_hash_lazy : forall d m t,
  lazy_trie H d m t -> all_fits H m -> db_sound H d ->
  exists t', trie_hash H t = Ok (mpt_root_hex H (content_of m), t') /\ lazy_trie H d m t'.
Proof.
  intros d m t HL Hfit Hsd.
  destruct (hash_root_lazy false d m t HL Hfit Hsd) as (x' & w & E & _ & Hnw & L' & _).
  rewrite (Hnw eq_refl), db_put_all_nil in L'. destruct HL as (Hcr & _ & Hg & Hl).
  unfold trie_hash. rewrite E. cbn [bind]. eexists. split; [reflexivity|].
  split; [exact Hcr|]. split; [exact L'|]. split; assumption.
Qed.

End LazyCommit.
