(* Trie/TrieLazyTheorems.v — histories on a trie as the Go code holds it in
   general (partly unloaded to hash nodes, cached hashes, dirty flags, a node
   database): update / delete / get / commit (any number of commits, so with
   cache-generation unloading and reloading) / SetCacheLimit; reopen as a step.
   Assembled from TrieLazy{Insert,Delete,Get,Commit}Proofs. *)
From Coq Require Import ZifyBool ZifyN ZifyNat Permutation.
From AQ Require Import Lib.Bytes Rlp.RlpSpec Trie.MptSpec Trie.TrieModel Trie.TrieInv Trie.TrieProofs
  Trie.MptSpecProofs Trie.TrieContentProofs Trie.TrieCodecDefs Trie.TrieReopenProofs Trie.TrieLazyDefs
  Trie.TrieLazyInsertProofs Trie.TrieLazyDeleteProofs Trie.TrieLazyGetProofs Trie.TrieLazyCommitProofs
  Trie.TrieFitsProofs.
Local Open Scope N_scope.

Definition nmap := bytes -> option bytes.          (* finite maps over terminated nibble keys *)
Definition hexk (k : bytes) : bytes := keybytes_to_hex k.

(* the canonical loaded trie m denotes the map mp *)
Definition denotes (m : node) (mp : nmap) : Prop :=
  canon_root m = true /\ forall k, lookup (content_of m) k = mp k.

Lemma lookup_some_in' (J : content) k v : lookup J k = Some v -> In (k, v) J.
Proof.
  induction J as [|[k0 v0] J IH]; cbn [lookup fst snd]; [discriminate|].
  destruct (bytes_eqb_spec k0 k) as [->|]; [intros E; injection E as ->; now left|right; auto].
Qed.
Lemma lookup_non_tkey m k : canon_root m = true -> tkeyb k = false -> lookup (content_of m) k = None.
Proof.
  intros Hc Hk. destruct (lookup (content_of m) k) as [v|] eqn:E; [|reflexivity].
  apply lookup_some_in' in E. destruct (canon_root_wf_content _ Hc) as [_ Hall].
  rewrite Forall_forall in Hall. specialize (Hall _ E). cbn [fst] in Hall. congruence.
Qed.

(* the meaning of an operation on the denoted map *)
Definition lmap (mp : nmap) (o : op) : nmap :=
  match o with
  | OpUpdate k v => fun k' => if bytes_eqb (hexk k) k' then (match v with [] => None | _ => Some v end) else mp k'
  | OpDelete k => fun k' => if bytes_eqb (hexk k) k' then None else mp k'
  | _ => mp
  end.

Section LazyHistories.
Variable H : bytes -> bytes.
Hypothesis Hlen : forall x, length (H x) = 32%nat.
Hypothesis Hcf : forall m1 m2, canon m1 = true -> canon m2 = true ->
  H (spec_enc H m1) = H (spec_enc H m2) -> spec_enc H m1 = spec_enc H m2.

(* the trie value t over database d represents the map mp *)
Definition rep (d : db) (mp : nmap) (t : trie) : Prop := exists m, denotes m mp /\ lazy_trie H d m t.
(* every canonical trie denoting mp has RLP sizes below 2^64 (see all_fits_root_of_size) *)
Definition fits_map (mp : nmap) : Prop := forall m, denotes m mp -> all_fits H m.

(* the specification root of a map does not depend on the trie denoting it *)
Lemma denotes_root_unique m1 m2 mp : denotes m1 mp -> denotes m2 mp ->
  mpt_root_hex H (content_of m1) = mpt_root_hex H (content_of m2).
Proof.
  intros [C1 L1] [C2 L2]. apply mpt_root_hex_ext; try (now apply canon_root_wf_content).
  intros k. now rewrite L1, L2.
Qed.

Lemma rep_update d mp t k v : rep d mp t -> v <> [] ->
  exists t', trie_update t d k v = Ok t' /\ rep d (lmap mp (OpUpdate k v)) t'.
Proof.
  intros (m & [Hc Hl] & Hz) Hv.
  destruct (trie_update_lazy H Hlen d m t k v Hz) as (t' & m' & E & Hz' & Hlk).
  { destruct v; [contradiction|reflexivity]. }
  exists t'. split; [exact E|]. exists m'. split; [|exact Hz'].
  split; [apply Hz'|]. intros k'. rewrite Hlk. unfold lmap, hexk.
  destruct (bytes_eqb (keybytes_to_hex k) k'); [destruct v; [contradiction|reflexivity]|apply Hl].
Qed.

Lemma rep_delete d mp t k : rep d mp t ->
  exists t', trie_delete t d k = Ok t' /\ rep d (lmap mp (OpDelete k)) t'.
Proof.
  intros (m & [Hc Hl] & Hz).
  destruct (trie_delete_lazy H Hlen d m t k Hz) as (t' & m' & E & Hz' & Hlk).
  exists t'. split; [exact E|]. exists m'. split; [|exact Hz'].
  assert (Hc' : canon_root m' = true) by apply Hz'.
  split; [exact Hc'|]. intros k'. unfold lmap, hexk.
  destruct (tkeyb k') eqn:Hk.
  - rewrite (Hlk k' Hk). destruct (bytes_eqb (keybytes_to_hex k) k'); [reflexivity|apply Hl].
  - rewrite (lookup_non_tkey m' k' Hc' Hk).
    destruct (bytes_eqb_spec (keybytes_to_hex k) k') as [<-|_]; [reflexivity|].
    rewrite <- Hl. symmetry. now apply lookup_non_tkey.
Qed.

Lemma rep_get d mp t k : rep d mp t -> exists t', trie_get t d k = Ok (mp (hexk k), t') /\ rep d mp t'.
Proof.
  intros (m & [Hc Hl] & Hz). destruct (trie_get_lazy H Hlen d m t k Hz) as (t' & E & Hz').
  exists t'. rewrite E, Hl. split; [reflexivity|]. exists m. split; [split; assumption|exact Hz'].
Qed.

Lemma rep_commit d mp t : rep d mp t -> fits_map mp -> db_sound H d ->
  exists r t' d', trie_commit H t d = Ok (r, t', d') /\ rep d' mp t' /\ db_sound H d' /\
    (forall m0, canon m0 = true -> stored H d m0 -> stored H d' m0) /\
    exists m, denotes m mp /\ r = mpt_root_hex H (content_of m) /\ (m <> NNil -> avail H d' m).
Proof.
  intros (m & Hd & Hz) Hf Hs.
  destruct (trie_commit_lazy H Hlen Hcf d m t Hz (Hf m Hd) Hs) as (t' & d' & E & Hz' & Hs' & Hmono & Hav).
  exists (mpt_root_hex H (content_of m)), t', d'. split; [exact E|]. split; [exists m; auto|].
  split; [exact Hs'|]. split; [exact Hmono|]. exists m. auto.
Qed.

(* side conditions of a history: Commit needs the sizes to fit, SetCacheLimit takes a uint16 *)
Definition lazy_op (mp : nmap) (o : op) : Prop :=
  match o with
  | OpUpdate _ _ | OpDelete _ | OpGet _ => True
  | OpCommit => fits_map mp
  | OpLimit l => l < 65536
  | _ => False
  end.
Fixpoint lazy_ops (mp : nmap) (ops : list op) : Prop :=
  match ops with [] => True | o :: r => lazy_op mp o /\ lazy_ops (lmap mp o) r end.
(* what each operation must observe, given the map before it *)
Definition lazy_obs (mp : nmap) (o : op) (ob : obs) : Prop :=
  match o with
  | OpGet k => ob = OVal (mp (hexk k))
  | OpCommit => exists m, denotes m mp /\ ob = ORoot (mpt_root_hex H (content_of m))
  | _ => ob = ODone
  end.
Fixpoint lazy_trace (mp : nmap) (ops : list op) (obl : list obs) : Prop :=
  match ops, obl with
  | [], [] => True
  | o :: r, ob :: obr => lazy_obs mp o ob /\ lazy_trace (lmap mp o) r obr
  | _, _ => False
  end.

Lemma lazy_step : forall s o mp, rep (sdb s) mp (strie s) -> db_sound H (sdb s) -> lazy_op mp o ->
  exists s' ob, step H s o = (s', ob) /\ rep (sdb s') (lmap mp o) (strie s') /\ db_sound H (sdb s') /\
    lazy_obs mp o ob /\ (forall m0, canon m0 = true -> stored H (sdb s) m0 -> stored H (sdb s') m0).
Proof.
  intros s o mp Hr Hs Ho. destruct o as [k v|k|k| | | |l| |]; cbn [lazy_op] in Ho; try contradiction; cbn [step].
  - destruct v as [|v0 v].
    + destruct (rep_delete _ _ _ k Hr) as (t' & E & Hr').
      change (trie_update (strie s) (sdb s) k []) with (trie_delete (strie s) (sdb s) k). rewrite E.
      eexists _, _. split; [reflexivity|]. cbn [sdb strie]. repeat split; auto.
    + destruct (rep_update _ _ _ k (v0 :: v) Hr ltac:(discriminate)) as (t' & E & Hr'). rewrite E.
      eexists _, _. split; [reflexivity|]. cbn [sdb strie]. repeat split; auto.
  - destruct (rep_delete _ _ _ k Hr) as (t' & E & Hr'). rewrite E.
    eexists _, _. split; [reflexivity|]. cbn [sdb strie]. repeat split; auto.
  - destruct (rep_get _ _ _ k Hr) as (t' & E & Hr'). rewrite E.
    eexists _, _. split; [reflexivity|]. cbn [sdb strie lmap lazy_obs]. repeat split; auto.
  - destruct (rep_commit _ _ _ Hr Ho Hs) as (r & t' & d' & E & Hr' & Hs' & Hmono & m & Hd & Er & _). rewrite E.
    eexists _, _. split; [reflexivity|]. cbn [sdb strie lmap lazy_obs]. repeat split; auto.
    exists m. split; [exact Hd|now rewrite Er].
  - eexists _, _. split; [reflexivity|]. cbn [sdb strie lmap lazy_obs]. repeat split; auto.
    destruct Hr as (m & Hd & Hz). exists m. split; [exact Hd|]. now apply lazy_set_limit.
Qed.

(* histories of update / delete / get / commit / SetCacheLimit in any order, any
   number of commits (so with unloading of old cache generations to hash nodes
   and reloading through the database): every operation succeeds, every get
   returns what the denoted map says, every Commit returns the specification
   root of the content at that point, the database stays sound and only grows *)
Theorem lazy_history : forall ops s mp,
  rep (sdb s) mp (strie s) -> db_sound H (sdb s) -> lazy_ops mp ops ->
  exists s' obl, run_ops H s ops = (s', obl) /\ rep (sdb s') (fold_left lmap ops mp) (strie s') /\
    db_sound H (sdb s') /\ lazy_trace mp ops obl /\
    (forall m0, canon m0 = true -> stored H (sdb s) m0 -> stored H (sdb s') m0).
Proof.
  induction ops as [|o ops IH]; intros s mp Hr Hs Ho.
  - exists s, []. cbn. auto.
  - destruct Ho as [Ho Hos]. destruct (lazy_step s o mp Hr Hs Ho) as (s1 & ob & E1 & Hr1 & Hs1 & Hob & Hm1).
    destruct (IH s1 (lmap mp o) Hr1 Hs1 Hos) as (s2 & obl & E2 & Hr2 & Hs2 & Ht & Hm2).
    exists s2, (ob :: obl). cbn [run_ops]. rewrite E1, E2. cbn [fold_left lazy_trace]. repeat split; auto.
Qed.

(* from the empty trie over the empty database *)
Theorem lazy_history_empty : forall ops, lazy_ops (fun _ => None) ops ->
  exists s' obl, run_ops H init_state ops = (s', obl) /\
    rep (sdb s') (fold_left lmap ops (fun _ => None)) (strie s') /\ db_sound H (sdb s') /\
    lazy_trace (fun _ => None) ops obl.
Proof.
  intros ops Ho.
  destruct (lazy_history ops init_state (fun _ => None)) as (s' & obl & E & Hr & Hs & Ht & _); auto.
  - exists NNil. split; [split; [reflexivity|intros k; reflexivity]|apply lazy_empty].
  - intros h e Hd. discriminate Hd.
  - exists s', obl. auto.
Qed.

(* reopening: once a trie denoting mp has been committed into d (avail), trie.New
   on its root over d or any later database yields a trie representing mp *)
Theorem reopen_step : forall d d' m mp, denotes m mp -> avail H d m ->
  (forall m0, canon m0 = true -> stored H d m0 -> stored H d' m0) ->
  mpt_root_hex H (content_of m) <> zero_hash -> mpt_root_hex H (content_of m) <> empty_root H ->
  exists t, trie_new H (mpt_root_hex H (content_of m)) d' = Ok t /\ rep d' mp t.
Proof.
  intros d d' m mp Hd Hav Hmono Hz He.
  destruct (trie_new_lazy H Hlen d' m (avail_mono H d d' m Hmono Hav) Hz He) as (t & E & Hl).
  exists t. split; [exact E|]. exists m. auto.
Qed.

(* the size premise is met by every trie whose content is below 4 GiB *)
Lemma fits_of_size : forall m, canon_root m = true -> content_size (content_of m) < 2 ^ 32 -> all_fits H m.
Proof. intros m Hc Hsz. now apply (all_fits_root_of_size H Hlen). Qed.

(* the empty map fits; so a history may start with a Commit *)
Lemma fits_map_empty : fits_map (fun _ => None).
Proof.
  intros m [Hc Hl]. apply fits_of_size; [exact Hc|].
  destruct (content_of m) as [|[k v] J] eqn:E; [reflexivity|].
  specialize (Hl k). cbn [lookup fst snd] in Hl. rewrite bytes_eqb_refl in Hl. discriminate.
Qed.

(* fits_map from one witness: all tries denoting the same map list the same content up to order *)
Lemma fits_map_of_witness : forall mp m0, denotes m0 mp -> content_size (content_of m0) < 2 ^ 32 -> fits_map mp.
Proof.
  intros mp m0 [C0 L0] Hsz m [C L]. apply fits_of_size; [exact C|].
  rewrite (content_size_perm (content_of m) (content_of m0)); [exact Hsz|].
  destruct (canon_root_wf_content _ C) as [N1 _]. destruct (canon_root_wf_content _ C0) as [N0 _].
  apply NoDup_Permutation.
  - eapply NoDup_map_inv; exact N1.
  - eapply NoDup_map_inv; exact N0.
  - intros [k v]. rewrite (lookup_in H _ k v N1), (lookup_in H _ k v N0). now rewrite L, L0.
Qed.
End LazyHistories.
