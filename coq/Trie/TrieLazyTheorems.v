(* Trie/TrieLazyTheorems.v — histories on a trie as the Go code holds it in
   general (partly unloaded to hash nodes, cached hashes, dirty flags, a node
   database): update / delete / get / commit (any number of commits, so with
   cache-generation unloading and reloading) / SetCacheLimit; reopen as a step.
   Assembled from TrieLazy{Insert,Delete,Get,Commit}Proofs. *)
From Coq Require Import ZifyBool ZifyN ZifyNat Permutation.
From AQ Require Import Lib.Bytes Rlp.RlpSpec Trie.MptSpec Trie.TrieModel Trie.TrieInv Trie.TrieProofs
  Trie.MptSpecProofs Trie.TrieContentProofs Trie.TrieCodecDefs Trie.TrieReopenProofs Trie.TrieLazyDefs
  Trie.TrieLazyInsertProofs Trie.TrieLazyDeleteProofs Trie.TrieLazyGetProofs Trie.TrieLazyCommitProofs
  Trie.TrieIterProofs Trie.TrieLazyIterProofs Trie.TrieLazyProveProofs
  Trie.TrieFitsProofs.
Local Open Scope N_scope.

Definition nmap := bytes -> option bytes.          (* finite maps over terminated nibble keys *)
Definition hexk (k : bytes) : bytes := keybytes_to_hex k.

(* the canonical loaded trie m denotes the map mp *)
Definition denotes (m : node) (mp : nmap) : Prop :=
  canon_root m = true /\ forall k, lookup (content_of m) k = mp k.

Lemma lookup_some_in' (J : content) k v : lookup J k = Some v -> In (k, v) J.
Proof.
  induction J as [|[k0 v0] J IH]; cbn [lookup fst snd]; [discriminate|].
  destruct (bytes_eqb_spec k0 k) as [->|]; [intros E; injection E as ->; now left|right; auto].
Qed.
Lemma lookup_non_tkey m k : canon_root m = true -> tkeyb k = false -> lookup (content_of m) k = None.
Proof.
  intros Hc Hk. destruct (lookup (content_of m) k) as [v|] eqn:E; [|reflexivity].
  apply lookup_some_in' in E. destruct (canon_root_wf_content _ Hc) as [_ Hall].
  rewrite Forall_forall in Hall. specialize (Hall _ E). cbn [fst] in Hall. congruence.
Qed.

(* the meaning of an operation on the denoted map *)
Definition lmap (mp : nmap) (o : op) : nmap :=
  match o with
  | OpUpdate k v => fun k' => if bytes_eqb (hexk k) k' then (match v with [] => None | _ => Some v end) else mp k'
  | OpDelete k => fun k' => if bytes_eqb (hexk k) k' then None else mp k'
  | _ => mp
  end.

Section LazyHistories.
Variable H : bytes -> bytes.
Hypothesis Hlen : forall x, length (H x) = 32%nat.
Hypothesis Hcf : forall m1 m2, canon m1 = true -> canon m2 = true ->
  H (spec_enc H m1) = H (spec_enc H m2) -> spec_enc H m1 = spec_enc H m2.

(* the trie value t over database d represents the map mp *)
Definition rep (d : db) (mp : nmap) (t : trie) : Prop := exists m, denotes m mp /\ lazy_trie H d m t.
(* every canonical trie denoting mp has RLP sizes below 2^64 (see all_fits_root_of_size) *)
Definition fits_map (mp : nmap) : Prop := forall m, denotes m mp -> all_fits H m.

(* the specification root of a map does not depend on the trie denoting it *)
Lemma denotes_root_unique m1 m2 mp : denotes m1 mp -> denotes m2 mp ->
  mpt_root_hex H (content_of m1) = mpt_root_hex H (content_of m2).
Proof.
  intros [C1 L1] [C2 L2]. apply mpt_root_hex_ext; try (now apply canon_root_wf_content).
  intros k. now rewrite L1, L2.
Qed.

Lemma rep_update d mp t k v : rep d mp t -> v <> [] ->
  exists t', trie_update t d k v = Ok t' /\ rep d (lmap mp (OpUpdate k v)) t'.
Proof.
  intros (m & [Hc Hl] & Hz) Hv.
  destruct (trie_update_lazy H Hlen d m t k v Hz) as (t' & m' & E & Hz' & Hlk).
  { destruct v; [contradiction|reflexivity]. }
  exists t'. split; [exact E|]. exists m'. split; [|exact Hz'].
  split; [apply Hz'|]. intros k'. rewrite Hlk. unfold lmap, hexk.
  destruct (bytes_eqb (keybytes_to_hex k) k'); [destruct v; [contradiction|reflexivity]|apply Hl].
Qed.

Lemma rep_delete d mp t k : rep d mp t ->
  exists t', trie_delete t d k = Ok t' /\ rep d (lmap mp (OpDelete k)) t'.
Proof.
  intros (m & [Hc Hl] & Hz).
  destruct (trie_delete_lazy H Hlen d m t k Hz) as (t' & m' & E & Hz' & Hlk).
  exists t'. split; [exact E|]. exists m'. split; [|exact Hz'].
  assert (Hc' : canon_root m' = true) by apply Hz'.
  split; [exact Hc'|]. intros k'. unfold lmap, hexk.
  destruct (tkeyb k') eqn:Hk.
  - rewrite (Hlk k' Hk). destruct (bytes_eqb (keybytes_to_hex k) k'); [reflexivity|apply Hl].
  - rewrite (lookup_non_tkey m' k' Hc' Hk).
    destruct (bytes_eqb_spec (keybytes_to_hex k) k') as [<-|_]; [reflexivity|].
    rewrite <- Hl. symmetry. now apply lookup_non_tkey.
Qed.

Lemma rep_get d mp t k : rep d mp t -> exists t', trie_get t d k = Ok (mp (hexk k), t') /\ rep d mp t'.
Proof.
  intros (m & [Hc Hl] & Hz). destruct (trie_get_lazy H Hlen d m t k Hz) as (t' & E & Hz').
  exists t'. rewrite E, Hl. split; [reflexivity|]. exists m. split; [split; assumption|exact Hz'].
Qed.

Lemma rep_commit d mp t : rep d mp t -> fits_map mp -> db_sound H d ->
  exists r t' d', trie_commit H t d = Ok (r, t', d') /\ rep d' mp t' /\ db_sound H d' /\
    (forall m0, canon m0 = true -> stored H d m0 -> stored H d' m0) /\
    exists m, denotes m mp /\ r = mpt_root_hex H (content_of m) /\ (m <> NNil -> avail H d' m).
Proof.
  intros (m & Hd & Hz) Hf Hs.
  destruct (trie_commit_lazy H Hlen Hcf d m t Hz (Hf m Hd) Hs) as (t' & d' & E & Hz' & Hs' & Hmono & Hav).
  exists (mpt_root_hex H (content_of m)), t', d'. split; [exact E|]. split; [exists m; auto|].
  split; [exact Hs'|]. split; [exact Hmono|]. exists m. auto.
Qed.

Lemma rep_hash d mp t : rep d mp t -> fits_map mp -> db_sound H d ->
  exists r t', trie_hash H t = Ok (r, t') /\ rep d mp t' /\
    exists m, denotes m mp /\ lazy_trie H d m t' /\ r = mpt_root_hex H (content_of m).
Proof.
  intros (m & Hd & Hz) Hf Hs.
  destruct (trie_hash_lazy H Hlen Hcf d m t Hz (Hf m Hd) Hs) as (t' & E & Hz').
  exists (mpt_root_hex H (content_of m)), t'. split; [exact E|]. split; [exists m; auto|]. exists m. auto.
Qed.

(* ---- ghost state of a history: the denoted map, and the roots committed so far
   with the map each of them denotes (what a later reopen must reproduce) *)
Definition snaps := list (bytes * nmap).
Fixpoint find_snap (r : bytes) (sn : snaps) : option nmap :=
  match sn with
  | [] => None
  | (r', mpr) :: t => if bytes_eqb r' r then Some mpr else find_snap r t
  end.
Definition gmap (mp : nmap) (sn : snaps) (o : op) : nmap :=
  match o with
  | OpReopen r => match find_snap r sn with Some mpr => mpr | None => mp end
  | _ => lmap mp o
  end.
Definition gsnaps (mp : nmap) (sn : snaps) (o : op) (ob : obs) : snaps :=
  match o, ob with OpCommit, ORoot r => (r, mp) :: sn | _, _ => sn end.

Definition nonempty_map (mp : nmap) : Prop := exists k v, mp k = Some v.
(* every key of the map is the nibble form of a byte key *)
Definition evenmap (mp : nmap) : Prop := forall k v, mp k = Some v -> exists kb, k = hexk kb.
Definition short_keys (mp : nmap) : Prop := forall m, denotes m mp -> (max_key_len (content_of m) <= 98)%nat.

(* side conditions: Hash / Commit / Iterate / Prove need the RLP sizes to fit 64
   bits (a derived fact below 4 GiB: fits_of_size); SetCacheLimit takes a uint16;
   reopen takes a root returned by an earlier Commit of this history, and the two
   roots trie.New treats as "empty" must not collide with a non-empty content;
   Iterate: keys of at most 48 bytes (the model's iteration fuel is 200); Prove:
   the empty trie is excluded (known finding prove-empty-trie-absence-not-verifiable) *)
Definition lazy_op (d : db) (mp : nmap) (sn : snaps) (o : op) : Prop :=
  match o with
  | OpUpdate _ _ | OpDelete _ | OpGet _ => True
  | OpHash | OpCommit => fits_map mp
  | OpLimit l => l < 65536
  | OpReopen r =>
    match find_snap r sn with
    | Some mpr => (r = zero_hash \/ r = empty_root H) -> forall k, mpr k = None
    | None =>   (* a root that was never committed: nothing is stored under it *)
      db_get d (to_hash r) = None /\ r <> zero_hash /\ r <> empty_root H
    end
  | OpIterate => fits_map mp /\ short_keys mp
  | OpProve _ => fits_map mp /\ nonempty_map mp
  end.
(* what each operation must observe, given the map before it *)
Definition lazy_obs (mp : nmap) (sn : snaps) (o : op) (ob : obs) : Prop :=
  match o with
  | OpGet k => ob = OVal (mp (hexk k))
  | OpHash | OpCommit => exists m, denotes m mp /\ ob = ORoot (mpt_root_hex H (content_of m))
  | OpIterate => exists m l, denotes m mp /\ ob = OList l /\
                   map snd l = map snd (content_of m) /\ map (fun kv => hexk (fst kv)) l = map fst (content_of m)
  | OpProve k => exists p, ob = OProof p (Ok (mp (hexk k)))
  | OpReopen r => ob = match find_snap r sn with Some _ => ODone | None => OMissing end
  | _ => ob = ODone
  end.
(* the side conditions along the actual run (the roots a reopen may use are the
   ones the run's own Commits returned) *)
Fixpoint lazy_ok (s : state) (mp : nmap) (sn : snaps) (ops : list op) : Prop :=
  match ops with
  | [] => True
  | o :: rest => lazy_op (sdb s) mp sn o /\
                 lazy_ok (fst (step H s o)) (gmap mp sn o) (gsnaps mp sn o (snd (step H s o))) rest
  end.
Fixpoint lazy_trace (mp : nmap) (sn : snaps) (ops : list op) (obl : list obs) : Prop :=
  match ops, obl with
  | [], [] => True
  | o :: r, ob :: obr => lazy_obs mp sn o ob /\ lazy_trace (gmap mp sn o) (gsnaps mp sn o ob) r obr
  | _, _ => False
  end.

Definition snap_ok (d : db) (e : bytes * nmap) : Prop :=
  exists m, denotes m (snd e) /\ fst e = mpt_root_hex H (content_of m) /\ evenmap (snd e) /\
            (m <> NNil -> avail H d m).
Definition inv (s : state) (mp : nmap) (sn : snaps) : Prop :=
  rep (sdb s) mp (strie s) /\ db_sound H (sdb s) /\ evenmap mp /\ Forall (snap_ok (sdb s)) sn.

Lemma find_snap_in r sn mpr : find_snap r sn = Some mpr -> In (r, mpr) sn.
Proof.
  induction sn as [|[r' m'] sn IH]; cbn [find_snap]; [discriminate|].
  destruct (bytes_eqb_spec r' r) as [->|]; [intros E; injection E as ->; now left|right; auto].
Qed.
Lemma snap_ok_mono d d' e : (forall m0, canon m0 = true -> stored H d m0 -> stored H d' m0) ->
  snap_ok d e -> snap_ok d' e.
Proof.
  intros Hm (m & Hd & Er & He & Hav). exists m. split; [exact Hd|]. split; [exact Er|]. split; [exact He|].
  intros Hn. exact (avail_mono H d d' m Hm (Hav Hn)).
Qed.
Lemma evenmap_lmap mp o : evenmap mp -> evenmap (lmap mp o).
Proof.
  intros He. destruct o as [k v|k| | | | | | |]; cbn [lmap]; auto; intros k' v'.
  - destruct (bytes_eqb_spec (hexk k) k') as [<-|_]; [intros _; eauto|apply He].
  - destruct (bytes_eqb_spec (hexk k) k') as [<-|_]; [discriminate|apply He].
Qed.
Lemma denotes_nonempty m mp : denotes m mp -> m <> NNil -> nonempty_map mp.
Proof.
  intros [Hc Hl] Hn. destruct (content_of m) as [|[k v] J] eqn:E.
  - exfalso. destruct m; try discriminate; [contradiction| |];
    cbn [canon_root is_nil orb] in Hc; exact (TrieRootProofs.canon_content_ne _ Hc E).
  - exists k, v. rewrite <- Hl. cbn [lookup fst snd]. now rewrite bytes_eqb_refl.
Qed.

(* trie.New on a root under which nothing is stored: MissingNodeError *)
Lemma trie_new_missing d r : db_get d (to_hash r) = None -> r <> zero_hash -> r <> empty_root H ->
  trie_new H r d = Missing.
Proof.
  intros Hg Hz He. unfold trie_new.
  destruct (bytes_eqb_spec r zero_hash) as [|_]; [contradiction|].
  destruct (bytes_eqb_spec r (empty_root H)) as [|_]; [contradiction|].
  cbn [orb]. unfold resolve_hash. now rewrite Hg.
Qed.

Lemma rep_reopen d (sn : snaps) r mpr : Forall (snap_ok d) sn -> find_snap r sn = Some mpr ->
  ((r = zero_hash \/ r = empty_root H) -> forall k, mpr k = None) ->
  exists t, trie_new H r d = Ok t /\ rep d mpr t /\ evenmap mpr.
Proof.
  intros Hsn Ef Ho.
  pose proof (find_snap_in _ _ _ Ef) as Hin. rewrite Forall_forall in Hsn.
  destruct (Hsn _ Hin) as (m & Hd & Er & He & Hav). cbn [fst snd] in *.
  destruct (is_nil m) eqn:En.
  - destruct m; try discriminate. cbn in Er. subst r. exists empty_trie. repeat split; auto.
    + apply trie_new_empty.
    + exists NNil. split; [exact Hd|apply lazy_empty].
  - assert (Hn : m <> NNil) by (intros ->; discriminate).
    assert (Hz : r <> zero_hash /\ r <> empty_root H).
    { destruct (denotes_nonempty _ _ Hd Hn) as (k0 & v0 & E0).
      split; intros E; rewrite (Ho (ltac:(auto)) k0) in E0; discriminate. }
    rewrite Er in Hz. destruct (trie_new_lazy H Hlen d _ (Hav Hn) (proj1 Hz) (proj2 Hz)) as (t & E & Hl).
    exists t. rewrite Er. repeat split; auto. exists m. auto.
Qed.

Lemma rep_iterate d mp t : rep d mp t -> fits_map mp -> short_keys mp -> evenmap mp -> db_sound H d ->
  exists l t', trie_iterate H t d = Ok (l, t') /\ rep d mp t' /\
    exists m, denotes m mp /\ map snd l = map snd (content_of m) /\
              map (fun kv => hexk (fst kv)) l = map fst (content_of m).
Proof.
  intros Hr Hf Hk He Hs. destruct (rep_hash _ _ _ Hr Hf Hs) as (r & t' & E & Hr' & m & Hd & Hz & _).
  unfold trie_iterate. rewrite E. cbn [bind].
  rewrite (leaves_lazy_trie H Hlen d m t' Hz (Hk m Hd)).
  assert (Hall : Forall (fun kv => exists kb, fst kv = keybytes_to_hex kb) (content_of m)).
  { apply Forall_forall. intros [k v] Hin. cbn [fst]. destruct Hd as [Hc Hl].
    apply (He k v). rewrite <- Hl.
    exact (proj1 (lookup_in H _ k v (proj1 (canon_root_wf_content _ Hc))) Hin). }
  destruct (TrieIterProofs.keyed_hexed _ Hall) as (l & El & Hsnd & Hfst).
  rewrite El. cbn [bind]. exists l, t'. split; [reflexivity|]. split; [exact Hr'|]. exists m. auto.
Qed.

Lemma nodb_hyp : forall c force d m x, hdb c = false -> canon m = true -> all_fits H m ->
  lzf H d (negb force) m x -> (force = false -> hash_big H m x) -> db_sound H d ->
  exists x', hash_node H c x force =
     Ok (if big H m || force then RHash (H (spec_enc H m)) else RInline (spec_item H m), x', []).
Proof.
  intros c force d m x Hc Hm Hf Hl Hb Hs.
  destruct (hash_node_lazy_nodb H Hlen Hcf c force d m x Hc Hm Hf Hl Hb Hs) as (x' & E & _). eauto.
Qed.

Lemma rep_prove d mp t k : rep d mp t -> fits_map mp -> nonempty_map mp -> db_sound H d ->
  exists r t' p, trie_hash H t = Ok (r, t') /\ trie_prove H t' d k = Ok p /\ rep d mp t' /\
    verify_proof r k p = Ok (mp (hexk k)).
Proof.
  intros Hr Hf (k0 & v0 & E0) Hs. destruct (rep_hash _ _ _ Hr Hf Hs) as (r & t' & E & Hr' & m & Hd & Hz & Er).
  assert (Hn : m <> NNil). { intros ->. destruct Hd as [_ Hl]. rewrite <- Hl in E0. discriminate. }
  destruct (prove_lazy H Hlen Hcf nodb_hyp d m t' k Hz Hn (Hf m Hd) Hs) as (p & Ep & Ev).
  exists r, t', p. repeat split; auto. rewrite Er, Ev. destruct Hd as [_ Hl]. now rewrite Hl.
Qed.

Lemma lazy_step : forall s o mp sn, inv s mp sn -> lazy_op (sdb s) mp sn o ->
  exists s' ob, step H s o = (s', ob) /\ inv s' (gmap mp sn o) (gsnaps mp sn o ob) /\ lazy_obs mp sn o ob.
Proof.
  intros s o mp sn (Hr & Hs & He & Hsn) Ho.
  destruct o as [k v|k|k| | |r|l| |k]; cbn [step gmap].
  - destruct v as [|v0 v].
    + destruct (rep_delete _ _ _ k Hr) as (t' & E & Hr').
      change (trie_update (strie s) (sdb s) k []) with (trie_delete (strie s) (sdb s) k). rewrite E.
      eexists _, _. split; [reflexivity|]. split; [|reflexivity].
      repeat split; cbn [sdb strie gsnaps]; auto. apply (evenmap_lmap mp (OpDelete k) He).
    + destruct (rep_update _ _ _ k (v0 :: v) Hr ltac:(discriminate)) as (t' & E & Hr'). rewrite E.
      eexists _, _. split; [reflexivity|]. split; [|reflexivity].
      repeat split; cbn [sdb strie gsnaps]; auto. apply (evenmap_lmap mp (OpUpdate k (v0 :: v)) He).
  - destruct (rep_delete _ _ _ k Hr) as (t' & E & Hr'). rewrite E.
    eexists _, _. split; [reflexivity|]. split; [|reflexivity].
    repeat split; cbn [sdb strie gsnaps]; auto. apply (evenmap_lmap mp (OpDelete k) He).
  - destruct (rep_get _ _ _ k Hr) as (t' & E & Hr'). rewrite E.
    eexists _, _. split; [reflexivity|]. split; [|reflexivity].
    repeat split; cbn [sdb strie gsnaps lmap]; auto.
  - cbn [lazy_op] in Ho. destruct (rep_hash _ _ _ Hr Ho Hs) as (r & t' & E & Hr' & m & Hd & _ & Er). rewrite E.
    eexists _, _. split; [reflexivity|]. split; [|exists m; split; [exact Hd|now rewrite Er]].
    repeat split; cbn [sdb strie gsnaps lmap]; auto.
  - cbn [lazy_op] in Ho.
    destruct (rep_commit _ _ _ Hr Ho Hs) as (r & t' & d' & E & Hr' & Hs' & Hmono & m & Hd & Er & Hav). rewrite E.
    eexists _, _. split; [reflexivity|]. split; [|exists m; split; [exact Hd|now rewrite Er]].
    repeat split; cbn [sdb strie gsnaps lmap]; auto.
    constructor.
    + exists m. cbn [fst snd]. auto.
    + eapply Forall_impl; [|exact Hsn]. intros e. now apply snap_ok_mono.
  - cbn [lazy_op lazy_obs] in *. destruct (find_snap r sn) as [mpr|] eqn:Ef.
    + destruct (rep_reopen (sdb s) sn r mpr Hsn Ef Ho) as (t & E & Hr' & He'). rewrite E.
      eexists _, _. split; [reflexivity|]. split; [|reflexivity].
      repeat split; cbn [sdb strie gsnaps]; auto.
    + destruct Ho as (Hg & Hz & Hne). rewrite (trie_new_missing _ _ Hg Hz Hne). cbn [obs_of_fail].
      eexists _, _. split; [reflexivity|]. split; [|reflexivity].
      repeat split; cbn [gsnaps]; auto.
  - cbn [lazy_op] in Ho. eexists _, _. split; [reflexivity|]. split; [|reflexivity].
    repeat split; cbn [sdb strie gsnaps lmap]; auto.
    destruct Hr as (m & Hd & Hz). exists m. split; [exact Hd|]. now apply lazy_set_limit.
  - cbn [lazy_op] in Ho. destruct Ho as [Hf Hk].
    destruct (rep_iterate _ _ _ Hr Hf Hk He Hs) as (l & t' & E & Hr' & m & Hd & Hsnd & Hfst). rewrite E.
    eexists _, _. split; [reflexivity|]. split; [|exists m, l; auto].
    repeat split; cbn [sdb strie gsnaps lmap]; auto.
  - cbn [lazy_op] in Ho. destruct Ho as [Hf Hne].
    destruct (rep_prove _ _ _ k Hr Hf Hne Hs) as (r & t' & p & E & Ep & Hr' & Ev). rewrite E, Ep.
    eexists _, _. split; [reflexivity|]. split; [|exists p; now rewrite Ev].
    repeat split; cbn [sdb strie gsnaps lmap]; auto.
Qed.

(* THE HISTORY THEOREM.  Histories of update / delete / get / Hash / Commit /
   reopen / SetCacheLimit / iterate / prove in any order on the trie in its
   general in-memory form, any number of commits (unloading of old cache
   generations to hash nodes, reloading through the database, updates and deletes
   on the lazily loaded trie): every operation succeeds and observes what the
   denoted finite map gives. *)
Theorem lazy_history : forall ops s mp sn,
  inv s mp sn -> lazy_ok s mp sn ops ->
  exists s' obl, run_ops H s ops = (s', obl) /\ lazy_trace mp sn ops obl /\
    exists mp' sn', inv s' mp' sn'.
Proof.
  induction ops as [|o ops IH]; intros s mp sn Hi Ho.
  - exists s, []. cbn. eauto.
  - destruct Ho as [Ho Hos].
    destruct (lazy_step s o mp sn Hi Ho) as (s1 & ob & E1 & Hi1 & Hob).
    rewrite E1 in Hos. cbn [fst snd] in Hos.
    destruct (IH s1 _ _ Hi1 Hos) as (s2 & obl & E2 & Ht & mp' & sn' & Hi2).
    exists s2, (ob :: obl). cbn [run_ops]. rewrite E1, E2. cbn [lazy_trace]. eauto 10.
Qed.

Lemma inv_init : inv init_state (fun _ => None) [].
Proof.
  repeat split.
  - exists NNil. split; [split; [reflexivity|intros k; reflexivity]|apply lazy_empty].
  - intros h e Hd. discriminate Hd.
  - intros k v E. discriminate E.
  - constructor.
Qed.

Theorem lazy_history_empty : forall ops,
  lazy_ok init_state (fun _ => None) [] ops ->
  exists s' obl, run_ops H init_state ops = (s', obl) /\ lazy_trace (fun _ => None) [] ops obl.
Proof.
  intros ops Ho. destruct (lazy_history ops init_state _ _ inv_init Ho) as (s' & obl & E & Ht & _).
  eauto.
Qed.

(* reopening: once a trie denoting mp has been committed into d (avail), trie.New
   on its root over d or any later database yields a trie representing mp *)
Theorem reopen_step : forall d d' m mp, denotes m mp -> avail H d m ->
  (forall m0, canon m0 = true -> stored H d m0 -> stored H d' m0) ->
  mpt_root_hex H (content_of m) <> zero_hash -> mpt_root_hex H (content_of m) <> empty_root H ->
  exists t, trie_new H (mpt_root_hex H (content_of m)) d' = Ok t /\ rep d' mp t.
Proof.
  intros d d' m mp Hd Hav Hmono Hz He.
  destruct (trie_new_lazy H Hlen d' m (avail_mono H d d' m Hmono Hav) Hz He) as (t & E & Hl).
  exists t. split; [exact E|]. exists m. auto.
Qed.

(* the size premise is met by every trie whose content is below 4 GiB *)
Lemma fits_of_size : forall m, canon_root m = true -> content_size (content_of m) < 2 ^ 32 -> all_fits H m.
Proof. intros m Hc Hsz. now apply (all_fits_root_of_size H Hlen). Qed.

(* the empty map fits; so a history may start with a Commit *)
Lemma fits_map_empty : fits_map (fun _ => None).
Proof.
  intros m [Hc Hl]. apply fits_of_size; [exact Hc|].
  destruct (content_of m) as [|[k v] J] eqn:E; [reflexivity|].
  specialize (Hl k). cbn [lookup fst snd] in Hl. rewrite bytes_eqb_refl in Hl. discriminate.
Qed.

(* fits_map from one witness: all tries denoting the same map list the same content up to order *)
Lemma fits_map_of_witness : forall mp m0, denotes m0 mp -> content_size (content_of m0) < 2 ^ 32 -> fits_map mp.
Proof.
  intros mp m0 [C0 L0] Hsz m [C L]. apply fits_of_size; [exact C|].
  rewrite (content_size_perm (content_of m) (content_of m0)); [exact Hsz|].
  destruct (canon_root_wf_content _ C) as [N1 _]. destruct (canon_root_wf_content _ C0) as [N0 _].
  apply NoDup_Permutation.
  - eapply NoDup_map_inv; exact N1.
  - eapply NoDup_map_inv; exact N0.
  - intros [k v]. rewrite (lookup_in H _ k v N1), (lookup_in H _ k v N0). now rewrite L, L0.
Qed.
End LazyHistories.
