(* Trie/DbModel.v — the two layers of trie/database.go that TrieModel.v abstracts as
   one association list: the memory layer (nodes with their child references),
   the disk store behind it, and Database.Commit(root): commit (post-order over the
   child references, every node Put into a write batch that is flushed whenever
   batch.ValueSize() >= limit, final Write) then uncache.  The batch is aquadb's
   (Put appends and adds len(value); Write applies the puts in order; Reset clears).
   `limit` stands for aquadb.IdealBatchSize.  Code-shaped, definitions only
   (extracted). Go ranges over the children map in arbitrary order: here the order of
   the list; the result as a set does not depend on it. *)
From AQ Require Import Lib.Bytes Trie.TrieModel.
Local Open Scope N_scope.

Record mnode := mkMnode { mn_blob : bytes; mn_children : list bytes }.
Definition memdb := list (bytes * mnode).
Definition diskdb := list (bytes * bytes).

Fixpoint mem_get (m : memdb) (h : bytes) : option mnode :=
  match m with [] => None | (k, n) :: t => if bytes_eqb k h then Some n else mem_get t h end.
Fixpoint mem_del (m : memdb) (h : bytes) : memdb :=
  match m with [] => [] | (k, n) :: t => if bytes_eqb k h then mem_del t h else (k, n) :: mem_del t h end.
Fixpoint disk_get (d : diskdb) (k : bytes) : option bytes :=
  match d with [] => None | (k', v) :: t => if bytes_eqb k' k then Some v else disk_get t k end.
(* MemDatabase / LevelDB Put: replaces *)
Fixpoint disk_del (d : diskdb) (k : bytes) : diskdb :=
  match d with [] => [] | (k', v) :: t => if bytes_eqb k' k then disk_del t k else (k', v) :: disk_del t k end.
Definition disk_put (d : diskdb) (kv : bytes * bytes) : diskdb := kv :: disk_del d (fst kv).

(* a write batch *)
Record batch := mkBatch { b_puts : list (bytes * bytes); b_size : N }.
Definition batch_empty : batch := mkBatch [] 0.
Definition batch_put (b : batch) (k v : bytes) : batch := mkBatch (b_puts b ++ [(k, v)]) (b_size b + lenN v).
Definition batch_write (d : diskdb) (b : batch) : diskdb := fold_left disk_put (b_puts b) d.

(* commit(hash, batch): the disk and the batch are threaded through the recursion *)
Fixpoint db_commit (fuel : nat) (limit : N) (m : memdb) (h : bytes) (st : diskdb * batch)
  : res (diskdb * batch) :=
  match fuel with
  | O => OutOfFuel
  | S f =>
    match mem_get m h with
    | None => Ok st                                   (* a previously committed node *)
    | Some n =>
      bind ((fix go (cs : list bytes) (st : diskdb * batch) : res (diskdb * batch) :=
               match cs with
               | [] => Ok st
               | c :: t => bind (db_commit f limit m c st) (go t)
               end) (mn_children n) st) (fun '(d, b) =>
        let b' := batch_put b h (mn_blob n) in
        if limit <=? b_size b' then Ok (batch_write d b', batch_empty)   (* Write; Reset *)
        else Ok (d, b'))
    end
  end.

(* uncache(hash) *)
Fixpoint db_uncache (fuel : nat) (m : memdb) (h : bytes) : memdb :=
  match fuel with
  | O => m
  | S f =>
    match mem_get m h with
    | None => m
    | Some n => mem_del (fold_left (db_uncache f) (mn_children n) m) h
    end
  end.

(* Database.Commit(root): preimages first (flushed when size > limit), then the trie,
   the final Write, then preimages cleared and the trie uncached *)
Definition tdb_commit (fuel : nat) (limit : N) (m : memdb) (pre : list (bytes * bytes)) (d : diskdb) (root : bytes)
  : res (memdb * diskdb) :=
  let '(d1, b1) := fold_left (fun '(d, b) kv =>
                      let b' := batch_put b (fst kv) (snd kv) in
                      if limit <? b_size b' then (batch_write d b', batch_empty) else (d, b'))
                    pre (d, batch_empty) in
  bind (db_commit fuel limit m root (d1, b1)) (fun '(d2, b2) =>
    Ok (db_uncache fuel m root, batch_write d2 b2)).

(* Database.Node: memory first, then disk *)
Definition tdb_node (m : memdb) (d : diskdb) (h : bytes) : option bytes :=
  match mem_get m h with Some n => Some (mn_blob n) | None => disk_get d h end.
