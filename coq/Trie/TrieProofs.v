(* Trie/TrieProofs.v — proofs about the trie model: basic key / content facts,
   insert refines a finite-map update and preserves the canonical shape
   (trie.go insert), content well-formedness, decode_node panic witness. *)
From Coq Require Import ZifyBool ZifyN ZifyNat.
From AQ Require Import Lib.Bytes Rlp.RlpSpec Trie.MptSpec Trie.TrieModel Trie.TrieInv.
Local Open Scope N_scope.

(* ------------------------------------------------------------------ bytes *)
Lemma bytes_eqb_eq a b : bytes_eqb a b = true <-> a = b.
Proof. destruct (bytes_eqb_spec a b); split; congruence. Qed.
Lemma bytes_eqb_neq a b : bytes_eqb a b = false <-> a <> b.
Proof. destruct (bytes_eqb_spec a b); split; congruence. Qed.
Lemma byte_eqb_eq a b : byte_eqb a b = true <-> a = b.
Proof. destruct (byte_eqb_spec a b); split; congruence. Qed.
Lemma byte_eqb_refl a : byte_eqb a a = true.
Proof. now apply byte_eqb_eq. Qed.

Lemma nibb_term : nibb term = false.
Proof. reflexivity. Qed.
Lemma nibb_not_term b : nibb b = true -> b <> term.
Proof. intros H ->. now rewrite nibb_term in H. Qed.

(* ------------------------------------------------------------------ keys *)
Lemma tkeyb_cons b t : tkeyb (b :: t) = true ->
  (t = [] /\ b = term) \/ (t <> [] /\ nibb b = true /\ tkeyb t = true).
Proof.
  destruct t as [|c t]; cbn [tkeyb].
  - intros H. left. split; [reflexivity|now apply byte_eqb_eq].
  - intros H. apply andb_true_iff in H. right. split; [discriminate|exact H].
Qed.
Lemma tkeyb_nonempty k : tkeyb k = true -> k <> [].
Proof. destruct k; [discriminate|discriminate]. Qed.
Lemma tkeyb_term : tkeyb [term] = true.
Proof. reflexivity. Qed.
Lemma tkeyb_cons_nib b t : nibb b = true -> tkeyb t = true -> tkeyb (b :: t) = true.
Proof. intros Hb Ht. destruct t; [discriminate|]. cbn [tkeyb]. now rewrite Hb. Qed.

Lemma tkeyb_app p q : pathb p = true -> tkeyb q = true -> tkeyb (p ++ q) = true.
Proof.
  induction p as [|a p IH]; intros Hp Hq; [exact Hq|].
  cbn [pathb forallb] in Hp. apply andb_true_iff in Hp as [Ha Hp].
  cbn [app]. apply tkeyb_cons_nib; auto.
Qed.
Lemma tkeyb_app_inv p q : tkeyb (p ++ q) = true -> q <> [] -> pathb p = true /\ tkeyb q = true.
Proof.
  induction p as [|a p IH]; intros H Hq; [split; [reflexivity|exact H]|].
  cbn [app] in H. apply tkeyb_cons in H as [[E _]|(_ & Ha & Ht)].
  - destruct p; [cbn in E; contradiction|discriminate].
  - destruct (IH Ht Hq) as [Hp Hq']. split; [|exact Hq']. cbn [pathb forallb]. now rewrite Ha.
Qed.
Lemma pathb_app p q : pathb (p ++ q) = pathb p && pathb q.
Proof. apply forallb_app. Qed.
Lemma tkeyb_not_path k : tkeyb k = true -> pathb k = false.
Proof.
  induction k as [|b t IH]; [discriminate|]. intros H.
  apply tkeyb_cons in H as [[-> ->]|(_ & Hb & Ht)]; [reflexivity|].
  cbn [pathb forallb]. fold (pathb t). rewrite (IH Ht). apply andb_false_r.
Qed.

Lemma has_prefix_app k r : has_prefix (k ++ r) k = true.
Proof.
  unfold has_prefix. rewrite app_length.
  rewrite firstn_app, Nat.sub_diag, firstn_all, firstn_O, app_nil_r, bytes_eqb_refl.
  rewrite andb_true_r. apply Nat.leb_le. lia.
Qed.
Lemma has_prefix_inv key k : has_prefix key k = true -> key = k ++ skipn (length k) key.
Proof.
  unfold has_prefix. intros H. apply andb_true_iff in H as [_ H].
  apply bytes_eqb_eq in H. rewrite H at 1. now rewrite firstn_skipn.
Qed.
Lemma has_prefix_false key k : has_prefix key k = false -> forall r, key <> k ++ r.
Proof. intros H r ->. now rewrite has_prefix_app in H. Qed.
Lemma has_prefix_cons a key k : has_prefix (a :: key) (a :: k) = has_prefix key k.
Proof.
  unfold has_prefix. cbn [length firstn bytes_eqb]. rewrite byte_eqb_refl. reflexivity.
Qed.
Lemma has_prefix_cons_neq a b key k : a <> b -> has_prefix (a :: key) (b :: k) = false.
Proof.
  intros Hn. unfold has_prefix. cbn [length firstn bytes_eqb].
  destruct (byte_eqb_spec b a); [congruence|]. cbn. apply andb_false_r.
Qed.
Lemma has_prefix_nil_r key : has_prefix key [] = true.
Proof. reflexivity. Qed.

Lemma prefix_len_le a b : (prefix_len a b <= length b)%nat /\ (prefix_len a b <= length a)%nat.
Proof.
  revert b. induction a as [|x a IH]; intros [|y b]; cbn [prefix_len length]; try lia.
  destruct (byte_eqb x y); [|lia]. specialize (IH b). lia.
Qed.
Lemma prefix_len_full key k : prefix_len key k = length k -> has_prefix key k = true.
Proof.
  revert k. induction key as [|x key IH]; intros [|y k]; cbn [prefix_len length]; try reflexivity; try discriminate.
  destruct (byte_eqb_spec x y) as [->|]; [|discriminate].
  intros H. rewrite has_prefix_cons. apply IH. lia.
Qed.
Lemma has_prefix_prefix_len key k : has_prefix key k = true -> prefix_len key k = length k.
Proof.
  intros H. apply has_prefix_inv in H. rewrite H. generalize (skipn (length k) key). clear.
  induction k as [|a k IH]; intros r; [destruct r; reflexivity|].
  cbn [app prefix_len length]. now rewrite byte_eqb_refl, IH.
Qed.

(* a terminated key that extends a terminated key is that key *)
Lemma tkeyb_prefix_eq key k :
  tkeyb key = true -> tkeyb k = true -> has_prefix key k = true -> key = k.
Proof.
  intros Hk Hn Hp. apply has_prefix_inv in Hp. rewrite Hp in Hk |- *.
  destruct (skipn (length k) key) as [|c r]; [now rewrite app_nil_r|].
  apply tkeyb_app_inv in Hk as [Hpath _]; [|discriminate].
  now rewrite (tkeyb_not_path _ Hn) in Hpath.
Qed.
Lemma tkeyb_skip_path key k :
  tkeyb key = true -> pathb k = true -> has_prefix key k = true -> tkeyb (skipn (length k) key) = true.
Proof.
  intros Hk Hn Hp. apply has_prefix_inv in Hp. rewrite Hp in Hk.
  destruct (skipn (length k) key) as [|c r] eqn:E.
  - rewrite app_nil_r in Hk. now rewrite (tkeyb_not_path _ Hk) in Hn.
  - now apply tkeyb_app_inv in Hk as [_ Hq].
Qed.

Definition okkey (k : bytes) : bool := tkeyb k || pathb k.

(* where two keys part: the decomposition used by the branch case of insert *)
Lemma split_at_diff : forall key nk,
  tkeyb key = true -> okkey nk = true -> (prefix_len key nk < length nk)%nat ->
  exists p a b r1 r2, nk = p ++ a :: r1 /\ key = p ++ b :: r2 /\ a <> b /\
    length p = prefix_len key nk /\ pathb p = true.
Proof.
  induction key as [|b t IH]; intros nk Hk Hn Hl; [discriminate|].
  destruct nk as [|a s]; [cbn in Hl; lia|].
  cbn [prefix_len] in Hl |- *. destruct (byte_eqb_spec b a) as [->|Hne].
  - cbn [length] in Hl.
    apply tkeyb_cons in Hk as [[-> ->]|(Htn & Ha & Ht)].
    + exfalso. unfold okkey in Hn. apply orb_true_iff in Hn as [Hn|Hn].
      * apply tkeyb_cons in Hn as [[-> _]|(_ & Hx & _)]; [cbn in Hl; lia|discriminate].
      * cbn [pathb forallb] in Hn. now rewrite nibb_term in Hn.
    + assert (Hs : okkey s = true).
      { unfold okkey in *. apply orb_true_iff in Hn as [Hn|Hn].
        - apply tkeyb_cons in Hn as [[-> _]|(_ & _ & Hs)]; [cbn in Hl; destruct t; cbn in Hl; lia|].
          now rewrite Hs.
        - cbn [pathb forallb] in Hn. apply andb_true_iff in Hn as [_ Hn]. fold (pathb s) in Hn.
          rewrite Hn. apply orb_true_r. }
      destruct (IH s Ht Hs ltac:(lia)) as (p & a' & b' & r1 & r2 & E1 & E2 & Hd & Hlen & Hp).
      exists (a :: p), a', b', r1, r2. cbn [app length]. rewrite E1 at 1. rewrite E2 at 1.
      repeat split; auto. cbn [pathb forallb]. now rewrite Ha.
  - exists [], a, b, s, t. repeat split; auto.
Qed.

(* ------------------------------------------------------------------ lookup / content *)
Lemma pre_key_nil kv : pre_key [] kv = kv.
Proof. destruct kv; reflexivity. Qed.
Lemma map_pre_key_nil J : map (pre_key []) J = J.
Proof. induction J as [|kv J IH]; [reflexivity|]. cbn [map]. now rewrite pre_key_nil, IH. Qed.
Lemma map_pre_key_app p q J : map (pre_key (p ++ q)) J = map (pre_key p) (map (pre_key q) J).
Proof.
  rewrite map_map. apply map_ext. intros [k v]. unfold pre_key. cbn [fst snd]. now rewrite app_assoc.
Qed.

Lemma lookup_pre_key k J k' :
  lookup (map (pre_key k) J) k' = if has_prefix k' k then lookup J (skipn (length k) k') else None.
Proof.
  induction J as [|[k0 v] J IH]; cbn [map lookup].
  - now destruct (has_prefix k' k).
  - unfold pre_key at 1. cbn [fst snd]. rewrite IH.
    destruct (has_prefix k' k) eqn:Hp.
    + apply has_prefix_inv in Hp. destruct (bytes_eqb_spec (k ++ k0) k') as [E|Hn].
      * rewrite <- E. rewrite skipn_app, Nat.sub_diag, skipn_all. cbn [skipn app]. now rewrite bytes_eqb_refl.
      * destruct (bytes_eqb_spec k0 (skipn (length k) k')) as [E|]; [|reflexivity].
        exfalso. apply Hn. rewrite Hp. now rewrite E.
    + destruct (bytes_eqb_spec (k ++ k0) k') as [E|]; [|reflexivity].
      exfalso. exact (has_prefix_false _ _ Hp k0 (eq_sym E)).
Qed.

Lemma nidx_n2b j : (j < 256)%nat -> nidx (n2b (N.of_nat j)) = j.
Proof. intros H. unfold nidx. rewrite b2n_n2b by lia. lia. Qed.
Lemma n2b_nidx b : n2b (N.of_nat (nidx b)) = b.
Proof. unfold nidx. rewrite N2Nat.id. apply n2b_b2n. Qed.
Lemma nidx_lt b : (nidx b < 256)%nat.
Proof. unfold nidx. pose proof (b2n_lt b). lia. Qed.
Lemma nidx_inj a b : nidx a = nidx b -> a = b.
Proof. intros H. rewrite <- (n2b_nidx a), <- (n2b_nidx b). now rewrite H. Qed.
Lemma nidx_term : nidx term = 16%nat.
Proof. reflexivity. Qed.
Lemma nibb_nidx b : nibb b = true <-> (nidx b < 16)%nat.
Proof. unfold nibb, nidx. split; intros H; lia. Qed.

Lemma lookup_map_pre_nib i J k0 r :
  lookup (map (pre_nib i) J) (k0 :: r) =
  if byte_eqb (n2b (N.of_nat i)) k0 then lookup J r else None.
Proof.
  induction J as [|[k v] J IH]; cbn [map lookup].
  - now destruct (byte_eqb _ _).
  - unfold pre_nib at 1. cbn [fst snd bytes_eqb]. rewrite IH.
    destruct (byte_eqb (n2b (N.of_nat i)) k0); reflexivity.
Qed.
Lemma lookup_app J1 J2 k : lookup (J1 ++ J2) k = match lookup J1 k with Some v => Some v | None => lookup J2 k end.
Proof. induction J1 as [|kv J1 IH]; cbn [app lookup]; [reflexivity|]. destruct (bytes_eqb _ _); auto. Qed.
Lemma lookup_map_pre_nib_nil i J : lookup (map (pre_nib i) J) [] = None.
Proof. induction J as [|[k v] J IH]; [reflexivity|]. cbn [map lookup pre_nib fst snd bytes_eqb]. exact IH. Qed.

Lemma lookup_join : forall l i k0 r, (i + length l <= 256)%nat ->
  lookup (join i l) (k0 :: r) =
  if Nat.leb i (nidx k0) && Nat.ltb (nidx k0) (i + length l) then lookup (nth (nidx k0 - i) l []) r else None.
Proof.
  induction l as [|c l IH]; intros i k0 r Hb; cbn [join lookup length].
  - destruct (Nat.leb_spec i (nidx k0)); destruct (Nat.ltb_spec (nidx k0) (i + 0)); cbn; try reflexivity; lia.
  - rewrite lookup_app, lookup_map_pre_nib, IH by (cbn [length] in Hb; lia).
    destruct (byte_eqb_spec (n2b (N.of_nat i)) k0) as [E|Hn].
    + subst k0. rewrite nidx_n2b by (cbn [length] in Hb; lia).
      rewrite Nat.leb_refl, Nat.sub_diag. cbn [nth].
      destruct (Nat.ltb_spec i (i + S (length l))); [|lia]. cbn [andb].
      destruct (lookup c r); [reflexivity|].
      destruct (Nat.leb_spec (S i) i); [lia|]. reflexivity.
    + assert (nidx k0 <> i). { intros E. apply Hn. rewrite <- E. apply n2b_nidx. }
      destruct (Nat.leb_spec (S i) (nidx k0)); destruct (Nat.leb_spec i (nidx k0));
      destruct (Nat.ltb_spec (nidx k0) (S i + length l)); destruct (Nat.ltb_spec (nidx k0) (i + S (length l)));
      cbn [andb]; try reflexivity; try lia.
      replace (nidx k0 - i)%nat with (S (nidx k0 - S i)) by lia. reflexivity.
Qed.
Lemma lookup_join_nil l i : lookup (join i l) [] = None.
Proof.
  revert i. induction l as [|c l IH]; intros i; [reflexivity|].
  cbn [join]. now rewrite lookup_app, lookup_map_pre_nib_nil, IH.
Qed.

(* lookup below a full node: positional *)
Lemma lookup_full cs f k0 r : length cs = 17%nat ->
  lookup (content_of (NFull cs f)) (k0 :: r) =
  if Nat.ltb (nidx k0) 17 then lookup (content_of (nth (nidx k0) cs NNil)) r else None.
Proof.
  intros Hl. cbn [content_of]. rewrite lookup_join by (rewrite map_length; lia).
  rewrite map_length, Hl. cbn [Nat.leb andb plus]. rewrite Nat.sub_0_r.
  destruct (Nat.ltb_spec (nidx k0) 17); [|reflexivity].
  change (@nil (bytes * bytes)) with (content_of NNil). now rewrite map_nth.
Qed.
Lemma lookup_full_nil cs f : lookup (content_of (NFull cs f)) [] = None.
Proof. cbn [content_of]. apply lookup_join_nil. Qed.

(* ------------------------------------------------------------------ set_nth *)
Lemma set_nth_length l i x : length (set_nth l i x) = length l.
Proof. revert i. induction l as [|h t IH]; intros [|i]; cbn [set_nth length]; auto. Qed.
Lemma nth_set_nth_eq l i x : (i < length l)%nat -> nth i (set_nth l i x) NNil = x.
Proof. revert i. induction l as [|h t IH]; intros [|i] H; cbn [set_nth nth length] in *; try lia; auto. apply IH. lia. Qed.
Lemma nth_set_nth_neq l i j x : i <> j -> nth j (set_nth l i x) NNil = nth j l NNil.
Proof.
  revert i j. induction l as [|h t IH]; intros [|i] [|j] H; cbn [set_nth nth]; auto; try lia.
Qed.
Lemma count_nonnil_set_nth_ge l i x : is_nil x = false -> (count_nonnil l <= count_nonnil (set_nth l i x))%nat.
Proof.
  intros Hx. revert i. unfold count_nonnil. induction l as [|h t IH]; intros [|i]; cbn [set_nth filter]; auto.
  - rewrite Hx. cbn [negb length]. destruct (negb (is_nil h)); cbn [length]; lia.
  - specialize (IH i). destruct (negb (is_nil h)); cbn [length]; lia.
Qed.
Lemma count_nonnil_set_nth_nil l i x : (i < length l)%nat -> nth i l NNil = NNil -> is_nil x = false ->
  count_nonnil (set_nth l i x) = S (count_nonnil l).
Proof.
  intros Hi Hn Hx. revert i Hi Hn. unfold count_nonnil. induction l as [|h t IH]; intros [|i] Hi Hn; cbn [set_nth filter nth length] in *; try lia.
  - subst h. rewrite Hx. reflexivity.
  - destruct (negb (is_nil h)); cbn [length]; rewrite IH; auto; lia.
Qed.
Lemma set_child_ok cs b x : (nidx b < length cs)%nat -> set_child cs b x = Ok (set_nth cs (nidx b) x).
Proof. intros H. unfold set_child. destruct (Nat.ltb_spec (nidx b) (length cs)); [reflexivity|lia]. Qed.
Lemma get_child_ok cs b : (nidx b < length cs)%nat -> get_child cs b = Ok (nth (nidx b) cs NNil).
Proof.
  intros H. unfold get_child. destruct (nth_error cs (nidx b)) eqn:E.
  - now rewrite (nth_error_nth _ _ NNil E).
  - apply nth_error_None in E. lia.
Qed.

(* ------------------------------------------------------------------ canonical full nodes, positionally *)
Definition slot_ok (i : nat) (c : node) : bool :=
  if Nat.ltb i 16 then is_nil c || canon c
  else match c with NNil => true | NVal v => nonempty v | _ => false end.

Lemma forallb_nth {A} (P : A -> bool) (l : list A) (d : A) :
  forallb P l = true <-> (forall i, (i < length l)%nat -> P (nth i l d) = true).
Proof.
  rewrite forallb_forall. split.
  - intros H i Hi. apply H. now apply nth_In.
  - intros H x Hx. destruct (In_nth _ _ d Hx) as (i & Hi & <-). now apply H.
Qed.
Lemma nth_firstn_lt {A} (l : list A) n i d : (i < n)%nat -> nth i (firstn n l) d = nth i l d.
Proof.
  revert n i. induction l as [|h t IH]; intros [|n] [|i] H; cbn [firstn nth]; auto; try lia. apply IH. lia.
Qed.

Lemma canon_full_iff cs f :
  canon (NFull cs f) = true <->
  length cs = 17%nat /\ (forall i, (i < 17)%nat -> slot_ok i (nth i cs NNil) = true) /\ (2 <= count_nonnil cs)%nat.
Proof.
  cbn [canon]. rewrite !andb_true_iff, Nat.eqb_eq, Nat.leb_le.
  rewrite !(forallb_nth _ _ NNil). split.
  - intros (((((Hl & HA) & HB) & HC) & HD) & HE). split; [exact Hl|]. split; [|exact HE].
    intros i Hi. unfold slot_ok. destruct (Nat.ltb_spec i 16) as [Hlt|Hge].
    + specialize (HA i ltac:(lia)). specialize (HB i).
      rewrite firstn_length, Hl in HB. specialize (HB ltac:(lia)).
      rewrite nth_firstn_lt in HB by lia.
      destruct (nth i cs NNil); cbn in *; auto; discriminate.
    + assert (i = 16%nat) by lia. subst i. specialize (HC 16%nat ltac:(lia)).
      destruct (nth 16 cs NNil); cbn in *; auto; discriminate.
  - intros (Hl & Hs & Hc). repeat split; auto.
    + intros i Hi. specialize (Hs i ltac:(lia)). unfold slot_ok in Hs.
      destruct (Nat.ltb i 16); destruct (nth i cs NNil); cbn in *; auto; discriminate.
    + intros i Hi. rewrite firstn_length, Hl in Hi.
      rewrite nth_firstn_lt by lia. specialize (Hs i ltac:(lia)). unfold slot_ok in Hs.
      destruct (Nat.ltb_spec i 16); [|lia]. destruct (nth i cs NNil); cbn in *; auto; discriminate.
    + intros i Hi. specialize (Hs i ltac:(lia)). unfold slot_ok in Hs.
      destruct (Nat.ltb i 16); destruct (nth i cs NNil); cbn in *; auto; discriminate.
    + specialize (Hs 16%nat ltac:(lia)). unfold slot_ok in Hs. cbn [Nat.ltb Nat.leb] in Hs.
      destruct (nth 16 cs NNil); cbn in *; auto; discriminate.
Qed.

(* ------------------------------------------------------------------ insert *)
Lemma insert_S fuel d gen n key value :
  insert (S fuel) d gen n key value =
    match key with
    | [] =>
      match n with
      | NVal v => match value with NVal v' => Ok (negb (bytes_eqb v v'), value) | _ => Panic end
      | _ => Ok (true, value)
      end
    | k0 :: krest =>
      match n with
      | NShort nk nv f =>
        let m := prefix_len key nk in
        if Nat.eqb m (length nk) then
          bind (insert fuel d gen nv (skipn m key) value) (fun '(dirty, nn) =>
            if dirty then Ok (true, NShort nk nn (new_flag gen)) else Ok (false, n))
        else
          match nth_error nk m, nth_error key m with
          | Some a, Some b =>
            bind (insert fuel d gen NNil (skipn (S m) nk) nv) (fun '(_, c1) =>
            bind (set_child empty_children a c1) (fun cs1 =>
            bind (insert fuel d gen NNil (skipn (S m) key) value) (fun '(_, c2) =>
            bind (set_child cs1 b c2) (fun cs2 =>
              let branch := NFull cs2 (new_flag gen) in
              if Nat.eqb m 0 then Ok (true, branch)
              else Ok (true, NShort (firstn m key) branch (new_flag gen))))))
          | _, _ => Panic
          end
      | NFull cs f =>
        bind (get_child cs k0) (fun c =>
        bind (insert fuel d gen c krest value) (fun '(dirty, nn) =>
          if dirty then bind (set_child cs k0 nn) (fun cs' => Ok (true, NFull cs' (new_flag gen)))
          else Ok (false, n)))
      | NNil => Ok (true, NShort key value (new_flag gen))
      | NHash h =>
        bind (resolve_hash d h gen) (fun rn =>
        bind (insert fuel d gen rn key value) (fun '(dirty, nn) =>
          if dirty then Ok (true, nn) else Ok (false, rn)))
      | NVal _ => Panic
      end
    end.
Proof. reflexivity. Qed.

(* insert into nil: what the branch case of insert uses to hang the two tails *)
Definition hang (gen : N) (rest : bytes) (value : node) : node :=
  match rest with [] => value | _ => NShort rest value (new_flag gen) end.
Lemma insert_nil fuel d gen rest value :
  insert (S fuel) d gen NNil rest value = Ok (true, hang gen rest value).
Proof. rewrite insert_S. destruct rest; reflexivity. Qed.

Lemma content_hang gen rest value : content_of (hang gen rest value) = map (pre_key rest) (content_of value).
Proof. destruct rest; cbn [hang content_of]; [now rewrite map_pre_key_nil|reflexivity]. Qed.

Lemma nohash_new gen : fnohash (new_flag gen) = true.
Proof. reflexivity. Qed.

Lemma empty_children_nth i : nth i empty_children NNil = NNil.
Proof. unfold empty_children. do 18 (destruct i as [|i]; [reflexivity|]). destruct i; reflexivity. Qed.
Lemma empty_children_length : length empty_children = 17%nat.
Proof. reflexivity. Qed.

(* the two-child branch built by insert *)
Lemma branch_canon gen a b c1 c2 :
  a <> b -> (nidx a < 17)%nat -> (nidx b < 17)%nat ->
  slot_ok (nidx a) c1 = true -> slot_ok (nidx b) c2 = true -> is_nil c1 = false -> is_nil c2 = false ->
  canon (NFull (set_nth (set_nth empty_children (nidx a) c1) (nidx b) c2) (new_flag gen)) = true.
Proof.
  intros Hab Ha Hb H1 H2 N1 N2.
  assert (Hne : nidx a <> nidx b) by (intros E; apply Hab; now apply nidx_inj).
  apply canon_full_iff. rewrite !set_nth_length, empty_children_length. split; [reflexivity|]. split.
  - intros i Hi. destruct (Nat.eq_dec i (nidx b)) as [->|Hib].
    + rewrite nth_set_nth_eq by (rewrite set_nth_length, empty_children_length; lia). exact H2.
    + rewrite nth_set_nth_neq by auto. destruct (Nat.eq_dec i (nidx a)) as [->|Hia].
      * rewrite nth_set_nth_eq by (rewrite empty_children_length; lia). exact H1.
      * rewrite nth_set_nth_neq by auto. rewrite empty_children_nth.
        unfold slot_ok. destruct (Nat.ltb i 16); reflexivity.
  - assert (E1 : count_nonnil (set_nth empty_children (nidx a) c1) = 1%nat).
    { rewrite count_nonnil_set_nth_nil; [reflexivity|rewrite empty_children_length; lia|apply empty_children_nth|exact N1]. }
    rewrite count_nonnil_set_nth_nil; [lia| |rewrite nth_set_nth_neq by auto; apply empty_children_nth|exact N2].
    rewrite set_nth_length, empty_children_length. lia.
Qed.

Lemma branch_lookup gen a b c1 c2 k0 r :
  a <> b -> (nidx a < 17)%nat -> (nidx b < 17)%nat ->
  lookup (content_of (NFull (set_nth (set_nth empty_children (nidx a) c1) (nidx b) c2) (new_flag gen))) (k0 :: r) =
  if byte_eqb k0 b then lookup (content_of c2) r
  else if byte_eqb k0 a then lookup (content_of c1) r else None.
Proof.
  intros Hab Ha Hb.
  assert (Hne : nidx a <> nidx b) by (intros E; apply Hab; now apply nidx_inj).
  rewrite lookup_full by (rewrite !set_nth_length; reflexivity).
  destruct (byte_eqb_spec k0 b) as [->|Hkb].
  - destruct (Nat.ltb_spec (nidx b) 17); [|lia].
    now rewrite nth_set_nth_eq by (rewrite set_nth_length, empty_children_length; lia).
  - assert (nidx b <> nidx k0) by (intros E; apply Hkb; symmetry; now apply nidx_inj).
    rewrite nth_set_nth_neq by auto.
    destruct (byte_eqb_spec k0 a) as [->|Hka].
    + destruct (Nat.ltb_spec (nidx a) 17); [|lia].
      now rewrite nth_set_nth_eq by (rewrite empty_children_length; lia).
    + assert (nidx a <> nidx k0) by (intros E; apply Hka; symmetry; now apply nidx_inj).
      rewrite nth_set_nth_neq by auto. rewrite empty_children_nth. cbn [content_of lookup].
      now destruct (Nat.ltb (nidx k0) 17).
Qed.

(* shape facts about a canonical short node's key *)
Lemma canon_short_inv k c f : canon (NShort k c f) = true ->
  k <> [] /\ ((exists v, c = NVal v /\ tkeyb k = true /\ nonempty v = true) \/
              (exists cs f', c = NFull cs f' /\ pathb k = true /\ canon c = true)).
Proof.
  cbn [canon]. intros H. apply andb_true_iff in H as [Hk H].
  split; [destruct k; [discriminate|discriminate]|].
  destruct c; try discriminate.
  - right. apply andb_true_iff in H as [Hp Hc]. eauto.
  - left. apply andb_true_iff in H as [Hp Hc]. eauto.
Qed.
Lemma canon_short_okkey k c f : canon (NShort k c f) = true -> okkey k = true.
Proof.
  intros H. apply canon_short_inv in H as [_ [(v & _ & Ht & _)|(cs & f' & _ & Hp & _)]]; unfold okkey.
  - now rewrite Ht.
  - rewrite Hp. apply orb_true_r.
Qed.
