(* Trie/IterProofs.v — the iterator state machine of Trie/IterModel.v
   (nodeIterator: stack, path, peek / push / pop / seek; Iterator.Next on top of it)
   lists the content of the trie, exactly as the recursive traversal
   TrieModel.leaves does (TrieIterProofs.v / TrieLazyIterProofs.v).
   The invariant relates the concrete stack (top first) to the canonical nodes
   the frames stand for (loaded as they are, or lazy forms through the
   database): rest = the content still to be emitted, rem = the number of
   nodes still to be pushed. *)
From Coq Require Import ZArith Sorted.
From AQ Require Import Lib.Bytes Rlp.RlpSpec Rlp.RlpProofs Trie.MptSpec Trie.TrieModel Trie.TrieInv
  Trie.TrieProofs Trie.TrieRootProofs Trie.TrieCodecDefs Trie.TrieCodecProofs Trie.TrieReopenProofs
  Trie.TrieLazyDefs Trie.TrieIterProofs Trie.TrieLazyGetProofs Trie.TrieLazyIterProofs Trie.IterModel.
From AQ Require Trie.TrieLazyCommitProofs.
From Coq Require Import ZifyBool ZifyN ZifyNat.
Local Open Scope nat_scope.

(* ------------------------------------------------------------------ basics *)

Definition nhash (x : node) : bool := match x with NHash _ => true | _ => false end.

Definition nsizes_of (nsize : node -> nat) : list node -> nat :=
  fix go (l : list node) : nat := match l with [] => 0 | x :: t => nsize x + go t end.

(* number of nodes a traversal pushes *)
Fixpoint nsize (n : node) : nat :=
  match n with
  | NNil => 0
  | NShort _ c _ => S (nsize c)
  | NFull cs _ => S (nsizes_of nsize cs)
  | _ => 1
  end.
Definition nsizes : list node -> nat := nsizes_of nsize.

Lemma nsize_full cs f : nsize (NFull cs f) = S (nsizes cs).
Proof. reflexivity. Qed.
Lemma nsize_short k c f : nsize (NShort k c f) = S (nsize c).
Proof. reflexivity. Qed.
Lemma nsizes_cons x t : nsizes (x :: t) = nsize x + nsizes t.
Proof. reflexivity. Qed.

(* the children of a full node still to be visited when its index is idx *)
Fixpoint pend_go (idx : Z) (i : nat) (l : list node) : content :=
  match l with
  | [] => []
  | c :: t => (if Z.ltb idx (Z.of_nat i) then map (pre_nib i) (content_of c) else []) ++ pend_go idx (S i) t
  end.
Fixpoint rem_go (idx : Z) (i : nat) (l : list node) : nat :=
  match l with
  | [] => 0
  | c :: t => (if Z.ltb idx (Z.of_nat i) then nsize c else 0) + rem_go idx (S i) t
  end.

Definition pending (m : node) (idx : Z) : content :=
  match m with
  | NFull cs _ => pend_go idx 0 cs
  | NShort k c _ => if Z.ltb idx 0 then map (pre_key k) (content_of c) else []
  | _ => []
  end.
Definition remf (m : node) (idx : Z) : nat :=
  match m with
  | NFull cs _ => rem_go idx 0 cs
  | NShort k c _ => if Z.ltb idx 0 then nsize c else 0
  | _ => 0
  end.

Lemma pend_go_all idx : forall l i, (idx < Z.of_nat i)%Z -> pend_go idx i l = join i (map content_of l).
Proof.
  induction l as [|c t IH]; intros i Hi; [reflexivity|].
  cbn [pend_go map join]. destruct (Z.ltb_spec idx (Z.of_nat i)) as [_|Hbad]; [|lia].
  rewrite IH by lia. reflexivity.
Qed.

Lemma rem_go_all idx : forall l i, (idx < Z.of_nat i)%Z -> rem_go idx i l = nsizes l.
Proof.
  induction l as [|c t IH]; intros i Hi; [reflexivity|].
  cbn [rem_go]. rewrite nsizes_cons. destruct (Z.ltb_spec idx (Z.of_nat i)) as [_|Hbad]; [|lia].
  rewrite IH by lia. reflexivity.
Qed.

Lemma pending_start m : (forall v, m <> NVal v) -> pending m (-1) = content_of m.
Proof.
  destruct m as [|k c f|cs f|h|v]; intros Hv; try reflexivity.
  - cbn [pending content_of]. apply pend_go_all. lia.
  - exfalso. exact (Hv v eq_refl).
Qed.

Lemma remf_le m : remf m (-1) <= nsize m.
Proof.
  destruct m as [|k c f|cs f|h|v]; cbn [remf]; try (cbn [nsize]; lia).
  - rewrite nsize_short. cbn. lia.
  - rewrite nsize_full, rem_go_all by lia. lia.
Qed.

Lemma remf_lt m : m <> NNil -> remf m (-1) < nsize m.
Proof.
  destruct m as [|k c f|cs f|h|v]; intros Hn; cbn [remf]; try (cbn [nsize]; lia).
  - congruence.
  - rewrite nsize_short. cbn. lia.
  - rewrite nsize_full, rem_go_all by lia. lia.
Qed.

Lemma map_pre_key_nil (J : content) : map (pre_key []) J = J.
Proof.
  induction J as [|[k v] J IH]; [reflexivity|]. cbn [map]. rewrite IH. reflexivity.
Qed.

Lemma map_pre_key_app p e (J : content) : map (pre_key p) (map (pre_key e) J) = map (pre_key (p ++ e)) J.
Proof.
  rewrite map_map. apply map_ext. intros [k v]. unfold pre_key. cbn [fst snd]. now rewrite app_assoc.
Qed.

Lemma map_pre_nib_key i (J : content) : map (pre_nib i) J = map (pre_key [n2b (N.of_nat i)]) J.
Proof. apply map_ext. intros [k v]. reflexivity. Qed.

Lemma Forall2_imp {A B} (R R' : A -> B -> Prop) : (forall a b, R a b -> R' a b) ->
  forall l1 l2, Forall2 R l1 l2 -> Forall2 R' l1 l2.
Proof. intros HR l1 l2 HF. induction HF; constructor; auto. Qed.

Lemma firstn_app_exact {A} (a b : list A) : firstn (length a) (a ++ b) = a.
Proof. induction a as [|x a IH]; [reflexivity|]. cbn [length app firstn]. now rewrite IH. Qed.

Lemma hex_to_keybytes_cases k : (exists kb, hex_to_keybytes k = Ok kb) \/ hex_to_keybytes k = Panic.
Proof.
  unfold hex_to_keybytes. cbv zeta.
  destruct (Nat.odd (length (if has_term k then removelast k else k))); [right|left; eexists]; reflexivity.
Qed.

(* ------------------------------------------------------------------ one-step unfoldings *)

Definition nc_go (path : bytes) (parent : itst) (ancestor : bytes) :=
  fix go (i : nat) (l : list node) {struct l} : option (itst * itst * bytes) :=
    match l with
    | [] => None
    | c :: t =>
      if Z.ltb (is_index parent) (Z.of_nat i) && negb (is_nil c) then
        Some (mkItst (IterModel.is_hash parent) (is_node parent) (is_parent parent) (Z.of_nat i - 1) (is_pathlen parent),
              mkItst (cached_hash c) c ancestor (-1) (length path),
              path ++ [n2b (N.of_nat i)])
      else go (S i) t
    end.

Lemma nc_go_cons path parent anc i c t :
  nc_go path parent anc i (c :: t) =
  if Z.ltb (is_index parent) (Z.of_nat i) && negb (is_nil c) then
    Some (mkItst (IterModel.is_hash parent) (is_node parent) (is_parent parent) (Z.of_nat i - 1) (is_pathlen parent),
          mkItst (cached_hash c) c anc (-1) (length path),
          path ++ [n2b (N.of_nat i)])
  else nc_go path parent anc (S i) t.
Proof. reflexivity. Qed.

Lemma next_child_full path parent anc cs f : is_node parent = NFull cs f ->
  next_child path parent anc = nc_go path parent anc 0 cs.
Proof. destruct parent as [ph pn pp pi pl]. cbn [is_node]. intros ->. reflexivity. Qed.

Lemma next_child_short path parent anc k v f : is_node parent = NShort k v f ->
  next_child path parent anc =
  if Z.ltb (is_index parent) 0 then
    Some (parent, mkItst (cached_hash v) v anc (-1) (length path), path ++ k)
  else None.
Proof. destruct parent as [ph pn pp pi pl]. cbn [is_node]. intros ->. reflexivity. Qed.

Lemma peek_loop_cons d gen parent below path :
  peek_loop d gen (parent :: below) path =
  match next_child path parent
          (if bytes_eqb (IterModel.is_hash parent) zero32 then is_parent parent else IterModel.is_hash parent) with
  | Some (parent', st, newpath) =>
    match st_resolve d gen st with
    | Ok st' => PState (parent' :: below) path st' true newpath
    | Missing => PErr (parent' :: below) path EMissing
    | Panic => PErr (parent' :: below) path EPanic
    | _ => PErr (parent' :: below) path EFuel
    end
  | None => peek_loop d gen below (firstn (is_pathlen parent) path)
  end.
Proof. reflexivity. Qed.

Lemma kv_next_S H f d gen rh root it :
  kv_next H (S f) d gen rh root it =
  let '(moved, it') := it_next H (S f) d gen rh root it true in
  if moved then
    if it_leaf it' then
      match it_leaf_key it', it_leaf_blob it' with
      | Ok k, Ok v => (Ok (Some (k, v)), it')
      | _, _ => (Panic, it')
      end
    else kv_next H f d gen rh root it'
  else match it_error it' with
       | ENone => (Ok None, it')
       | EMissing => (Missing, it')
       | EFuel => (OutOfFuel, it')
       | _ => (Panic, it')
       end.
Proof. reflexivity. Qed.

Lemma kv_all_S H f d gen rh root it :
  kv_all H (S f) d gen rh root it =
  match kv_next H (S f) d gen rh root it with
  | (Ok (Some kv), it') => bind (kv_all H f d gen rh root it') (fun l => Ok (kv :: l))
  | (Ok None, _) => Ok []
  | (Err, _) => Err | (Missing, _) => Missing | (Panic, _) => Panic | (OutOfFuel, _) => OutOfFuel
  end.
Proof. reflexivity. Qed.

Lemma it_next_run H fuel d gen rh root stack path descend :
  it_next H fuel d gen rh root (mkNiter true stack path ENone) descend =
  match peek H d gen rh root (mkNiter true stack path ENone) descend with
  | PErr stack' path' e => (false, mkNiter true stack' path' e)
  | PState stack' path' st hp np => (true, mkNiter true (it_push stack' st hp) np ENone)
  end.
Proof. reflexivity. Qed.

Lemma it_next_end H fuel d gen rh root stack path descend :
  it_next H fuel d gen rh root (mkNiter true stack path EEnd) descend = (false, mkNiter true stack path EEnd).
Proof. reflexivity. Qed.

Definition seek_cont (H : bytes -> bytes) (f : nat) (d : db) (gen : N) (rh : bytes) (root : node) (key prefix : bytes)
           (live : bool) (err : iterr) (res : peekres) : niter :=
  match res with
  | PErr stack path EEnd => mkNiter live stack path EEnd
  | PErr stack path EMissing => mkNiter live stack path (ESeek prefix true)
  | PErr stack path e => mkNiter live stack path e
  | PState stack path st hp newpath =>
    if bytes_ge newpath key then mkNiter live stack path ENone
    else seek_loop H f d gen rh root key prefix (mkNiter live (it_push stack st hp) newpath err)
  end.

Lemma seek_loop_S H f d gen rh root key prefix it :
  seek_loop H (S f) d gen rh root key prefix it =
  seek_cont H f d gen rh root key prefix (it_live it) (it_err it)
            (peek H d gen rh root it (is_prefix (it_path it) key)).
Proof. reflexivity. Qed.

Lemma it_push_cons stack st hp : exists rest0, it_push stack st hp = st :: rest0.
Proof. unfold it_push. destruct hp, stack; eexists; reflexivity. Qed.

(* ================================================================== (T0) the order of the content *)

(* strict lexicographic order on nibble paths (the terminator 16 is the largest nibble) *)
Definition path_lt (a b : bytes) : Prop := bytes_ge a b = false.

Lemma bytes_ge_cons x a y b :
  bytes_ge (x :: a) (y :: b) =
  if (b2n y <? b2n x)%N then true else if (b2n x <? b2n y)%N then false else bytes_ge a b.
Proof. reflexivity. Qed.

Lemma bytes_ge_nil_r a : bytes_ge a [] = true.
Proof. destruct a; reflexivity. Qed.

Lemma bytes_ge_same x a b : bytes_ge (x :: a) (x :: b) = bytes_ge a b.
Proof. rewrite bytes_ge_cons, N.ltb_irrefl. reflexivity. Qed.

Lemma bytes_ge_app_l k a b : bytes_ge (k ++ a) (k ++ b) = bytes_ge a b.
Proof. induction k as [|x k IH]; cbn [app]; [reflexivity|]. rewrite bytes_ge_same. exact IH. Qed.

Lemma bytes_ge_total : forall a b, bytes_ge a b = false -> bytes_ge b a = true.
Proof.
  induction a as [|x a IH]; intros [|y b] Hab; try reflexivity; try discriminate Hab.
  rewrite bytes_ge_cons in *.
  destruct (N.ltb_spec (b2n y) (b2n x)); [discriminate Hab|].
  destruct (N.ltb_spec (b2n x) (b2n y)); [reflexivity|]. apply IH. exact Hab.
Qed.

Lemma bytes_ge_trans : forall a b c, bytes_ge a b = true -> bytes_ge b c = true -> bytes_ge a c = true.
Proof.
  induction a as [|x a IH]; intros [|y b] [|z c] H1 H2; try reflexivity; try discriminate.
  rewrite bytes_ge_cons in *.
  destruct (N.ltb_spec (b2n y) (b2n x)); destruct (N.ltb_spec (b2n x) (b2n y));
    destruct (N.ltb_spec (b2n z) (b2n y)); destruct (N.ltb_spec (b2n y) (b2n z));
    destruct (N.ltb_spec (b2n z) (b2n x)); destruct (N.ltb_spec (b2n x) (b2n z));
    try reflexivity; try discriminate; try (exfalso; lia).
  eapply IH; eassumption.
Qed.

(* a path below the key that is not a prefix of it: everything under it is below the key *)
Lemma bytes_ge_ext_false : forall p key e,
  bytes_ge p key = false -> is_prefix p key = false -> bytes_ge (p ++ e) key = false.
Proof.
  induction p as [|a p IH]; intros [|b key] e Hg Hp; try discriminate.
  cbn [app]. rewrite bytes_ge_cons in *. cbn [is_prefix] in Hp.
  destruct (N.ltb_spec (b2n b) (b2n a)); [discriminate Hg|].
  destruct (N.ltb_spec (b2n a) (b2n b)); [reflexivity|].
  assert (a = b) by (apply b2n_inj; lia). subst b.
  destruct (byte_eqb_spec a a) as [_|Hne]; [|congruence]. cbn [andb] in Hp. apply IH; assumption.
Qed.

Lemma bytes_ge_ext_true : forall p key e, bytes_ge p key = true -> bytes_ge (p ++ e) key = true.
Proof.
  induction p as [|a p IH]; intros [|b key] e Hg; try apply bytes_ge_nil_r; try discriminate.
  cbn [app]. rewrite bytes_ge_cons in *.
  destruct (N.ltb_spec (b2n b) (b2n a)); [reflexivity|].
  destruct (N.ltb_spec (b2n a) (b2n b)); [discriminate Hg|]. apply IH. exact Hg.
Qed.

Lemma ssorted_app {A} (R : A -> A -> Prop) : forall l1 l2,
  StronglySorted R l1 -> StronglySorted R l2 -> (forall a b, In a l1 -> In b l2 -> R a b) ->
  StronglySorted R (l1 ++ l2).
Proof.
  induction l1 as [|x l1 IH]; intros l2 H1 H2 Hc; [exact H2|].
  apply StronglySorted_inv in H1 as [H1 Hx]. cbn [app]. constructor.
  - apply IH; [exact H1|exact H2|]. intros a b Ha Hb. apply Hc; [right; exact Ha|exact Hb].
  - apply Forall_app. split; [exact Hx|]. apply Forall_forall. intros b Hb. apply Hc; [left; reflexivity|exact Hb].
Qed.

Lemma ssorted_app_r {A} (R : A -> A -> Prop) : forall l1 l2, StronglySorted R (l1 ++ l2) -> StronglySorted R l2.
Proof.
  induction l1 as [|x l1 IH]; intros l2 Hs; [exact Hs|].
  cbn [app] in Hs. apply StronglySorted_inv in Hs as [Hs _]. apply IH. exact Hs.
Qed.

Lemma ssorted_map {A} (R : A -> A -> Prop) (f : A -> A) : (forall a b, R a b -> R (f a) (f b)) ->
  forall l, StronglySorted R l -> StronglySorted R (map f l).
Proof.
  intros Hf. induction l as [|x l IH]; intros Hs; [constructor|].
  apply StronglySorted_inv in Hs as [Hs Hx]. cbn [map]. constructor; [apply IH; exact Hs|].
  apply Forall_forall. intros b Hb. apply in_map_iff in Hb as (b0 & <- & Hb0).
  apply Hf. rewrite Forall_forall in Hx. apply Hx. exact Hb0.
Qed.

Lemma path_lt_nib i j a b : i < j -> j < 256 -> path_lt (n2b (N.of_nat i) :: a) (n2b (N.of_nat j) :: b).
Proof.
  intros Hij Hj. unfold path_lt. rewrite bytes_ge_cons, !b2n_n2b by lia.
  destruct (N.ltb_spec (N.of_nat j) (N.of_nat i)); [lia|].
  destruct (N.ltb_spec (N.of_nat i) (N.of_nat j)); [reflexivity|lia].
Qed.

Definition key_from (i n : nat) (k : bytes) : Prop :=
  exists j t, k = n2b (N.of_nat j) :: t /\ i <= j /\ j < n.

Lemma map_fst_pre_nib i (J : content) : map fst (map (pre_nib i) J) = map (cons (n2b (N.of_nat i))) (map fst J).
Proof. rewrite !map_map. apply map_ext. intros [k v]. reflexivity. Qed.

Lemma map_fst_pre_key p (J : content) : map fst (map (pre_key p) J) = map (app p) (map fst J).
Proof. rewrite !map_map. apply map_ext. intros [k v]. reflexivity. Qed.

Lemma join_sorted : forall l i, i + length l <= 256 ->
  Forall (fun J : content => StronglySorted path_lt (map fst J)) l ->
  StronglySorted path_lt (map fst (join i l)) /\ Forall (key_from i (i + length l)) (map fst (join i l)).
Proof.
  induction l as [|J t IH]; intros i Hl HF.
  - split; constructor.
  - cbn [length] in Hl. inversion HF as [|? ? HJ HFt]; subst.
    destruct (IH (S i) ltac:(lia) HFt) as [IS IK].
    cbn [join]. rewrite map_app, map_fst_pre_nib. split.
    + apply ssorted_app.
      * apply ssorted_map; [|exact HJ]. intros a b Hab. unfold path_lt in *. rewrite bytes_ge_same. exact Hab.
      * exact IS.
      * intros a b Ha Hb. apply in_map_iff in Ha as (a0 & <- & _).
        rewrite Forall_forall in IK. destruct (IK b Hb) as (j & tb & -> & Hj1 & Hj2).
        apply path_lt_nib; lia.
    + apply Forall_app. split.
      * apply Forall_forall. intros a Ha. apply in_map_iff in Ha as (a0 & <- & _).
        exists i, a0. split; [reflexivity|]. cbn [length]. lia.
      * eapply Forall_impl; [|exact IK]. intros a (j & tb & -> & Hj1 & Hj2).
        exists j, tb. split; [reflexivity|]. cbn [length]. lia.
Qed.

Theorem content_sorted : forall m, canon m = true -> StronglySorted path_lt (map fst (content_of m)).
Proof.
  induction m as [|k c f IH|cs f IH|h|v] using node_ind'; intros Hc; try discriminate Hc.
  - destruct (canon_short_inv _ _ _ Hc) as [Hk [(v & -> & Ht & Hv)|(cs & fc & -> & Hpk & Hcc)]].
    + cbn [content_of map]. constructor; constructor.
    + rewrite TrieIterProofs.content_short, map_fst_pre_key. apply ssorted_map; [|apply IH; exact Hcc].
      intros a b Hab. unfold path_lt in *. rewrite bytes_ge_app_l. exact Hab.
  - rewrite TrieIterProofs.content_full. destruct (canon_full_inv _ _ Hc) as (Hl & _).
    apply (join_sorted (map content_of cs) 0); [rewrite map_length; lia|].
    pose proof (canon_full_children _ _ Hc) as Hs.
    apply Forall_forall. intros J HJ. apply in_map_iff in HJ as (c & <- & Hin).
    rewrite Forall_forall in IH, Hs. destruct (Hs c Hin) as [->|[[v ->]|Hcc]].
    + constructor.
    + cbn [content_of map]. constructor; constructor.
    + apply (IH c Hin Hcc).
Qed.

Lemma filter_all {A} (f : A -> bool) l : Forall (fun a => f a = true) l -> filter f l = l.
Proof. induction 1 as [|a l Ha _ IH]; [reflexivity|]. cbn [filter]. rewrite Ha, IH. reflexivity. Qed.

Lemma filter_none {A} (f : A -> bool) l : Forall (fun a => f a = false) l -> filter f l = [].
Proof. induction 1 as [|a l Ha _ IH]; [reflexivity|]. cbn [filter]. rewrite Ha, IH. reflexivity. Qed.

Definition below_key (key : bytes) (J : content) : Prop := Forall (fun kv => bytes_ge (fst kv) key = false) J.
Definition head_ge (key : bytes) (J : content) : Prop :=
  match J with [] => True | kv :: _ => bytes_ge (fst kv) key = true end.

(* in a sorted content the entries from the first one >= key on are exactly those >= key *)
Lemma filter_sorted_suffix key (pre J' : content) :
  below_key key pre -> head_ge key J' -> StronglySorted path_lt (map fst (pre ++ J')) ->
  filter (fun kv => bytes_ge (fst kv) key) (pre ++ J') = J'.
Proof.
  intros Hpre Hhd Hs. rewrite filter_app, (filter_none _ pre Hpre). cbn [app].
  apply filter_all. rewrite map_app in Hs. apply ssorted_app_r in Hs.
  destruct J' as [|kv tl]; [constructor|]. cbn [head_ge] in Hhd. cbn [map] in Hs.
  apply StronglySorted_inv in Hs as [_ Hx]. constructor; [exact Hhd|].
  apply Forall_forall. intros e He. rewrite Forall_forall in Hx.
  assert (Hlt : path_lt (fst kv) (fst e)) by (apply Hx; apply in_map; exact He).
  apply (bytes_ge_trans _ (fst kv)); [apply bytes_ge_total; exact Hlt|exact Hhd].
Qed.

(* ================================================================== the invariant *)

Section Iter.
Variable H : bytes -> bytes.
Hypothesis Hlen : forall x, length (H x) = 32%nat.
Variable d : db.

(* x stands for the canonical node m: loaded as it is, or a lazy form of it *)
Inductive rep : node -> node -> Prop :=
| rep_same m : rep m m
| rep_lz s m x : lzf H d s m x -> rep m x.

Lemma rep_is_nil c x : rep c x -> is_nil x = is_nil c.
Proof.
  intros [m|s m y Hl]; [reflexivity|].
  inversion Hl as [s0 m0 Ha| | | |]; subst; try reflexivity.
  destruct Ha as [Hc _]. destruct m; try discriminate Hc; reflexivity.
Qed.

Lemma rep_val v x : rep (NVal v) x -> x = NVal v.
Proof.
  intros Hr. inversion Hr as [m|s m y Hl]; subst; [reflexivity|].
  exact (lzf_val_inv H d s v x Hl).
Qed.

Lemma rep_nil x : rep NNil x -> x = NNil.
Proof.
  intros Hr. inversion Hr as [m|s m y Hl]; subst; [reflexivity|].
  exact (lzf_nil_inv H d s x Hl).
Qed.

Lemma rep_short k c f x : rep (NShort k c f) x -> nhash x = false ->
  exists x1 f', x = NShort k x1 f' /\ rep c x1.
Proof.
  intros Hr Hn. inversion Hr as [m|s m y Hl]; subst.
  - exists c, f. split; [reflexivity|apply rep_same].
  - inversion Hl as [s0 m0 Ha| | |s0 k0 c0 x1 f0 f' Hu1 Hb1 Hfl|]; subst; [discriminate Hn|].
    exists x1, f'. split; [reflexivity|]. eapply rep_lz. exact Hu1.
Qed.

Lemma rep_full cs f x : rep (NFull cs f) x -> nhash x = false ->
  exists xs f', x = NFull xs f' /\ Forall2 rep cs xs.
Proof.
  intros Hr Hn. inversion Hr as [m|s m y Hl]; subst.
  - exists cs, f. split; [reflexivity|]. apply Forall2_diag. apply Forall_forall. intros c _. apply rep_same.
  - inversion Hl as [s0 m0 Ha| | | |s0 cs0 xs f0 f' Hus Hbs Hfl]; subst; [discriminate Hn|].
    exists xs, f'. split; [reflexivity|]. eapply Forall2_imp; [|exact Hus]. intros a b Hab. eapply rep_lz. exact Hab.
Qed.

(* nodeIteratorState.resolve on a child *)
Lemma st_resolve_rep gen c x h par i pl : child_shape c -> rep c x ->
  exists hh x', st_resolve d gen (mkItst h x par i pl) = Ok (mkItst hh x' par i pl)
                /\ rep c x' /\ nhash x' = false.
Proof.
  intros Hs Hr. destruct x as [|k0 c0 f0|cs0 f0|h0|v0];
    try (eexists; eexists; split; [reflexivity|split; [exact Hr|reflexivity]]).
  inversion Hr as [m|s m y Hl]; subst.
  - exfalso. destruct Hs as [E|[[v E]|E]]; discriminate E.
  - inversion Hl as [s0 m0 Ha| | | |]; subst.
    pose proof Ha as (Hc & Hfit & Hst & Hcov).
    unfold st_resolve. cbn [is_node is_parent is_index is_pathlen].
    rewrite (resolve_stored H Hlen d c gen Hc (all_fits_top H c Hc Hfit) Hst). cbn [bind].
    eexists. eexists. split; [reflexivity|]. split.
    + apply (rep_lz false). apply dec_lzf; [exact Ha|]. intros E; discriminate E.
    + exact (dec_node_not_hash H gen _ c Hc).
Qed.

(* ------------------------------------------------------------------ frames *)

Definition frame_ok (m x : node) (idx : Z) (p : bytes) : Prop :=
  rep m x /\ nhash x = false /\ (-1 <= idx)%Z /\
  match m with
  | NShort _ _ _ | NFull _ _ => canon m = true /\ pathb p = true
  | NHash _ => False
  | _ => True
  end.

Fixpoint stk_ok (stack : list itst) (ms : list node) (path : bytes) : Prop :=
  match stack, ms with
  | [], [] => True
  | st :: below, m :: ms' =>
    frame_ok m (is_node st) (is_index st) path /\ stk_ok below ms' (firstn (is_pathlen st) path)
  | _, _ => False
  end.

Fixpoint rest (stack : list itst) (ms : list node) (path : bytes) : content :=
  match stack, ms with
  | st :: below, m :: ms' =>
    map (pre_key path) (pending m (is_index st)) ++ rest below ms' (firstn (is_pathlen st) path)
  | _, _ => []
  end.

Fixpoint rem (stack : list itst) (ms : list node) : nat :=
  match stack, ms with
  | st :: below, m :: ms' => remf m (is_index st) + rem below ms'
  | _, _ => 0
  end.

(* where a child sits: a value at a terminated path, or a canonical node at a nibble path *)
Definition child_at (c : node) (np : bytes) : Prop :=
  (exists v, c = NVal v /\ has_term np = true) \/ (canon c = true /\ pathb np = true).

Lemma child_at_shape c np : child_at c np -> child_shape c.
Proof. intros [(v & -> & _)|[Hc _]]; [right; left; eauto|right; right; exact Hc]. Qed.

Lemma child_at_frame c x np : child_at c np -> rep c x -> nhash x = false -> frame_ok c x (-1) np.
Proof.
  intros Hat Hr Hn. split; [exact Hr|]. split; [exact Hn|]. split; [lia|].
  destruct Hat as [(v & -> & _)|[Hc Hp]]; [exact I|].
  destruct c; try discriminate Hc; split; assumption.
Qed.

(* ------------------------------------------------------------------ nextChild *)

Lemma nc_go_spec parent path anc : pathb path = true ->
  forall l xs i, Forall2 rep l xs -> slots_ok i l -> i + length l = 17 ->
  match nc_go path parent anc i xs with
  | None => pend_go (is_index parent) i l = [] /\ rem_go (is_index parent) i l = 0
  | Some (p', st, np) => exists c j,
      np = path ++ [n2b (N.of_nat j)] /\
      p' = mkItst (IterModel.is_hash parent) (is_node parent) (is_parent parent) (Z.of_nat j - 1) (is_pathlen parent) /\
      rep c (is_node st) /\ is_index st = (-1)%Z /\ is_pathlen st = length path /\ c <> NNil /\
      child_at c np /\
      pend_go (is_index parent) i l = map (pre_nib j) (content_of c) ++ pend_go (Z.of_nat j) i l /\
      pend_go (Z.of_nat j - 1) i l = map (pre_nib j) (content_of c) ++ pend_go (Z.of_nat j) i l /\
      rem_go (is_index parent) i l = nsize c + rem_go (Z.of_nat j) i l /\
      rem_go (Z.of_nat j - 1) i l = nsize c + rem_go (Z.of_nat j) i l /\
      i <= j
  end.
Proof.
  intros Hp l xs i HF. revert i. induction HF as [|c x l xs Hr HF IH]; intros i Hs Hl.
  - split; reflexivity.
  - rewrite nc_go_cons. destruct Hs as [Hx Hs]. cbn [length] in Hl.
    rewrite (rep_is_nil c x Hr).
    destruct (Z.ltb (is_index parent) (Z.of_nat i) && negb (is_nil c)) eqn:Econd.
    + apply andb_prop in Econd as [Hlt Hnn]. apply Z.ltb_lt in Hlt.
      assert (Hne : c <> NNil) by (intros ->; discriminate Hnn).
      exists c, i. split; [reflexivity|]. split; [reflexivity|]. cbn [is_node is_index is_pathlen].
      split; [exact Hr|]. split; [reflexivity|]. split; [reflexivity|]. split; [exact Hne|].
      split; [|split; [|split; [|split; [|split]]]].
      * unfold child_ok in Hx. destruct (Nat.ltb_spec i 16) as [Hi|Hi].
        -- destruct Hx as [->|Hc]; [congruence|]. right. split; [exact Hc|apply pathb_snoc_nib; assumption].
        -- assert (i = 16) by lia. subst i. destruct Hx as [->|[v ->]]; [congruence|].
           left. exists v. split; [reflexivity|]. change (n2b (N.of_nat 16)) with term. apply has_term_snoc.
      * cbn [pend_go]. destruct (Z.ltb_spec (is_index parent) (Z.of_nat i)) as [_|Hbad]; [|lia].
        destruct (Z.ltb_spec (Z.of_nat i) (Z.of_nat i)) as [Hbad|_]; [lia|].
        rewrite !pend_go_all by lia. reflexivity.
      * cbn [pend_go]. destruct (Z.ltb_spec (Z.of_nat i - 1) (Z.of_nat i)) as [_|Hbad]; [|lia].
        destruct (Z.ltb_spec (Z.of_nat i) (Z.of_nat i)) as [Hbad|_]; [lia|].
        rewrite !pend_go_all by lia. reflexivity.
      * cbn [rem_go]. destruct (Z.ltb_spec (is_index parent) (Z.of_nat i)) as [_|Hbad]; [|lia].
        destruct (Z.ltb_spec (Z.of_nat i) (Z.of_nat i)) as [Hbad|_]; [lia|].
        rewrite !rem_go_all by lia. reflexivity.
      * cbn [rem_go]. destruct (Z.ltb_spec (Z.of_nat i - 1) (Z.of_nat i)) as [_|Hbad]; [|lia].
        destruct (Z.ltb_spec (Z.of_nat i) (Z.of_nat i)) as [Hbad|_]; [lia|].
        rewrite !rem_go_all by lia. reflexivity.
      * lia.
    + assert (Hhead : (if Z.ltb (is_index parent) (Z.of_nat i) then map (pre_nib i) (content_of c) else []) = []
                      /\ (if Z.ltb (is_index parent) (Z.of_nat i) then nsize c else 0) = 0).
      { destruct (Z.ltb (is_index parent) (Z.of_nat i)); [|split; reflexivity].
        cbn [andb] in Econd. destruct c; try discriminate Econd. split; reflexivity. }
      destruct Hhead as [Hh1 Hh2].
      specialize (IH (S i) Hs ltac:(lia)).
      destruct (nc_go path parent anc (S i) xs) as [[[p' st] np]|].
      * destruct IH as (c' & j & E1 & E2 & E3 & E4 & E5 & E6 & E7 & E8 & E9 & E10 & E11 & E12).
        exists c', j. split; [exact E1|]. split; [exact E2|]. split; [exact E3|]. split; [exact E4|].
        split; [exact E5|]. split; [exact E6|]. split; [exact E7|].
        cbn [pend_go rem_go]. rewrite Hh1, Hh2.
        destruct (Z.ltb_spec (Z.of_nat j) (Z.of_nat i)) as [Hbad|_]; [lia|].
        destruct (Z.ltb_spec (Z.of_nat j - 1) (Z.of_nat i)) as [Hbad|_]; [lia|].
        cbn [app plus]. split; [exact E8|]. split; [exact E9|]. split; [exact E10|]. split; [exact E11|]. lia.
      * destruct IH as [E1 E2]. cbn [pend_go rem_go]. rewrite Hh1, Hh2, E1, E2. split; reflexivity.
Qed.

Lemma next_child_spec m parent path anc :
  frame_ok m (is_node parent) (is_index parent) path ->
  match next_child path parent anc with
  | None => pending m (is_index parent) = [] /\ remf m (is_index parent) = 0
  | Some (p', st, np) => exists c ext,
      np = path ++ ext /\ is_node p' = is_node parent /\ is_pathlen p' = is_pathlen parent /\
      (-1 <= is_index p')%Z /\
      rep c (is_node st) /\ is_index st = (-1)%Z /\ is_pathlen st = length path /\ c <> NNil /\
      child_at c np /\
      pending m (is_index parent) = map (pre_key ext) (content_of c) ++ pending m (is_index p' + 1) /\
      pending m (is_index p') = map (pre_key ext) (content_of c) ++ pending m (is_index p' + 1) /\
      remf m (is_index parent) = nsize c + remf m (is_index p' + 1) /\
      remf m (is_index p') = nsize c + remf m (is_index p' + 1)
  end.
Proof.
  intros (Hr & Hn & Hidx & Hm).
  destruct m as [|k c f|cs f|h|v]; try contradiction.
  - (* nil *)
    apply rep_nil in Hr. unfold next_child. rewrite Hr. split; reflexivity.
  - (* short *)
    destruct Hm as [Hc Hp]. destruct (rep_short k c f _ Hr Hn) as (x1 & f' & Ex & Hr1).
    rewrite (next_child_short path parent anc k x1 f' Ex). cbn [pending remf].
    destruct (Z.ltb_spec (is_index parent) 0) as [Hlt|Hge]; [|split; reflexivity].
    assert (El : (is_index parent <? 0)%Z = true) by (apply Z.ltb_lt; exact Hlt).
    exists c, k. cbn [pending remf]. rewrite ?El.
    split; [reflexivity|]. split; [reflexivity|]. split; [reflexivity|]. split; [exact Hidx|].
    cbn [is_node is_index is_pathlen]. split; [exact Hr1|]. split; [reflexivity|]. split; [reflexivity|].
    destruct (Z.ltb_spec (is_index parent + 1) 0) as [Hbad|_]; [lia|]. rewrite app_nil_r, Nat.add_0_r.
    destruct (canon_short_inv _ _ _ Hc) as [Hk [(v & -> & Ht & Hv)|(cs & fc & -> & Hpk & Hcc)]].
    + split; [discriminate|]. split; [|repeat split; reflexivity].
      left. exists v. split; [reflexivity|]. exact (proj1 (tkey_facts _ (tkeyb_app _ _ Hp Ht))).
    + split; [discriminate|]. split; [|repeat split; reflexivity].
      right. split; [exact Hcc|]. rewrite pathb_app, Hp, Hpk. reflexivity.
  - (* full *)
    destruct Hm as [Hc Hp]. destruct (rep_full cs f _ Hr Hn) as (xs & f' & Ex & Hrs).
    rewrite (next_child_full path parent anc xs f' Ex). cbn [pending remf].
    destruct (canon_full_inv _ _ Hc) as (Hl & _).
    pose proof (nc_go_spec parent path anc Hp cs xs 0 Hrs (canon_slots_ok _ _ Hc) ltac:(lia)) as S.
    destruct (nc_go path parent anc 0 xs) as [[[p' st] np]|]; [|exact S].
    destruct S as (c & j & E1 & E2 & E3 & E4 & E5 & E6 & E7 & E8 & E9 & E10 & E11 & _).
    exists c, [n2b (N.of_nat j)]. subst p'. cbn [is_node is_index is_pathlen].
    replace (Z.of_nat j - 1 + 1)%Z with (Z.of_nat j) by lia.
    rewrite <- map_pre_nib_key.
    split; [exact E1|]. split; [reflexivity|]. split; [reflexivity|]. split; [lia|].
    split; [exact E3|]. split; [exact E4|]. split; [exact E5|]. split; [exact E6|]. split; [exact E7|].
    split; [exact E8|]. split; [exact E9|]. split; [exact E10|exact E11].
  - (* value *)
    apply rep_val in Hr. unfold next_child. rewrite Hr. split; reflexivity.
Qed.

(* ------------------------------------------------------------------ peek *)

Section Peek.
Variable gen : N.

Definition push_facts (stack' : list itst) (ms' : list node) (path' : bytes) (st : itst) (np : bytes)
           (J : content) (r : nat) : Prop :=
  exists c tl rt,
    stk_ok stack' ms' path' /\ stack' <> [] /\
    J = map (pre_key np) (content_of c) ++ tl /\
    rest stack' ms' path' = map (pre_key np) (content_of c) ++ tl /\
    r = nsize c + rt /\ rem stack' ms' = nsize c + rt /\
    c <> NNil /\ child_at c np /\ rep c (is_node st) /\
    stk_ok (it_push stack' st true) (c :: ms') np /\
    rest (it_push stack' st true) (c :: ms') np = map (pre_key np) (pending c (-1)) ++ tl /\
    rem (it_push stack' st true) (c :: ms') = remf c (-1) + rt.

Lemma peek_loop_spec : forall stack ms path, stk_ok stack ms path ->
  match peek_loop d gen stack path with
  | PErr stack' path' e => e = EEnd /\ rest stack ms path = [] /\ rem stack ms = 0
  | PState stack' path' st hp np =>
    hp = true /\ exists ms', push_facts stack' ms' path' st np (rest stack ms path) (rem stack ms)
  end.
Proof.
  induction stack as [|parent below IH]; intros ms path Hok.
  - destruct ms; [|contradiction]. cbn. repeat split.
  - destruct ms as [|m ms']; [contradiction|]. destruct Hok as [Hf Hbelow].
    rewrite peek_loop_cons.
    pose proof (next_child_spec m parent path
      (if bytes_eqb (IterModel.is_hash parent) zero32 then is_parent parent else IterModel.is_hash parent) Hf) as S.
    destruct (next_child path parent _) as [[[p' st] np]|].
    + destruct S as (c & ext & E1 & E2 & E3 & E4 & E5 & E6 & E7 & E8 & E9 & E10 & E11 & E12 & E13).
      destruct st as [sh sx spar si spl]. cbn [is_node is_index is_pathlen] in *. subst si spl.
      destruct (st_resolve_rep gen c sx sh spar (-1)%Z (length path) (child_at_shape _ _ E9) E5)
        as (hh & x' & Er & Hr' & Hn').
      rewrite Er. split; [reflexivity|]. exists (m :: ms').
      destruct Hf as (Hr & Hn & Hidx & Hm).
      exists c, (map (pre_key path) (pending m (is_index p' + 1)) ++ rest below ms' (firstn (is_pathlen parent) path)),
        (remf m (is_index p' + 1) + rem below ms').
      assert (Hfp : forall idx, (-1 <= idx)%Z -> frame_ok m (is_node p') idx path).
      { intros idx Hi. rewrite E2. split; [exact Hr|]. split; [exact Hn|]. split; [exact Hi|exact Hm]. }
      split; [|split; [discriminate|]].
      { cbn [stk_ok]. split; [apply Hfp; exact E4|]. rewrite E3. exact Hbelow. }
      split.
      { cbn [rest]. rewrite E10, map_app, map_pre_key_app, <- E1, <- app_assoc. reflexivity. }
      split.
      { cbn [rest]. rewrite E11, map_app, map_pre_key_app, <- E1, <- app_assoc, E3. reflexivity. }
      split; [cbn [rem]; rewrite E12; lia|]. split; [cbn [rem]; rewrite E13; lia|].
      split; [exact E8|]. split; [exact E9|]. cbn [is_node]. split; [exact Hr'|].
      cbn [it_push]. cbn [stk_ok rest rem is_node is_index is_pathlen].
      rewrite E1, firstn_app_exact, <- E1, E3.
      split; [|split; reflexivity].
      split; [apply child_at_frame; assumption|]. split; [apply Hfp; lia|exact Hbelow].
    + destruct S as [S1 S2]. specialize (IH ms' _ Hbelow). cbn [rest rem]. rewrite S1, S2. cbn [map app plus].
      exact IH.
Qed.

(* ------------------------------------------------------------------ Next *)

Variable rh : bytes.
Variables m x : node.
Hypothesis Hroot : canon_root m = true.
Hypothesis Hrep : rep m x.

(* iterator states: before the root is pushed; running; finished *)
Inductive it_inv : niter -> content -> nat -> Prop :=
| inv_init : it_inv (mkNiter true [] [] ENone) (content_of m) (S (nsize m))
| inv_run stack ms path J r : stack <> [] -> stk_ok stack ms path ->
    J = rest stack ms path -> r = rem stack ms -> it_inv (mkNiter true stack path ENone) J r
| inv_end stack path : it_inv (mkNiter true stack path EEnd) [] 0.

Lemma root_shape : child_shape m.
Proof.
  unfold canon_root in Hroot. apply orb_prop in Hroot as [Hn|Hc].
  - left. destruct m; try discriminate Hn. reflexivity.
  - right. right. exact Hc.
Qed.

Lemma root_not_val : forall v, m <> NVal v.
Proof. intros v E. rewrite E in Hroot. discriminate Hroot. Qed.

(* pushing the root *)
Lemma peek_root path :
  exists st, peek H d gen rh x (mkNiter true [] path ENone) true = PState [] path st false [] /\
             stk_ok [st] [m] [] /\ rest [st] [m] [] = content_of m /\ rem [st] [m] <= nsize m.
Proof.
  unfold peek. cbn [it_stack it_path].
  destruct (st_resolve_rep gen m x (if bytes_eqb rh (empty_root H) then zero32 else rh) zero32 (-1)%Z 0
              root_shape Hrep) as (hh & x' & Er & Hr' & Hn').
  rewrite Er. eexists. split; [reflexivity|].
  cbn [stk_ok rest rem is_node is_index is_pathlen]. split; [|split].
  - split; [|exact I]. split; [exact Hr'|]. split; [exact Hn'|]. split; [lia|].
    pose proof root_shape as [E|[[v E]|Hc]].
    + rewrite E. exact I.
    + exfalso. exact (root_not_val v E).
    + destruct m; try discriminate Hc; split; auto.
  - rewrite app_nil_r, map_pre_key_nil. apply pending_start. exact root_not_val.
  - pose proof (remf_le m). lia.
Qed.

Lemma it_next_spec fuel it J r moved it' : it_inv it J r ->
  it_next H fuel d gen rh x it true = (moved, it') ->
  (moved = false /\ J = [] /\ it_error it' = ENone) \/
  (moved = true /\ exists J' r', it_inv it' J' r' /\ r' < r /\
     ((it_leaf it' = false /\ J' = J) \/
      (it_leaf it' = true /\ exists v, J = (it_path it', v) :: J' /\ it_leaf_blob it' = Ok v /\
         it_leaf_key it' = hex_to_keybytes (it_path it')))).
Proof.
  intros Hinv E. destruct Hinv as [|stack ms path J r Hne Hok EJ Er|stack path].
  - (* the root *)
    rewrite it_next_run in E.
    destruct (peek_root []) as (st & Ep & Hok & ER & Hrem). rewrite Ep in E.
    injection E as <- <-. right. split; [reflexivity|].
    exists (content_of m), (rem [st] [m]). split; [|split; [lia|]].
    + cbn [it_push]. apply (inv_run [st] [m] []); [discriminate|exact Hok|symmetry; exact ER|reflexivity].
    + left. split; reflexivity.
  - (* running *)
    rewrite it_next_run in E.
    assert (Ep : peek H d gen rh x (mkNiter true stack path ENone) true = peek_loop d gen stack path).
    { unfold peek. cbn [it_stack it_path]. destruct stack; [congruence|reflexivity]. }
    rewrite Ep in E. pose proof (peek_loop_spec stack ms path Hok) as S.
    destruct (peek_loop d gen stack path) as [stack' path' st hp np|stack' path' e].
    + destruct S as (-> & ms' & c & tl & rt & Hok' & Hne' & EJ' & _ & Er' & _ & Hcn & Hat & Hrc & Hok2 & ER2 & Erem2).
      apply pair_equal_spec in E as [<- <-]. right. split; [reflexivity|].
      exists (map (pre_key np) (pending c (-1)) ++ tl), (remf c (-1) + rt).
      split; [|split].
      * destruct (it_push_cons stack' st true) as (r0 & Epush).
        apply (inv_run _ (c :: ms') np); [rewrite Epush; discriminate|exact Hok2|symmetry; exact ER2|symmetry; exact Erem2].
      * pose proof (remf_lt c Hcn). lia.
      * unfold it_leaf. cbn [it_path]. destruct Hat as [(v & -> & Ht)|[Hc Hp]].
        -- right. split; [exact Ht|]. exists v. cbn [pending app].
           split; [rewrite EJ, EJ'; cbn [content_of map]; unfold pre_key; cbn [fst snd]; rewrite app_nil_r; reflexivity|].
           apply rep_val in Hrc.
           destruct (it_push_cons stack' st true) as (r0 & Epush).
           unfold it_leaf_blob, it_leaf_key. cbn [it_stack it_path]. rewrite Epush.
           destruct st as [sh sx spar si spl]. cbn [is_node] in Hrc. subst sx. split; reflexivity.
        -- left. split; [apply has_term_path; exact Hp|].
           rewrite pending_start; [rewrite EJ; symmetry; exact EJ'|]. intros v Ev. rewrite Ev in Hc. discriminate Hc.
    + destruct S as (-> & ER & _). injection E as <- <-. left. split; [reflexivity|].
      split; [rewrite EJ; exact ER|reflexivity].
  - (* finished *)
    rewrite it_next_end in E. injection E as <- <-.
    left. repeat split.
Qed.

(* Iterator.Next: the next leaf *)
Lemma kv_next_spec : forall fuel it J r, it_inv it J r -> r + 1 <= fuel ->
  match J with
  | [] => exists it', kv_next H fuel d gen rh x it = (Ok None, it')
  | kv :: tl => exists it' r',
      kv_next H fuel d gen rh x it =
        (match hex_to_keybytes (fst kv) with Ok kb => Ok (Some (kb, snd kv)) | _ => Panic end, it')
      /\ it_inv it' tl r' /\ r' < r
  end.
Proof.
  induction fuel as [|f IH]; intros it J r Hinv Hf; [lia|].
  rewrite kv_next_S. destruct (it_next H (S f) d gen rh x it true) as [moved it'] eqn:E.
  destruct (it_next_spec (S f) it J r moved it' Hinv E)
    as [(-> & -> & Ee)|(-> & J' & r' & Hinv' & Hlt & [[Hl ->]|(Hl & v & -> & Eb & Ek)])].
  - rewrite Ee. eexists. reflexivity.
  - rewrite Hl. pose proof (IH it' J r' Hinv' ltac:(lia)) as S. destruct J as [|kv tl]; [exact S|].
    destruct S as (it2 & r2 & E2 & I2 & L2). exists it2, r2. split; [exact E2|]. split; [exact I2|lia].
  - rewrite Hl, Ek, Eb. cbn [fst snd]. exists it', r'. split; [|split; assumption].
    destruct (hex_to_keybytes (it_path it')); reflexivity.
Qed.

Lemma kv_all_spec : forall fuel it J r, it_inv it J r -> r + 1 <= fuel ->
  kv_all H fuel d gen rh x it = keyed [] J.
Proof.
  induction fuel as [|f IH]; intros it J r Hinv Hf; [lia|].
  rewrite kv_all_S. pose proof (kv_next_spec (S f) it J r Hinv Hf) as S.
  destruct J as [|[k v] tl].
  - destruct S as (it' & ->). reflexivity.
  - destruct S as (it' & r' & -> & Hinv' & Hlt). cbn [fst snd]. rewrite keyed_cons. cbn [app fst snd].
    destruct (hex_to_keybytes_cases k) as [(kb & ->)| ->]; [|reflexivity].
    cbn [bind]. rewrite (IH it' tl r' Hinv') by lia. reflexivity.
Qed.

(* newNodeIterator without a start key: nothing is pushed *)
Lemma it_new_nil fuel : rh <> H [] -> 1 <= fuel ->
  it_new H fuel d gen rh x [] = mkNiter true [] [] ENone.
Proof.
  intros Hrh Hf. unfold it_new. apply bytes_eqb_neq in Hrh. rewrite Hrh.
  destruct fuel as [|f]; [lia|]. unfold it_seek. cbn [seek_loop it_path it_live].
  destruct (peek_root []) as (st & Ep & _).
  assert (Ed : is_prefix [] (removelast (keybytes_to_hex [])) = true) by reflexivity.
  rewrite Ed, Ep. reflexivity.
Qed.

Theorem kv_all_rep fuel : rh <> H [] -> nsize m + 2 <= fuel ->
  kv_all H fuel d gen rh x (it_new H fuel d gen rh x []) = keyed [] (content_of m).
Proof.
  intros Hrh Hf. rewrite it_new_nil by (try assumption; lia).
  apply (kv_all_spec fuel _ _ (S (nsize m))); [apply inv_init|lia].
Qed.

(* ------------------------------------------------------------------ (T3) seek *)

Lemma peek_run stack path descend : stack <> [] ->
  peek H d gen rh x (mkNiter true stack path ENone) descend =
  peek_loop d gen (fst (if descend then (stack, path) else it_pop stack path))
                  (snd (if descend then (stack, path) else it_pop stack path)).
Proof.
  intros Hne. unfold peek. cbn [it_stack it_path]. destruct stack as [|s0 st0]; [congruence|].
  destruct descend; reflexivity.
Qed.

Section Seek.
Variable key prefix : bytes.

Lemma seek_cont_spec f :
  (forall it J r, it_inv it J r -> it_err it = ENone ->
     (it_stack it <> [] -> bytes_ge (it_path it) key = false) -> r + 1 <= f ->
     exists J' r' pre, it_inv (seek_loop H f d gen rh x key prefix it) J' r' /\ r' <= r /\
                       J = pre ++ J' /\ below_key key pre /\ head_ge key J') ->
  forall S0 ms0 p0, stk_ok S0 ms0 p0 -> rem S0 ms0 <= f ->
  exists J' r' pre,
    it_inv (seek_cont H f d gen rh x key prefix true ENone (peek_loop d gen S0 p0)) J' r' /\
    r' <= rem S0 ms0 /\ rest S0 ms0 p0 = pre ++ J' /\ below_key key pre /\ head_ge key J'.
Proof.
  intros IH S0 ms0 p0 Hok Hf. pose proof (peek_loop_spec S0 ms0 p0 Hok) as S.
  destruct (peek_loop d gen S0 p0) as [stack' path' st hp np|stack' path' e].
  - destruct S as (-> & ms' & c & tl & rt & Hok' & Hne' & EJ' & ER' & Er' & Erem' & Hcn & Hat & Hrc & Hok2 & ER2 & Erem2).
    cbn [seek_cont]. destruct (bytes_ge np key) eqn:Eg.
    + exists (rest S0 ms0 p0), (rem S0 ms0), []. split; [|split; [lia|split; [reflexivity|split; [constructor|]]]].
      * apply (inv_run stack' ms' path'); [exact Hne'|exact Hok'|congruence|congruence].
      * rewrite EJ'. destruct Hat as [(v & -> & Ht)|[Hc Hp]].
        -- cbn [content_of map app head_ge pre_key fst]. apply bytes_ge_ext_true. exact Eg.
        -- pose proof (canon_content_ne c Hc) as Hne. destruct (content_of c) as [|[k0 v0] J0]; [congruence|].
           cbn [map app head_ge pre_key fst]. apply bytes_ge_ext_true. exact Eg.
    + destruct (it_push_cons stack' st true) as (r0 & Epush).
      destruct (IH (mkNiter true (it_push stack' st true) np ENone)
                   (map (pre_key np) (pending c (-1)) ++ tl) (remf c (-1) + rt)) as (J' & r' & pre & Hinv & Hle & EJ & Hpre & Hhd).
      * apply (inv_run _ (c :: ms') np); [rewrite Epush; discriminate|exact Hok2|symmetry; exact ER2|symmetry; exact Erem2].
      * reflexivity.
      * intros _. exact Eg.
      * pose proof (remf_lt c Hcn). lia.
      * pose proof (remf_lt c Hcn) as Hlt. destruct Hat as [(v & -> & Ht)|[Hc Hp]].
        -- exists J', r', ((np, v) :: pre). split; [exact Hinv|]. split; [lia|]. split; [|split; [|exact Hhd]].
           ++ rewrite EJ'. cbn [content_of map pending app] in EJ |- *. unfold pre_key. cbn [fst snd].
              rewrite app_nil_r, EJ. reflexivity.
           ++ constructor; [exact Eg|exact Hpre].
        -- exists J', r', pre. split; [exact Hinv|]. split; [lia|]. split; [|split; assumption].
           rewrite EJ', <- EJ. rewrite pending_start; [reflexivity|]. intros v Ev. rewrite Ev in Hc. discriminate Hc.
  - destruct S as (-> & ER & Erem). cbn [seek_cont]. exists [], 0, []. split; [apply inv_end|].
    split; [lia|]. split; [exact ER|]. split; constructor.
Qed.

Lemma seek_spec : forall fuel it J r, it_inv it J r -> it_err it = ENone ->
  (it_stack it <> [] -> bytes_ge (it_path it) key = false) -> r + 1 <= fuel ->
  exists J' r' pre, it_inv (seek_loop H fuel d gen rh x key prefix it) J' r' /\ r' <= r /\
                    J = pre ++ J' /\ below_key key pre /\ head_ge key J'.
Proof.
  induction fuel as [|f IH]; intros it J r Hinv Herr Hlt Hf; [lia|].
  rewrite seek_loop_S. destruct Hinv as [|stack ms path J r Hne Hok EJ Er|stack path]; [| |discriminate Herr].
  - (* before the root is pushed *)
    cbn [it_path it_live it_err]. destruct (peek_root []) as (st & Ep & Hok & ER & Hrem).
    assert (Ed : is_prefix [] key = true) by reflexivity. rewrite Ed, Ep. cbn [seek_cont].
    destruct key as [|b key'] eqn:Ekey.
    + exists (content_of m), (S (nsize m)), []. split; [apply inv_init|]. split; [lia|]. split; [reflexivity|].
      split; [constructor|]. destruct (content_of m); [exact I|apply bytes_ge_nil_r].
    + change (bytes_ge [] (b :: key')) with false. cbn iota. rewrite <- Ekey in *.
      destruct (IH (mkNiter true (it_push [] st false) [] ENone) (content_of m) (rem [st] [m])) as (J' & r' & pre & Hinv & Hle & EJ & Hpre & Hhd).
      * apply (inv_run [st] [m] []); [discriminate|exact Hok|symmetry; exact ER|reflexivity].
      * reflexivity.
      * intros _. rewrite Ekey. reflexivity.
      * lia.
      * exists J', r', pre. split; [exact Hinv|]. split; [lia|]. split; [exact EJ|]. split; assumption.
  - (* running *)
    cbn [it_path it_live it_err it_stack] in *. specialize (Hlt Hne).
    rewrite (peek_run stack path (is_prefix path key) Hne).
    destruct (is_prefix path key) eqn:Epre; cbn [fst snd].
    + destruct (seek_cont_spec f IH stack ms path Hok ltac:(lia)) as (J' & r' & pre & Hinv & Hle & EJ' & Hpre & Hhd).
      exists J', r', pre. split; [exact Hinv|]. split; [lia|]. split; [congruence|]. split; assumption.
    + destruct stack as [|st0 below]; [congruence|]. destruct ms as [|m0 ms']; [contradiction|].
      destruct Hok as [Hf0 Hbelow]. cbn [it_pop fst snd].
      destruct (seek_cont_spec f IH below ms' _ Hbelow) as (J' & r' & pre & Hinv & Hle & EJ' & Hpre & Hhd).
      { cbn [rem] in Er. lia. }
      exists J', r', (map (pre_key path) (pending m0 (is_index st0)) ++ pre).
      split; [exact Hinv|]. split; [cbn [rem] in Er; lia|]. split; [|split; [|exact Hhd]].
      * rewrite EJ. cbn [rest]. rewrite EJ', app_assoc. reflexivity.
      * apply Forall_app. split; [|exact Hpre]. apply Forall_forall. intros kv Hin.
        apply in_map_iff in Hin as ([k0 v0] & <- & _). unfold pre_key. cbn [fst].
        apply bytes_ge_ext_false; assumption.
Qed.
End Seek.

Lemma root_sorted : StronglySorted path_lt (map fst (content_of m)).
Proof.
  pose proof root_shape as [E|[[v E]|Hc]].
  - rewrite E. constructor.
  - exfalso. exact (root_not_val v E).
  - apply content_sorted. exact Hc.
Qed.

(* iteration from a start key: exactly the entries whose path is >= the start, in order *)
Theorem kv_all_seek_rep fuel k : rh <> H [] -> nsize m + 2 <= fuel ->
  kv_all H fuel d gen rh x (it_new H fuel d gen rh x k) =
  keyed [] (filter (fun kv => bytes_ge (fst kv) (removelast (keybytes_to_hex k))) (content_of m)).
Proof.
  intros Hrh Hf. unfold it_new. apply bytes_eqb_neq in Hrh. rewrite Hrh. unfold it_seek.
  destruct (seek_spec (removelast (keybytes_to_hex k)) k fuel (mkNiter true [] [] ENone) (content_of m) (S (nsize m)))
    as (J' & r' & pre & Hinv & Hle & EJ & Hpre & Hhd).
  - apply inv_init.
  - reflexivity.
  - intros Hne. exfalso. apply Hne. reflexivity.
  - lia.
  - rewrite (kv_all_spec fuel _ J' r' Hinv) by lia. f_equal.
    pose proof root_sorted as Hs. rewrite EJ in Hs |- *. symmetry.
    apply filter_sorted_suffix; assumption.
Qed.

End Peek.
(* ------------------------------------------------------------------ (T1) a loaded trie *)

Theorem kv_all_loaded : forall fuel gen rh m,
  canon_root m = true -> rh <> H [] -> nsize m + 2 <= fuel ->
  kv_all H fuel d gen rh m (it_new H fuel d gen rh m []) = keyed [] (content_of m).
Proof. intros fuel gen rh m Hr Hrh Hf. exact (kv_all_rep gen rh m m Hr (rep_same m) fuel Hrh Hf). Qed.

(* ------------------------------------------------------------------ (T2) through hash nodes *)

Theorem kv_all_lazy : forall fuel gen rh s m x,
  canon_root m = true -> lzf H d s m x -> rh <> H [] -> nsize m + 2 <= fuel ->
  kv_all H fuel d gen rh x (it_new H fuel d gen rh x []) = keyed [] (content_of m).
Proof. intros fuel gen rh s m x Hr Hu Hrh Hf. exact (kv_all_rep gen rh m x Hr (rep_lz s m x Hu) fuel Hrh Hf). Qed.

(* ------------------------------------------------------------------ (T3) from a start key *)

Theorem kv_all_seek_loaded : forall fuel gen rh m k,
  canon_root m = true -> rh <> H [] -> nsize m + 2 <= fuel ->
  kv_all H fuel d gen rh m (it_new H fuel d gen rh m k) =
  keyed [] (filter (fun kv => bytes_ge (fst kv) (removelast (keybytes_to_hex k))) (content_of m)).
Proof. intros fuel gen rh m k Hr Hrh Hf. exact (kv_all_seek_rep gen rh m m Hr (rep_same m) fuel k Hrh Hf). Qed.

Theorem kv_all_seek_lazy : forall fuel gen rh s m x k,
  canon_root m = true -> lzf H d s m x -> rh <> H [] -> nsize m + 2 <= fuel ->
  kv_all H fuel d gen rh x (it_new H fuel d gen rh x k) =
  keyed [] (filter (fun kv => bytes_ge (fst kv) (removelast (keybytes_to_hex k))) (content_of m)).
Proof.
  intros fuel gen rh s m x k Hr Hu Hrh Hf.
  exact (kv_all_seek_rep gen rh m x Hr (rep_lz s m x Hu) fuel k Hrh Hf).
Qed.

End Iter.

(* ================================================================== (T4) the trie level *)

Section TrieLevel.
Variable H : bytes -> bytes.
Hypothesis Hlen : forall x, length (H x) = 32%nat.
Hypothesis Hcf : forall m1 m2, canon m1 = true -> canon m2 = true ->
  H (spec_enc H m1) = H (spec_enc H m2) -> spec_enc H m1 = spec_enc H m2.

(* NewIterator(t.NodeIterator(start)) drained: the entries with path >= start, in order.
   The root hash must differ from keccak256(nil) (newNodeIterator's emptyState test). *)
Theorem trie_iterate_from_lazy : forall d m t start fuel,
  lazy_trie H d m t -> all_fits H m -> db_sound H d ->
  mpt_root_hex H (content_of m) <> H [] -> nsize m + 2 <= fuel ->
  exists t', lazy_trie H d m t' /\
    trie_iterate_from H t d start fuel =
    bind (keyed [] (filter (fun kv => bytes_ge (fst kv) (removelast (keybytes_to_hex start))) (content_of m)))
         (fun l => Ok (l, t')).
Proof.
  intros d m t start fuel HL Hfit Hsd Hrh Hf.
  destruct (TrieLazyCommitProofs.trie_hash_lazy H Hlen Hcf d m t HL Hfit Hsd) as (t' & E & HL').
  exists t'. split; [exact HL'|]. unfold trie_iterate_from. rewrite E. cbn [bind]. cbv zeta.
  destruct HL' as (Hcr & Hu & _).
  rewrite (kv_all_seek_lazy H Hlen d fuel (tgen t') _ false m (troot t') start Hcr Hu Hrh Hf). reflexivity.
Qed.

Corollary trie_iterate_from_ok : forall d m t start fuel l,
  lazy_trie H d m t -> all_fits H m -> db_sound H d ->
  mpt_root_hex H (content_of m) <> H [] -> nsize m + 2 <= fuel ->
  keyed [] (filter (fun kv => bytes_ge (fst kv) (removelast (keybytes_to_hex start))) (content_of m)) = Ok l ->
  exists t', trie_iterate_from H t d start fuel = Ok (l, t') /\ lazy_trie H d m t'.
Proof.
  intros d m t start fuel l HL Hfit Hsd Hrh Hf Ek.
  destruct (trie_iterate_from_lazy d m t start fuel HL Hfit Hsd Hrh Hf) as (t' & HL' & E).
  exists t'. split; [|exact HL']. rewrite E, Ek. reflexivity.
Qed.

(* without a start key the state machine agrees with the recursive model trie_iterate *)
Theorem trie_iterate_from_nil : forall d m t fuel,
  lazy_trie H d m t -> all_fits H m -> db_sound H d ->
  mpt_root_hex H (content_of m) <> H [] -> nsize m + 2 <= fuel ->
  max_key_len (content_of m) <= 98 ->
  trie_iterate_from H t d [] fuel = trie_iterate H t d.
Proof.
  intros d m t fuel HL Hfit Hsd Hrh Hf Hm.
  destruct (TrieLazyCommitProofs.trie_hash_lazy H Hlen Hcf d m t HL Hfit Hsd) as (t' & E & HL').
  unfold trie_iterate_from, trie_iterate. rewrite E. cbn [bind]. cbv zeta.
  rewrite (leaves_lazy_trie H Hlen d m t' HL' Hm).
  destruct HL' as (Hcr & Hu & _).
  rewrite (kv_all_lazy H Hlen d fuel (tgen t') _ false m (troot t') Hcr Hu Hrh Hf). reflexivity.
Qed.

End TrieLevel.
