(* Trie/TrieVerifyProofs.v — soundness of proof.go VerifyProof for EVERY set of
   proof nodes: whatever VerifyProof returns against the root hash of a
   canonical trie is that trie's answer (value, or proven absence).  The proof
   nodes are arbitrary byte strings (so this covers every altered proof).
   Premises: the codec round trip (roundtrip_stmt, proved in TrieCodecProofs.v),
   and collision freedom of H on the strings actually compared. *)
From Coq Require Import ZifyBool ZifyN ZifyNat.
From AQ Require Import Lib.Bytes Rlp.RlpSpec Rlp.RlpProofs Trie.MptSpec Trie.TrieModel Trie.TrieInv
  Trie.TrieProofs Trie.TrieCodecDefs Trie.TrieDecodeProofs.
From AQ Require Trie.TrieRootProofs Trie.TrieCodecProofs.
Local Open Scope N_scope.

Section VerifySound.
Variable H : bytes -> bytes.
Hypothesis Hlen : forall x, length (H x) = 32%nat.
Hypothesis Hrt : roundtrip_stmt H.
Variable root_node : node.
Hypothesis Hcanon : canon root_node = true.
Hypothesis Hfits : all_fits H root_node.
Variable nodes : list bytes.
Hypothesis Hcf : forall buf m, In buf nodes -> canon m = true ->
  H buf = H (spec_enc H m) -> buf = spec_enc H m.

(* ------------------------------------------------------------------ 1. the proof db, to_hash *)

Lemma to_hash_H x : to_hash (H x) = H x.
Proof. unfold to_hash, left_pad. rewrite Hlen. reflexivity. Qed.

Lemma db_get_proof_db l want buf :
  db_get (proof_db_of H l) want = Some buf -> In buf l /\ H buf = want.
Proof.
  unfold proof_db_of. induction l as [|e t IH]; cbn [map db_get]; [discriminate|].
  destruct (bytes_eqb_spec (H e) want) as [E|_].
  - intros X. injection X as <-. split; [now left|exact E].
  - intros X. destruct (IH X) as [A B]. split; [now right|exact B].
Qed.

(* ------------------------------------------------------------------ one-step unfoldings *)

Lemma dec_node_short gen hash k c f :
  dec_node H gen hash (NShort k c f) = NShort k (dec_child H gen c) (mkFlag hash gen false).
Proof. reflexivity. Qed.
Lemma dec_node_full gen hash cs f :
  dec_node H gen hash (NFull cs f) = NFull (map (dec_child H gen) cs) (mkFlag hash gen false).
Proof. reflexivity. Qed.
Lemma dec_child_canon gen c : canon c = true ->
  dec_child H gen c = if big H c then NHash (H (spec_enc H c)) else dec_node H gen None c.
Proof. destruct c; intros Hc; try discriminate Hc; reflexivity. Qed.

Lemma all_fits_short k c f : all_fits H (NShort k c f) ->
  fits (spec_item H (NShort k c f)) = true /\ all_fits H c.
Proof. intros X. exact X. Qed.
Lemma all_fits_go_Forall cs :
  (fix go (l : list node) : Prop :=
     match l with [] => True | x :: t => all_fits H x /\ go t end) cs ->
  Forall (all_fits H) cs.
Proof. induction cs as [|x t IH]; [constructor|]. intros [B1 B2]. constructor; auto. Qed.
Lemma all_fits_full cs f : all_fits H (NFull cs f) ->
  fits (spec_item H (NFull cs f)) = true /\ Forall (all_fits H) cs.
Proof. intros [A B]. split; [exact A|]. now apply all_fits_go_Forall. Qed.
Lemma all_fits_canon_fits m : canon m = true -> all_fits H m -> fits (spec_item H m) = true.
Proof.
  destruct m as [|k c f|cs f|h|v]; intros Hc Hf; try discriminate Hc.
  - now apply all_fits_short in Hf as [A _].
  - now apply all_fits_full in Hf as [A _].
Qed.

Lemma verify_loop_S fuel pdb want key :
  verify_loop (S fuel) pdb want key =
    match db_get pdb want with
    | None => Err
    | Some [] => Err
    | Some buf =>
      bind (decode_node_top (Some want) buf 0) (fun n =>
        match proof_get (2 * length key + 40) n key with
        | GNil => Ok None
        | GVal v => Ok (Some v)
        | GHash keyrest h => verify_loop fuel pdb (to_hash h) keyrest
        | GPanic => Panic
        | GFuel => OutOfFuel
        end)
    end.
Proof. reflexivity. Qed.

(* ------------------------------------------------------------------ 2. the walk over a decoded node *)

(* what proof.go get may answer on the decoded form of a canonical node m *)
Definition walk_ok (m : node) (key : bytes) (r : getres) : Prop :=
  match r with
  | GNil => lookup (content_of m) key = None
  | GVal v => lookup (content_of m) key = Some v
  | GHash kr h =>
    exists m', canon m' = true /\ all_fits H m' /\ h = H (spec_enc H m') /\ tkeyb kr = true /\
               lookup (content_of m) key = lookup (content_of m') kr
  | GPanic => False
  | GFuel => True
  end.

Lemma walk_ok_transfer m key c key' r :
  lookup (content_of m) key = lookup (content_of c) key' -> walk_ok c key' r -> walk_ok m key r.
Proof. intros E. destruct r; cbn [walk_ok]; try rewrite E; auto. Qed.

Lemma walk_nil fuel key : walk_ok NNil key (proof_get fuel NNil key).
Proof. destruct fuel; [exact I|]. rewrite proof_get_S. reflexivity. Qed.
Lemma walk_val fuel v : walk_ok (NVal v) [] (proof_get fuel (NVal v) []).
Proof. destruct fuel; [exact I|]. rewrite proof_get_S. reflexivity. Qed.

Definition walk_node_at (gen : N) (fuel : nat) : Prop :=
  forall m hash key, canon m = true -> all_fits H m -> tkeyb key = true ->
    walk_ok m key (proof_get fuel (dec_node H gen hash m) key).

Lemma walk_child_of_node gen fuel : walk_node_at gen fuel ->
  forall c key, canon c = true -> all_fits H c -> tkeyb key = true ->
    walk_ok c key (proof_get fuel (dec_child H gen c) key).
Proof.
  intros IH c key Hc Hf Hk. rewrite (dec_child_canon gen c Hc). destruct (big H c).
  - destruct fuel; [exact I|]. rewrite proof_get_S. cbn [walk_ok]. exists c.
    repeat split; auto.
  - apply IH; auto.
Qed.

Lemma walk_node gen : forall fuel, walk_node_at gen fuel.
Proof using.
  induction fuel as [|fuel IH]; intros m hash key Hc Hf Hk; [exact I|].
  pose proof (walk_child_of_node gen fuel IH) as IHc.
  destruct m as [|k c f|cs f|h|v]; try discriminate Hc.
  - (* short node *)
    rewrite dec_node_short, proof_get_S.
    apply all_fits_short in Hf as [_ Hfc].
    pose proof (lookup_pre_key k (content_of c) key) as L.
    change (map (pre_key k) (content_of c)) with (content_of (NShort k c f)) in L.
    destruct (has_prefix key k) eqn:Hp; cbn [negb].
    + apply canon_short_inv in Hc as [_ [(v & -> & Ht & _)|(cs & f' & -> & Hpath & Hcc)]].
      * assert (key = k) by (apply tkeyb_prefix_eq; auto). subst key.
        rewrite skipn_all in L |- *. eapply walk_ok_transfer; [exact L|].
        change (dec_child H gen (NVal v)) with (NVal v). apply walk_val.
      * eapply walk_ok_transfer; [exact L|]. apply IHc; auto. apply tkeyb_skip_path; auto.
    + cbn [walk_ok]. exact L.
  - (* full node *)
    rewrite dec_node_full, proof_get_S.
    apply all_fits_full in Hf as [_ Hfa].
    apply canon_full_iff in Hc as (Hl & Hs & _).
    destruct key as [|k0 kr]; [discriminate Hk|].
    assert (Hi : (nidx k0 < 17)%nat).
    { destruct (tkeyb_cons _ _ Hk) as [[_ ->]|(_ & Hb & _)];
        [rewrite nidx_term; clear; lia|apply nibb_nidx in Hb; clear - Hb; lia]. }
    rewrite get_child_ok by (rewrite map_length, Hl; exact Hi).
    assert (En : nth (nidx k0) (map (dec_child H gen) cs) NNil
                 = dec_child H gen (nth (nidx k0) cs NNil)).
    { change NNil with (dec_child H gen NNil) at 1. apply map_nth. }
    rewrite En. clear En.
    pose proof (lookup_full cs f k0 kr Hl) as L.
    destruct (Nat.ltb_spec (nidx k0) 17) as [_|Hge]; [|clear - Hi Hge; lia].
    eapply walk_ok_transfer; [exact L|]. clear L.
    specialize (Hs _ Hi). unfold slot_ok in Hs.
    assert (Hfc : all_fits H (nth (nidx k0) cs NNil)).
    { rewrite Forall_forall in Hfa. apply Hfa. apply nth_In. rewrite Hl. exact Hi. }
    apply tkeyb_cons in Hk as [[-> ->]|(_ & Hb & Hkr)].
    + rewrite nidx_term in Hs, Hfc |- *. cbn [Nat.ltb Nat.leb] in Hs.
      destruct (nth 16 cs NNil) as [| | | |v]; try discriminate Hs.
      * apply walk_nil.
      * apply walk_val.
    + apply nibb_nidx in Hb. destruct (Nat.ltb_spec (nidx k0) 16) as [_|Hge]; [|clear - Hb Hge; lia].
      apply orb_true_iff in Hs as [Hs|Hs].
      * destruct (nth (nidx k0) cs NNil); try discriminate Hs. apply walk_nil.
      * apply IHc; auto.
Qed.

(* ------------------------------------------------------------------ 3. the VerifyProof loop *)

Lemma verify_loop_sound : forall fuel m want key v,
  canon m = true -> all_fits H m -> want = H (spec_enc H m) -> tkeyb key = true ->
  verify_loop fuel (proof_db_of H nodes) want key = Ok v ->
  v = lookup (content_of m) key.
Proof using Hlen Hrt Hcf.
  induction fuel as [|fuel IH]; intros m want key v Hc Hf Hw Hk; [discriminate|].
  rewrite verify_loop_S.
  destruct (db_get (proof_db_of H nodes) want) as [buf|] eqn:Eg; [|discriminate].
  apply db_get_proof_db in Eg as [Hin Hh].
  assert (Eb : buf = spec_enc H m) by (apply Hcf; auto; congruence).
  destruct (encode_nonempty (spec_item H m)) as (b0 & bt & Ee).
  assert (Eb' : buf = b0 :: bt) by (rewrite Eb; exact Ee).
  rewrite Eb'. cbv iota. rewrite <- Eb', Eb.
  rewrite (Hrt m (Some want) 0 Hc (all_fits_canon_fits m Hc Hf)). cbn [bind].
  pose proof (walk_node 0 (2 * length key + 40) m (Some want) key Hc Hf Hk) as W.
  destruct (proof_get (2 * length key + 40) (dec_node H 0 (Some want) m) key) as [|kr h|v'| |];
    cbn [walk_ok] in W.
  - intros X. injection X as <-. symmetry. exact W.
  - destruct W as (m' & Hc' & Hf' & Eh & Hkr & El). intros X. rewrite El.
    apply (IH m' (to_hash h) kr v); auto. rewrite Eh. apply to_hash_H.
  - intros X. injection X as <-. symmetry. exact W.
  - contradiction.
  - discriminate.
Qed.

(* ------------------------------------------------------------------ 4. VerifyProof *)

Theorem verify_sound : forall key v,
  verify_proof (H (spec_enc H root_node)) key (proof_db_of H nodes) = Ok v ->
  v = lookup (content_of root_node) (keybytes_to_hex key).
Proof.
  intros key v X. unfold verify_proof in X.
  eapply verify_loop_sound;
    [exact Hcanon|exact Hfits|reflexivity|apply tkeyb_keybytes_to_hex|exact X].
Qed.

(* the committed root, written as the specification root of the content *)
Lemma mpt_root_hex_spec_enc : mpt_root_hex H (content_of root_node) = H (spec_enc H root_node).
Proof using Hcanon.
  unfold mpt_root_hex, spec_enc, spec_item.
  pose proof (TrieRootProofs.canon_content_ne root_node Hcanon) as Hne.
  destruct (content_of root_node); [congruence|reflexivity].
Qed.

Theorem verify_sound_root : forall key v,
  verify_proof (mpt_root_hex H (content_of root_node)) key (proof_db_of H nodes) = Ok v ->
  v = lookup (content_of root_node) (keybytes_to_hex key).
Proof. intros key v. rewrite mpt_root_hex_spec_enc. apply verify_sound. Qed.

End VerifySound.

(* ------------------------------------------------------------------ with the round trip discharged *)

(* TrieCodecProofs.roundtrip proves roundtrip_stmt for every 32-byte H: the
   remaining premises are the canonical loaded trie, header sizes within 64
   bits, and collision freedom of H on the strings compared. *)
Theorem verify_sound_closed : forall (H : bytes -> bytes),
  (forall x, length (H x) = 32%nat) ->
  forall root_node, canon root_node = true -> all_fits H root_node ->
  forall nodes : list bytes,
  (forall buf m, In buf nodes -> canon m = true ->
     H buf = H (spec_enc H m) -> buf = spec_enc H m) ->
  forall key v,
    verify_proof (mpt_root_hex H (content_of root_node)) key (proof_db_of H nodes) = Ok v ->
    v = lookup (content_of root_node) (keybytes_to_hex key).
Proof.
  intros H Hlen root_node Hc Hf nodes Hcf.
  exact (verify_sound_root H Hlen (TrieCodecProofs.roundtrip H Hlen) root_node Hc Hf nodes Hcf).
Qed.
