(* Trie/TrieModel.v — executable, code-shaped model of /repo/trie:
   encoding.go (hex / compact keys), node.go (decodeNode ...), trie.go
   (tryGet / insert / delete / resolveHash / Hash / Commit / New), hasher.go
   (hash / hashChildren / store, cache generations and unloading), proof.go
   (Prove / VerifyProof / get), iterator.go (leaf iteration, as the traversal it
   performs).  Nibbles are bytes 0..16 as in the Go code (16 = terminator).
   The hash function is a parameter H (Section variable); the extraction
   instantiates it with Lib.Keccak.keccak256.  A Go panic is the result value
   [Panic]; a MissingNodeError is [Missing]; a decode error is [Err].
   No proofs in this file: it is extracted. *)
From AQ Require Import Lib.Bytes Rlp.RlpSpec.
Local Open Scope N_scope.

Inductive res (A : Type) := Ok (a : A) | Err | Missing | Panic | OutOfFuel.
Arguments Ok {A} a. Arguments Err {A}. Arguments Missing {A}.
Arguments Panic {A}. Arguments OutOfFuel {A}.

Definition bind {A B} (r : res A) (f : A -> res B) : res B :=
  match r with Ok a => f a | Err => Err | Missing => Missing | Panic => Panic | OutOfFuel => OutOfFuel end.

(* node.go nodeFlag: cached hash (nil = None), cache generation (uint16), dirty *)
Record flag := mkFlag { fhash : option bytes; fgen : N; fdirty : bool }.

(* node.go: nil | *shortNode | *fullNode | hashNode | valueNode *)
Inductive node :=
| NNil
| NShort (k : bytes) (c : node) (f : flag)
| NFull (cs : list node) (f : flag)       (* always 17 children *)
| NHash (h : bytes)
| NVal (v : bytes).

(* ------------------------------------------------------------------ encoding.go *)

Definition term : byte := x10.

(* keybytesToHex *)
Fixpoint keybytes_to_hex (s : bytes) : bytes :=
  match s with
  | [] => [term]
  | b :: t => n2b (b2n b / 16) :: n2b (b2n b mod 16) :: keybytes_to_hex t
  end.

(* hasTerm *)
Definition has_term (s : bytes) : bool :=
  match s with [] => false | _ => byte_eqb (last s x00) term end.

(* decodeNibbles (only ever called on an even number of nibbles; byte arithmetic wraps) *)
Fixpoint decode_nibbles (nib : bytes) : bytes :=
  match nib with
  | a :: b :: t => n2b (N.lor ((b2n a * 16) mod 256) (b2n b)) :: decode_nibbles t
  | _ => []
  end.

(* hexToCompact *)
Definition hex_to_compact (hex : bytes) : bytes :=
  let t := has_term hex in
  let hex := if t then removelast hex else hex in
  let fl : N := if t then 32 else 0 in
  if Nat.odd (length hex) then
    match hex with
    | h :: rest => n2b (N.lor (N.lor fl 16) (b2n h)) :: decode_nibbles rest
    | [] => [n2b fl]
    end
  else n2b fl :: decode_nibbles hex.

(* compactToHex: an empty compact key is returned as it is (len(compact) == 0);
   otherwise base has at least two nibbles, so base[0] and base[chop:] are in range *)
Definition compact_to_hex (c : bytes) : bytes :=
  match c with
  | [] => []
  | _ =>
    let base := removelast (keybytes_to_hex c) in
    match base with
    | [] => []                                         (* unreachable: c is non-empty *)
    | b0 :: _ =>
      let base := if 2 <=? b2n b0 then base ++ [term] else base in
      let chop := 2 - N.land (b2n b0) 1 in
      skipn (N.to_nat chop) base
    end
  end.

(* hexToKeybytes: panics on odd length *)
Definition hex_to_keybytes (hex : bytes) : res bytes :=
  let hex := if has_term hex then removelast hex else hex in
  if Nat.odd (length hex) then Panic else Ok (decode_nibbles hex).

(* prefixLen *)
Fixpoint prefix_len (a b : bytes) : nat :=
  match a, b with
  | x :: a', y :: b' => if byte_eqb x y then S (prefix_len a' b') else O
  | _, _ => O
  end.

(* bytes.Equal(n.Key, key[:len(n.Key)]) guarded by the length test *)
Definition has_prefix (key pre : bytes) : bool :=
  Nat.leb (length pre) (length key) && bytes_eqb pre (firstn (length pre) key).

(* index of a nibble into fullNode.Children; >= 17 is an index-out-of-range panic *)
Definition nidx (b : byte) : nat := N.to_nat (b2n b).
Definition get_child (cs : list node) (b : byte) : res node :=
  match nth_error cs (nidx b) with Some c => Ok c | None => Panic end.
Fixpoint set_nth (l : list node) (i : nat) (x : node) : list node :=
  match l, i with
  | [], _ => []
  | _ :: t, O => x :: t
  | h :: t, S i' => h :: set_nth t i' x
  end.
Definition set_child (cs : list node) (b : byte) (x : node) : res (list node) :=
  if Nat.ltb (nidx b) (length cs) then Ok (set_nth cs (nidx b) x) else Panic.
Definition empty_children : list node := repeat NNil 17.

Definition is_nil (n : node) : bool := match n with NNil => true | _ => false end.

(* ------------------------------------------------------------------ node.go decoding *)

(* rlp.SplitString / rlp.SplitList over raw.go Split (RlpSpec.split) *)
Definition split_string (b : bytes) : option (bytes * bytes) :=
  match split b with Some (KStr, c, r) => Some (c, r) | _ => None end.
Definition split_list (b : bytes) : option (bytes * bytes) :=
  match split b with Some (KLst, c, r) => Some (c, r) | _ => None end.
(* c, _ := rlp.CountValues(elems): the error is dropped, the count is then 0 *)
Definition count_or_0 (b : bytes) : N := match count_values b with Some n => n | None => 0 end.

(* decodeNode / decodeShort / decodeFull / decodeRef.  fuel bounds the nesting of
   embedded nodes (each level consumes at least one header byte). *)
Fixpoint decode_node (fuel : nat) (hash : option bytes) (buf : bytes) (gen : N) {struct fuel} : res node :=
  match fuel with
  | O => OutOfFuel
  | S fuel' =>
    let decode_ref (buf : bytes) : res (node * bytes) :=
      match split buf with
      | None => Err
      | Some (KLst, _, rest) =>
        if Nat.ltb 32 (length buf - length rest) then Err
        else bind (decode_node fuel' None buf gen) (fun n => Ok (n, rest))
      | Some (KStr, val, rest) =>
        match length val with
        | O => Ok (NNil, rest)
        | 32%nat => Ok (NHash val, rest)
        | _ => Err
        end
      end in
    match buf with
    | [] => Err
    | _ =>
      match split_list buf with
      | None => Err
      | Some (elems, _) =>
        let c := count_or_0 elems in
        if c =? 2 then
          (* decodeShort *)
          match split_string elems with
          | None => Err
          | Some (kbuf, rest) =>
            let fl := mkFlag hash gen false in
            let key := compact_to_hex kbuf in
            if has_term key then
              match split_string rest with
              | None => Err
              | Some (val, _) => Ok (NShort key (NVal val) fl)
              end
            else bind (decode_ref rest) (fun '(r, _) => Ok (NShort key r fl))
          end
        else if c =? 17 then
          (* decodeFull *)
          let fl := mkFlag hash gen false in
          (fix go (i : nat) (elems : bytes) (acc : list node) {struct i} : res node :=
             match i with
             | O =>
               match split_string elems with
               | None => Err
               | Some (val, _) =>
                 Ok (NFull (rev acc ++ [match val with [] => NNil | _ => NVal val end]) fl)
               end
             | S i' => bind (decode_ref elems) (fun '(cld, rest) => go i' rest (cld :: acc))
             end) 16%nat elems []
        else Err
      end
    end
  end.

Definition decode_node_top (hash : option bytes) (buf : bytes) (gen : N) : res node :=
  decode_node (S (length buf)) hash buf gen.

(* ------------------------------------------------------------------ database (trie.Database.Node / insert) *)

(* "a node is readable from the memory layer or from disk": one association list *)
Definition db := list (bytes * bytes).
Fixpoint db_get (d : db) (h : bytes) : option bytes :=
  match d with
  | [] => None
  | (k, v) :: t => if bytes_eqb k h then Some v else db_get t h
  end.
(* Database.insert: keeps the existing blob if the hash is already present *)
Definition db_put (d : db) (kv : bytes * bytes) : db :=
  match db_get d (fst kv) with Some _ => d | None => d ++ [kv] end.
Definition db_put_all (d : db) (w : list (bytes * bytes)) : db := fold_left db_put w d.

(* common.BytesToHash *)
Definition to_hash (b : bytes) : bytes := left_pad 32 b.

(* trie.go resolveHash + mustDecodeNode (a decode error there is a panic) *)
Definition resolve_hash (d : db) (h : bytes) (gen : N) : res node :=
  match db_get d (to_hash h) with
  | None => Missing
  | Some [] => Missing      (* trie.Database returns a nil blob: "enc == nil" *)
  | Some enc =>
    match decode_node_top (Some h) enc gen with
    | Ok n => Ok n
    | OutOfFuel => OutOfFuel
    | _ => Panic
    end
  end.

(* trie.go resolve *)
Definition resolve (d : db) (n : node) (gen : N) : res node :=
  match n with NHash h => resolve_hash d h gen | _ => Ok n end.

(* ------------------------------------------------------------------ trie.go *)

(* newFlag *)
Definition new_flag (gen : N) : flag := mkFlag None gen true.

(* tryGet; the key argument is key[pos:].  Result: value (nil = None), new node, didResolve *)
Fixpoint try_get (fuel : nat) (d : db) (gen : N) (n : node) (key : bytes) {struct fuel}
  : res (option bytes * node * bool) :=
  match fuel with
  | O => OutOfFuel
  | S fuel' =>
    match n with
    | NNil => Ok (None, NNil, false)
    | NVal v => Ok (Some v, n, false)
    | NShort nk nv f =>
      if negb (has_prefix key nk) then Ok (None, n, false)
      else
        bind (try_get fuel' d gen nv (skipn (length nk) key)) (fun '(v, nn, did) =>
          if did then Ok (v, NShort nk nn (mkFlag (fhash f) gen (fdirty f)), did)
          else Ok (v, n, did))
    | NFull cs f =>
      match key with
      | [] => Panic
      | k0 :: krest =>
        bind (get_child cs k0) (fun c =>
        bind (try_get fuel' d gen c krest) (fun '(v, nn, did) =>
          if did then bind (set_child cs k0 nn) (fun cs' => Ok (v, NFull cs' (mkFlag (fhash f) gen (fdirty f)), did))
          else Ok (v, n, did)))
      end
    | NHash h =>
      bind (resolve_hash d h gen) (fun child =>
      bind (try_get fuel' d gen child key) (fun '(v, nn, _) => Ok (v, nn, true)))
    end
  end.

(* insert(n, prefix, key, value): result (dirty, node) *)
Fixpoint insert (fuel : nat) (d : db) (gen : N) (n : node) (key : bytes) (value : node) {struct fuel}
  : res (bool * node) :=
  match fuel with
  | O => OutOfFuel
  | S fuel' =>
    match key with
    | [] =>
      match n with
      | NVal v =>
        match value with
        | NVal v' => Ok (negb (bytes_eqb v v'), value)
        | _ => Panic                       (* value.(valueNode) type assertion *)
        end
      | _ => Ok (true, value)
      end
    | k0 :: krest =>
      match n with
      | NShort nk nv f =>
        let m := prefix_len key nk in
        if Nat.eqb m (length nk) then
          bind (insert fuel' d gen nv (skipn m key) value) (fun '(dirty, nn) =>
            if dirty then Ok (true, NShort nk nn (new_flag gen)) else Ok (false, n))
        else
          match nth_error nk m, nth_error key m with
          | Some a, Some b =>
            bind (insert fuel' d gen NNil (skipn (S m) nk) nv) (fun '(_, c1) =>
            bind (set_child empty_children a c1) (fun cs1 =>
            bind (insert fuel' d gen NNil (skipn (S m) key) value) (fun '(_, c2) =>
            bind (set_child cs1 b c2) (fun cs2 =>
              let branch := NFull cs2 (new_flag gen) in
              if Nat.eqb m 0 then Ok (true, branch)
              else Ok (true, NShort (firstn m key) branch (new_flag gen))))))
          | _, _ => Panic                  (* key[matchlen] / n.Key[matchlen] out of range *)
          end
      | NFull cs f =>
        bind (get_child cs k0) (fun c =>
        bind (insert fuel' d gen c krest value) (fun '(dirty, nn) =>
          if dirty then bind (set_child cs k0 nn) (fun cs' => Ok (true, NFull cs' (new_flag gen)))
          else Ok (false, n)))
      | NNil => Ok (true, NShort key value (new_flag gen))
      | NHash h =>
        bind (resolve_hash d h gen) (fun rn =>
        bind (insert fuel' d gen rn key value) (fun '(dirty, nn) =>
          if dirty then Ok (true, nn) else Ok (false, rn)))
      | NVal _ => Panic                    (* default: invalid node *)
      end
    end
  end.

(* position of the single non-nil child: Some (Some i) = exactly one at i,
   Some None = none at all (pos = -1), None = two or more (pos = -2) *)
Fixpoint single_child (cs : list node) (i : nat) : option (option nat) :=
  match cs with
  | [] => Some None
  | c :: t =>
    if is_nil c then single_child t (S i)
    else if forallb is_nil t then Some (Some i) else None
  end.

(* delete(n, prefix, key): result (dirty, node) *)
Fixpoint delete (fuel : nat) (d : db) (gen : N) (n : node) (key : bytes) {struct fuel}
  : res (bool * node) :=
  match fuel with
  | O => OutOfFuel
  | S fuel' =>
    match n with
    | NShort nk nv f =>
      let m := prefix_len key nk in
      if Nat.ltb m (length nk) then Ok (false, n)
      else if Nat.eqb m (length key) then Ok (true, NNil)
      else
        bind (delete fuel' d gen nv (skipn (length nk) key)) (fun '(dirty, child) =>
          if negb dirty then Ok (false, n)
          else match child with
               | NShort ck cv _ => Ok (true, NShort (nk ++ ck) cv (new_flag gen))
               | _ => Ok (true, NShort nk child (new_flag gen))
               end)
    | NFull cs f =>
      match key with
      | [] => Panic
      | k0 :: krest =>
        bind (get_child cs k0) (fun c =>
        bind (delete fuel' d gen c krest) (fun '(dirty, nn) =>
          if negb dirty then Ok (false, n)
          else
            bind (set_child cs k0 nn) (fun cs' =>
              match single_child cs' 0 with
              | Some (Some pos) =>
                let posb := n2b (N.of_nat pos) in
                let cld := nth pos cs' NNil in
                if negb (Nat.eqb pos 16) then
                  bind (resolve d cld gen) (fun cnode =>
                    match cnode with
                    | NShort ck cv _ => Ok (true, NShort (posb :: ck) cv (new_flag gen))
                    | _ => Ok (true, NShort [posb] cld (new_flag gen))
                    end)
                else Ok (true, NShort [posb] cld (new_flag gen))
              | _ => Ok (true, NFull cs' (new_flag gen))
              end)))
      end
    | NVal _ => Ok (true, NNil)
    | NNil => Ok (false, NNil)
    | NHash h =>
      bind (resolve_hash d h gen) (fun rn =>
      bind (delete fuel' d gen rn key) (fun '(dirty, nn) =>
        if dirty then Ok (true, nn) else Ok (false, rn)))
    end
  end.

(* ------------------------------------------------------------------ hasher.go *)

Section Hashing.
Variable H : bytes -> bytes.

(* what hasher.hash returns as "hashed": a hashNode or the collapsed node itself *)
Inductive href := RHash (h : bytes) | RInline (it : item).
Definition href_item (r : href) : item := match r with RHash h => Str h | RInline it => it end.

(* rlp.Encode of an uncollapsed node (only reachable for a non-value in slot 16) *)
Fixpoint raw_item (n : node) : item :=
  match n with
  | NNil => Lst []
  | NShort k c _ => Lst [Str k; raw_item c]
  | NFull cs _ => Lst (map raw_item cs)
  | NHash h => Str h
  | NVal v => Str v
  end.

Record hctx := mkHctx { hdb : bool; hgen : N; hlimit : N }.

(* nodeFlag.canUnload: uint16 subtraction wraps *)
Definition can_unload (f : flag) (c : hctx) : bool :=
  negb (fdirty f) && (hlimit c <=? (hgen c + 65536 - fgen f) mod 65536).

(* hasher.store on the RLP item of a collapsed node; cachedh is n.cache() of it *)
Definition store (c : hctx) (it : item) (cachedh : option bytes) (force : bool)
  : href * list (bytes * bytes) :=
  let enc := encode it in
  if (lenN enc <? 32) && negb force then (RInline it, [])
  else
    let h := match cachedh with Some h => h | None => H enc end in
    (RHash h, if hdb c then [(to_hash h, enc)] else []).

Definition writes := list (bytes * bytes).

(* hasher.hashChildren: collapsed item, cached node (same flags), db writes.
   [rec] is hasher.hash on a child with force = false. *)
Definition hash_children (rec : node -> res (href * node * writes)) (n : node)
  : res (item * node * writes) :=
  match n with
  | NShort k ch f =>
    let ck := Str (hex_to_compact k) in
    match ch with
    | NVal v => Ok (Lst [ck; Str v], NShort k ch f, [])
    | _ => bind (rec ch) (fun '(r, cch, w) => Ok (Lst [ck; href_item r], NShort k cch f, w))
    end
  | NFull cs f =>
    bind ((fix go (i : nat) (l : list node) {struct l} : res (list item * list node * writes) :=
             match l with
             | [] => Ok ([], [], [])
             | x :: t =>
               bind (if Nat.ltb i 16 then
                       match x with
                       | NNil => Ok (Str [], NNil, [])
                       | _ => bind (rec x) (fun '(r, cx, w) => Ok (href_item r, cx, w))
                       end
                     else Ok (match x with NNil => Str [] | _ => raw_item x end, x, []))
                    (fun '(it, cx, w) =>
               bind (go (S i) t) (fun '(its, cxs, ws) => Ok (it :: its, cx :: cxs, w ++ ws)))
             end) O cs)
         (fun '(its, ccs, w) => Ok (Lst its, NFull ccs f, w))
  | NHash h => Ok (Str h, n, [])
  | NVal v => Ok (Str v, n, [])
  | NNil => Panic
  end.

Definition set_hash_flag (c : hctx) (n : node) (r : href) : node :=
  let upd f := mkFlag (match r with RHash h => Some h | RInline _ => None end) (fgen f)
                      (if hdb c then false else fdirty f) in
  match n with
  | NShort k ch f => NShort k ch (upd f)
  | NFull cs f => NFull cs (upd f)
  | _ => n
  end.

Definition node_flag (n : node) : option flag :=
  match n with NShort _ _ f | NFull _ f => Some f | _ => None end.

(* hasher.hash *)
Fixpoint hash_node (c : hctx) (n : node) (force : bool) {struct n} : res (href * node * writes) :=
  let walk (_ : unit) :=
    bind (hash_children (fun x => hash_node c x false) n) (fun '(it, cached, w) =>
      match n with
      | NHash h => Ok (RHash h, n, w)                 (* store: hash nodes are returned as they are *)
      | _ =>
        let '(r, w2) := store c it (match node_flag n with Some f => fhash f | None => None end) force in
        Ok (r, set_hash_flag c cached r, w ++ w2)
      end) in
  match n with
  | NNil => Panic                                      (* n.cache() on a nil interface *)
  | NShort _ _ f | NFull _ f =>
    match fhash f with
    | Some h =>
      if negb (hdb c) then Ok (RHash h, n, [])
      else if can_unload f c then Ok (RHash h, NHash h, [])
      else if negb (fdirty f) then Ok (RHash h, n, [])
      else walk tt
    | None => walk tt
    end
  | _ => walk tt
  end.

(* emptyRoot *)
Definition empty_root : bytes := H (encode (Str [])).

(* Trie *)
Record trie := mkTrie { troot : node; tgen : N; tlimit : N }.
Definition empty_trie : trie := mkTrie NNil 0 0.

(* hashRoot + the hash.(hashNode) assertion of Hash / Commit *)
Definition hash_root (t : trie) (withdb : bool) : res (bytes * node * writes) :=
  match troot t with
  | NNil => Ok (empty_root, NNil, [])
  | r =>
    bind (hash_node (mkHctx withdb (tgen t) (tlimit t)) r true) (fun '(hr, cached, w) =>
      match hr with RHash h => Ok (to_hash h, cached, w) | RInline _ => Panic end)
  end.

(* Trie.Hash *)
Definition trie_hash (t : trie) : res (bytes * trie) :=
  bind (hash_root t false) (fun '(h, cached, _) => Ok (h, mkTrie cached (tgen t) (tlimit t))).

(* Trie.Commit: cachegen++ on uint16 *)
Definition trie_commit (t : trie) (d : db) : res (bytes * trie * db) :=
  bind (hash_root t true) (fun '(h, cached, w) =>
    Ok (h, mkTrie cached ((tgen t + 1) mod 65536) (tlimit t), db_put_all d w)).

Definition zero_hash : bytes := repeat x00 32.

(* trie.New *)
Definition trie_new (root : bytes) (d : db) : res trie :=
  if bytes_eqb root zero_hash || bytes_eqb root empty_root then Ok empty_trie
  else bind (resolve_hash d root 0) (fun n => Ok (mkTrie n 0 0)).

Definition key_fuel (key : bytes) : nat := 3 * length key + 8.

(* TryGet *)
Definition trie_get (t : trie) (d : db) (key : bytes) : res (option bytes * trie) :=
  let k := keybytes_to_hex key in
  bind (try_get (key_fuel k) d (tgen t) (troot t) k) (fun '(v, nn, did) =>
    Ok (v, if did then mkTrie nn (tgen t) (tlimit t) else t)).

(* TryUpdate (an empty value deletes) / TryDelete *)
Definition trie_delete (t : trie) (d : db) (key : bytes) : res trie :=
  let k := keybytes_to_hex key in
  bind (delete (key_fuel k) d (tgen t) (troot t) k) (fun '(_, n) => Ok (mkTrie n (tgen t) (tlimit t))).
Definition trie_update (t : trie) (d : db) (key value : bytes) : res trie :=
  match value with
  | [] => trie_delete t d key
  | _ =>
    let k := keybytes_to_hex key in
    bind (insert (key_fuel k) d (tgen t) (troot t) k (NVal value)) (fun '(_, n) =>
      Ok (mkTrie n (tgen t) (tlimit t)))
  end.

(* ------------------------------------------------------------------ iterator.go *)

(* The leaves Iterator.Next reports, in the order nodeIterator visits them
   (children 0..16, so the value of a key that is a prefix of others comes last);
   hash nodes are resolved without changing the trie.  A position whose path
   carries the terminator but whose node is not a value makes LeafKey panic. *)
Fixpoint leaves (fuel : nat) (d : db) (gen : N) (n : node) (path : bytes) {struct fuel}
  : res (list (bytes * bytes)) :=
  match fuel with
  | O => OutOfFuel
  | S fuel' =>
    match n with
    | NVal v =>
      if has_term path then bind (hex_to_keybytes path) (fun k => Ok [(k, v)]) else Ok []
    | _ =>
      if has_term path then Panic else
      match n with
      | NNil => Ok []
      | NVal _ => Ok []
      | NHash h => bind (resolve_hash d h gen) (fun r => leaves fuel' d gen r path)
      | NShort k c _ => leaves fuel' d gen c (path ++ k)
      | NFull cs _ =>
        (fix go (i : nat) (l : list node) {struct l} : res (list (bytes * bytes)) :=
           match l with
           | [] => Ok []
           | x :: t =>
             bind (match x with
                   | NNil => Ok []
                   | _ => leaves fuel' d gen x (path ++ [n2b (N.of_nat i)])
                   end) (fun a =>
             bind (go (S i) t) (fun b => Ok (a ++ b)))
           end) O cs
      end
    end
  end.

(* NewIterator(t.NodeIterator(nil)): newNodeIterator calls t.Hash() first (this
   caches hashes in the trie); an empty trie yields nothing *)
Definition trie_iterate (t : trie) (d : db) : res (list (bytes * bytes) * trie) :=
  bind (trie_hash t) (fun '(_, t') =>
  bind (leaves 200 d (tgen t') (troot t') []) (fun l => Ok (l, t'))).

(* ------------------------------------------------------------------ proof.go *)

(* Prove: the nodes on the path to key *)
Fixpoint prove_path (fuel : nat) (d : db) (gen : N) (tn : node) (key : bytes) {struct fuel}
  : res (list node) :=
  match fuel with
  | O => OutOfFuel
  | S fuel' =>
    match key, tn with
    | [], _ => Ok []
    | _, NNil => Ok []
    | _, NShort nk nv _ =>
      if negb (has_prefix key nk) then Ok [tn]
      else bind (prove_path fuel' d gen nv (skipn (length nk) key)) (fun l => Ok (tn :: l))
    | k0 :: krest, NFull cs _ =>
      bind (get_child cs k0) (fun c =>
      bind (prove_path fuel' d gen c krest) (fun l => Ok (tn :: l)))
    | _, NHash h => bind (resolve_hash d h gen) (fun r => prove_path fuel' d gen r key)
    | _, NVal _ => Panic
    end
  end.

(* the second loop of Prove: proof elements (hash, encoding), root first *)
Fixpoint proof_elems (first : bool) (nodes : list node) : res (list (bytes * bytes)) :=
  match nodes with
  | [] => Ok []
  | n :: t =>
    let c0 := mkHctx false 0 0 in
    bind (hash_children (fun x => hash_node c0 x false) n) (fun '(it, _, _) =>
    let '(hn, _) := store c0 it (match node_flag n with Some f => fhash f | None => None end) false in
    bind (proof_elems false t) (fun rest =>
      match hn with
      | RHash h => Ok ((h, encode it) :: rest)
      | RInline _ => if first then Ok ((H (encode it), encode it) :: rest) else Ok rest
      end))
  end.

Definition trie_prove (t : trie) (d : db) (key : bytes) : res (list (bytes * bytes)) :=
  let k := keybytes_to_hex key in
  bind (prove_path (key_fuel k) d (tgen t) (troot t) k) (fun nodes => proof_elems true nodes).

(* proof.go get *)
Inductive getres := GNil | GHash (keyrest : bytes) (h : bytes) | GVal (v : bytes) | GPanic | GFuel.
Fixpoint proof_get (fuel : nat) (tn : node) (key : bytes) {struct fuel} : getres :=
  match fuel with
  | O => GFuel
  | S fuel' =>
    match tn with
    | NShort nk nv _ =>
      if negb (has_prefix key nk) then GNil else proof_get fuel' nv (skipn (length nk) key)
    | NFull cs _ =>
      match key with
      | [] => GPanic
      | k0 :: krest =>
        match get_child cs k0 with Ok c => proof_get fuel' c krest | _ => GPanic end
      end
    | NHash h => GHash key h
    | NNil => GNil
    | NVal v => GVal v
    end
  end.

(* VerifyProof over a proof database (association list keyed by hash).
   Result: Ok (Some v) value, Ok None proven absent, Err missing/invalid node. *)
Fixpoint verify_loop (fuel : nat) (pdb : db) (want : bytes) (key : bytes) {struct fuel}
  : res (option bytes) :=
  match fuel with
  | O => OutOfFuel
  | S fuel' =>
    match db_get pdb want with
    | None => Err
    | Some [] => Err                                  (* buf == nil for a memory db; decodeNode also rejects len 0 *)
    | Some buf =>
      bind (decode_node_top (Some want) buf 0) (fun n =>
        match proof_get (2 * length key + 40) n key with
        | GNil => Ok None
        | GVal v => Ok (Some v)
        | GHash keyrest h => verify_loop fuel' pdb (to_hash h) keyrest
        | GPanic => Panic
        | GFuel => OutOfFuel
        end)
    end
  end.

Definition verify_proof (root key : bytes) (pdb : db) : res (option bytes) :=
  verify_loop (S (length pdb)) pdb root (keybytes_to_hex key).

(* a proof database built the way every caller builds one: Put(H(node), node) *)
Definition proof_db_of (nodes : list bytes) : db := map (fun e => (H e, e)) nodes.

(* ------------------------------------------------------------------ histories *)

Inductive op :=
| OpUpdate (k v : bytes) | OpDelete (k : bytes) | OpGet (k : bytes) | OpHash | OpCommit
| OpReopen (root : bytes) | OpLimit (l : N) | OpIterate | OpProve (k : bytes).

Inductive obs :=
| ODone | OVal (v : option bytes) | ORoot (h : bytes) | OList (l : list (bytes * bytes))
| OProof (p : list (bytes * bytes)) (v : res (option bytes))
| OErr | OMissing | OPanic | OFuel.

Definition obs_of_fail {A} (r : res A) : obs :=
  match r with Ok _ => ODone | Err => OErr | Missing => OMissing | Panic => OPanic | OutOfFuel => OFuel end.

Record state := mkState { strie : trie; sdb : db }.

(* one operation; a failed operation leaves the trie as it was (the Go methods
   assign t.root only on success) *)
Definition step (s : state) (o : op) : state * obs :=
  let t := strie s in let d := sdb s in
  match o with
  | OpUpdate k v =>
    match trie_update t d k v with Ok t' => (mkState t' d, ODone) | e => (s, obs_of_fail e) end
  | OpDelete k =>
    match trie_delete t d k with Ok t' => (mkState t' d, ODone) | e => (s, obs_of_fail e) end
  | OpGet k =>
    match trie_get t d k with Ok (v, t') => (mkState t' d, OVal v) | e => (s, obs_of_fail e) end
  | OpHash =>
    match trie_hash t with Ok (h, t') => (mkState t' d, ORoot h) | e => (s, obs_of_fail e) end
  | OpCommit =>
    match trie_commit t d with Ok (h, t', d') => (mkState t' d', ORoot h) | e => (s, obs_of_fail e) end
  | OpReopen r =>
    match trie_new r d with Ok t' => (mkState t' d, ODone) | e => (s, obs_of_fail e) end
  | OpLimit l => (mkState (mkTrie (troot t) (tgen t) l) d, ODone)
  | OpIterate =>
    match trie_iterate t d with Ok (l, t') => (mkState t' d, OList l) | e => (s, obs_of_fail e) end
  | OpProve k =>
    (* harness: root := t.Hash(); t.Prove(k); VerifyProof(root, k, proof) *)
    match trie_hash t with
    | Ok (root, t') =>
      match trie_prove t' d k with
      | Ok p => (mkState t' d, OProof p (verify_proof root k p))
      | e => (mkState t' d, obs_of_fail e)
      end
    | e => (s, obs_of_fail e)
    end
  end.

Fixpoint run_ops (s : state) (ops : list op) : state * list obs :=
  match ops with
  | [] => (s, [])
  | o :: t => let '(s1, b) := step s o in let '(s2, bs) := run_ops s1 t in (s2, b :: bs)
  end.

Definition init_state : state := mkState empty_trie [].

End Hashing.
