(* Trie/TrieInv.v — definitions used by the trie proofs: abstract content of a
   node (the key/value pairs below it, keys as terminated nibble paths), the
   canonical-shape invariant that trie.go insert/delete maintain, flag erasure.
   Definitions only (plus computation-free basics); proofs are in the
   Trie*Proofs.v files. *)
From AQ Require Import Lib.Bytes Rlp.RlpSpec Trie.MptSpec Trie.TrieModel.
Local Open Scope N_scope.

(* a nibble proper (0..15) / a path of nibbles / a terminated key: nibbles then 16 *)
Definition nibb (b : byte) : bool := b2n b <? 16.
Definition pathb (k : bytes) : bool := forallb nibb k.
Fixpoint tkeyb (k : bytes) : bool :=
  match k with
  | [] => false
  | [b] => byte_eqb b term
  | b :: t => nibb b && tkeyb t
  end.

Definition nonempty (v : bytes) : bool := match v with [] => false | _ => true end.
Definition is_val (n : node) : bool := match n with NVal _ => true | _ => false end.
Definition val_ok (n : node) : bool := match n with NVal v => nonempty v | _ => true end.
Definition count_nonnil (cs : list node) : nat := length (filter (fun c => negb (is_nil c)) cs).

(* The shape invariant of a node in child position (never nil, never a bare value):
   - short node: non-empty key; either a terminated key over a non-empty value
     (leaf) or a pure nibble path over a full node (extension; no short->short);
   - full node: 17 slots; slots 0..15 are nil or canonical short/full nodes,
     slot 16 is nil or a non-empty value; at least two slots are occupied;
   - no hash nodes (the subtree is loaded). *)
Fixpoint canon (n : node) : bool :=
  match n with
  | NShort k c _ =>
    nonempty k &&
    match c with
    | NVal v => tkeyb k && nonempty v
    | NFull _ _ => pathb k && canon c
    | _ => false
    end
  | NFull cs _ =>
    Nat.eqb (length cs) 17
    && forallb (fun c => is_nil c || is_val c || canon c) cs
    && forallb (fun c => negb (is_val c)) (firstn 16 cs)
    && forallb val_ok cs
    && match nth 16 cs NNil with NNil | NVal _ => true | _ => false end
    && Nat.leb 2 (count_nonnil cs)
  | _ => false
  end.
(* a root: the empty trie or a canonical node *)
Definition canon_root (n : node) : bool := is_nil n || canon n.

(* abstract content: pairs (remaining key path, value) stored below a node *)
Definition pre_nib (i : nat) (kv : bytes * bytes) : bytes * bytes := (n2b (N.of_nat i) :: fst kv, snd kv).
Definition pre_key (k : bytes) (kv : bytes * bytes) : bytes * bytes := (k ++ fst kv, snd kv).
Fixpoint join (i : nat) (l : list content) : content :=
  match l with
  | [] => []
  | c :: t => map (pre_nib i) c ++ join (S i) t
  end.
Fixpoint content_of (n : node) : content :=
  match n with
  | NNil => []
  | NHash _ => []
  | NVal v => [([], v)]
  | NShort k c _ => map (pre_key k) (content_of c)
  | NFull cs _ => join 0 (map content_of cs)
  end.

Fixpoint lookup (c : content) (k : bytes) : option bytes :=
  match c with
  | [] => None
  | kv :: t => if bytes_eqb (fst kv) k then Some (snd kv) else lookup t k
  end.

(* flags: no cached hash anywhere / all flags erased *)
Definition flag0 : flag := mkFlag None 0 true.
Fixpoint erase (n : node) : node :=
  match n with
  | NShort k c _ => NShort k (erase c) flag0
  | NFull cs _ => NFull (map erase cs) flag0
  | _ => n
  end.
Definition fnohash (f : flag) : bool := match fhash f with None => true | Some _ => false end.
Fixpoint nohash (n : node) : bool :=
  match n with
  | NShort _ c f => fnohash f && nohash c
  | NFull cs f => fnohash f && forallb nohash cs
  | _ => true
  end.

(* induction principle for the nested list of children *)
Section NodeInd.
Variable P : node -> Prop.
Hypothesis HNil : P NNil.
Hypothesis HShort : forall k c f, P c -> P (NShort k c f).
Hypothesis HFull : forall cs f, Forall P cs -> P (NFull cs f).
Hypothesis HHash : forall h, P (NHash h).
Hypothesis HVal : forall v, P (NVal v).
Fixpoint node_ind' (n : node) : P n :=
  match n with
  | NNil => HNil
  | NShort k c f => HShort k c f (node_ind' c)
  | NFull cs f =>
    HFull cs f ((fix go (l : list node) : Forall P l :=
                   match l with
                   | [] => Forall_nil P
                   | x :: t => Forall_cons x (node_ind' x) (go t)
                   end) cs)
  | NHash h => HHash h
  | NVal v => HVal v
  end.
End NodeInd.
