(* Trie/TrieReopenProofs.v — a trie reopened from a committed root reproduces
   the content.  Commit (hasher.go with a database) writes the encoding of
   every node that is referenced by hash under that hash; trie.New(root, db)
   followed by TryGet on the lazily loaded trie returns the content of the
   committed trie.
   Stage 1: tryGet through the database on any in-memory form (unl) of a
            canonical node whose hash references are stored (get_unl).
   Stage 2: what Commit writes (hash_node_commit).
   Stage 3: commit_reopen. *)
From AQ Require Import Lib.Bytes Rlp.RlpSpec Rlp.RlpProofs Trie.MptSpec Trie.TrieModel Trie.TrieInv
  Trie.TrieProofs Trie.TrieRootProofs Trie.TrieCodecDefs Trie.TrieCodecProofs.
From AQ Require Trie.TrieDeleteProofs Trie.TrieDecodeProofs.
From Coq Require Import ZifyBool ZifyN ZifyNat.
Local Open Scope nat_scope.

Module D := TrieDeleteProofs.

(* ------------------------------------------------------------------ lists *)

Lemma Forall2_nth_d {A B} (R : A -> B -> Prop) da db : R da db ->
  forall l1 l2, Forall2 R l1 l2 -> forall i, R (nth i l1 da) (nth i l2 db).
Proof.
  intros Hd l1 l2 HF. induction HF as [|a b t1 t2 Hab HF IH]; intros [|i]; cbn [nth]; auto.
Qed.

Lemma Forall2_len {A B} (R : A -> B -> Prop) l1 l2 : Forall2 R l1 l2 -> length l1 = length l2.
Proof. induction 1; cbn [length]; congruence. Qed.

Lemma Forall2_set_nth (R : node -> node -> Prop) : forall cs xs i x,
  Forall2 R cs xs -> R (nth i cs NNil) x -> Forall2 R cs (set_nth xs i x).
Proof.
  intros cs xs i x HF. revert i. induction HF as [|a b t1 t2 Hab HF IH]; intros [|i] Hx; cbn [set_nth nth] in *.
  - constructor.
  - constructor.
  - constructor; assumption.
  - constructor; [assumption|]. apply IH. exact Hx.
Qed.

Lemma Forall2_map_r {A B} (R : A -> B -> Prop) (g : A -> B) l :
  Forall (fun c => R c (g c)) l -> Forall2 R l (map g l).
Proof. induction 1; cbn [map]; constructor; assumption. Qed.

Lemma Forall_nth_d {A} (P : A -> Prop) d l i : Forall P l -> i < length l -> P (nth i l d).
Proof. intros HF Hi. rewrite Forall_forall in HF. apply HF. apply nth_In. exact Hi. Qed.

Definition is_hash (n : node) : bool := match n with NHash _ => true | _ => false end.

(* the shapes a child slot of a canonical node can have *)
Definition child_shape (c : node) : Prop := c = NNil \/ (exists v, c = NVal v) \/ canon c = true.

Lemma canon_full_children cs f : canon (NFull cs f) = true -> Forall child_shape cs.
Proof.
  intros Hc. destruct (canon_full_inv _ _ Hc) as (_ & Hb & _).
  apply Forall_forall. intros x Hin. rewrite forallb_forall in Hb. specialize (Hb x Hin).
  unfold child_shape. destruct x as [|k c f0|cs0 f0|h|v].
  - left. reflexivity.
  - right. right. exact Hb.
  - right. right. exact Hb.
  - discriminate Hb.
  - right. left. eauto.
Qed.

Section Reopen.
Variable H : bytes -> bytes.
Hypothesis Hlen : forall x, length (H x) = 32%nat.

(* ------------------------------------------------------------------ definitions *)

Definition stored (d : db) (m : node) : Prop := db_get d (H (spec_enc H m)) = Some (spec_enc H m).

(* a database produced by commits: every blob is the encoding of a canonical node under its hash *)
Definition db_sound (d : db) : Prop :=
  forall h e, db_get d h = Some e -> exists m, canon m = true /\ e = spec_enc H m /\ h = H e.

(* every canonical node strictly below m that is referenced by hash satisfies P *)
Fixpoint covers_p (P : node -> Prop) (m : node) : Prop :=
  match m with
  | NShort _ c _ => ((canon c = true -> big H c = true -> P c) /\ covers_p P c)
  | NFull cs _ =>
    (fix go (l : list node) : Prop :=
       match l with
       | [] => True
       | x :: t => ((canon x = true -> big H x = true -> P x) /\ covers_p P x) /\ go t
       end) cs
  | _ => True
  end.
Definition cov1 (P : node -> Prop) (x : node) : Prop :=
  (canon x = true -> big H x = true -> P x) /\ covers_p P x.
(* every node below m that is referenced by hash is in the database *)
Definition covers (d : db) (m : node) : Prop := covers_p (stored d) m.

Lemma covers_p_short P k c f : covers_p P (NShort k c f) <-> cov1 P c.
Proof. reflexivity. Qed.

Lemma covers_p_full P cs f : covers_p P (NFull cs f) <-> Forall (cov1 P) cs.
Proof.
  cbn [covers_p]. induction cs as [|x t IH].
  - split; constructor.
  - split.
    + intros [Hx Ht]. constructor; [exact Hx|apply IH; exact Ht].
    + intros HF. inversion HF as [|? ? Hx Ht]; subst. split; [exact Hx|apply IH; exact Ht].
Qed.

Lemma covers_p_mono (P Q : node -> Prop) : (forall m, canon m = true -> P m -> Q m) ->
  forall n, covers_p P n -> covers_p Q n.
Proof.
  intros HPQ. induction n as [|k c f IH|cs f IH|h|v] using node_ind'; intros Hcv; try exact I.
  - destruct Hcv as [H1 H2]. split; [|apply IH; exact H2].
    intros Hc Hb. apply HPQ; auto.
  - apply covers_p_full. apply covers_p_full in Hcv.
    rewrite Forall_forall in *. intros x Hin. destruct (Hcv x Hin) as [H1 H2]. split; [|apply (IH x Hin); exact H2].
    intros Hc Hb. apply HPQ; auto.
Qed.

Lemma all_fits_full cs f : all_fits H (NFull cs f) <-> fits (spec_item H (NFull cs f)) = true /\ Forall (all_fits H) cs.
Proof.
  cbn [all_fits]. apply and_iff_compat_l. induction cs as [|x t IH].
  - split; constructor.
  - split.
    + intros [Hx Ht]. constructor; [exact Hx|apply IH; exact Ht].
    + intros HF. inversion HF as [|? ? Hx Ht]; subst. split; [exact Hx|apply IH; exact Ht].
Qed.

Lemma all_fits_top m : canon m = true -> all_fits H m -> fits (spec_item H m) = true.
Proof.
  destruct m as [|k c f|cs f|h|v]; intros Hc Hf; try discriminate Hc.
  - destruct Hf as [F _]. exact F.
  - apply all_fits_full in Hf. destruct Hf as [F _]. exact F.
Qed.

(* a hash reference in child position stands for a child stored by hash *)
Definition hash_big (c x : node) : Prop := forall h, x = NHash h -> big H c = true.

(* in-memory forms x of a loaded node m: a canonical subtree may be replaced by
   the hash node of its encoding (below the top only where the encoding is
   referenced by hash); flags are arbitrary *)
Inductive unl : node -> node -> Prop :=
| unl_hash m : canon m = true -> unl m (NHash (H (spec_enc H m)))
| unl_nil : unl NNil NNil
| unl_val v : unl (NVal v) (NVal v)
| unl_short k c x f f' : unl c x -> hash_big c x -> unl (NShort k c f) (NShort k x f')
| unl_full cs xs f f' : Forall2 unl cs xs -> Forall2 hash_big cs xs -> unl (NFull cs f) (NFull xs f').

Lemma unl_nil_inv x : unl NNil x -> x = NNil.
Proof. intros Hu. inversion Hu as [m Hc| | | |]; subst; [discriminate Hc|reflexivity]. Qed.
Lemma unl_val_inv v x : unl (NVal v) x -> x = NVal v.
Proof. intros Hu. inversion Hu as [m Hc| | | |]; subst; [discriminate Hc|reflexivity]. Qed.
Lemma hash_big_nil : hash_big NNil NNil.
Proof. intros h E; discriminate E. Qed.

(* ------------------------------------------------------------------ stage 1: decoding gives an in-memory form *)

Lemma dec_node_not_hash gen hash m : canon m = true -> is_hash (dec_node H gen hash m) = false.
Proof. destruct m; intros Hc; try discriminate Hc; reflexivity. Qed.

Lemma dec_node_neq_hash gen hash m h : canon m = true -> dec_node H gen hash m <> NHash h.
Proof. intros Hc E. pose proof (dec_node_not_hash gen hash m Hc) as N. rewrite E in N. discriminate N. Qed.

Lemma dec_child_unl gen c : child_shape c ->
  (canon c = true -> unl c (dec_node H gen None c)) ->
  unl c (dec_child H gen c) /\ hash_big c (dec_child H gen c).
Proof.
  intros [->|[[v ->]|Hc]] IH.
  - split; [apply unl_nil|intros h E; discriminate E].
  - split; [apply unl_val|intros h E; discriminate E].
  - rewrite (dec_child_canon H gen c Hc). destruct (big H c) eqn:Eb.
    + split; [apply unl_hash; exact Hc|intros h _; exact Eb].
    + split; [apply IH; exact Hc|]. intros h E. exfalso. exact (dec_node_neq_hash gen None c h Hc E).
Qed.

Lemma dec_unl gen : forall m hash, canon m = true -> unl m (dec_node H gen hash m).
Proof.
  induction m as [|k c f IH|cs f IH|h|v] using node_ind'; intros hash Hc; try discriminate Hc.
  - rewrite dec_node_short.
    assert (Hs : child_shape c).
    { destruct (canon_short_inv _ _ _ Hc) as [_ [(v & -> & _)|(cs & f' & -> & _ & Hcc)]].
      - right. left. eauto.
      - right. right. exact Hcc. }
    destruct (dec_child_unl gen c Hs (IH None)) as [U B]. apply unl_short; assumption.
  - rewrite dec_node_full. pose proof (canon_full_children _ _ Hc) as Hs.
    assert (HF : Forall (fun c => unl c (dec_child H gen c) /\ hash_big c (dec_child H gen c)) cs).
    { rewrite Forall_forall in *. intros x Hin. apply dec_child_unl; [apply Hs; exact Hin|apply (IH x Hin)]. }
    apply unl_full; apply Forall2_map_r; eapply Forall_impl; [| exact HF | | exact HF]; cbv beta; tauto.
Qed.

(* ------------------------------------------------------------------ stage 1: resolving a stored hash *)

Lemma resolve_stored d m gen : canon m = true -> fits (spec_item H m) = true -> stored d m ->
  resolve_hash d (H (spec_enc H m)) gen = Ok (dec_node H gen (Some (H (spec_enc H m))) m).
Proof.
  intros Hc Hf Hst. unfold resolve_hash. rewrite (to_hash_H H Hlen). unfold stored in Hst. rewrite Hst.
  rewrite (roundtrip H Hlen m (Some (H (spec_enc H m))) gen Hc Hf).
  destruct (encode_nonempty (spec_item H m)) as (h0 & t0 & E).
  change (encode (spec_item H m)) with (spec_enc H m) in E.
  destruct (spec_enc H m); [discriminate E|reflexivity].
Qed.

(* ------------------------------------------------------------------ stage 1: tryGet through the database *)

Lemma get_gen : forall fuel d gen m x key,
  canon m = true -> all_fits H m -> covers d m -> (forall h, x = NHash h -> stored d m) ->
  unl m x -> tkeyb key = true ->
  2 * length key + (if is_hash x then 2 else 1) <= fuel ->
  exists x' did, try_get fuel d gen x key = Ok (lookup (content_of m) key, x', did)
                 /\ unl m x' /\ (forall h, x' = NHash h -> x = NHash h).
Proof.
  induction fuel as [|fuel IH]; intros d gen m x key Hc Hfit Hcov Hst Hu Hk Hfuel;
    [clear - Hfuel; destruct (is_hash x); lia|].
  rewrite D.try_get_S.
  inversion Hu as [m0 Hc0 | | v | k c x1 f f' Hu1 Hb1 | cs xs f f' Hus Hbs]; subst;
    try discriminate Hc.
  - (* a hash node: resolve through the database, continue on the decoded node *)
    cbn [is_hash] in Hfuel.
    rewrite (resolve_stored d m gen Hc (all_fits_top m Hc Hfit) (Hst _ eq_refl)). cbn [bind].
    destruct (IH d gen m (dec_node H gen (Some (H (spec_enc H m))) m) key Hc Hfit Hcov) as (x' & did & E & U & Hh).
    + intros h E. exfalso. exact (dec_node_neq_hash _ _ _ _ Hc E).
    + apply dec_unl. exact Hc.
    + exact Hk.
    + rewrite dec_node_not_hash by exact Hc. lia.
    + rewrite E. cbn [bind]. exists x', true. split; [reflexivity|]. split; [exact U|].
      intros h Eh. exfalso. exact (dec_node_neq_hash _ _ _ _ Hc (Hh h Eh)).
  - (* short node *)
    rewrite D.canon_short_eq in Hc. apply andb_true_iff in Hc as [Hne Hc]. apply D.nonempty_len in Hne.
    rewrite D.content_short.
    destruct Hfit as [_ Hfitc]. destruct Hcov as [Hst1 Hcovc].
    cbn [is_hash] in Hfuel.
    destruct (has_prefix key k) eqn:Hp; cbn [negb].
    + apply D.has_prefix_true in Hp. remember (skipn (length k) key) as rest eqn:Er. clear Er. subst key.
      rewrite app_length in Hfuel. rewrite D.lookup_pre_key.
      destruct c as [| | cs' fc| |v]; try discriminate Hc.
      * apply andb_true_iff in Hc as [Hpath Hcc]. rewrite D.tkeyb_app_path in Hk by auto.
        destruct (IH d gen (NFull cs' fc) x1 rest Hcc Hfitc Hcovc) as (x' & did & E & U & Hh).
        -- intros h Eh. apply Hst1; [exact Hcc|]. exact (Hb1 h Eh).
        -- exact Hu1.
        -- exact Hk.
        -- destruct (is_hash x1); lia.
        -- rewrite E. cbn [bind]. destruct did.
           ++ exists (NShort k x' (mkFlag (fhash f') gen (fdirty f'))), true. split; [reflexivity|]. split.
              ** apply unl_short; [exact U|]. intros h Eh. apply (Hb1 h). exact (Hh h Eh).
              ** intros h Eh; discriminate Eh.
           ++ exists (NShort k x1 f'), false. split; [reflexivity|]. split; [exact Hu|].
              intros h Eh; discriminate Eh.
      * apply andb_true_iff in Hc as [Htk Hv]. apply (D.tkeyb_app_nil k rest Htk) in Hk. subst rest.
        apply unl_val_inv in Hu1. subst x1.
        destruct fuel as [|fuel']; [lia|]. rewrite D.try_get_S. cbn [bind].
        exists (NShort k (NVal v) f'), false. split; [reflexivity|]. split; [exact Hu|].
        intros h Eh; discriminate Eh.
    + rewrite D.lookup_pre_key_none by (apply D.has_prefix_false; auto).
      exists (NShort k x1 f'), false. split; [reflexivity|]. split; [exact Hu|].
      intros h Eh; discriminate Eh.
  - (* full node *)
    destruct key as [|k0 rest]; [discriminate Hk|].
    pose proof Hc as Hc'. apply (D.canon_full_elim cs f) in Hc' as (Hl17 & Hs & _).
    pose proof (Forall2_len _ _ _ Hus) as Hlx.
    apply D.tkeyb_head in Hk as [Hi Hk]. cbn [length is_hash] in Hfuel.
    rewrite D.get_child_ok by lia. cbn [bind]. rewrite (D.lookup_full cs f) by auto.
    specialize (Hs (nidx k0) Hi). unfold D.slot_ok in Hs.
    pose proof (Forall2_nth_d unl NNil NNil unl_nil _ _ Hus (nidx k0)) as Hu1.
    pose proof (Forall2_nth_d hash_big NNil NNil hash_big_nil _ _ Hbs (nidx k0)) as Hb1.
    apply (covers_p_full (stored d) cs f) in Hcov. apply (all_fits_full cs f) in Hfit. destruct Hfit as [_ Hfit].
    assert (Hi' : nidx k0 < length cs) by lia.
    pose proof (Forall_nth_d _ NNil _ _ Hcov Hi') as [Hst1 Hcovc].
    pose proof (Forall_nth_d _ NNil _ _ Hfit Hi') as Hfitc.
    remember (nth (nidx k0) cs NNil) as c eqn:Ec.
    remember (nth (nidx k0) xs NNil) as x1 eqn:Ex.
    destruct Hk as [(Hn & Hk & Hlt)|[-> ->]].
    + destruct (Nat.ltb_spec (nidx k0) 16) as [_|Hbad]; [|lia]. apply orb_true_iff in Hs as [Hs|Hs].
      * apply D.is_nil_eq in Hs. rewrite Hs in Hu1 |- *. apply unl_nil_inv in Hu1. rewrite Hu1.
        destruct fuel as [|fuel']; [lia|]. rewrite D.try_get_S. cbn [bind].
        exists (NFull xs f'), false. split; [reflexivity|]. split; [exact Hu|].
        intros h Eh; discriminate Eh.
      * destruct (IH d gen c x1 rest Hs Hfitc Hcovc) as (x' & did & E & U & Hh).
        -- intros h Eh. apply Hst1; [exact Hs|]. exact (Hb1 h Eh).
        -- exact Hu1.
        -- exact Hk.
        -- destruct (is_hash x1); lia.
        -- rewrite E. cbn [bind]. destruct did.
           ++ rewrite set_child_ok by lia. cbn [bind].
              exists (NFull (set_nth xs (nidx k0) x') (mkFlag (fhash f') gen (fdirty f'))), true.
              split; [reflexivity|]. split.
              ** apply unl_full; apply Forall2_set_nth; try assumption.
                 { rewrite <- Ec. exact U. }
                 { rewrite <- Ec. intros h Eh. apply (Hb1 h). exact (Hh h Eh). }
              ** intros h Eh; discriminate Eh.
           ++ exists (NFull xs f'), false. split; [reflexivity|]. split; [exact Hu|].
              intros h Eh; discriminate Eh.
    + rewrite D.nidx_term in Hs. cbn [Nat.ltb Nat.leb] in Hs.
      destruct fuel as [|fuel']; [lia|]. rewrite D.try_get_S.
      destruct c as [| | | |v]; try discriminate Hs.
      * apply unl_nil_inv in Hu1. rewrite Hu1. cbn [bind].
        exists (NFull xs f'), false. split; [reflexivity|]. split; [exact Hu|].
        intros h Eh; discriminate Eh.
      * apply unl_val_inv in Hu1. rewrite Hu1. cbn [bind].
        exists (NFull xs f'), false. split; [reflexivity|]. split; [exact Hu|].
        intros h Eh; discriminate Eh.
Qed.

Theorem get_unl : forall fuel d gen m x key,
  canon m = true -> all_fits H m -> covers d m -> (forall h, x = NHash h -> stored d m) ->
  unl m x -> tkeyb key = true -> 2 * length key + 3 <= fuel ->
  exists x' did, try_get fuel d gen x key = Ok (lookup (content_of m) key, x', did) /\ unl m x'.
Proof.
  intros fuel d gen m x key Hc Hfit Hcov Hst Hu Hk Hfuel.
  destruct (get_gen fuel d gen m x key Hc Hfit Hcov Hst Hu Hk) as (x' & did & E & U & _).
  - destruct (is_hash x); lia.
  - exists x', did. split; assumption.
Qed.

(* ------------------------------------------------------------------ stage 2: database writes *)

(* collision freedom of H on the encodings of canonical nodes *)
Hypothesis Hcf : forall m1 m2, canon m1 = true -> canon m2 = true ->
  H (spec_enc H m1) = H (spec_enc H m2) -> spec_enc H m1 = spec_enc H m2.
(* (stage 1 above does not use it) *)

Definition wr_one (kv : bytes * bytes) : Prop :=
  exists m, canon m = true /\ snd kv = spec_enc H m /\ fst kv = H (snd kv).
(* a list of writes made by Commit: encodings of canonical nodes under their hashes *)
Definition wr_ok (w : writes) : Prop := Forall wr_one w.
Definition wstored (w : writes) (m : node) : Prop := In (H (spec_enc H m), spec_enc H m) w.

Lemma db_get_app_some d kv h e : db_get d h = Some e -> db_get (d ++ [kv]) h = Some e.
Proof.
  induction d as [|[k v] t IH]; cbn [db_get app]; [discriminate|].
  destruct (bytes_eqb k h); auto.
Qed.

Lemma db_get_app_none d k v h : db_get d h = None ->
  db_get (d ++ [(k, v)]) h = if bytes_eqb k h then Some v else None.
Proof.
  induction d as [|[k' v'] t IH]; cbn [db_get app]; [reflexivity|].
  destruct (bytes_eqb k' h); [discriminate|auto].
Qed.

Lemma db_put_mono d kv h e : db_get d h = Some e -> db_get (db_put d kv) h = Some e.
Proof.
  intros Hg. unfold db_put. destruct (db_get d (fst kv)); [exact Hg|]. apply db_get_app_some. exact Hg.
Qed.

Lemma db_put_all_cons d kv w : db_put_all d (kv :: w) = db_put_all (db_put d kv) w.
Proof. reflexivity. Qed.

Lemma db_put_all_mono : forall w d h e, db_get d h = Some e -> db_get (db_put_all d w) h = Some e.
Proof.
  induction w as [|kv w IH]; intros d h e Hg; [exact Hg|].
  rewrite db_put_all_cons. apply IH. apply db_put_mono. exact Hg.
Qed.

Lemma db_put_sound d kv : db_sound d -> wr_one kv -> db_sound (db_put d kv).
Proof.
  intros Hs (m & Hc & E2 & E1). unfold db_put. destruct (db_get d (fst kv)) eqn:Eg; [exact Hs|].
  destruct kv as [k v]. cbn [fst snd] in *. intros h e Hg.
  destruct (db_get d h) eqn:Eh.
  - rewrite (db_get_app_some d (k, v) h _ Eh) in Hg. injection Hg as <-. apply Hs. exact Eh.
  - rewrite (db_get_app_none d k v h Eh) in Hg.
    destruct (bytes_eqb_spec k h) as [<-|]; [|discriminate Hg]. injection Hg as <-.
    exists m. auto.
Qed.

Lemma db_put_all_sound : forall w d, db_sound d -> wr_ok w -> db_sound (db_put_all d w).
Proof.
  induction w as [|kv w IH]; intros d Hs Hw; [exact Hs|].
  inversion Hw as [|? ? H1 H2]; subst. rewrite db_put_all_cons. apply IH; [|exact H2].
  apply db_put_sound; assumption.
Qed.

(* Database.insert keeps an existing blob: by soundness and collision freedom it is the same bytes *)
Lemma db_put_stored d m : db_sound d -> canon m = true ->
  stored (db_put d (H (spec_enc H m), spec_enc H m)) m.
Proof.
  intros Hs Hc. unfold stored, db_put. cbn [fst].
  destruct (db_get d (H (spec_enc H m))) as [e|] eqn:E.
  - rewrite E. destruct (Hs _ _ E) as (m' & Hc' & -> & Eh). f_equal.
    apply Hcf; [exact Hc'|exact Hc|]. symmetry. exact Eh.
  - rewrite (db_get_app_none d _ _ _ E). rewrite bytes_eqb_refl. reflexivity.
Qed.

Lemma stored_mono w d m : stored d m -> stored (db_put_all d w) m.
Proof. unfold stored. apply db_put_all_mono. Qed.

Lemma stored_put_all : forall w d m, db_sound d -> wr_ok w -> canon m = true ->
  wstored w m -> stored (db_put_all d w) m.
Proof.
  induction w as [|kv w IH]; intros d m Hs Hw Hc Hin; [destruct Hin|].
  inversion Hw as [|? ? H1 H2]; subst. rewrite db_put_all_cons. destruct Hin as [E|Hin].
  - subst kv. apply stored_mono. apply db_put_stored; assumption.
  - apply IH; try assumption. apply db_put_sound; assumption.
Qed.

Lemma wstored_app_l w1 w2 m : wstored w1 m -> wstored (w1 ++ w2) m.
Proof. unfold wstored. intros Hin. apply in_or_app. left. exact Hin. Qed.
Lemma wstored_app_r w1 w2 m : wstored w2 m -> wstored (w1 ++ w2) m.
Proof. unfold wstored. intros Hin. apply in_or_app. right. exact Hin. Qed.

Lemma cov1_mono (P Q : node -> Prop) : (forall m, canon m = true -> P m -> Q m) ->
  forall x, cov1 P x -> cov1 Q x.
Proof.
  intros HPQ x [H1 H2]. split; [|apply (covers_p_mono P Q HPQ); exact H2].
  intros Hc Hb. apply HPQ; auto.
Qed.

(* ------------------------------------------------------------------ stage 2: the hasher with a database *)

Lemma store_db c it force : hdb c = true ->
  store H c it None force =
  if (lenN (encode it) <? 32)%N && negb force then (RInline it, [])
  else (RHash (H (encode it)), [(H (encode it), encode it)]).
Proof.
  intros Hdb. unfold store. cbv zeta. rewrite Hdb, (to_hash_H H Hlen).
  destruct ((lenN (encode it) <? 32)%N && negb force); reflexivity.
Qed.

(* what hasher.hash returns for a canonical node: inline item or hash *)
Definition href_of (n : node) (force : bool) : href :=
  if (lenN (spec_enc H n) <? 32)%N && negb force then RInline (spec_item H n)
  else RHash (H (spec_enc H n)).

Lemma href_item_of x :
  href_item (href_of x false) = if big H x then Str (H (spec_enc H x)) else spec_item H x.
Proof.
  clear. unfold href_of, big. cbn [negb]. rewrite andb_true_r.
  destruct (N.ltb_spec (lenN (spec_enc H x)) 32); destruct (N.leb_spec 32 (lenN (spec_enc H x)));
    try reflexivity; exfalso; lia.
Qed.

Definition hash_okd (n : node) : Prop :=
  canon n = true -> nohash n = true -> forall c force, hdb c = true ->
  exists n' w, hash_node H c n force = Ok (href_of n force, n', w)
    /\ erase n' = erase n /\ wr_ok w /\ covers_p (wstored w) n
    /\ ((force = true \/ big H n = true) -> wstored w n).

Lemma store_finish c n cached w1 force it :
  hdb c = true -> canon n = true -> it = spec_item H n -> wr_ok w1 -> covers_p (wstored w1) n ->
  exists n' w,
    (let '(r, w2) := store H c it None force in Ok (r, set_hash_flag c cached r, w1 ++ w2))
      = Ok (href_of n force, n', w)
    /\ erase n' = erase cached /\ wr_ok w /\ covers_p (wstored w) n
    /\ ((force = true \/ big H n = true) -> wstored w n).
Proof.
  intros Hdb Hc -> Hw Hcv. rewrite (store_db c _ force Hdb).
  change (encode (spec_item H n)) with (spec_enc H n). unfold href_of.
  destruct ((lenN (spec_enc H n) <? 32)%N && negb force) eqn:Econd.
  - eexists. eexists. split; [reflexivity|]. split; [apply erase_set_hash|].
    rewrite app_nil_r. split; [exact Hw|]. split; [exact Hcv|].
    apply andb_true_iff in Econd as [E1 E2]. intros [Ef|Eb]; exfalso.
    + rewrite Ef in E2. discriminate E2.
    + unfold big in Eb. clear - E1 Eb. lia.
  - eexists. eexists. split; [reflexivity|]. split; [apply erase_set_hash|]. split; [|split].
    + apply Forall_app. split; [exact Hw|]. constructor; [|constructor].
      exists n. cbn [fst snd]. auto.
    + apply (covers_p_mono (wstored w1)); [|exact Hcv]. intros m _. apply wstored_app_l.
    + intros _. apply wstored_app_r. left. reflexivity.
Qed.

Lemma slot_specd c f i x : hdb c = true -> hash_okd x -> child_ok i x -> nohash x = true ->
  (canon x = true -> max_key_len (content_of x) < f) ->
  exists x' w, hc_slot (fun y => hash_node H c y false) i x = Ok (item_at H f i x, x', w)
               /\ erase x' = erase x /\ wr_ok w /\ cov1 (wstored w) x.
Proof.
  intros Hdb Hx Hok Hnx Hm. unfold hc_slot, child_ok, item_at in *.
  destruct (Nat.ltb i 16).
  - destruct Hok as [->|Hcx].
    + exists NNil, []. split; [reflexivity|]. split; [reflexivity|]. split; [constructor|].
      split; [intros Hc; discriminate Hc|exact I].
    + destruct (Hx Hcx Hnx c false Hdb) as (x' & w & E & Ee & Hw & Hcv & Hst).
      exists x', w. split; [|split; [exact Ee|split; [exact Hw|]]].
      * assert (Enn : forall (A : Type) (a b : A), match x with NNil => a | _ => b end = b)
          by (intros; destruct x; [discriminate Hcx|reflexivity..]).
        rewrite Enn, E. cbn [bind]. rewrite href_item_of.
        rewrite (n_ref_spec H f x Hcx (Hm Hcx)). reflexivity.
      * split; [|exact Hcv]. intros _ Hb. apply Hst. right. exact Hb.
  - destruct Hok as [->|[v ->]].
    + exists NNil, []. split; [reflexivity|]. split; [reflexivity|]. split; [constructor|].
      split; [intros Hc; discriminate Hc|exact I].
    + exists (NVal v), []. split; [reflexivity|]. split; [reflexivity|]. split; [constructor|].
      split; [intros Hc; discriminate Hc|exact I].
Qed.

Lemma go_specd c f : hdb c = true -> forall l i,
  Forall hash_okd l -> slots_ok i l -> forallb nohash l = true ->
  (forall x, In x l -> canon x = true -> max_key_len (content_of x) < f) ->
  exists l' w, hc_go (fun x => hash_node H c x false) i l = Ok (items H f i l, l', w)
               /\ map erase l' = map erase l /\ wr_ok w /\ Forall (cov1 (wstored w)) l.
Proof.
  intros Hdb. induction l as [|x t IH]; intros i HF Hs Hn Hm.
  - exists [], []. split; [reflexivity|]. split; [reflexivity|]. split; constructor.
  - rewrite hc_go_cons. inversion HF as [|? ? Hx HF']; subst.
    destruct Hs as [Hxok Hs]. cbn [forallb] in Hn. apply andb_prop in Hn as [Hnx Hnt].
    destruct (IH (S i) HF' Hs Hnt (fun y Hy => Hm y (or_intror Hy))) as (t' & wt & Et & Eet & Hwt & Hcvt).
    destruct (slot_specd c f i x Hdb Hx Hxok Hnx (Hm x (or_introl eq_refl))) as (x' & wx & Ex & Eex & Hwx & Hcvx).
    rewrite Ex. cbn [bind]. rewrite Et. cbn [bind].
    exists (x' :: t'), (wx ++ wt). split; [reflexivity|]. split; [cbn [map]; now rewrite Eex, Eet|].
    split; [apply Forall_app; split; assumption|]. constructor.
    + apply (cov1_mono (wstored wx)); [|exact Hcvx]. intros m _. apply wstored_app_l.
    + eapply Forall_impl; [|exact Hcvt]. intros y. apply cov1_mono. intros m _. apply wstored_app_r.
Qed.

Theorem hash_node_okd : forall n, hash_okd n.
Proof.
  induction n as [|k ch f IH|cs f IH|h|v] using node_ind';
    unfold hash_okd; intros Hc Hn c force Hdb; try discriminate Hc.
  - (* short node *)
    pose proof Hc as Hc'. rewrite canon_short in Hc'. apply andb_prop in Hc' as [Hk Hc'].
    assert (Hkne : k <> []) by (destruct k; [discriminate Hk|discriminate]).
    cbn [nohash] in Hn. apply andb_prop in Hn as [Hf Hnch].
    unfold fnohash in Hf. destruct (fhash f) eqn:Ef; [discriminate Hf|].
    rewrite (hash_node_walk H) by exact Ef.
    destruct ch as [| | cs0 f0 | |v]; try discriminate Hc'.
    + (* extension *)
      apply andb_prop in Hc' as [Hp Hcc].
      destruct (IH Hcc Hnch c false Hdb) as (ch' & w1 & E & Ee & Hw1 & Hcv1 & Hst1).
      rewrite hash_children_short_full, E. cbn [bind].
      destruct (spec_item_ext H k cs0 f0 f Hkne Hp Hcc) as (m & Hm & Es).
      rewrite (n_ref_spec H m _ Hcc Hm) in Es.
      destruct (store_finish c (NShort k (NFull cs0 f0) f) (NShort k ch' f) w1 force
                  (Lst [Str (hex_to_compact k); href_item (href_of (NFull cs0 f0) false)]) Hdb Hc)
        as (n' & w & E2 & Ee2 & R).
      * rewrite href_item_of. symmetry. exact Es.
      * exact Hw1.
      * split; [|exact Hcv1]. intros _ Hb. apply Hst1. right. exact Hb.
      * exists n', w. split; [exact E2|]. split; [|exact R].
        rewrite Ee2. cbn [erase]. now rewrite Ee.
    + (* leaf *)
      apply andb_prop in Hc' as [Ht Hv].
      rewrite hash_children_short_val. cbn [bind].
      destruct (store_finish c (NShort k (NVal v) f) (NShort k (NVal v) f) [] force
                  (Lst [Str (hex_to_compact k); Str v]) Hdb Hc)
        as (n' & w & E2 & Ee2 & R).
      * symmetry. apply spec_item_leaf. exact Ht.
      * constructor.
      * split; [intros Hcv; discriminate Hcv|exact I].
      * exists n', w. split; [exact E2|]. split; [exact Ee2|exact R].
  - (* full node *)
    destruct (canon_full_inv _ _ Hc) as (Hl & Hb & Hv & H16 & Hcnt).
    cbn [nohash] in Hn. apply andb_prop in Hn as [Hf Hncs].
    unfold fnohash in Hf. destruct (fhash f) eqn:Ef; [discriminate Hf|].
    rewrite (hash_node_walk H) by exact Ef.
    destruct (spec_item_full H cs f Hc) as (m & Hm & Es).
    destruct (go_specd c m Hdb cs 0 IH (canon_slots_ok _ _ Hc) Hncs Hm) as (cs' & w1 & Eg & Ee & Hw1 & Hcv1).
    rewrite hash_children_full, Eg. cbn [bind].
    destruct (store_finish c (NFull cs f) (NFull cs' f) w1 force (Lst (items H m 0 cs)) Hdb Hc)
      as (n' & w & E2 & Ee2 & R).
    + symmetry. exact Es.
    + exact Hw1.
    + apply covers_p_full. exact Hcv1.
    + exists n', w. split; [exact E2|]. split; [|exact R].
      rewrite Ee2. cbn [erase]. now rewrite Ee.
Qed.

(* what Commit writes below a canonical node without cached hashes *)
Theorem hash_node_commit : forall n c force fuel,
  canon n = true -> nohash n = true -> hdb c = true -> max_key_len (content_of n) < fuel ->
  exists n' w,
    hash_node H c n force =
      Ok (if (lenN (encode (mpt_c H fuel (content_of n))) <? 32)%N && negb force
          then RInline (mpt_c H fuel (content_of n))
          else RHash (H (encode (mpt_c H fuel (content_of n)))), n', w)
    /\ erase n' = erase n
    /\ (forall d, db_sound d ->
          db_sound (db_put_all d w)
          /\ covers (db_put_all d w) n
          /\ ((force = true \/ big H n = true) -> stored (db_put_all d w) n)
          /\ (forall m, canon m = true -> stored d m -> stored (db_put_all d w) m)).
Proof.
  intros n c force fuel Hc Hn Hdb Hfuel.
  destruct (hash_node_okd n Hc Hn c force Hdb) as (n' & w & E & Ee & Hw & Hcv & Hst).
  exists n', w. rewrite (spec_item_fuel H n fuel Hc Hfuel). split; [exact E|]. split; [exact Ee|].
  intros d Hs. split; [apply db_put_all_sound; assumption|]. split; [|split].
  - unfold covers. apply (covers_p_mono (wstored w)); [|exact Hcv].
    intros m Hcm Hin. apply stored_put_all; assumption.
  - intros Hfb. apply stored_put_all; auto.
  - intros m _ Hsm. apply stored_mono. exact Hsm.
Qed.

(* ------------------------------------------------------------------ stage 3: commit, reopen, get *)

Lemma root_hash_eq root : canon root = true ->
  H (spec_enc H root) = mpt_root_hex H (content_of root).
Proof.
  intros Hc. unfold mpt_root_hex, spec_enc, spec_item.
  pose proof (canon_content_ne root Hc) as Hne.
  destruct (content_of root); [congruence|reflexivity].
Qed.

Lemma hash_root_canon t withdb : canon (troot t) = true ->
  hash_root H t withdb =
  bind (hash_node H (mkHctx withdb (tgen t) (tlimit t)) (troot t) true) (fun '(hr, cached, w) =>
    match hr with RHash h => Ok (to_hash h, cached, w) | RInline _ => Panic end).
Proof. intros Hc. unfold hash_root. destruct (troot t); try discriminate Hc; reflexivity. Qed.

Lemma try_get_nil fuel d gen key : try_get (S fuel) d gen NNil key = Ok (None, NNil, false).
Proof. reflexivity. Qed.

Lemma key_fuel_S key : key_fuel key = S (3 * length key + 7).
Proof. clear. unfold key_fuel. lia. Qed.

(* trie.New on the hash of a stored canonical root, then TryGet *)
Lemma reopen_canon root d r : canon root = true -> all_fits H root -> covers d root -> stored d root ->
  r = H (spec_enc H root) -> r <> zero_hash -> r <> empty_root H ->
  exists t2, trie_new H r d = Ok t2 /\
    forall k, exists t3, trie_get t2 d k = Ok (lookup (content_of root) (keybytes_to_hex k), t3).
Proof.
  intros Hc Hfit Hcov Hst -> Hz He.
  exists (mkTrie (dec_node H 0 (Some (H (spec_enc H root))) root) 0 0). split.
  - unfold trie_new. apply bytes_eqb_neq in Hz, He. rewrite Hz, He. cbn [orb].
    rewrite (resolve_stored d root 0 Hc (all_fits_top root Hc Hfit) Hst). reflexivity.
  - intros k. unfold trie_get. cbn [troot tgen tlimit].
    destruct (get_unl (key_fuel (keybytes_to_hex k)) d 0 root
                (dec_node H 0 (Some (H (spec_enc H root))) root) (keybytes_to_hex k) Hc Hfit Hcov)
      as (x' & did & E & U).
    + intros h _. exact Hst.
    + apply dec_unl. exact Hc.
    + apply TrieDecodeProofs.tkeyb_keybytes_to_hex.
    + unfold key_fuel. generalize (length (keybytes_to_hex k)). clear. intros n. lia.
    + rewrite E. cbn [bind]. eexists. reflexivity.
Qed.

Theorem commit_reopen : forall t d r t' d',
  canon_root (troot t) = true -> nohash (troot t) = true -> all_fits H (troot t) -> db_sound d ->
  trie_commit H t d = Ok (r, t', d') -> r <> zero_hash -> (troot t <> NNil -> r <> empty_root H) ->
  r = mpt_root_hex H (content_of (troot t)) /\ db_sound d' /\
  exists t2, trie_new H r d' = Ok t2 /\
    forall k, exists t3, trie_get t2 d' k = Ok (lookup (content_of (troot t)) (keybytes_to_hex k), t3).
Proof.
  intros t d r t' d' Hcr Hnh Hfit Hs Hcm Hz He.
  unfold canon_root in Hcr. apply orb_true_iff in Hcr as [Hnil|Hc].
  - (* the empty trie *)
    apply D.is_nil_eq in Hnil. unfold trie_commit, hash_root in Hcm. rewrite Hnil in *.
    cbn [bind] in Hcm. injection Hcm as <- <- <-.
    split; [reflexivity|]. split; [exact Hs|].
    exists empty_trie. split.
    + unfold trie_new. rewrite (bytes_eqb_refl (empty_root H)), orb_true_r. reflexivity.
    + intros k. unfold trie_get. cbn [troot tgen tlimit empty_trie].
      rewrite key_fuel_S, try_get_nil. cbn [bind]. eexists. reflexivity.
  - (* a canonical root *)
    assert (Hne : troot t <> NNil) by (intros E; rewrite E in Hc; discriminate Hc).
    specialize (He Hne).
    unfold trie_commit in Hcm. rewrite (hash_root_canon t true Hc) in Hcm.
    destruct (hash_node_okd (troot t) Hc Hnh (mkHctx true (tgen t) (tlimit t)) true eq_refl)
      as (n' & w & E & _ & Hw & Hcv & Hst).
    unfold href_of in E. cbn [negb] in E. rewrite andb_false_r in E.
    rewrite E in Hcm. cbn [bind] in Hcm. rewrite (to_hash_H H Hlen) in Hcm.
    injection Hcm as <- <- <-.
    split; [apply root_hash_eq; exact Hc|].
    split; [apply db_put_all_sound; assumption|].
    apply (reopen_canon (troot t) (db_put_all d w) _ Hc Hfit).
    + unfold covers. apply (covers_p_mono (wstored w)); [|exact Hcv].
      intros m Hcm Hin. apply stored_put_all; assumption.
    + apply stored_put_all; auto.
    + reflexivity.
    + exact Hz.
    + exact He.
Qed.

End Reopen.
