(* Trie/IterModel.v — trie/iterator.go as the state machine it is: nodeIterator
   (stack of nodeIteratorState, path, err; newNodeIterator / seek / peek / nextChild
   / push / pop / Next / Leaf / LeafKey / LeafBlob / Hash / Parent / Path / Error) and
   Iterator.Next on top of it.  Code-shaped, definitions only (extracted).
   The stack is kept with its TOP FIRST.  Mutation of parent.index through the
   *int that peek returns is modelled by returning the updated stack. *)
From AQ Require Import Lib.Bytes Rlp.RlpSpec Trie.TrieModel.
Local Open Scope N_scope.

Section IterModel.
Variable H : bytes -> bytes.

(* nodeIteratorState; index is an int starting at -1 *)
Record itst := mkItst { is_hash : bytes; is_node : node; is_parent : bytes; is_index : Z; is_pathlen : nat }.

Inductive iterr := ENone | EEnd | ESeek (key : bytes) (missing : bool) | EMissing | EPanic | EFuel.
(* missing = the inner error of a seekError (here only MissingNode / panic-free errors occur) *)

Record niter := mkNiter { it_live : bool (* trie != nil *); it_stack : list itst; it_path : bytes; it_err : iterr }.

Definition zero32 : bytes := repeat x00 32.

(* child.cache() hash as common.BytesToHash(hash): the zero hash when nothing is cached *)
Definition cached_hash (n : node) : bytes :=
  match n with
  | NShort _ _ f | NFull _ f => match fhash f with Some h => to_hash h | None => zero32 end
  | _ => zero32
  end.

(* nodeIteratorState.resolve *)
Definition st_resolve (d : db) (gen : N) (st : itst) : res itst :=
  match is_node st with
  | NHash h => bind (resolve_hash d h gen) (fun r =>
                 Ok (mkItst (to_hash h) r (is_parent st) (is_index st) (is_pathlen st)))
  | _ => Ok st
  end.

(* nextChild(parent, ancestor): Some (parent with updated index, child state, path) or None *)
Definition next_child (path : bytes) (parent : itst) (ancestor : bytes) : option (itst * itst * bytes) :=
  match is_node parent with
  | NFull cs _ =>
    (fix go (i : nat) (l : list node) {struct l} : option (itst * itst * bytes) :=
       match l with
       | [] => None
       | c :: t =>
         if Z.ltb (is_index parent) (Z.of_nat i) && negb (is_nil c) then
           Some (mkItst (is_hash parent) (is_node parent) (is_parent parent) (Z.of_nat i - 1) (is_pathlen parent),
                 mkItst (cached_hash c) c ancestor (-1) (length path),
                 path ++ [n2b (N.of_nat i)])
         else go (S i) t
       end) O cs
  | NShort k v _ =>
    if Z.ltb (is_index parent) 0 then
      Some (parent, mkItst (cached_hash v) v ancestor (-1) (length path), path ++ k)
    else None
  | _ => None
  end.

(* result of peek: the stack/path after the pops (and index updates), and either a
   state to push (with: is there a parent whose index push must increment) or an error *)
Inductive peekres :=
| PState (stack : list itst) (path : bytes) (st : itst) (has_parent : bool) (newpath : bytes)
| PErr (stack : list itst) (path : bytes) (e : iterr).

(* the loop of peek over the stack (top first) *)
Fixpoint peek_loop (d : db) (gen : N) (stack : list itst) (path : bytes) : peekres :=
  match stack with
  | [] => PErr [] path EEnd
  | parent :: below =>
    let ancestor := if bytes_eqb (is_hash parent) zero32 then is_parent parent else is_hash parent in
    match next_child path parent ancestor with
    | Some (parent', st, newpath) =>
      match st_resolve d gen st with
      | Ok st' => PState (parent' :: below) path st' true newpath
      | Missing => PErr (parent' :: below) path EMissing
      | Panic => PErr (parent' :: below) path EPanic
      | _ => PErr (parent' :: below) path EFuel
      end
    | None => peek_loop d gen below (firstn (is_pathlen parent) path)      (* it.pop() *)
    end
  end.

(* it.pop() *)
Definition it_pop (stack : list itst) (path : bytes) : list itst * bytes :=
  match stack with
  | [] => ([], path)              (* Go would panic on an empty stack; never reached: peek pops only when non-empty *)
  | top :: below => (below, firstn (is_pathlen top) path)
  end.

(* peek(descend); root_hash/root: it.trie.Hash() and it.trie.root at that moment *)
Definition peek (d : db) (gen : N) (root_hash : bytes) (root : node) (it : niter) (descend : bool) : peekres :=
  match it_stack it with
  | [] =>
    let st := mkItst (if bytes_eqb root_hash (empty_root H) then zero32 else root_hash) root zero32 (-1) O in
    match st_resolve d gen st with
    | Ok st' => PState [] (it_path it) st' false []
    | Missing => PErr [] (it_path it) EMissing
    | Panic => PErr [] (it_path it) EPanic
    | _ => PErr [] (it_path it) EFuel
    end
  | _ =>
    let '(stack, path) := if descend then (it_stack it, it_path it) else it_pop (it_stack it) (it_path it) in
    peek_loop d gen stack path
  end.

(* push(state, parentIndex, path) *)
Definition it_push (stack : list itst) (st : itst) (has_parent : bool) : list itst :=
  match has_parent, stack with
  | true, p :: below => st :: mkItst (is_hash p) (is_node p) (is_parent p) (is_index p + 1) (is_pathlen p) :: below
  | _, _ => st :: stack
  end.

(* bytes.HasPrefix(key, path) and bytes.Compare(path, key) >= 0 *)
Fixpoint is_prefix (p key : bytes) : bool :=
  match p, key with
  | [], _ => true
  | a :: p', b :: k' => byte_eqb a b && is_prefix p' k'
  | _ :: _, [] => false
  end.
Fixpoint bytes_ge (a b : bytes) : bool :=       (* a >= b lexicographically *)
  match a, b with
  | _, [] => true
  | [], _ :: _ => false
  | x :: a', y :: b' => if b2n y <? b2n x then true else if b2n x <? b2n y then false else bytes_ge a' b'
  end.

(* seek(prefix) *)
Fixpoint seek_loop (fuel : nat) (d : db) (gen : N) (root_hash : bytes) (root : node)
         (key : bytes) (prefix : bytes) (it : niter) : niter :=
  match fuel with
  | O => mkNiter (it_live it) (it_stack it) (it_path it) EFuel
  | S f =>
    match peek d gen root_hash root it (is_prefix (it_path it) key) with
    | PErr stack path EEnd => mkNiter (it_live it) stack path EEnd
    | PErr stack path EMissing => mkNiter (it_live it) stack path (ESeek prefix true)
    | PErr stack path e => mkNiter (it_live it) stack path e
    | PState stack path st hp newpath =>
      if bytes_ge newpath key then mkNiter (it_live it) stack path ENone
      else seek_loop f d gen root_hash root key prefix (mkNiter (it_live it) (it_push stack st hp) newpath (it_err it))
    end
  end.
Definition it_seek (fuel : nat) (d : db) (gen : N) (root_hash : bytes) (root : node) (prefix : bytes) (it : niter) : niter :=
  seek_loop fuel d gen root_hash root (removelast (keybytes_to_hex prefix)) prefix it.

(* Next(descend): (moved?, iterator) *)
Definition it_next (fuel : nat) (d : db) (gen : N) (root_hash : bytes) (root : node) (it : niter) (descend : bool)
  : bool * niter :=
  if negb (it_live it) then (false, mkNiter false (it_stack it) (it_path it) EPanic) else
  match it_err it with
  | EEnd => (false, it)
  | EMissing | EPanic | EFuel => (* a plain error stays in it.err; peek runs again *)
    match peek d gen root_hash root it descend with
    | PErr stack path e => (false, mkNiter true stack path e)
    | PState stack path st hp newpath => (true, mkNiter true (it_push stack st hp) newpath ENone)
    end
  | ESeek key _ =>
    let it' := it_seek fuel d gen root_hash root key (mkNiter true (it_stack it) (it_path it) ENone) in
    match it_err it' with
    | ENone =>
      match peek d gen root_hash root it' descend with
      | PErr stack path e => (false, mkNiter true stack path e)
      | PState stack path st hp newpath => (true, mkNiter true (it_push stack st hp) newpath ENone)
      end
    | _ => (false, it')
    end
  | ENone =>
    match peek d gen root_hash root it descend with
    | PErr stack path e => (false, mkNiter true stack path e)
    | PState stack path st hp newpath => (true, mkNiter true (it_push stack st hp) newpath ENone)
    end
  end.

(* newNodeIterator(trie, start) after trie.Hash() gave root_hash: emptyState is keccak256(nil) *)
Definition it_new (fuel : nat) (d : db) (gen : N) (root_hash : bytes) (root : node) (start : bytes) : niter :=
  if bytes_eqb root_hash (H []) then mkNiter false [] [] ENone
  else it_seek fuel d gen root_hash root start (mkNiter true [] [] ENone).

(* accessors *)
Definition it_hash (it : niter) : bytes := match it_stack it with [] => zero32 | s :: _ => is_hash s end.
Definition it_parent (it : niter) : bytes := match it_stack it with [] => zero32 | s :: _ => is_parent s end.
Definition it_leaf (it : niter) : bool := has_term (it_path it).
Definition it_leaf_blob (it : niter) : res bytes :=
  match it_stack it with {| is_node := NVal v |} :: _ => Ok v | _ => Panic end.
Definition it_leaf_key (it : niter) : res bytes :=
  match it_stack it with {| is_node := NVal _ |} :: _ => hex_to_keybytes (it_path it) | _ => Panic end.
(* Error(): iteratorEnd is no error; a seekError reports its inner error *)
Definition it_error (it : niter) : iterr :=
  match it_err it with EEnd => ENone | ESeek _ true => EMissing | ESeek _ false => EPanic | e => e end.

(* Iterator.Next: advance to the next leaf; result: the (key, value) or the final error *)
Fixpoint kv_next (fuel : nat) (d : db) (gen : N) (root_hash : bytes) (root : node) (it : niter)
  : res (option (bytes * bytes)) * niter :=
  match fuel with
  | O => (OutOfFuel, it)
  | S f =>
    let '(moved, it') := it_next (S f) d gen root_hash root it true in
    if moved then
      if it_leaf it' then
        match it_leaf_key it', it_leaf_blob it' with
        | Ok k, Ok v => (Ok (Some (k, v)), it')
        | _, _ => (Panic, it')
        end
      else kv_next f d gen root_hash root it'
    else match it_error it' with
         | ENone => (Ok None, it')
         | EMissing => (Missing, it')
         | EFuel => (OutOfFuel, it')
         | _ => (Panic, it')
         end
  end.

(* drain an Iterator *)
Fixpoint kv_all (fuel : nat) (d : db) (gen : N) (root_hash : bytes) (root : node) (it : niter)
  : res (list (bytes * bytes)) :=
  match fuel with
  | O => OutOfFuel
  | S f =>
    match kv_next (S f) d gen root_hash root it with
    | (Ok (Some kv), it') => bind (kv_all f d gen root_hash root it') (fun l => Ok (kv :: l))
    | (Ok None, _) => Ok []
    | (Err, _) => Err | (Missing, _) => Missing | (Panic, _) => Panic | (OutOfFuel, _) => OutOfFuel
    end
  end.

(* trie.NewIterator(t.NodeIterator(start)) drained: newNodeIterator calls t.Hash() first *)
Definition trie_iterate_from (t : trie) (d : db) (start : bytes) (fuel : nat) : res (list (bytes * bytes) * trie) :=
  bind (trie_hash H t) (fun '(rh, t') =>
    let it := it_new fuel d (tgen t') rh (troot t') start in
    bind (kv_all fuel d (tgen t') rh (troot t') it) (fun l => Ok (l, t'))).
End IterModel.
