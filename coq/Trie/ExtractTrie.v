(* Extraction of the trie model for ocaml/trie/driver.ml.  ExtrOcamlBasic only.
   The hash parameter is instantiated with the Gallina Keccak-256. *)
From AQ Require Import Lib.Bytes Lib.ExtractBase Lib.Keccak Rlp.RlpSpec Trie.MptSpec Trie.TrieModel.
Require Extraction.
Require Import ExtrOcamlBasic.

Definition k_run_ops (ops : list op) : state * list obs := run_ops keccak256 (init_state) ops.
Definition k_step (s : state) (o : op) : state * obs := step keccak256 s o.
Definition k_mpt_root (c : content) : bytes := mpt_root keccak256 c.
Definition k_verify (root key : bytes) (nodes : list bytes) : res (option bytes) :=
  verify_proof root key (proof_db_of keccak256 nodes).
Definition k_decode (hash : option bytes) (buf : bytes) : res node := decode_node_top hash buf 0.

Extraction "../ocaml/trie/model.ml" base_anchor keccak256
  k_run_ops k_step init_state k_mpt_root k_verify k_decode hex_to_compact compact_to_hex keybytes_to_hex hex_to_keybytes.
