(* Extraction of the trie model for ocaml/trie/driver.ml.  ExtrOcamlBasic only.
   The hash parameter is instantiated with the Gallina Keccak-256. *)
From AQ Require Import Lib.Bytes Lib.ExtractBase Lib.Keccak Rlp.RlpSpec Trie.MptSpec Trie.TrieModel Trie.SecureModel Trie.IterModel Trie.DbModel Import.DeriveShaCode.
Require Extraction.
Require Import ExtrOcamlBasic.

Definition k_run_ops (ops : list op) : state * list obs := run_ops keccak256 (init_state) ops.
Definition k_step (s : state) (o : op) : state * obs := step keccak256 s o.
Definition k_mpt_root (c : content) : bytes := mpt_root keccak256 c.
Definition k_verify (root key : bytes) (nodes : list bytes) : res (option bytes) :=
  verify_proof root key (proof_db_of keccak256 nodes).
Definition k_decode (hash : option bytes) (buf : bytes) : res node := decode_node_top hash buf 0.

(* wrappers and the iterator state machine, at Keccak *)
Definition k_sec_step (s : sstate) (o : sop) : sstate * obs := sec_step keccak256 s o.
Definition k_derive_sha (items : list bytes) : res bytes := derive_sha_code keccak256 [] items.
Definition k_trie_hash (t : trie) : res (bytes * trie) := trie_hash keccak256 t.
Definition k_it_new (fuel : nat) (d : db) (gen : N) (rh : bytes) (root : node) (start : bytes) : niter :=
  it_new keccak256 fuel d gen rh root start.
Definition k_it_next (fuel : nat) (d : db) (gen : N) (rh : bytes) (root : node) (it : niter) (descend : bool) : bool * niter :=
  it_next keccak256 fuel d gen rh root it descend.
Definition k_iterate_from (t : trie) (d : db) (start : bytes) (fuel : nat) : res (list (bytes * bytes) * trie) :=
  trie_iterate_from keccak256 t d start fuel.

Extraction "../ocaml/trie/model.ml" base_anchor keccak256
  k_run_ops k_step init_state k_mpt_root k_verify k_decode hex_to_compact compact_to_hex keybytes_to_hex hex_to_keybytes
  k_sec_step sec_init k_derive_sha k_trie_hash k_it_new k_it_next k_iterate_from
  it_hash it_parent it_leaf it_leaf_key it_leaf_blob it_error tdb_commit tdb_node.
