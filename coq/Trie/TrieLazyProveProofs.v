(* Trie/TrieLazyProveProofs.v — proof.go Prove on a trie in its general
   in-memory form (lzf: partly unloaded to hash nodes, cached hashes, dirty
   flags): it emits exactly the proof elements of the loaded canonical trie it
   represents, hence the proof verifies to the content's answer.
   Step 1: prove_path through the database follows the key path of the loaded
           node (kp), recording in-memory forms of the nodes on it.
   Step 2: proof_elems on these in-memory forms = pelems of the loaded nodes.
   Step 3: TrieProveProofs.verify_kp. *)
From Coq Require Import ZifyBool ZifyN ZifyNat.
From AQ Require Import Lib.Bytes Rlp.RlpSpec Rlp.RlpProofs Trie.MptSpec Trie.TrieModel Trie.TrieInv
  Trie.TrieCodecDefs Trie.TrieCodecProofs Trie.TrieDecodeProofs Trie.TrieRootProofs Trie.TrieReopenProofs
  Trie.TrieLazyDefs Trie.TrieLazyInsertProofs Trie.TrieProveProofs Trie.TrieProofs.
From AQ Require Trie.TrieVerifyProofs.
Local Open Scope nat_scope.

(* ------------------------------------------------------------------ one-step equations of prove_path *)

Lemma prove_path_hash fuel d gen h k0 kr :
  prove_path (S fuel) d gen (NHash h) (k0 :: kr) =
  bind (resolve_hash d h gen) (fun r => prove_path fuel d gen r (k0 :: kr)).
Proof. reflexivity. Qed.

Lemma prove_path_short fuel d gen nk nv f k0 kr :
  prove_path (S fuel) d gen (NShort nk nv f) (k0 :: kr) =
  if negb (has_prefix (k0 :: kr) nk) then Ok [NShort nk nv f]
  else bind (prove_path fuel d gen nv (skipn (length nk) (k0 :: kr))) (fun l => Ok (NShort nk nv f :: l)).
Proof. reflexivity. Qed.

Lemma prove_path_full fuel d gen cs f k0 kr :
  prove_path (S fuel) d gen (NFull cs f) (k0 :: kr) =
  bind (get_child cs k0) (fun c => bind (prove_path fuel d gen c kr) (fun l => Ok (NFull cs f :: l))).
Proof. reflexivity. Qed.

Lemma prove_path_nokey fuel d gen n : prove_path (S fuel) d gen n [] = Ok [].
Proof. reflexivity. Qed.

Lemma prove_path_nil fuel d gen key : prove_path (S fuel) d gen NNil key = Ok [].
Proof. destruct key; reflexivity. Qed.

Lemma hash_children_short_nv rec k cx f : is_val cx = false ->
  hash_children rec (NShort k cx f) =
  bind (rec cx) (fun '(r, cch, w) => Ok (Lst [Str (hex_to_compact k); href_item r], NShort k cch f, w)).
Proof. destruct cx; intros E; try discriminate E; reflexivity. Qed.

Section LazyProve.
Variable H : bytes -> bytes.
Hypothesis Hlen : forall x, length (H x) = 32%nat.
Hypothesis Hcf : forall m1 m2, canon m1 = true -> canon m2 = true ->
  H (spec_enc H m1) = H (spec_enc H m2) -> spec_enc H m1 = spec_enc H m2.
(* hashing without database on a node in the invariant (TrieLazyCommitProofs.hash_node_lazy_nodb) *)
Hypothesis Hnodb : forall c force d m x, hdb c = false -> canon m = true -> all_fits H m ->
  lzf H d (negb force) m x -> (force = false -> hash_big H m x) -> db_sound H d ->
  exists x', hash_node H c x force =
     Ok (if big H m || force then RHash (H (spec_enc H m)) else RInline (spec_item H m), x', []).

(* x is a recorded (resolved) in-memory form of the canonical node m *)
Definition pn (d : db) (m x : node) : Prop :=
  canon m = true /\ all_fits H m /\ is_hash x = false /\ exists s, lzf H d s m x.

Lemma lzf_canon_shape d s m x : lzf H d s m x -> canon m = true -> is_val x = false /\ is_nil x = false.
Proof. intros Hl Hc. inversion Hl; subst; try discriminate Hc; split; reflexivity. Qed.

(* ------------------------------------------------------------------ step 1: the path *)

Lemma prove_path_lazy d gen : forall fuel s m x key,
  canon m = true -> all_fits H m -> lzf H d s m x -> (s = true -> hash_big H m x) -> tkeyb key = true ->
  2 * length key + (if is_hash x then 2 else 1) <= fuel ->
  exists x0 xs rest, prove_path fuel d gen x key = Ok (x0 :: xs) /\ kp m key rest /\
    pn d m x0 /\ Forall2 (pn d) rest xs.
Proof using Hlen.
  induction fuel as [|fuel IH]; intros s m x key Hc Hfit Hl Hsz Hk Hfuel;
    [clear - Hfuel; destruct (is_hash x); lia|].
  destruct key as [|k0 kr]; [discriminate Hk|].
  inversion Hl as [s0 m0 Hav | s0 | s0 v0 | s0 k c cx f f' Hlc Hbc Hfl | s0 cs xs f f' Hls Hbs Hfl]; subst;
    try discriminate Hc.
  - (* a hash node: resolved, the decoded node is recorded *)
    cbn [is_hash] in Hfuel. destruct Hav as (_ & _ & Hst & Hcov).
    rewrite prove_path_hash.
    rewrite (resolve_stored H Hlen d m gen Hc (all_fits_top H m Hc Hfit) Hst). cbn [bind].
    assert (Hld : lzf H d s m (dec_node H gen (Some (H (spec_enc H m))) m)).
    { apply (dec_lzf H); [repeat split; assumption|]. intros E. exact (Hsz E _ eq_refl). }
    apply (IH s m _ (k0 :: kr) Hc Hfit Hld).
    + intros _. apply hash_big_nothash. apply dec_node_not_hash. exact Hc.
    + exact Hk.
    + rewrite (dec_node_not_hash H gen _ m Hc). clear - Hfuel. lia.
  - (* short node *)
    cbn [is_hash] in Hfuel. rewrite prove_path_short.
    assert (Hpn : pn d (NShort k c f) (NShort k cx f')).
    { split; [exact Hc|]. split; [exact Hfit|]. split; [reflexivity|]. exists s. exact Hl. }
    destruct (has_prefix (k0 :: kr) k) eqn:Hp; cbn [negb].
    + pose proof Hc as Hc'.
      apply canon_short_inv in Hc' as [Hkne [(v & -> & Ht & _)|(cs & f0 & -> & Hpath & Hcc)]].
      * assert (E : k0 :: kr = k) by (apply tkeyb_prefix_eq; auto).
        assert (Esk : skipn (length k) (k0 :: kr) = []) by (rewrite E; apply skipn_all).
        rewrite Esk. destruct fuel as [|fuel]; [cbn [length] in Hfuel; clear - Hfuel; lia|].
        rewrite prove_path_nokey. cbn [bind].
        exists (NShort k cx f'), [], []. split; [reflexivity|]. split; [apply kp_leaf; exact Hp|].
        split; [exact Hpn|constructor].
      * assert (Hk' : tkeyb (skipn (length k) (k0 :: kr)) = true) by (apply tkeyb_skip_path; auto).
        destruct Hfit as [_ Hfitc].
        destruct (IH true (NFull cs f0) cx (skipn (length k) (k0 :: kr)) Hcc Hfitc Hlc (fun _ => Hbc) Hk')
          as (x0 & xs & rest & E & Hkp & Hp0 & HF).
        { rewrite skipn_length. destruct k as [|a k]; [congruence|]. cbn [length] in *.
          clear - Hfuel. destruct (is_hash cx); lia. }
        rewrite E. cbn [bind].
        exists (NShort k cx f'), (x0 :: xs), (NFull cs f0 :: rest). split; [reflexivity|].
        split; [apply kp_ext; assumption|]. split; [exact Hpn|]. constructor; assumption.
    + exists (NShort k cx f'), [], []. split; [reflexivity|]. split; [apply kp_miss; exact Hp|].
      split; [exact Hpn|constructor].
  - (* full node *)
    cbn [is_hash] in Hfuel. rewrite prove_path_full.
    assert (Hpn : pn d (NFull cs f) (NFull xs f')).
    { split; [exact Hc|]. split; [exact Hfit|]. split; [reflexivity|]. exists s. exact Hl. }
    pose proof Hc as Hc'. apply canon_full_iff in Hc' as (Hl17 & _ & _).
    pose proof (Forall2_len _ _ _ Hls) as Hlx.
    pose proof (key_idx_lt k0 kr Hk) as Hi.
    rewrite get_child_ok by (rewrite <- Hlx, Hl17; exact Hi). cbn [bind].
    pose proof (Forall2_nth_d (lzf H d true) NNil NNil (lzf_nil H d true) _ _ Hls (nidx k0)) as L1.
    pose proof (Forall2_nth_d (hash_big H) NNil NNil (hash_big_nil H) _ _ Hbs (nidx k0)) as B1.
    destruct (is_sf (nth (nidx k0) cs NNil)) eqn:Esf.
    + destruct (full_child_sf cs f _ Hc Esf) as [Hcc Hi16].
      assert (Hk' : tkeyb kr = true).
      { destruct (tkeyb_cons _ _ Hk) as [[_ ->]|(_ & _ & Hkr)]; [|exact Hkr].
        rewrite nidx_term in Hi16. clear - Hi16. lia. }
      apply TrieVerifyProofs.all_fits_full in Hfit as [_ Hfa].
      pose proof (all_fits_child H cs (nidx k0) Hfa) as Hfc.
      destruct (IH true _ _ kr Hcc Hfc L1 (fun _ => B1) Hk') as (x0 & xs0 & rest & E & Hkp & Hp0 & HF).
      { cbn [length] in Hfuel. clear - Hfuel. destruct (is_hash (nth (nidx k0) xs NNil)); lia. }
      rewrite E. cbn [bind].
      exists (NFull xs f'), (x0 :: xs0), (nth (nidx k0) cs NNil :: rest). split; [reflexivity|].
      split; [apply kp_down; assumption|]. split; [exact Hpn|]. constructor; assumption.
    + exists (NFull xs f'), [], []. split; [|split; [apply kp_stop; exact Esf|split; [exact Hpn|constructor]]].
      destruct fuel as [|fuel]; [cbn [length] in Hfuel; clear - Hfuel; lia|].
      destruct (full_child_nsf cs f k0 kr Hc Hk Esf) as [E|(v & E & -> & _)]; rewrite E in L1.
      * apply (lzf_nil_inv H) in L1. rewrite L1, prove_path_nil. reflexivity.
      * apply (lzf_val_inv H) in L1. rewrite L1, prove_path_nokey. reflexivity.
Qed.

(* ------------------------------------------------------------------ step 2: hashChildren gives the specification item *)

Lemma slot_lazy d f i c x : db_sound H d -> child_ok i c -> all_fits H c ->
  lzf H d true c x -> hash_big H c x ->
  (canon c = true -> max_key_len (content_of c) < f) ->
  exists x', hc_slot (fun y => hash_node H c0 y false) i x = Ok (item_at H f i c, x', []).
Proof using Hnodb.
  intros Hs Hok Hfit Hl Hb Hm. unfold hc_slot, child_ok, item_at in *.
  destruct (Nat.ltb i 16).
  - destruct Hok as [->|Hc].
    + apply (lzf_nil_inv H) in Hl. subst x. exists NNil. reflexivity.
    + destruct (Hnodb c0 false d c x eq_refl Hc Hfit Hl (fun _ => Hb) Hs) as (x' & E).
      exists x'.
      assert (Enn : forall (A : Type) (a b : A), match x with NNil => a | _ => b end = b).
      { intros A a b. destruct (lzf_canon_shape d true c x Hl Hc) as [_ Hn].
        destruct x; [discriminate Hn|reflexivity..]. }
      rewrite Enn, E. cbn [bind]. rewrite (n_ref_spec H f c Hc (Hm Hc)).
      destruct (big H c); reflexivity.
  - destruct Hok as [->|[v ->]].
    + apply (lzf_nil_inv H) in Hl. subst x. exists NNil. reflexivity.
    + apply (lzf_val_inv H) in Hl. subst x. exists (NVal v). reflexivity.
Qed.

Lemma go_lazy d f : db_sound H d -> forall cs xs,
  Forall2 (lzf H d true) cs xs -> Forall2 (hash_big H) cs xs ->
  forall i, slots_ok i cs -> Forall (all_fits H) cs ->
  (forall c, In c cs -> canon c = true -> max_key_len (content_of c) < f) ->
  exists xs', hc_go (fun y => hash_node H c0 y false) i xs = Ok (items H f i cs, xs', []).
Proof using Hnodb.
  intros Hs cs xs HL. induction HL as [|c x cs xs Hcx HL IH]; intros HB i Hok Hfit Hm.
  - exists []. reflexivity.
  - inversion HB as [|? ? ? ? Hb HB']; subst. destruct Hok as [Hok1 Hok].
    inversion Hfit as [|? ? Hf1 Hfit']; subst.
    rewrite hc_go_cons.
    destruct (slot_lazy d f i c x Hs Hok1 Hf1 Hcx Hb (Hm c (or_introl eq_refl))) as (x' & Ex).
    destruct (IH HB' (S i) Hok Hfit' (fun y Hy => Hm y (or_intror Hy))) as (xs' & Et).
    rewrite Ex. cbn [bind]. rewrite Et. cbn [bind]. exists (x' :: xs'). reflexivity.
Qed.

Lemma hash_children_lazy d s m x : db_sound H d -> canon m = true -> all_fits H m ->
  lzf H d s m x -> is_hash x = false ->
  exists x' w, hash_children (fun y => hash_node H c0 y false) x = Ok (spec_item H m, x', w).
Proof using Hnodb.
  intros Hs Hc Hfit Hl Hnh.
  inversion Hl as [s0 m0 Hav | s0 | s0 v0 | s0 k c cx f f' Hlc Hbc Hfl | s0 cs xs f f' Hls Hbs Hfl]; subst;
    try discriminate Hc; try discriminate Hnh.
  - (* short node *)
    pose proof Hc as Hc'.
    apply canon_short_inv in Hc' as [Hkne [(v & -> & Ht & _)|(cs & f0 & -> & Hpath & Hcc)]].
    + apply (lzf_val_inv H) in Hlc. subst cx.
      rewrite hash_children_short_val, (spec_item_leaf H) by exact Ht. eauto.
    + destruct Hfit as [_ Hfitc].
      destruct (spec_item_ext H k cs f0 f Hkne Hpath Hcc) as (mm & Hm & E).
      destruct (Hnodb c0 false d (NFull cs f0) cx eq_refl Hcc Hfitc Hlc (fun _ => Hbc) Hs) as (x' & E2).
      rewrite hash_children_short_nv by (exact (proj1 (lzf_canon_shape d true _ cx Hlc Hcc))).
      rewrite E2. cbn [bind]. rewrite E, (n_ref_spec H mm _ Hcc Hm).
      destruct (big H (NFull cs f0)); cbn [orb href_item]; eauto.
  - (* full node *)
    destruct (spec_item_full H cs f Hc) as (mm & Hm & E).
    apply TrieVerifyProofs.all_fits_full in Hfit as [_ Hfa].
    destruct (go_lazy d mm Hs cs xs Hls Hbs 0 (canon_slots_ok _ _ Hc) Hfa Hm) as (xs' & Eg).
    rewrite hash_children_full, Eg. cbn [bind]. rewrite E. eauto.
Qed.

(* ------------------------------------------------------------------ step 2: store and the emitted elements *)

Lemma store_nodb_cached c it cached force : hdb c = false ->
  store H c it cached force =
  (if (lenN (encode it) <? 32)%N && negb force then RInline it
   else RHash (match cached with Some h => h | None => H (encode it) end), []).
Proof.
  intros Hdb. unfold store. cbv zeta. rewrite Hdb.
  destruct ((lenN (encode it) <? 32)%N && negb force); reflexivity.
Qed.

(* a cached hash of a node in the invariant is the hash of the specification encoding *)
Lemma cached_ok d s m x : lzf H d s m x ->
  match (match node_flag x with Some f => fhash f | None => None end) with
  | Some h => h
  | None => H (encode (spec_item H m))
  end = H (spec_enc H m).
Proof.
  intros Hl.
  inversion Hl as [s0 m0 Hav | s0 | s0 v0 | s0 k c cx f f' Hlc Hbc Hfl | s0 cs xs f f' Hls Hbs Hfl]; subst;
    try reflexivity; cbn [node_flag]; destruct Hfl as (Hh & _);
    (destruct (fhash f') as [h|] eqn:Ef; [exact (proj1 (Hh h eq_refl))|reflexivity]).
Qed.

Lemma proof_elems_lazy d : db_sound H d -> forall ms xs first,
  Forall2 (pn d) ms xs -> proof_elems H first xs = Ok (pelems H first ms).
Proof using Hnodb.
  intros Hs ms xs first HF. revert first.
  induction HF as [|m x ms xs Hmx HF IH]; intros first; [reflexivity|].
  destruct Hmx as (Hc & Hfit & Hnh & s & Hl).
  rewrite proof_elems_cons.
  destruct (hash_children_lazy d s m x Hs Hc Hfit Hl Hnh) as (x' & w & E). rewrite E. cbn [bind].
  rewrite store_nodb_cached by reflexivity. rewrite (cached_ok d s m x Hl).
  rewrite (IH false). cbn [pelems]. unfold big. unfold spec_enc at 1 2.
  destruct (N.ltb_spec (lenN (encode (spec_item H m))) 32) as [Hlt|Hge];
    destruct (N.leb_spec 32 (lenN (encode (spec_item H m)))) as [Hle|Hgt];
    try (exfalso; clear - Hlt Hle; lia); try (exfalso; clear - Hge Hgt; lia);
    cbn [andb negb bind orb]; destruct first; reflexivity.
Qed.

(* ------------------------------------------------------------------ Prove on a lazily held trie *)

(* steps 1 and 2: the proof elements are those of the loaded trie *)
Theorem trie_prove_lazy_elems : forall d m t k,
  lazy_trie H d m t -> m <> NNil -> all_fits H m -> db_sound H d ->
  exists rest, kp m (keybytes_to_hex k) rest /\ Forall (fun x => canon x = true) rest /\
    trie_prove H t d k = Ok (pelems H true (m :: rest)).
Proof using Hlen Hnodb.
  intros d m t k (Hcr & Hl & _ & _) Hne Hfit Hs.
  assert (Hc : canon m = true).
  { unfold canon_root in Hcr. apply orb_true_iff in Hcr as [Hn|Hc]; [|exact Hc].
    destruct m; try discriminate Hn. contradiction Hne; reflexivity. }
  unfold trie_prove.
  destruct (prove_path_lazy d (tgen t) (key_fuel (keybytes_to_hex k)) false m (troot t) (keybytes_to_hex k)
              Hc Hfit Hl) as (x0 & xs & rest & E & Hkp & Hp0 & HF).
  { intros E; discriminate E. }
  { apply tkeyb_keybytes_to_hex. }
  { unfold key_fuel. generalize (length (keybytes_to_hex k)). clear. intros n. destruct (is_hash (troot t)); lia. }
  exists rest. split; [exact Hkp|]. split.
  - clear - HF. induction HF as [|a b l1 l2 Hab HF IH]; constructor; [exact (proj1 Hab)|exact IH].
  - rewrite E. cbn [bind]. apply (proof_elems_lazy d Hs). constructor; assumption.
Qed.

Theorem prove_lazy : forall d m t k,
  lazy_trie H d m t -> m <> NNil -> all_fits H m -> db_sound H d ->
  exists p, trie_prove H t d k = Ok p /\
    verify_proof (mpt_root_hex H (content_of m)) k p = Ok (lookup (content_of m) (keybytes_to_hex k)).
Proof using Hlen Hcf Hnodb.
  intros d m t k Hlt Hne Hfit Hs.
  destruct (trie_prove_lazy_elems d m t k Hlt Hne Hfit Hs) as (rest & Hkp & HFc & E).
  destruct Hlt as (Hcr & _).
  assert (Hc : canon m = true).
  { unfold canon_root in Hcr. apply orb_true_iff in Hcr as [Hn|Hc]; [|exact Hc].
    destruct m; try discriminate Hn. contradiction Hne; reflexivity. }
  exists (pelems H true (m :: rest)). split; [exact E|].
  unfold verify_proof. rewrite <- (root_hash_eq H m Hc).
  rewrite pelems_true_length.
  apply (verify_kp H Hlen Hcf (pelems H true (m :: rest))) with (rest := rest).
  - apply (pelems_good H Hcf). constructor; [exact Hc|exact HFc].
  - exact Hkp.
  - exact Hc.
  - exact Hfit.
  - apply tkeyb_keybytes_to_hex.
  - cbn [pelems orb]. now left.
  - intros x Hx Hb. apply pelems_in; [now right|exact Hb].
  - clear. lia.
Qed.

End LazyProve.
