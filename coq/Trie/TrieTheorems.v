(* Trie/TrieTheorems.v — the trie-level theorems of property C10, assembled from
   TrieInsertProofs (insert), TrieDeleteProofs (tryGet, delete), TrieRootProofs
   (hasher = specification), MptSpecProofs (the specification root is a function
   of the finite map), TrieContentProofs (content of a canonical trie is a
   finite map over terminated keys). *)
From Coq Require Import ZifyBool ZifyN ZifyNat Permutation.
From AQ Require Import Lib.Bytes Rlp.RlpSpec Trie.MptSpec Trie.TrieModel Trie.TrieInv Trie.TrieProofs
  Trie.TrieInsertProofs Trie.TrieDeleteProofs Trie.TrieRootProofs Trie.MptSpecProofs Trie.TrieContentProofs
  Trie.TrieDecodeProofs Trie.TrieIterProofs Trie.TrieFlagsProofs Trie.TrieCodecDefs Trie.TrieVerifyProofs Trie.TrieReopenProofs.
Local Open Scope N_scope.

(* a canonical, fully loaded trie without cached hashes: what update / delete /
   get produce from the empty trie *)
Definition canon_trie (t : trie) : Prop := canon_root (troot t) = true.
Definition fresh_trie (t : trie) : Prop := canon_root (troot t) = true /\ nohash (troot t) = true.
(* its abstract content: (terminated nibble key, value) pairs *)
Definition tcontent (t : trie) : content := content_of (troot t).
(* the finite map it represents, over byte keys *)
Definition tmap (t : trie) (k : bytes) : option bytes := lookup (tcontent t) (keybytes_to_hex k).

Lemma keybytes_to_hex_nibbles k : keybytes_to_hex k = key_nibbles k.
Proof. induction k as [|b t IH]; [reflexivity|]. cbn [keybytes_to_hex key_nibbles]. now rewrite IH. Qed.
Lemma tkeyb_hex k : tkeyb (keybytes_to_hex k) = true.
Proof. rewrite keybytes_to_hex_nibbles. apply tkeyb_key_nibbles. Qed.
Lemma hex_eqb k k' : bytes_eqb (keybytes_to_hex k) (keybytes_to_hex k') = bytes_eqb k k'.
Proof.
  destruct (bytes_eqb_spec k k') as [->|Hn]; [apply bytes_eqb_refl|].
  apply bytes_eqb_neq. intros E. apply Hn. rewrite !keybytes_to_hex_nibbles in E. now apply key_nibbles_inj.
Qed.
Lemma key_fuel_ok k : (length k < key_fuel k)%nat.
Proof. unfold key_fuel. lia. Qed.

(* TryGet is the lookup in the content, and does not change the trie *)
Theorem trie_get_spec : forall t d k, canon_trie t -> trie_get t d k = Ok (tmap t k, t).
Proof.
  intros t d k Hc. unfold trie_get.
  rewrite try_get_lookup by (auto using tkeyb_hex, key_fuel_ok). reflexivity.
Qed.

(* TryUpdate with a non-empty value: total, canonical shape kept, finite-map update *)
Theorem trie_update_spec : forall t d k v, fresh_trie t -> v <> [] ->
  exists t', trie_update t d k v = Ok t' /\ fresh_trie t' /\ tgen t' = tgen t /\ tlimit t' = tlimit t /\
    forall k', tmap t' k' = if bytes_eqb k k' then Some v else tmap t k'.
Proof.
  intros t d k v [Hc Hh] Hv. unfold trie_update. destruct v as [|v0 v]; [contradiction|].
  destruct (insert_canon (key_fuel (keybytes_to_hex k)) d (tgen t) (troot t) (keybytes_to_hex k) (v0 :: v)
              Hc (tkeyb_hex k) eq_refl (key_fuel_ok _)) as (dirty & n' & E & Hc' & _ & _ & Hlk & Hnh).
  rewrite E. cbn [bind]. eexists. split; [reflexivity|]. split.
  - split; cbn [troot]; [unfold canon_root; now rewrite Hc', orb_true_r|auto].
  - split; [reflexivity|]. split; [reflexivity|].
    intros k'. unfold tmap, tcontent. cbn [troot]. now rewrite Hlk, hex_eqb.
Qed.

(* TryDelete (= TryUpdate with an empty value) *)
Theorem trie_delete_spec : forall t d k, fresh_trie t ->
  exists t', trie_delete t d k = Ok t' /\ fresh_trie t' /\ tgen t' = tgen t /\ tlimit t' = tlimit t /\
    forall k', tmap t' k' = if bytes_eqb k k' then None else tmap t k'.
Proof.
  intros t d k [Hc Hh]. unfold trie_delete.
  destruct (delete_spec (key_fuel (keybytes_to_hex k)) d (tgen t) (troot t) (keybytes_to_hex k)
              Hc (tkeyb_hex k) (key_fuel_ok _)) as (dirty & n' & E & Hc' & Hlk & Hnh).
  rewrite E. cbn [bind]. eexists. split; [reflexivity|]. split; [split; cbn [troot]; auto|].
  split; [reflexivity|]. split; [reflexivity|].
  intros k'. unfold tmap, tcontent. cbn [troot]. now rewrite Hlk, hex_eqb by apply tkeyb_hex.
Qed.

(* histories of updates (an empty value deletes, as in Trie.Update) over any database *)
Fixpoint apply_ops (t : trie) (d : db) (ops : list (bytes * bytes)) : res trie :=
  match ops with
  | [] => Ok t
  | (k, v) :: r => bind (trie_update t d k v) (fun t' => apply_ops t' d r)
  end.
(* the finite map a history denotes *)
Fixpoint map_ops (m : bytes -> option bytes) (ops : list (bytes * bytes)) : bytes -> option bytes :=
  match ops with
  | [] => m
  | (k, v) :: r =>
    map_ops (fun k' => if bytes_eqb k k' then (match v with [] => None | _ => Some v end) else m k') r
  end.

Theorem apply_ops_spec : forall ops t d m, fresh_trie t -> (forall k, tmap t k = m k) ->
  exists t', apply_ops t d ops = Ok t' /\ fresh_trie t' /\ forall k, tmap t' k = map_ops m ops k.
Proof.
  induction ops as [|[k v] ops IH]; intros t d m Hf Hm.
  - exists t. auto.
  - cbn [apply_ops map_ops]. destruct v as [|v0 v].
    + destruct (trie_delete_spec t d k Hf) as (t1 & E & Hf1 & _ & _ & Hm1).
      change (trie_update t d k []) with (trie_delete t d k). rewrite E. cbn [bind].
      apply IH; [exact Hf1|]. intros k'. rewrite Hm1, Hm. reflexivity.
    + destruct (trie_update_spec t d k (v0 :: v) Hf ltac:(discriminate)) as (t1 & E & Hf1 & _ & _ & Hm1).
      rewrite E. cbn [bind]. apply IH; [exact Hf1|]. intros k'. rewrite Hm1, Hm. reflexivity.
Qed.

Lemma fresh_empty : fresh_trie empty_trie.
Proof. split; reflexivity. Qed.

Section Root.
Variable H : bytes -> bytes.
Hypothesis Hlen : forall x, length (H x) = 32%nat.

(* Trie.Hash of a canonical trie is the specification root of its content *)
Theorem trie_hash_spec : forall t, fresh_trie t ->
  exists t', trie_hash H t = Ok (mpt_root_hex H (tcontent t), t') /\ erase (troot t') = erase (troot t).
Proof.
  intros t [Hc Hh]. unfold trie_hash.
  destruct (hash_root_spec H Hlen t Hc Hh) as (n' & E & He). rewrite E. cbn [bind].
  eexists. split; [reflexivity|exact He].
Qed.

(* the root is a function of the finite map alone: two canonical tries with the
   same content (as maps over nibble keys) hash to the same root, the
   specification's *)
Theorem root_content_only : forall t1 t2, fresh_trie t1 -> fresh_trie t2 ->
  (forall k, lookup (tcontent t1) k = lookup (tcontent t2) k) ->
  exists r t1' t2', trie_hash H t1 = Ok (r, t1') /\ trie_hash H t2 = Ok (r, t2') /\
                    r = mpt_root_hex H (tcontent t1).
Proof.
  intros t1 t2 H1 H2 Hm.
  destruct (trie_hash_spec t1 H1) as (t1' & E1 & _). destruct (trie_hash_spec t2 H2) as (t2' & E2 & _).
  exists (mpt_root_hex H (tcontent t1)), t1', t2'. split; [exact E1|]. split; [|reflexivity].
  rewrite E2. f_equal. f_equal. symmetry.
  apply mpt_root_hex_ext; auto; apply canon_root_wf_content; [apply H1|apply H2].
Qed.
End Root.

(* histories from the empty trie never fail and denote their finite map *)
Theorem history_spec : forall ops d,
  exists t, apply_ops empty_trie d ops = Ok t /\ fresh_trie t /\
            forall k, tmap t k = map_ops (fun _ => None) ops k.
Proof. intros ops d. apply apply_ops_spec; [apply fresh_empty|reflexivity]. Qed.

Section Histories.
Variable H : bytes -> bytes.
Hypothesis Hlen : forall x, length (H x) = 32%nat.

(* any two histories of updates and deletes that end with the same content end
   with the same root, and it is the specification's root of that content *)
Theorem history_root_content_only : forall ops1 ops2 d1 d2 t1 t2,
  apply_ops empty_trie d1 ops1 = Ok t1 -> apply_ops empty_trie d2 ops2 = Ok t2 ->
  (forall k, lookup (tcontent t1) k = lookup (tcontent t2) k) ->
  exists r t1' t2', trie_hash H t1 = Ok (r, t1') /\ trie_hash H t2 = Ok (r, t2') /\
                    r = mpt_root_hex H (tcontent t1).
Proof.
  intros ops1 ops2 d1 d2 t1 t2 E1 E2 Hm.
  destruct (history_spec ops1 d1) as (t1x & E1x & F1 & _). rewrite E1 in E1x. injection E1x as <-.
  destruct (history_spec ops2 d2) as (t2x & E2x & F2 & _). rewrite E2 in E2x. injection E2x as <-.
  now apply root_content_only.
Qed.
End Histories.

(* ---- the clauses the code does not satisfy ---- *)

(* Prove on the empty trie emits no node; VerifyProof then misses the root node:
   absence in the empty trie has no verifiable proof *)
Theorem empty_trie_absence_not_provable : forall (H : bytes -> bytes) d k,
  exists root p, trie_hash H empty_trie = Ok (root, empty_trie) /\
                 trie_prove H empty_trie d k = Ok p /\ tmap empty_trie k = None /\
                 verify_proof root k p = Err.
Proof.
  intros H d k. exists (empty_root H), []. repeat split.
  unfold trie_prove. cbn [troot empty_trie]. unfold key_fuel.
  destruct (keybytes_to_hex k) eqn:E; [destruct k; discriminate|]. reflexivity.
Qed.

(* ------------------------------------------------------------------ byte keys only *)

(* every key of the content is the nibble form of a byte key (what TryUpdate inserts) *)
Definition hexmap (t : trie) : Prop :=
  forall k v, lookup (tcontent t) k = Some v -> exists kb, k = keybytes_to_hex kb.

Lemma lookup_some_in (J : content) k v : lookup J k = Some v -> In (k, v) J.
Proof.
  induction J as [|[k0 v0] J IH]; cbn [lookup fst snd]; [discriminate|].
  destruct (bytes_eqb_spec k0 k) as [->|]; [intros E; injection E as ->; now left|right; auto].
Qed.

Lemma trie_update_hexmap : forall t d k v t', canon_trie t -> v <> [] -> hexmap t ->
  trie_update t d k v = Ok t' -> hexmap t'.
Proof.
  intros t d k v t' Hc Hv Hm E. unfold trie_update in E. destruct v as [|v0 v]; [contradiction|].
  destruct (insert_canon (key_fuel (keybytes_to_hex k)) d (tgen t) (troot t) (keybytes_to_hex k) (v0 :: v)
              Hc (tkeyb_hex k) eq_refl (key_fuel_ok _)) as (dirty & n' & E' & _ & _ & _ & Hlk & _).
  rewrite E' in E. cbn [bind] in E. injection E as <-.
  intros k' v'. unfold tcontent. cbn [troot]. rewrite Hlk.
  destruct (bytes_eqb_spec (keybytes_to_hex k) k') as [<-|_]; [eauto|apply Hm].
Qed.

Lemma trie_delete_hexmap : forall t d k t', canon_trie t -> hexmap t ->
  trie_delete t d k = Ok t' -> hexmap t'.
Proof.
  intros t d k t' Hc Hm E. unfold trie_delete in E.
  destruct (delete_spec (key_fuel (keybytes_to_hex k)) d (tgen t) (troot t) (keybytes_to_hex k)
              Hc (tkeyb_hex k) (key_fuel_ok _)) as (dirty & n' & E' & Hc' & Hlk & _).
  rewrite E' in E. cbn [bind] in E. injection E as <-.
  intros k' v' Hl. unfold tcontent in Hl. cbn [troot] in Hl.
  assert (Htk : tkeyb k' = true).
  { apply lookup_some_in in Hl. destruct (canon_root_wf_content _ Hc') as [_ Hall].
    rewrite Forall_forall in Hall. exact (Hall _ Hl). }
  rewrite (Hlk k' Htk) in Hl. destruct (bytes_eqb (keybytes_to_hex k) k'); [discriminate|]. exact (Hm _ _ Hl).
Qed.

Theorem apply_ops_hexmap : forall ops t d t', fresh_trie t -> hexmap t -> apply_ops t d ops = Ok t' -> hexmap t'.
Proof.
  induction ops as [|[k v] ops IH]; intros t d t' Hf Hm E; cbn [apply_ops] in E.
  - now injection E as <-.
  - destruct v as [|v0 v].
    + destruct (trie_delete_spec t d k Hf) as (t1 & E1 & Hf1 & _).
      change (trie_update t d k []) with (trie_delete t d k) in E. rewrite E1 in E. cbn [bind] in E.
      exact (IH _ _ _ Hf1 (trie_delete_hexmap _ _ _ _ (proj1 Hf) Hm E1) E).
    + destruct (trie_update_spec t d k (v0 :: v) Hf ltac:(discriminate)) as (t1 & E1 & Hf1 & _).
      rewrite E1 in E. cbn [bind] in E.
      exact (IH _ _ _ Hf1 (trie_update_hexmap t d k (v0 :: v) t1 (proj1 Hf) ltac:(discriminate) Hm E1) E).
Qed.

Lemma hexmap_empty : hexmap empty_trie.
Proof. intros k v. discriminate. Qed.

(* equal byte-key maps are equal nibble-key maps *)
Lemma tmap_ext_lookup : forall t1 t2, hexmap t1 -> hexmap t2 -> (forall kb, tmap t1 kb = tmap t2 kb) ->
  forall k, lookup (tcontent t1) k = lookup (tcontent t2) k.
Proof.
  intros t1 t2 H1 H2 Hm k.
  destruct (lookup (tcontent t1) k) as [v|] eqn:E1.
  - destruct (H1 _ _ E1) as (kb & ->). symmetry. rewrite <- E1. symmetry. apply Hm.
  - destruct (lookup (tcontent t2) k) as [v|] eqn:E2; [|reflexivity].
    destruct (H2 _ _ E2) as (kb & ->). rewrite <- E1, <- E2. apply Hm.
Qed.

Section HistoriesBytes.
Variable H : bytes -> bytes.
Hypothesis Hlen : forall x, length (H x) = 32%nat.

(* the property's statement for update/delete histories: two histories that
   denote the same finite map (over byte keys) end with the same root, which is
   the specification's root of the content *)
Theorem history_root_map_only : forall ops1 ops2 d1 d2 t1 t2,
  apply_ops empty_trie d1 ops1 = Ok t1 -> apply_ops empty_trie d2 ops2 = Ok t2 ->
  (forall kb, map_ops (fun _ => None) ops1 kb = map_ops (fun _ => None) ops2 kb) ->
  exists r t1' t2', trie_hash H t1 = Ok (r, t1') /\ trie_hash H t2 = Ok (r, t2') /\ r = mpt_root_hex H (tcontent t1).
Proof.
  intros ops1 ops2 d1 d2 t1 t2 E1 E2 Hm.
  destruct (history_spec ops1 d1) as (t1x & E1x & F1 & M1). rewrite E1 in E1x. injection E1x as <-.
  destruct (history_spec ops2 d2) as (t2x & E2x & F2 & M2). rewrite E2 in E2x. injection E2x as <-.
  apply (root_content_only H Hlen); auto.
  apply tmap_ext_lookup.
  - exact (apply_ops_hexmap _ _ _ _ fresh_empty hexmap_empty E1).
  - exact (apply_ops_hexmap _ _ _ _ fresh_empty hexmap_empty E2).
  - intros kb. now rewrite M1, M2.
Qed.
End HistoriesBytes.

(* ------------------------------------------------------------------ totality of decoding / verification *)
Theorem decode_top_total : forall hash buf gen,
  decode_node_top hash buf gen <> Panic /\ decode_node_top hash buf gen <> OutOfFuel.
Proof. intros. split; [apply decode_node_top_no_panic|apply decode_node_top_fuel]. Qed.

Theorem verify_never_panics : forall (H : bytes -> bytes) root key nodes,
  verify_proof root key (proof_db_of H nodes) <> Panic.
Proof. intros. apply verify_proof_no_panic. Qed.

(* ------------------------------------------------------------------ histories with intermediate Hash() *)
(* warm_trie H t (TrieFlagsProofs): canonical shape + every cached hash is the
   hash of the node's specification encoding (and, below the root, only cached
   for encodings of at least 32 bytes).  Plain operations: update, delete, get, hash. *)
Section PlainHistories.
Variable H : bytes -> bytes.
Hypothesis Hlen : forall x, length (H x) = 32%nat.

Lemma step_hexmap : forall s o, warm_trie H (strie s) -> plain_op o = true -> hexmap (strie s) ->
  hexmap (strie (fst (step H s o))).
Proof.
  intros s o Hw Hp Hm. pose proof (proj1 Hw) as Hc.
  destruct o as [k v|k|k| | | | | |]; try discriminate; cbn [step].
  - destruct v as [|v0 v].
    + destruct (trie_delete_warm H _ (sdb s) k Hw) as (t' & E & _).
      change (trie_update (strie s) (sdb s) k []) with (trie_delete (strie s) (sdb s) k). rewrite E. cbn [fst strie].
      exact (trie_delete_hexmap _ _ _ _ Hc Hm E).
    + destruct (trie_update_warm H (strie s) (sdb s) k (v0 :: v) Hw ltac:(discriminate)) as (t' & E & _).
      rewrite E. cbn [fst strie]. exact (trie_update_hexmap (strie s) (sdb s) k (v0 :: v) t' Hc ltac:(discriminate) Hm E).
  - destruct (trie_delete_warm H _ (sdb s) k Hw) as (t' & E & _). rewrite E. cbn [fst strie].
    exact (trie_delete_hexmap _ _ _ _ Hc Hm E).
  - rewrite (trie_get_warm H _ (sdb s) k Hw). cbn [fst strie]. exact Hm.
  - destruct (trie_hash_warm H Hlen _ Hw) as (t' & E & _ & _ & Ec & _). rewrite E. cbn [fst strie].
    intros k v. unfold tcontent. rewrite Ec. apply Hm.
Qed.

Lemma run_hexmap : forall ops s, warm_trie H (strie s) -> forallb plain_op ops = true -> hexmap (strie s) ->
  hexmap (strie (fst (run_ops H s ops))).
Proof.
  induction ops as [|o ops IH]; intros s Hw Hp Hm; [exact Hm|].
  cbn [forallb] in Hp. apply andb_true_iff in Hp as [Hpo Hpr].
  cbn [run_ops]. destruct (step_warm H Hlen s o Hw Hpo) as (s1 & E1 & Hw1 & _).
  pose proof (step_hexmap s o Hw Hpo Hm) as Hm1. rewrite E1 in Hm1 |- *. cbn [fst] in Hm1.
  specialize (IH s1 Hw1 Hpr Hm1). destruct (run_ops H s1 ops) as [s2 obl]. exact IH.
Qed.

(* the property for histories of update / delete / get / hash in any order, with
   Hash() called anywhere in between: every operation succeeds, every
   observation is the one the denoted finite map gives (gets = map lookups,
   every intermediate root = the specification root of the content at that
   point), and the final trie is canonical *)
Theorem plain_history_spec : forall ops,
  forallb plain_op ops = true ->
  exists s' obl, run_ops H init_state ops = (s', obl) /\ warm_trie H (strie s') /\ sdb s' = @nil (bytes * bytes) /\
    (forall k, tmap (strie s') k = fold_left op_map ops (fun _ => None) k) /\
    trace_ok H (fun _ => None) ops obl.
Proof.
  intros ops Hp.
  destruct (run_plain_warm H Hlen ops init_state (fun _ => None) (warm_empty H) (fun _ => eq_refl) Hp)
    as (s' & obl & E & Hw & Hd & Hm & Ht).
  exists s', obl. repeat split; auto; apply Hw.
Qed.

(* ... and two such histories that denote the same finite map end with the same
   root: the specification's root of that map's content *)
Theorem plain_history_root_map_only : forall ops1 ops2 s1 s2 ob1 ob2,
  forallb plain_op ops1 = true -> forallb plain_op ops2 = true ->
  run_ops H init_state ops1 = (s1, ob1) -> run_ops H init_state ops2 = (s2, ob2) ->
  (forall kb, fold_left op_map ops1 (fun _ => None) kb = fold_left op_map ops2 (fun _ => None) kb) ->
  exists r t1' t2', trie_hash H (strie s1) = Ok (r, t1') /\ trie_hash H (strie s2) = Ok (r, t2') /\
    r = mpt_root_hex H (tcontent (strie s1)).
Proof.
  intros ops1 ops2 s1 s2 ob1 ob2 P1 P2 E1 E2 Hm.
  destruct (run_plain_warm H Hlen ops1 init_state (fun _ => None) (warm_empty H) (fun _ => eq_refl) P1)
    as (s1x & o1x & E1x & _ & _ & M1 & _). rewrite E1 in E1x. injection E1x as <- <-.
  destruct (run_plain_warm H Hlen ops2 init_state (fun _ => None) (warm_empty H) (fun _ => eq_refl) P2)
    as (s2x & o2x & E2x & _ & _ & M2 & _). rewrite E2 in E2x. injection E2x as <- <-.
  apply (plain_history_root_content_only H Hlen ops1 ops2 s1 s2 ob1 ob2 P1 P2 E1 E2).
  apply tmap_ext_lookup.
  - pose proof (run_hexmap ops1 init_state (warm_empty H) P1 hexmap_empty) as X. now rewrite E1 in X.
  - pose proof (run_hexmap ops2 init_state (warm_empty H) P2 hexmap_empty) as X. now rewrite E2 in X.
  - intros kb. unfold tmap, tcontent. fold (wmap (strie s1) kb). fold (wmap (strie s2) kb). now rewrite M1, M2.
Qed.

(* iteration lists exactly the content, with byte keys, in the iterator's order *)
Theorem trie_iterate_spec : forall t d, warm_trie H t -> hexmap t -> (max_key_len (tcontent t) <= 99)%nat ->
  exists l t', trie_iterate H t d = Ok (l, t') /\ warm_trie H t' /\
    map snd l = map snd (tcontent t) /\ map (fun kv => keybytes_to_hex (fst kv)) l = map fst (tcontent t).
Proof.
  intros t d Hw Hm Hk. unfold trie_iterate.
  destruct (trie_hash_warm H Hlen t Hw) as (t' & E & Hw' & _ & Ec & _). rewrite E. cbn [bind].
  assert (Hall : Forall (fun kv => exists kb, fst kv = keybytes_to_hex kb) (content_of (troot t'))).
  { rewrite Ec. apply Forall_forall. intros [k v] Hin. cbn [fst].
    apply (Hm k v). exact (proj1 (lookup_in H _ k v (proj1 (canon_root_wf_content _ (proj1 Hw)))) Hin). }
  destruct (leaves_hexed (troot t') d (tgen t') (proj1 Hw') ltac:(rewrite Ec; exact Hk) Hall) as (l & El & Hs & Hf).
  rewrite El. cbn [bind]. exists l, t'. unfold tcontent. rewrite <- Ec. auto.
Qed.
End PlainHistories.

(* ------------------------------------------------------------------ commit, reopen, read back *)
Section CommitReopen.
Variable H : bytes -> bytes.
Hypothesis Hlen : forall x, length (H x) = 32%nat.
Hypothesis Hcf : forall m1 m2, canon m1 = true -> canon m2 = true ->
  H (spec_enc H m1) = H (spec_enc H m2) -> spec_enc H m1 = spec_enc H m2.

(* a history of updates/deletes, one Commit, trie.New on the returned root: every
   TryGet on the reopened trie returns what the history's finite map says *)
Theorem history_commit_reopen : forall ops d t r t' d',
  apply_ops empty_trie d ops = Ok t -> all_fits H (troot t) -> db_sound H d ->
  trie_commit H t d = Ok (r, t', d') -> r <> zero_hash -> (troot t <> NNil -> r <> empty_root H) ->
  r = mpt_root_hex H (tcontent t) /\
  exists t2, trie_new H r d' = Ok t2 /\
    forall k, exists t3, trie_get t2 d' k = Ok (map_ops (fun _ => None) ops k, t3).
Proof.
  intros ops d t r t' d' E Hfit Hd Ec Hz He.
  destruct (history_spec ops d) as (tx & Ex & [Hc Hn] & Hm). rewrite E in Ex. injection Ex as <-.
  destruct (commit_reopen H Hlen Hcf t d r t' d' Hc Hn Hfit Hd Ec Hz He) as (Er & _ & t2 & En & Hg).
  split; [exact Er|]. exists t2. split; [exact En|].
  intros k. destruct (Hg k) as (t3 & Eg). exists t3. rewrite Eg. f_equal. f_equal. apply Hm.
Qed.
End CommitReopen.
