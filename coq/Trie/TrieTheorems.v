(* Trie/TrieTheorems.v — the trie-level theorems of property C10, assembled from
   TrieInsertProofs (insert), TrieDeleteProofs (tryGet, delete), TrieRootProofs
   (hasher = specification), MptSpecProofs (the specification root is a function
   of the finite map), TrieContentProofs (content of a canonical trie is a
   finite map over terminated keys). *)
From Coq Require Import ZifyBool ZifyN ZifyNat Permutation.
From AQ Require Import Lib.Bytes Rlp.RlpSpec Trie.MptSpec Trie.TrieModel Trie.TrieInv Trie.TrieProofs
  Trie.TrieInsertProofs Trie.TrieDeleteProofs Trie.TrieRootProofs Trie.MptSpecProofs Trie.TrieContentProofs.
Local Open Scope N_scope.

(* a canonical, fully loaded trie without cached hashes: what update / delete /
   get produce from the empty trie *)
Definition canon_trie (t : trie) : Prop := canon_root (troot t) = true.
Definition fresh_trie (t : trie) : Prop := canon_root (troot t) = true /\ nohash (troot t) = true.
(* its abstract content: (terminated nibble key, value) pairs *)
Definition tcontent (t : trie) : content := content_of (troot t).
(* the finite map it represents, over byte keys *)
Definition tmap (t : trie) (k : bytes) : option bytes := lookup (tcontent t) (keybytes_to_hex k).

Lemma keybytes_to_hex_nibbles k : keybytes_to_hex k = key_nibbles k.
Proof. induction k as [|b t IH]; [reflexivity|]. cbn [keybytes_to_hex key_nibbles]. now rewrite IH. Qed.
Lemma tkeyb_hex k : tkeyb (keybytes_to_hex k) = true.
Proof. rewrite keybytes_to_hex_nibbles. apply tkeyb_key_nibbles. Qed.
Lemma hex_eqb k k' : bytes_eqb (keybytes_to_hex k) (keybytes_to_hex k') = bytes_eqb k k'.
Proof.
  destruct (bytes_eqb_spec k k') as [->|Hn]; [apply bytes_eqb_refl|].
  apply bytes_eqb_neq. intros E. apply Hn. rewrite !keybytes_to_hex_nibbles in E. now apply key_nibbles_inj.
Qed.
Lemma key_fuel_ok k : (length k < key_fuel k)%nat.
Proof. unfold key_fuel. lia. Qed.

(* TryGet is the lookup in the content, and does not change the trie *)
Theorem trie_get_spec : forall t d k, canon_trie t -> trie_get t d k = Ok (tmap t k, t).
Proof.
  intros t d k Hc. unfold trie_get.
  rewrite try_get_lookup by (auto using tkeyb_hex, key_fuel_ok). reflexivity.
Qed.

(* TryUpdate with a non-empty value: total, canonical shape kept, finite-map update *)
Theorem trie_update_spec : forall t d k v, fresh_trie t -> v <> [] ->
  exists t', trie_update t d k v = Ok t' /\ fresh_trie t' /\ tgen t' = tgen t /\ tlimit t' = tlimit t /\
    forall k', tmap t' k' = if bytes_eqb k k' then Some v else tmap t k'.
Proof.
  intros t d k v [Hc Hh] Hv. unfold trie_update. destruct v as [|v0 v]; [contradiction|].
  destruct (insert_canon (key_fuel (keybytes_to_hex k)) d (tgen t) (troot t) (keybytes_to_hex k) (v0 :: v)
              Hc (tkeyb_hex k) eq_refl (key_fuel_ok _)) as (dirty & n' & E & Hc' & _ & _ & Hlk & Hnh).
  rewrite E. cbn [bind]. eexists. split; [reflexivity|]. split.
  - split; cbn [troot]; [unfold canon_root; now rewrite Hc', orb_true_r|auto].
  - split; [reflexivity|]. split; [reflexivity|].
    intros k'. unfold tmap, tcontent. cbn [troot]. now rewrite Hlk, hex_eqb.
Qed.

(* TryDelete (= TryUpdate with an empty value) *)
Theorem trie_delete_spec : forall t d k, fresh_trie t ->
  exists t', trie_delete t d k = Ok t' /\ fresh_trie t' /\ tgen t' = tgen t /\ tlimit t' = tlimit t /\
    forall k', tmap t' k' = if bytes_eqb k k' then None else tmap t k'.
Proof.
  intros t d k [Hc Hh]. unfold trie_delete.
  destruct (delete_spec (key_fuel (keybytes_to_hex k)) d (tgen t) (troot t) (keybytes_to_hex k)
              Hc (tkeyb_hex k) (key_fuel_ok _)) as (dirty & n' & E & Hc' & Hlk & Hnh).
  rewrite E. cbn [bind]. eexists. split; [reflexivity|]. split; [split; cbn [troot]; auto|].
  split; [reflexivity|]. split; [reflexivity|].
  intros k'. unfold tmap, tcontent. cbn [troot]. now rewrite Hlk, hex_eqb by apply tkeyb_hex.
Qed.

(* histories of updates (an empty value deletes, as in Trie.Update) over any database *)
Fixpoint apply_ops (t : trie) (d : db) (ops : list (bytes * bytes)) : res trie :=
  match ops with
  | [] => Ok t
  | (k, v) :: r => bind (trie_update t d k v) (fun t' => apply_ops t' d r)
  end.
(* the finite map a history denotes *)
Fixpoint map_ops (m : bytes -> option bytes) (ops : list (bytes * bytes)) : bytes -> option bytes :=
  match ops with
  | [] => m
  | (k, v) :: r =>
    map_ops (fun k' => if bytes_eqb k k' then (match v with [] => None | _ => Some v end) else m k') r
  end.

Theorem apply_ops_spec : forall ops t d m, fresh_trie t -> (forall k, tmap t k = m k) ->
  exists t', apply_ops t d ops = Ok t' /\ fresh_trie t' /\ forall k, tmap t' k = map_ops m ops k.
Proof.
  induction ops as [|[k v] ops IH]; intros t d m Hf Hm.
  - exists t. auto.
  - cbn [apply_ops map_ops]. destruct v as [|v0 v].
    + destruct (trie_delete_spec t d k Hf) as (t1 & E & Hf1 & _ & _ & Hm1).
      change (trie_update t d k []) with (trie_delete t d k). rewrite E. cbn [bind].
      apply IH; [exact Hf1|]. intros k'. rewrite Hm1, Hm. reflexivity.
    + destruct (trie_update_spec t d k (v0 :: v) Hf ltac:(discriminate)) as (t1 & E & Hf1 & _ & _ & Hm1).
      rewrite E. cbn [bind]. apply IH; [exact Hf1|]. intros k'. rewrite Hm1, Hm. reflexivity.
Qed.

Lemma fresh_empty : fresh_trie empty_trie.
Proof. split; reflexivity. Qed.

Section Root.
Variable H : bytes -> bytes.
Hypothesis Hlen : forall x, length (H x) = 32%nat.

(* Trie.Hash of a canonical trie is the specification root of its content *)
Theorem trie_hash_spec : forall t, fresh_trie t ->
  exists t', trie_hash H t = Ok (mpt_root_hex H (tcontent t), t') /\ erase (troot t') = erase (troot t).
Proof.
  intros t [Hc Hh]. unfold trie_hash.
  destruct (hash_root_spec H Hlen t Hc Hh) as (n' & E & He). rewrite E. cbn [bind].
  eexists. split; [reflexivity|exact He].
Qed.

(* the root is a function of the finite map alone: two canonical tries with the
   same content (as maps over nibble keys) hash to the same root, the
   specification's *)
Theorem root_content_only : forall t1 t2, fresh_trie t1 -> fresh_trie t2 ->
  (forall k, lookup (tcontent t1) k = lookup (tcontent t2) k) ->
  exists r t1' t2', trie_hash H t1 = Ok (r, t1') /\ trie_hash H t2 = Ok (r, t2') /\
                    r = mpt_root_hex H (tcontent t1).
Proof.
  intros t1 t2 H1 H2 Hm.
  destruct (trie_hash_spec t1 H1) as (t1' & E1 & _). destruct (trie_hash_spec t2 H2) as (t2' & E2 & _).
  exists (mpt_root_hex H (tcontent t1)), t1', t2'. split; [exact E1|]. split; [|reflexivity].
  rewrite E2. f_equal. f_equal. symmetry.
  apply mpt_root_hex_ext; auto; apply canon_root_wf_content; [apply H1|apply H2].
Qed.
End Root.

(* histories from the empty trie never fail and denote their finite map *)
Theorem history_spec : forall ops d,
  exists t, apply_ops empty_trie d ops = Ok t /\ fresh_trie t /\
            forall k, tmap t k = map_ops (fun _ => None) ops k.
Proof. intros ops d. apply apply_ops_spec; [apply fresh_empty|reflexivity]. Qed.

Section Histories.
Variable H : bytes -> bytes.
Hypothesis Hlen : forall x, length (H x) = 32%nat.

(* any two histories of updates and deletes that end with the same content end
   with the same root, and it is the specification's root of that content *)
Theorem history_root_content_only : forall ops1 ops2 d1 d2 t1 t2,
  apply_ops empty_trie d1 ops1 = Ok t1 -> apply_ops empty_trie d2 ops2 = Ok t2 ->
  (forall k, lookup (tcontent t1) k = lookup (tcontent t2) k) ->
  exists r t1' t2', trie_hash H t1 = Ok (r, t1') /\ trie_hash H t2 = Ok (r, t2') /\
                    r = mpt_root_hex H (tcontent t1).
Proof.
  intros ops1 ops2 d1 d2 t1 t2 E1 E2 Hm.
  destruct (history_spec ops1 d1) as (t1x & E1x & F1 & _). rewrite E1 in E1x. injection E1x as <-.
  destruct (history_spec ops2 d2) as (t2x & E2x & F2 & _). rewrite E2 in E2x. injection E2x as <-.
  now apply root_content_only.
Qed.
End Histories.

(* ---- the clauses the code does not satisfy ---- *)

(* Prove on the empty trie emits no node; VerifyProof then misses the root node:
   absence in the empty trie has no verifiable proof *)
Theorem empty_trie_absence_not_provable : forall (H : bytes -> bytes) d k,
  exists root p, trie_hash H empty_trie = Ok (root, empty_trie) /\
                 trie_prove H empty_trie d k = Ok p /\ tmap empty_trie k = None /\
                 verify_proof root k p = Err.
Proof.
  intros H d k. exists (empty_root H), []. repeat split.
  unfold trie_prove. cbn [troot empty_trie]. unfold key_fuel.
  destruct (keybytes_to_hex k) eqn:E; [destruct k; discriminate|]. reflexivity.
Qed.
