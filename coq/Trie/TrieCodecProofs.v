(* Trie/TrieCodecProofs.v — the codec round trip of stored trie nodes:
   decodeNode (node.go) applied to the specification encoding of a canonical
   node returns that node with its big children replaced by hash references
   and its small children decoded in place (TrieCodecDefs.roundtrip_stmt).
   Ingredients: compactToHex inverts hexToCompact on canonical keys; the RLP
   splitter inverts the encoder; the specification item does not depend on the
   fuel of mpt_c; decodeRef on each kind of child reference. *)
From AQ Require Import Lib.Bytes Rlp.RlpSpec Rlp.RlpProofs Trie.MptSpec Trie.TrieModel Trie.TrieInv
  Trie.TrieProofs Trie.TrieRootProofs Trie.TrieCodecDefs.
From Coq Require Import ZifyBool ZifyN ZifyNat.
Local Open Scope N_scope.

(* ------------------------------------------------------------------ compact keys: compactToHex inverts hexToCompact *)

Lemma nib_pair a b : nibb a = true -> nibb b = true ->
  n2b (b2n (n2b (N.lor ((b2n a * 16) mod 256) (b2n b))) / 16) = a /\
  n2b (b2n (n2b (N.lor ((b2n a * 16) mod 256) (b2n b))) mod 16) = b.
Proof.
  intros Ha Hb. apply nibb_lt in Ha, Hb.
  rewrite lor_nib by assumption. rewrite b2n_n2b by lia.
  rewrite <- (N.div_unique (16 * b2n a + b2n b) 16 (b2n a) (b2n b)) by lia.
  rewrite <- (N.mod_unique (16 * b2n a + b2n b) 16 (b2n a) (b2n b)) by lia.
  rewrite !n2b_b2n. auto.
Qed.

Lemma kb_dn_aux : forall n p, (length p <= n)%nat -> pathb p = true -> Nat.even (length p) = true ->
  keybytes_to_hex (decode_nibbles p) = p ++ [term].
Proof.
  induction n as [|n IH]; intros p Hn Hp He.
  - destruct p; [reflexivity|cbn [length] in Hn; lia].
  - destruct p as [|a [|b t]]; [reflexivity|discriminate He|].
    rewrite !pathb_cons in Hp. apply andb_prop in Hp as [Ha Hp]. apply andb_prop in Hp as [Hb Ht].
    change (Nat.even (length t) = true) in He. cbn [length] in Hn.
    cbn [decode_nibbles keybytes_to_hex].
    destruct (nib_pair a b Ha Hb) as [E1 E2]. rewrite E1, E2.
    rewrite IH by (try assumption; lia). reflexivity.
Qed.

Lemma kb_dn p : pathb p = true -> Nat.even (length p) = true ->
  keybytes_to_hex (decode_nibbles p) = p ++ [term].
Proof. apply (kb_dn_aux (length p)). apply Nat.le_refl. Qed.

(* the shape of compactToHex once the two nibbles of the first byte are known *)
Lemma c2h_shape b0 p fn lo : pathb p = true -> Nat.even (length p) = true ->
  n2b (b2n b0 / 16) = fn -> n2b (b2n b0 mod 16) = lo ->
  compact_to_hex (b0 :: decode_nibbles p) =
  skipn (N.to_nat (2 - N.land (b2n fn) 1))
        (if 2 <=? b2n fn then (fn :: lo :: p) ++ [term] else fn :: lo :: p).
Proof.
  intros Hp He E1 E2. unfold compact_to_hex. cbn [keybytes_to_hex].
  rewrite (kb_dn p Hp He), E1, E2.
  change (fn :: lo :: p ++ [term]) with ((fn :: lo :: p) ++ [term]).
  rewrite removelast_last. reflexivity.
Qed.

Lemma odd_first (fl : N) h q : b2n h < 16 -> fl + 16 + b2n h < 256 -> fl + 16 = 16 * q ->
  N.lor (N.lor fl 16) (b2n h) = fl + 16 + b2n h ->
  n2b (b2n (n2b (N.lor (N.lor fl 16) (b2n h))) / 16) = n2b q /\
  n2b (b2n (n2b (N.lor (N.lor fl 16) (b2n h))) mod 16) = h.
Proof.
  intros Hh Hlt Hq E. rewrite E. rewrite b2n_n2b by exact Hlt.
  rewrite <- (N.div_unique (fl + 16 + b2n h) 16 q (b2n h)) by lia.
  rewrite <- (N.mod_unique (fl + 16 + b2n h) 16 q (b2n h)) by lia.
  rewrite n2b_b2n. auto.
Qed.

(* hexToCompact on a pure path p with flag t, then compactToHex *)
Lemma c2h_compact p (t : bool) : pathb p = true ->
  compact_to_hex
    (if Nat.odd (length p) then
       match p with
       | h :: rest => n2b (N.lor (N.lor (if t then 32 else 0) 16) (b2n h)) :: decode_nibbles rest
       | [] => [n2b (if t then 32 else 0)]
       end
     else n2b (if t then 32 else 0) :: decode_nibbles p)
  = if t then p ++ [term] else p.
Proof.
  intros Hp. destruct (Nat.odd (length p)) eqn:Eo.
  - destruct p as [|h rest]; [discriminate Eo|].
    rewrite pathb_cons in Hp. apply andb_prop in Hp as [Hh Hr]. apply nibb_lt in Hh.
    cbn [length] in Eo. rewrite Nat.odd_succ in Eo.
    destruct t.
    + destruct (odd_first 32 h 3 Hh ltac:(lia) eq_refl) as [E1 E2].
      { change (N.lor 32 16) with 48. rewrite lor48 by exact Hh. reflexivity. }
      rewrite (c2h_shape _ rest _ _ Hr Eo E1 E2). reflexivity.
    + destruct (odd_first 0 h 1 Hh ltac:(lia) eq_refl) as [E1 E2].
      { change (N.lor 0 16) with 16. rewrite lor16 by exact Hh. reflexivity. }
      rewrite (c2h_shape _ rest _ _ Hr Eo E1 E2). reflexivity.
  - assert (Ee : Nat.even (length p) = true) by (rewrite <- Nat.negb_odd, Eo; reflexivity).
    destruct t.
    + rewrite (c2h_shape (n2b 32) p x02 x00 Hp Ee eq_refl eq_refl). reflexivity.
    + rewrite (c2h_shape (n2b 0) p x00 x00 Hp Ee eq_refl eq_refl). reflexivity.
Qed.

Lemma c2h_path k : pathb k = true -> compact_to_hex (hex_to_compact k) = k.
Proof.
  intros Hp. unfold hex_to_compact. cbv zeta. rewrite (has_term_path k Hp).
  exact (c2h_compact k false Hp).
Qed.

Lemma tkey_split k : tkeyb k = true -> k = removelast k ++ [term].
Proof.
  intros Hk. destruct (tkey_facts k Hk) as [Ht _].
  pose proof (tkeyb_nonempty k Hk) as Hne.
  rewrite (app_removelast_last x00 Hne) at 1. f_equal. f_equal.
  destruct k as [|a t]; [congruence|].
  change (has_term (a :: t)) with (byte_eqb (last (a :: t) x00) term) in Ht.
  now destruct (byte_eqb_spec (last (a :: t) x00) term).
Qed.

Lemma c2h_tkey k : tkeyb k = true -> compact_to_hex (hex_to_compact k) = k.
Proof.
  intros Hk. destruct (tkey_facts k Hk) as [Ht Hp].
  unfold hex_to_compact. cbv zeta. rewrite Ht.
  rewrite (c2h_compact (removelast k) true Hp). symmetry. exact (tkey_split k Hk).
Qed.

(* ------------------------------------------------------------------ RLP: the splitter on an encoded item *)

Lemma fits_Str s : fits (Str s) = true -> lenN s < two64.
Proof. cbn [fits]. intros E. now apply N.ltb_lt in E. Qed.

Lemma fits_Lst_inv l : fits (Lst l) = true -> fits_list l = true /\ lenN (encode_list l) < two64.
Proof.
  rewrite fits_Lst. intros E. apply andb_prop in E as [E1 E2]. apply N.ltb_lt in E2. auto.
Qed.

Lemma split_Str s r : fits (Str s) = true -> split (encode (Str s) ++ r) = Some (KStr, s, r).
Proof. intros Hf. rewrite encode_Str. apply split_enc. now apply fits_Str. Qed.

Lemma split_Lst l r : fits (Lst l) = true -> split (encode (Lst l) ++ r) = Some (KLst, encode_list l, r).
Proof. intros Hf. rewrite encode_Lst. apply split_enc. now apply fits_Lst_inv. Qed.

Lemma split_string_Str s r : fits (Str s) = true -> split_string (encode (Str s) ++ r) = Some (s, r).
Proof. intros Hf. unfold split_string. now rewrite split_Str. Qed.

Lemma split_list_Lst l r : fits (Lst l) = true -> split_list (encode (Lst l) ++ r) = Some (encode_list l, r).
Proof. intros Hf. unfold split_list. now rewrite split_Lst. Qed.

Lemma split_item x r : fits x = true ->
  exists k c, split (encode x ++ r) = Some (k, c, r).
Proof.
  intros Hf. destruct x as [s|l].
  - do 2 eexists. apply split_Str. exact Hf.
  - do 2 eexists. apply split_Lst. exact Hf.
Qed.

Lemma count_values_f_S f b :
  count_values_f (S f) b =
  match b with
  | [] => Some 0
  | _ => match split b with
         | None => None
         | Some (_, _, rest) => match count_values_f f rest with None => None | Some n => Some (1 + n) end
         end
  end.
Proof. reflexivity. Qed.

Lemma count_values_f_list : forall l, fits_list l = true ->
  forall f, (length (encode_list l) < f)%nat -> count_values_f f (encode_list l) = Some (lenN l).
Proof.
  induction l as [|y t IH]; intros Hf f Hlt.
  - destruct f as [|f]; [lia|]. reflexivity.
  - unfold fits_list in Hf. cbn [forallb] in Hf. apply andb_prop in Hf as [Hy Ht].
    rewrite encode_list_cons in *. rewrite app_length in Hlt.
    pose proof (encode_length_pos y) as Hpos.
    destruct f as [|f]; [lia|]. rewrite count_values_f_S.
    destruct (encode_nonempty y) as (h0 & t0 & Ey).
    assert (Ec : encode y ++ encode_list t = h0 :: (t0 ++ encode_list t)) by (rewrite Ey; reflexivity).
    rewrite Ec. rewrite <- Ec.
    destruct (split_item y (encode_list t) Hy) as (k & c & Es). rewrite Es.
    rewrite (IH Ht f) by lia. f_equal. rewrite lenN_cons. reflexivity.
Qed.

Lemma count_list l : fits_list l = true -> count_or_0 (encode_list l) = lenN l.
Proof.
  intros Hf. unfold count_or_0, count_values.
  rewrite (count_values_f_list l Hf) by apply Nat.lt_succ_diag_r. reflexivity.
Qed.

Lemma encode_list_nil : encode_list [] = [].
Proof. reflexivity. Qed.

(* ------------------------------------------------------------------ one-step unfolding of decode_node *)

Definition decode_ref_of (rec : bytes -> res node) (buf : bytes) : res (node * bytes) :=
  match split buf with
  | None => Err
  | Some (KLst, _, rest) =>
    if Nat.ltb 32 (length buf - length rest) then Err
    else bind (rec buf) (fun n => Ok (n, rest))
  | Some (KStr, val, rest) =>
    match length val with
    | O => Ok (NNil, rest)
    | 32%nat => Ok (NHash val, rest)
    | _ => Err
    end
  end.

Definition full_go (dref : bytes -> res (node * bytes)) (fl : flag) :=
  fix go (i : nat) (elems : bytes) (acc : list node) {struct i} : res node :=
    match i with
    | O =>
      match split_string elems with
      | None => Err
      | Some (val, _) =>
        Ok (NFull (rev acc ++ [match val with [] => NNil | _ => NVal val end]) fl)
      end
    | S i' => bind (dref elems) (fun '(cld, rest) => go i' rest (cld :: acc))
    end.

Lemma full_go_O dref fl elems acc :
  full_go dref fl O elems acc =
    match split_string elems with
    | None => Err
    | Some (val, _) => Ok (NFull (rev acc ++ [match val with [] => NNil | _ => NVal val end]) fl)
    end.
Proof. reflexivity. Qed.
Lemma full_go_S dref fl i elems acc :
  full_go dref fl (S i) elems acc =
    bind (dref elems) (fun '(cld, rest) => full_go dref fl i rest (cld :: acc)).
Proof. reflexivity. Qed.

Definition decode_short (rec : bytes -> res node) (hash : option bytes) (gen : N) (elems : bytes) : res node :=
  match split_string elems with
  | None => Err
  | Some (kbuf, rest) =>
    let fl := mkFlag hash gen false in
    let key := compact_to_hex kbuf in
    if has_term key then
      match split_string rest with
      | None => Err
      | Some (val, _) => Ok (NShort key (NVal val) fl)
      end
    else bind (decode_ref_of rec rest) (fun '(r, _) => Ok (NShort key r fl))
  end.

Definition decode_elems (rec : bytes -> res node) (hash : option bytes) (gen : N) (buf : bytes) : res node :=
  match split_list buf with
  | None => Err
  | Some (elems, _) =>
    let c := count_or_0 elems in
    if c =? 2 then decode_short rec hash gen elems
    else if c =? 17 then full_go (decode_ref_of rec) (mkFlag hash gen false) 16%nat elems []
    else Err
  end.

Definition decode_body (rec : bytes -> res node) (hash : option bytes) (buf : bytes) (gen : N) : res node :=
  match buf with
  | [] => Err
  | _ => decode_elems rec hash gen buf
  end.

Lemma decode_node_S fuel hash buf gen :
  decode_node (S fuel) hash buf gen = decode_body (fun b => decode_node fuel None b gen) hash buf gen.
Proof. reflexivity. Qed.

Lemma decode_body_Lst rec hash gen l tr : fits (Lst l) = true ->
  decode_body rec hash (encode (Lst l) ++ tr) gen =
  if lenN l =? 2 then decode_short rec hash gen (encode_list l)
  else if lenN l =? 17 then full_go (decode_ref_of rec) (mkFlag hash gen false) 16%nat (encode_list l) []
  else Err.
Proof.
  intros Hf. destruct (encode_nonempty (Lst l)) as (h0 & t0 & E).
  assert (Eb : decode_body rec hash (encode (Lst l) ++ tr) gen = decode_elems rec hash gen (encode (Lst l) ++ tr))
    by (rewrite E; reflexivity).
  rewrite Eb. unfold decode_elems. rewrite (split_list_Lst l tr Hf). cbv zeta.
  destruct (fits_Lst_inv l Hf) as [Hfl _]. rewrite (count_list l Hfl). reflexivity.
Qed.

Lemma in_encode_list_le y t : (length (encode y) <= length (encode_list (y :: t)))%nat /\
                              (length (encode_list t) <= length (encode_list (y :: t)))%nat.
Proof. rewrite encode_list_cons, app_length. lia. Qed.

Lemma items_length (H : bytes -> bytes) f : forall l i, length (items H f i l) = length l.
Proof. induction l as [|x t IH]; intros i; cbn [items length]; [reflexivity|now rewrite IH]. Qed.

(* ------------------------------------------------------------------ the round trip *)

Section CodecProofs.
Variable H : bytes -> bytes.
Hypothesis Hlen : forall x, length (H x) = 32%nat.

(* ---- the specification item does not depend on the fuel of mpt_c ---- *)

Definition fuel_indep (n : node) : Prop :=
  canon n = true -> forall f1 f2,
  (max_key_len (content_of n) < f1)%nat -> (max_key_len (content_of n) < f2)%nat ->
  mpt_c H f1 (content_of n) = mpt_c H f2 (content_of n).

Lemma items_fuel a b : forall l i, Forall fuel_indep l -> slots_ok i l ->
  (forall x, In x l -> canon x = true -> (max_key_len (content_of x) < a)%nat) ->
  (forall x, In x l -> canon x = true -> (max_key_len (content_of x) < b)%nat) ->
  items H a i l = items H b i l.
Proof.
  induction l as [|x t IH]; intros i HF Hs Ha Hb; [reflexivity|].
  inversion HF as [|? ? Hx HF']; subst. destruct Hs as [Hxok Hs].
  cbn [items]. f_equal.
  - unfold item_at. unfold child_ok in Hxok. destruct (Nat.ltb i 16); [|reflexivity].
    destruct Hxok as [->|Hcx]; [reflexivity|].
    rewrite !n_ref_ne by (apply canon_content_ne; exact Hcx).
    rewrite (Hx Hcx a b) by (first [apply Ha|apply Hb]; [left; reflexivity|exact Hcx]).
    reflexivity.
  - apply IH; [exact HF'|exact Hs| |]; intros y Hy Hcy; [apply Ha|apply Hb]; auto; right; exact Hy.
Qed.

Lemma mpt_c_fuel n : fuel_indep n.
Proof.
  induction n as [|k ch f IH|cs f IH|h|v] using node_ind';
    unfold fuel_indep; intros Hc f1 f2 Hf1 Hf2; try discriminate Hc.
  - rewrite canon_short in Hc. apply andb_prop in Hc as [Hk Hc].
    assert (Hkne : k <> []) by (destruct k; [discriminate Hk|discriminate]).
    destruct f1 as [|a]; [apply Nat.nlt_0_r in Hf1; destruct Hf1|].
    destruct f2 as [|b]; [apply Nat.nlt_0_r in Hf2; destruct Hf2|].
    destruct ch as [| | cs0 f0 | |v]; try discriminate Hc.
    + apply andb_prop in Hc as [Hp Hcc].
      pose proof (canon_full_two_heads _ _ Hcc) as T.
      pose proof (canon_content_ne _ Hcc) as Hne.
      change (content_of (NShort k (NFull cs0 f0) f))
        with (map (pre_key k) (content_of (NFull cs0 f0))) in *.
      pose proof (max_key_len_pre k _ Hne Hkne) as Hlt.
      rewrite !mpt_c_ext by assumption. rewrite !n_ref_ne by exact Hne.
      rewrite (IH Hcc a b) by (clear - Hlt Hf1 Hf2; lia). reflexivity.
    + change (content_of (NShort k (NVal v) f)) with [(k ++ [], v)].
      rewrite !mpt_c_S. reflexivity.
  - destruct (canon_full_inv _ _ Hc) as (Hl & Hb & Hv & H16 & Hcnt).
    destruct f1 as [|a]; [apply Nat.nlt_0_r in Hf1; destruct Hf1|].
    destruct f2 as [|b]; [apply Nat.nlt_0_r in Hf2; destruct Hf2|].
    pose proof (canon_full_two_heads _ _ Hc) as T.
    change (content_of (NFull cs f)) with (join 0 (map content_of cs)) in *.
    rewrite !mpt_c_branch by exact T.
    rewrite <- (items_full H a cs _ Hl (fun j Hj => full_sub cs j Hl Hj)).
    rewrite <- (items_full H b cs _ Hl (fun j Hj => full_sub cs j Hl Hj)).
    f_equal.
    apply items_fuel; [exact IH|exact (canon_slots_ok _ _ Hc)| |];
      intros x Hin Hcx; pose proof (child_max cs x Hl Hin Hcx) as Hlt; clear - Hlt Hf1 Hf2; lia.
Qed.

Lemma spec_item_fuel n fuel : canon n = true -> (max_key_len (content_of n) < fuel)%nat ->
  mpt_c H fuel (content_of n) = spec_item H n.
Proof.
  intros Hc Hf. unfold spec_item. apply mpt_c_fuel; [exact Hc|exact Hf|apply Nat.lt_succ_diag_r].
Qed.

(* ---- the three canonical shapes of the specification item ---- *)

Lemma spec_item_leaf k v f : tkeyb k = true ->
  spec_item H (NShort k (NVal v) f) = Lst [Str (hex_to_compact k); Str v].
Proof.
  intros Hk. unfold spec_item.
  change (content_of (NShort k (NVal v) f)) with [(k ++ [], v)].
  rewrite (app_nil_r k). rewrite mpt_c_S. rewrite hex_to_compact_tkey by exact Hk. reflexivity.
Qed.

Lemma spec_item_ext k cs0 f0 f : k <> [] -> pathb k = true -> canon (NFull cs0 f0) = true ->
  exists m, (max_key_len (content_of (NFull cs0 f0)) < m)%nat /\
  spec_item H (NShort k (NFull cs0 f0) f) =
  Lst [Str (hex_to_compact k); n_ref H m (content_of (NFull cs0 f0))].
Proof.
  intros Hkne Hp Hcc.
  pose proof (canon_full_two_heads _ _ Hcc) as T.
  pose proof (canon_content_ne _ Hcc) as Hne.
  exists (max_key_len (content_of (NShort k (NFull cs0 f0) f))). split.
  - change (content_of (NShort k (NFull cs0 f0) f))
      with (map (pre_key k) (content_of (NFull cs0 f0))).
    exact (max_key_len_pre k _ Hne Hkne).
  - unfold spec_item.
    change (content_of (NShort k (NFull cs0 f0) f))
      with (map (pre_key k) (content_of (NFull cs0 f0))).
    rewrite mpt_c_ext by assumption. rewrite hex_to_compact_path by exact Hp. reflexivity.
Qed.

Lemma spec_item_full cs f : canon (NFull cs f) = true ->
  exists m, (forall x, In x cs -> canon x = true -> (max_key_len (content_of x) < m)%nat) /\
  spec_item H (NFull cs f) = Lst (items H m 0 cs).
Proof.
  intros Hc. destruct (canon_full_inv _ _ Hc) as (Hl & Hb & Hv & H16 & Hcnt).
  pose proof (canon_full_two_heads _ _ Hc) as T.
  exists (max_key_len (content_of (NFull cs f))). split.
  - intros x Hin Hcx. exact (child_max cs x Hl Hin Hcx).
  - unfold spec_item. rewrite mpt_c_branch by exact T.
    change (content_of (NFull cs f)) with (join 0 (map content_of cs)).
    rewrite <- (items_full H _ cs _ Hl (fun j Hj => full_sub cs j Hl Hj)). reflexivity.
Qed.

Lemma spec_item_is_list n : canon n = true -> exists l, spec_item H n = Lst l.
Proof.
  intros Hc. destruct n as [|k ch f|cs f|h|v]; try discriminate Hc.
  - pose proof Hc as Hc'. rewrite canon_short in Hc'. apply andb_prop in Hc' as [Hk Hc'].
    assert (Hkne : k <> []) by (destruct k; [discriminate Hk|discriminate]).
    destruct ch as [| | cs0 f0 | |v]; try discriminate Hc'.
    + apply andb_prop in Hc' as [Hp Hcc].
      destruct (spec_item_ext k cs0 f0 f Hkne Hp Hcc) as (m & _ & E). eexists. exact E.
    + apply andb_prop in Hc' as [Ht _]. eexists. apply spec_item_leaf. exact Ht.
  - destruct (spec_item_full cs f Hc) as (m & _ & E). eexists. exact E.
Qed.

(* a child reference of the specification = hash of a big child, a small child itself *)
Lemma n_ref_spec m x : canon x = true -> (max_key_len (content_of x) < m)%nat ->
  n_ref H m (content_of x) = if big H x then Str (H (spec_enc H x)) else spec_item H x.
Proof.
  intros Hc Hm. rewrite n_ref_ne by (apply canon_content_ne; exact Hc).
  rewrite (spec_item_fuel x m Hc Hm). unfold big, spec_enc.
  destruct (N.ltb_spec (lenN (encode (spec_item H x))) 32);
    destruct (N.leb_spec 32 (lenN (encode (spec_item H x)))); try lia; reflexivity.
Qed.

(* ---- what dec_node builds ---- *)

Lemma dec_node_short gen hash k c f :
  dec_node H gen hash (NShort k c f) = NShort k (dec_child H gen c) (mkFlag hash gen false).
Proof. reflexivity. Qed.
Lemma dec_node_full gen hash cs f :
  dec_node H gen hash (NFull cs f) = NFull (map (dec_child H gen) cs) (mkFlag hash gen false).
Proof. reflexivity. Qed.

Lemma dec_child_canon gen x : canon x = true ->
  dec_child H gen x = if big H x then NHash (H (spec_enc H x)) else dec_node H gen None x.
Proof. destruct x; intros Hc; try discriminate Hc; reflexivity. Qed.

(* ---- the statement, for every fuel above the length and every trailing suffix ---- *)

Definition rt (n : node) : Prop :=
  canon n = true -> fits (spec_item H n) = true ->
  forall fuel hash gen tr, (length (spec_enc H n) < fuel)%nat ->
    decode_node fuel hash (spec_enc H n ++ tr) gen = Ok (dec_node H gen hash n).

(* decodeRef on the reference of a slot *)
Lemma dref_child fuel gen m x rest :
  (x = NNil \/ canon x = true) ->
  (canon x = true -> (max_key_len (content_of x) < m)%nat) ->
  rt x ->
  fits (n_ref H m (content_of x)) = true ->
  (length (encode (n_ref H m (content_of x))) < fuel)%nat ->
  decode_ref_of (fun b => decode_node fuel None b gen) (encode (n_ref H m (content_of x)) ++ rest)
  = Ok (dec_child H gen x, rest).
Proof.
  intros Hx Hm Hrt Hfit Hfuel. destruct Hx as [->|Hc].
  - unfold decode_ref_of. cbn [content_of n_ref] in *. rewrite (split_Str [] rest Hfit). reflexivity.
  - specialize (Hm Hc). rewrite (n_ref_spec m x Hc Hm) in *.
    rewrite (dec_child_canon gen x Hc). destruct (big H x) eqn:Eb.
    + unfold decode_ref_of. rewrite (split_Str _ rest Hfit). rewrite Hlen. reflexivity.
    + destruct (spec_item_is_list x Hc) as (l & El).
      unfold decode_ref_of. rewrite El in Hfit |- *. rewrite (split_Lst l rest Hfit).
      rewrite <- El.
      assert (Hsmall : (length (encode (spec_item H x)) < 32)%nat).
      { unfold big, spec_enc in Eb. apply N.leb_gt in Eb. unfold lenN in Eb. lia. }
      rewrite app_length.
      replace (length (encode (spec_item H x)) + length rest - length rest)%nat
        with (length (encode (spec_item H x))) by lia.
      destruct (Nat.ltb_spec 32 (length (encode (spec_item H x)))) as [Hbad|_]; [lia|].
      rewrite <- El in Hfit.
      change (encode (spec_item H x)) with (spec_enc H x).
      rewrite (Hrt Hc Hfit fuel None gen rest Hfuel). reflexivity.
Qed.

(* the child loop of decodeFull *)
Lemma full_loop fuel gen fl m : forall j l i acc,
  length l = S j -> (i + j = 16)%nat ->
  slots_ok i l -> forallb val_ok l = true ->
  Forall rt l ->
  (forall x, In x l -> canon x = true -> (max_key_len (content_of x) < m)%nat) ->
  fits_list (items H m i l) = true ->
  (length (encode_list (items H m i l)) < fuel)%nat ->
  full_go (decode_ref_of (fun b => decode_node fuel None b gen)) fl j (encode_list (items H m i l)) acc
  = Ok (NFull (rev acc ++ map (dec_child H gen) l) fl).
Proof.
  induction j as [|j IH]; intros l i acc Hl Hij Hs Hv HF Hm Hfit Hfuel.
  - destruct l as [|x [|? ?]]; try discriminate Hl.
    assert (i = 16%nat) by lia. subst i.
    destruct Hs as [Hx _]. unfold child_ok in Hx. change (Nat.ltb 16 16) with false in Hx.
    cbn [items] in *. unfold item_at in *. change (Nat.ltb 16 16) with false in *. cbv iota in *.
    unfold fits_list in Hfit. cbn [forallb] in Hfit. apply andb_prop in Hfit as [Hfit _].
    rewrite full_go_O. rewrite encode_list_cons, encode_list_nil.
    rewrite (split_string_Str _ [] Hfit). cbn [map].
    destruct Hx as [->|[v ->]].
    + reflexivity.
    + cbn [content_of]. cbn [forallb val_ok] in Hv. destruct v as [|b v]; [discriminate Hv|]. reflexivity.
  - destruct l as [|x t]; [discriminate Hl|]. cbn [length] in Hl.
    destruct Hs as [Hx Hs]. unfold child_ok in Hx.
    destruct (Nat.ltb_spec i 16) as [Hi|Hi]; [|lia].
    cbn [forallb] in Hv. apply andb_prop in Hv as [_ Hvt].
    inversion HF as [|? ? Hrx HF']; subst.
    cbn [items] in *. unfold item_at in Hfit, Hfuel |- *.
    destruct (Nat.ltb_spec i 16) as [_|Hi']; [|lia].
    unfold fits_list in Hfit. cbn [forallb] in Hfit. apply andb_prop in Hfit as [Hfx Hft].
    pose proof (in_encode_list_le (n_ref H m (content_of x)) (items H m (S i) t)) as [L1 L2].
    rewrite full_go_S. rewrite encode_list_cons.
    rewrite (dref_child fuel gen m x _ Hx (Hm x (or_introl eq_refl)) Hrx Hfx) by lia.
    cbn [bind].
    rewrite (IH t (S i) (dec_child H gen x :: acc)); try assumption; try lia.
    + cbn [rev map]. rewrite <- app_assoc. reflexivity.
    + intros y Hy. apply Hm. right. exact Hy.
Qed.

Theorem roundtrip_fuel : forall n, rt n.
Proof.
  induction n as [|k ch f IH|cs f IH|h|v] using node_ind';
    unfold rt; intros Hc Hfit fuel hash gen tr Hfuel; try discriminate Hc.
  - (* short node *)
    pose proof Hc as Hc'. rewrite canon_short in Hc'. apply andb_prop in Hc' as [Hk Hc'].
    assert (Hkne : k <> []) by (destruct k; [discriminate Hk|discriminate]).
    destruct fuel as [|fuel]; [lia|]. rewrite decode_node_S.
    destruct ch as [| | cs0 f0 | |v]; try discriminate Hc'.
    + (* extension *)
      apply andb_prop in Hc' as [Hp Hcc].
      destruct (spec_item_ext k cs0 f0 f Hkne Hp Hcc) as (m & Hm & E).
      unfold spec_enc in *. rewrite E in *.
      rewrite decode_body_Lst by exact Hfit. change (lenN [Str (hex_to_compact k); n_ref H m (content_of (NFull cs0 f0))] =? 2) with true.
      cbv iota.
      destruct (fits_Lst_inv _ Hfit) as [Hfl _]. unfold fits_list in Hfl. cbn [forallb] in Hfl.
      apply andb_prop in Hfl as [Hfk Hfl]. apply andb_prop in Hfl as [Hfr _].
      unfold decode_short. rewrite encode_list_cons. rewrite (split_string_Str _ _ Hfk). cbv zeta.
      rewrite (c2h_path k Hp), (has_term_path k Hp).
      rewrite encode_list_cons, encode_list_nil.
      pose proof (enc_KLst_length (encode_list [Str (hex_to_compact k); n_ref H m (content_of (NFull cs0 f0))])) as L0.
      rewrite encode_Lst in Hfuel.
      pose proof (in_encode_list_le (Str (hex_to_compact k)) [n_ref H m (content_of (NFull cs0 f0))]) as [_ L1].
      pose proof (in_encode_list_le (n_ref H m (content_of (NFull cs0 f0))) []) as [L2 _].
      rewrite (dref_child fuel gen m (NFull cs0 f0) [] (or_intror Hcc) (fun _ => Hm) IH Hfr) by lia.
      cbn [bind]. rewrite dec_node_short. reflexivity.
    + (* leaf *)
      apply andb_prop in Hc' as [Ht Hv].
      unfold spec_enc in *. rewrite (spec_item_leaf k v f Ht) in *.
      rewrite decode_body_Lst by exact Hfit. change (lenN [Str (hex_to_compact k); Str v] =? 2) with true.
      cbv iota.
      destruct (fits_Lst_inv _ Hfit) as [Hfl _]. unfold fits_list in Hfl. cbn [forallb] in Hfl.
      apply andb_prop in Hfl as [Hfk Hfl]. apply andb_prop in Hfl as [Hfv _].
      unfold decode_short. rewrite encode_list_cons. rewrite (split_string_Str _ _ Hfk). cbv zeta.
      destruct (tkey_facts k Ht) as [Hterm _].
      rewrite (c2h_tkey k Ht), Hterm.
      rewrite encode_list_cons, encode_list_nil. rewrite (split_string_Str _ _ Hfv).
      rewrite dec_node_short. reflexivity.
  - (* full node *)
    destruct (canon_full_inv _ _ Hc) as (Hl & Hb & Hnv & H16 & Hcnt).
    assert (Hvok : forallb val_ok cs = true).
    { rewrite canon_full in Hc. apply andb_prop in Hc as [Hc _]. apply andb_prop in Hc as [Hc _].
      apply andb_prop in Hc as [_ Hc]. exact Hc. }
    destruct fuel as [|fuel]; [lia|]. rewrite decode_node_S.
    destruct (spec_item_full cs f Hc) as (m & Hm & E).
    unfold spec_enc in *. rewrite E in *.
    rewrite decode_body_Lst by exact Hfit.
    assert (El : lenN (items H m 0 cs) = 17) by (unfold lenN; rewrite items_length, Hl; reflexivity).
    rewrite El. change (17 =? 2) with false. change (17 =? 17) with true. cbv iota.
    destruct (fits_Lst_inv _ Hfit) as [Hfl _].
    pose proof (enc_KLst_length (encode_list (items H m 0 cs))) as L0.
    rewrite encode_Lst in Hfuel.
    rewrite (full_loop fuel gen (mkFlag hash gen false) m 16 cs 0 []); try assumption; try lia.
    + cbn [rev app]. rewrite dec_node_full. reflexivity.
    + exact (canon_slots_ok _ _ Hc).
Qed.

Theorem roundtrip : roundtrip_stmt H.
Proof.
  unfold roundtrip_stmt, decode_node_top. intros n hash gen Hc Hfit.
  rewrite <- (app_nil_r (spec_enc H n)) at 2.
  apply roundtrip_fuel; [exact Hc|exact Hfit|apply Nat.lt_succ_diag_r].
Qed.

End CodecProofs.
