(* Trie/TrieContentProofs.v — the abstract content of a canonical trie node is
   well formed: its keys are pairwise distinct terminated nibble paths. *)
From Coq Require Import ZifyBool ZifyN ZifyNat Permutation.
From AQ Require Import Lib.Bytes Rlp.RlpSpec Trie.MptSpec Trie.TrieModel Trie.TrieInv Trie.TrieProofs Trie.MptSpecProofs.
Local Open Scope N_scope.

(* ------------------------------------------------------------------ lists *)
Lemma NoDup_app_disj {A} (l1 l2 : list A) :
  NoDup l1 -> NoDup l2 -> (forall x, In x l1 -> ~ In x l2) -> NoDup (l1 ++ l2).
Proof.
  induction l1 as [|a l1 IH]; intros H1 H2 Hd; [exact H2|].
  cbn [app]. inversion H1 as [|? ? Hna H1']; subst. constructor.
  - rewrite in_app_iff. intros [Hin|Hin]; [now apply Hna|].
    apply (Hd a); [now left|exact Hin].
  - apply IH; auto. intros x Hx. apply Hd. now right.
Qed.

Lemma NoDup_map_injective {A B} (f : A -> B) (l : list A) :
  (forall x y, f x = f y -> x = y) -> NoDup l -> NoDup (map f l).
Proof.
  intros Hinj. induction l as [|a l IH]; intros H; cbn [map]; [constructor|].
  inversion H as [|? ? Hna H']; subst. constructor; [|now apply IH].
  rewrite in_map_iff. intros (y & Ey & Hy). apply Hinj in Ey. subst y. now apply Hna.
Qed.

(* ------------------------------------------------------------------ wf_content closure *)
Lemma wf_content_nil : wf_content [].
Proof. split; constructor. Qed.

Lemma wf_content_single k v : tkeyb k = true -> wf_content [(k, v)].
Proof.
  intros H. split; cbn [map fst].
  - constructor; [intros []|constructor].
  - constructor; [exact H|constructor].
Qed.

Lemma wf_content_app J1 J2 :
  wf_content J1 -> wf_content J2 ->
  (forall k, In k (map fst J1) -> ~ In k (map fst J2)) ->
  wf_content (J1 ++ J2).
Proof.
  intros [N1 F1] [N2 F2] Hd. split.
  - rewrite map_app. now apply NoDup_app_disj.
  - apply Forall_app. now split.
Qed.

Lemma map_fst_pre_key k J : map fst (map (pre_key k) J) = map (app k) (map fst J).
Proof. rewrite !map_map. apply map_ext. intros [a b]. reflexivity. Qed.

Lemma map_fst_pre_nib i J : map fst (map (pre_nib i) J) = map (cons (n2b (N.of_nat i))) (map fst J).
Proof. rewrite !map_map. apply map_ext. intros [a b]. reflexivity. Qed.

Lemma wf_pre_key k J : pathb k = true -> wf_content J -> wf_content (map (pre_key k) J).
Proof.
  intros Hk [Hnd Hf]. split.
  - rewrite map_fst_pre_key. apply NoDup_map_injective; [|exact Hnd].
    intros x y E. now apply app_inv_head in E.
  - rewrite Forall_forall in *. intros kv Hin. apply in_map_iff in Hin as ([a b] & <- & Hin).
    cbn [pre_key fst snd]. apply tkeyb_app; [exact Hk|]. exact (Hf _ Hin).
Qed.

Lemma nibb_n2b i : (i < 16)%nat -> nibb (n2b (N.of_nat i)) = true.
Proof. intros H. apply nibb_nidx. rewrite nidx_n2b by lia. exact H. Qed.

Lemma wf_pre_nib i J : (i < 16)%nat -> wf_content J -> wf_content (map (pre_nib i) J).
Proof.
  intros Hi [Hnd Hf]. split.
  - rewrite map_fst_pre_nib. apply NoDup_map_injective; [|exact Hnd].
    intros x y E. now inversion E.
  - rewrite Forall_forall in *. intros kv Hin. apply in_map_iff in Hin as ([a b] & <- & Hin).
    cbn [pre_nib fst snd]. apply tkeyb_cons_nib; [now apply nibb_n2b|]. exact (Hf _ Hin).
Qed.

(* ------------------------------------------------------------------ join *)
Lemma in_join_keys : forall (l : list content) i k,
  In k (map fst (join i l)) ->
  exists j r, k = n2b (N.of_nat j) :: r /\ (i <= j < i + length l)%nat.
Proof.
  induction l as [|c l IH]; intros i k Hin; cbn [join map] in Hin; [contradiction|].
  rewrite map_app, in_app_iff in Hin. destruct Hin as [Hin|Hin].
  - rewrite map_fst_pre_nib in Hin. apply in_map_iff in Hin as (r & <- & _).
    exists i, r. split; [reflexivity|]. cbn [length]. lia.
  - apply IH in Hin as (j & r & -> & Hj). exists j, r. split; [reflexivity|]. cbn [length]. lia.
Qed.

Lemma join_wf : forall cs i,
  (i + length cs = 17)%nat ->
  (forall j, (j < length cs)%nat -> slot_ok (i + j) (nth j cs NNil) = true) ->
  Forall (fun c => canon c = true -> wf_content (content_of c)) cs ->
  wf_content (join i (map content_of cs)).
Proof.
  induction cs as [|c cs IH]; intros i Hlen Hs HF; cbn [map join]; [apply wf_content_nil|].
  cbn [length] in Hlen. inversion HF as [|? ? Hc HF']; subst.
  apply wf_content_app.
  - (* the head slot *)
    pose proof (Hs 0%nat ltac:(cbn [length]; lia)) as H0. cbn [nth] in H0.
    rewrite Nat.add_0_r in H0. unfold slot_ok in H0.
    destruct (Nat.ltb_spec i 16) as [Hlt|Hge].
    + apply orb_true_iff in H0 as [Hn|Hcn].
      * destruct c; try discriminate. apply wf_content_nil.
      * apply wf_pre_nib; [exact Hlt|]. now apply Hc.
    + assert (i = 16%nat) by lia. subst i.
      destruct c; try discriminate; cbn [content_of map]; [apply wf_content_nil|].
      unfold pre_nib. cbn [fst snd]. apply wf_content_single. reflexivity.
  - (* the remaining slots *)
    apply IH; [lia| |exact HF'].
    intros j Hj. specialize (Hs (S j) ltac:(cbn [length]; lia)). cbn [nth] in Hs.
    now rewrite Nat.add_succ_r in Hs.
  - (* distinct first nibbles *)
    intros k Hin1 Hin2. rewrite map_fst_pre_nib in Hin1. apply in_map_iff in Hin1 as (r & <- & _).
    apply in_join_keys in Hin2 as (j & r' & E & Hj). rewrite map_length in Hj.
    inversion E as [[Eb Er]]. apply (f_equal nidx) in Eb.
    rewrite !nidx_n2b in Eb by lia. lia.
Qed.

(* ------------------------------------------------------------------ main theorem *)
Theorem canon_wf_content : forall n, canon n = true -> wf_content (content_of n).
Proof.
  induction n as [|k c f IH|cs f IH|h|v] using node_ind'; intros Hc; try discriminate.
  - (* short *)
    apply canon_short_inv in Hc as [_ [(v & -> & Ht & _)|(cs & f' & -> & Hp & Hcc)]].
    + cbn [content_of map]. unfold pre_key. cbn [fst snd]. rewrite app_nil_r.
      now apply wf_content_single.
    + change (content_of (NShort k (NFull cs f') f))
        with (map (pre_key k) (content_of (NFull cs f'))).
      apply wf_pre_key; [exact Hp|]. now apply IH.
  - (* full *)
    apply canon_full_iff in Hc as (Hl & Hs & _). cbn [content_of].
    apply join_wf; [lia| |exact IH].
    intros j Hj. apply Hs. lia.
Qed.

Corollary canon_root_wf_content : forall n, canon_root n = true -> wf_content (content_of n).
Proof.
  intros n H. unfold canon_root in H. apply orb_true_iff in H as [Hn|Hc].
  - destruct n; try discriminate. apply wf_content_nil.
  - now apply canon_wf_content.
Qed.
