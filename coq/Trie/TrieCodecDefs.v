(* Trie/TrieCodecDefs.v — definitions shared by the proofs about stored nodes:
   the specification item of a canonical node, which nodes are stored by hash,
   and the node decodeNode returns for a stored encoding (children either
   embedded and decoded in place, or hash references).  Definitions only. *)
From AQ Require Import Lib.Bytes Rlp.RlpSpec Trie.MptSpec Trie.TrieModel Trie.TrieInv.
Local Open Scope N_scope.

Section Codec.
Variable H : bytes -> bytes.

(* the RLP item of a canonical node = structural composition of its content *)
Definition spec_item (n : node) : item := mpt_c H (S (max_key_len (content_of n))) (content_of n).
Definition spec_enc (n : node) : bytes := encode (spec_item n).
(* a child is referenced by hash iff its encoding has at least 32 bytes *)
Definition big (n : node) : bool := 32 <=? lenN (spec_enc n).

(* what decodeNode(hash, encoding of n, gen) builds: flags {hash, gen, clean};
   big children become hash nodes, small ones are decoded in place (hash nil) *)
Fixpoint dec_node (gen : N) (hash : option bytes) (n : node) : node :=
  let child (c : node) : node :=
    match c with
    | NShort _ _ _ | NFull _ _ => if big c then NHash (H (spec_enc c)) else dec_node gen None c
    | _ => c
    end in
  match n with
  | NShort k c _ => NShort k (child c) (mkFlag hash gen false)
  | NFull cs _ => NFull (map child cs) (mkFlag hash gen false)
  | _ => n
  end.
Definition dec_child (gen : N) (c : node) : node :=
  match c with
  | NShort _ _ _ | NFull _ _ => if big c then NHash (H (spec_enc c)) else dec_node gen None c
  | _ => c
  end.

(* every header size fits 64 bits, for the node and all nodes below it *)
Fixpoint all_fits (n : node) : Prop :=
  match n with
  | NShort _ c _ => fits (spec_item n) = true /\ all_fits c
  | NFull cs _ => fits (spec_item n) = true /\ (fix go (l : list node) : Prop := match l with [] => True | x :: t => all_fits x /\ go t end) cs
  | _ => True
  end.

(* the statement of the codec round trip (proved in TrieCodecProofs.v) *)
Definition roundtrip_stmt : Prop :=
  forall n hash gen, canon n = true -> fits (spec_item n) = true ->
    decode_node_top hash (spec_enc n) gen = Ok (dec_node gen hash n).
End Codec.
