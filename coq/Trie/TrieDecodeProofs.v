(* Trie/TrieDecodeProofs.v — node.go decodeNode and proof.go VerifyProof:
   decodeNode never panics, its fuel (S (length buf)) is always enough, every
   decoded node is well-formed enough for proof.go get to walk it with a
   terminated key, hence VerifyProof never panics. *)
From Coq Require Import ZifyBool ZifyN ZifyNat.
From AQ Require Import Lib.Bytes Rlp.RlpSpec Rlp.RlpProofs Trie.MptSpec Trie.TrieModel Trie.TrieInv Trie.TrieProofs.
Local Open Scope N_scope.

(* ------------------------------------------------------------------ one-step unfolding of decode_node *)

(* decodeRef, over the recursive call *)
Definition decode_ref_of (rec : bytes -> res node) (buf : bytes) : res (node * bytes) :=
  match split buf with
  | None => Err
  | Some (KLst, _, rest) =>
    if Nat.ltb 32 (length buf - length rest) then Err
    else bind (rec buf) (fun n => Ok (n, rest))
  | Some (KStr, val, rest) =>
    match length val with
    | O => Ok (NNil, rest)
    | 32%nat => Ok (NHash val, rest)
    | _ => Err
    end
  end.

(* the child loop of decodeFull, over decodeRef *)
Definition full_go (dref : bytes -> res (node * bytes)) (fl : flag) :=
  fix go (i : nat) (elems : bytes) (acc : list node) {struct i} : res node :=
    match i with
    | O =>
      match split_string elems with
      | None => Err
      | Some (val, _) =>
        Ok (NFull (rev acc ++ [match val with [] => NNil | _ => NVal val end]) fl)
      end
    | S i' => bind (dref elems) (fun '(cld, rest) => go i' rest (cld :: acc))
    end.

Lemma full_go_O dref fl elems acc :
  full_go dref fl O elems acc =
    match split_string elems with
    | None => Err
    | Some (val, _) => Ok (NFull (rev acc ++ [match val with [] => NNil | _ => NVal val end]) fl)
    end.
Proof. reflexivity. Qed.
Lemma full_go_S dref fl i elems acc :
  full_go dref fl (S i) elems acc =
    bind (dref elems) (fun '(cld, rest) => full_go dref fl i rest (cld :: acc)).
Proof. reflexivity. Qed.

Definition decode_body (rec : bytes -> res node) (hash : option bytes) (buf : bytes) (gen : N) : res node :=
  match buf with
  | [] => Err
  | _ =>
    match split_list buf with
    | None => Err
    | Some (elems, _) =>
      let c := count_or_0 elems in
      if c =? 2 then
        match split_string elems with
        | None => Err
        | Some (kbuf, rest) =>
          let fl := mkFlag hash gen false in
          let key := compact_to_hex kbuf in
          if has_term key then
            match split_string rest with
            | None => Err
            | Some (val, _) => Ok (NShort key (NVal val) fl)
            end
          else bind (decode_ref_of rec rest) (fun '(r, _) => Ok (NShort key r fl))
        end
      else if c =? 17 then full_go (decode_ref_of rec) (mkFlag hash gen false) 16%nat elems []
      else Err
    end
  end.

Lemma decode_node_O hash buf gen : decode_node O hash buf gen = OutOfFuel.
Proof. reflexivity. Qed.
Lemma decode_node_S fuel hash buf gen :
  decode_node (S fuel) hash buf gen = decode_body (fun b => decode_node fuel None b gen) hash buf gen.
Proof. reflexivity. Qed.

(* ------------------------------------------------------------------ (1) decodeNode never panics *)

Lemma decode_ref_of_np rec : (forall b, rec b <> Panic) -> forall b, decode_ref_of rec b <> Panic.
Proof.
  intros Hrec b. unfold decode_ref_of.
  destruct (split b) as [[[[|] c] r]|]; [| |discriminate].
  - destruct (length c) as [|n]; [discriminate|].
    do 31 (destruct n as [|n]; [discriminate|]). destruct n; discriminate.
  - destruct (Nat.ltb 32 (length b - length r)); [discriminate|].
    specialize (Hrec b). destruct (rec b); cbn [bind]; congruence.
Qed.

Lemma full_go_np dref fl : (forall b, dref b <> Panic) ->
  forall i elems acc, full_go dref fl i elems acc <> Panic.
Proof.
  intros Hd. induction i as [|i IH]; intros elems acc.
  - rewrite full_go_O. destruct (split_string elems) as [[v r]|]; discriminate.
  - rewrite full_go_S. specialize (Hd elems).
    destruct (dref elems) as [[cld rest]| | | |]; cbn [bind]; [apply IH|congruence..].
Qed.

Lemma decode_body_np rec hash buf gen : (forall b, rec b <> Panic) -> decode_body rec hash buf gen <> Panic.
Proof.
  intros Hrec. unfold decode_body. destruct buf as [|b0 buf']; [discriminate|].
  destruct (split_list (b0 :: buf')) as [[elems r0]|]; [|discriminate].
  cbv zeta. destruct (count_or_0 elems =? 2).
  - destruct (split_string elems) as [[kbuf rest]|]; [|discriminate].
    destruct (has_term (compact_to_hex kbuf)).
    + destruct (split_string rest) as [[v r1]|]; discriminate.
    + pose proof (decode_ref_of_np rec Hrec rest) as Hr.
      destruct (decode_ref_of rec rest) as [[r x]| | | |]; cbn [bind]; congruence.
  - destruct (count_or_0 elems =? 17); [|discriminate].
    apply full_go_np. now apply decode_ref_of_np.
Qed.

Theorem decode_node_no_panic : forall fuel hash buf gen, decode_node fuel hash buf gen <> Panic.
Proof.
  induction fuel as [|fuel IH]; intros hash buf gen.
  - rewrite decode_node_O. discriminate.
  - rewrite decode_node_S. apply decode_body_np. intros b. apply IH.
Qed.

Corollary decode_node_top_no_panic : forall hash buf gen, decode_node_top hash buf gen <> Panic.
Proof. intros. apply decode_node_no_panic. Qed.
