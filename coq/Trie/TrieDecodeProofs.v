(* Trie/TrieDecodeProofs.v — node.go decodeNode and proof.go VerifyProof:
   decodeNode never panics, its fuel (S (length buf)) is always enough, every
   decoded node is well-formed enough for proof.go get to walk it with a
   terminated key, hence VerifyProof never panics. *)
From Coq Require Import ZifyBool ZifyN ZifyNat.
From AQ Require Import Lib.Bytes Rlp.RlpSpec Rlp.RlpProofs Trie.MptSpec Trie.TrieModel Trie.TrieInv Trie.TrieProofs.
Local Open Scope N_scope.

(* ------------------------------------------------------------------ one-step unfolding of decode_node *)

(* decodeRef, over the recursive call *)
Definition decode_ref_of (rec : bytes -> res node) (buf : bytes) : res (node * bytes) :=
  match split buf with
  | None => Err
  | Some (KLst, _, rest) =>
    if Nat.ltb 32 (length buf - length rest) then Err
    else bind (rec buf) (fun n => Ok (n, rest))
  | Some (KStr, val, rest) =>
    match length val with
    | O => Ok (NNil, rest)
    | 32%nat => Ok (NHash val, rest)
    | _ => Err
    end
  end.

(* the child loop of decodeFull, over decodeRef *)
Definition full_go (dref : bytes -> res (node * bytes)) (fl : flag) :=
  fix go (i : nat) (elems : bytes) (acc : list node) {struct i} : res node :=
    match i with
    | O =>
      match split_string elems with
      | None => Err
      | Some (val, _) =>
        Ok (NFull (rev acc ++ [match val with [] => NNil | _ => NVal val end]) fl)
      end
    | S i' => bind (dref elems) (fun '(cld, rest) => go i' rest (cld :: acc))
    end.

Lemma full_go_O dref fl elems acc :
  full_go dref fl O elems acc =
    match split_string elems with
    | None => Err
    | Some (val, _) => Ok (NFull (rev acc ++ [match val with [] => NNil | _ => NVal val end]) fl)
    end.
Proof. reflexivity. Qed.
Lemma full_go_S dref fl i elems acc :
  full_go dref fl (S i) elems acc =
    bind (dref elems) (fun '(cld, rest) => full_go dref fl i rest (cld :: acc)).
Proof. reflexivity. Qed.

Definition decode_body (rec : bytes -> res node) (hash : option bytes) (buf : bytes) (gen : N) : res node :=
  match buf with
  | [] => Err
  | _ =>
    match split_list buf with
    | None => Err
    | Some (elems, _) =>
      let c := count_or_0 elems in
      if c =? 2 then
        match split_string elems with
        | None => Err
        | Some (kbuf, rest) =>
          let fl := mkFlag hash gen false in
          let key := compact_to_hex kbuf in
          if has_term key then
            match split_string rest with
            | None => Err
            | Some (val, _) => Ok (NShort key (NVal val) fl)
            end
          else bind (decode_ref_of rec rest) (fun '(r, _) => Ok (NShort key r fl))
        end
      else if c =? 17 then full_go (decode_ref_of rec) (mkFlag hash gen false) 16%nat elems []
      else Err
    end
  end.

Lemma decode_node_O hash buf gen : decode_node O hash buf gen = OutOfFuel.
Proof. reflexivity. Qed.
Lemma decode_node_S fuel hash buf gen :
  decode_node (S fuel) hash buf gen = decode_body (fun b => decode_node fuel None b gen) hash buf gen.
Proof. reflexivity. Qed.

(* ------------------------------------------------------------------ (1) decodeNode never panics *)

Lemma decode_ref_of_np rec : (forall b, rec b <> Panic) -> forall b, decode_ref_of rec b <> Panic.
Proof.
  intros Hrec b. unfold decode_ref_of.
  destruct (split b) as [[[[|] c] r]|]; [| |discriminate].
  - destruct (length c) as [|n]; [discriminate|].
    do 31 (destruct n as [|n]; [discriminate|]). destruct n; discriminate.
  - destruct (Nat.ltb 32 (length b - length r)); [discriminate|].
    specialize (Hrec b). destruct (rec b); cbn [bind]; congruence.
Qed.

Lemma full_go_np dref fl : (forall b, dref b <> Panic) ->
  forall i elems acc, full_go dref fl i elems acc <> Panic.
Proof.
  intros Hd. induction i as [|i IH]; intros elems acc.
  - rewrite full_go_O. destruct (split_string elems) as [[v r]|]; discriminate.
  - rewrite full_go_S. specialize (Hd elems).
    destruct (dref elems) as [[cld rest]| | | |]; cbn [bind]; [apply IH|congruence..].
Qed.

Lemma decode_body_np rec hash buf gen : (forall b, rec b <> Panic) -> decode_body rec hash buf gen <> Panic.
Proof.
  intros Hrec. unfold decode_body. destruct buf as [|b0 buf']; [discriminate|].
  destruct (split_list (b0 :: buf')) as [[elems r0]|]; [|discriminate].
  cbv zeta. destruct (count_or_0 elems =? 2).
  - destruct (split_string elems) as [[kbuf rest]|]; [|discriminate].
    destruct (has_term (compact_to_hex kbuf)).
    + destruct (split_string rest) as [[v r1]|]; discriminate.
    + pose proof (decode_ref_of_np rec Hrec rest) as Hr.
      destruct (decode_ref_of rec rest) as [[r x]| | | |]; cbn [bind]; congruence.
  - destruct (count_or_0 elems =? 17); [|discriminate].
    apply full_go_np. now apply decode_ref_of_np.
Qed.

Theorem decode_node_no_panic : forall fuel hash buf gen, decode_node fuel hash buf gen <> Panic.
Proof.
  induction fuel as [|fuel IH]; intros hash buf gen.
  - rewrite decode_node_O. discriminate.
  - rewrite decode_node_S. apply decode_body_np. intros b. apply IH.
Qed.

Corollary decode_node_top_no_panic : forall hash buf gen, decode_node_top hash buf gen <> Panic.
Proof. intros. apply decode_node_no_panic. Qed.

(* ------------------------------------------------------------------ (2) fuel adequacy *)

Lemma split_lst_lt b c r : split b = Some (KLst, c, r) -> (length c + length r < length b)%nat.
Proof.
  intros H. apply split_canon in H as [-> _]. rewrite app_length.
  pose proof (enc_KLst_length c). lia.
Qed.
Lemma split_rest_lt b k c r : split b = Some (k, c, r) -> (length r < length b)%nat.
Proof.
  intros H. apply split_canon in H as [-> _]. rewrite app_length.
  destruct (enc_nonempty k c) as (h & t & ->). cbn [length]. lia.
Qed.
Lemma split_list_lt b c r : split_list b = Some (c, r) -> (length c < length b)%nat.
Proof.
  unfold split_list. destruct (split b) as [[[[|] c'] r']|] eqn:E; try discriminate.
  intros H. injection H as <- <-. apply split_lst_lt in E. lia.
Qed.
Lemma split_string_rest_lt b c r : split_string b = Some (c, r) -> (length r < length b)%nat.
Proof.
  unfold split_string. destruct (split b) as [[[[|] c'] r']|] eqn:E; try discriminate.
  intros H. injection H as <- <-. now apply split_rest_lt in E.
Qed.

Lemma decode_ref_of_rest rec b n r : decode_ref_of rec b = Ok (n, r) -> (length r < length b)%nat.
Proof.
  unfold decode_ref_of. destruct (split b) as [[[[|] c] r']|] eqn:E; [| |discriminate].
  - apply split_rest_lt in E. destruct (length c) as [|m].
    + intros H. injection H as <- <-. exact E.
    + do 31 (destruct m as [|m]; [discriminate|]). destruct m; [|discriminate].
      intros H. injection H as <- <-. exact E.
  - apply split_rest_lt in E. destruct (Nat.ltb 32 (length b - length r')); [discriminate|].
    destruct (rec b); cbn [bind]; try discriminate. intros H. injection H as <- <-. exact E.
Qed.

Lemma decode_ref_of_nf rec b : rec b <> OutOfFuel -> decode_ref_of rec b <> OutOfFuel.
Proof.
  intros Hrec. unfold decode_ref_of.
  destruct (split b) as [[[[|] c] r]|]; [| |discriminate].
  - destruct (length c) as [|n]; [discriminate|].
    do 31 (destruct n as [|n]; [discriminate|]). destruct n; discriminate.
  - destruct (Nat.ltb 32 (length b - length r)); [discriminate|].
    destruct (rec b); cbn [bind]; congruence.
Qed.

Lemma full_go_nf dref fl (m : nat) :
  (forall b, (length b <= m)%nat -> dref b <> OutOfFuel) ->
  (forall b n r, dref b = Ok (n, r) -> (length r <= length b)%nat) ->
  forall i elems acc, (length elems <= m)%nat -> full_go dref fl i elems acc <> OutOfFuel.
Proof.
  intros Hd Hr. induction i as [|i IH]; intros elems acc Hl.
  - rewrite full_go_O. destruct (split_string elems) as [[v r]|]; discriminate.
  - rewrite full_go_S. specialize (Hd elems Hl). specialize (Hr elems).
    destruct (dref elems) as [[cld rest]| | | |]; cbn [bind]; [|congruence..].
    apply IH. specialize (Hr cld rest eq_refl). clear - Hr Hl. lia.
Qed.

Lemma decode_body_nf rec hash buf gen :
  (forall b, (length b < length buf)%nat -> rec b <> OutOfFuel) ->
  decode_body rec hash buf gen <> OutOfFuel.
Proof.
  intros Hrec. unfold decode_body. destruct buf as [|b0 buf']; [discriminate|].
  set (buf := b0 :: buf') in *.
  destruct (split_list buf) as [[elems r0]|] eqn:Es; [|discriminate].
  apply split_list_lt in Es.
  cbv zeta. destruct (count_or_0 elems =? 2).
  - destruct (split_string elems) as [[kbuf rest]|] eqn:Ek; [|discriminate].
    apply split_string_rest_lt in Ek.
    destruct (has_term (compact_to_hex kbuf)).
    + destruct (split_string rest) as [[v r1]|]; discriminate.
    + assert (Hr : decode_ref_of rec rest <> OutOfFuel).
      { apply decode_ref_of_nf. apply Hrec. clear - Es Ek. lia. }
      destruct (decode_ref_of rec rest) as [[r x]| | | |]; cbn [bind]; congruence.
  - destruct (count_or_0 elems =? 17); [|discriminate].
    apply (full_go_nf _ _ (length elems)).
    + intros b Hb. apply decode_ref_of_nf. apply Hrec. clear - Es Hb. lia.
    + intros b n r H. apply decode_ref_of_rest in H. clear - H. lia.
    + apply le_n.
Qed.

Theorem decode_node_fuel : forall fuel hash buf gen,
  (length buf < fuel)%nat -> decode_node fuel hash buf gen <> OutOfFuel.
Proof.
  induction fuel as [|fuel IH]; intros hash buf gen Hl; [inversion Hl|].
  rewrite decode_node_S. apply decode_body_nf. intros b Hb. apply IH.
  clear - Hl Hb. lia.
Qed.

Theorem decode_node_top_fuel : forall hash buf gen, decode_node_top hash buf gen <> OutOfFuel.
Proof. intros. unfold decode_node_top. apply decode_node_fuel. apply Nat.lt_succ_diag_r. Qed.

(* ------------------------------------------------------------------ (3) well-formedness of decoded nodes *)

(* slot 16 of a decoded full node: nil or a value *)
Definition slot16 (c : node) : Prop := c = NNil \/ exists v, c = NVal v.

(* a decoded node in child position: nil, a hash reference, or an embedded
   short / full node.  A short node is a leaf (terminated key over a value) or
   an extension (pure nibble path over a child); a full node has 17 slots,
   0..15 children, slot 16 nil or a value. *)
Inductive dwf_child : node -> Prop :=
| dw_nil : dwf_child NNil
| dw_hash h : dwf_child (NHash h)
| dw_leaf k v f : has_term k = true -> pathb (removelast k) = true -> dwf_child (NShort k (NVal v) f)
| dw_ext k c f : pathb k = true -> dwf_child c -> dwf_child (NShort k c f)
| dw_full cs16 last f : length cs16 = 16%nat -> Forall dwf_child cs16 -> slot16 last ->
    dwf_child (NFull (cs16 ++ [last]) f).

Definition is_sf (n : node) : bool := match n with NShort _ _ _ | NFull _ _ => true | _ => false end.
(* what decodeNode returns: a short or a full node *)
Definition dwf (n : node) : Prop := dwf_child n /\ is_sf n = true.

(* the shape asked for, as inversion lemmas *)
Lemma dwf_short_inv k c f : dwf (NShort k c f) ->
  (has_term k = true /\ exists v, c = NVal v /\ pathb (removelast k) = true) \/
  (pathb k = true /\ dwf_child c).
Proof. intros [H _]. inversion H; subst; eauto. Qed.
Lemma dwf_full_inv cs f : dwf (NFull cs f) ->
  length cs = 17%nat /\ (forall i, (i < 16)%nat -> dwf_child (nth i cs NNil)) /\ slot16 (nth 16 cs NNil).
Proof.
  intros [H _]. inversion H as [| | | |cs16 last f' Hl Hf Hs]; subst.
  split; [rewrite app_length, Hl; reflexivity|]. split.
  - intros i Hi. rewrite app_nth1 by (rewrite Hl; exact Hi).
    rewrite Forall_forall in Hf. apply Hf. apply nth_In. rewrite Hl. exact Hi.
  - rewrite app_nth2 by (rewrite Hl; apply le_n). rewrite Hl, Nat.sub_diag. exact Hs.
Qed.
Lemma dwf_child_cases c : dwf_child c <-> c = NNil \/ (exists h, c = NHash h) \/ dwf c.
Proof.
  split.
  - intros H. destruct c; [now left| | |right; left; eauto|inversion H];
      right; right; (split; [exact H|reflexivity]).
  - intros [->|[(h & ->)|[H _]]]; [constructor|constructor|exact H].
Qed.

(* ---- keys ---- *)
Fixpoint hexn (s : bytes) : bytes :=
  match s with
  | [] => []
  | b :: t => n2b (b2n b / 16) :: n2b (b2n b mod 16) :: hexn t
  end.
Lemma keybytes_to_hex_hexn s : keybytes_to_hex s = hexn s ++ [term].
Proof. induction s as [|b t IH]; [reflexivity|]. cbn [keybytes_to_hex hexn app]. now rewrite IH. Qed.
Lemma nibb_hi b : nibb (n2b (b2n b / 16)) = true.
Proof.
  assert (H : b2n b / 16 < 16).
  { apply N.div_lt_upper_bound; [discriminate|]. pose proof (b2n_lt b). lia. }
  unfold nibb. rewrite b2n_n2b by (clear - H; lia). clear - H. lia.
Qed.
Lemma nibb_lo b : nibb (n2b (b2n b mod 16)) = true.
Proof.
  assert (H : b2n b mod 16 < 16) by (apply N.mod_lt; discriminate).
  unfold nibb. rewrite b2n_n2b by (clear - H; lia). clear - H. lia.
Qed.
Lemma pathb_hexn s : pathb (hexn s) = true.
Proof.
  induction s as [|b t IH]; [reflexivity|].
  cbn [hexn pathb forallb]. rewrite nibb_hi, nibb_lo. exact IH.
Qed.
(* (TrieTheorems.tkeyb_hex, reproved here) *)
Lemma tkeyb_keybytes_to_hex key : tkeyb (keybytes_to_hex key) = true.
Proof. rewrite keybytes_to_hex_hexn. apply tkeyb_app; [apply pathb_hexn|reflexivity]. Qed.

Lemma has_term_snoc p : has_term (p ++ [term]) = true.
Proof.
  unfold has_term. destruct (p ++ [term]) eqn:E; [destruct p; discriminate|].
  rewrite <- E, last_last. apply byte_eqb_refl.
Qed.
Lemma pathb_no_term k : pathb k = true -> has_term k = false.
Proof.
  intros H. destruct k as [|a k]; [reflexivity|].
  destruct (@exists_last _ (a :: k)) as (p & x & E); [discriminate|].
  rewrite E in *. rewrite pathb_app in H. apply andb_true_iff in H as [_ H].
  cbn [pathb forallb] in H. rewrite andb_true_r in H.
  unfold has_term. destruct (p ++ [x]) eqn:E'; [reflexivity|]. rewrite <- E', last_last.
  destruct (byte_eqb_spec x term) as [->|]; [now rewrite nibb_term in H|reflexivity].
Qed.

Lemma chop_cases x : N.to_nat (2 - N.land x 1) = 1%nat \/ N.to_nat (2 - N.land x 1) = 2%nat.
Proof.
  pose proof (N.land_ones x 1) as H. change (N.ones 1) with 1 in H. change (2 ^ 1) with 2 in H.
  assert (Hm : x mod 2 < 2) by (apply N.mod_lt; discriminate).
  rewrite H. clear H. destruct (N.eq_dec (x mod 2) 0) as [E|E]; [right|left]; lia.
Qed.

(* compactToHex yields nibbles, with at most a final terminator *)
Lemma compact_to_hex_shape c :
  pathb (compact_to_hex c) = true \/ (exists p, compact_to_hex c = p ++ [term] /\ pathb p = true).
Proof.
  destruct c as [|c0 c']; [left; reflexivity|].
  unfold compact_to_hex. rewrite keybytes_to_hex_hexn, removelast_last. cbn [hexn].
  pose proof (nibb_hi c0) as H0. pose proof (nibb_lo c0) as H1. pose proof (pathb_hexn c') as Hr.
  set (b0 := n2b (b2n c0 / 16)) in *. set (b1 := n2b (b2n c0 mod 16)) in *. set (rest := hexn c') in *.
  destruct (2 <=? b2n b0).
  - right. cbn [app]. destruct (chop_cases (b2n b0)) as [-> | ->]; cbn [skipn].
    + exists (b1 :: rest). split; [reflexivity|]. cbn [pathb forallb]. now rewrite H1.
    + exists rest. split; [reflexivity|exact Hr].
  - left. destruct (chop_cases (b2n b0)) as [-> | ->]; cbn [skipn].
    + cbn [pathb forallb]. now rewrite H1.
    + exact Hr.
Qed.

(* ---- the decoder ---- *)
Lemma decode_ref_of_wf rec : (forall b m, rec b = Ok m -> dwf m) ->
  forall b n r, decode_ref_of rec b = Ok (n, r) -> dwf_child n.
Proof.
  intros Hrec b n r. unfold decode_ref_of.
  destruct (split b) as [[[[|] c] r']|]; [| |discriminate].
  - destruct (length c) as [|m].
    + intros H. injection H as <- <-. constructor.
    + do 31 (destruct m as [|m]; [discriminate|]). destruct m; [|discriminate].
      intros H. injection H as <- <-. constructor.
  - destruct (Nat.ltb 32 (length b - length r')); [discriminate|].
    destruct (rec b) as [m| | | |] eqn:E; cbn [bind]; try discriminate.
    intros H. injection H as <- <-. apply (Hrec _ _ E).
Qed.

Lemma full_go_wf dref fl : (forall b n r, dref b = Ok (n, r) -> dwf_child n) ->
  forall i elems acc n, Forall dwf_child acc -> (length acc + i = 16)%nat ->
    full_go dref fl i elems acc = Ok n -> dwf n.
Proof.
  intros Hd. induction i as [|i IH]; intros elems acc n Hacc Hlen.
  - rewrite full_go_O. destruct (split_string elems) as [[v r]|]; [|discriminate].
    intros H. injection H as <-. split; [|reflexivity]. constructor.
    + rewrite rev_length. clear - Hlen. lia.
    + now apply Forall_rev.
    + destruct v; [left; reflexivity|right; eauto].
  - rewrite full_go_S. destruct (dref elems) as [[cld rest]| | | |] eqn:E; cbn [bind]; try discriminate.
    apply IH.
    + constructor; [exact (Hd _ _ _ E)|exact Hacc].
    + cbn [length]. clear - Hlen. lia.
Qed.

Lemma decode_body_wf rec hash buf gen n : (forall b m, rec b = Ok m -> dwf m) ->
  decode_body rec hash buf gen = Ok n -> dwf n.
Proof.
  intros Hrec. unfold decode_body. destruct buf as [|b0 buf']; [discriminate|].
  destruct (split_list (b0 :: buf')) as [[elems r0]|]; [|discriminate].
  cbv zeta. destruct (count_or_0 elems =? 2).
  - destruct (split_string elems) as [[kbuf rest]|]; [|discriminate].
    destruct (compact_to_hex_shape kbuf) as [Hp|(p & Ep & Hp)].
    + rewrite (pathb_no_term _ Hp).
      destruct (decode_ref_of rec rest) as [[r x]| | | |] eqn:E; cbn [bind]; try discriminate.
      intros H. injection H as <-. split; [|reflexivity].
      apply dw_ext; [exact Hp|]. exact (decode_ref_of_wf rec Hrec _ _ _ E).
    + rewrite Ep, has_term_snoc.
      destruct (split_string rest) as [[v r1]|]; [|discriminate].
      intros H. injection H as <-. split; [|reflexivity].
      apply dw_leaf; [apply has_term_snoc|now rewrite removelast_last].
  - destruct (count_or_0 elems =? 17); [|discriminate].
    apply full_go_wf; [apply decode_ref_of_wf; exact Hrec|constructor|reflexivity].
Qed.

Theorem decode_node_wf : forall fuel hash buf gen n, decode_node fuel hash buf gen = Ok n -> dwf n.
Proof.
  induction fuel as [|fuel IH]; intros hash buf gen n.
  - rewrite decode_node_O. discriminate.
  - rewrite decode_node_S. apply decode_body_wf. intros b m. apply IH.
Qed.

Corollary decode_node_top_wf : forall hash buf gen n, decode_node_top hash buf gen = Ok n -> dwf n.
Proof. intros hash buf gen n. apply decode_node_wf. Qed.

(* ------------------------------------------------------------------ proof.go get / VerifyProof never panic *)

Lemma proof_get_O n key : proof_get O n key = GFuel.
Proof. reflexivity. Qed.
Lemma proof_get_S fuel n key :
  proof_get (S fuel) n key =
    match n with
    | NShort nk nv _ =>
      if negb (has_prefix key nk) then GNil else proof_get fuel nv (skipn (length nk) key)
    | NFull cs _ =>
      match key with
      | [] => GPanic
      | k0 :: krest =>
        match get_child cs k0 with Ok c => proof_get fuel c krest | _ => GPanic end
      end
    | NHash h => GHash key h
    | NNil => GNil
    | NVal v => GVal v
    end.
Proof. reflexivity. Qed.

(* the walk stops at nil / a value *)
Lemma proof_get_stop fuel c key : slot16 c \/ (exists v, c = NVal v) ->
  proof_get fuel c key <> GPanic /\ (forall kr h, proof_get fuel c key <> GHash kr h).
Proof.
  intros H. destruct fuel as [|fuel]; [rewrite proof_get_O; split; [|intros kr h]; discriminate|].
  rewrite proof_get_S.
  destruct H as [[->|(v & ->)]|(v & ->)]; (split; [|intros kr h]; discriminate).
Qed.

Lemma proof_get_no_panic : forall fuel n key, dwf_child n -> tkeyb key = true ->
  proof_get fuel n key <> GPanic /\
  (forall kr h, proof_get fuel n key = GHash kr h -> tkeyb kr = true).
Proof.
  induction fuel as [|fuel IH]; intros n key Hn Hk.
  - rewrite proof_get_O. split; [|intros kr h]; discriminate.
  - rewrite proof_get_S.
    inversion Hn as [|h|nk v f Ht Hp|nk c f Hp Hc|cs16 last f Hl Hf Hs]; subst n.
    + split; [|intros kr h]; discriminate.
    + split; [discriminate|]. intros kr h' E. injection E as <- _. exact Hk.
    + destruct (has_prefix key nk); cbn [negb]; [|split; [|intros kr h]; discriminate].
      destruct (proof_get_stop fuel (NVal v) (skipn (length nk) key)) as [H1 H2]; [right; eauto|].
      split; [exact H1|]. intros kr h E. exfalso. exact (H2 _ _ E).
    + destruct (has_prefix key nk) eqn:Hpre; cbn [negb]; [|split; [|intros kr h]; discriminate].
      apply IH; [exact Hc|]. now apply tkeyb_skip_path.
    + destruct key as [|k0 krest]; [discriminate|].
      apply tkeyb_cons in Hk as [[-> ->]|(_ & Hb & Hkr)].
      * (* the terminator: slot 16 *)
        assert (Eg : get_child (cs16 ++ [last]) term = Ok last).
        { rewrite get_child_ok by (rewrite app_length, Hl, nidx_term; cbn; lia).
          rewrite nidx_term, app_nth2 by (rewrite Hl; apply le_n).
          now rewrite Hl, Nat.sub_diag. }
        rewrite Eg.
        destruct (proof_get_stop fuel last []) as [H1 H2]; [left; exact Hs|].
        split; [exact H1|]. intros kr h E. exfalso. exact (H2 _ _ E).
      * apply nibb_nidx in Hb.
        assert (Eg : get_child (cs16 ++ [last]) k0 = Ok (nth (nidx k0) cs16 NNil)).
        { rewrite get_child_ok by (rewrite app_length, Hl; cbn [length]; clear - Hb; lia).
          now rewrite app_nth1 by (rewrite Hl; exact Hb). }
        rewrite Eg. apply IH; [|exact Hkr].
        rewrite Forall_forall in Hf. apply Hf. apply nth_In. rewrite Hl. exact Hb.
Qed.

Theorem verify_loop_no_panic : forall fuel pdb want key,
  tkeyb key = true -> verify_loop fuel pdb want key <> Panic.
Proof.
  induction fuel as [|fuel IH]; intros pdb want key Hk; [discriminate|].
  cbn [verify_loop]. destruct (db_get pdb want) as [[|e0 enc]|]; [discriminate| |discriminate].
  pose proof (decode_node_top_no_panic (Some want) (e0 :: enc) 0) as Hnp.
  pose proof (decode_node_top_wf (Some want) (e0 :: enc) 0) as Hwf.
  destruct (decode_node_top (Some want) (e0 :: enc) 0) as [n| | | |]; cbn [bind]; try congruence.
  destruct (Hwf n eq_refl) as [Hc _].
  destruct (proof_get_no_panic (2 * length key + 40) n key Hc Hk) as [H1 H2].
  destruct (proof_get (2 * length key + 40) n key) as [|kr h|v| |]; try congruence; try discriminate.
  apply IH. exact (H2 kr h eq_refl).
Qed.

Theorem verify_proof_no_panic : forall root key pdb, verify_proof root key pdb <> Panic.
Proof. intros. unfold verify_proof. apply verify_loop_no_panic. apply tkeyb_keybytes_to_hex. Qed.
