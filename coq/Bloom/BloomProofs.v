(* Bloom/BloomProofs.v — proofs about Bloom/BloomModel.v and Bloom/FilterModel.v (property C16). *)
From AQ Require Import Lib.Bytes Bloom.BloomModel Bloom.FilterModel.
From Coq Require Import ZifyBool ZifyN ZifyNat.
Local Open Scope N_scope.
Ltac Zify.zify_post_hook ::= Z.div_mod_to_equations.

(* ------------------------------------------------------------------ *)
(* 1. blooms: inclusion, no false negatives                            *)
(* ------------------------------------------------------------------ *)

(* a is included in b *)
Definition sub (a b : N) : Prop := N.land b a = a.

Lemma sub_spec a b : sub a b <-> forall i, N.testbit a i = true -> N.testbit b i = true.
Proof.
  unfold sub. split.
  - intros Hs i Hi. rewrite <- Hs in Hi. rewrite N.land_spec in Hi.
    apply andb_true_iff in Hi. tauto.
  - intros Hs. apply N.bits_inj. intro i. rewrite N.land_spec.
    destruct (N.testbit a i) eqn:Ha.
    + rewrite (Hs i Ha). reflexivity.
    + apply andb_false_r.
Qed.

Lemma sub_refl a : sub a a.
Proof. apply sub_spec. auto. Qed.
Lemma sub_trans a b c : sub a b -> sub b c -> sub a c.
Proof. rewrite !sub_spec. auto. Qed.
Lemma sub_lor_l a b : sub a (N.lor a b).
Proof. apply sub_spec. intros i Hi. rewrite N.lor_spec, Hi. reflexivity. Qed.
Lemma sub_lor_r a b : sub b (N.lor a b).
Proof. apply sub_spec. intros i Hi. rewrite N.lor_spec, Hi. apply orb_true_r. Qed.

Section Hash.
Variable H : bytes -> bytes.

Lemma bloom_lookup_sub bloom x : bloom_lookup H bloom x = true <-> sub (bloom9 H x) bloom.
Proof. unfold bloom_lookup, sub. apply N.eqb_eq. Qed.

(* folds that only OR things in *)
Lemma fold_lor_init {A} (f : A -> N) l : forall init, sub init (fold_left (fun bin x => N.lor bin (f x)) l init).
Proof.
  induction l as [|x l IH]; intro init; cbn [fold_left].
  - apply sub_refl.
  - eapply sub_trans; [apply sub_lor_l | apply IH].
Qed.
Lemma fold_lor_in {A} (f : A -> N) l : forall init x, In x l ->
  sub (f x) (fold_left (fun bin x => N.lor bin (f x)) l init).
Proof.
  induction l as [|y l IH]; intros init x Hin; cbn [fold_left]; [destruct Hin|].
  destruct Hin as [->|Hin].
  - eapply sub_trans; [apply sub_lor_r | apply fold_lor_init].
  - apply IH, Hin.
Qed.

Lemma log_bloom_init bin l : sub bin (log_bloom H bin l).
Proof. unfold log_bloom. eapply sub_trans; [apply sub_lor_l | apply fold_lor_init]. Qed.
Lemma log_bloom_addr bin l : sub (bloom9 H (l_addr l)) (log_bloom H bin l).
Proof. unfold log_bloom. eapply sub_trans; [apply sub_lor_r | apply fold_lor_init]. Qed.
Lemma log_bloom_topic bin l t : In t (l_topics l) -> sub (bloom9 H t) (log_bloom H bin l).
Proof. intro Hin. unfold log_bloom. apply (fold_lor_in (bloom9 H)), Hin. Qed.

Lemma logs_fold_init logs : forall init, sub init (fold_left (log_bloom H) logs init).
Proof.
  induction logs as [|l logs IH]; intro init; cbn [fold_left]; [apply sub_refl|].
  eapply sub_trans; [apply log_bloom_init | apply IH].
Qed.
Lemma logs_fold_in logs : forall init l x, In l logs -> (x = l_addr l \/ In x (l_topics l)) ->
  sub (bloom9 H x) (fold_left (log_bloom H) logs init).
Proof.
  induction logs as [|l0 logs IH]; intros init l x Hin Hx; cbn [fold_left]; [destruct Hin|].
  destruct Hin as [->|Hin].
  - eapply sub_trans; [|apply logs_fold_init].
    destruct Hx as [->|Ht]; [apply log_bloom_addr | apply log_bloom_topic, Ht].
  - eapply IH; eauto.
Qed.

(* every address and topic of every log of the receipts is included in create_bloom *)
Lemma create_bloom_covers rs r l x : In r rs -> In l r -> (x = l_addr l \/ In x (l_topics l)) ->
  sub (bloom9 H x) (create_bloom H rs).
Proof.
  intros Hr Hl Hx. unfold create_bloom.
  eapply sub_trans; [|apply (fold_lor_in (logs_bloom H)), Hr].
  unfold logs_bloom. eapply logs_fold_in; eauto.
Qed.

Theorem bloom_no_false_negative : forall (rs : list (list log)) (r : list log) (l : log),
  In r rs -> In l r ->
  bloom_lookup H (create_bloom H rs) (l_addr l) = true /\
  (forall t, In t (l_topics l) -> bloom_lookup H (create_bloom H rs) t = true).
Proof.
  intros rs r l Hr Hl. split; [|intros t Ht]; apply bloom_lookup_sub;
    eapply create_bloom_covers; eauto.
Qed.

(* ------------------------------------------------------------------ *)
(* 2. calcBloomIndexes agrees with bloom9                              *)
(* ------------------------------------------------------------------ *)

Lemma byte_at_lt h i : byte_at h i < 256.
Proof. unfold byte_at. apply b2n_lt. Qed.

Lemma idx_arith a b : a < 256 -> b < 256 ->
  N.land (b + N.shiftl a 8) 2047 = N.land (N.shiftl a 8) 2047 + b.
Proof.
  intros Ha Hb. change 2047 with (N.ones 11). rewrite !N.land_ones, !N.shiftl_mul_pow2.
  change (2 ^ 8) with 256. change (2 ^ 11) with 2048. lia.
Qed.

Lemma pos_agree h i : bloom9_pos h (2 * i) = calc_idx h i.
Proof.
  unfold bloom9_pos, calc_idx. replace (2 * i + 1)%nat with (S (2 * i)) by lia.
  apply idx_arith; apply byte_at_lt.
Qed.

Definition bits3 (t : N * N * N) : N :=
  let '(i, j, k) := t in N.lor (N.lor (N.lor 0 (N.shiftl 1 i)) (N.shiftl 1 j)) (N.shiftl 1 k).

Theorem indexes_agree : forall x, bloom9 H x = bits3 (calc_bloom_indexes H x).
Proof.
  intro x. unfold bloom9, calc_bloom_indexes, bits3.
  rewrite <- (pos_agree (H x) 0), <- (pos_agree (H x) 1), <- (pos_agree (H x) 2). reflexivity.
Qed.

Lemma calc_idx_lt h i : calc_idx h i < 2048.
Proof.
  rewrite <- pos_agree. unfold bloom9_pos. change 2047 with (N.ones 11). rewrite N.land_ones.
  apply N.mod_lt. discriminate.
Qed.

Lemma bits3_testbit i j k n :
  N.testbit (bits3 (i, j, k)) n = (N.eqb i n || N.eqb j n || N.eqb k n)%bool.
Proof.
  unfold bits3. rewrite !N.lor_spec, !N.shiftl_1_l, !N.pow2_bits_eqb, N.bits_0. reflexivity.
Qed.

(* the matcher's three-bit test is BloomLookup *)
Definition tri_test (b : N) (t : N * N * N) : bool :=
  let '(i, j, k) := t in (N.testbit b i && N.testbit b j && N.testbit b k)%bool.

Lemma lookup_tri bloom x : bloom_lookup H bloom x = tri_test bloom (calc_bloom_indexes H x).
Proof.
  destruct (calc_bloom_indexes H x) as [[i j] k] eqn:E.
  apply eq_true_iff_eq. rewrite bloom_lookup_sub, indexes_agree, E, sub_spec. cbn [tri_test].
  rewrite !andb_true_iff. split.
  - intro Hs. repeat split; apply Hs; rewrite bits3_testbit, ?N.eqb_refl, ?orb_true_r; reflexivity.
  - intros [[Hi Hj] Hk] n Hn. rewrite bits3_testbit in Hn.
    apply orb_true_iff in Hn. destruct Hn as [Hn|Hn]; [apply orb_true_iff in Hn; destruct Hn as [Hn|Hn]|];
      apply N.eqb_eq in Hn; subst n; assumption.
Qed.

End Hash.
