(* Bloom/BitutilModel.v — common/bitutil/compress.go: CompressBytes / bitsetEncodeBytes and
   DecompressBytes / bitsetDecodeBytes / bitsetDecodePartialBytes, the form in which bloom-bits rows are
   stored (aqua/bloombits.go Commit -> CompressBytes; startBloomHandlers -> DecompressBytes(_, size/8)).
   Definitions only (extracted).  Go's `ptr` into data is the list of bytes not yet consumed. *)
From AQ Require Import Lib.Bytes Bloom.BloomModel Bloom.FilterModel Bloom.ByteModel.
Local Open Scope N_scope.

Definition nz (b : byte) : bool := negb (b2n b =? 0).

(* nonZeroBitset: len(data) bits, MSB first, in (len(data)+7)/8 bytes (last byte zero padded) *)
Definition bitmap (d : bytes) : bytes :=
  pack (map nz d ++ repeat false ((8 - length d mod 8) mod 8)%nat).

(* bitsetEncodeBytes *)
Fixpoint encode (fuel : nat) (d : bytes) : bytes :=
  match fuel with
  | O => []
  | S f =>
    match d with
    | [] => []                                        (* empty slices get compressed to nil *)
    | [b] => if nz b then [b] else []                 (* one byte: nil or the byte *)
    | _ => match filter nz d with
           | [] => []                                 (* len(nonZeroBytes) == 0 *)
           | nzb => encode f (bitmap d) ++ nzb
           end
    end
  end.

(* CompressBytes: the encoding only if it is strictly shorter, else a copy of the data *)
Definition compress (d : bytes) : bytes :=
  let out := encode (length d) d in
  if lenN out <? lenN d then out else d.

Inductive derr := ErrMissingData | ErrUnreferencedData | ErrExceededTarget | ErrZeroContent.
Inductive dres (A : Type) := DOk (a : A) | DErr (e : derr).
Arguments DOk {A} _. Arguments DErr {A} _.

(* the bits of a byte, bit 7 first *)
Definition unpack8 (x : byte) : list bool :=
  [byte_bit x 7; byte_bit x 6; byte_bit x 5; byte_bit x 4; byte_bit x 3; byte_bit x 2; byte_bit x 1; byte_bit x 0].

(* the loop of bitsetDecodePartialBytes over the bits of the decoded bitmap: `left` = target - i slots
   remain in decomp; a set bit takes the next data byte (checks in Go's order: data exhausted, slot beyond
   the target, zero content) *)
Fixpoint distribute (bits : list bool) (rest : bytes) (left : nat) : dres (bytes * bytes) :=
  match bits with
  | [] => DOk (repeat x00 left, rest)
  | b :: bs =>
    if b then
      match rest with
      | [] => DErr ErrMissingData
      | x :: r =>
        match left with
        | O => DErr ErrExceededTarget
        | S l => if nz x then
                   match distribute bs r l with DOk (out, r') => DOk (x :: out, r') | DErr e => DErr e end
                 else DErr ErrZeroContent
        end
      end
    else
      match left with
      | O => distribute bs rest O
      | S l => match distribute bs rest l with DOk (out, r') => DOk (x00 :: out, r') | DErr e => DErr e end
      end
  end.

(* bitsetDecodePartialBytes: (decompressed, unconsumed data) *)
Fixpoint decode_partial (fuel : nat) (data : bytes) (target : nat) : dres (bytes * bytes) :=
  match fuel with
  | O => DOk ([], data)
  | S f =>
    match target with
    | O => DOk ([], data)                                           (* target == 0 *)
    | _ =>
      match data with
      | [] => DOk (repeat x00 target, [])                           (* len(data) == 0 *)
      | x :: r =>
        match target with
        | 1%nat => if nz x then DOk ([x], r) else DOk ([x], data)   (* decomp[0] = data[0]; consumed 1 or 0 *)
        | _ =>
          match decode_partial f data ((target + 7) / 8)%nat with
          | DErr e => DErr e
          | DOk (bitset, rest) => distribute (flat_map unpack8 bitset) rest target
          end
        end
      end
    end
  end.

(* DecompressBytes (bitsetDecodeBytes inlined) *)
Definition decompress (data : bytes) (target : nat) : dres bytes :=
  if (target <? length data)%nat then DErr ErrExceededTarget
  else if (length data =? target)%nat then DOk data
  else match decode_partial (S target) data target with
       | DErr e => DErr e
       | DOk (out, rest) => match rest with [] => DOk out | _ => DErr ErrUnreferencedData end
       end.
