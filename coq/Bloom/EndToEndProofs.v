(* Bloom/EndToEndProofs.v — the end-to-end reading of C16: a log in a canonical block whose header bloom is
   CreateBloom of its receipts (what block validation enforces) is returned by a log query for every filter
   that matches it and every range that contains the block, indexed or not. *)
From AQ Require Import Lib.Bytes Bloom.BloomModel Bloom.FilterModel Bloom.BloomProofs Bloom.FilterProofs
  Bloom.IndexerModel Bloom.IndexerProofs.
From Coq Require Import ZifyBool ZifyN ZifyNat.
Local Open Scope N_scope.

Definition in_range (c : chain) (begin end_ : Z) (n : N) : Prop :=
  let head := Z.of_N (lenN c - 1) in
  let b := if (begin =? -1)%Z then head else begin in
  let e := if (end_ =? -1)%Z then head else end_ in
  (0 <= b)%Z /\ (b <= Z.of_N n <= e)%Z.

Lemma brute_force_complete addrs tops (c : chain) begin end_ n blk l :
  nthN c n = Some blk -> In l (concat (b_receipts blk)) -> log_matches addrs tops l = true ->
  in_range c begin end_ n ->
  In l (brute_force addrs tops c begin end_).
Proof.
  intros Hn Hl Hm [Hb0 Hr]. unfold brute_force. cbv zeta in *.
  set (b := if (begin =? -1)%Z then Z.of_N (lenN c - 1) else begin) in *.
  set (e := if (end_ =? -1)%Z then Z.of_N (lenN c - 1) else end_) in *.
  rewrite brute_firstn, dropN_skipn. apply in_flat_map. exists blk. split.
  - rewrite nthN_nth_error in Hn.
    apply (nth_error_In _ (N.to_nat n - N.to_nat (Z.to_N b))).
    rewrite nth_error_firstn', nth_error_skipn'.
    replace (N.to_nat n - N.to_nat (Z.to_N b) <? Z.to_nat (e + 1 - b))%nat with true by lia.
    replace (N.to_nat (Z.to_N b) + (N.to_nat n - N.to_nat (Z.to_N b)))%nat with (N.to_nat n) by lia.
    exact Hn.
  - unfold check_matches, filter_logs. apply filter_In. split; assumption.
Qed.

(* for any index progress (rows below it transposed): unindexed, partly or fully indexed *)
Theorem validated_log_returned :
  forall (H : bytes -> bytes) (addrs : list bytes) (tops : list (list bytes))
         (c : chain) (idx : index) (size sections : N) (begin end_ : Z) (n : N) (blk : block) (l : log),
  0 < size -> sections * size <= lenN c -> (Z.of_N (lenN c) < two63)%Z ->
  (-1 <= begin < two63)%Z -> (-1 <= end_ < two63)%Z ->
  index_sound idx size sections (bloom_at c) ->
  (forall b, In b c -> b_bloom b = create_bloom H (b_receipts b)) ->      (* block validation *)
  nthN c n = Some blk -> In l (concat (b_receipts blk)) -> log_matches addrs tops l = true ->
  in_range c begin end_ n ->
  In l (filter_query H addrs tops c idx size sections begin end_).
Proof.
  intros H addrs tops c idx size sections begin end_ n blk l Hs Hind Hlen Hb He Hidx Hval Hn Hl Hm Hr.
  assert (Hne : c <> []) by (intro Hc; subst c; discriminate).
  rewrite (logs_exact_general H addrs tops c idx size sections begin end_ Hne Hs Hind Hlen Hb He Hidx).
  - eapply brute_force_complete; eassumption.
  - intros b Hin. apply create_bloom_block_sound, Hval, Hin.
Qed.

(* ... and through the index a ChainIndexer has built over any history, once its notifications are delivered *)
Theorem validated_log_returned_indexed :
  forall (H : bytes -> bytes) (addrs : list bytes) (tops : list (list bytes))
         (commit : N -> list N -> gres (list N)) (size confirms : N) (c0 : hchain) (ops : list op)
         (begin end_ : Z) (n : N) (blk : block) (l : log),
  0 < size ->
  (forall blooms rows, commit size blooms = GOk rows -> lenN blooms = size -> rows_transposed size rows blooms) ->
  let w0 := mkW c0 [] ix_init in
  ops_valid commit size confirms w0 ops ->
  let w := run_ops commit size confirms w0 ops in
  let c := map hb_block (w_chain w) in
  w_queue w = [] ->
  (Z.of_N (lenN c) < two63)%Z -> (-1 <= begin < two63)%Z -> (-1 <= end_ < two63)%Z ->
  (forall b, In b c -> b_bloom b < 2 ^ 2048) ->
  (forall b, In b c -> b_bloom b = create_bloom H (b_receipts b)) ->      (* block validation *)
  nthN c n = Some blk -> In l (concat (b_receipts blk)) -> log_matches addrs tops l = true ->
  in_range c begin end_ n ->
  In l (filter_query H addrs tops c (index_of_world size w) size (ix_stored (w_ix w)) begin end_).
Proof.
  intros H addrs tops commit size confirms c0 ops begin end_ n blk l Hs Hcs w0 Hv w c Hq Hlen Hb He Hsmall Hval Hn Hl Hm Hr.
  assert (Hne : c <> []) by (intro Hc; rewrite Hc in Hn; discriminate).
  unfold c, w, w0 in *.
  rewrite (indexed_logs_exact H addrs tops commit size confirms c0 ops begin end_ Hs Hcs Hv Hq Hne Hlen Hb He Hsmall).
  - eapply brute_force_complete; eassumption.
  - intros b Hin. apply create_bloom_block_sound, Hval, Hin.
Qed.
