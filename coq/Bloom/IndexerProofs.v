(* Bloom/IndexerProofs.v — safety of the ChainIndexer state machine (IndexerModel.v): over every history of
   chain switches, notification deliveries and (two-phase) section steps, once every notification has been
   delivered each stored section's committed rows are the transposition of the blooms of the CURRENT
   canonical headers of that section. *)
From AQ Require Import Lib.Bytes Bloom.BloomModel Bloom.FilterModel Bloom.BloomProofs Bloom.FilterProofs Bloom.ByteModel Bloom.ByteProofs Bloom.IndexerModel.
From Coq Require Import ZifyBool ZifyN ZifyNat.
Local Open Scope N_scope.

Definition rows_transposed (size : N) (rows : list N) (blooms : list N) : Prop :=
  length rows = bloom_bit_length /\ forall i k, (i < bloom_bit_length)%nat -> k < size ->
    N.testbit (nth i rows 0) k = N.testbit (nth (N.to_nat k) blooms 0) (N.of_nat i).

Definition section_blooms (c : hchain) (size s : N) : list N :=
  map hb_bloom (firstn (N.to_nat size) (skipn (N.to_nat (s * size)) c)).

Definition db_find (db : list ((N * N) * list N)) (s h : N) : option (list N) :=
  match find (fun p => (fst (fst p) =? s) && (snd (fst p) =? h)) db with
  | Some p => Some (snd p) | None => None end.

(* section s is stored correctly for chain c *)
Definition sec_ok (size : N) (c : hchain) (st : ixstate) (s : N) : Prop :=
  (s + 1) * size <= lenN c /\
  shead st s = canon_hash c ((s + 1) * size - 1) /\
  exists rows, db_find (ix_db st) s (shead st s) = Some rows /\ rows_transposed size rows (section_blooms c size s).

(* ---------- section heads ---------- *)
Lemma shead_of_cons s h l s' : shead_of ((s, h) :: l) s' = if s =? s' then h else shead_of l s'.
Proof. unfold shead_of. cbn [find fst snd]. destruct (s =? s'); reflexivity. Qed.

Lemma shead_of_filter (f : N -> bool) l s :
  shead_of (filter (fun p => f (fst p)) l) s = if f s then shead_of l s else 0.
Proof.
  unfold shead_of. induction l as [|[s0 h0] l IH]; [destruct (f s); reflexivity|].
  cbn [filter fst]. destruct (f s0) eqn:Ef0; cbn [find fst snd].
  - destruct (N.eqb_spec s0 s) as [->|Hne]; [rewrite Ef0; reflexivity|exact IH].
  - destruct (N.eqb_spec s0 s) as [->|Hne]; [rewrite Ef0 in IH |- *; exact IH|exact IH].
Qed.

Lemma shead_set_valid st n s :
  shead (set_valid_sections st n) s = if (n <=? s) && (s <? ix_stored st) then 0 else shead st s.
Proof.
  unfold shead, set_valid_sections. cbn [ix_sheads].
  rewrite (shead_of_filter (fun x => negb ((n <=? x) && (x <? ix_stored st)))).
  destruct ((n <=? s) && (s <? ix_stored st)); reflexivity.
Qed.

Lemma db_find_cons s h rows db s' h' :
  db_find (((s, h), rows) :: db) s' h' = if (s =? s') && (h =? h') then Some rows else db_find db s' h'.
Proof. unfold db_find. cbn [find fst snd]. destruct ((s =? s') && (h =? h')); reflexivity. Qed.

(* ---------- reading a section ---------- *)
Lemma skipn_nthN {A} (c : list A) n b : nthN c n = Some b -> skipn (N.to_nat n) c = b :: skipn (N.to_nat (n + 1)) c.
Proof.
  intro Hn. rewrite nthN_nth_error in Hn. replace (N.to_nat (n + 1)) with (S (N.to_nat n)) by lia.
  apply skipn_nth_error, Hn.
Qed.

Lemma read_headers_spec c : forall cnt number last bs l,
  read_headers c number cnt last = Some (bs, l) ->
  bs = map hb_bloom (firstn cnt (skipn (N.to_nat number) c)) /\
  (cnt <> 0%nat -> number + N.of_nat cnt <= lenN c /\ l = canon_hash c (number + N.of_nat cnt - 1) /\ l <> 0).
Proof.
  induction cnt as [|k IH]; intros number last bs l Hr; cbn [read_headers] in Hr.
  - injection Hr as <- <-. split; [reflexivity|intro Hc; contradiction].
  - destruct (nthN c number) as [b|] eqn:En; [|discriminate].
    destruct (N.eqb_spec (hb_hash b) 0) as [|Hnz]; [discriminate|].
    destruct (negb (hb_parent b =? last)); [discriminate|].
    destruct (read_headers c (number + 1) k (hb_hash b)) as [[bs' l']|] eqn:Er; [|discriminate].
    injection Hr as <- <-. destruct (IH _ _ _ _ Er) as [Hbs Hrest]. split.
    + rewrite (skipn_nthN _ _ _ En). cbn [firstn map]. rewrite Hbs. reflexivity.
    + intros _. assert (Hlt : number < lenN c).
      { rewrite nthN_nth_error in En. assert (Hs : nth_error c (N.to_nat number) <> None) by (rewrite En; discriminate).
        apply nth_error_Some in Hs. unfold lenN. lia. }
      destruct k as [|k'].
      * cbn [read_headers] in Er. injection Er as _ <-. split; [cbn; lia|]. split; [|exact Hnz].
        unfold canon_hash. replace (number + N.of_nat 1 - 1) with number by lia. rewrite En. reflexivity.
      * destruct (Hrest ltac:(discriminate)) as [Hb [Hl Hn0]]. split; [lia|]. split; [|exact Hn0].
        rewrite Hl. f_equal. lia.
Qed.

Lemma firstn_ext {A} n : forall (l1 l2 : list A), (forall j, (j < n)%nat -> nth_error l1 j = nth_error l2 j) ->
  firstn n l1 = firstn n l2.
Proof.
  induction n as [|n IH]; intros l1 l2 He; [reflexivity|].
  pose proof (He 0%nat ltac:(lia)) as H0.
  destruct l1 as [|x l1], l2 as [|y l2]; cbn [nth_error] in H0; try discriminate; [reflexivity|].
  injection H0 as ->. cbn [firstn]. f_equal. apply IH. intros j Hj. apply (He (S j)). lia.
Qed.

Section Safety.
Variable commit : N -> list N -> gres (list N).
Variable size confirms : N.
Hypothesis Hsize : 0 < size.
(* what a successful Reset/Process*/Commit writes is the transposition of the blooms it was fed *)
Hypothesis commit_spec : forall blooms rows, commit size blooms = GOk rows -> lenN blooms = size ->
  rows_transposed size rows blooms.

Definition inv (w : world) : Prop :=
  let st := w_ix w in
  (forall s, s < ix_stored st -> (forall a, In (NReorg a) (w_queue w) -> s < a / size) -> sec_ok size (w_chain w) st s) /\
  (forall s, ix_stored st <= s -> shead st s = 0) /\
  (forall s, s < ix_stored st -> shead st s <> 0) /\
  (forall section old, ix_pending st = Some (section, old) -> ix_stored st <= section /\ (0 < section -> old <> 0)).

Lemma inv_init c : inv (mkW c [] ix_init).
Proof.
  unfold inv. cbn. repeat split; try (intros; lia); try discriminate.
Qed.

(* a chain switch keeps every block below the common prefix *)
Definition prefix_faithful (old new : hchain) : Prop :=
  1 <= lcp old new /\ forall i, i < lcp old new -> nthN old i = nthN new i.

Lemma lcp_le a : forall b, lcp a b <= lenN a /\ lcp a b <= lenN b.
Proof.
  induction a as [|x a IH]; intro b; [cbn; lia|]. destruct b as [|y b]; [cbn; lia|].
  cbn [lcp]. rewrite !lenN_cons. destruct (hb_hash x =? hb_hash y); [|lia]. specialize (IH b). lia.
Qed.

Lemma sec_ok_chain st old new s : (forall i, i < (s + 1) * size -> nthN old i = nthN new i) ->
  (s + 1) * size <= lenN new ->
  sec_ok size old st s -> sec_ok size new st s.
Proof.
  intros Hsame Hlen [Hl [Hh [rows [Hf Ht]]]]. split; [exact Hlen|]. split.
  - rewrite Hh. unfold canon_hash. rewrite Hsame by lia. reflexivity.
  - exists rows. split; [exact Hf|].
    assert (Heq : section_blooms new size s = section_blooms old size s).
    { unfold section_blooms. f_equal. apply firstn_ext. intros j Hj. rewrite !nth_error_skipn'.
      specialize (Hsame (s * size + N.of_nat j) ltac:(lia)). rewrite !nthN_nth_error in Hsame.
      replace (N.to_nat (s * size + N.of_nat j)) with (N.to_nat (s * size) + j)%nat in Hsame by lia.
      symmetry. exact Hsame. }
    rewrite Heq. exact Ht.
Qed.

Lemma sec_ok_st c st st' s : shead st' s = shead st s ->
  db_find (ix_db st') s (shead st s) = db_find (ix_db st) s (shead st s) ->
  sec_ok size c st s -> sec_ok size c st' s.
Proof.
  intros Hh Hd [Hl [Hc [rows [Hf Ht]]]]. split; [exact Hl|]. split; [rewrite Hh; exact Hc|].
  exists rows. rewrite Hh, Hd. split; assumption.
Qed.

Lemma inv_chain w c' : inv w -> prefix_faithful (w_chain w) c' -> inv (apply_op commit size confirms w (OpChain c')).
Proof.
  intros [HA [HB [HC HE]]] [Hl1 Hpf]. unfold inv. cbn [apply_op w_ix w_queue w_chain].
  split; [|split; [exact HB|split; [exact HC|exact HE]]].
  intros s Hs Hq. pose proof (lcp_le (w_chain w) c') as [Hle1 Hle2].
  assert (Hold : sec_ok size (w_chain w) (w_ix w) s).
  { apply HA; [exact Hs|]. intros a Ha. apply Hq. apply in_or_app. left. exact Ha. }
  assert (Hbound : (s + 1) * size <= lcp (w_chain w) c').
  { unfold notifs_of in Hq. destruct (N.ltb_spec (lcp (w_chain w) c') (lenN (w_chain w))) as [Hlt|Hge].
    - assert (Hin : In (NReorg (lcp (w_chain w) c' - 1)) (w_queue w ++ [NReorg (lcp (w_chain w) c' - 1)] ++ map NHead (range_lt (lcp (w_chain w) c') (lenN c'))))
        by (apply in_or_app; right; left; reflexivity).
      specialize (Hq _ Hin).
      pose proof (N.mul_div_le (lcp (w_chain w) c' - 1) size ltac:(lia)) as Hm.
      assert (Hmul : (s + 1) * size <= (lcp (w_chain w) c' - 1) / size * size) by (apply N.mul_le_mono_r; lia).
      lia.
    - destruct Hold as [Hl _]. lia. }
  apply (sec_ok_chain (w_ix w) (w_chain w) c' s); [|lia|exact Hold].
  intros i Hi. apply Hpf. lia.
Qed.

Lemma inv_deliver w : inv w -> inv (apply_op commit size confirms w OpDeliver).
Proof.
  intros [HA [HB [HC HE]]]. unfold inv. cbn [apply_op]. destruct (w_queue w) as [|[a|n] q] eqn:Eq.
  - rewrite Eq. split; [exact HA|split; [exact HB|split; [exact HC|exact HE]]].
  - cbn [w_ix w_queue w_chain]. unfold new_head.
    set (changed := a / size).
    set (st1 := if changed <? ix_known (w_ix w) then mkIx changed (ix_stored (w_ix w)) (ix_sheads (w_ix w)) (ix_db (w_ix w)) (ix_pending (w_ix w)) else w_ix w).
    assert (H1 : ix_stored st1 = ix_stored (w_ix w) /\ ix_sheads st1 = ix_sheads (w_ix w) /\ ix_db st1 = ix_db (w_ix w) /\ ix_pending st1 = ix_pending (w_ix w))
      by (unfold st1; destruct (changed <? ix_known (w_ix w)); repeat split).
    destruct H1 as [Hst [Hsh [Hdb Hpe]]].
    assert (Hshead : forall s, shead st1 s = shead (w_ix w) s) by (intro; unfold shead; rewrite Hsh; reflexivity).
    destruct (N.ltb_spec changed (ix_stored st1)) as [Hlt|Hge].
    + (* rolled back *)
      split; [|split; [|split]].
      * intros s Hs Hq. cbn [set_valid_sections ix_stored] in Hs.
        apply (sec_ok_st _ (w_ix w)); [rewrite shead_set_valid, Hshead; replace (changed <=? s) with false by lia; reflexivity|cbn [set_valid_sections ix_db]; rewrite Hdb; reflexivity|].
        apply HA; [lia|]. intros a' [Ha'|Ha']; [injection Ha' as <-; exact Hs|apply Hq, Ha'].
      * intros s Hs. cbn [set_valid_sections ix_stored] in Hs. rewrite shead_set_valid, Hshead.
        destruct (N.leb_spec changed s); [|lia]. destruct (N.ltb_spec s (ix_stored st1)); [reflexivity|]. apply HB. lia.
      * intros s Hs. cbn [set_valid_sections ix_stored] in Hs. rewrite shead_set_valid, Hshead.
        replace (changed <=? s) with false by lia. apply HC. lia.
      * intros section old Hp. cbn [set_valid_sections ix_pending ix_stored] in *. rewrite Hpe in Hp.
        destruct (HE _ _ Hp) as [Hle Hold]. split; [lia|exact Hold].
    + split; [|split; [|split]].
      * intros s Hs Hq. rewrite Hst in Hs.
        apply (sec_ok_st _ (w_ix w)); [apply Hshead|rewrite Hdb; reflexivity|].
        apply HA; [exact Hs|]. intros a' [Ha'|Ha']; [injection Ha' as <-; fold changed; lia|apply Hq, Ha'].
      * intros s Hs. rewrite Hst in Hs. rewrite Hshead. apply HB, Hs.
      * intros s Hs. rewrite Hst in Hs. rewrite Hshead. apply HC, Hs.
      * intros section old Hp. rewrite Hpe in Hp. rewrite Hst. apply HE, Hp.
  - cbn [w_ix w_queue w_chain]. unfold new_head.
    set (st' := if confirms <=? n then _ else _).
    assert (H1 : ix_stored st' = ix_stored (w_ix w) /\ ix_sheads st' = ix_sheads (w_ix w) /\ ix_db st' = ix_db (w_ix w) /\ ix_pending st' = ix_pending (w_ix w)).
    { unfold st'. destruct (confirms <=? n); [|repeat split].
      destruct (ix_known (w_ix w) <? (n + 1 - confirms) / size); repeat split. }
    destruct H1 as [Hst [Hsh [Hdb Hpe]]].
    assert (Hshead : forall s, shead st' s = shead (w_ix w) s) by (intro; unfold shead; rewrite Hsh; reflexivity).
    split; [|split; [|split]].
    + intros s Hs Hq. rewrite Hst in Hs. apply (sec_ok_st _ (w_ix w)); [apply Hshead|rewrite Hdb; reflexivity|].
      apply HA; [exact Hs|]. intros a' [Ha'|Ha']; [discriminate|apply Hq, Ha'].
    + intros s Hs. rewrite Hst in Hs. rewrite Hshead. apply HB, Hs.
    + intros s Hs. rewrite Hst in Hs. rewrite Hshead. apply HC, Hs.
    + intros section old Hp. rewrite Hpe in Hp. rewrite Hst. apply HE, Hp.
Qed.

Lemma inv_begin w : inv w -> inv (apply_op commit size confirms w OpBegin).
Proof.
  intros [HA [HB [HC HE]]]. unfold inv. cbn [apply_op w_ix w_queue w_chain]. unfold step_begin.
  destruct (ix_pending (w_ix w)) as [p|] eqn:Ep.
  { split; [exact HA|split; [exact HB|split; [exact HC|]]]. intros section old Hp.
    first [apply HE; exact Hp | rewrite Ep in Hp; apply HE; exact Hp]. }
  destruct (ix_stored (w_ix w) <? ix_known (w_ix w)).
  2:{ split; [exact HA|split; [exact HB|split; [exact HC|]]]. intros section old Hp.
      first [apply HE; exact Hp | rewrite Ep in Hp; discriminate]. }
  cbn [ix_stored ix_pending]. split; [exact HA|]. split; [exact HB|]. split; [exact HC|].
  intros section old Hp. injection Hp as <- <-. split; [lia|].
  intro Hpos. replace (0 <? ix_stored (w_ix w)) with true by lia. apply HC. lia.
Qed.

Lemma section_blooms_length c section :
  section * size + size <= lenN c -> lenN (section_blooms c size section) = size.
Proof.
  intro Hl. unfold section_blooms, lenN in *. rewrite map_length, firstn_length, skipn_length. lia.
Qed.

Lemma inv_end w : inv w -> inv (apply_op commit size confirms w OpEnd).
Proof.
  intros [HA [HB [HC HE]]]. unfold inv. cbn [apply_op w_ix w_queue w_chain]. unfold step_end.
  destruct (ix_pending (w_ix w)) as [[section old]|] eqn:Ep.
  2:{ cbn [fst]. split; [exact HA|split; [exact HB|split; [exact HC|]]]. intros section old Hp.
      first [apply HE; exact Hp | rewrite Ep in Hp; discriminate]. }
  destruct (HE _ _ eq_refl) as [Hsec Hold].
  set (st0 := mkIx (ix_known (w_ix w)) (ix_stored (w_ix w)) (ix_sheads (w_ix w)) (ix_db (w_ix w)) None).
  assert (Hfail : forall db', (forall s h, s < ix_stored (w_ix w) -> db_find db' s h = db_find (ix_db (w_ix w)) s h) ->
            let st' := mkIx (ix_stored st0) (ix_stored st0) (ix_sheads st0) db' None in
            (forall s, s < ix_stored st' -> (forall a, In (NReorg a) (w_queue w) -> s < a / size) -> sec_ok size (w_chain w) st' s) /\
            (forall s, ix_stored st' <= s -> shead st' s = 0) /\
            (forall s, s < ix_stored st' -> shead st' s <> 0) /\
            (forall section old, ix_pending st' = Some (section, old) -> ix_stored st' <= section /\ (0 < section -> old <> 0))).
  { intros db' Hdb st'. split; [|split; [|split]]; cbn [st' st0 ix_stored ix_pending].
    - intros s Hs Hq. apply (sec_ok_st _ (w_ix w)); [reflexivity|apply Hdb, Hs|apply HA; assumption].
    - exact HB.
    - exact HC.
    - discriminate. }
  destruct (negb (size mod 8 =? 0)).
  { cbn [fst]. split; [|split; [|split]]; cbn [set_valid_sections ix_stored ix_pending st0].
    - intros s Hs. lia.
    - intros s _. change (shead (set_valid_sections st0 0) s = 0). rewrite shead_set_valid. cbn [st0 ix_stored].
      destruct (N.ltb_spec s (ix_stored (w_ix w))); [replace (0 <=? s) with true by lia; reflexivity|].
      replace ((0 <=? s) && false)%bool with false by (destruct (0 <=? s); reflexivity).
      change (shead st0 s) with (shead (w_ix w) s). apply HB. lia.
    - intros s Hs. lia.
    - discriminate. }
  destruct (read_headers (w_chain w) (section * size) (N.to_nat size) old) as [[blooms newhead]|] eqn:Er;
    [|cbn [fst]; apply (Hfail (ix_db (w_ix w))); reflexivity].
  destruct (commit size blooms) as [rows|e] eqn:Ec; [|cbn [fst]; apply (Hfail (ix_db (w_ix w))); reflexivity].
  destruct (read_headers_spec _ _ _ _ _ _ Er) as [Hbs Hrest].
  destruct (Hrest ltac:(lia)) as [Hlen [Hnew Hnz]]. rewrite N2Nat.id in Hlen, Hnew.
  assert (Hdbother : forall s h, s < ix_stored (w_ix w) ->
            db_find (((section, newhead), rows) :: ix_db st0) s h = db_find (ix_db (w_ix w)) s h).
  { intros s h Hs. rewrite db_find_cons. replace (section =? s) with false by lia. reflexivity. }
  destruct (N.eqb_spec old (if 0 <? section then shead st0 (section - 1) else 0)) as [Heq|Hne];
    [|cbn [fst]; apply (Hfail _ Hdbother)].
  (* stored: the section being processed is exactly the next one *)
  assert (Hstored : ix_stored (w_ix w) = section).
  { destruct (N.ltb_spec 0 section) as [Hpos|Hz]; [|lia].
    destruct (N.le_gt_cases (ix_stored (w_ix w)) (section - 1)) as [Hle|Hgt]; [|lia].
    exfalso. apply (Hold Hpos). rewrite Heq. apply (HB (section - 1) Hle). }
  cbn [fst].
  assert (Hsh : forall s, shead (set_valid_sections (mkIx (ix_known st0) (ix_stored st0) ((section, newhead) :: ix_sheads st0)
                       (((section, newhead), rows) :: ix_db st0) None) (section + 1)) s
                = if section =? s then newhead else shead (w_ix w) s).
  { intro s. rewrite shead_set_valid. cbn [ix_stored st0]. rewrite Hstored.
    replace ((section + 1 <=? s) && (s <? section))%bool with false by lia.
    unfold shead. cbn [ix_sheads st0]. apply shead_of_cons. }
  split; [|split; [|split]]; cbn [set_valid_sections ix_stored ix_pending ix_db].
  - intros s Hs Hq. destruct (N.eqb_spec section s) as [<-|Hns].
    + (* the new section, valid for the chain as it is now *)
      split; [lia|]. split; [rewrite Hsh, N.eqb_refl, Hnew; f_equal; lia|].
      exists rows. rewrite Hsh, N.eqb_refl. unfold set_valid_sections. cbn [ix_db st0].
      split; [rewrite db_find_cons, !N.eqb_refl; reflexivity|].
      assert (Hb : blooms = section_blooms (w_chain w) size section) by exact Hbs. rewrite <- Hb.
      apply commit_spec; [exact Ec|]. rewrite Hb. apply section_blooms_length. exact Hlen.
    + apply (sec_ok_st _ (w_ix w)).
      * rewrite Hsh. replace (section =? s) with false by lia. reflexivity.
      * unfold set_valid_sections. cbn [ix_db st0]. rewrite db_find_cons. replace (section =? s) with false by lia. reflexivity.
      * apply HA; [lia|exact Hq].
  - intros s Hs. rewrite Hsh. replace (section =? s) with false by lia. apply HB. lia.
  - intros s Hs. rewrite Hsh. destruct (N.eqb_spec section s); [exact Hnz|apply HC; lia].
  - discriminate.
Qed.

End Safety.

(* ---------- histories ---------- *)
Section Histories.
Variable commit : N -> list N -> gres (list N).
Variable size confirms : N.
Hypothesis Hsize : 0 < size.
Hypothesis commit_spec : forall blooms rows, commit size blooms = GOk rows -> lenN blooms = size ->
  rows_transposed size rows blooms.

(* every chain switch of the history keeps the blocks below the common ancestor (hash equality there means
   block equality) and keeps the genesis *)
Fixpoint ops_valid (w : world) (ops : list op) : Prop :=
  match ops with
  | [] => True
  | o :: t => (match o with OpChain c' => prefix_faithful (w_chain w) c' | _ => True end)
              /\ ops_valid (apply_op commit size confirms w o) t
  end.

Lemma inv_run : forall ops w, inv size w -> ops_valid w ops -> inv size (run_ops commit size confirms w ops).
Proof.
  induction ops as [|o ops IH]; intros w Hi Hv; [exact Hi|]. destruct Hv as [Ho Hv]. cbn [run_ops fold_left].
  apply IH; [|exact Hv]. destruct o.
  - apply inv_chain; assumption.
  - apply inv_deliver; assumption.
  - apply inv_begin; assumption.
  - apply (inv_end commit size confirms Hsize commit_spec); assumption.
Qed.

Theorem indexer_safe : forall (c0 : hchain) (ops : list op),
  let w0 := mkW c0 [] ix_init in
  ops_valid w0 ops ->
  let w := run_ops commit size confirms w0 ops in
  w_queue w = [] ->
  forall s, s < ix_stored (w_ix w) -> sec_ok size (w_chain w) (w_ix w) s.
Proof.
  intros c0 ops w0 Hv w Hq s Hs.
  destruct (inv_run ops w0 (inv_init size Hsize c0) Hv) as [HA _]. fold w in HA.
  apply HA; [exact Hs|]. rewrite Hq. intros a [].
Qed.

End Histories.

(* ---------- the two backends satisfy the commit premise ---------- *)
Lemma commit_rows_inv g : forall cnt i rows, commit_rows g i cnt = GOk rows ->
  rows = map (fun j => gen_row g (N.to_nat j)) (rangeN i cnt).
Proof.
  induction cnt as [|cnt IH]; intros i rows Hc; cbn [commit_rows] in Hc; [injection Hc as <-; reflexivity|].
  destruct (bitset g i) as [v|e] eqn:Eb; [|discriminate].
  destruct (commit_rows g (i + 1) cnt) as [vs|e] eqn:Ec; [|discriminate]. injection Hc as <-.
  cbn [rangeN map]. rewrite (IH _ _ Ec). f_equal.
  unfold bitset in Eb. destruct (negb _); [discriminate|]. destruct (_ <=? _); [discriminate|].
  destruct (_ <=? _); [discriminate|]. injection Eb as <-. reflexivity.
Qed.

Lemma process_section_spec size blooms rows :
  process_section size blooms = GOk rows -> lenN blooms = size -> rows_transposed size rows blooms.
Proof.
  intros Hp Hlen. unfold process_section in Hp.
  assert (Hm : size mod 8 = 0).
  { unfold new_generator in Hp. destruct (N.eqb_spec (size mod 8) 0); [assumption|discriminate]. }
  destruct (generator_transposes size blooms Hm Hlen) as [g0 [g [E0 [E [Hbits _]]]]].
  rewrite E0, E in Hp. apply commit_rows_inv in Hp. subst rows. split.
  - rewrite map_length, rangeN_seq, map_length, seq_length. reflexivity.
  - intros i k Hi Hk. rewrite nth_map_rangeN by exact Hi. rewrite <- Hbits by assumption. f_equal. f_equal. lia.
Qed.

Lemma add_blooms_rows_length bs : forall g g', length (g_rows g) = bloom_bit_length -> add_blooms g bs = GOk g' ->
  length (g_rows g') = bloom_bit_length.
Proof.
  induction bs as [|b bs IH]; intros g g' Hl Ha; cbn [add_blooms] in Ha; [injection Ha as <-; exact Hl|].
  destruct (add_bloom g (g_next g) b) as [g1|e] eqn:E1; [|discriminate]. apply (IH g1 g'); [|exact Ha].
  unfold add_bloom in E1. destruct (_ <=? _); [discriminate|]. destruct (negb _); [discriminate|].
  apply (f_equal (fun r => match r with GOk x => length (g_rows x) | GErr _ => 0%nat end)) in E1.
  cbn [g_rows] in E1. rewrite <- E1, push_bits_length, N_bits_length, Hl. apply Nat.min_id.
Qed.

Lemma process_section_rows_spec size blooms rows :
  process_section_rows size blooms = GOk rows -> lenN blooms = size -> rows_transposed size rows blooms.
Proof.
  intros Hp Hlen. unfold process_section_rows in Hp.
  assert (Hm : size mod 8 = 0).
  { unfold new_generator in Hp. destruct (N.eqb_spec (size mod 8) 0); [assumption|discriminate]. }
  destruct (generator_transposes size blooms Hm Hlen) as [g0 [g [E0 [E [Hbits _]]]]].
  rewrite E0, E in Hp. destruct (g_next g =? g_sections g); [|discriminate]. injection Hp as <-. split.
  - apply (add_blooms_rows_length blooms g0 g); [|exact E].
    unfold new_generator in E0. rewrite Hm in E0. cbn [N.eqb] in E0.
    apply (f_equal (fun r => match r with GOk x => length (g_rows x) | GErr _ => 0%nat end)) in E0.
    cbn [g_rows] in E0. rewrite <- E0. apply repeat_length.
  - intros i k Hi Hk. apply Hbits; assumption.
Qed.

(* ---------- composition with the filter theorems ---------- *)
Lemma get_row_find st bit s h : get_row st bit s h = option_map (fun rows => nth bit rows 0) (db_find (ix_db st) s h).
Proof. unfold get_row, db_find. destruct (find _ (ix_db st)); reflexivity. Qed.

Lemma section_bloom_at ch size s k : k < size -> (s + 1) * size <= lenN ch ->
  nth (N.to_nat k) (section_blooms ch size s) 0 = bloom_at (map hb_block ch) (s * size + k).
Proof.
  intros Hk Hl. unfold bloom_at. rewrite nthN_nth_error, nth_error_map.
  assert (Hsome : exists b, nth_error ch (N.to_nat (s * size + k)) = Some b).
  { destruct (nth_error ch (N.to_nat (s * size + k))) eqn:E; [eexists; reflexivity|].
    apply nth_error_None in E. unfold lenN in Hl. lia. }
  destruct Hsome as [b Hb]. rewrite Hb. cbn [option_map].
  apply nth_error_nth. unfold section_blooms. rewrite nth_error_map, nth_error_firstn', nth_error_skipn'.
  replace (N.to_nat k <? N.to_nat size)%nat with true by lia.
  replace (N.to_nat (s * size) + N.to_nat k)%nat with (N.to_nat (s * size + k)) by lia. rewrite Hb. reflexivity.
Qed.

Lemma index_of_world_sound size w : 0 < size ->
  (forall s, s < ix_stored (w_ix w) -> sec_ok size (w_chain w) (w_ix w) s) ->
  (forall blk, In blk (map hb_block (w_chain w)) -> b_bloom blk < 2 ^ 2048) ->
  index_sound (index_of_world size w) size (ix_stored (w_ix w)) (bloom_at (map hb_block (w_chain w))).
Proof.
  intros Hsize Hok Hsmall bit s k Hs Hk. destruct (Hok s Hs) as [Hl [Hh [rows [Hf [Hlen Ht]]]]].
  unfold index_of_world. rewrite get_row_find, <- Hh, Hf. cbn [option_map].
  rewrite vec_bit_nth. unfold row_bits. rewrite N_bits_nth by lia. rewrite N2Nat.id.
  destruct (N.ltb_spec bit 2048) as [Hb|Hb].
  - rewrite Ht by (unfold bloom_bit_length; lia). rewrite N2Nat.id. f_equal. apply section_bloom_at; assumption.
  - rewrite nth_overflow by (rewrite Hlen; unfold bloom_bit_length; lia). rewrite N.bits_0. symmetry.
    assert (Hlt : bloom_at (map hb_block (w_chain w)) (s * size + k) < 2 ^ 2048).
    { unfold bloom_at. destruct (nthN (map hb_block (w_chain w)) (s * size + k)) as [blk|] eqn:E; [|reflexivity].
      apply Hsmall. rewrite nthN_nth_error in E. eapply nth_error_In, E. }
    rewrite <- (N.mod_small _ _ Hlt). apply N.mod_pow2_bits_high. exact Hb.
Qed.

(* Whenever every notification has been delivered, a log query answered through the index the ChainIndexer
   has built — over any history of chain switches, deliveries and section steps — is the brute-force scan
   of the canonical receipts. *)
Theorem indexed_logs_exact :
  forall (H : bytes -> bytes) (addrs : list bytes) (tops : list (list bytes))
         (commit : N -> list N -> gres (list N)) (size confirms : N) (c0 : hchain) (ops : list op) (begin end_ : Z),
  0 < size ->
  (forall blooms rows, commit size blooms = GOk rows -> lenN blooms = size -> rows_transposed size rows blooms) ->
  let w0 := mkW c0 [] ix_init in
  ops_valid commit size confirms w0 ops ->
  let w := run_ops commit size confirms w0 ops in
  let c := map hb_block (w_chain w) in
  w_queue w = [] ->
  c <> [] -> (Z.of_N (lenN c) < two63)%Z -> (-1 <= begin < two63)%Z -> (-1 <= end_ < two63)%Z ->
  (forall blk, In blk c -> b_bloom blk < 2 ^ 2048) ->
  (forall blk, In blk c -> bloom_filter H (b_bloom blk) addrs tops = false -> filter_logs (concat (b_receipts blk)) addrs tops = []) ->
  filter_query H addrs tops c (index_of_world size w) size (ix_stored (w_ix w)) begin end_
  = brute_force addrs tops c begin end_.
Proof.
  intros H addrs tops commit size confirms c0 ops begin end_ Hsize Hcs w0 Hv w c Hq Hne Hlen Hb He Hsmall Hsound.
  assert (Hok : forall s, s < ix_stored (w_ix w) -> sec_ok size (w_chain w) (w_ix w) s)
    by (apply (indexer_safe commit size confirms Hsize Hcs c0 ops Hv Hq)).
  apply logs_exact_general; try assumption.
  - destruct (N.eqb_spec (ix_stored (w_ix w)) 0) as [->|Hnz]; [lia|].
    destruct (Hok (ix_stored (w_ix w) - 1) ltac:(lia)) as [Hl _].
    unfold c. unfold lenN in *. rewrite map_length. replace (ix_stored (w_ix w) - 1 + 1) with (ix_stored (w_ix w)) in Hl by lia. exact Hl.
  - apply index_of_world_sound; assumption.
Qed.

(* ---------- a concrete history (non-vacuity): index 10 blocks, reorg at block 4, re-index ---------- *)
Definition ex_hb (h p bloom : N) : hblock := mkHB h p (mkBlock bloom []).
Definition ex_hA : hchain := map (fun i => ex_hb (N.of_nat i + 1) (N.of_nat i) (N.of_nat i mod 4)) (seq 0 10).
Definition ex_hB : hchain := firstn 5 ex_hA ++ map (fun i => ex_hb (N.of_nat i + 101) (if (i =? 5)%nat then 5 else N.of_nat i + 100) 2) (seq 5 6).
Definition ex_ops : list op :=
  [OpChain ex_hA] ++ repeat OpDeliver 9 ++ [OpBegin; OpEnd; OpChain ex_hB] ++ repeat OpDeliver 7 ++ [OpBegin; OpEnd].

Lemma ex_ops_valid : ops_valid process_section_rows 8 0 (mkW (firstn 1 ex_hA) [] ix_init) ex_ops.
Proof.
  cbn [ex_ops app repeat ops_valid]. split.
  - split; [vm_compute; discriminate|]. intros i Hi.
    match type of Hi with i < ?l => let v := eval vm_compute in l in change l with v in Hi end.
    assert (i = 0) as -> by lia. reflexivity.
  - repeat (split; [exact I|]). split; [|repeat (split; [exact I|]); exact I].
    split; [vm_compute; discriminate|]. intros i Hi.
    match type of Hi with i < ?l => let v := eval vm_compute in l in change l with v in Hi end.
    assert (Hc : i = 0 \/ i = 1 \/ i = 2 \/ i = 3 \/ i = 4) by lia.
    destruct Hc as [->|[->|[->|[->| ->]]]]; reflexivity.
Qed.
