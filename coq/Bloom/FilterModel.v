(* Bloom/FilterModel.v — model of core/bloombits/generator.go (Generator),
   of the bloombits Matcher (matcher.go) as a pure function, of the section
   commit of aqua/bloombits.go (BloomIndexer) / core/chain_indexer.go, and of
   aqua/filters/filter.go Filter.Logs.  Definitions only (extracted).

   Bit vectors.  A bloombits vector of a section (Go: []byte of size/8 bytes,
   block k of the section at bit 7-k%8 of byte k/8) is modelled as the list of
   its `size` bits in block order (list bool); `pack` gives the Go bytes and is
   what the correspondence compares with Generator.Bitset.  The goroutine
   pipeline, request scheduling/dedup (scheduler.go), missing-delivery retries
   and the zero-byte skip in Matcher.Start are replaced by their functional
   meaning. *)
From AQ Require Import Lib.Bytes Bloom.BloomModel.
Local Open Scope N_scope.

(* ---------- list helpers indexed by N (block numbers can be large) ---------- *)
Fixpoint dropN {A} (l : list A) (k : N) : list A :=
  match l with
  | [] => []
  | _ :: t => if k =? 0 then l else dropN t (k - 1)
  end.
Definition nthN {A} (l : list A) (k : N) : option A :=
  match dropN l k with [] => None | x :: _ => Some x end.
Fixpoint rangeN (lo : N) (cnt : nat) : list N :=
  match cnt with O => [] | S c => lo :: rangeN (lo + 1) c end.
(* the half-open interval [lo, hi) *)
Definition range_lt (lo hi : N) : list N := rangeN lo (N.to_nat (hi - lo)).

(* ---------- bits ---------- *)
(* the k low bits of n, least significant first *)
Fixpoint N_bits (k : nat) (n : N) : list bool :=
  match k with O => [] | S k' => N.odd n :: N_bits k' (N.div2 n) end.

(* MSB-first packing of bits into bytes (incomplete last byte zero-padded) *)
Definition bit_val (b : bool) (w : N) : N := if b then w else 0.
Fixpoint pack (v : list bool) : bytes :=
  match v with
  | b7 :: b6 :: b5 :: b4 :: b3 :: b2 :: b1 :: b0 :: rest =>
    n2b (bit_val b7 128 + bit_val b6 64 + bit_val b5 32 + bit_val b4 16
         + bit_val b3 8 + bit_val b2 4 + bit_val b1 2 + bit_val b0 1) :: pack rest
  | [] => []
  | _ => [n2b (fold_left (fun acc b => 2 * acc + bit_val b 1) (v ++ repeat false (8 - length v)) 0)]
  end.

(* ---------- core/bloombits/generator.go ---------- *)
Definition bloom_bit_length : nat := N.to_nat 2048.

Inductive gen_err := ErrSectionOutOfBounds | ErrUnexpectedIndex | ErrNotFullyGenerated | ErrNotMultipleOf8
  | PanicIndexOutOfRange.
Inductive gres (A : Type) := GOk (a : A) | GErr (e : gen_err).
Arguments GOk {A} _. Arguments GErr {A} _.

(* g_rows: the 2048 rotated rows b.blooms[i]; a row (Go: sections/8 bytes, block k
   at bit 7-k%8 of byte k/8) is kept as the bit set N whose bit k is block k;
   `row_bits`/`pack` give the Go bytes. *)
Record generator := mkGen { g_rows : list N; g_sections : N; g_next : N }.

(* NewGenerator *)
Definition new_generator (sections : N) : gres generator :=
  if sections mod 8 =? 0
  then GOk (mkGen (repeat 0 bloom_bit_length) sections 0)
  else GErr ErrNotMultipleOf8.

(* b.blooms[i][byteIndex] |= bitMask for every set bit i of the bloom *)
Fixpoint push_bits (mask : N) (bits : list bool) (rows : list N) : list N :=
  match bits, rows with
  | b :: bs, r :: rs => (if b then N.lor r mask else r) :: push_bits mask bs rs
  | _, _ => []
  end.

(* AddBloom: bit i of the bloom is bloom[BloomByteLength-1-i/8] & (1 << i%8),
   i.e. bit i of the big-endian number *)
Definition add_bloom (g : generator) (index : N) (bloom : N) : gres generator :=
  if g_sections g <=? g_next g then GErr ErrSectionOutOfBounds
  else if negb (g_next g =? index) then GErr ErrUnexpectedIndex
  else GOk (mkGen (push_bits (N.shiftl 1 (g_next g)) (N_bits bloom_bit_length bloom) (g_rows g))
                  (g_sections g) (g_next g + 1)).

(* the row b.blooms[idx] without any check (what the verif hook VerifRow reads) *)
Definition gen_row (g : generator) (idx : nat) : N := nth idx (g_rows g) 0.

(* the bits of a row in block order (for `pack`) *)
Definition row_bits (sections : N) (row : N) : list bool := N_bits (N.to_nat sections) row.

(* Bitset: note the bound is `sections`, not the bloom bit length; for
   sections > 2048 an index in [2048, sections) passes the check and Go then
   indexes the 2048-element array out of range *)
Definition bitset (g : generator) (idx : N) : gres N :=
  if negb (g_next g =? g_sections g) then GErr ErrNotFullyGenerated
  else if g_sections g <=? idx then GErr ErrSectionOutOfBounds
  else if 2048 <=? idx then GErr PanicIndexOutOfRange
  else GOk (gen_row g (N.to_nat idx)).

(* feed blooms with consecutive indexes starting at the generator's nextBit
   (BloomIndexer.Process ignores AddBloom's error; here it is surfaced) *)
Fixpoint add_blooms (g : generator) (blooms : list N) : gres generator :=
  match blooms with
  | [] => GOk g
  | b :: t => match add_bloom g (g_next g) b with GOk g' => add_blooms g' t | GErr e => GErr e end
  end.

(* aqua/bloombits.go BloomIndexer.Commit: Bitset(i) for all i < BloomBitLength,
   first error aborts (nothing is written) *)
Fixpoint commit_rows (g : generator) (i : N) (cnt : nat) : gres (list N) :=
  match cnt with
  | O => GOk []
  | S c => match bitset g i with
           | GErr e => GErr e
           | GOk v => match commit_rows g (i + 1) c with GOk vs => GOk (v :: vs) | GErr e => GErr e end
           end
  end.

(* Reset + Process* + Commit of one section (chain_indexer.go processSection) *)
Definition process_section (size : N) (blooms : list N) : gres (list N) :=
  match new_generator size with
  | GErr e => GErr e
  | GOk g => match add_blooms g blooms with
             | GErr e => GErr e
             | GOk g' => commit_rows g' 0 bloom_bit_length
             end
  end.

(* ---------- blocks and chain ---------- *)
Record block := mkBlock { b_bloom : N; b_receipts : list (list log) }.
Definition chain := list block.

Fixpoint firstnN {A} (l : list A) (k : N) (fuel : nat) : list A :=
  match fuel, l with
  | S f, x :: t => if k =? 0 then [] else x :: firstnN t (k - 1) f
  | _, _ => []
  end.
Definition section_blocks_of (c : chain) (size s : N) : list block :=
  firstnN (dropN c (s * size)) size (length c).

(* chain_indexer.go newHead/updateLoop: sections become known once confirmed;
   they are processed in order; the first failure stops progress
   (knownSections = storedSections).  Returns the number of stored sections. *)
Fixpoint indexer_run (c : chain) (size : N) (s : N) (todo : nat) : N :=
  match todo with
  | O => s
  | S t => match process_section size (map b_bloom (section_blocks_of c size s)) with
           | GOk _ => indexer_run c size (s + 1) t
           | GErr _ => s
           end
  end.
Definition known_sections (c : chain) (size confirms : N) : N :=
  match c with
  | [] => 0
  | _ => let head := lenN c - 1 in
         if confirms <=? head then (head + 1 - confirms) / size else 0
  end.
Definition stored_sections (c : chain) (size confirms : N) : N :=
  indexer_run c size 0 (N.to_nat (known_sections c size confirms)).

(* ---------- the bloombits index and the matcher ---------- *)
(* bit -> section -> vector (what GetBloomBits + DecompressBytes deliver) *)
Definition index := N -> N -> list bool.

(* the index a (sound) indexer produces for a chain: row `bit` of section s *)
Definition index_of_chain (c : chain) (size : N) : index :=
  fun bit s => map (fun b => N.testbit (b_bloom b) bit) (section_blocks_of c size s).

Fixpoint and_vec (a b : list bool) : list bool :=
  match a, b with x :: a', y :: b' => (x && y) :: and_vec a' b' | _, _ => [] end.
Fixpoint or_vec (a b : list bool) : list bool :=
  match a, b with
  | x :: a', y :: b' => (x || y) :: or_vec a' b'
  | [], b => b
  | a, [] => a
  end.

(* matcher.go subMatch: AND of the three bit vectors of one alternative *)
Definition alt_vec (idx : index) (s : N) (a : N * N * N) : list bool :=
  let '(i, j, k) := a in and_vec (and_vec (idx i s) (idx j s)) (idx k s).

(* matcher.go subMatch: OR over the alternatives (orVector == nil -> zeros) *)
Definition clause_vec (idx : index) (s : N) (size : nat) (cl : list (N * N * N)) : list bool :=
  match cl with
  | [] => repeat false size
  | a :: rest => fold_left (fun acc a => or_vec acc (alt_vec idx s a)) rest (alt_vec idx s a)
  end.

(* matcher.go run: source emits all-ones, each subMatch ANDs its clause and
   forwards the section only if some bit is left (bitutil.TestBytes) *)
Definition sub_match (idx : index) (s : N) (size : nat) (acc : option (list bool)) (cl : list (N * N * N))
  : option (list bool) :=
  match acc with
  | None => None
  | Some v => let v' := and_vec (clause_vec idx s size cl) v in
              if existsb (fun b => b) v' then Some v' else None
  end.
Definition section_vec (idx : index) (s : N) (size : nat) (filters : list (list (N * N * N))) : option (list bool) :=
  fold_left (sub_match idx s size) filters (Some (repeat true size)).

Definition vec_bit (v : list bool) (k : N) : bool :=
  match nthN v k with Some b => b | None => false end.

(* matcher.go Start, result goroutine: blocks first..last of the section whose bit is set *)
Definition section_matches (size b e s : N) (v : list bool) : list N :=
  let start := s * size in
  let first := N.max b start in
  let last := N.min e (start + size - 1) in
  filter (fun i => vec_bit v (i - start)) (range_lt first (last + 1)).

(* matcher.go run + Start: sections begin/size .. end/size in order *)
Definition matcher_run (idx : index) (size : N) (filters : list (list (N * N * N))) (b e : N) : list N :=
  flat_map (fun s => match section_vec idx s (N.to_nat size) filters with
                     | Some v => section_matches size b e s v
                     | None => []
                     end)
           (range_lt (b / size) (e / size + 1)).

(* ---------- aqua/filters/filter.go ---------- *)
Definition two64 : Z := 18446744073709551616%Z.
Definition two63 : Z := 9223372036854775808%Z.
Definition to_uint64 (z : Z) : Z := (z mod two64)%Z.
Definition to_int64 (z : Z) : Z := let u := to_uint64 z in if (u <? two63)%Z then u else (u - two64)%Z.

Section WithHash.
Variable H : bytes -> bytes.
Variable addrs : list bytes.
Variable tops : list (list bytes).

(* checkMatches: all logs of the block's receipts, filterLogs with the criteria
   (the light-client branch refetches the same logs through GetReceipts and
   filters again: same result) *)
Definition check_matches (blk : block) : list log :=
  filter_logs (concat (b_receipts blk)) addrs tops.

(* indexedLogs: per match, HeaderByNumber (nil -> return what we have), checkMatches;
   returns the logs and the new f.begin *)
Fixpoint indexed_collect (c : chain) (ms : list N) (fin : Z) : list log * Z :=
  match ms with
  | [] => ([], fin)
  | n :: t => match nthN c n with
              | None => ([], to_int64 (Z.of_N n) + 1)%Z
              | Some blk => let '(ls, b') := indexed_collect c t fin in (check_matches blk ++ ls, b')
              end
  end.

(* unindexedLogs: for ; f.begin <= int64(end); f.begin++ — header nil stops the scan *)
Fixpoint scan (blks : list block) (n e : Z) : list log :=
  match blks with
  | [] => []
  | blk :: t =>
    if (n <=? e)%Z
    then (if bloom_filter H (b_bloom blk) addrs tops then check_matches blk else []) ++ scan t (n + 1)%Z e
    else []
  end.
(* a negative f.begin other than -1 (rpc "pending"/"earliest" aliases) is backend
   specific; the harness backend returns no header for it *)
Definition unindexed (c : chain) (b e : Z) : list log :=
  if (b <? 0)%Z then [] else scan (dropN c (Z.to_N b)) b e.

(* Filter.Logs *)
Definition filter_query (c : chain) (idx : index) (size sections : N) (begin end_ : Z) : list log :=
  match c with
  | [] => []                                    (* HeaderByNumber(latest) == nil *)
  | _ =>
    let head := Z.of_N (lenN c - 1) in
    let begin1 := if (begin =? -1)%Z then head else begin in
    let endU := if (end_ =? -1)%Z then head else to_uint64 end_ in
    let indexed := to_uint64 (Z.of_N sections * Z.of_N size) in
    let '(logs1, begin2) :=
      if (to_uint64 begin1 <? indexed)%Z then
        let e := if (endU <? indexed)%Z then endU else (indexed - 1)%Z in
        let ms := matcher_run idx size (matcher_filters H addrs tops) (Z.to_N (to_uint64 begin1)) (Z.to_N e) in
        indexed_collect c ms (to_int64 e + 1)%Z
      else ([], begin1) in
    logs1 ++ unindexed c begin2 (to_int64 endU)
  end.

(* the specification: brute-force scan of the canonical receipts of blocks
   begin..end (with -1 = head), in chain order *)
Fixpoint brute (blks : list block) (n e : Z) : list log :=
  match blks with
  | [] => []
  | blk :: t => if (n <=? e)%Z then check_matches blk ++ brute t (n + 1)%Z e else []
  end.
Definition brute_force (c : chain) (begin end_ : Z) : list log :=
  let head := Z.of_N (lenN c - 1) in
  let b := if (begin =? -1)%Z then head else begin in
  let e := if (end_ =? -1)%Z then head else end_ in
  brute (dropN c (Z.to_N b)) b e.

End WithHash.
