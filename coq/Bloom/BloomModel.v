(* Bloom/BloomModel.v — model of core/types/bloom9.go and of the bloom-index
   computation of core/bloombits/matcher.go (calcBloomIndexes), plus the log
   matching predicates of aqua/filters/filter.go (filterLogs, bloomFilter).
   Definitions only (extracted).  The hash is a Section variable: theorems hold
   for every H; the executable model instantiates it with Lib.Keccak.keccak256.

   Representation.  types.Bloom is a [256]byte holding a big-endian 2048-bit
   number; every function of bloom9.go goes through big.Int (Big()/SetBytes),
   so the model keeps the number (N).  `bloom_bytes` gives the 256 bytes.
   crypto.Keccak256 returns 32 bytes, so b[0..5] never panics in Go; the model
   reads them with `nth _ _ x00` (for an H with a shorter output the model has
   no Go counterpart; no theorem depends on the output length). *)
From AQ Require Import Lib.Bytes.
Local Open Scope N_scope.

(* core/types/log.go Log: consensus fields + a harness-assigned identity tag
   (block number, index in block) standing for the derived fields *)
Record log := mkLog { l_addr : bytes; l_topics : list bytes; l_data : bytes; l_tag : N }.

Definition byte_at (h : bytes) (i : nat) : N := b2n (nth i h x00).

(* types.Bloom <-> bytes (BytesToBloom(bin.Bytes()) / Bloom.Big()) *)
Definition bloom_bytes (b : N) : bytes := be_fixed 256 b.

Section WithHash.
Variable H : bytes -> bytes.

(* bloom9.go bloom9: for i in 0,2,4: b := (uint(b[i+1]) + (uint(b[i]) << 8)) & 2047; r |= 1<<b *)
Definition bloom9_pos (h : bytes) (i : nat) : N :=
  N.land (byte_at h (S i) + N.shiftl (byte_at h i) 8) 2047.

Definition bloom9 (x : bytes) : N :=
  let h := H x in
  N.lor (N.lor (N.lor 0 (N.shiftl 1 (bloom9_pos h 0))) (N.shiftl 1 (bloom9_pos h 2)))
        (N.shiftl 1 (bloom9_pos h 4)).

(* bloom9.go LogsBloom *)
Definition log_bloom (bin : N) (l : log) : N :=
  fold_left (fun bin t => N.lor bin (bloom9 t)) (l_topics l) (N.lor bin (bloom9 (l_addr l))).
Definition logs_bloom (logs : list log) : N := fold_left log_bloom logs 0.

(* bloom9.go CreateBloom; a receipt is represented by its Logs *)
Definition create_bloom (receipts : list (list log)) : N :=
  fold_left (fun bin r => N.lor bin (logs_bloom r)) receipts 0.

(* bloom9.go BloomLookup: bloom & cmp == cmp *)
Definition bloom_lookup (bloom : N) (x : bytes) : bool :=
  let cmp := bloom9 x in N.eqb (N.land bloom cmp) cmp.

(* bloombits/matcher.go calcBloomIndexes: idxs[i] = (uint(b[2*i])<<8)&2047 + uint(b[2*i+1])
   (Go precedence: << and & bind tighter than +) *)
Definition calc_idx (h : bytes) (i : nat) : N :=
  N.land (N.shiftl (byte_at h (2 * i)) 8) 2047 + byte_at h (2 * i + 1).
Definition calc_bloom_indexes (x : bytes) : N * N * N :=
  let h := H x in (calc_idx h 0, calc_idx h 1, calc_idx h 2).

(* filters/filter.go includes *)
Definition includes (addrs : list bytes) (a : bytes) : bool := existsb (bytes_eqb a) addrs.

(* filters/filter.go filterLogs, inner loop over the positional topic rules;
   the caller has already checked len(topics) <= len(log.Topics); running out
   of log topics here would be Go's index-out-of-range and is reported as
   `false` only under that guard (see log_matches) *)
Fixpoint topics_match (tops : list (list bytes)) (ltopics : list bytes) : bool :=
  match tops with
  | [] => true
  | alts :: rest =>
    match ltopics with
    | [] => false
    | t :: lt =>
      (match alts with [] => true | _ => existsb (bytes_eqb t) alts end) && topics_match rest lt
    end
  end.

(* filters/filter.go filterLogs body for one log (fromBlock = toBlock = nil as in checkMatches) *)
Definition log_matches (addrs : list bytes) (tops : list (list bytes)) (l : log) : bool :=
  (match addrs with [] => true | _ => includes addrs (l_addr l) end)
  && (Nat.leb (length tops) (length (l_topics l)))
  && topics_match tops (l_topics l).

Definition filter_logs (logs : list log) (addrs : list bytes) (tops : list (list bytes)) : list log :=
  filter (log_matches addrs tops) logs.

(* filters/filter.go bloomFilter *)
Definition bloom_filter (bloom : N) (addrs : list bytes) (tops : list (list bytes)) : bool :=
  (match addrs with [] => true | _ => existsb (bloom_lookup bloom) addrs end)
  && forallb (fun sub => match sub with [] => true | _ => existsb (bloom_lookup bloom) sub end) tops.

(* filters/filter.go New: flatten addresses and topics into bloombits clauses;
   bloombits/matcher.go NewMatcher: drop empty clauses, map calcBloomIndexes.
   (A nil alternative inside a clause — "clause == nil" — cannot be produced by
   filters.New, Address.Bytes()/Hash.Bytes() are never nil; not modelled.) *)
Definition matcher_filters (addrs : list bytes) (tops : list (list bytes)) : list (list (N * N * N)) :=
  let clauses := (match addrs with [] => [] | _ => [addrs] end) ++ tops in
  map (map calc_bloom_indexes) (filter (fun c => match c with [] => false | _ => true end) clauses).

(* bloombits/matcher.go NewMatcher on raw clauses (what filters.New hands over is the special case
   without nil): an empty clause is skipped; a nil alternative makes bloomBits nil and the whole
   clause is skipped (wildcard); otherwise every alternative is mapped by calcBloomIndexes *)
Fixpoint clause_bits (f : list (option bytes)) : option (list (N * N * N)) :=
  match f with
  | [] => Some []
  | None :: _ => None
  | Some x :: t => match clause_bits t with Some l => Some (calc_bloom_indexes x :: l) | None => None end
  end.
Definition new_matcher_filters (filters : list (list (option bytes))) : list (list (N * N * N)) :=
  flat_map (fun f => match f with
                     | [] => []
                     | _ => match clause_bits f with Some l => [l] | None => [] end
                     end) filters.

End WithHash.
