(* Bloom/ByteProofs.v — the byte-level matcher (ByteModel.v) returns what the bit-list matcher returns:
   packing, the byte-wise AND/OR/Test and the zero-byte skip of Matcher.Start are correct. *)
From AQ Require Import Lib.Bytes Bloom.BloomModel Bloom.FilterModel Bloom.BloomProofs Bloom.FilterProofs Bloom.ByteModel.
From Coq Require Import ZifyBool ZifyN ZifyNat.
Local Open Scope N_scope.
Ltac Zify.zify_post_hook ::= Z.div_mod_to_equations.

(* ---------- bytes as 8 bits ---------- *)
Lemma byte_bit_and x y j : j < 8 -> byte_bit (and_byte x y) j = (byte_bit x j && byte_bit y j)%bool.
Proof.
  intro Hj. unfold byte_bit, and_byte. rewrite b2n_n2b_mod. change 256 with (2 ^ 8).
  rewrite N.mod_pow2_bits_low by exact Hj. apply N.land_spec.
Qed.
Lemma byte_bit_or x y j : j < 8 -> byte_bit (or_byte x y) j = (byte_bit x j || byte_bit y j)%bool.
Proof.
  intro Hj. unfold byte_bit, or_byte. rewrite b2n_n2b_mod. change 256 with (2 ^ 8).
  rewrite N.mod_pow2_bits_low by exact Hj. apply N.lor_spec.
Qed.
Lemma byte_zero_bits x j : b2n x = 0 -> byte_bit x j = false.
Proof. intro Hz. unfold byte_bit. rewrite Hz. apply N.bits_0. Qed.

(* ---------- vectors ---------- *)
Lemma nthN_cons {A} (x : A) l k : nthN (x :: l) k = if k =? 0 then Some x else nthN l (k - 1).
Proof. unfold nthN. cbn [dropN]. destruct (k =? 0); reflexivity. Qed.

Lemma bvec_bit_and a : forall b k, bvec_bit (and_bytes a b) k = (bvec_bit a k && bvec_bit b k)%bool.
Proof.
  unfold bvec_bit. intros b k. generalize (k / 8) as q. assert (Hj : 7 - k mod 8 < 8) by lia. revert Hj.
  generalize (7 - k mod 8) as j. intros j Hj. revert b.
  induction a as [|x a IH]; intros b q; [reflexivity|].
  destruct b as [|y b]; cbn [and_bytes]; [cbn; destruct (nthN (x :: a) q); [apply eq_sym, andb_false_r|reflexivity]|].
  rewrite !nthN_cons. destruct (q =? 0); [apply byte_bit_and, Hj|apply IH].
Qed.

Lemma bvec_bit_or a : forall b k, bvec_bit (or_bytes a b) k = (bvec_bit a k || bvec_bit b k)%bool.
Proof.
  unfold bvec_bit. intros b k. generalize (k / 8) as q. assert (Hj : 7 - k mod 8 < 8) by lia. revert Hj.
  generalize (7 - k mod 8) as j. intros j Hj. revert b.
  induction a as [|x a IH]; intros b q; [reflexivity|].
  destruct b as [|y b]; cbn [or_bytes]; [cbn; destruct (nthN (x :: a) q); [apply eq_sym, orb_false_r|reflexivity]|].
  rewrite !nthN_cons. destruct (q =? 0); [apply byte_bit_or, Hj|apply IH].
Qed.

Lemma nthN_repeat {A} (x : A) n : forall q, nthN (repeat x n) q = if q <? N.of_nat n then Some x else None.
Proof.
  induction n as [|n IH]; intro q; [destruct (N.ltb_spec q (N.of_nat 0)); [lia|reflexivity]|]. cbn [repeat]. rewrite nthN_cons.
  destruct (N.eqb_spec q 0); [subst; reflexivity|]. rewrite IH.
  destruct (N.ltb_spec (q - 1) (N.of_nat n)), (N.ltb_spec q (N.of_nat (S n))); try reflexivity; lia.
Qed.

Lemma bvec_bit_zeros n k : bvec_bit (repeat x00 n) k = false.
Proof. unfold bvec_bit. rewrite nthN_repeat. destruct (_ <? _); [apply N.bits_0|reflexivity]. Qed.

Lemma bvec_bit_ones n k : k / 8 < N.of_nat n -> bvec_bit (repeat xff n) k = true.
Proof.
  intro Hk. unfold bvec_bit. rewrite nthN_repeat. replace (k / 8 <? N.of_nat n) with true by lia.
  unfold byte_bit. change (b2n xff) with (N.ones 8). apply N.ones_spec_low. lia.
Qed.

Lemma bvec_bit_none v : test_bytes v = false -> forall k, bvec_bit v k = false.
Proof.
  unfold bvec_bit. intros Ht k. generalize (k / 8) as q. generalize (7 - k mod 8) as j. intro j.
  induction v as [|x v IH]; intro q; [reflexivity|]. cbn [test_bytes existsb] in Ht.
  apply orb_false_iff in Ht. destruct Ht as [Hx Hv]. rewrite nthN_cons. destruct (q =? 0).
  - apply byte_zero_bits. destruct (N.eqb_spec (b2n x) 0); [assumption|discriminate].
  - apply IH, Hv.
Qed.

(* ---------- packing ---------- *)
Lemma pack8_bits b7 b6 b5 b4 b3 b2 b1 b0 :
  let x := n2b (bit_val b7 128 + bit_val b6 64 + bit_val b5 32 + bit_val b4 16
                + bit_val b3 8 + bit_val b2 4 + bit_val b1 2 + bit_val b0 1) in
  byte_bit x 7 = b7 /\ byte_bit x 6 = b6 /\ byte_bit x 5 = b5 /\ byte_bit x 4 = b4 /\
  byte_bit x 3 = b3 /\ byte_bit x 2 = b2 /\ byte_bit x 1 = b1 /\ byte_bit x 0 = b0.
Proof. destruct b7, b6, b5, b4, b3, b2, b1, b0; vm_compute; repeat split. Qed.

(* bit k of the packed vector is element k of the bit list (length a multiple of 8) *)
Lemma bvec_bit_pack : forall n (v : list bool), length v = (8 * n)%nat -> forall k, bvec_bit (pack v) k = vec_bit v k.
Proof.
  induction n as [|n IH]; intros v Hlen k.
  - destruct v; [reflexivity|cbn in Hlen; lia].
  - destruct v as [|b7 [|b6 [|b5 [|b4 [|b3 [|b2 [|b1 [|b0 rest]]]]]]]]; cbn [length] in Hlen; try lia.
    assert (Hrest : length rest = (8 * n)%nat) by lia.
    cbn [pack]. destruct (pack8_bits b7 b6 b5 b4 b3 b2 b1 b0) as [H7 [H6 [H5 [H4 [H3 [H2 [H1 H0]]]]]]].
    cbv zeta in *. set (x := n2b _) in *.
    destruct (N.ltb_spec k 8) as [Hk|Hk].
    + unfold bvec_bit. replace (k / 8) with 0 by lia. rewrite nthN_cons. cbn [N.eqb].
      replace (k mod 8) with k by lia.
      assert (Hc : k = 0 \/ k = 1 \/ k = 2 \/ k = 3 \/ k = 4 \/ k = 5 \/ k = 6 \/ k = 7) by lia.
      destruct Hc as [->|[->|[->|[->|[->|[->|[->| ->]]]]]]]; cbn [N.sub Pos.sub_mask Pos.pred_double Pos.double_pred_mask Pos.succ_double_mask Pos.double_mask];
        [rewrite H7|rewrite H6|rewrite H5|rewrite H4|rewrite H3|rewrite H2|rewrite H1|rewrite H0]; reflexivity.
    + transitivity (bvec_bit (pack rest) (k - 8)).
      * unfold bvec_bit. rewrite nthN_cons. replace (k / 8 =? 0) with false by lia.
        replace (k / 8 - 1) with ((k - 8) / 8) by lia. replace ((k - 8) mod 8) with (k mod 8) by lia. reflexivity.
      * rewrite (IH rest Hrest). symmetry.
        do 8 (rewrite vec_bit_cons; match goal with |- context [?a =? 0] => replace (a =? 0) with false by lia end).
        f_equal. lia.
Qed.

(* ---------- the zero-byte skip ---------- *)
Lemma filter_none {A} (p : A -> bool) l : (forall x, In x l -> p x = false) -> filter p l = [].
Proof.
  induction l as [|x l IH]; intro Hp; [reflexivity|]. cbn [filter].
  rewrite (Hp x (or_introl eq_refl)). apply IH. intros; apply Hp; right; assumption.
Qed.

Lemma range_lt_cons i hi : i < hi -> range_lt i hi = i :: range_lt (i + 1) hi.
Proof.
  intro Hlt. unfold range_lt. replace (N.to_nat (hi - i)) with (S (N.to_nat (hi - (i + 1)))) by lia. reflexivity.
Qed.

Lemma start_loop_spec v start last : start mod 8 = 0 ->
  forall fuel i, start <= i -> (N.to_nat (last + 1 - i) <= fuel)%nat ->
  start_loop fuel v start i last = filter (fun k => bvec_bit v (k - start)) (range_lt i (last + 1)).
Proof.
  intros Hst. induction fuel as [|f IH]; intros i Hi Hf.
  - rewrite range_lt_empty by lia. reflexivity.
  - cbn [start_loop]. destruct (N.ltb_spec last i) as [Hgt|Hle]; [rewrite range_lt_empty by lia; reflexivity|].
    destruct (nthN v ((i - start) / 8)) as [next|] eqn:E.
    2:{ (* Go would panic on the missing byte; no later block has a byte either *)
        symmetry. apply filter_none. intros k Hk. apply in_range_lt in Hk. unfold bvec_bit.
        rewrite nthN_nth_error in *. apply nth_error_None in E.
        assert (Hn : nth_error v (N.to_nat ((k - start) / 8)) = None) by (apply nth_error_None; lia).
        rewrite Hn. reflexivity. }
    assert (Hbit : forall k, (k - start) / 8 = (i - start) / 8 ->
              bvec_bit v (k - start) = byte_bit next (7 - (k - start) mod 8)).
    { intros k Hk. unfold bvec_bit. rewrite Hk, E. reflexivity. }
    destruct (N.eqb_spec (b2n next) 0) as [Hz|Hnz].
    + destruct (N.eqb_spec (i mod 8) 0) as [Hal|Hnal].
      * rewrite IH by lia.
        destruct (N.le_gt_cases (last + 1) (i + 8)) as [Hshort|Hlong].
        -- rewrite (range_lt_empty (i + 8)) by lia. cbn [filter]. symmetry. apply filter_none.
           intros k Hk. apply in_range_lt in Hk. rewrite Hbit by lia. apply byte_zero_bits, Hz.
        -- rewrite <- (range_lt_app i (i + 8) (last + 1)) by lia. rewrite filter_app.
           rewrite (filter_none _ (range_lt i (i + 8))); [reflexivity|].
           intros k Hk. apply in_range_lt in Hk. rewrite Hbit by lia. apply byte_zero_bits, Hz.
      * rewrite IH by lia. rewrite (range_lt_cons i) by lia. cbn [filter].
        rewrite Hbit by reflexivity. rewrite byte_zero_bits by exact Hz. reflexivity.
    + rewrite IH by lia. rewrite (range_lt_cons i) by lia. cbn [filter].
      rewrite Hbit by reflexivity. replace ((i - start) mod 8) with (i mod 8) by lia.
      destruct (byte_bit next (7 - i mod 8)); reflexivity.
Qed.

(* ---------- the byte-level matcher ---------- *)
Definition index_sound_b (idx : index_b) (size nsec : N) (B : N -> N) : Prop :=
  forall bit s k, s < nsec -> k < size -> bvec_bit (idx bit s) k = N.testbit (B (s * size + k)) bit.

Section MatcherB.
Variable idx : index_b.
Variable size : N.
Variable nsec : N.
Variable B : N -> N.
Hypothesis Hsound : index_sound_b idx size nsec B.
Hypothesis Hsize : 0 < size.
Hypothesis Hsize8 : size mod 8 = 0.

Lemma alt_vec_b_bit s a k : s < nsec -> k < size -> bvec_bit (alt_vec_b idx s a) k = tri_test (B (s * size + k)) a.
Proof.
  intros Hs Hk. destruct a as [[i j] l]. cbn [alt_vec_b tri_test].
  rewrite !bvec_bit_and, !Hsound by assumption. reflexivity.
Qed.

Lemma fold_or_b_bit s rest : s < nsec -> forall init k, k < size ->
  bvec_bit (fold_left (fun acc a => or_bytes acc (alt_vec_b idx s a)) rest init) k
  = (bvec_bit init k || existsb (tri_test (B (s * size + k))) rest)%bool.
Proof.
  intro Hs. induction rest as [|a rest IH]; intros init k Hk; cbn [fold_left existsb].
  - rewrite orb_false_r. reflexivity.
  - rewrite IH, bvec_bit_or, alt_vec_b_bit by assumption. rewrite orb_assoc. reflexivity.
Qed.

Lemma clause_vec_b_bit s cl k : s < nsec -> k < size ->
  bvec_bit (clause_vec_b idx s (N.to_nat (size / 8)) cl) k = existsb (tri_test (B (s * size + k))) cl.
Proof.
  intros Hs Hk. destruct cl as [|a rest]; cbn [clause_vec_b].
  - apply bvec_bit_zeros.
  - rewrite fold_or_b_bit, alt_vec_b_bit by assumption. reflexivity.
Qed.

Definition denote_b (acc : option bytes) (k : N) : bool :=
  match acc with Some v => bvec_bit v k | None => false end.

Lemma sub_match_b_bit s acc cl k : s < nsec -> k < size ->
  denote_b (sub_match_b idx s (N.to_nat (size / 8)) acc cl) k
  = (denote_b acc k && existsb (tri_test (B (s * size + k))) cl)%bool.
Proof.
  intros Hs Hk. destruct acc as [v|]; [|reflexivity]. cbn [sub_match_b denote_b].
  destruct (test_bytes (and_bytes (clause_vec_b idx s (N.to_nat (size / 8)) cl) v)) eqn:E; cbn [denote_b].
  - rewrite bvec_bit_and, clause_vec_b_bit by assumption. apply andb_comm.
  - pose proof (bvec_bit_none _ E k) as Hz. rewrite bvec_bit_and, clause_vec_b_bit in Hz by assumption.
    rewrite andb_comm. symmetry. exact Hz.
Qed.

Lemma section_fold_b_bit s filters : s < nsec -> forall acc k, k < size ->
  denote_b (fold_left (sub_match_b idx s (N.to_nat (size / 8))) filters acc) k
  = (denote_b acc k && bloom_match filters (B (s * size + k)))%bool.
Proof.
  intro Hs. induction filters as [|cl filters IH]; intros acc k Hk; cbn [fold_left].
  - unfold bloom_match. cbn [forallb]. rewrite andb_true_r. reflexivity.
  - rewrite IH, sub_match_b_bit by assumption. rewrite bloom_match_cons, andb_assoc. reflexivity.
Qed.

Lemma section_vec_b_bit s filters k : s < nsec -> k < size ->
  denote_b (section_vec_b idx s (N.to_nat (size / 8)) filters) k = bloom_match filters (B (s * size + k)).
Proof.
  intros Hs Hk. unfold section_vec_b. rewrite section_fold_b_bit by assumption. cbn [denote_b].
  rewrite bvec_bit_ones by lia. reflexivity.
Qed.

Lemma section_start_aligned s : (s * size) mod 8 = 0.
Proof.
  apply N.mod_divide; [discriminate|]. apply N.divide_mul_r. apply N.mod_divide; [discriminate|exact Hsize8].
Qed.

Lemma section_piece_b filters b e s : s < nsec ->
  match section_vec_b idx s (N.to_nat (size / 8)) filters with
  | Some v => section_matches_b size b e s v
  | None => []
  end = filter (fun n => bloom_match filters (B n))
               (range_lt (N.max b (s * size)) (N.min (e + 1) (s * size + size))).
Proof.
  intro Hs.
  assert (Hr : N.min e (s * size + size - 1) + 1 = N.min (e + 1) (s * size + size)) by lia.
  assert (Hext : forall v, section_vec_b idx s (N.to_nat (size / 8)) filters = v ->
            filter (fun i => denote_b v (i - s * size)) (range_lt (N.max b (s * size)) (N.min (e + 1) (s * size + size)))
            = filter (fun n => bloom_match filters (B n)) (range_lt (N.max b (s * size)) (N.min (e + 1) (s * size + size)))).
  { intros v Hv. apply filter_ext_in. intros i Hi. apply in_range_lt in Hi.
    rewrite <- Hv, section_vec_b_bit by lia. f_equal. f_equal. lia. }
  destruct (section_vec_b idx s (N.to_nat (size / 8)) filters) as [v|] eqn:E.
  - unfold section_matches_b. rewrite start_loop_spec; [|apply section_start_aligned|lia|lia].
    rewrite Hr. apply (Hext (Some v) eq_refl).
  - rewrite <- (Hext None eq_refl). cbn [denote_b]. symmetry. apply filter_none. reflexivity.
Qed.

Theorem matcher_b_is_bloomfilter_range : forall filters b e, e / size < nsec ->
  matcher_run_b idx size filters b e
  = filter (fun n => bloom_match filters (B n)) (range_lt b (e + 1)).
Proof.
  intros filters b e Hns. unfold matcher_run_b.
  rewrite (flat_map_ext_in _ (fun s => filter (fun n => bloom_match filters (B n))
               (range_lt (N.max b (s * size)) (N.min (e + 1) (s * size + size))))).
  2:{ intros s Hin. apply in_range_lt in Hin. apply section_piece_b. lia. }
  rewrite <- filter_flat_map. f_equal.
  change (range_lt (b / size) (e / size + 1)) with (rangeN (b / size) (N.to_nat (e / size + 1 - b / size))).
  rewrite (tiles size Hsize).
  destruct (N.le_gt_cases (e + 1) b) as [Hle|Hgt]; [rewrite !range_lt_empty by lia; reflexivity|].
  f_equal.
  assert (He : (e / size) * size <= e < (e / size) * size + size).
  { pose proof (N.div_mod e size ltac:(lia)) as Hd. pose proof (N.mod_lt e size ltac:(lia)). lia. }
  assert (Hmono : b / size <= e / size) by (apply N.div_le_mono; lia).
  replace (b / size + N.of_nat (N.to_nat (e / size + 1 - b / size))) with (e / size + 1) by lia.
  lia.
Qed.

End MatcherB.

(* the packed index of a chain is sound at the byte level (size a multiple of 8) *)
Lemma section_blocks_length c size s : (length (section_blocks_of c size s) <= N.to_nat size)%nat.
Proof.
  unfold section_blocks_of. rewrite dropN_skipn, firstnN_firstn by (rewrite skipn_length; lia).
  apply firstn_le_length.
Qed.

(* the byte-level matcher over the packed rows of FULL sections returns exactly what the bit-list
   matcher returns: packing, byte-wise AND/OR/Test and the zero-byte skip change nothing *)
Theorem matcher_bytes_refines_bits : forall (c : chain) (size nsec : N) (filters : list (list (N * N * N))) (b e : N),
  0 < size -> size mod 8 = 0 -> e / size < nsec -> nsec * size <= lenN c ->
  matcher_run_b (index_b_of_chain c size) size filters b e
  = matcher_run (index_of_chain c size) size filters b e.
Proof.
  intros c size nsec filters b e Hsize H8 He Hfull.
  rewrite (matcher_is_bloomfilter_range (index_of_chain c size) size nsec (bloom_at c)
             (index_of_chain_sound c size nsec) Hsize filters b e He).
  apply (matcher_b_is_bloomfilter_range (index_b_of_chain c size) size nsec (bloom_at c)); try assumption.
  intros bit s k Hs Hk. unfold index_b_of_chain.
  assert (Hl : length (index_of_chain c size bit s) = (8 * N.to_nat (size / 8))%nat).
  { unfold index_of_chain. rewrite map_length. unfold section_blocks_of.
    rewrite dropN_skipn, firstnN_firstn by (rewrite skipn_length; lia).
    rewrite firstn_length, skipn_length. unfold lenN in Hfull. nia. }
  rewrite (bvec_bit_pack _ _ Hl). apply (index_of_chain_sound c size nsec); assumption.
Qed.

(* the Go bytes of a generator row: block k of the section at bit 7-k%8 of byte k/8 *)
Lemma vec_bit_nth v k : vec_bit v k = nth (N.to_nat k) v false.
Proof.
  rewrite vec_bit_nth_error. destruct (nth_error v (N.to_nat k)) eqn:E.
  - symmetry. apply nth_error_nth, E.
  - symmetry. apply nth_overflow, nth_error_None, E.
Qed.

Theorem generator_row_packed : forall (size row k : N), size mod 8 = 0 -> k < size ->
  bvec_bit (pack (row_bits size row)) k = N.testbit row k.
Proof.
  intros size row k H8 Hk.
  assert (Hl : length (row_bits size row) = (8 * N.to_nat (size / 8))%nat).
  { unfold row_bits. rewrite N_bits_length. lia. }
  rewrite (bvec_bit_pack _ _ Hl), vec_bit_nth. unfold row_bits. rewrite N_bits_nth by lia. f_equal. lia.
Qed.
