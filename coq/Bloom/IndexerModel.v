(* Bloom/IndexerModel.v — core/chain_indexer.go ChainIndexer as a state machine driven by
   newHead(head, reorg) notifications and updateLoop steps, over a canonical chain that the
   environment replaces at any time (reorgs), with the bloom-bits backend of aqua/bloombits.go.
   Definitions only (extracted).  Hashes are N, the zero hash common.Hash{} is 0.
   Modelled: newHead (both branches), updateLoop's section processing split at the point where the
   real loop releases its lock (step_begin captures section and oldHead; step_end = processSection
   against the chain as it is THEN + the bookkeeping under the lock), processSection (Reset incl.
   setValidSections(0) on its error, per header: canonical hash known, header found, ParentHash ==
   lastHead; Commit writes its batch before the caller's check), setSectionHead / removeSectionHead /
   setValidSections, SectionHead returning the zero hash when absent, GetBloomBits keyed by
   (bit, section, head hash).  Not modelled: child indexers / cascadedHead, AddKnownSectionHead (light
   client), loadValidSections at restart, the throttling timer, a chain switch in the middle of one
   processSection read loop (the ParentHash continuity check is modelled on a snapshot). *)
From AQ Require Import Lib.Bytes Bloom.BloomModel Bloom.FilterModel.
Local Open Scope N_scope.

(* a canonical block as the indexer and the filters see it *)
Record hblock := mkHB { hb_hash : N; hb_parent : N; hb_block : block }.
Definition hchain := list hblock.
Definition hb_bloom (b : hblock) : N := b_bloom (hb_block b).

(* GetCanonicalHash: zero hash beyond the head *)
Definition canon_hash (c : hchain) (n : N) : N :=
  match nthN c n with Some b => hb_hash b | None => 0 end.

Record ixstate := mkIx {
  ix_known : N;                          (* knownSections *)
  ix_stored : N;                         (* storedSections *)
  ix_sheads : list (N * N);              (* "shead"+section -> hash, latest write first *)
  ix_db : list ((N * N) * list N);       (* (section, head hash) -> the 2048 rows written by Commit *)
  ix_pending : option (N * N)            (* a section being processed: (section, oldHead) *)
}.
Definition ix_init : ixstate := mkIx 0 0 [] [] None.

(* SectionHead *)
Definition shead_of (sheads : list (N * N)) (s : N) : N :=
  match find (fun p => fst p =? s) sheads with Some p => snd p | None => 0 end.
Definition shead (st : ixstate) (s : N) : N := shead_of (ix_sheads st) s.

(* setValidSections: for storedSections > sections { storedSections--; removeSectionHead(storedSections) } *)
Definition set_valid_sections (st : ixstate) (n : N) : ixstate :=
  mkIx (ix_known st) n
       (filter (fun p => negb ((n <=? fst p) && (fst p <? ix_stored st))) (ix_sheads st))
       (ix_db st) (ix_pending st).

(* newHead *)
Definition new_head (size confirms : N) (st : ixstate) (head : N) (reorg : bool) : ixstate :=
  if reorg then
    let changed := head / size in
    let st1 := if changed <? ix_known st
               then mkIx changed (ix_stored st) (ix_sheads st) (ix_db st) (ix_pending st) else st in
    if changed <? ix_stored st1 then set_valid_sections st1 changed else st1
  else if confirms <=? head then
    let sections := (head + 1 - confirms) / size in
    if ix_known st <? sections
    then mkIx sections (ix_stored st) (ix_sheads st) (ix_db st) (ix_pending st) else st
  else st.

(* updateLoop, first half (under the lock): pick the section, read oldHead, unlock *)
Definition step_begin (st : ixstate) : ixstate :=
  match ix_pending st with
  | Some _ => st
  | None =>
    if ix_stored st <? ix_known st
    then let section := ix_stored st in
         let old := if 0 <? section then shead st (section - 1) else 0 in
         mkIx (ix_known st) (ix_stored st) (ix_sheads st) (ix_db st) (Some (section, old))
    else st
  end.

(* processSection's loop over the headers of the section: Some (blooms, last head) or an error *)
Fixpoint read_headers (c : hchain) (number : N) (cnt : nat) (last : N) : option (list N * N) :=
  match cnt with
  | O => Some ([], last)
  | S k =>
    match nthN c number with
    | None => None                                            (* canonical block unknown *)
    | Some b =>
      if hb_hash b =? 0 then None                             (* hash == common.Hash{} *)
      else if negb (hb_parent b =? last) then None            (* chain reorged during section processing *)
      else match read_headers c (number + 1) k (hb_hash b) with
           | Some (bs, l) => Some (hb_bloom b :: bs, l)
           | None => None
           end
    end
  end.

Section WithCommit.
(* Reset + Process* + Commit of the backend: process_section for the production BloomIndexer *)
Variable commit : N -> list N -> gres (list N).

Inductive step_result := StepNone | StepStored | StepFailed | StepResetFailed.

(* updateLoop, second half: processSection against chain c, then the bookkeeping under the lock *)
Definition step_end (size : N) (c : hchain) (st : ixstate) : ixstate * step_result :=
  match ix_pending st with
  | None => (st, StepNone)
  | Some (section, old) =>
    let st0 := mkIx (ix_known st) (ix_stored st) (ix_sheads st) (ix_db st) None in
    if negb (size mod 8 =? 0) then
      (* backend.Reset fails: c.setValidSections(0); then the failure branch *)
      let st1 := set_valid_sections st0 0 in
      (mkIx (ix_stored st1) (ix_stored st1) (ix_sheads st1) (ix_db st1) None, StepResetFailed)
    else
    match read_headers c (section * size) (N.to_nat size) old with
    | None => (mkIx (ix_stored st0) (ix_stored st0) (ix_sheads st0) (ix_db st0) None, StepFailed)
    | Some (blooms, newhead) =>
      match commit size blooms with
      | GErr _ => (mkIx (ix_stored st0) (ix_stored st0) (ix_sheads st0) (ix_db st0) None, StepFailed)
      | GOk rows =>
        let db' := ((section, newhead), rows) :: ix_db st0 in      (* batch.Write() in Commit *)
        (* err == nil && oldHead == c.SectionHead(section-1); section-1 wraps to 2^64-1 for section 0 *)
        let prev := if 0 <? section then shead st0 (section - 1) else 0 in
        if old =? prev then
          let st1 := mkIx (ix_known st0) (ix_stored st0) ((section, newhead) :: ix_sheads st0) db' None in
          (set_valid_sections st1 (section + 1), StepStored)
        else (mkIx (ix_stored st0) (ix_stored st0) (ix_sheads st0) db' None, StepFailed)
      end
    end
  end.

(* ---------- the environment: canonical chain + notifications in flight ---------- *)
Inductive notif := NReorg (anc : N) | NHead (n : N).

Record world := mkW { w_chain : hchain; w_queue : list notif; w_ix : ixstate }.

(* length of the common prefix by block hash (FindCommonAncestor) *)
Fixpoint lcp (a b : hchain) : N :=
  match a, b with
  | x :: a', y :: b' => if hb_hash x =? hb_hash y then 1 + lcp a' b' else 0
  | _, _ => 0
  end.

(* what aqua/event ChainEvents + eventLoop turn a switch of the canonical chain into *)
Definition notifs_of (old new : hchain) : list notif :=
  let l := lcp old new in
  (if l <? lenN old then [NReorg (l - 1)] else [])
  ++ map NHead (range_lt l (lenN new)).

Inductive op := OpChain (c : hchain) | OpDeliver | OpBegin | OpEnd.

Definition apply_op (size confirms : N) (w : world) (o : op) : world :=
  match o with
  | OpChain c' => mkW c' (w_queue w ++ notifs_of (w_chain w) c') (w_ix w)
  | OpDeliver =>
    match w_queue w with
    | [] => w
    | NReorg a :: q => mkW (w_chain w) q (new_head size confirms (w_ix w) a true)
    | NHead n :: q => mkW (w_chain w) q (new_head size confirms (w_ix w) n false)
    end
  | OpBegin => mkW (w_chain w) (w_queue w) (step_begin (w_ix w))
  | OpEnd => mkW (w_chain w) (w_queue w) (fst (step_end size (w_chain w) (w_ix w)))
  end.

Definition run_ops (size confirms : N) (w : world) (ops : list op) : world :=
  fold_left (apply_op size confirms) ops w.

(* GetBloomBits(bit, section, head) *)
Definition get_row (st : ixstate) (bit : nat) (s h : N) : option N :=
  match find (fun p => (fst (fst p) =? s) && (snd (fst p) =? h)) (ix_db st) with
  | Some p => Some (nth bit (snd p) 0)
  | None => None
  end.

(* the index the filters read: aqua/bloombits.go startBloomHandlers — head := GetCanonicalHash((s+1)*size-1);
   GetBloomBits(bit, s, head); a missing vector is an error there, an empty one here *)
Definition index_of_world (size : N) (w : world) : index :=
  fun bit s =>
    match get_row (w_ix w) (N.to_nat bit) s (canon_hash (w_chain w) ((s + 1) * size - 1)) with
    | Some row => row_bits size row
    | None => []
    end.

End WithCommit.

(* the harness backend for small section sizes: as process_section, rows read without Bitset's bound *)
Definition process_section_rows (size : N) (blooms : list N) : gres (list N) :=
  match new_generator size with
  | GErr e => GErr e
  | GOk g => match add_blooms g blooms with
             | GErr e => GErr e
             | GOk g' => if g_next g' =? g_sections g' then GOk (g_rows g') else GErr ErrNotFullyGenerated
             end
  end.
