(* Bloom/SectionProofs.v — processSection (Reset + Process* + Commit of one section, property C16) for
   EVERY section size: the complete outcome of process_section on a full section, without the
   restriction size >= 2048 of process_section_ok_partial. *)
From AQ Require Import Lib.Bytes Bloom.BloomModel Bloom.FilterModel Bloom.BloomProofs Bloom.FilterProofs.
From Coq Require Import ZifyBool ZifyN ZifyNat.
Local Open Scope N_scope.
Set Default Timeout 120.

(* Commit stops at the first index Bitset refuses: with rows 0..size-1 readable and row `size` refused,
   any scan that starts at or below `size` and runs past it fails with that error *)
Lemma commit_rows_first_error g size e :
  (forall idx, idx < size -> exists v, bitset g idx = GOk v) ->
  bitset g size = GErr e ->
  forall cnt i, i <= size -> size < i + N.of_nat cnt -> commit_rows g i cnt = GErr e.
Proof.
  intros Hok Herr cnt. induction cnt as [|cnt IH]; intros i Hi Hc; [lia|].
  cbn [commit_rows]. destruct (N.eq_dec i size) as [->|Hne].
  - rewrite Herr. reflexivity.
  - destruct (Hok i ltac:(lia)) as [v Ev]. rewrite Ev. rewrite (IH (i + 1)) by lia. reflexivity.
Qed.

(* a full section of any size that is a multiple of 8: it commits the transposed blooms exactly when
   size >= 2048 (the bloom bit length); below, Commit fails with Bitset's "section out of bounds" at row
   `size` and nothing is stored *)
Theorem process_section_full : forall (size : N) (blooms : list N),
  size mod 8 = 0 -> lenN blooms = size ->
  if 2048 <=? size
  then exists rows, process_section size blooms = GOk rows /\ length rows = bloom_bit_length /\
         forall i k, (i < bloom_bit_length)%nat -> k < size ->
           N.testbit (nth i rows 0) k = N.testbit (nth (N.to_nat k) blooms 0) (N.of_nat i)
  else process_section size blooms = GErr ErrSectionOutOfBounds.
Proof.
  intros size blooms Hm Hlen. destruct (2048 <=? size) eqn:Hbig.
  - apply process_section_ok_partial; [lia | exact Hm | exact Hlen].
  - destruct (generator_transposes size blooms Hm Hlen) as [g0 [g [E0 [E [_ [Hok Hoob]]]]]].
    unfold process_section. rewrite E0, E.
    apply (commit_rows_first_error g size).
    + intros idx Hidx. eexists. apply Hok; lia.
    + apply Hoob. lia.
    + lia.
    + unfold bloom_bit_length. lia.
Qed.

(* as an equivalence: a full section commits iff size >= 2048 *)
Theorem process_section_commits_iff : forall (size : N) (blooms : list N),
  size mod 8 = 0 -> lenN blooms = size ->
  ((exists rows, process_section size blooms = GOk rows) <-> 2048 <= size).
Proof.
  intros size blooms Hm Hlen. pose proof (process_section_full size blooms Hm Hlen) as H.
  destruct (2048 <=? size) eqn:Hbig.
  - split; [lia|]. intros _. destruct H as [rows [E _]]. exists rows. exact E.
  - split; [|lia]. intros [rows E]. rewrite H in E. discriminate.
Qed.

(* the unrestricted statement "every full section commits" is false: 8 zero blooms *)
Lemma process_section_ok_refuted :
  exists (size : N) (blooms : list N),
    size mod 8 = 0 /\ lenN blooms = size /\ process_section size blooms = GErr ErrSectionOutOfBounds.
Proof. exists 8, w_blooms. split; [reflexivity|]. split; [reflexivity|]. exact (process_section_full 8 w_blooms eq_refl eq_refl). Qed.
