(* Extraction of the bloom / log-filter model for ocaml/bloom/driver.ml.  ExtrOcamlBasic only. *)
From AQ Require Import Lib.Bytes Lib.ExtractBase Lib.Keccak Bloom.BloomModel Bloom.FilterModel Bloom.ByteModel Bloom.IndexerModel Bloom.BitutilModel.
Require Extraction.
Require Import ExtrOcamlBasic.
Extraction "../ocaml/bloom/model.ml" base_anchor keccak256
  bloom_bytes N_of_be bloom9 logs_bloom create_bloom bloom_lookup calc_bloom_indexes
  filter_logs bloom_filter matcher_filters new_matcher_filters
  pack new_generator add_bloom bitset gen_row row_bits process_section
  known_sections stored_sections index_of_chain matcher_run index_b_of_chain matcher_run_b
  ix_init apply_op shead get_row canon_hash process_section_rows index_of_world
  compress decompress
  filter_query brute_force.
