(* Bloom/ByteModel.v — the bloombits matcher at the level of Go's []byte vectors
   (core/bloombits/matcher.go subMatch + Start, common/bitutil ANDBytes/ORBytes/TestBytes):
   block k of a section sits at bit 7-k%8 of byte k/8, and Matcher.Start skips a whole zero byte
   when it stands on a byte boundary.  Definitions only (extracted); refined to the bit-list model
   of FilterModel.v in ByteProofs.v.  Vectors are assumed to have size/8 bytes (what
   DecompressBytes(_, size/8) delivers); Go's behaviour on shorter vectors (partial AND, index
   panic in Start) is outside this model except that a missing byte in Start is reported as a stop. *)
From AQ Require Import Lib.Bytes Bloom.BloomModel Bloom.FilterModel.
Local Open Scope N_scope.

Definition byte_bit (x : byte) (j : N) : bool := N.testbit (b2n x) j.
Definition and_byte (x y : byte) : byte := n2b (N.land (b2n x) (b2n y)).
Definition or_byte (x y : byte) : byte := n2b (N.lor (b2n x) (b2n y)).

(* bitutil.ANDBytes / ORBytes over equally long operands *)
Fixpoint and_bytes (a b : bytes) : bytes :=
  match a, b with x :: a', y :: b' => and_byte x y :: and_bytes a' b' | _, _ => [] end.
Fixpoint or_bytes (a b : bytes) : bytes :=
  match a, b with
  | x :: a', y :: b' => or_byte x y :: or_bytes a' b'
  | [], b => b
  | a, [] => a
  end.
(* bitutil.TestBytes *)
Definition test_bytes (v : bytes) : bool := existsb (fun x => negb (b2n x =? 0)) v.

(* bit of block k in a vector: byte k/8, bit 7 - k%8 *)
Definition bvec_bit (v : bytes) (k : N) : bool :=
  match nthN v (k / 8) with Some x => byte_bit x (7 - k mod 8) | None => false end.

Definition index_b := N -> N -> bytes.

(* the byte vectors an indexer stores for a chain: the packed rows *)
Definition index_b_of_chain (c : chain) (size : N) : index_b :=
  fun bit s => pack (index_of_chain c size bit s).

Definition alt_vec_b (idx : index_b) (s : N) (a : N * N * N) : bytes :=
  let '(i, j, k) := a in and_bytes (and_bytes (idx i s) (idx j s)) (idx k s).

Definition clause_vec_b (idx : index_b) (s : N) (nbytes : nat) (cl : list (N * N * N)) : bytes :=
  match cl with
  | [] => repeat x00 nbytes
  | a :: rest => fold_left (fun acc a => or_bytes acc (alt_vec_b idx s a)) rest (alt_vec_b idx s a)
  end.

Definition sub_match_b (idx : index_b) (s : N) (nbytes : nat) (acc : option bytes) (cl : list (N * N * N)) : option bytes :=
  match acc with
  | None => None
  | Some v => let v' := and_bytes (clause_vec_b idx s nbytes cl) v in
              if test_bytes v' then Some v' else None
  end.
(* run: the source emits bytes.Repeat(0xff, size/8) *)
Definition section_vec_b (idx : index_b) (s : N) (nbytes : nat) (filters : list (list (N * N * N))) : option bytes :=
  fold_left (sub_match_b idx s nbytes) filters (Some (repeat xff nbytes)).

(* Start, result goroutine:
     for i := first; i <= last; i++ {
       next := res.bitset[(i-sectionStart)/8]
       if next == 0 { if i%8 == 0 { i += 7 }; continue }
       if bit := 7 - i%8; next&(1<<bit) != 0 { results <- i } } *)
Fixpoint start_loop (fuel : nat) (v : bytes) (start i last : N) : list N :=
  match fuel with
  | O => []
  | S f =>
    if last <? i then []
    else match nthN v ((i - start) / 8) with
         | None => []
         | Some next =>
           if b2n next =? 0
           then (if i mod 8 =? 0 then start_loop f v start (i + 8) last else start_loop f v start (i + 1) last)
           else (if byte_bit next (7 - i mod 8) then [i] else []) ++ start_loop f v start (i + 1) last
         end
  end.

Definition section_matches_b (size b e s : N) (v : bytes) : list N :=
  let start := s * size in
  let first := N.max b start in
  let last := N.min e (start + size - 1) in
  start_loop (N.to_nat (last + 1 - first)) v start first last.

Definition matcher_run_b (idx : index_b) (size : N) (filters : list (list (N * N * N))) (b e : N) : list N :=
  flat_map (fun s => match section_vec_b idx s (N.to_nat (size / 8)) filters with
                     | Some v => section_matches_b size b e s v
                     | None => []
                     end)
           (range_lt (b / size) (e / size + 1)).
