(* Bloom/BitutilProofs.v — DecompressBytes(CompressBytes(d), len d) = d for every byte string d. *)
From AQ Require Import Lib.Bytes Bloom.BloomModel Bloom.FilterModel Bloom.BloomProofs Bloom.FilterProofs
  Bloom.ByteModel Bloom.ByteProofs Bloom.BitutilModel.
From Coq Require Import ZifyBool ZifyN ZifyNat.
Local Open Scope N_scope.
Ltac Zify.zify_post_hook ::= Z.div_mod_to_equations.

(* ---------- packing full bytes ---------- *)
Lemma unpack_pack_full : forall n (v : list bool), length v = (8 * n)%nat ->
  flat_map unpack8 (pack v) = v /\ length (pack v) = n.
Proof.
  induction n as [|n IH]; intros v Hl.
  - destruct v; [split; reflexivity|cbn in Hl; lia].
  - destruct v as [|b7 [|b6 [|b5 [|b4 [|b3 [|b2 [|b1 [|b0 rest]]]]]]]]; cbn [length] in Hl; try lia.
    destruct (IH rest ltac:(lia)) as [Hu Hlen]. cbn [pack flat_map length].
    destruct (pack8_bits b7 b6 b5 b4 b3 b2 b1 b0) as [H7 [H6 [H5 [H4 [H3 [H2 [H1 H0]]]]]]]. cbv zeta in *.
    unfold unpack8 at 1. rewrite H7, H6, H5, H4, H3, H2, H1, H0, Hu, Hlen. split; reflexivity.
Qed.

Definition pad_of (d : bytes) : nat := ((8 - length d mod 8) mod 8)%nat.

Lemma bitmap_bits d : flat_map unpack8 (bitmap d) = map nz d ++ repeat false (pad_of d)
  /\ length (bitmap d) = ((length d + 7) / 8)%nat.
Proof.
  unfold bitmap. apply unpack_pack_full. rewrite app_length, map_length, repeat_length.
  pose proof (Nat.div_mod (length d) 8 ltac:(lia)) as Hd. pose proof (Nat.mod_upper_bound (length d) 8 ltac:(lia)).
  lia.
Qed.

Lemma nz_false b : nz b = false -> b = x00.
Proof.
  unfold nz. intro Hn. apply b2n_inj. destruct (N.eqb_spec (b2n b) 0) as [->|]; [reflexivity|discriminate].
Qed.

(* ---------- distributing the non-zero bytes ---------- *)
Lemma distribute_pad pad : forall rest, distribute (repeat false pad) rest 0 = DOk ([], rest).
Proof. induction pad as [|p IH]; intro rest; [reflexivity|]. cbn [repeat distribute]. apply IH. Qed.

Lemma distribute_spec pad : forall d tail,
  distribute (map nz d ++ repeat false pad) (filter nz d ++ tail) (length d) = DOk (d, tail).
Proof.
  induction d as [|b d IH]; intro tail; [apply distribute_pad|].
  cbn [map app filter length]. destruct (nz b) eqn:Eb.
  - cbn [app distribute]. rewrite Eb, IH. reflexivity.
  - cbn [distribute]. rewrite IH, (nz_false b Eb). reflexivity.
Qed.

(* ---------- all-zero data ---------- *)
Lemma filter_nz_nil d : filter nz d = [] -> d = repeat x00 (length d).
Proof.
  induction d as [|b d IH]; intro Hf; [reflexivity|]. cbn [filter] in Hf. destruct (nz b) eqn:Eb; [discriminate|].
  cbn [length repeat]. rewrite <- (IH Hf), (nz_false b Eb). reflexivity.
Qed.

Lemma unpack_zeros k : flat_map unpack8 (repeat x00 k) = repeat false (8 * k).
Proof.
  induction k as [|k IH]; [reflexivity|]. cbn [repeat flat_map]. rewrite IH.
  replace (8 * S k)%nat with (8 + 8 * k)%nat by lia. reflexivity.
Qed.

(* data with a non-zero byte has a bitmap with a non-zero byte *)
Lemma bitmap_nonzero d : filter nz d <> [] -> filter nz (bitmap d) <> [].
Proof.
  intros Hd Hb. apply Hd. apply filter_nz_nil in Hb.
  destruct (bitmap_bits d) as [Hbits _]. rewrite Hb, unpack_zeros in Hbits.
  assert (Hall : forall x, In x (map nz d) -> x = false).
  { intros x Hx. apply (repeat_spec (8 * length (bitmap d)) false). rewrite Hbits. apply in_or_app. left. exact Hx. }
  clear - Hall. induction d as [|b d IH]; [reflexivity|]. cbn [filter].
  rewrite (Hall (nz b) (or_introl eq_refl)). apply IH. intros x Hx. apply Hall. right. exact Hx.
Qed.

(* ---------- decode after encode ---------- *)
Lemma decode_partial_step f x r t :
  decode_partial (S f) (x :: r) (S (S t)) =
  match decode_partial f (x :: r) ((S (S t) + 7) / 8)%nat with
  | DErr e => DErr e
  | DOk (bitset, rest) => distribute (flat_map unpack8 bitset) rest (S (S t))
  end.
Proof. reflexivity. Qed.

Lemma decode_encode : forall n d tail fe fd,
  (length d <= n)%nat -> (length d <= fe)%nat -> (length d < fd)%nat ->
  (filter nz d <> [] \/ tail = []) ->
  decode_partial fd (encode fe d ++ tail) (length d) = DOk (d, tail).
Proof.
  induction n as [|n IH]; intros d tail fe fd Hn Hfe Hfd Hpre.
  - destruct d; [|cbn in Hn; lia]. destruct fd; [lia|]. destruct fe; reflexivity.
  - destruct d as [|b1 [|b2 d]].
    + destruct fd; [lia|]. destruct fe; reflexivity.
    + (* one byte *)
      destruct fd as [|fd]; [cbn in Hfd; lia|]. destruct fe as [|fe]; [cbn in Hfe; lia|].
      cbn [encode length]. destruct (nz b1) eqn:E1.
      * cbn [app decode_partial]. rewrite E1. reflexivity.
      * destruct Hpre as [Hp| ->]; [cbn [filter] in Hp; rewrite E1 in Hp; contradiction|].
        cbn [app decode_partial repeat]. rewrite (nz_false b1 E1). reflexivity.
    + (* at least two bytes *)
      set (d0 := b1 :: b2 :: d) in *.
      destruct fd as [|fd]; [lia|]. destruct fe as [|fe]; [cbn in Hfe; lia|].
      assert (Henc : encode (S fe) d0 = match filter nz d0 with [] => [] | nzb => encode fe (bitmap d0) ++ nzb end) by reflexivity.
      rewrite Henc. destruct (filter nz d0) as [|y nzb] eqn:Ef.
      * destruct Hpre as [Hp| ->]; [contradiction|]. cbn [app]. rewrite (filter_nz_nil d0 Ef) at 2.
        unfold d0 at 1. cbn [length decode_partial]. reflexivity.
      * destruct (bitmap_bits d0) as [Hbits Hblen].
        assert (Hlen2 : (2 <= length d0)%nat) by (unfold d0; cbn [length]; lia).
        assert (Hshort : (length (bitmap d0) < length d0)%nat).
        { rewrite Hblen. pose proof (Nat.div_mod (length d0 + 7) 8 ltac:(lia)). pose proof (Nat.mod_upper_bound (length d0 + 7) 8 ltac:(lia)). lia. }
        rewrite <- app_assoc.
        assert (Hih : decode_partial fd (encode fe (bitmap d0) ++ ((y :: nzb) ++ tail)) (length (bitmap d0)) = DOk (bitmap d0, (y :: nzb) ++ tail)).
        { apply (IH (bitmap d0)); try lia. left. apply bitmap_nonzero. rewrite Ef. discriminate. }
        destruct (encode fe (bitmap d0) ++ (y :: nzb) ++ tail) as [|x r] eqn:Edata.
        { apply app_eq_nil in Edata. destruct Edata as [_ Ed]. discriminate. }
        assert (Ht : exists t, length d0 = S (S t)) by (exists (length d); reflexivity).
        destruct Ht as [t Ht]. rewrite Ht, decode_partial_step, <- Ht, <- Hblen, Hih, Hbits, <- Ef.
        apply distribute_spec.
Qed.

Theorem compress_roundtrip : forall d : bytes, decompress (compress d) (length d) = DOk d.
Proof.
  intro d. unfold compress, decompress. set (out := encode (length d) d).
  destruct (N.ltb_spec (lenN out) (lenN d)) as [Hlt|Hge].
  - unfold lenN in Hlt. replace (length d <? length out)%nat with false by lia.
    replace (length out =? length d)%nat with false by lia.
    rewrite <- (app_nil_r out). unfold out.
    rewrite (decode_encode (length d) d [] (length d) (S (length d))); try lia; [reflexivity|right; reflexivity].
  - rewrite Nat.ltb_irrefl, Nat.eqb_refl. reflexivity.
Qed.

Theorem compress_not_longer : forall d : bytes, (length (compress d) <= length d)%nat.
Proof.
  intro d. unfold compress. destruct (N.ltb_spec (lenN (encode (length d) d)) (lenN d)) as [Hlt|Hge]; unfold lenN in *; lia.
Qed.

(* why the guard must be strict: an encoding exactly as long as the data, stored as such, is taken by
   DecompressBytes' len(data) == target shortcut for uncompressed data *)
Lemma nonstrict_guard_breaks :
  exists d : bytes, let out := encode (length d) d in
    length out = length d /\ out <> d /\ decompress out (length d) = DOk out.
Proof. exists [x00; x01]. vm_compute. repeat split. discriminate. Qed.

(* a bloom-bits row as stored and fetched: Commit writes CompressBytes(row bytes), the handlers read
   DecompressBytes(_, size/8): the bytes come back, and bit k of them is bit k of the row *)
Theorem stored_row_reads_back : forall (size row : N), size mod 8 = 0 ->
  let v := pack (row_bits size row) in
  decompress (compress v) (N.to_nat (size / 8)) = DOk v /\
  forall k, k < size -> bvec_bit v k = N.testbit row k.
Proof.
  intros size row H8 v. split.
  - assert (Hl : length v = N.to_nat (size / 8)).
    { unfold v. apply (unpack_pack_full (N.to_nat (size / 8))). unfold row_bits. rewrite N_bits_length. lia. }
    rewrite <- Hl. apply compress_roundtrip.
  - intros k Hk. apply generator_row_packed; assumption.
Qed.
