(* Bloom/FilterProofs.v — the bloombits matcher is bloomFilter over the range, and
   Filter.Logs is the brute-force scan (property C16). *)
From AQ Require Import Lib.Bytes Bloom.BloomModel Bloom.FilterModel Bloom.BloomProofs.
From Coq Require Import ZifyBool ZifyN ZifyNat.
Local Open Scope N_scope.

(* ------------------------------------------------------------------ *)
(* bridges from the N-indexed helpers to the stdlib                     *)
(* ------------------------------------------------------------------ *)

Lemma dropN_skipn {A} (l : list A) : forall k, dropN l k = skipn (N.to_nat k) l.
Proof.
  induction l as [|x l IH]; intro k; cbn [dropN].
  - destruct (N.to_nat k); reflexivity.
  - destruct (N.eqb_spec k 0) as [->|Hk]; [reflexivity|].
    rewrite IH. replace (N.to_nat k) with (S (N.to_nat (k - 1))) by lia. reflexivity.
Qed.

Lemma nthN_nth_error {A} (l : list A) k : nthN l k = nth_error l (N.to_nat k).
Proof.
  unfold nthN. rewrite dropN_skipn. revert l. induction (N.to_nat k) as [|n IH]; intro l.
  - destruct l; reflexivity.
  - destruct l; [reflexivity|]. cbn [skipn nth_error]. apply IH.
Qed.

Lemma rangeN_seq lo cnt : rangeN lo cnt = map (fun i => lo + N.of_nat i) (seq 0 cnt).
Proof.
  revert lo. induction cnt as [|c IH]; intro lo; [reflexivity|].
  cbn [rangeN seq map]. f_equal; [lia|]. rewrite IH, <- seq_shift, map_map.
  apply map_ext. intro i. lia.
Qed.

Lemma range_lt_empty a c : c <= a -> range_lt a c = [].
Proof. intro Hle. unfold range_lt. replace (N.to_nat (c - a)) with 0%nat by lia. reflexivity. Qed.

Lemma rangeN_app lo a : forall b, rangeN lo (a + b) = rangeN lo a ++ rangeN (lo + N.of_nat a) b.
Proof.
  revert lo. induction a as [|a IH]; intros lo b.
  - cbn [Nat.add rangeN app]. f_equal. lia.
  - cbn [Nat.add rangeN app]. f_equal. rewrite IH. do 2 f_equal. lia.
Qed.

Lemma range_lt_app a m c : a <= m -> m <= c -> range_lt a m ++ range_lt m c = range_lt a c.
Proof.
  intros H1 H2. unfold range_lt.
  replace (N.to_nat (c - a)) with (N.to_nat (m - a) + N.to_nat (c - m))%nat by lia.
  rewrite rangeN_app. do 2 f_equal. lia.
Qed.

Lemma in_range_lt a c i : In i (range_lt a c) <-> a <= i < c.
Proof.
  unfold range_lt. rewrite rangeN_seq, in_map_iff. split.
  - intros [k [<- Hk]]. apply in_seq in Hk. lia.
  - intros Hi. exists (N.to_nat (i - a)). split; [lia|]. apply in_seq. lia.
Qed.

Lemma flat_map_filter {A B} (f : A -> list B) (p : A -> bool) l :
  (forall x, In x l -> p x = false -> f x = []) ->
  flat_map f (filter p l) = flat_map f l.
Proof.
  induction l as [|x l IH]; intro Hs; [reflexivity|]. cbn [filter flat_map].
  destruct (p x) eqn:E.
  - cbn [flat_map]. rewrite IH; [reflexivity|]. intros; apply Hs; [right|]; assumption.
  - rewrite (Hs x (or_introl eq_refl) E), IH; [reflexivity|]. intros; apply Hs; [right|]; assumption.
Qed.

Lemma filter_flat_map {A B} (f : A -> list B) (p : B -> bool) l :
  filter p (flat_map f l) = flat_map (fun x => filter p (f x)) l.
Proof.
  induction l as [|x l IH]; [reflexivity|]. cbn [flat_map]. rewrite filter_app, IH. reflexivity.
Qed.

(* ------------------------------------------------------------------ *)
(* bit vectors                                                          *)
(* ------------------------------------------------------------------ *)

Lemma vec_bit_nil k : vec_bit [] k = false.
Proof. reflexivity. Qed.
Lemma vec_bit_cons x v k : vec_bit (x :: v) k = if k =? 0 then x else vec_bit v (k - 1).
Proof. unfold vec_bit, nthN. cbn [dropN]. destruct (k =? 0); reflexivity. Qed.

Lemma vec_bit_and a : forall b k, vec_bit (and_vec a b) k = (vec_bit a k && vec_bit b k)%bool.
Proof.
  induction a as [|x a IH]; intros b k; [reflexivity|].
  destruct b as [|y b]; cbn [and_vec]; [rewrite vec_bit_nil, andb_false_r; reflexivity|].
  rewrite !vec_bit_cons. destruct (k =? 0); [reflexivity|apply IH].
Qed.

Lemma vec_bit_or a : forall b k, vec_bit (or_vec a b) k = (vec_bit a k || vec_bit b k)%bool.
Proof.
  induction a as [|x a IH]; intros b k; [reflexivity|].
  destruct b as [|y b]; cbn [or_vec]; [rewrite vec_bit_nil, orb_false_r; reflexivity|].
  rewrite !vec_bit_cons. destruct (k =? 0); [reflexivity|apply IH].
Qed.

Lemma vec_bit_repeat_false n : forall k, vec_bit (repeat false n) k = false.
Proof.
  induction n as [|n IH]; intro k; [reflexivity|]. cbn [repeat]. rewrite vec_bit_cons.
  destruct (k =? 0); [reflexivity|apply IH].
Qed.

Lemma vec_bit_repeat_true n : forall k, vec_bit (repeat true n) k = (k <? N.of_nat n).
Proof.
  induction n as [|n IH]; intro k; [cbn; lia|]. cbn [repeat]. rewrite vec_bit_cons.
  destruct (N.eqb_spec k 0); [lia|]. rewrite IH. lia.
Qed.

Lemma vec_bit_none v : existsb (fun b => b) v = false -> forall k, vec_bit v k = false.
Proof.
  induction v as [|x v IH]; intros He k; [reflexivity|]. cbn [existsb] in He.
  apply orb_false_iff in He. destruct He as [-> He]. rewrite vec_bit_cons.
  destruct (k =? 0); [reflexivity|apply IH, He].
Qed.

(* ------------------------------------------------------------------ *)
(* 4. the matcher                                                       *)
(* ------------------------------------------------------------------ *)

(* the bloom-level predicate the matcher computes: every clause has an
   alternative whose three bits are all set *)
Definition bloom_match (filters : list (list (N * N * N))) (b : N) : bool :=
  forallb (fun cl => existsb (tri_test b) cl) filters.

(* the index holds, for every bit and section, the transposed bits of the blooms B *)
Definition index_sound (idx : index) (size nsec : N) (B : N -> N) : Prop :=
  forall bit s k, s < nsec -> k < size -> vec_bit (idx bit s) k = N.testbit (B (s * size + k)) bit.

Lemma flat_map_ext_in {A C} (f g : A -> list C) l : (forall x, In x l -> f x = g x) -> flat_map f l = flat_map g l.
Proof.
  induction l as [|x l IH]; intro He; [reflexivity|]. cbn [flat_map].
  rewrite (He x (or_introl eq_refl)), IH; [reflexivity|]. intros; apply He; right; assumption.
Qed.

Section Matcher.
Variable idx : index.
Variable size : N.
Variable nsec : N.
Variable B : N -> N.
Hypothesis Hsound : index_sound idx size nsec B.
Hypothesis Hsize : 0 < size.

Lemma alt_vec_bit s a k : s < nsec -> k < size -> vec_bit (alt_vec idx s a) k = tri_test (B (s * size + k)) a.
Proof.
  intros Hs Hk. destruct a as [[i j] l]. cbn [alt_vec tri_test].
  rewrite !vec_bit_and, !Hsound by assumption. reflexivity.
Qed.

Lemma fold_or_bit s rest : s < nsec -> forall init k, k < size ->
  vec_bit (fold_left (fun acc a => or_vec acc (alt_vec idx s a)) rest init) k
  = (vec_bit init k || existsb (tri_test (B (s * size + k))) rest)%bool.
Proof.
  intro Hs. induction rest as [|a rest IH]; intros init k Hk; cbn [fold_left existsb].
  - rewrite orb_false_r. reflexivity.
  - rewrite IH, vec_bit_or, alt_vec_bit by assumption. rewrite orb_assoc. reflexivity.
Qed.

Lemma clause_vec_bit s cl k : s < nsec -> k < size ->
  vec_bit (clause_vec idx s (N.to_nat size) cl) k = existsb (tri_test (B (s * size + k))) cl.
Proof.
  intros Hs Hk. destruct cl as [|a rest]; cbn [clause_vec].
  - apply vec_bit_repeat_false.
  - rewrite fold_or_bit, alt_vec_bit by assumption. reflexivity.
Qed.

Definition denote (acc : option (list bool)) (k : N) : bool :=
  match acc with Some v => vec_bit v k | None => false end.

Lemma sub_match_bit s acc cl k : s < nsec -> k < size ->
  denote (sub_match idx s (N.to_nat size) acc cl) k
  = (denote acc k && existsb (tri_test (B (s * size + k))) cl)%bool.
Proof.
  intros Hs Hk. destruct acc as [v|]; [|reflexivity]. cbn [sub_match denote].
  destruct (existsb (fun b => b) (and_vec (clause_vec idx s (N.to_nat size) cl) v)) eqn:E; cbn [denote].
  - rewrite vec_bit_and, clause_vec_bit by assumption. apply andb_comm.
  - pose proof (vec_bit_none _ E k) as Hz. rewrite vec_bit_and, clause_vec_bit in Hz by assumption.
    rewrite andb_comm. symmetry. exact Hz.
Qed.

Lemma section_fold_bit s filters : s < nsec -> forall acc k, k < size ->
  denote (fold_left (sub_match idx s (N.to_nat size)) filters acc) k
  = (denote acc k && bloom_match filters (B (s * size + k)))%bool.
Proof.
  intro Hs. induction filters as [|cl filters IH]; intros acc k Hk; cbn [fold_left bloom_match forallb].
  - rewrite andb_true_r. reflexivity.
  - rewrite IH, sub_match_bit by assumption. unfold bloom_match. rewrite andb_assoc. reflexivity.
Qed.

Lemma section_vec_bit s filters k : s < nsec -> k < size ->
  denote (section_vec idx s (N.to_nat size) filters) k = bloom_match filters (B (s * size + k)).
Proof.
  intros Hs Hk. unfold section_vec. rewrite section_fold_bit by assumption. cbn [denote].
  rewrite vec_bit_repeat_true. replace (k <? N.of_nat (N.to_nat size)) with true by lia. reflexivity.
Qed.

(* one section: the blocks of [b,e] that lie in the section and whose bloom matches *)
Lemma section_piece filters b e s : s < nsec ->
  match section_vec idx s (N.to_nat size) filters with
  | Some v => section_matches size b e s v
  | None => []
  end = filter (fun n => bloom_match filters (B n))
               (range_lt (N.max b (s * size)) (N.min (e + 1) (s * size + size))).
Proof.
  intro Hs.
  assert (Hr : N.min e (s * size + size - 1) + 1 = N.min (e + 1) (s * size + size)) by lia.
  assert (Hext : forall v, section_vec idx s (N.to_nat size) filters = v ->
            filter (fun i => denote v (i - s * size)) (range_lt (N.max b (s * size)) (N.min (e + 1) (s * size + size)))
            = filter (fun n => bloom_match filters (B n)) (range_lt (N.max b (s * size)) (N.min (e + 1) (s * size + size)))).
  { intros v Hv. apply filter_ext_in. intros i Hi. apply in_range_lt in Hi.
    rewrite <- Hv, section_vec_bit by lia. f_equal. f_equal. lia. }
  destruct (section_vec idx s (N.to_nat size) filters) as [v|] eqn:E.
  - unfold section_matches. rewrite Hr. apply (Hext (Some v) eq_refl).
  - rewrite <- (Hext None eq_refl). cbn [denote]. clear.
    induction (range_lt (N.max b (s * size)) (N.min (e + 1) (s * size + size))); [reflexivity|assumption].
Qed.

(* the ranges of consecutive sections tile [b, e] *)
Lemma tiles b e : forall n,
  flat_map (fun s => range_lt (N.max b (s * size)) (N.min (e + 1) (s * size + size))) (rangeN (b / size) n)
  = range_lt b (N.min (e + 1) (N.max b ((b / size + N.of_nat n) * size))).
Proof.
  assert (Hdiv : (b / size) * size <= b < (b / size) * size + size).
  { pose proof (N.div_mod b size ltac:(lia)) as Hd. pose proof (N.mod_lt b size ltac:(lia)). lia. }
  set (s0 := b / size) in *.
  induction n as [|n IH].
  - cbn [rangeN flat_map]. rewrite range_lt_empty; [reflexivity|]. lia.
  - assert (Hsnoc : rangeN s0 (S n) = rangeN s0 n ++ [s0 + N.of_nat n]).
    { rewrite !rangeN_seq, seq_S, map_app. reflexivity. }
    rewrite Hsnoc, flat_map_app, IH. cbn [flat_map]. rewrite app_nil_r.
    replace ((s0 + N.of_nat (S n)) * size) with ((s0 + N.of_nat n) * size + size) by lia.
    set (S := (s0 + N.of_nat n) * size).
    assert (HS : s0 * size <= S) by (unfold S; nia).
    assert (HS' : n <> 0%nat -> s0 * size + size <= S) by (intro; unfold S; nia).
    destruct n as [|n'].
    + replace S with (s0 * size) in * by (unfold S; lia).
      rewrite range_lt_empty by lia. cbn [app].
      replace (N.max b (s0 * size)) with b by lia.
      replace (N.max b (s0 * size + size)) with (s0 * size + size) by lia. reflexivity.
    + specialize (HS' ltac:(discriminate)).
      replace (N.max b S) with S by lia. replace (N.max b (S + size)) with (S + size) by lia.
      destruct (N.le_gt_cases (e + 1) S) as [Hle|Hgt].
      * rewrite (range_lt_empty S) by lia. rewrite app_nil_r. f_equal. lia.
      * replace (N.min (e + 1) S) with S by lia. apply range_lt_app; lia.
Qed.

Theorem matcher_is_bloomfilter_range : forall filters b e, e / size < nsec ->
  matcher_run idx size filters b e
  = filter (fun n => bloom_match filters (B n)) (range_lt b (e + 1)).
Proof.
  intros filters b e Hns. unfold matcher_run.
  rewrite (flat_map_ext_in _ (fun s => filter (fun n => bloom_match filters (B n))
               (range_lt (N.max b (s * size)) (N.min (e + 1) (s * size + size))))).
  2:{ intros s Hin. apply in_range_lt in Hin. apply section_piece. lia. }
  rewrite <- filter_flat_map. f_equal.
  change (range_lt (b / size) (e / size + 1)) with (rangeN (b / size) (N.to_nat (e / size + 1 - b / size))).
  rewrite tiles.
  destruct (N.le_gt_cases (e + 1) b) as [Hle|Hgt]; [rewrite !range_lt_empty by lia; reflexivity|].
  f_equal.
  assert (He : (e / size) * size <= e < (e / size) * size + size).
  { pose proof (N.div_mod e size ltac:(lia)) as Hd. pose proof (N.mod_lt e size ltac:(lia)). lia. }
  assert (Hmono : b / size <= e / size) by (apply N.div_le_mono; lia).
  replace (b / size + N.of_nat (N.to_nat (e / size + 1 - b / size))) with (e / size + 1) by lia.
  lia.
Qed.

End Matcher.

(* ------------------------------------------------------------------ *)
(* the index of a chain is sound                                        *)
(* ------------------------------------------------------------------ *)

Definition bloom_at (c : chain) (n : N) : N :=
  match nthN c n with Some blk => b_bloom blk | None => 0 end.

Lemma firstnN_firstn {A} fuel : forall (l : list A) k, (length l <= fuel)%nat ->
  firstnN l k fuel = firstn (N.to_nat k) l.
Proof.
  induction fuel as [|f IH]; intros l k Hl.
  - destruct l; [|cbn in Hl; lia]. destruct (N.to_nat k); reflexivity.
  - destruct l as [|x l]; cbn [firstnN]; [destruct (N.to_nat k); reflexivity|].
    destruct (N.eqb_spec k 0) as [->|Hk]; [reflexivity|].
    replace (N.to_nat k) with (S (N.to_nat (k - 1))) by lia. cbn [firstn]. f_equal.
    apply IH. cbn in Hl. lia.
Qed.

Lemma nth_error_firstn' {A} n : forall (l : list A) i, nth_error (firstn n l) i = if (i <? n)%nat then nth_error l i else None.
Proof.
  induction n as [|n IH]; intros l i.
  - cbn [firstn]. destruct i; reflexivity.
  - destruct l as [|x l]; [cbn [firstn]; destruct i; cbn [nth_error]; destruct (Nat.ltb _ (S n)); reflexivity|].
    destruct i as [|i]; [reflexivity|]. cbn [firstn nth_error]. rewrite IH.
    change (S i <? S n)%nat with (i <? n)%nat. reflexivity.
Qed.

Lemma nth_error_skipn' {A} a : forall (l : list A) i, nth_error (skipn a l) i = nth_error l (a + i).
Proof.
  induction a as [|a IH]; intros l i; [reflexivity|].
  destruct l as [|x l]; [destruct i; reflexivity|]. cbn [skipn Nat.add nth_error]. apply IH.
Qed.

Lemma vec_bit_nth_error v k : vec_bit v k = match nth_error v (N.to_nat k) with Some b => b | None => false end.
Proof. unfold vec_bit. rewrite nthN_nth_error. reflexivity. Qed.

Lemma index_of_chain_sound c size nsec : index_sound (index_of_chain c size) size nsec (bloom_at c).
Proof.
  intros bit s k _ Hk. unfold index_of_chain, section_blocks_of, bloom_at.
  rewrite vec_bit_nth_error, nthN_nth_error, nth_error_map, dropN_skipn.
  rewrite firstnN_firstn by (rewrite skipn_length; lia).
  rewrite nth_error_firstn', nth_error_skipn'.
  replace (N.to_nat k <? N.to_nat size)%nat with true by lia.
  replace (N.to_nat (s * size) + N.to_nat k)%nat with (N.to_nat (s * size + k)) by lia.
  destruct (nth_error c (N.to_nat (s * size + k))); reflexivity.
Qed.

(* ------------------------------------------------------------------ *)
(* 5. Filter.Logs = brute force                                         *)
(* ------------------------------------------------------------------ *)

Section Query.
Variable H : bytes -> bytes.
Variable addrs : list bytes.
Variable tops : list (list bytes).

Notation check := (check_matches addrs tops).

(* the matcher's predicate on the flattened criteria is bloomFilter *)
Lemma bloom_match_cons cl fs b : bloom_match (cl :: fs) b = (existsb (tri_test b) cl && bloom_match fs b)%bool.
Proof. reflexivity. Qed.

Lemma existsb_tri_lookup b l :
  existsb (tri_test b) (map (calc_bloom_indexes H) l) = existsb (bloom_lookup H b) l.
Proof.
  induction l as [|y l IHl]; [reflexivity|]. cbn [map existsb]. rewrite IHl, lookup_tri. reflexivity.
Qed.

Lemma bloom_match_clauses b cls :
  bloom_match (map (map (calc_bloom_indexes H)) (filter (fun c => match c with [] => false | _ => true end) cls)) b
  = forallb (fun sub => match sub with [] => true | _ => existsb (bloom_lookup H b) sub end) cls.
Proof.
  induction cls as [|cl cls IH]; [reflexivity|]. cbn [filter forallb].
  destruct cl as [|x cl]; [exact IH|].
  rewrite map_cons, bloom_match_cons.
  rewrite IH, existsb_tri_lookup. reflexivity.
Qed.

Lemma bloom_match_is_bloom_filter b :
  bloom_match (matcher_filters H addrs tops) b = bloom_filter H b addrs tops.
Proof.
  unfold matcher_filters, bloom_filter. rewrite bloom_match_clauses, forallb_app.
  destruct addrs; [reflexivity|]. cbn [forallb]. rewrite andb_true_r. reflexivity.
Qed.

(* the bloom layer is sound for a block: a bloom that does not pass has no matching log *)
Definition block_sound (blk : block) : Prop :=
  bloom_filter H (b_bloom blk) addrs tops = false -> check blk = [].

Lemma topics_match_lookup bloom : forall tps lt,
  (forall t, In t lt -> bloom_lookup H bloom t = true) ->
  topics_match tps lt = true ->
  forallb (fun sub => match sub with [] => true | _ => existsb (bloom_lookup H bloom) sub end) tps = true.
Proof.
  induction tps as [|alts tps IH]; intros lt Hl Hm; [reflexivity|].
  cbn [topics_match] in Hm. destruct lt as [|t lt]; [discriminate|].
  apply andb_true_iff in Hm. destruct Hm as [Ha Hr]. cbn [forallb]. apply andb_true_iff. split.
  - destruct alts as [|a alts]; [reflexivity|].
    apply existsb_exists in Ha. destruct Ha as [y [Hy Heq]].
    apply existsb_exists. exists y. split; [exact Hy|].
    destruct (bytes_eqb_spec t y) as [<-|]; [|discriminate]. apply Hl. left. reflexivity.
  - apply (IH lt); [|exact Hr]. intros t' Ht'. apply Hl. right. exact Ht'.
Qed.

(* a header bloom equal to CreateBloom of the block's receipts is sound *)
Lemma create_bloom_block_sound blk : b_bloom blk = create_bloom H (b_receipts blk) -> block_sound blk.
Proof.
  intros Hb Hbf. unfold check_matches, filter_logs.
  destruct (filter (log_matches addrs tops) (concat (b_receipts blk))) as [|l rest] eqn:E; [reflexivity|exfalso].
  assert (Hin : In l (filter (log_matches addrs tops) (concat (b_receipts blk)))) by (rewrite E; left; reflexivity).
  apply filter_In in Hin. destruct Hin as [Hin Hm]. apply in_concat in Hin. destruct Hin as [r [Hr Hl]].
  destruct (bloom_no_false_negative H (b_receipts blk) r l Hr Hl) as [Haddr Htop]. rewrite <- Hb in *.
  unfold log_matches in Hm. apply andb_true_iff in Hm. destruct Hm as [Hm Htm].
  apply andb_true_iff in Hm. destruct Hm as [Ha _].
  unfold bloom_filter in Hbf. apply andb_false_iff in Hbf. destruct Hbf as [Hbf|Hbf].
  - destruct addrs as [|a0 al]; [discriminate|].
    unfold includes in Ha. apply existsb_exists in Ha. destruct Ha as [y [Hy Heq]].
    destruct (bytes_eqb_spec (l_addr l) y) as [<-|]; [|discriminate].
    assert (Ht : existsb (bloom_lookup H (b_bloom blk)) (a0 :: al) = true)
      by (apply existsb_exists; exists (l_addr l); split; assumption).
    rewrite Ht in Hbf. discriminate.
  - rewrite (topics_match_lookup _ tops (l_topics l) Htop Htm) in Hbf. discriminate.
Qed.

Lemma scan_brute l : forall n e, (forall blk, In blk l -> block_sound blk) ->
  scan H addrs tops l n e = brute addrs tops l n e.
Proof.
  induction l as [|blk l IH]; intros n e Hs; [reflexivity|]. cbn [scan brute].
  destruct (n <=? e)%Z; [|reflexivity]. rewrite IH by (intros; apply Hs; right; assumption). f_equal.
  destruct (bloom_filter H (b_bloom blk) addrs tops) eqn:E; [reflexivity|].
  symmetry. apply (Hs blk (or_introl eq_refl) E).
Qed.

Lemma brute_firstn l : forall n e,
  brute addrs tops l n e = flat_map check (firstn (Z.to_nat (e + 1 - n)) l).
Proof.
  induction l as [|blk l IH]; intros n e; [destruct (Z.to_nat _); reflexivity|]. cbn [brute].
  destruct (Z.leb_spec n e) as [Hle|Hgt].
  - replace (Z.to_nat (e + 1 - n)) with (S (Z.to_nat (e + 1 - (n + 1)))) by lia.
    cbn [firstn flat_map]. rewrite IH. reflexivity.
  - replace (Z.to_nat (e + 1 - n)) with 0%nat by lia. reflexivity.
Qed.

Definition get_check (c : chain) (n : N) : list log :=
  match nthN c n with Some blk => check blk | None => [] end.

Lemma indexed_collect_ok c ms : forall fin, (forall n, In n ms -> n < lenN c) ->
  indexed_collect addrs tops c ms fin = (flat_map (get_check c) ms, fin).
Proof.
  induction ms as [|n ms IH]; intros fin Hlt; [reflexivity|]. cbn [indexed_collect flat_map].
  unfold get_check at 1. rewrite nthN_nth_error.
  destruct (nth_error c (N.to_nat n)) as [blk|] eqn:E.
  - rewrite IH by (intros; apply Hlt; right; assumption). reflexivity.
  - apply nth_error_None in E. specialize (Hlt n (or_introl eq_refl)). unfold lenN in Hlt. lia.
Qed.

Lemma skipn_nth_error {A} n : forall (l : list A) x, nth_error l n = Some x -> skipn n l = x :: skipn (S n) l.
Proof.
  induction n as [|n IH]; intros l x Hx; destruct l as [|y l]; try discriminate.
  - injection Hx as ->. reflexivity.
  - cbn [nth_error] in Hx. cbn [skipn]. rewrite (IH l x Hx). reflexivity.
Qed.

Lemma get_check_range c cnt : forall a, a + N.of_nat cnt <= lenN c ->
  flat_map (get_check c) (rangeN a cnt) = flat_map check (firstn cnt (skipn (N.to_nat a) c)).
Proof.
  induction cnt as [|cnt IH]; intros a Ha; [reflexivity|]. cbn [rangeN flat_map].
  unfold get_check at 1. rewrite nthN_nth_error.
  destruct (nth_error c (N.to_nat a)) as [blk|] eqn:E.
  - rewrite (skipn_nth_error _ _ _ E). cbn [firstn flat_map]. f_equal.
    rewrite IH by lia. replace (N.to_nat (a + 1)) with (S (N.to_nat a)) by lia. reflexivity.
  - apply nth_error_None in E. unfold lenN in Ha. lia.
Qed.

Lemma firstn_add {A} k1 : forall k2 (l : list A), firstn (k1 + k2) l = firstn k1 l ++ firstn k2 (skipn k1 l).
Proof.
  induction k1 as [|k1 IH]; intros k2 l; [reflexivity|].
  destruct l as [|x l]; [cbn; destruct k2; reflexivity|]. cbn [Nat.add firstn skipn app]. f_equal. apply IH.
Qed.

Lemma skipn_add {A} a : forall b (l : list A), skipn (a + b) l = skipn b (skipn a l).
Proof.
  induction a as [|a IH]; intros b l; [reflexivity|].
  destruct l as [|x l]; [destruct b; reflexivity|]. cbn [Nat.add skipn]. apply IH.
Qed.

Lemma in_skipn {A} n : forall (l : list A) x, In x (skipn n l) -> In x l.
Proof.
  intros l x Hin. rewrite <- (firstn_skipn n l). apply in_or_app. right. exact Hin.
Qed.

Lemma to_uint64_small z : (0 <= z < two64)%Z -> to_uint64 z = z.
Proof. intro Hz. unfold to_uint64. apply Z.mod_small. exact Hz. Qed.
Lemma to_int64_small z : (0 <= z < two63)%Z -> to_int64 z = z.
Proof.
  intro Hz. unfold to_int64. rewrite to_uint64_small by (unfold two63, two64 in *; lia).
  destruct (Z.ltb_spec z two63); [reflexivity|lia].
Qed.

Lemma unindexed_brute c b e : (0 <= b)%Z -> (forall blk, In blk c -> block_sound blk) ->
  unindexed H addrs tops c b e = brute addrs tops (dropN c (Z.to_N b)) b e.
Proof.
  intros Hb Hs. unfold unindexed. destruct (Z.ltb_spec b 0); [lia|].
  apply scan_brute. intros blk Hin. apply Hs. rewrite dropN_skipn in Hin. eapply in_skipn, Hin.
Qed.

(* the body of Filter.Logs once the int64/uint64 conversions are resolved *)
Lemma query_core : forall (c : chain) (idx : index) (size sections : N) (b1 eZ : Z),
  0 < size -> sections * size <= lenN c ->
  (0 <= b1 < two63)%Z -> (0 <= eZ < two63)%Z ->
  index_sound idx size sections (bloom_at c) ->
  (forall blk, In blk c -> block_sound blk) ->
  (let indexed := Z.of_N (sections * size) in
   let '(logs1, begin2) :=
     if (b1 <? indexed)%Z then
       let e := if (eZ <? indexed)%Z then eZ else (indexed - 1)%Z in
       indexed_collect addrs tops c
         (matcher_run idx size (matcher_filters H addrs tops) (Z.to_N b1) (Z.to_N e)) (e + 1)%Z
     else ([], b1) in
   logs1 ++ unindexed H addrs tops c begin2 eZ)
  = brute addrs tops (dropN c (Z.to_N b1)) b1 eZ.
Proof.
  intros c idx size sections b1 eZ Hsize Hind Hb1 HeZ Hidx Hsound. cbv zeta.
  set (indexed := Z.of_N (sections * size)).
  destruct (Z.ltb_spec b1 indexed) as [Hlt|Hge].
  2:{ cbn [app]. apply unindexed_brute; [lia|assumption]. }
  set (e := if (eZ <? indexed)%Z then eZ else (indexed - 1)%Z).
  assert (Hecases : (0 <= e < indexed)%Z /\ (e <= eZ)%Z /\ ((b1 <= e)%Z \/ e = eZ)).
  { unfold e. destruct (Z.ltb_spec eZ indexed); lia. }
  destruct Hecases as [He0 [Hele Hbe]]. clearbody e.
  assert (HeN : Z.to_N e < sections * size) by (unfold indexed in *; lia).
  rewrite (matcher_is_bloomfilter_range idx size sections (bloom_at c) Hidx Hsize).
  2:{ apply N.div_lt_upper_bound; lia. }
  rewrite indexed_collect_ok.
  2:{ intros n Hn. apply filter_In in Hn. destruct Hn as [Hn _]. apply in_range_lt in Hn. lia. }
  rewrite flat_map_filter.
  2:{ intros n _ Hp. rewrite bloom_match_is_bloom_filter in Hp. unfold get_check, bloom_at in *.
      destruct (nthN c n) as [blk|] eqn:E; [|reflexivity].
      apply Hsound; [|exact Hp]. rewrite nthN_nth_error in E. eapply nth_error_In, E. }
  rewrite unindexed_brute by (try lia; assumption).
  unfold range_lt. rewrite get_check_range by lia.
  rewrite !brute_firstn, !dropN_skipn, <- flat_map_app. f_equal.
  destruct (Z.le_gt_cases b1 (e + 1)) as [Hle|Hgt].
  - replace (Z.to_nat (eZ + 1 - b1)) with (N.to_nat (Z.to_N e + 1 - Z.to_N b1) + Z.to_nat (eZ + 1 - (e + 1)))%nat by lia.
    rewrite firstn_add. f_equal. f_equal.
    replace (N.to_nat (Z.to_N (e + 1))) with (N.to_nat (Z.to_N b1) + N.to_nat (Z.to_N e + 1 - Z.to_N b1))%nat by lia.
    apply skipn_add.
  - replace (N.to_nat (Z.to_N e + 1 - Z.to_N b1)) with 0%nat by lia.
    replace (Z.to_nat (eZ + 1 - (e + 1))) with 0%nat by lia.
    replace (Z.to_nat (eZ + 1 - b1)) with 0%nat by lia. reflexivity.
Qed.

Theorem logs_exact_general : forall (c : chain) (idx : index) (size sections : N) (begin end_ : Z),
  c <> [] -> 0 < size -> sections * size <= lenN c -> (Z.of_N (lenN c) < two63)%Z ->
  (-1 <= begin < two63)%Z -> (-1 <= end_ < two63)%Z ->
  index_sound idx size sections (bloom_at c) ->
  (forall blk, In blk c -> block_sound blk) ->
  filter_query H addrs tops c idx size sections begin end_ = brute_force addrs tops c begin end_.
Proof.
  intros c idx size sections begin end_ Hne Hsize Hind Hlen Hb He Hidx Hsound.
  unfold filter_query, brute_force.
  destruct c as [|blk0 c0] eqn:Ec; [contradiction|]. rewrite <- Ec in *.
  assert (Hlen1 : 1 <= lenN c) by (rewrite Ec, lenN_cons; lia). clear Ec Hne blk0 c0.
  set (head := Z.of_N (lenN c - 1)).
  assert (Hhead : (0 <= head < two63)%Z) by (unfold head; lia).
  assert (H64 : two64 = (2 * two63)%Z) by reflexivity.
  assert (H63 : (0 < two63)%Z) by reflexivity.
  set (b1 := if (begin =? -1)%Z then head else begin).
  assert (Hb1 : (0 <= b1 < two63)%Z) by (unfold b1; destruct (Z.eqb_spec begin (-1)); lia).
  set (eZ := if (end_ =? -1)%Z then head else end_).
  assert (HeZ : (0 <= eZ < two63)%Z) by (unfold eZ; destruct (Z.eqb_spec end_ (-1)); lia).
  replace (if (end_ =? -1)%Z then head else to_uint64 end_) with eZ.
  2:{ unfold eZ. destruct (Z.eqb_spec end_ (-1)); [reflexivity|]. rewrite to_uint64_small; lia. }
  clearbody b1 eZ.
  assert (Hprod : (Z.of_N sections * Z.of_N size)%Z = Z.of_N (sections * size)) by lia.
  rewrite Hprod, !(to_uint64_small b1), (to_uint64_small (Z.of_N (sections * size))), (to_int64_small eZ) by lia.
  rewrite <- (query_core c idx size sections b1 eZ Hsize Hind Hb1 HeZ Hidx Hsound). cbv zeta.
  destruct (Z.ltb_spec b1 (Z.of_N (sections * size))) as [Hlt|Hge]; [|reflexivity].
  rewrite to_int64_small; [reflexivity|].
  destruct (Z.ltb_spec eZ (Z.of_N (sections * size))); lia.
Qed.

(* with the chain's own index (any progress) and header blooms = CreateBloom(receipts) *)
Corollary logs_exact : forall (c : chain) (size sections : N) (begin end_ : Z),
  c <> [] -> 0 < size -> sections * size <= lenN c -> (Z.of_N (lenN c) < two63)%Z ->
  (-1 <= begin < two63)%Z -> (-1 <= end_ < two63)%Z ->
  (forall blk, In blk c -> b_bloom blk = create_bloom H (b_receipts blk)) ->
  filter_query H addrs tops c (index_of_chain c size) size sections begin end_
  = brute_force addrs tops c begin end_.
Proof.
  intros c size sections begin end_ Hne Hsize Hind Hlen Hb He Hbl.
  apply logs_exact_general; try assumption.
  - apply index_of_chain_sound.
  - intros blk Hin. apply create_bloom_block_sound, Hbl, Hin.
Qed.

End Query.

(* statement-level form of the matcher theorem, in terms of bloomFilter *)
Theorem matcher_is_bloomfilter :
  forall (H : bytes -> bytes) (addrs : list bytes) (tops : list (list bytes))
         (idx : index) (size nsec : N) (B : N -> N) (b e : N),
  0 < size -> e / size < nsec ->
  (forall bit s k, s < nsec -> k < size -> vec_bit (idx bit s) k = N.testbit (B (s * size + k)) bit) ->
  matcher_run idx size (matcher_filters H addrs tops) b e
  = filter (fun n => bloom_filter H (B n) addrs tops) (range_lt b (e + 1)).
Proof.
  intros H addrs tops idx size nsec B b e Hs He Hidx.
  rewrite (matcher_is_bloomfilter_range idx size nsec B Hidx Hs _ b e He).
  apply filter_ext. intro n. apply bloom_match_is_bloom_filter.
Qed.

(* ------------------------------------------------------------------ *)
(* 3. the generator transposes                                          *)
(* ------------------------------------------------------------------ *)

Lemma N_bits_length k : forall n, length (N_bits k n) = k.
Proof. induction k as [|k IH]; intro n; [reflexivity|]. cbn [N_bits length]. rewrite IH. reflexivity. Qed.

Lemma N_bits_nth k : forall n i, (i < k)%nat -> nth i (N_bits k n) false = N.testbit n (N.of_nat i).
Proof.
  induction k as [|k IH]; intros n i Hi; [lia|]. cbn [N_bits].
  destruct i as [|i]; cbn [nth].
  - symmetry. apply N.bit0_odd.
  - rewrite IH by lia. rewrite N.div2_spec, N.shiftr_spec by apply N.le_0_l.
    rewrite Nat2N.inj_succ, N.add_1_r. reflexivity.
Qed.

Lemma push_bits_length mask bits : forall rows, length (push_bits mask bits rows) = Nat.min (length bits) (length rows).
Proof.
  induction bits as [|b bits IH]; intro rows; [reflexivity|].
  destruct rows as [|r rows]; [reflexivity|]. cbn [push_bits length Nat.min]. rewrite IH. reflexivity.
Qed.

Lemma push_bits_nth mask bits : forall rows i, (i < length bits)%nat -> (i < length rows)%nat ->
  nth i (push_bits mask bits rows) 0 = if nth i bits false then N.lor (nth i rows 0) mask else nth i rows 0.
Proof.
  induction bits as [|b bits IH]; intros rows i Hb Hr; [cbn in Hb; lia|].
  destruct rows as [|r rows]; [cbn in Hr; lia|]. cbn [push_bits].
  destruct i as [|i]; [reflexivity|]. cbn [nth]. apply IH; cbn in Hb, Hr; lia.
Qed.

(* invariant: the generator has consumed `blooms` *)
Definition gen_inv (g : generator) (blooms : list N) : Prop :=
  length (g_rows g) = bloom_bit_length /\ g_next g = lenN blooms /\
  forall i k, (i < bloom_bit_length)%nat ->
    N.testbit (gen_row g i) k = if k <? lenN blooms then N.testbit (nth (N.to_nat k) blooms 0) (N.of_nat i) else false.

Lemma new_generator_inv size : size mod 8 = 0 ->
  exists g, new_generator size = GOk g /\ g_sections g = size /\ gen_inv g [].
Proof.
  intro Hm. unfold new_generator. rewrite Hm. cbn [N.eqb]. eexists. split; [reflexivity|]. split; [reflexivity|].
  unfold gen_inv, gen_row. cbn [g_rows g_next]. split; [apply repeat_length|]. split; [reflexivity|].
  intros i k Hi. rewrite nth_repeat, N.bits_0. change (lenN (@nil N)) with 0.
  destruct (N.ltb_spec k 0); [lia|reflexivity].
Qed.

Lemma add_bloom_inv g blooms b : gen_inv g blooms -> lenN blooms < g_sections g ->
  exists g', add_bloom g (g_next g) b = GOk g' /\ g_sections g' = g_sections g /\ gen_inv g' (blooms ++ [b]).
Proof.
  intros [Hlen [Hnext Hbits]] Hlt. unfold add_bloom.
  replace (g_sections g <=? g_next g) with false by lia. rewrite N.eqb_refl. cbn [negb].
  eexists. split; [reflexivity|]. split; [reflexivity|].
  unfold gen_inv, gen_row in *. cbn [g_rows g_next]. split.
  - rewrite push_bits_length, N_bits_length, Hlen. apply Nat.min_id.
  - split; [rewrite lenN_app, Hnext; cbn; lia|]. intros i k Hi.
    rewrite push_bits_nth by (rewrite ?N_bits_length; lia). rewrite N_bits_nth by assumption.
    rewrite lenN_app. change (lenN [b]) with 1.
    assert (Hm : N.testbit (N.shiftl 1 (g_next g)) k = (lenN blooms =? k)).
    { rewrite N.shiftl_1_l, N.pow2_bits_eqb, Hnext. reflexivity. }
    destruct (N.ltb_spec k (lenN blooms)) as [Hk|Hk].
    + replace (k <? lenN blooms + 1) with true by lia.
      rewrite app_nth1 by (unfold lenN in Hk; lia).
      destruct (N.testbit b (N.of_nat i)); [rewrite N.lor_spec, Hm|]; rewrite Hbits by assumption;
        replace (k <? lenN blooms) with true by lia; [replace (lenN blooms =? k) with false by lia; apply orb_false_r|reflexivity].
    + destruct (N.eqb_spec (lenN blooms) k) as [He|Hne].
      * replace (k <? lenN blooms + 1) with true by lia.
        assert (Hk' : N.to_nat k = length blooms) by (clear - He; unfold lenN in He; lia).
        rewrite Hk', nth_middle.
        destruct (N.testbit b (N.of_nat i)); [rewrite N.lor_spec, Hm|]; rewrite Hbits by assumption;
          replace (k <? lenN blooms) with false by lia; reflexivity.
      * replace (k <? lenN blooms + 1) with false by lia.
        destruct (N.testbit b (N.of_nat i)); [rewrite N.lor_spec, Hm|]; rewrite Hbits by assumption;
          replace (k <? lenN blooms) with false by lia; reflexivity.
Qed.

Lemma add_blooms_inv bs : forall g sofar, gen_inv g sofar -> lenN sofar + lenN bs <= g_sections g ->
  exists g', add_blooms g bs = GOk g' /\ g_sections g' = g_sections g /\ gen_inv g' (sofar ++ bs).
Proof.
  induction bs as [|b bs IH]; intros g sofar Hinv Hle.
  - exists g. rewrite app_nil_r. auto.
  - rewrite lenN_cons in Hle. cbn [add_blooms].
    destruct (add_bloom_inv g sofar b Hinv ltac:(lia)) as [g1 [E1 [Hs1 Hinv1]]]. rewrite E1.
    destruct (IH g1 (sofar ++ [b]) Hinv1) as [g2 [E2 [Hs2 Hinv2]]].
    + rewrite Hs1, lenN_app. change (lenN [b]) with 1. lia.
    + exists g2. rewrite <- app_assoc in Hinv2. cbn [app] in Hinv2. rewrite Hs2, Hs1. auto.
Qed.

(* NewGenerator(size); AddBloom(0, b0) ... AddBloom(size-1, b_{size-1}) succeeds and row i
   holds at position k bit i of bloom k (the transposition).  Bitset(idx) returns that row
   for idx < size (and < 2048) but is refused for idx >= size — the bound is `sections`. *)
Theorem generator_transposes : forall (size : N) (blooms : list N),
  size mod 8 = 0 -> lenN blooms = size ->
  exists g0 g, new_generator size = GOk g0 /\ add_blooms g0 blooms = GOk g /\
    (forall i k, (i < bloom_bit_length)%nat -> k < size ->
       N.testbit (gen_row g i) k = N.testbit (nth (N.to_nat k) blooms 0) (N.of_nat i)) /\
    (forall idx, idx < size -> idx < 2048 -> bitset g idx = GOk (gen_row g (N.to_nat idx))) /\
    (forall idx, size <= idx -> bitset g idx = GErr ErrSectionOutOfBounds).
Proof.
  intros size blooms Hm Hlen.
  destruct (new_generator_inv size Hm) as [g0 [E0 [Hs0 Hinv0]]].
  destruct (add_blooms_inv blooms g0 [] Hinv0) as [g [E [Hs Hinv]]]; [rewrite Hs0; cbn; lia|].
  cbn [app] in Hinv. destruct Hinv as [Hl [Hn Hbits]].
  exists g0, g. split; [exact E0|]. split; [exact E|]. split; [|split].
  - intros i k Hi Hk. rewrite Hbits by assumption. replace (k <? lenN blooms) with true by lia. reflexivity.
  - intros idx H1 H2. unfold bitset. rewrite Hn, Hs, Hs0, Hlen, N.eqb_refl. cbn [negb].
    replace (size <=? idx) with false by lia. replace (2048 <=? idx) with false by lia. reflexivity.
  - intros idx H1. unfold bitset. rewrite Hn, Hs, Hs0, Hlen, N.eqb_refl. cbn [negb].
    replace (size <=? idx) with true by lia. reflexivity.
Qed.

(* ------------------------------------------------------------------ *)
(* the section commit: Bitset's bound                                   *)
(* ------------------------------------------------------------------ *)

Lemma commit_rows_ok g : (forall idx, idx < 2048 -> bitset g idx = GOk (gen_row g (N.to_nat idx))) ->
  forall cnt i, i + N.of_nat cnt <= 2048 ->
  commit_rows g i cnt = GOk (map (fun j => gen_row g (N.to_nat j)) (rangeN i cnt)).
Proof.
  intros Hb cnt. induction cnt as [|cnt IH]; intros i Hi; [reflexivity|].
  cbn [commit_rows rangeN map]. rewrite Hb by lia. rewrite IH by lia. reflexivity.
Qed.

Lemma nth_map_rangeN {A} (f : N -> A) d cnt : forall a i, (i < cnt)%nat ->
  nth i (map f (rangeN a cnt)) d = f (a + N.of_nat i).
Proof.
  induction cnt as [|cnt IH]; intros a i Hi; [lia|]. cbn [rangeN map].
  destruct i as [|i]; cbn [nth]; [f_equal; lia|]. rewrite IH by lia. f_equal. lia.
Qed.

(* for section sizes >= 2048 (production: 4096) a section commits and stores the transposed blooms *)
Theorem process_section_ok_partial : forall (size : N) (blooms : list N),
  2048 <= size -> size mod 8 = 0 -> lenN blooms = size ->
  exists rows, process_section size blooms = GOk rows /\ length rows = bloom_bit_length /\
    forall i k, (i < bloom_bit_length)%nat -> k < size ->
      N.testbit (nth i rows 0) k = N.testbit (nth (N.to_nat k) blooms 0) (N.of_nat i).
Proof.
  intros size blooms Hbig Hm Hlen.
  destruct (generator_transposes size blooms Hm Hlen) as [g0 [g [E0 [E [Hbits [Hok _]]]]]].
  unfold process_section. rewrite E0, E.
  rewrite (commit_rows_ok g) by (try (intros; apply Hok); unfold bloom_bit_length; lia).
  eexists. split; [reflexivity|]. split.
  - rewrite map_length, rangeN_seq, map_length, seq_length. reflexivity.
  - intros i k Hi Hk. rewrite <- Hbits by assumption. f_equal.
    rewrite nth_map_rangeN by exact Hi. f_equal. lia.
Qed.

(* witnesses for the refuted clauses (sections = 8 < 2048) *)
Definition w_blooms : list N := repeat 0 8.
Definition w_chain : chain := repeat (mkBlock 0 []) 9.

Lemma bitset_every_row_refuted :
  exists (size : N) (blooms : list N) (g0 g : generator) (idx : N),
    size mod 8 = 0 /\ lenN blooms = size /\ new_generator size = GOk g0 /\ add_blooms g0 blooms = GOk g /\
    idx < 2048 /\ bitset g idx = GErr ErrSectionOutOfBounds.
Proof.
  destruct (generator_transposes 8 w_blooms eq_refl eq_refl) as [g0 [g [E0 [E [_ [_ Hoob]]]]]].
  exists 8, w_blooms, g0, g, 8. repeat split; try assumption. apply Hoob. lia.
Qed.

Lemma indexer_progress_refuted :
  exists (c : chain) (size confirms : N),
    size mod 8 = 0 /\ known_sections c size confirms = 1 /\ stored_sections c size confirms = 0.
Proof. exists w_chain, 8, 0. vm_compute. repeat split. Qed.

(* ------------------------------------------------------------------ *)
(* NewMatcher on raw clauses; what filters.New produces is the nil-free case *)
(* ------------------------------------------------------------------ *)

Lemma clause_bits_some H l : clause_bits H (map Some l) = Some (map (calc_bloom_indexes H) l).
Proof. induction l as [|x l IH]; [reflexivity|]. cbn [map clause_bits]. rewrite IH. reflexivity. Qed.

Theorem matcher_filters_is_new_matcher : forall (H : bytes -> bytes) (addrs : list bytes) (tops : list (list bytes)),
  matcher_filters H addrs tops
  = new_matcher_filters H (map (map Some) ((match addrs with [] => [] | _ => [addrs] end) ++ tops)).
Proof.
  intros H addrs tops. unfold matcher_filters, new_matcher_filters.
  generalize ((match addrs with [] => [] | _ => [addrs] end) ++ tops). intro cls.
  induction cls as [|cl cls IH]; [reflexivity|]. cbn [filter map flat_map].
  destruct cl as [|x cl]; [exact IH|].
  change (map Some (x :: cl)) with (Some x :: map Some cl).
  change (Some x :: map Some cl) with (map Some (x :: cl)) at 2.
  rewrite clause_bits_some. cbn [map app]. f_equal. exact IH.
Qed.

(* a clause with a nil alternative, and an empty clause, constrain nothing *)
Theorem new_matcher_nil_is_wildcard : forall (H : bytes -> bytes) (pre post : list (list (option bytes))) (a b : list (option bytes)),
  new_matcher_filters H (pre ++ (a ++ None :: b) :: post) = new_matcher_filters H (pre ++ post)
  /\ new_matcher_filters H (pre ++ [] :: post) = new_matcher_filters H (pre ++ post).
Proof.
  intros H pre post a b. unfold new_matcher_filters. rewrite !flat_map_app. cbn [flat_map]. split; [|reflexivity].
  f_equal. assert (Hn : clause_bits H (a ++ None :: b) = None).
  { induction a as [|[x|] a IH]; cbn [app clause_bits]; [reflexivity|rewrite IH; reflexivity|reflexivity]. }
  rewrite Hn. destruct (a ++ None :: b); reflexivity.
Qed.

(* ------------------------------------------------------------------ *)
(* constants regenerated from the source tree every run                 *)
(* ------------------------------------------------------------------ *)
From AQ Require Import Generated.GenParamsBloom.

(* the literals the model carries are the current constants of the code *)
Theorem params_match_bloom :
  g_bloom_bit_length = 2048 /\ N.of_nat bloom_bit_length = g_bloom_bit_length /\
  g_bloom_byte_length * 8 = g_bloom_bit_length /\ lenN (bloom_bytes 0) = g_bloom_byte_length /\
  g_bloom9_max_bit_observed < g_bloom_bit_length /\
  g_bloom_confirms = g_params_bloom_confirms /\
  g_new_generator_accepts_production_size = true.
Proof. vm_compute. repeat split; reflexivity. Qed.

(* at the production section size a section always commits and stores the transposed blooms
   (fails to check if BloomBitsBlocks is ever set below the bloom bit length or off a multiple of 8) *)
Theorem production_section_commits : forall blooms : list N,
  lenN blooms = g_bloom_bits_blocks ->
  exists rows, process_section g_bloom_bits_blocks blooms = GOk rows /\ length rows = bloom_bit_length /\
    forall i k, (i < bloom_bit_length)%nat -> k < g_bloom_bits_blocks ->
      N.testbit (nth i rows 0) k = N.testbit (nth (N.to_nat k) blooms 0) (N.of_nat i).
Proof.
  intros blooms Hlen. apply process_section_ok_partial; [vm_compute; discriminate|reflexivity|exact Hlen].
Qed.

(* ------------------------------------------------------------------ *)
(* toBlock = "pending" (-2) through aqua_getLogs                        *)
(* ------------------------------------------------------------------ *)
(* Filter.Logs turns f.end = -2 into end = 2^64-2: the indexed part runs to sections*size-1 and the
   unindexed loop `f.begin <= int64(end)` compares with -2 and never runs.  Witness: one block with
   one log, nothing indexed, no criteria. *)
Definition w_logchain : chain := [mkBlock 0 [[mkLog [] [] [] 7]]].

Lemma toblock_pending_refuted :
  exists (H : bytes -> bytes) (c : chain) (idx : index) (size sections : N),
    c <> [] /\ 0 < size /\ sections * size <= lenN c /\
    filter_query H [] [] c idx size sections 0 (-2) = [] /\
    brute_force [] [] c 0 (-1) <> [].
Proof.
  exists (fun _ => []), w_logchain, (fun _ _ => []), 8, 0.
  repeat split; try discriminate; reflexivity.
Qed.
