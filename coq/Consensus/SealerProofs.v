(* Consensus/SealerProofs.v — every interleaving of the search threads returns at most one seal, and it verifies. *)
From AQ Require Import Lib.Bytes Rlp.RlpSpec Generated.GenParamsConsensus Consensus.HeaderModel Consensus.Seal
  Consensus.SealProofs Consensus.SealerModel.
From Coq Require Import ZifyBool ZifyN ZifyNat.
Local Open Scope Z_scope.

Section SealerProofs.
  Variables keccak argonA argonB argonC : bytes -> bytes.
  Variable hashimoto : Z -> bytes -> Z -> option (bytes * bytes).
  Notation vseal := (verify_seal keccak argonA argonB argonC hashimoto).
  Notation powf := (pow keccak argonA argonB argonC hashimoto).
  Notation hnn := (hash_no_nonce keccak argonB).
  Notation step_ := (sealer_step keccak argonA argonB argonC hashimoto).
  Notation run_ := (sealer_run keccak argonA argonB argonC hashimoto).

  Variable v : Z.
  Variable h : sheader.
  Hypothesis Hver : s_version h = 3 <-> v = 3.               (* the work block carries version 3 iff its height's version is 3 *)
  Hypothesis Hrange : big_uint64 (s_number h) / 30000 < 2048.
  Hypothesis Hdiff : s_diff h > 0.

  (* a (nonce, digest) pair that the version's PoW function puts at or below the target seals the header validly *)
  Definition good (n : Z) (d : bytes) : Prop :=
    exists r, powf v (big_uint64 (s_number h)) (hnn h) n = SOk (d, r) /\ pow_value r <= euclid_div pow_numerator (s_diff h).

  Lemma good_verifies n d : good n d -> vseal (seal_with h n d v) = SOk tt /\ s_version (seal_with h n d v) = v.
  Proof.
    intros [r [Ep Hle]]. split; [|reflexivity].
    apply verify_seal_iff. cbn [seal_with s_number s_diff s_version s_mix s_nonce].
    split; [exact Hrange|]. split; [exact Hdiff|]. exists d, r. split; [|split; [reflexivity|]].
    - unfold expected_pow. cbn [seal_with s_number s_version s_nonce].
      assert (Eh : hash_no_nonce keccak argonB (seal_with h n d v) = hnn h).
      { unfold hash_no_nonce, rlp_no_nonce, fields_no_nonce, seal_with. cbn.
        destruct (v =? 3) eqn:E3, (s_version h =? 3) eqn:E3'; try reflexivity; lia. }
      rewrite Eh, Ep. reflexivity.
    - unfold euclid_div in Hle. destruct (s_diff h <? 0) eqn:En; [lia|].
      rewrite pow_numerator_is in Hle. exact Hle.
  Qed.

  Definition thread_ok (t : tstate) : Prop := match t with TOffer n d => good n d | _ => True end.

  Definition sinv (s : sealer) : Prop :=
    Forall thread_ok (sl_threads s) /\
    (forall h', sl_result s = Some h' -> exists n d, h' = seal_with h n d v /\ good n d) /\
    (sl_delivered s = match sl_result s with Some _ => 1 | None => 0 end)%nat /\
    (sl_result s <> None -> sl_abort s = true).

  Lemma set_thread_ok l : forall i t, Forall thread_ok l -> thread_ok t -> Forall thread_ok (set_thread l i t).
  Proof.
    induction l as [|x r IH]; intros i t Hl Ht; [constructor|]. inversion Hl; subst.
    destruct i as [|k]; cbn; constructor; auto.
  Qed.

  Lemma nth_thread_ok l i t : Forall thread_ok l -> nth_error l i = Some t -> thread_ok t.
  Proof. intros Hl Hn. rewrite Forall_forall in Hl. apply Hl. eapply nth_error_In. exact Hn. Qed.

  Lemma sinv_threads s l : sinv s -> Forall thread_ok l -> sinv (with_threads s l).
  Proof. intros [_ [Hr [Hd Ha]]] Hl. split; [exact Hl|]. split; [exact Hr|]. split; [exact Hd | exact Ha]. Qed.

  Lemma sinv_step s e s' : sinv s -> step_ v h s e = SOk s' -> sinv s'.
  Proof.
    intros Hinv Hs. pose proof Hinv as [Ht [Hr [Hd Ha]]]. unfold sealer_step in Hs. destruct e as [i|].
    2:{ inversion Hs; subst. split; [exact Ht|]. split; [exact Hr|]. split; [exact Hd | intros _; reflexivity]. }
    destruct (nth_error (sl_threads s) i) as [[n|n d|]|] eqn:En.
    - destruct (sl_abort s) eqn:Eab.
      { inversion Hs; subst. apply sinv_threads; [exact Hinv | apply set_thread_ok; [exact Ht | exact I]]. }
      destruct (powf v (big_uint64 (s_number h)) (hnn h) n) as [[d r]| x |] eqn:Ep; try discriminate.
      + destruct (pow_value r <=? euclid_div pow_numerator (s_diff h)) eqn:El; inversion Hs; subst;
          (apply sinv_threads; [exact Hinv | apply set_thread_ok; [exact Ht|]]).
        * exists r. split; [exact Ep | lia].
        * exact I.
      + inversion Hs; subst. apply sinv_threads; [exact Hinv | apply set_thread_ok; [exact Ht | exact I]].
    - pose proof (nth_thread_ok _ _ _ Ht En) as Hg. cbn in Hg.
      destruct (sl_abort s) eqn:Eab.
      { inversion Hs; subst. apply sinv_threads; [exact Hinv | apply set_thread_ok; [exact Ht | exact I]]. }
      assert (Hnone : sl_result s = None).
      { destruct (sl_result s) as [r0|] eqn:Er; [|reflexivity]. exfalso.
        assert (Hne : Some r0 <> None) by discriminate. specialize (Ha Hne). rewrite ?Eab in Ha. discriminate. }
      inversion Hs; subst. split; [|split; [|split]]; cbn.
      + apply set_thread_ok; [exact Ht | exact I].
      + intros h' Hh'. inversion Hh'; subst. exists n, d. split; [reflexivity | exact Hg].
      + rewrite Hd, Hnone. reflexivity.
      + intros _. reflexivity.
    - inversion Hs; subst. exact Hinv.
    - inversion Hs; subst. exact Hinv.
  Qed.

  Lemma sinv_run es : forall s s', sinv s -> run_ v h s es = SOk s' -> sinv s'.
  Proof.
    induction es as [|e t IH]; intros s s' Hi Hr; cbn in Hr.
    - inversion Hr; subst. exact Hi.
    - destruct (step_ v h s e) as [s1| x |] eqn:Es; try discriminate.
      eapply IH; [eapply sinv_step; eassumption | exact Hr].
  Qed.

  Lemma sinv_init starts s : sealer_init v h starts = SOk s -> sinv s.
  Proof.
    unfold sealer_init. destruct (s_diff h =? 0); [discriminate|]. intros H. inversion H; subst; clear H.
    repeat split; cbn; try discriminate; try reflexivity; try (intros; contradiction).
    destruct ((v =? 0) || (v >? known_version)); apply Forall_forall; intros t Ht; apply in_map_iff in Ht as [x [<- _]]; exact I.
  Qed.

  (* whatever any interleaving of any number of search threads (any start nonces, overlapping or not) and the caller's
     stop returns, it passes VerifySeal under the block's own version; and at most one value is ever received from
     `found` per Seal call — after which abort is closed *)
  Theorem sealer_result_verifies starts es s :
    seal_threads keccak argonA argonB argonC hashimoto v h starts es = SOk s ->
    (forall h', sl_result s = Some h' -> vseal h' = SOk tt /\ s_version h' = v) /\
    (sl_delivered s <= 1)%nat /\
    (sl_delivered s = 1%nat <-> sl_result s <> None) /\
    (sl_result s <> None -> sl_abort s = true).
  Proof.
    unfold seal_threads. destruct (sealer_init v h starts) as [s0| x |] eqn:Ei; try discriminate.
    intros Hr. pose proof (sinv_run es _ _ (sinv_init _ _ Ei) Hr) as [_ [Hres [Hd Ha]]].
    split; [|split; [|split]].
    - intros h' Hh'. destruct (Hres h' Hh') as [n [d [-> Hg]]]. apply good_verifies. exact Hg.
    - rewrite Hd. destruct (sl_result s); lia.
    - rewrite Hd. destruct (sl_result s); split; intros; try discriminate; try reflexivity; try lia. contradiction.
    - exact Ha.
  Qed.

  (* the result, once received, never changes *)
  Lemma result_stable s e s' h' : step_ v h s e = SOk s' -> sinv s -> sl_result s = Some h' -> sl_result s' = Some h'.
  Proof.
    intros Hs [_ [_ [_ Ha]]] Hr. assert (Hab : sl_abort s = true) by (apply Ha; rewrite Hr; discriminate).
    unfold sealer_step in Hs. destruct e as [i|]; [|inversion Hs; subst; exact Hr].
    destruct (nth_error (sl_threads s) i) as [[n|n d|]|]; rewrite ?Hab in Hs; inversion Hs; subst; exact Hr.
  Qed.
End SealerProofs.

(* non-vacuity: three threads with overlapping nonce streams; two find solutions; whichever is received first wins,
   the other is discarded; a stop before any solution returns nothing *)
Definition toy_pow_keccak (b : bytes) : bytes := zeros 32.
Definition toy_pow_argon (b : bytes) : bytes :=          (* result small iff the last byte of the seed (nonce high byte) .. *)
  match rev b with
  | _ :: _ :: _ :: _ :: _ :: _ :: _ :: lo :: _ => if N.eqb (N.modulo (b2n lo) 4) 3 then zeros 32 else repeat xff 32
  | _ => repeat xff 32
  end.
Definition toy_work : sheader :=
  {| s_parent := zeros 32; s_uncle := zeros 32; s_coinbase := zeros 20; s_root := zeros 32; s_txhash := zeros 32;
     s_rcpt := zeros 32; s_bloom := zeros 256; s_diff := 1000; s_number := 9; s_gas_limit := 5000; s_gas_used := 0;
     s_time := 1000; s_extra := []; s_mix := zeros 32; s_nonce := 0; s_version := 2 |}.

Lemma sealer_example :
  let run := seal_threads toy_pow_keccak toy_pow_argon toy_pow_argon toy_pow_argon (fun _ _ _ => None) 2 toy_work [0; 2; 5] in
  (* thread 1 reaches nonce 3 first and is received; thread 0 also finds nonce 3 later and is discarded *)
  match run [EStep 1; EStep 0; EStep 1; EStep 1; EStep 0; EStep 0; EStep 0; EStep 0; EStep 2] with
  | SOk s => option_map s_nonce (sl_result s) = Some 3 /\ sl_delivered s = 1%nat /\ sl_abort s = true /\
             sl_threads s = [TDone; TDone; TDone]
  | _ => False
  end /\
  match run [EStep 2; EStep 2; EStep 2; EStep 2] with
  | SOk s => option_map s_nonce (sl_result s) = Some 7 /\ sl_delivered s = 1%nat
  | _ => False
  end /\
  match run [EStep 0; EStop; EStep 0; EStep 1; EStep 2] with
  | SOk s => sl_result s = None /\ sl_delivered s = 0%nat /\ sl_threads s = [TDone; TDone; TDone]
  | _ => False
  end.
Proof. vm_compute. repeat split; reflexivity. Qed.
