(* Consensus/ChainModel.v — core/headerchain.go ValidateHeaderChain: the contiguity pre-check, the random sample of
   headers whose seal is verified (checkFreq), the batch verification and the in-order reading of its results
   (property C13, header-first import).  Definitions only. *)
From AQ Require Import Lib.Bytes Generated.GenParamsConsensus Consensus.HeaderModel.
Local Open Scope Z_scope.

Inductive vres :=
| VOk                              (* (0, nil) *)
| VNonContiguous                   (* (0, "non contiguous insert ...") *)
| VBlacklisted (idx : nat)         (* (i, ErrBlacklistedHash) *)
| VFail (idx : nat) (e : verr)     (* (i, err) *)
| VPanic.                          (* index out of range / division by zero / a worker goroutine panicked *)

(* `chain[i].Number.Uint64() != chain[i-1].Number.Uint64()+1 || chain[i].ParentHash != chain[i-1].Hash()` *)
Fixpoint contiguous_b (hs : list header) : bool :=
  match hs with
  | a :: t => match t with
              | b :: _ => (big_uint64 (h_number b) =? u64 (big_uint64 (h_number a) + 1)) &&
                          bytes_eqb (h_parent b) (h_hash a) && contiguous_b t
              | [] => true
              end
  | [] => true
  end.

Fixpoint set_true (l : list bool) (i : nat) : list bool :=
  match l, i with
  | [], _ => []
  | _ :: t, O => true :: t
  | x :: t, S k => x :: set_true t k
  end.

(* for i := 0; i < len(seals)/checkFreq; i++ { index := i*checkFreq + hc.rand.Intn(checkFreq); clip; seals[index] = true }
   rands is the stream of numbers the generator produces; Intn(n) is in [0,n): modelled as (nth i rands) mod n *)
Fixpoint pick_loop (cnt i len freq : nat) (rands : list nat) (seals : list bool) : list bool :=
  match cnt with
  | O => seals
  | S c =>
    let index := (i * freq + Nat.modulo (nth i rands O) freq)%nat in
    let index := if Nat.leb len index then (len - 1)%nat else index in
    pick_loop c (S i) len freq rands (set_true seals index)
  end.

(* None: a Go panic (integer division by zero for checkFreq = 0; seals[-1] for an empty chain) *)
Definition pick_seals (len freq : nat) (rands : list nat) : option (list bool) :=
  if Nat.eqb freq 0 then None
  else if Nat.eqb len 0 then None
  else Some (set_true (pick_loop (Nat.div len freq) 0 len freq rands (repeat false len)) (len - 1)).

(* the loop `for i, header := range chain { BadHashes; err := <-results }`; the results channel delivers, for every
   schedule, the workers' results in input order (C13_batch_delivers_in_order) *)
Fixpoint read_results (bad : bytes -> bool) (hs : list header) (rs : list (res unit)) (i : nat) : vres :=
  match hs, rs with
  | h :: ht, r :: rt =>
    if bad (h_hash h) then VBlacklisted i
    else match r with
         | Ok _ => read_results bad ht rt (S i)
         | Err e => VFail i e
         | Panic => VPanic
         end
  | _, _ => VOk
  end.

(* verification with a given seal sample (what the engine's VerifyHeaders receives) *)
Definition validate_with_seals (c : cfg) (chain : list header) (now : Z) (hs : list header) (seals : list bool)
           (bad : bytes -> bool) : vres :=
  if negb (contiguous_b hs) then VNonContiguous
  else read_results bad hs (map (verify_worker c chain now hs seals) (seq 0 (length hs))) 0.

(* headerchain.go ValidateHeaderChain *)
Definition validate_header_chain (c : cfg) (chain : list header) (now : Z) (hs : list header) (freq : nat)
           (rands : list nat) (bad : bytes -> bool) : vres :=
  if negb (contiguous_b hs) then VNonContiguous
  else match pick_seals (length hs) freq rands with
       | None => VPanic
       | Some seals => validate_with_seals c chain now hs seals bad
       end.
