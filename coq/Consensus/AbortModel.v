(* Consensus/AbortModel.v — the abort channel of VerifyHeaders (`case <-abort: return` in the collector) as a logical
   operation on top of the collector's transition system (property C13).  Definitions only. *)
From AQ Require Import Lib.Bytes Generated.GenParamsConsensus Consensus.HeaderModel.

Inductive aevent := AEv (e : event) | AAbort.

(* once abort is closed the collector goroutine returns: nothing is dispatched or delivered any more (workers that are
   still running finish on their own; their completions are not observed) *)
Fixpoint arun (v : nat -> res unit) (n : nat) (s : bstate) (aborted : bool) (es : list aevent) : option (bstate * bool) :=
  match es with
  | [] => Some (s, aborted)
  | AAbort :: t => arun v n s true t
  | AEv e :: t =>
    if aborted then arun v n s true t
    else match bstep v n s e with
         | Some s' => arun v n s' false t
         | None => None
         end
  end.

Definition abatch_results (c : cfg) (chain : list header) (now : Z) (hs : list header) (seals : list bool)
           (es : list aevent) : option (list (res unit) * bool) :=
  match arun (verify_worker c chain now hs seals) (length hs) b_init false es with
  | None => None
  | Some (s, ab) => Some (b_delivered s, ab)
  end.
