(* Consensus/SealerModel.v — sealer.go Seal with several search threads (property C14): N goroutines run `mine` from
   their own start nonces, share the `abort` channel and offer their first solution on the unbuffered `found` channel;
   the caller takes at most one.  Interleavings are arbitrary lists of events — no assumption on the scheduler.
   Definitions only. *)
From AQ Require Import Lib.Bytes Rlp.RlpSpec Generated.GenParamsConsensus Consensus.HeaderModel Consensus.Seal.
Local Open Scope Z_scope.

Inductive tstate :=
| TSearch (nonce : Z)                 (* in the loop, about to try `nonce` *)
| TOffer (nonce : Z) (digest : bytes) (* found a solution, blocked in `select { case found <- ...: case <-abort: }` *)
| TDone.                              (* returned *)

Record sealer := {
  sl_threads : list tstate;
  sl_abort : bool;                    (* close(abort) has happened *)
  sl_result : option sheader;         (* what Seal's `result = <-found` received *)
  sl_delivered : nat }.               (* number of values received from `found` *)

Inductive sevent :=
| EStep (i : nat)                     (* thread i performs its next step *)
| EStop.                              (* the caller's stop channel fires: close(abort) without a result *)

(* header.Nonce = EncodeNonce(nonce); header.MixDigest = digest; header.Version = version *)
Definition seal_with (h : sheader) (nonce : Z) (digest : bytes) (v : Z) : sheader :=
  {| s_parent := s_parent h; s_uncle := s_uncle h; s_coinbase := s_coinbase h; s_root := s_root h; s_txhash := s_txhash h;
     s_rcpt := s_rcpt h; s_bloom := s_bloom h; s_diff := s_diff h; s_number := s_number h; s_gas_limit := s_gas_limit h;
     s_gas_used := s_gas_used h; s_time := s_time h; s_extra := s_extra h; s_mix := digest; s_nonce := nonce; s_version := v |}.

Fixpoint set_thread (l : list tstate) (i : nat) (t : tstate) : list tstate :=
  match l, i with
  | [], _ => []
  | _ :: r, O => t :: r
  | x :: r, S k => x :: set_thread r k t
  end.

Section Sealer.
  Variables keccak argonA argonB argonC : bytes -> bytes.
  Variable hashimoto : Z -> bytes -> Z -> option (bytes * bytes).
  Notation powf := (pow keccak argonA argonB argonC hashimoto).

  (* Seal + the head of every mine goroutine: target := maxUint256 / difficulty (a division by zero panics in the goroutine);
     version 0 or above KnownVersion: every thread returns at once *)
  Definition sealer_init (v : Z) (h : sheader) (starts : list Z) : sres sealer :=
    if s_diff h =? 0 then SPanic
    else SOk {| sl_threads := if (v =? 0) || (v >? known_version) then map (fun _ => TDone) starts else map TSearch starts;
                sl_abort := false; sl_result := None; sl_delivered := 0 |}.

  Definition with_threads (s : sealer) (l : list tstate) : sealer :=
    {| sl_threads := l; sl_abort := sl_abort s; sl_result := sl_result s; sl_delivered := sl_delivered s |}.

  Definition sealer_step (v : Z) (h : sheader) (s : sealer) (e : sevent) : sres sealer :=
    let hash := hash_no_nonce keccak argonB h in   (* taken from the header as given, before header.Version = version *)
    let target := euclid_div pow_numerator (s_diff h) in
    let number := big_uint64 (s_number h) in
    match e with
    | EStop => SOk {| sl_threads := sl_threads s; sl_abort := true; sl_result := sl_result s; sl_delivered := sl_delivered s |}
    | EStep i =>
      match nth_error (sl_threads s) i with
      | None => SOk s
      | Some TDone => SOk s
      | Some (TSearch n) =>
        if sl_abort s then SOk (with_threads s (set_thread (sl_threads s) i TDone))
        else match powf v number hash n with
             | SPanic => SPanic
             | SErr _ => SOk (with_threads s (set_thread (sl_threads s) i TDone))
             | SOk (d, r) =>
               if pow_value r <=? target then SOk (with_threads s (set_thread (sl_threads s) i (TOffer n d)))
               else SOk (with_threads s (set_thread (sl_threads s) i (TSearch (u64 (n + 1)))))
             end
      | Some (TOffer n d) =>
        if sl_abort s then SOk (with_threads s (set_thread (sl_threads s) i TDone))   (* "nonce found but discarded" *)
        else SOk {| sl_threads := set_thread (sl_threads s) i TDone; sl_abort := true;   (* received, then close(abort) *)
                    sl_result := Some (seal_with h n d v); sl_delivered := S (sl_delivered s) |}
      end
    end.

  Fixpoint sealer_run (v : Z) (h : sheader) (s : sealer) (es : list sevent) : sres sealer :=
    match es with
    | [] => SOk s
    | e :: t => match sealer_step v h s e with
                | SOk s' => sealer_run v h s' t
                | SErr x => SErr x
                | SPanic => SPanic
                end
    end.

  Definition seal_threads (v : Z) (h : sheader) (starts : list Z) (es : list sevent) : sres sealer :=
    match sealer_init v h starts with
    | SOk s => sealer_run v h s es
    | SErr x => SErr x
    | SPanic => SPanic
    end.
End Sealer.
