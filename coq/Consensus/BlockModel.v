(* Consensus/BlockModel.v — core/types/block.go Block as an object with memoised values: the cached hash
   (Block.hash atomic.Value), the cached size (Block.size) and the operations that read, fill, keep or drop them
   (property C14: block hashes are computed with the version's algorithm over the block's own header).
   Definitions only.  Bodies (transactions, uncles) are their RLP encodings; header = Seal.sheader. *)
From AQ Require Import Lib.Bytes Rlp.RlpSpec Generated.GenParamsConsensus Consensus.HeaderModel Consensus.Seal.
Local Open Scope Z_scope.

Record mblock := {
  mb_header : sheader;
  mb_txs : bytes;              (* rlp of the transaction list *)
  mb_uncles : bytes;           (* rlp of the uncle list *)
  mb_hash : option bytes;      (* Block.hash: memoised Hash() *)
  mb_size : option N }.        (* Block.size: memoised Size() *)

(* NewBlock / NewBlockWithHeader (+ WithBody): CopyHeader of the argument, no memoised values *)
Definition new_block (h : sheader) (txs uncles : bytes) : mblock :=
  {| mb_header := h; mb_txs := txs; mb_uncles := uncles; mb_hash := None; mb_size := None |}.

(* EncodeRLP: extblock{Header, Txs, Uncles} *)
Definition block_rlp (b : mblock) : bytes := enc KLst (rlp_full (mb_header b) ++ mb_txs b ++ mb_uncles b).

Definition with_version (h : sheader) (v : Z) : sheader :=
  {| s_parent := s_parent h; s_uncle := s_uncle h; s_coinbase := s_coinbase h; s_root := s_root h; s_txhash := s_txhash h;
     s_rcpt := s_rcpt h; s_bloom := s_bloom h; s_diff := s_diff h; s_number := s_number h; s_gas_limit := s_gas_limit h;
     s_gas_used := s_gas_used h; s_time := s_time h; s_extra := s_extra h; s_mix := s_mix h; s_nonce := s_nonce h;
     s_version := v |}.

Inductive bop :=
| BHash                          (* b.Hash() *)
| BSize                          (* b.Size() *)
| BSetVersion (v : Z)            (* b.SetVersion(v): panics when the version is already v; stores the new hash *)
| BSetVersionConfig (v : Z)      (* b.SetVersionConfig(cfg) with v = cfg.GetBlockVersion(number): writes the version only *)
| BWithSeal (h : sheader)        (* b.WithSeal(h): a NEW block around a copy of h, same body, no memoised values *)
| BWithBody (txs uncles : bytes) (* b.WithBody(..): a NEW block, CopyHeader, no memoised values *)
| BHeader.                       (* b.Header(): a copy; the block is unchanged *)

Inductive bobs := ObsHash (x : bytes) | ObsSize (n : N) | ObsHeader (h : sheader) | ObsNone.

Section BlockModel.
  Variables keccak argonA argonB argonC : bytes -> bytes.
  Notation hh := (header_hash keccak argonA argonB argonC).

  Definition set_hash (b : mblock) (x : option bytes) : mblock :=
    {| mb_header := mb_header b; mb_txs := mb_txs b; mb_uncles := mb_uncles b; mb_hash := x; mb_size := mb_size b |}.

  (* one operation on the current block object: the block afterwards (the same object, possibly with a memoised value
     filled in, or the new object the operation returns) and what the caller sees *)
  Definition block_op (b : mblock) (o : bop) : sres (mblock * bobs) :=
    match o with
    | BHash =>
      match mb_hash b with
      | Some x => SOk (b, ObsHash x)
      | None => match hh (mb_header b) with
                | SOk x => SOk (set_hash b (Some x), ObsHash x)
                | SErr e => SErr e
                | SPanic => SPanic
                end
      end
    | BSize =>
      match mb_size b with
      | Some n => SOk (b, ObsSize n)
      | None => let n := lenN (block_rlp b) in
                SOk ({| mb_header := mb_header b; mb_txs := mb_txs b; mb_uncles := mb_uncles b; mb_hash := mb_hash b;
                        mb_size := Some n |}, ObsSize n)
      end
    | BSetVersion v =>
      if s_version (mb_header b) =? v then SPanic (* "already set version" *)
      else let h' := with_version (mb_header b) v in
           match hh h' with
           | SOk x => SOk ({| mb_header := h'; mb_txs := mb_txs b; mb_uncles := mb_uncles b; mb_hash := Some x;
                              mb_size := mb_size b |}, ObsHash x)
           | SErr e => SErr e
           | SPanic => SPanic
           end
    | BSetVersionConfig v =>
      SOk ({| mb_header := with_version (mb_header b) v; mb_txs := mb_txs b; mb_uncles := mb_uncles b;
              mb_hash := mb_hash b; mb_size := mb_size b |}, ObsNone)
    | BWithSeal h => SOk (new_block h (mb_txs b) (mb_uncles b), ObsNone)
    | BWithBody t u => SOk (new_block (mb_header b) t u, ObsNone)
    | BHeader => SOk (b, ObsHeader (mb_header b))
    end.

  Fixpoint block_run (b : mblock) (ops : list bop) : sres (mblock * list bobs) :=
    match ops with
    | [] => SOk (b, [])
    | o :: t =>
      match block_op b o with
      | SOk (b', ob) => match block_run b' t with
                        | SOk (b'', obs) => SOk (b'', ob :: obs)
                        | SErr e => SErr e
                        | SPanic => SPanic
                        end
      | SErr e => SErr e
      | SPanic => SPanic
      end
    end.

  (* SetVersionConfig leaves the memoised hash alone: harmless when nothing is memoised or the version does not change *)
  Definition op_safe (b : mblock) (o : bop) : bool :=
    match o with
    | BSetVersionConfig v => (v =? s_version (mb_header b)) || match mb_hash b with None => true | Some _ => false end
    | _ => true
    end.

  Fixpoint run_safe (b : mblock) (ops : list bop) : bool :=
    match ops with
    | [] => true
    | o :: t => op_safe b o && match block_op b o with SOk (b', _) => run_safe b' t | _ => true end
    end.
End BlockModel.
