(* Consensus/Seal.v — executable model of proof-of-work seal verification, header
   hashing by version and the nonce search (property C14).  Definitions only.
   The hash primitives are Section variables: theorems hold for arbitrary
   functions; the extracted functions take them as arguments (the driver passes
   Lib.Keccak.keccak256 and oracle tables recorded from the implementation). *)
From AQ Require Import Lib.Bytes Rlp.RlpSpec Generated.GenParamsConsensus Consensus.HeaderModel.
Local Open Scope Z_scope.

(* core/types/block.go Header: every field (the seal covers all of them) *)
Record sheader := {
  s_parent : bytes; s_uncle : bytes; s_coinbase : bytes; s_root : bytes; s_txhash : bytes;
  s_rcpt : bytes; s_bloom : bytes; s_diff : Z; s_number : Z; s_gas_limit : Z; s_gas_used : Z;
  s_time : Z; s_extra : bytes; s_mix : bytes; s_nonce : Z; s_version : Z }.

Inductive serr := SNonceRange | SInvalidDifficulty | SEthash | SMix | SPoW.
Inductive sres (A : Type) := SOk (a : A) | SErr (e : serr) | SPanic.
Arguments SOk {A} a. Arguments SErr {A} e. Arguments SPanic {A}.

(* rlp encoding of *big.Int / uint64: minimal big-endian string (non-negative values) *)
Definition int_item (z : Z) : item := Str (be_of_N (Z.to_N z)).

(* the 13 fields hashed by HashNoNonce *)
Definition fields_no_nonce (h : sheader) : list item :=
  [ Str (s_parent h); Str (s_uncle h); Str (s_coinbase h); Str (s_root h); Str (s_txhash h);
    Str (s_rcpt h); Str (s_bloom h); int_item (s_diff h); int_item (s_number h);
    int_item (s_gas_limit h); int_item (s_gas_used h); int_item (s_time h); Str (s_extra h) ].

Definition rlp_no_nonce (h : sheader) : bytes := encode (Lst (fields_no_nonce h)).
(* rlp of the whole header: Version is tagged rlp:"-"; BlockNonce is an 8-byte array *)
Definition rlp_full (h : sheader) : bytes :=
  encode (Lst (fields_no_nonce h ++ [Str (s_mix h); Str (be_fixed 8 (Z.to_N (s_nonce h)))])).

(* Go big.Int Div (Euclidean) for a non-negative numerator *)
Definition euclid_div (x y : Z) : Z := if y <? 0 then - (x / (- y)) else x / y.

Section Seal.
  Variables keccak argonA argonB argonC : bytes -> bytes.
  (* ethash: number -> seal-free hash -> nonce -> (mix digest, result); None = the engine has no
     cache for it ("invalid startVersion for use with ethash").  hashimotoLight (verification)
     and hashimotoFull (mining) are taken to be this one function. *)
  Variable hashimoto : Z -> bytes -> Z -> option (bytes * bytes).

  (* crypto/hash.go VersionHash *)
  Definition version_hash (v : Z) (data : bytes) : sres bytes :=
    if v =? 1 then SOk (keccak data)
    else if v =? 2 then SOk (argonA data)
    else if v =? 3 then SOk (argonB data)
    else if v =? 4 then SOk (argonC data)
    else SPanic (* panic("invalid block version") *).

  (* core/types/block.go HashNoNonce: argon2id-B for version 3 only, Keccak otherwise *)
  Definition hash_no_nonce (h : sheader) : bytes :=
    if s_version h =? 3 then argonB (rlp_no_nonce h) else keccak (rlp_no_nonce h).

  (* core/types/block.go Hash / rlpHash *)
  Definition header_hash (h : sheader) : sres bytes :=
    if s_version h =? 0 then SPanic (* "Hash algorithm not set" *)
    else if s_version h =? 1 then SOk (keccak (rlp_full h))
    else version_hash (s_version h) (rlp_full h).

  (* seed := HashNoNonce || little-endian nonce (40 bytes) *)
  Definition seal_seed (hash : bytes) (nonce : Z) : bytes := hash ++ le_fixed 8 (Z.to_N nonce).

  (* the (digest, result) pair both VerifySeal and mine compute for a version *)
  Definition pow (v : Z) (number : Z) (hash : bytes) (nonce : Z) : sres (bytes * bytes) :=
    if v =? 0 then SPanic (* panic("header version not set") *)
    else if v =? 1 then
      match hashimoto number hash nonce with
      | None => SErr SEthash
      | Some dr => SOk dr
      end
    else match version_hash v (seal_seed hash nonce) with
         | SOk r => SOk (zeros 32, r)
         | SErr e => SErr e
         | SPanic => SPanic
         end.

  Definition pow_value (result : bytes) : Z := Z.of_N (N_of_be result).

  (* consensus.go VerifySeal (PowMode normal/test, not shared) *)
  Definition verify_seal (h : sheader) : sres unit :=
    let number := big_uint64 (s_number h) in
    if number / epoch_length >=? max_epoch then SErr SNonceRange
    else if s_diff h <=? 0 then SErr SInvalidDifficulty
    else match pow (s_version h) number (hash_no_nonce h) (s_nonce h) with
    | SPanic => SPanic
    | SErr e => SErr e
    | SOk (digest, result) =>
      if negb (bytes_eqb (s_mix h) digest) then SErr SMix
      else if pow_value result >? pow_numerator / s_diff h then SErr SPoW
      else SOk tt
    end.

  (* sealer.go mine: the nonce loop (fuel bounds the search; None = aborted / not found) *)
  Fixpoint mine_loop (fuel : nat) (v number : Z) (hash : bytes) (target nonce : Z) : sres (option (Z * bytes)) :=
    match fuel with
    | O => SOk None
    | S f =>
      match pow v number hash nonce with
      | SPanic => SPanic
      | SErr e => SErr e
      | SOk (digest, result) =>
        if pow_value result <=? target then SOk (Some (nonce, digest))
        else mine_loop f v number hash target (u64 (nonce + 1))
      end
    end.

  (* sealer.go mine.  `h` is block.Header() as handed to Seal; `v` is
     chaincfg.GetBlockVersion(number).  Note the order in the code: the seal-free
     hash is computed from the header *before* header.Version is set to v. *)
  Definition mine (fuel : nat) (v : Z) (h : sheader) (seed : Z) : sres (option sheader) :=
    let hash := hash_no_nonce h in
    if s_diff h =? 0 then SPanic (* big.Int division by zero *)
    else
      let target := euclid_div pow_numerator (s_diff h) in
      let number := big_uint64 (s_number h) in
      if (v =? 0) || (v >? known_version) then SOk None
      else match mine_loop fuel v number hash target seed with
      | SPanic => SPanic
      | SErr e => SErr e
      | SOk None => SOk None
      | SOk (Some (nonce, digest)) =>
        SOk (Some {| s_parent := s_parent h; s_uncle := s_uncle h; s_coinbase := s_coinbase h;
                     s_root := s_root h; s_txhash := s_txhash h; s_rcpt := s_rcpt h; s_bloom := s_bloom h;
                     s_diff := s_diff h; s_number := s_number h; s_gas_limit := s_gas_limit h;
                     s_gas_used := s_gas_used h; s_time := s_time h; s_extra := s_extra h;
                     s_mix := digest; s_nonce := nonce; s_version := v |})
      end.
End Seal.
