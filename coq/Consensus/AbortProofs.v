(* Consensus/AbortProofs.v — results delivered before an abort are the results delivered without it (prefix property). *)
From AQ Require Import Lib.Bytes Generated.GenParamsConsensus Consensus.HeaderModel Consensus.HeaderSpec
  Consensus.HeaderProofs Consensus.BatchProofs Consensus.AbortModel.

Lemma arun_aborted v n s : forall es, arun v n s true es = Some (s, true).
Proof. induction es as [|[e|] t IH]; cbn; [reflexivity | exact IH | exact IH]. Qed.

(* the state an aborted run ends in is reachable by a run without abort: the events before the first abort *)
Lemma arun_reachable v n : forall es s s' ab,
  arun v n s false es = Some (s', ab) -> exists es', brun v n s es' = Some s'.
Proof.
  induction es as [|[e|] t IH]; intros s s' ab H; cbn in H.
  - inversion H; subst. exists []. reflexivity.
  - destruct (bstep v n s e) as [s1|] eqn:Es; [|discriminate].
    destruct (IH s1 s' ab H) as [es' Hes]. exists (e :: es'). cbn. rewrite Es. exact Hes.
  - rewrite arun_aborted in H. inversion H; subst. exists []. reflexivity.
Qed.

(* prefix property: whatever was delivered when the caller aborts (at any point of any schedule) is, in input order, what
   the workers compute for the first k headers — exactly the first k results an un-aborted run delivers; the abort never
   reorders, alters or invents a result *)
Theorem abort_prefix v n es s ab :
  arun v n b_init false es = Some (s, ab) ->
  exists k, b_delivered s = map v (seq 0 k) /\
            (b_finished s = true -> b_delivered s = map v (seq 0 n)).
Proof.
  intros H. destruct (arun_reachable v n es b_init s ab H) as [es' Hes].
  destruct (batch_delivers_in_order v n es' s Hes) as [[k Hk] Hf]. exists k. split; assumption.
Qed.

Lemma abort_example :
  let v := fun i : nat => if Nat.eqb i 2 then @Err unit EZeroTime else Ok tt in
  option_map (fun '(s, ab) => (b_delivered s, ab))
    (arun v 4 b_init false [AEv Dispatch; AEv Dispatch; AEv (Complete 1); AEv (Complete 0); AAbort; AEv Dispatch; AEv (Complete 2)])
  = Some ([Ok tt; Ok tt], true).
Proof. vm_compute. reflexivity. Qed.
