(* Consensus/BatchProofs.v — VerifyHeaders (batch) against one-by-one VerifyHeader, and progress of the
   result collector (property C13). *)
From AQ Require Import Lib.Bytes Generated.GenParamsConsensus Consensus.HeaderModel Consensus.HeaderSpec Consensus.HeaderProofs.
From Coq Require Import ZifyBool ZifyN ZifyNat.
Local Open Scope Z_scope.

(* ---------------------------------------------------------------- contiguous batches *)

(* what core/headerchain.go ValidateHeaderChain checks before it calls VerifyHeaders *)
Fixpoint contiguous (hs : list header) : Prop :=
  match hs with
  | a :: t => match t with
              | b :: _ => h_parent b = h_hash a /\ h_number b = h_number a + 1 /\ contiguous t
              | [] => True
              end
  | [] => True
  end.

Lemma contiguous_tail a t : contiguous (a :: t) -> contiguous t.
Proof. destruct t as [|b t]; cbn; [trivial | intros [_ [_ H]]; exact H]. Qed.

Lemma contiguous_app_inv l : forall a b t,
  contiguous (l ++ a :: b :: t) -> h_parent b = h_hash a /\ h_number b = h_number a + 1.
Proof.
  induction l as [|x l IH]; intros a b t H.
  - cbn in H. destruct H as [H1 [H2 _]]. split; assumption.
  - apply (IH a b t). rewrite <- app_comm_cons in H. eapply contiguous_tail. exact H.
Qed.

Lemma contiguous_offset t : forall a i b,
  contiguous (a :: t) -> nth_error (a :: t) i = Some b -> h_number b = h_number a + Z.of_nat i.
Proof.
  induction t as [|c t IH]; intros a i b Hc Hn.
  - destruct i as [|i]; cbn in Hn; [inversion Hn; lia | destruct i; discriminate].
  - destruct i as [|i]; cbn in Hn; [inversion Hn; lia|].
    destruct Hc as [_ [Hnum Hc]]. specialize (IH c i b Hc Hn). lia.
Qed.

(* hypotheses on (chain, batch): contiguous, numbers are uint64 and the first is at least 1,
   and none of the headers is already known to the chain *)
Record batch_ok (chain hs : list header) : Prop := {
  bo_contig : contiguous hs;
  bo_range : forall h, In h hs -> 1 <= h_number h < two64;
  bo_unknown : forall h, In h hs -> get_header chain (h_hash h) (h_number h) = None }.

Lemma big_uint64_id z : 0 <= z < two64 -> big_uint64 z = z.
Proof. intros H. unfold big_uint64. rewrite Z.abs_eq by lia. apply Z.mod_small. exact H. Qed.

Lemma get_header_skip l : forall chain hash n,
  (forall x, In x l -> big_uint64 (h_number x) <> n) ->
  get_header (l ++ chain) hash n = get_header chain hash n.
Proof.
  induction l as [|x l IH]; intros chain hash n H; [reflexivity|].
  cbn [app get_header].
  assert (E : (big_uint64 (h_number x) =? n) = false) by (specialize (H x (or_introl eq_refl)); lia).
  rewrite E, andb_false_r. apply IH. intros y Hy. apply H. right. exact Hy.
Qed.

Lemma get_header_head a l : get_header (a :: l) (h_hash a) (big_uint64 (h_number a)) = Some a.
Proof. cbn. rewrite bytes_eqb_refl, Z.eqb_refl. reflexivity. Qed.

(* verify_header reads the chain only through the grandparent fallback of CalcDifficulty *)
Lemma verify_header_chain_ext c chain chain' now h p gp uncle seal :
  (gp = None -> h_number p <> 0 ->
   get_header chain (h_parent p) (u64 (big_uint64 (h_number p) - 1)) =
   get_header chain' (h_parent p) (u64 (big_uint64 (h_number p) - 1))) ->
  verify_header c chain now h (Some p) gp uncle seal = verify_header c chain' now h (Some p) gp uncle seal.
Proof.
  intros H. unfold verify_header, engine_calc_difficulty.
  destruct gp as [g|]; [reflexivity|].
  destruct (h_number p =? 0) eqn:E0; [reflexivity|].
  rewrite (H eq_refl) by lia. reflexivity.
Qed.

(* positions in  rev rpre ++ h :: rest *)
Lemma nth_error_mid {A} (rpre : list A) h rest : nth_error (rev rpre ++ h :: rest) (length rpre) = Some h.
Proof. rewrite nth_error_app2 by (rewrite rev_length; lia). rewrite rev_length, Nat.sub_diag. reflexivity. Qed.

Lemma nth_error_mid1 {A} (r : list A) h1 h rest :
  nth_error (rev (h1 :: r) ++ h :: rest) (length r) = Some h1.
Proof.
  cbn [rev]. rewrite <- app_assoc. cbn [app].
  rewrite nth_error_app2 by (rewrite rev_length; lia). rewrite rev_length, Nat.sub_diag. reflexivity.
Qed.

Lemma nth_error_mid2 {A} (r : list A) h2 h1 h rest :
  nth_error (rev (h1 :: h2 :: r) ++ h :: rest) (length r) = Some h2.
Proof.
  cbn [rev]. rewrite <- !app_assoc. cbn [app].
  rewrite nth_error_app2 by (rewrite rev_length; lia). rewrite rev_length, Nat.sub_diag. reflexivity.
Qed.

Lemma get_header_some chain : forall hash n p,
  get_header chain hash n = Some p -> h_hash p = hash /\ big_uint64 (h_number p) = n.
Proof.
  induction chain as [|x l IH]; intros hash n p H; cbn in H; [discriminate|].
  destruct (bytes_eqb_spec (h_hash x) hash) as [E|E]; cbn in H.
  - destruct (big_uint64 (h_number x) =? n) eqn:En.
    + inversion H; subst. split; [reflexivity | lia].
    + apply IH. exact H.
  - apply IH. exact H.
Qed.

(* numbers of the headers before position |rpre| are smaller than the number at that position *)
Lemma before_lt rpre h rest x :
  contiguous (rev rpre ++ h :: rest) -> In x rpre -> h_number x < h_number h.
Proof.
  intros Hc Hx. apply in_rev in Hx. apply In_nth_error in Hx as [j Hj].
  assert (Hjl : (j < length (rev rpre))%nat) by (apply nth_error_Some; rewrite Hj; discriminate).
  assert (Hxj : nth_error (rev rpre ++ h :: rest) j = Some x) by (rewrite nth_error_app1 by exact Hjl; exact Hj).
  pose proof (nth_error_mid rpre h rest) as Hk.
  destruct (rev rpre ++ h :: rest) as [|a t] eqn:E; [destruct j; discriminate|].
  pose proof (contiguous_offset t a j x Hc Hxj) as H1.
  pose proof (contiguous_offset t a (length rpre) h Hc Hk) as H2.
  rewrite rev_length in Hjl. lia.
Qed.

Lemma u64_id z : 0 <= z < two64 -> u64 z = z.
Proof. intros H. unfold u64. apply Z.mod_small. exact H. Qed.

(* the per-index worker computes what VerifyHeader computes once the preceding headers are in the chain *)
Lemma worker_eq_top c chain now rpre h rest seals :
  batch_ok chain (rev rpre ++ h :: rest) ->
  verify_worker c chain now (rev rpre ++ h :: rest) seals (length rpre) =
  verify_header_top c (rpre ++ chain) now h (nth (length rpre) seals false).
Proof.
  intros [Hc Hr Hu].
  pose (hs := rev rpre ++ h :: rest).
  assert (Hin : In h hs) by (unfold hs; apply in_or_app; right; left; reflexivity).
  pose proof (Hr h Hin) as Hrh. pose proof (Hu h Hin) as Huh.
  assert (Hlt : forall x, In x rpre -> h_number x < h_number h /\ 1 <= h_number x < two64).
  { intros x Hx. split; [eapply before_lt; eassumption|].
    apply Hr. unfold hs. apply in_or_app. left. apply in_rev. rewrite rev_involutive. exact Hx. }
  assert (Hknown : get_header (rpre ++ chain) (h_hash h) (big_uint64 (h_number h)) = None).
  { rewrite (big_uint64_id (h_number h)) by lia. rewrite get_header_skip; [exact Huh|].
    intros x Hx. destruct (Hlt x Hx) as [H1 H2]. rewrite big_uint64_id by lia. lia. }
  unfold verify_header_top. rewrite Hknown. unfold verify_worker.
  rewrite (nth_error_mid rpre h rest).
  destruct rpre as [|h1 [|h2 r]].
  - (* index 0 *)
    cbn [rev app length nth_error]. cbn [app] in *.
    rewrite (big_uint64_id (h_number h)) in * by lia.
    destruct (get_header chain (h_parent h) (u64 (h_number h - 1))) as [p|] eqn:Ep.
    + apply get_header_some in Ep as Hp. destruct Hp as [_ Hpn].
      rewrite u64_id in Hpn by lia.
      destruct (h_number h >? 2) eqn:E2.
      * destruct (get_header chain (h_parent p) (u64 (h_number h - 2))) as [g|] eqn:Eg.
        -- rewrite Huh. reflexivity.
        -- rewrite Hpn. destruct (h_number h - 1 >? 1) eqn:E1; [reflexivity | lia].
      * rewrite Hpn. destruct (h_number h - 1 >? 1) eqn:E1; [lia|]. rewrite Huh. reflexivity.
    + destruct (h_number h =? 0) eqn:E0; [lia | reflexivity].
  - (* index 1 *)
    cbn [rev app length nth_error]. cbn [app] in *.
    pose proof (contiguous_app_inv [] h1 h rest Hc) as [Hpar Hnum].
    destruct (Hlt h1 (or_introl eq_refl)) as [_ Hr1].
    rewrite (big_uint64_id (h_number h)) in * by lia.
    rewrite (big_uint64_id (h_number h1)) in * by lia.
    assert (Ehead : get_header (h1 :: chain) (h_parent h) (u64 (h_number h - 1)) = Some h1).
    { rewrite Hpar, u64_id by lia. replace (h_number h - 1) with (big_uint64 (h_number h1)) by (rewrite big_uint64_id; lia).
      apply get_header_head. }
    rewrite Ehead.
    assert (Eskip : forall n, n <> h_number h1 -> get_header (h1 :: chain) (h_parent h1) n = get_header chain (h_parent h1) n).
    { intros n Hn. apply (get_header_skip [h1]). intros x [<-|[]]. rewrite big_uint64_id by lia. lia. }
    replace (h_number h >? 2) with (h_number h1 >? 1) by lia.
    destruct (h_number h1 >? 1) eqn:E1.
    + rewrite Eskip by (rewrite u64_id; lia).
      replace (u64 (h_number h - 2)) with (u64 (h_number h1 - 1)) by (f_equal; lia).
      destruct (get_header chain (h_parent h1) (u64 (h_number h1 - 1))) as [g|] eqn:Eg.
      * rewrite Huh. apply verify_header_chain_ext. intros E; discriminate.
      * reflexivity.
    + rewrite ?big_uint64_id by lia. rewrite ?E1. rewrite Huh.
      apply verify_header_chain_ext. intros _ _. rewrite ?big_uint64_id by lia.
      symmetry. apply Eskip. rewrite u64_id by lia. lia.
  - (* index >= 2 *)
    pose proof (nth_error_mid1 (h2 :: r) h1 h rest) as N1. pose proof (nth_error_mid2 r h2 h1 h rest) as N2.
    cbn [length] in *. cbv beta iota. rewrite N1, N2.
    assert (Hc' : contiguous (rev r ++ h2 :: h1 :: h :: rest)).
    { unfold hs in Hc. cbn [rev] in Hc. rewrite <- !app_assoc in Hc. exact Hc. }
    pose proof (contiguous_app_inv (rev r) h2 h1 (h :: rest) Hc') as [Hpar1 Hnum1].
    assert (Hc'' : contiguous ((rev r ++ [h2]) ++ h1 :: h :: rest)) by (rewrite <- app_assoc; exact Hc').
    pose proof (contiguous_app_inv (rev r ++ [h2]) h1 h rest Hc'') as [Hpar Hnum].
    destruct (Hlt h1 (or_introl eq_refl)) as [_ Hr1].
    destruct (Hlt h2 (or_intror (or_introl eq_refl))) as [_ Hr2].
    rewrite Hpar, bytes_eqb_refl.
    destruct (nth_error (rev (h1 :: h2 :: r) ++ h :: rest) 0) as [h0|] eqn:E0.
    2:{ apply nth_error_None in E0. rewrite app_length in E0. cbn in E0. lia. }
    rewrite (big_uint64_id (h_number h)) in * by lia.
    rewrite Huh.
    assert (Ehead : get_header ((h1 :: h2 :: r) ++ chain) (h_hash h1) (u64 (h_number h - 1)) = Some h1).
    { rewrite u64_id by lia. replace (h_number h - 1) with (big_uint64 (h_number h1)) by (rewrite big_uint64_id; lia).
      cbn [app]. apply get_header_head. }
    rewrite Ehead.
    destruct (h_number h >? 2) eqn:E2; [|lia].
    assert (Egp : get_header ((h1 :: h2 :: r) ++ chain) (h_parent h1) (u64 (h_number h - 2)) = Some h2).
    { cbn [app]. rewrite u64_id by lia.
      rewrite (get_header_skip [h1] (h2 :: r ++ chain)).
      - rewrite Hpar1. replace (h_number h - 2) with (big_uint64 (h_number h2)) by (rewrite big_uint64_id; lia).
        apply get_header_head.
      - intros x [<-|[]]. rewrite big_uint64_id by lia. lia. }
    rewrite Egp. apply verify_header_chain_ext. intros E; discriminate.
Qed.

Lemma hd_skipn {A} (d : A) : forall k l, hd d (skipn k l) = nth k l d.
Proof. induction k as [|k IH]; intros [|x l]; cbn; try reflexivity. apply IH. Qed.

Lemma tl_skipn {A} : forall k (l : list A), tl (skipn k l) = skipn (S k) l.
Proof.
  induction k as [|k IH]; intros l.
  - destruct l; reflexivity.
  - destruct l as [|x l]; [reflexivity|]. cbn [skipn]. apply IH.
Qed.

Lemma batch_seq_gen c chain now seals : forall rest rpre,
  batch_ok chain (rev rpre ++ rest) ->
  first_failure (map (verify_worker c chain now (rev rpre ++ rest) seals) (seq (length rpre) (length rest))) (length rpre)
  = sequential c (rpre ++ chain) now rest (skipn (length rpre) seals) (length rpre).
Proof.
  induction rest as [|h rest IH]; intros rpre Hok; [reflexivity|].
  cbn [length seq map first_failure sequential].
  rewrite (worker_eq_top c chain now rpre h rest seals Hok), hd_skipn, tl_skipn.
  assert (E : rev rpre ++ h :: rest = rev (h :: rpre) ++ rest) by (cbn [rev]; rewrite <- app_assoc; reflexivity).
  destruct (verify_header_top c (rpre ++ chain) now h (nth (length rpre) seals false)) as [[]| e |]; try reflexivity.
  rewrite E in *. apply (IH (h :: rpre)). exact Hok.
Qed.

(* contiguous batch of unknown headers: the per-index results have the same first failure (index and error)
   as verifying the headers one by one, inserting each accepted header before checking the next *)
Theorem workers_equal_sequential c chain now hs seals :
  batch_ok chain hs ->
  first_failure (map (verify_worker c chain now hs seals) (seq 0 (length hs))) 0 = sequential c chain now hs seals 0.
Proof. intros H. exact (batch_seq_gen c chain now seals hs [] H). Qed.

(* ... hence, for EVERY schedule of the collector that runs to completion, the caller of VerifyHeaders reads the
   same first failure as one-by-one verification *)
Theorem batch_equals_sequential c chain now hs seals sched s :
  batch_ok chain hs ->
  brun (verify_worker c chain now hs seals) (length hs) b_init sched = Some s ->
  b_finished s = true ->
  first_failure (b_delivered s) 0 = sequential c chain now hs seals 0.
Proof.
  intros Hok Hr Hf.
  destruct (batch_delivers_in_order _ _ _ _ Hr) as [_ Hd]. rewrite (Hd Hf).
  apply workers_equal_sequential. exact Hok.
Qed.

(* ---------------------------------------------------------------- progress of the collector *)

Section Progress.
  Variable v : nat -> res unit.
  Variable n : nat.
  Hypothesis n_pos : (0 < n)%nat.   (* VerifyHeaders returns at once on an empty batch *)

  (* every dispatched index is in flight or done; while the collector has not returned, errors[out] is not yet there *)
  Definition pinv (s : bstate) : Prop :=
    (forall i, (i < b_in s)%nat -> mem_nat i (b_running s) = true \/ lookup_nat i (b_done s) <> None) /\
    (b_finished s = false -> (b_out s < n)%nat /\ lookup_nat (b_out s) (b_done s) = None).

  Lemma flush_done_progress done : forall fuel out del,
    (out < n)%nat -> (n - out <= fuel)%nat ->
    let '(out', _, fin) := flush_done fuel n done out del in
    (out' < n)%nat /\ (fin = false -> lookup_nat out' done = None).
  Proof.
    induction fuel as [|f IH]; intros out del Ho Hf; [lia|].
    cbn [flush_done]. destruct (lookup_nat out done) as [r|] eqn:El.
    - destruct (Nat.eqb out (n - 1)) eqn:Eo.
      + split; [exact Ho | discriminate].
      + apply Nat.eqb_neq in Eo. apply IH; lia.
    - split; [exact Ho | intros _; exact El].
  Qed.

  Lemma mem_remove_other i j l : i <> j -> mem_nat j l = true -> mem_nat j (remove_nat i l) = true.
  Proof.
    intros Hne. induction l as [|k t IH]; cbn; [discriminate|].
    destruct (Nat.eqb k i) eqn:Eki.
    - apply Nat.eqb_eq in Eki. subst k. destruct (Nat.eqb i j) eqn:Eij; [apply Nat.eqb_eq in Eij; contradiction|].
      cbn. trivial.
    - cbn. destruct (Nat.eqb k j); [reflexivity|]. cbn. exact IH.
  Qed.

  Lemma pinv_init : pinv b_init.
  Proof. unfold pinv, b_init; cbn. split; [intros i Hi; lia | intros _; split; [exact n_pos | reflexivity]]. Qed.

  Lemma pinv_step s e s' : pinv s -> bstep v n s e = Some s' -> pinv s'.
  Proof.
    intros [H3 H6] Hs. unfold bstep in Hs.
    destruct (b_finished s) eqn:Ef; [discriminate|]. specialize (H6 eq_refl) as [Hout Hnone].
    destruct e as [|i].
    - destruct (Nat.ltb (b_in s) n); [|discriminate]. inversion Hs; subst; clear Hs. unfold pinv; cbn. split.
      + intros j Hj. destruct (Nat.eqb (b_in s) j) eqn:Ej; [left; reflexivity|].
        apply Nat.eqb_neq in Ej. cbn. apply H3. lia.
      + intros _. split; assumption.
    - destruct (mem_nat i (b_running s)) eqn:Em; [|discriminate].
      pose proof (flush_done_progress ((i, v i) :: b_done s) (S n) (b_out s) (b_delivered s) Hout ltac:(lia)) as Hf.
      destruct (flush_done (S n) n ((i, v i) :: b_done s) (b_out s) (b_delivered s)) as [[out del] fin].
      inversion Hs; subst; clear Hs. unfold pinv; cbn. split.
      + intros j Hj. destruct (Nat.eq_dec i j) as [->|Hne].
        * right. rewrite Nat.eqb_refl. discriminate.
        * destruct (H3 j Hj) as [Hr|Hd].
          -- left. apply mem_remove_other; assumption.
          -- right. destruct (Nat.eqb i j) eqn:E; [discriminate | exact Hd].
      + intros Hfin. destruct Hf as [Hf1 Hf2]. split; [exact Hf1 | apply Hf2; exact Hfin].
  Qed.

  Lemma pinv_run sched : forall s s', pinv s -> brun v n s sched = Some s' -> pinv s'.
  Proof.
    induction sched as [|e t IH]; intros s s' Hi Hr; cbn in Hr.
    - inversion Hr; subst. exact Hi.
    - destruct (bstep v n s e) as [s1|] eqn:Es; [|discriminate].
      eapply IH; [eapply pinv_step; eassumption | exact Hr].
  Qed.

  (* no deadlock: in every reachable state in which the collector has not returned, some event is enabled
     (an index can be dispatched, or an index in flight can complete); a state with no enabled event is final *)
  Theorem collector_progress sched s :
    brun v n b_init sched = Some s -> b_finished s = false -> exists e, bstep v n s e <> None.
  Proof.
    intros Hr Hf. pose proof (pinv_run sched _ _ pinv_init Hr) as [H3 H6].
    pose proof (binv_run v n sched _ _ (binv_init v n) Hr) as [_ [Hin _]].
    specialize (H6 Hf) as [Hout Hnone].
    destruct (Nat.ltb (b_in s) n) eqn:El.
    - exists Dispatch. unfold bstep. rewrite Hf, El. discriminate.
    - apply Nat.ltb_ge in El. assert (Ein : b_in s = n) by lia.
      destruct (b_running s) as [|i t] eqn:Erun.
      + exfalso. destruct (H3 (b_out s) ltac:(lia)) as [Hm|Hd].
        * try rewrite Erun in Hm; discriminate.
        * contradiction.
      + exists (Complete i). unfold bstep. rewrite Hf, Erun. cbn [mem_nat]. rewrite Nat.eqb_refl. cbn [orb].
        destruct (flush_done _ _ _ _ _) as [[o d] f]. discriminate.
  Qed.
End Progress.

(* ---------------------------------------------------------------- bound on the length of runs, termination *)

Section RunLength.
  Variable v : nat -> res unit.
  Variable n : nat.

  (* two events per index: one dispatch, one completion *)
  Definition mu (s : bstate) : nat := 2 * (n - b_in s) + length (b_running s).

  Lemma remove_nat_length i l : mem_nat i l = true -> S (length (remove_nat i l)) = length l.
  Proof.
    induction l as [|k t IH]; cbn; [discriminate|].
    destruct (Nat.eqb k i) eqn:E; cbn; [reflexivity|]. intros H. rewrite IH by exact H. reflexivity.
  Qed.

  Lemma step_measure s e s' : (b_in s <= n)%nat -> bstep v n s e = Some s' -> S (mu s') = mu s.
  Proof.
    intros Hin Hs. unfold bstep in Hs. destruct (b_finished s); [discriminate|].
    destruct e as [|i].
    - destruct (Nat.ltb (b_in s) n) eqn:El; [|discriminate]. apply Nat.ltb_lt in El.
      inversion Hs; subst; clear Hs. unfold mu; cbn. lia.
    - destruct (mem_nat i (b_running s)) eqn:Em; [|discriminate].
      destruct (flush_done _ _ _ _ _) as [[o d] f]. inversion Hs; subst; clear Hs. unfold mu; cbn.
      pose proof (remove_nat_length i (b_running s) Em). lia.
  Qed.

  Lemma brun_app s1 : forall sched s rest,
    brun v n s sched = Some s1 -> brun v n s (sched ++ rest) = brun v n s1 rest.
  Proof.
    induction sched as [|e t IH]; intros s rest H; cbn in *.
    - inversion H; subst. reflexivity.
    - destruct (bstep v n s e) as [s2|]; [|discriminate]. apply IH. exact H.
  Qed.

  (* every run has exactly 2n - mu events: at most 2n *)
  Theorem run_length sched : forall s s',
    binv v n s -> brun v n s sched = Some s' -> (length sched + mu s' = mu s)%nat.
  Proof.
    induction sched as [|e t IH]; intros s s' Hi Hr; cbn in Hr.
    - inversion Hr; subst. reflexivity.
    - destruct (bstep v n s e) as [s1|] eqn:Es; [|discriminate].
      assert (Hin : (b_in s <= n)%nat) by (destruct Hi as [_ [H _]]; exact H).
      pose proof (step_measure s e s1 Hin Es) as Hm.
      pose proof (binv_step v n s e s1 Hi Es) as Hi1.
      specialize (IH s1 s' Hi1 Hr). cbn [length]. lia.
  Qed.

  Corollary run_length_bound sched s :
    brun v n b_init sched = Some s -> (length sched <= 2 * n)%nat.
  Proof.
    intros Hr. pose proof (run_length sched b_init s (binv_init v n) Hr) as H.
    unfold mu at 2 in H. cbn in H. lia.
  Qed.

  (* termination: every reachable state can be run on to a final one, and however the schedule is chosen the
     collector has returned after at most 2n events in total (n dispatches, n completions) *)
  Theorem collector_terminates (n_pos : (0 < n)%nat) sched s :
    brun v n b_init sched = Some s ->
    exists rest s', brun v n b_init (sched ++ rest) = Some s' /\ b_finished s' = true /\
                    (length (sched ++ rest) <= 2 * n)%nat.
  Proof.
    remember (mu s) as k eqn:Ek. revert sched s Ek.
    induction k as [k IH] using lt_wf_ind. intros sched s Ek Hr.
    destruct (b_finished s) eqn:Ef.
    - exists [], s. rewrite app_nil_r. split; [exact Hr|]. split; [exact Ef|]. eapply run_length_bound. exact Hr.
    - destruct (collector_progress v n n_pos sched s Hr Ef) as [e He].
      destruct (bstep v n s e) as [s1|] eqn:Es; [|contradiction].
      assert (Hr1 : brun v n b_init (sched ++ [e]) = Some s1).
      { rewrite (brun_app s sched b_init [e] Hr). cbn. rewrite Es. reflexivity. }
      pose proof (binv_run v n sched _ _ (binv_init v n) Hr) as Hi.
      assert (Hin : (b_in s <= n)%nat) by (destruct Hi as [_ [H _]]; exact H).
      pose proof (step_measure s e s1 Hin Es) as Hm.
      destruct (IH (mu s1) ltac:(lia) (sched ++ [e]) s1 eq_refl Hr1) as [rest [s' [H1 [H2 H3]]]].
      exists (e :: rest), s'. rewrite <- app_assoc in H1, H3. cbn in H1, H3. repeat split; assumption.
  Qed.
End RunLength.
