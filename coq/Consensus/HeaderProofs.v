(* Consensus/HeaderProofs.v — proofs about Consensus/HeaderModel.v (property C13). *)
From AQ Require Import Lib.Bytes Generated.GenParamsConsensus Consensus.HeaderModel Consensus.HeaderSpec.
From Coq Require Import ZifyBool ZifyN ZifyNat.
Local Open Scope Z_scope.

(* ---------------------------------------------------------------- generated constants are the documented ones *)
Lemma header_constants :
  max_extra_data_size = 32 /\ allowed_future_secs = 15 /\ min_gas_limit = 5000 /\ gas_limit_bound_divisor = 1024 /\
  max_uncles = 2 /\ max_uncles_hf5 = 1.
Proof. repeat split; reflexivity. Qed.

Lemma difficulty_constants :
  min_diff_genesis = 99999999 /\ min_diff_hf1 = 100001792 /\ min_diff_hf3 = 30959185800 /\ min_diff_hf5 = 46039386 /\
  min_diff_hf5_testnet = 46039386 /\ div_default = 2048 /\ div_hf5 = 16 /\ div_hf6 = 128 /\ div_hf8 = 1024 /\
  duration_limit = 240 /\ duration_limit_hf6 = 180 /\ mainnet_chain_id = 61717561.
Proof. repeat split; reflexivity. Qed.

(* ---------------------------------------------------------------- machine integers *)
Lemma two64_eq : two64 = 2 ^ 64. Proof. reflexivity. Qed.
Lemma two63_eq : two63 = 2 ^ 63. Proof. reflexivity. Qed.

Lemma to_int64_small z : - two63 <= z < two63 -> to_int64 z = z.
Proof.
  intros Hz. unfold to_int64. unfold two63, two64 in *.
  destruct (Z_lt_le_dec z 0) as [Hneg|Hpos].
  - assert (E : z mod 18446744073709551616 = z + 18446744073709551616).
    { symmetry. apply Z.mod_unique with (q := -1); lia. }
    rewrite E. destruct (z + 18446744073709551616 <? 9223372036854775808) eqn:Ec; lia.
  - rewrite Z.mod_small by lia. destruct (z <? 9223372036854775808) eqn:Ec; lia.
Qed.

Lemma u64_small z : 0 <= z < two64 -> u64 z = z.
Proof. intros Hz. unfold u64. apply Z.mod_small. exact Hz. Qed.

(* the gas-limit distance as the code computes it equals |parent - header| when both are below 2^63 *)
Lemma gas_distance a b :
  0 <= a < two63 -> 0 <= b < two63 ->
  u64 (let d := to_int64 (to_int64 a - to_int64 b) in if d <? 0 then to_int64 (d * -1) else d) = Z.abs (a - b).
Proof.
  intros Ha Hb. cbv zeta.
  rewrite (to_int64_small a) by (unfold two63 in *; lia).
  rewrite (to_int64_small b) by (unfold two63 in *; lia).
  rewrite (to_int64_small (a - b)) by (unfold two63 in *; lia).
  destruct (a - b <? 0) eqn:E.
  - rewrite to_int64_small by (unfold two63 in *; lia). rewrite u64_small by (unfold two63, two64 in *; lia). lia.
  - rewrite u64_small by (unfold two63, two64 in *; lia). lia.
Qed.

(* ---------------------------------------------------------------- verify_header <-> rules_ok *)

Theorem verify_header_iff c chain now h p gp uncle seal :
  0 <= h_gas_limit p < 2 ^ 63 -> 0 <= h_gas_limit h ->
  (verify_header c chain now h (Some p) gp uncle seal = Ok tt <->
   exists expected,
     engine_calc_difficulty c chain (big_uint64 (h_time h)) p gp = Ok expected /\
     rules_ok now h p uncle expected /\
     (seal = true -> h_seal h = 0)).
Proof.
  intros Hp Hh. unfold verify_header, rules_ok, gas_ok, time_bound_ok.
  destruct header_constants as [-> [-> [-> [-> _]]]].
  change two256 with (2 ^ 256). change (two63 - 1) with (2 ^ 63 - 1).
  destruct (h_extra_len h >? 32) eqn:Ex.
  { split; [discriminate|]. intros [e [_ [[_ [_ [_ [H _]]]] _]]]. lia. }
  destruct (uncle && (h_time h >? 2 ^ 256 - 1)) eqn:Eu.
  { split; [discriminate|]. intros [e [_ [[_ [_ [H _]]] _]]]. destruct uncle; cbn in Eu; [lia|discriminate]. }
  destruct (negb uncle && (h_time h >? now + 15)) eqn:Ef.
  { split; [discriminate|]. intros [e [_ [[_ [_ [H _]]] _]]]. destruct uncle; cbn in Ef; [discriminate|lia]. }
  destruct (h_time h <=? h_time p) eqn:Et.
  { split; [discriminate|]. intros [e [_ [[_ [H _]] _]]]. lia. }
  destruct (engine_calc_difficulty c chain (big_uint64 (h_time h)) p gp) as [expected| e |] eqn:Ed.
  2:{ split; [discriminate|]. intros [e' [E _]]. discriminate. }
  2:{ split; [discriminate|]. intros [e' [E _]]. discriminate. }
  destruct (expected =? h_diff h) eqn:Eq; cbn [negb].
  2:{ split; [discriminate|]. intros [e' [E [[_ [_ [_ [_ [_ H]]]]] _]]]. inversion E; subst. lia. }
  destruct (h_gas_limit h >? 2 ^ 63 - 1) eqn:Ec.
  { split; [discriminate|]. intros [e' [_ [[_ [_ [_ [_ [[_ [H _]] _]]]]] _]]]. lia. }
  destruct (h_gas_used h >? h_gas_limit h) eqn:Eg.
  { split; [discriminate|]. intros [e' [_ [[_ [_ [_ [_ [[H _] _]]]]] _]]]. lia. }
  pose proof (gas_distance (h_gas_limit p) (h_gas_limit h)) as Hd. cbv zeta in Hd.
  rewrite Hd by (unfold two63; lia). clear Hd.
  destruct ((Z.abs (h_gas_limit p - h_gas_limit h) >=? h_gas_limit p / 1024) || (h_gas_limit h <? 5000)) eqn:El.
  { split; [discriminate|]. intros [e' [_ [[_ [_ [_ [_ [[_ [_ [H1 H2]]] _]]]]] _]]]. lia. }
  destruct (h_number h - h_number p =? 1) eqn:En; cbn [negb].
  2:{ split; [discriminate|]. intros [e' [_ [[H _] _]]]. lia. }
  assert (Hrules : exists expected0, Ok expected = Ok expected0 /\
            (h_number h = h_number p + 1 /\ h_time p < h_time h /\
             (if uncle then h_time h <= 2 ^ 256 - 1 else h_time h <= now + 15) /\ h_extra_len h <= 32 /\
             (h_gas_used h <= h_gas_limit h /\ h_gas_limit h <= 2 ^ 63 - 1 /\ 5000 <= h_gas_limit h /\
              Z.abs (h_gas_limit p - h_gas_limit h) < h_gas_limit p / 1024) /\ h_diff h = expected0)).
  { exists expected. split; [reflexivity|]. repeat split; try lia.
    all: try (destruct uncle; cbn in Eu, Ef; lia). }
  destruct seal.
  - unfold seal_result. destruct (h_seal h =? 0) eqn:Es.
    + split; [|reflexivity]. intros _. destruct Hrules as [e0 [E R]]. exists e0. split; [exact E|]. split; [exact R|]. intros _. lia.
    + split.
      * destruct (h_seal h =? -1); discriminate.
      * intros [e' [_ [_ H]]]. specialize (H eq_refl). lia.
  - split; [|reflexivity]. intros _. destruct Hrules as [e0 [E R]]. exists e0. split; [exact E|]. split; [exact R|]. intros; discriminate.
Qed.

(* with a nil parent the code dereferences it (after the checks that do not need it) *)
Lemma verify_header_nil_parent c chain now h gp uncle seal :
  verify_header c chain now h None gp uncle seal <> Ok tt.
Proof.
  unfold verify_header.
  destruct (h_extra_len h >? max_extra_data_size); [discriminate|].
  destruct (uncle && (h_time h >? two256 - 1)); [discriminate|].
  destruct (negb uncle && (h_time h >? now + allowed_future_secs)); discriminate.
Qed.

(* The property statement asks the 15 s bound of uncle headers too; the code does not apply it. *)
Definition refute_cfg : cfg := {| chain_id := testnet_chain_id; hf := testnet_hf |}.
Definition refute_parent : header :=
  {| h_hash := [x01]; h_parent := [x00]; h_number := 700; h_time := 1000; h_diff := 46039386;
     h_gas_limit := 4712388; h_gas_used := 0; h_extra_len := 0; h_seal := 0 |}.
Definition refute_uncle (t d : Z) : header :=
  {| h_hash := [x02]; h_parent := [x01]; h_number := 701; h_time := t; h_diff := d;
     h_gas_limit := 4712388; h_gas_used := 0; h_extra_len := 0; h_seal := 0 |}.

Lemma uncle_future_time_refuted :
  exists c chain now u p gp,
    verify_header c chain now u (Some p) gp true true = Ok tt /\ h_time u > now + 15.
Proof.
  exists refute_cfg, [], 2000, (refute_uncle 999999999 46039386), refute_parent, None.
  split; [vm_compute; reflexivity | reflexivity].
Qed.

(* ... and an uncle's difficulty is checked against its timestamp modulo 2^64 *)
Lemma uncle_time_truncated_refuted :
  exists c chain now u p gp,
    verify_header c chain now u (Some p) gp true true = Ok tt /\ h_time u >= 2 ^ 64 /\
    calc_difficulty c (h_time u) p gp <> Ok (h_diff u).
Proof.
  exists refute_cfg, [], 2000, (refute_uncle (2 ^ 64 + 1001) 46084346), refute_parent, None.
  split; [vm_compute; reflexivity |]. split; [vm_compute; discriminate |]. vm_compute. discriminate.
Qed.

(* without the bound on the parent's gas limit (only a genesis block can exceed 2^63-1) the int64
   subtraction wraps and a gas limit far outside parent/1024 passes *)
Lemma gas_limit_wrap_refuted :
  exists c chain now h p gp,
    verify_header c chain now h (Some p) gp false false = Ok tt /\
    ~ Z.abs (h_gas_limit p - h_gas_limit h) < h_gas_limit p / 1024.
Proof.
  exists refute_cfg, [], 2000,
    {| h_hash := [x02]; h_parent := [x01]; h_number := 701; h_time := 1001; h_diff := 46084346;
       h_gas_limit := 5000; h_gas_used := 0; h_extra_len := 0; h_seal := 0 |},
    {| h_hash := [x01]; h_parent := [x00]; h_number := 700; h_time := 1000; h_diff := 46039386;
       h_gas_limit := 2 ^ 64 - 1; h_gas_used := 0; h_extra_len := 0; h_seal := 0 |}, None.
  split; [vm_compute; reflexivity | vm_compute; intros H; discriminate].
Qed.

(* ---------------------------------------------------------------- difficulty: the code computes the fork table *)

Definition calc_difficulty' (c : cfg) (time : Z) (p : header) (gp : option header) : res Z :=
  let next := h_number p + 1 in
  let chain := big_uint64 (chain_id c) in
  let simple := Ok (simple_adjust time p (h_diff p / spec_divisor c next) (spec_minimum c next) (spec_limit c next)) in
  if is_hf c 10 next then calc_grandparent c p gp chain
  else if fork_block c 8 next then Ok min_diff_hf5
  else if fork_block c 6 next then simple
  else if fork_block c 7 next then simple
  else if fork_block c 5 next then Ok min_diff_hf5
  else if fork_block c 3 next then Ok min_diff_hf3
  else if fork_block c 2 next then simple
  else if is_hf c 2 next then simple
  else if fork_block c 1 next then Ok min_diff_hf1
  else if is_hf c 1 next then Ok (calc_hf1 time p chain)
  else Ok (calc_starting time p chain).

Lemma calc_difficulty_eq c time p gp : calc_difficulty c time p gp = calc_difficulty' c time p gp.
Proof.
  unfold calc_difficulty, calc_difficulty', spec_minimum, spec_divisor, spec_limit, pick, fork_block.
  destruct (is_hf c 5 (h_number p + 1)), (is_hf c 3 (h_number p + 1)), (is_hf c 1 (h_number p + 1)),
           (is_hf c 6 (h_number p + 1)), (is_hf c 8 (h_number p + 1)); reflexivity.
Qed.

Lemma fork_block_is_hf c k n : fork_block c k n = true -> is_hf c k n = true.
Proof. unfold fork_block. destruct (is_hf c k n); [reflexivity | discriminate]. Qed.

Lemma simple_adjust_spec time p adj mn lim :
  simple_adjust time p adj mn lim =
  at_least mn (if time - h_time p <? lim then h_diff p + adj else h_diff p - adj).
Proof.
  unfold simple_adjust, at_least. destruct (time - h_time p <? lim).
  - destruct (h_diff p + adj <? mn) eqn:E; lia.
  - destruct (h_diff p - adj <? mn) eqn:E; lia.
Qed.

Lemma homestead_adjust_spec time p :
  homestead_adjust time p = homestead_formula (h_diff p) (time - h_time p) 10 2048.
Proof.
  unfold homestead_adjust, homestead_formula. change div_default with 2048.
  destruct (1 - (time - h_time p) / 10 <? -99) eqn:E.
  - rewrite Z.max_l by lia. reflexivity.
  - rewrite Z.max_r by lia. reflexivity.
Qed.

Lemma big_max_l x y : big_max x y = Z.max y x.
Proof. unfold big_max. destruct (x <? y) eqn:E; lia. Qed.

Theorem difficulty_is_spec c time p gp :
  calc_difficulty c time p gp =
  match difficulty_spec c time p gp with Some d => Ok d | None => Panic end.
Proof.
  rewrite calc_difficulty_eq. unfold calc_difficulty', difficulty_spec, spec_algo.
  destruct difficulty_constants as [Eg [E1 [E3 [E5 [E5t [Ed [Ed5 [Ed6 [Ed8 [El [El6 Em]]]]]]]]]]].
  destruct (is_hf c 10 (h_number p + 1)).
  { unfold calc_grandparent. destruct gp as [g|]; [|reflexivity].
    destruct (h_time p <=? h_time g); [reflexivity|].
    rewrite Em, E5, E5t, Ed8, Ed5. unfold at_least, homestead_formula. rewrite !big_max_l.
    f_equal.
    assert (Hx : (if 1 - (h_time p - h_time g) / 240 <? -99 then -99 else 1 - (h_time p - h_time g) / 240)
                 = Z.max (-99) (1 - (h_time p - h_time g) / 240)).
    { destruct (1 - (h_time p - h_time g) / 240 <? -99) eqn:E; lia. }
    rewrite Hx. destruct (big_uint64 (chain_id c) =? 61717561); destruct (is_hf c 8 (h_number p)); lia. }
  destruct (fork_block c 8 (h_number p + 1)); [rewrite E5; reflexivity|].
  destruct (fork_block c 6 (h_number p + 1)); cbn [orb]; [rewrite simple_adjust_spec; reflexivity|].
  destruct (fork_block c 7 (h_number p + 1)); cbn [orb]; [rewrite simple_adjust_spec; reflexivity|].
  destruct (fork_block c 5 (h_number p + 1)); [rewrite E5; reflexivity|].
  destruct (fork_block c 3 (h_number p + 1)); [rewrite E3; reflexivity|].
  destruct (fork_block c 2 (h_number p + 1)) eqn:F2.
  { rewrite (fork_block_is_hf _ _ _ F2). rewrite simple_adjust_spec. reflexivity. }
  destruct (is_hf c 2 (h_number p + 1)); [rewrite simple_adjust_spec; reflexivity|].
  destruct (fork_block c 1 (h_number p + 1)); [rewrite E1; reflexivity|].
  destruct (is_hf c 1 (h_number p + 1)).
  - unfold calc_hf1. rewrite homestead_adjust_spec, Em, E1, big_max_l. unfold at_least.
    destruct (big_uint64 (chain_id c) =? 61717561); reflexivity.
  - unfold calc_starting. rewrite homestead_adjust_spec, Em, Eg, big_max_l. unfold at_least.
    destruct (big_uint64 (chain_id c) =? 61717561); reflexivity.
Qed.

(* never a panic outside the HF10 rule *)
Lemma difficulty_total c time p gp :
  is_hf c 10 (h_number p + 1) = false -> exists d, calc_difficulty c time p gp = Ok d.
Proof.
  intros H. rewrite difficulty_is_spec. unfold difficulty_spec, spec_algo. rewrite H.
  destruct (fork_block c 8 _); [eexists; reflexivity|].
  destruct (fork_block c 6 _ || fork_block c 7 _); [eexists; reflexivity|].
  destruct (fork_block c 5 _); [eexists; reflexivity|].
  destruct (fork_block c 3 _); [eexists; reflexivity|].
  destruct (is_hf c 2 _); [eexists; reflexivity|].
  destruct (fork_block c 1 _); eexists; reflexivity.
Qed.

(* resets at the scheduled fork blocks *)
Theorem difficulty_fork_reset c time p gp f :
  spec_algo c (h_number p + 1) = AReset f ->
  calc_difficulty c time p gp = Ok (reset_value f).
Proof. intros H. rewrite difficulty_is_spec. unfold difficulty_spec. rewrite H. reflexivity. Qed.

Lemma spec_minimum_hf5 c n : is_hf c 5 n = true -> spec_minimum c n = 46039386.
Proof. intros H. unfold spec_minimum, pick. rewrite H. reflexivity. Qed.

Lemma spec_minimum_early c n :
  is_hf c 3 n = false -> is_hf c 5 n = false ->
  spec_minimum c n = if is_hf c 1 n then 100001792 else 99999999.
Proof. intros H3 H5. unfold spec_minimum, pick. rewrite H3, H5. destruct (is_hf c 1 n); reflexivity. Qed.

(* never below the active minimum, whenever the rule in force enforces a minimum at all *)
Theorem difficulty_ge_minimum c time p gp d :
  calc_difficulty c time p gp = Ok d ->
  minimum_enforced c (h_number p + 1) gp = true ->
  spec_minimum c (h_number p + 1) <= d.
Proof.
  rewrite difficulty_is_spec. unfold difficulty_spec, minimum_enforced.
  destruct (spec_algo c (h_number p + 1)) as [| f | | hf1] eqn:Ea.
  - destruct gp as [g|]; [|discriminate].
    destruct (h_time p <=? h_time g); [discriminate|].
    intros Hd H5. inversion Hd; subst. rewrite (spec_minimum_hf5 _ _ H5). unfold at_least. lia.
  - intros Hd Hm. inversion Hd; subst. lia.
  - intros Hd _. inversion Hd; subst. unfold at_least. lia.
  - intros Hd Hm.
    assert (Hmain : (big_uint64 (chain_id c) =? 61717561) = true) by lia.
    assert (H3 : is_hf c 3 (h_number p + 1) = false) by lia.
    assert (H5 : is_hf c 5 (h_number p + 1) = false) by lia.
    rewrite Hmain in Hd. inversion Hd; subst. rewrite (spec_minimum_early _ _ H3 H5).
    unfold spec_algo in Ea.
    destruct (is_hf c 10 _); [discriminate|]. destruct (fork_block c 8 _); [discriminate|].
    destruct (fork_block c 6 _ || fork_block c 7 _); [discriminate|].
    destruct (fork_block c 5 _); [discriminate|]. destruct (fork_block c 3 _); [discriminate|].
    destruct (is_hf c 2 _); [discriminate|]. destruct (fork_block c 1 _); [discriminate|].
    inversion Ea; subst. unfold at_least. lia.
Qed.

(* generated configurations *)
Definition mainnet_cfg : cfg := {| chain_id := mainnet_chain_id; hf := mainnet_hf |}.
Definition testnet_cfg : cfg := {| chain_id := testnet_chain_id; hf := testnet_hf |}.
Definition testnet2_cfg : cfg := {| chain_id := testnet2_chain_id; hf := testnet2_hf |}.
Definition testnet3_cfg : cfg := {| chain_id := testnet3_chain_id; hf := testnet3_hf |}.
Definition dev_cfg : cfg := {| chain_id := dev_chain_id; hf := dev_hf |}.
Definition test_cfg : cfg := {| chain_id := test_chain_id; hf := test_hf |}.

(* mainnet: resets at 3600 / 13026 / 22800, and the minimum is enforced at every height *)
Lemma mainnet_resets time p gp :
  (h_number p + 1 = 3600 -> calc_difficulty mainnet_cfg time p gp = Ok 100001792) /\
  (h_number p + 1 = 13026 -> calc_difficulty mainnet_cfg time p gp = Ok 30959185800) /\
  (h_number p + 1 = 22800 -> calc_difficulty mainnet_cfg time p gp = Ok 46039386).
Proof.
  repeat split; intros H.
  - apply (difficulty_fork_reset _ _ _ _ 1). rewrite H. vm_compute. reflexivity.
  - apply (difficulty_fork_reset _ _ _ _ 3). rewrite H. vm_compute. reflexivity.
  - apply (difficulty_fork_reset _ _ _ _ 5). rewrite H. vm_compute. reflexivity.
Qed.

Lemma testnet_resets time p gp :
  (h_number p + 1 = 1 -> calc_difficulty testnet_cfg time p gp = Ok 100001792) /\
  (h_number p + 1 = 3 -> calc_difficulty testnet_cfg time p gp = Ok 30959185800) /\
  (h_number p + 1 = 5 -> calc_difficulty testnet_cfg time p gp = Ok 46039386) /\
  (h_number p + 1 = 650 -> calc_difficulty testnet_cfg time p gp = Ok 46039386).
Proof.
  repeat split; intros H.
  - apply (difficulty_fork_reset _ _ _ _ 1). rewrite H. vm_compute. reflexivity.
  - apply (difficulty_fork_reset _ _ _ _ 3). rewrite H. vm_compute. reflexivity.
  - apply (difficulty_fork_reset _ _ _ _ 5). rewrite H. vm_compute. reflexivity.
  - apply (difficulty_fork_reset _ _ _ _ 8). rewrite H. vm_compute. reflexivity.
Qed.

Lemma testnet2_reset time p gp :
  h_number p + 1 = 8 -> calc_difficulty testnet2_cfg time p gp = Ok 46039386.
Proof. intros H. apply (difficulty_fork_reset _ _ _ _ 8). rewrite H. vm_compute. reflexivity. Qed.

Lemma mainnet_minimum_enforced next gp : minimum_enforced mainnet_cfg next gp = true.
Proof.
  unfold minimum_enforced, spec_algo, fork_block, is_hf, spec_minimum, pick, is_hf. cbn.
  destruct (3600 <=? next) eqn:E1, (7200 <=? next) eqn:E2, (13026 <=? next) eqn:E3, (22800 <=? next) eqn:E5,
           (36000 <=? next) eqn:E6, (36050 <=? next) eqn:E7; try lia; cbn;
  repeat match goal with |- context [next =? ?k] => destruct (next =? k) eqn:?; cbn end; try reflexivity; lia.
Qed.

Theorem mainnet_difficulty_ge_minimum time p gp d :
  calc_difficulty mainnet_cfg time p gp = Ok d -> spec_minimum mainnet_cfg (h_number p + 1) <= d.
Proof. intros H. eapply difficulty_ge_minimum; [exact H | apply mainnet_minimum_enforced]. Qed.

(* "never below the active minimum" for every fork map is false of the code: schedules that activate HF5
   without HF2 (the built-in testnet2 and testnet3) fall through to calcDifficultyStarting *)
Lemma difficulty_ge_minimum_refuted :
  exists time p gp d,
    calc_difficulty testnet2_cfg time p gp = Ok d /\ h_diff p = spec_minimum testnet2_cfg (h_number p) /\
    d < spec_minimum testnet2_cfg (h_number p + 1).
Proof.
  exists 2000, {| h_hash := []; h_parent := []; h_number := 29; h_time := 1000; h_diff := 46039386;
                  h_gas_limit := 5000; h_gas_used := 0; h_extra_len := 0; h_seal := 0 |}, None.
  eexists. split; [vm_compute; reflexivity|]. split; vm_compute; reflexivity.
Qed.

(* the HF10 rule panics when the parent is not later than the grandparent *)
Lemma grandparent_panic_refuted :
  exists c time p g, calc_difficulty c time p (Some g) = Panic.
Proof.
  exists {| chain_id := 1; hf := [(10, 0)] |}, 100,
    {| h_hash := []; h_parent := []; h_number := 5; h_time := 50; h_diff := 1; h_gas_limit := 0; h_gas_used := 0; h_extra_len := 0; h_seal := 0 |},
    {| h_hash := []; h_parent := []; h_number := 4; h_time := 50; h_diff := 1; h_gas_limit := 0; h_gas_used := 0; h_extra_len := 0; h_seal := 0 |}.
  vm_compute. reflexivity.
Qed.

(* ---------------------------------------------------------------- VerifyHeaders: the collector delivers in input order *)

Section Batch.
  Variable v : nat -> res unit.   (* what worker i computes: verify_worker ... i *)
  Variable n : nat.               (* number of headers *)

  Definition done_ok (done : list (nat * res unit)) : Prop :=
    forall i r, lookup_nat i done = Some r -> r = v i.

  Definition binv (s : bstate) : Prop :=
    done_ok (b_done s) /\
    (b_in s <= n)%nat /\
    (forall i, mem_nat i (b_running s) = true -> i < b_in s)%nat /\
    (b_finished s = false -> b_delivered s = map v (seq 0 (b_out s))) /\
    (b_finished s = true -> b_delivered s = map v (seq 0 n)).

  Lemma flush_done_spec done : done_ok done -> (1 <= n)%nat ->
    forall fuel out delivered,
      delivered = map v (seq 0 out) ->
      let '(out', del', fin) := flush_done fuel n done out delivered in
      (fin = false -> del' = map v (seq 0 out')) /\ (fin = true -> del' = map v (seq 0 n)).
  Proof.
    intros Hd Hn. induction fuel as [|f IH]; intros out delivered Hdel; cbn [flush_done].
    - split; [intros _; exact Hdel | discriminate].
    - destruct (lookup_nat out done) as [r|] eqn:El.
      + apply Hd in El. subst r.
        assert (Hs : delivered ++ [v out] = map v (seq 0 (S out))).
        { rewrite seq_S, map_app, Hdel. reflexivity. }
        destruct (Nat.eqb out (n - 1)) eqn:Eo.
        * split; [discriminate|]. intros _. apply Nat.eqb_eq in Eo.
          replace n with (S out) by lia. exact Hs.
        * apply IH. exact Hs.
      + split; [intros _; exact Hdel | discriminate].
  Qed.

  Lemma mem_remove_nat i j l : mem_nat i (remove_nat j l) = true -> mem_nat i l = true.
  Proof.
    induction l as [|k t IH]; cbn; [discriminate|].
    destruct (Nat.eqb k j) eqn:E.
    - intros H. rewrite H. apply orb_true_r.
    - cbn. destruct (Nat.eqb k i); [reflexivity|]. cbn. exact IH.
  Qed.

  Lemma binv_init : binv b_init.
  Proof.
    unfold binv, b_init, done_ok; cbn. repeat split; try discriminate; try lia; intros; discriminate.
  Qed.

  Lemma binv_step s e s' : binv s -> bstep v n s e = Some s' -> binv s'.
  Proof.
    intros [Hd [Hin [Hrun [Hopen Hfin]]]] Hs. unfold bstep in Hs.
    destruct (b_finished s) eqn:Ef; [discriminate|].
    destruct e as [|i].
    - destruct (Nat.ltb (b_in s) n) eqn:El; [|discriminate]. inversion Hs; subst; clear Hs.
      apply Nat.ltb_lt in El. unfold binv; cbn. repeat split; try assumption; try lia; try discriminate.
      all: try (intros _; apply Hopen; reflexivity).
      all: try (intros j Hj; destruct (Nat.eqb (b_in s) j) eqn:Ej;
                [apply Nat.eqb_eq in Ej; lia | cbn in Hj; specialize (Hrun j Hj); lia]).
    - destruct (mem_nat i (b_running s)) eqn:Em; [|discriminate].
      assert (Hn1 : (1 <= n)%nat) by (specialize (Hrun i Em); lia).
      assert (Hd' : done_ok ((i, v i) :: b_done s)).
      { intros j r. cbn. destruct (Nat.eqb i j) eqn:Ej.
        - apply Nat.eqb_eq in Ej. subst. intros H; inversion H; reflexivity.
        - apply Hd. }
      pose proof (flush_done_spec _ Hd' Hn1 (S n) (b_out s) (b_delivered s) (Hopen eq_refl)) as Hf.
      destruct (flush_done (S n) n ((i, v i) :: b_done s) (b_out s) (b_delivered s)) as [[out del] fin].
      inversion Hs; subst; clear Hs. unfold binv; cbn. destruct Hf as [Hf1 Hf2].
      repeat split; try assumption.
      intros j Hj. apply Hrun. eapply mem_remove_nat. exact Hj.
  Qed.

  Lemma binv_run sched : forall s s', binv s -> brun v n s sched = Some s' -> binv s'.
  Proof.
    induction sched as [|e t IH]; intros s s' Hi Hr; cbn in Hr.
    - inversion Hr; subst. exact Hi.
    - destruct (bstep v n s e) as [s1|] eqn:Es; [|discriminate].
      eapply IH; [eapply binv_step; eassumption | exact Hr].
  Qed.

  (* for every schedule of dispatches and completions: what has been delivered is, in input order, what the
     workers compute for the indices 0, 1, 2, ...; and once the collector has returned, it is all of them *)
  Theorem batch_delivers_in_order sched s :
    brun v n b_init sched = Some s ->
    (exists k, b_delivered s = map v (seq 0 k)) /\
    (b_finished s = true -> b_delivered s = map v (seq 0 n)).
  Proof.
    intros Hr. pose proof (binv_run sched _ _ binv_init Hr) as [Hd [Hin [Hrun [Hopen Hfin]]]].
    split; [|exact Hfin].
    destruct (b_finished s) eqn:Ef.
    - exists n. apply Hfin; reflexivity.
    - eexists. apply Hopen; reflexivity.
  Qed.

  (* hence the caller, reading results in order and stopping at the first failure, sees the same first failure
     for every completion order *)
  Corollary batch_first_failure_schedule_independent sched1 sched2 s1 s2 :
    brun v n b_init sched1 = Some s1 -> brun v n b_init sched2 = Some s2 ->
    b_finished s1 = true -> b_finished s2 = true ->
    b_delivered s1 = b_delivered s2 /\
    first_failure (b_delivered s1) 0 = first_failure (map v (seq 0 n)) 0.
  Proof.
    intros H1 H2 F1 F2.
    destruct (batch_delivers_in_order _ _ H1) as [_ D1]. destruct (batch_delivers_in_order _ _ H2) as [_ D2].
    rewrite (D1 F1), (D2 F2). split; reflexivity.
  Qed.
End Batch.

(* one-by-one verification of a batch whose headers are all accepted by the workers' rule inserts them all:
   the sequential run reports no failure iff ... (the general agreement of `sequential` with the workers on
   contiguous batches over an ancestor-closed chain is checked by the correspondence and the direct oracle,
   not proved here) *)

(* a complete schedule exists for every batch length: dispatch everything, then complete in input order *)
Fixpoint complete_all (k : nat) (from : nat) : list event :=
  match k with O => [] | S k' => Complete from :: complete_all k' (S from) end.
Definition sched_in_order (n : nat) : list event := repeat Dispatch n ++ complete_all n 0.

Example batch_example :
  let v := fun i : nat => if Nat.eqb i 2 then @Err unit EZeroTime else Ok tt in
  (* in-order, reverse-order and interleaved completion of a batch of 4 *)
  option_map (fun s => (b_delivered s, b_finished s)) (brun v 4 b_init (sched_in_order 4)) = Some ([Ok tt; Ok tt; Err EZeroTime; Ok tt], true) /\
  option_map (fun s => (b_delivered s, b_finished s))
    (brun v 4 b_init [Dispatch; Dispatch; Dispatch; Dispatch; Complete 3; Complete 2; Complete 1; Complete 0]) = Some ([Ok tt; Ok tt; Err EZeroTime; Ok tt], true) /\
  option_map (fun s => (b_delivered s, b_finished s))
    (brun v 4 b_init [Dispatch; Dispatch; Complete 1; Dispatch; Complete 0; Dispatch; Complete 3]) = Some ([Ok tt; Ok tt], false).
Proof. vm_compute. repeat split; reflexivity. Qed.

(* ---------------------------------------------------------------- uncles *)

Lemma uncle_loop_iff c chain now number bh bp :
  number > 15000 ->
  forall us anc unc,
    uncle_loop c chain now number bh bp us anc unc = Ok tt <-> uncles_ok_from c chain now bp anc unc us.
Proof.
  intros Hn. assert (Hd : forall a b, dup_allowed number a b = false).
  { intros a b. unfold dup_allowed. destruct (number >? 15000) eqn:E; [reflexivity | lia]. }
  assert (Hg : forall a b x, dangling_allowed number a b x = false).
  { intros a b x. unfold dangling_allowed. destruct (number >? 15000) eqn:E; [reflexivity | lia]. }
  induction us as [|u rest IH]; intros anc unc; cbn [uncle_loop uncles_ok_from].
  - split; [intros _; exact I | reflexivity].
  - rewrite Hd, Hg. cbn [negb]. rewrite andb_true_r.
    destruct (mem_hash (h_hash u) unc) eqn:Em.
    { split; [discriminate | intros [H _]; discriminate]. }
    destruct (lookup_hash (h_hash u) anc) as [a|] eqn:Ea.
    { split; [discriminate | intros [_ [H _]]; discriminate]. }
    destruct (lookup_hash (h_parent u) anc) as [p|] eqn:Ep.
    2:{ split; [discriminate | intros [_ [_ [[p [H _]] _]]]; discriminate]. }
    destruct (bytes_eqb_spec (h_parent u) bp) as [Eb|Eb].
    { split; [discriminate | intros [_ [_ [[p' [_ [H _]]] _]]]; contradiction]. }
    destruct (verify_header c chain now u (Some p) (lookup_hash (h_parent p) anc) true true) as [[]| e |] eqn:Ev.
    + rewrite IH. split.
      * intros H. repeat split; try reflexivity; [|exact H]. exists p. repeat split; assumption.
      * intros [_ [_ [_ H]]]. exact H.
    + split; [discriminate|]. intros [_ [_ [[p' [E [_ H]]] _]]]. inversion E; subst. rewrite Ev in H. discriminate.
    + split; [discriminate|]. intros [_ [_ [[p' [E [_ H]]] _]]]. inversion E; subst. rewrite Ev in H. discriminate.
Qed.

(* VerifyUncles accepts exactly the uncle sets that satisfy the rules — outside the historic window of
   hard-coded exceptions (the decremented loop counter `number` is above 15000, i.e. block > ~15008) *)
Theorem uncles_iff c chain blocks now b :
  let bh := bl_header b in
  let '(number, anc, unc) := gather 7 blocks (h_parent bh) (u64 (big_uint64 (h_number bh) - 1)) [] [] in
  number > 15000 ->
  (verify_uncles c chain blocks now b = Ok tt <->
   Z.of_nat (length (bl_uncles b)) <= max_uncles_at c (h_number bh) /\
   bl_version b <> 0 /\
   uncles_ok_from c chain now (h_parent bh) ((h_hash bh, bh) :: anc) (h_hash bh :: unc) (bl_uncles b)).
Proof.
  cbv zeta. unfold verify_uncles, verify_uncles_v, gather, max_uncles_at.
  destruct header_constants as [_ [_ [_ [_ [-> ->]]]]].
  destruct (gather_v OwnHeight 7 blocks (h_parent (bl_header b)) (u64 (big_uint64 (h_number (bl_header b)) - 1)) [] [])
    as [[number anc] unc] eqn:Eg.
  intros Hn.
  destruct (Z.of_nat (length (bl_uncles b)) >? 2) eqn:E2.
  { split; [discriminate|]. intros [H _]. destruct (is_hf c 5 _); lia. }
  destruct ((Z.of_nat (length (bl_uncles b)) >? 1) && is_hf c 5 (h_number (bl_header b))) eqn:E1.
  { split; [discriminate|]. intros [H _]. destruct (is_hf c 5 _); [lia | rewrite andb_false_r in E1; discriminate]. }
  destruct (bl_version b =? 0) eqn:Ev.
  { split; [discriminate|]. intros [_ [H _]]. lia. }
  rewrite (uncle_loop_iff c chain now number _ _ Hn). split.
  - intros H. split; [|split; [lia | exact H]]. destruct (is_hf c 5 _); lia.
  - intros [_ [_ H]]. exact H.
Qed.

(* inside the historic window a dangling uncle carrying one of the hard-coded parent hashes makes VerifyUncles
   return nil at once, on every chain configuration: the uncle (and every later one) is not validated at all *)
Lemma uncles_whitelist_skips_validation_refuted :
  exists c chain blocks now b,
    verify_uncles c chain blocks now b = Ok tt /\
    c = testnet_cfg /\
    (forall u, In u (bl_uncles b) -> forall p gp, verify_header c chain now u (Some p) gp true true <> Ok tt).
Proof.
  set (junk := {| h_hash := [x09]; h_parent := h32 0x6b818656fb5059ab4dd070e2c2822a7774065090e74ff31515764212c88e2923%N;
                  h_number := 14003; h_time := 0; h_diff := 0; h_gas_limit := 0; h_gas_used := 1; h_extra_len := 99; h_seal := 1 |}).
  exists testnet_cfg, [], [], 2000,
    {| bl_header := {| h_hash := [x05]; h_parent := [x04]; h_number := 700; h_time := 1000; h_diff := 46039386;
                       h_gas_limit := 4712388; h_gas_used := 0; h_extra_len := 0; h_seal := 0 |};
       bl_version := 3; bl_uncles := [junk]; bl_uncles_stamped := [] |}.
  split; [vm_compute; reflexivity|]. split; [reflexivity|].
  intros u [<-|[]] p gp. unfold verify_header. cbn. discriminate.
Qed.

(* ---------------------------------------------------------------- uncles at any height (historic window included) *)

Lemma in_wl_iff k n wl : in_wl k n wl = true <-> In (k, n) wl.
Proof.
  induction wl as [|[k' n'] t IH]; cbn; [split; [discriminate | contradiction]|].
  rewrite orb_true_iff, andb_true_iff, IH. split.
  - intros [[Hk Hn]|H]; [left | right; exact H].
    destruct (bytes_eqb_spec k' k); [|discriminate]. subst. f_equal. lia.
  - intros [E|H]; [left | right; exact H]. inversion E; subst. split; [apply bytes_eqb_refl | lia].
Qed.

Lemma dup_allowed_iff number bh unum :
  dup_allowed number bh unum = true <-> number <= 15000 /\ In (bh, big_uint64 unum) dup_wl.
Proof. unfold dup_allowed. rewrite andb_true_iff, in_wl_iff. split; intros [H1 H2]; split; try assumption; lia. Qed.

Lemma dangling_allowed_iff number up uh unum :
  dangling_allowed number up uh unum = true <->
  number <= 15000 /\ (In (up, big_uint64 unum) dangling_parent_wl \/ In (uh, big_uint64 unum) dangling_hash_wl).
Proof.
  unfold dangling_allowed. rewrite andb_true_iff, orb_true_iff, !in_wl_iff.
  split; intros [H1 H2]; split; try assumption; lia.
Qed.

Lemma uncle_loop_iff_any c chain now number bh bp :
  forall us anc unc,
    uncle_loop c chain now number bh bp us anc unc = Ok tt <-> uncles_spec c chain now number bh bp anc unc us.
Proof.
  induction us as [|u rest IH]; intros anc unc; cbn [uncle_loop uncles_spec].
  - split; [intros _; exact I | reflexivity].
  - destruct (mem_hash (h_hash u) unc && negb (dup_allowed number bh (h_number u))) eqn:Edup.
    { split; [discriminate|]. intros [[H|H] _]; rewrite H in Edup; [discriminate|].
      rewrite andb_false_r in Edup. discriminate. }
    assert (Hdup : mem_hash (h_hash u) unc = false \/ dup_allowed number bh (h_number u) = true).
    { destruct (mem_hash (h_hash u) unc); [right | left; reflexivity].
      destruct (dup_allowed number bh (h_number u)); [reflexivity | discriminate]. }
    destruct (lookup_hash (h_hash u) anc) as [a|] eqn:Ea.
    { split; [discriminate | intros [_ [H _]]; discriminate]. }
    destruct (lookup_hash (h_parent u) anc) as [p|] eqn:Ep.
    2:{ destruct (dangling_allowed number (h_parent u) (h_hash u) (h_number u)) eqn:Eda.
        - split; [|reflexivity]. intros _. split; [exact Hdup|]. split; [reflexivity|]. left. split; [left; reflexivity | reflexivity].
        - split; [discriminate|]. intros [_ [_ [[_ H]|[p [H _]]]]]; discriminate. }
    destruct (bytes_eqb_spec (h_parent u) bp) as [Eb|Eb].
    { destruct (dangling_allowed number (h_parent u) (h_hash u) (h_number u)) eqn:Eda.
      - split; [|reflexivity]. intros _. split; [exact Hdup|]. split; [reflexivity|]. left. split; [right; exact Eb | reflexivity].
      - split; [discriminate|]. intros [_ [_ [[_ H]|[p' [_ [H _]]]]]]; [discriminate | contradiction]. }
    destruct (verify_header c chain now u (Some p) (lookup_hash (h_parent p) anc) true true) as [[]| e |] eqn:Ev.
    + rewrite IH. split.
      * intros H. split; [exact Hdup|]. split; [reflexivity|]. right. exists p. repeat split; assumption.
      * intros [_ [_ [[[H|H] _]|[p' [E [_ [_ H]]]]]]]; [discriminate | contradiction | exact H].
    + split; [discriminate|]. intros [_ [_ [[[H|H] _]|[p' [E [_ [H _]]]]]]]; [discriminate | contradiction |].
      inversion E; subst. rewrite Ev in H. discriminate.
    + split; [discriminate|]. intros [_ [_ [[[H|H] _]|[p' [E [_ [H _]]]]]]]; [discriminate | contradiction |].
      inversion E; subst. rewrite Ev in H. discriminate.
Qed.

(* VerifyUncles at any height *)
Theorem uncles_iff_any_height c chain blocks now b :
  let bh := bl_header b in
  let '(number, anc, unc) := gather 7 blocks (h_parent bh) (u64 (big_uint64 (h_number bh) - 1)) [] [] in
  (verify_uncles c chain blocks now b = Ok tt <->
   Z.of_nat (length (bl_uncles b)) <= max_uncles_at c (h_number bh) /\
   bl_version b <> 0 /\
   uncles_spec c chain now number (h_hash bh) (h_parent bh) ((h_hash bh, bh) :: anc) (h_hash bh :: unc) (bl_uncles b)).
Proof.
  cbv zeta. unfold verify_uncles, verify_uncles_v, gather, max_uncles_at.
  destruct header_constants as [_ [_ [_ [_ [-> ->]]]]].
  destruct (gather_v OwnHeight 7 blocks (h_parent (bl_header b)) (u64 (big_uint64 (h_number (bl_header b)) - 1)) [] [])
    as [[number anc] unc] eqn:Eg.
  destruct (Z.of_nat (length (bl_uncles b)) >? 2) eqn:E2.
  { split; [discriminate|]. intros [H _]. destruct (is_hf c 5 _); lia. }
  destruct ((Z.of_nat (length (bl_uncles b)) >? 1) && is_hf c 5 (h_number (bl_header b))) eqn:E1.
  { split; [discriminate|]. intros [H _]. destruct (is_hf c 5 _); [lia | rewrite andb_false_r in E1; discriminate]. }
  destruct (bl_version b =? 0) eqn:Ev.
  { split; [discriminate|]. intros [_ [H _]]. lia. }
  rewrite (uncle_loop_iff_any c chain now number). split.
  - intros H. split; [|split; [lia | exact H]]. destruct (is_hf c 5 _); lia.
  - intros [_ [_ H]]. exact H.
Qed.

(* non-vacuity example used by Properties/C13.v *)
Lemma header_example :
  let p := {| h_hash := [x01]; h_parent := [x00]; h_number := 22799; h_time := 1530000000; h_diff := 4000000000000;
              h_gas_limit := 4712388; h_gas_used := 0; h_extra_len := 5; h_seal := 0 |} in
  let h d gl t := {| h_hash := [x02]; h_parent := [x01]; h_number := 22800; h_time := t; h_diff := d;
                     h_gas_limit := gl; h_gas_used := 21000; h_extra_len := 32; h_seal := 0 |} in
  verify_header mainnet_cfg [] 1530000300 (h 46039386 (4712388 + 4600) 1530000315) (Some p) None false true = Ok tt /\
  verify_header mainnet_cfg [] 1530000300 (h 46039386 (4712388 + 4600) 1530000316) (Some p) None false true = Err EFuture /\
  verify_header mainnet_cfg [] 1530000300 (h 46039387 (4712388 + 4600) 1530000315) (Some p) None false true = Err EDifficulty /\
  verify_header mainnet_cfg [] 1530000300 (h 46039386 (4712388 + 4601) 1530000315) (Some p) None false true = Err EGasLimit /\
  verify_header mainnet_cfg [] 1530000300 (h 46039386 (4712388 + 4600) 1530000000) (Some p) None false true = Err EZeroTime.
Proof. vm_compute. repeat split; reflexivity. Qed.

Lemma builtin_fork_resets time p gp :
    ((h_number p + 1 = 3600 -> calc_difficulty mainnet_cfg time p gp = Ok 100001792) /\
     (h_number p + 1 = 13026 -> calc_difficulty mainnet_cfg time p gp = Ok 30959185800) /\
     (h_number p + 1 = 22800 -> calc_difficulty mainnet_cfg time p gp = Ok 46039386)) /\
    ((h_number p + 1 = 1 -> calc_difficulty testnet_cfg time p gp = Ok 100001792) /\
     (h_number p + 1 = 3 -> calc_difficulty testnet_cfg time p gp = Ok 30959185800) /\
     (h_number p + 1 = 5 -> calc_difficulty testnet_cfg time p gp = Ok 46039386) /\
     (h_number p + 1 = 650 -> calc_difficulty testnet_cfg time p gp = Ok 46039386)) /\
    (h_number p + 1 = 8 -> calc_difficulty testnet2_cfg time p gp = Ok 46039386).
Proof. split; [apply mainnet_resets | split; [apply testnet_resets | apply testnet2_reset]]. Qed.

Lemma historic_exceptions_iff number block_hash uparent uhash unum :
    (dup_allowed number block_hash unum = true <-> number <= 15000 /\ In (block_hash, big_uint64 unum) dup_wl) /\
    (dangling_allowed number uparent uhash unum = true <->
     number <= 15000 /\ (In (uparent, big_uint64 unum) dangling_parent_wl \/ In (uhash, big_uint64 unum) dangling_hash_wl)).
Proof. split; [apply dup_allowed_iff | apply dangling_allowed_iff]. Qed.

(* ---------------------------------------------------------------- identity of already-included uncles *)

Lemma get_block_in blocks : forall hash n a, get_block blocks hash n = Some a -> In a blocks.
Proof.
  induction blocks as [|x l IH]; intros hash n a H; cbn in H; [discriminate|].
  destruct (bytes_eqb (h_hash (bl_header x)) hash && (big_uint64 (h_number (bl_header x)) =? n)).
  - inversion H; subst. left. reflexivity.
  - right. eapply IH. exact H.
Qed.

(* when the chain reader hands the past uncles over under the version of their own height, hashing them as
   stamped (uncle.Hash()) or after re-stamping (the code) is the same ... *)
Lemma gather_v_same blocks :
  (forall a, In a blocks -> bl_uncles_stamped a = map h_hash (bl_uncles a)) ->
  forall fuel parent number anc unc,
    gather_v AsStamped fuel blocks parent number anc unc = gather_v OwnHeight fuel blocks parent number anc unc.
Proof.
  intros H. induction fuel as [|f IH]; intros parent number anc unc; cbn [gather_v]; [reflexivity|].
  destruct (get_block blocks parent number) as [a|] eqn:Ea; [|reflexivity].
  unfold past_uncle_hashes. rewrite (H a (get_block_in _ _ _ _ Ea)). apply IH.
Qed.

Lemma verify_uncles_v_same c chain blocks now b :
  (forall a, In a blocks -> bl_uncles_stamped a = map h_hash (bl_uncles a)) ->
  verify_uncles_v AsStamped c chain blocks now b = verify_uncles c chain blocks now b.
Proof. intros H. unfold verify_uncles, verify_uncles_v. rewrite (gather_v_same blocks H). reflexivity. Qed.

(* ... but core.BlockChain.GetBlock stamps them with the INCLUDING block's version: across a version fork the two
   identities differ, and only the code's choice (own height) recognises the second inclusion of an uncle *)
Lemma uncle_identity_matters :
  exists c chain blocks now b,
    verify_uncles c chain blocks now b = Err EDuplicateUncle /\
    verify_uncles_v AsStamped c chain blocks now b = Ok tt.
Proof.
  set (mk := fun hash parent num t d => {| h_hash := hash; h_parent := parent; h_number := num; h_time := t; h_diff := d;
                                          h_gas_limit := 4712388; h_gas_used := 0; h_extra_len := 0; h_seal := 0 |}).
  set (g := mk [x10] [x00] 20000 1000 46039386).     (* main chain 20000 .. 20002 on the test schedule *)
  set (a1 := mk [x11] [x10] 20001 1100 46399068).
  set (a2 := mk [x12] [x11] 20002 1200 46761560).
  set (u := mk [x21] [x10] 20001 1101 46399068).     (* sibling of a1, included by a2 and offered again *)
  exists test_cfg, [g; a1; a2],
    [ {| bl_header := a2; bl_version := 2; bl_uncles := [u]; bl_uncles_stamped := [[xee]] |};
      {| bl_header := a1; bl_version := 2; bl_uncles := []; bl_uncles_stamped := [] |};
      {| bl_header := g; bl_version := 2; bl_uncles := []; bl_uncles_stamped := [] |} ], 5000,
    {| bl_header := mk [x13] [x12] 20003 1300 47126884; bl_version := 2; bl_uncles := [u]; bl_uncles_stamped := [] |}.
  split; vm_compute; reflexivity.
Qed.
