(* Consensus/ChainProofs.v — proofs about ValidateHeaderChain's seal sample and verdict (property C13). *)
From AQ Require Import Lib.Bytes Generated.GenParamsConsensus Consensus.HeaderModel Consensus.HeaderSpec
  Consensus.HeaderProofs Consensus.BatchProofs Consensus.ChainModel.
From Coq Require Import ZifyBool ZifyN ZifyNat.
Local Open Scope nat_scope.

Lemma set_true_length l : forall i, length (set_true l i) = length l.
Proof. induction l as [|x t IH]; intros [|i]; cbn; try reflexivity. f_equal. apply IH. Qed.

Lemma set_true_hit l : forall i, i < length l -> nth i (set_true l i) false = true.
Proof.
  induction l as [|x t IH]; intros i H; cbn in H; [lia|].
  destruct i as [|i]; cbn; [reflexivity | apply IH; lia].
Qed.

Lemma set_true_keep l : forall i j, nth j l false = true -> nth j (set_true l i) false = true.
Proof.
  induction l as [|x t IH]; intros i j H; [destruct j; discriminate|].
  destruct i as [|i], j as [|j]; cbn in *; try assumption; try reflexivity. apply IH. exact H.
Qed.

(* window w of the sample contains a header whose seal is verified *)
Definition window_hit (len freq : nat) (seals : list bool) (w : nat) : Prop :=
  exists j, w * freq <= j < (w + 1) * freq /\ j < len /\ nth j seals false = true.

Lemma window_hit_keep len freq seals i w : window_hit len freq seals w -> window_hit len freq (set_true seals i) w.
Proof. intros [j [H1 [H2 H3]]]. exists j. split; [exact H1|]. split; [exact H2|]. apply set_true_keep. exact H3. Qed.

Lemma pick_loop_spec len freq rands : 0 < freq ->
  forall cnt i seals,
    length seals = len -> i + cnt <= len / freq ->
    (forall w, w < i -> window_hit len freq seals w) ->
    length (pick_loop cnt i len freq rands seals) = len /\
    forall w, w < i + cnt -> window_hit len freq (pick_loop cnt i len freq rands seals) w.
Proof.
  intros Hf. induction cnt as [|c IH]; intros i seals Hl Hb Hw; cbn [pick_loop].
  - split; [exact Hl|]. intros w Hlt. apply Hw. lia.
  - pose proof (Nat.mod_upper_bound (nth i rands 0) freq ltac:(lia)) as Hr.
    pose proof (Nat.mul_div_le len freq ltac:(lia)) as Hd.
    assert (Hin : i * freq + nth i rands 0 mod freq < len) by nia.
    destruct (Nat.leb len (i * freq + nth i rands 0 mod freq)) eqn:El; [apply Nat.leb_le in El; lia|].
    specialize (IH (S i) (set_true seals (i * freq + nth i rands 0 mod freq))).
    destruct IH as [IH1 IH2].
    + rewrite set_true_length. exact Hl.
    + lia.
    + intros w Hlt. destruct (Nat.eq_dec w i) as [->|Hne].
      * exists (i * freq + nth i rands 0 mod freq). split; [nia|]. split; [lia|].
        apply set_true_hit. lia.
      * apply window_hit_keep. apply Hw. lia.
    + split; [exact IH1|]. intros w Hlt. apply IH2. lia.
Qed.

(* the seal sample, for EVERY stream of random numbers: one flag per header, the last header is always sampled, and
   every complete window of checkFreq consecutive headers contains a sampled one *)
Theorem pick_seals_spec len freq rands seals :
  pick_seals len freq rands = Some seals ->
  length seals = len /\
  nth (len - 1) seals false = true /\
  forall w, w < len / freq -> window_hit len freq seals w.
Proof.
  unfold pick_seals. destruct (Nat.eqb freq 0) eqn:Ef; [discriminate|]. destruct (Nat.eqb len 0) eqn:El; [discriminate|].
  apply Nat.eqb_neq in Ef. apply Nat.eqb_neq in El. intros H. inversion H; subst; clear H.
  destruct (pick_loop_spec len freq rands ltac:(lia) (len / freq) 0 (repeat false len)) as [H1 H2].
  - apply repeat_length.
  - lia.
  - intros w Hw. lia.
  - split; [rewrite set_true_length; exact H1|]. split.
    + apply set_true_hit. lia.
    + intros w Hw. apply window_hit_keep. apply H2. lia.
Qed.

Lemma pick_seals_panics len freq rands : pick_seals len freq rands = None <-> freq = 0 \/ len = 0.
Proof.
  unfold pick_seals. destruct (Nat.eqb freq 0) eqn:Ef; [split; [intros _; left; lia | reflexivity]|].
  destruct (Nat.eqb len 0) eqn:El; [split; [intros _; right; lia | reflexivity]|].
  split; [discriminate | lia].
Qed.

(* reading the results: accepted iff no header is blacklisted and every result is Ok *)
Lemma read_results_ok bad : forall hs rs i,
  length rs = length hs ->
  (read_results bad hs rs i = VOk <->
   (forall h, In h hs -> bad (h_hash h) = false) /\ (forall r, In r rs -> r = Ok tt)).
Proof.
  induction hs as [|h ht IH]; intros rs i Hl; destruct rs as [|r rt]; try discriminate Hl; cbn [read_results].
  - split; [intros _; split; intros x [] | reflexivity].
  - destruct (bad (h_hash h)) eqn:Eb.
    + split; [discriminate|]. intros [H _]. rewrite (H h (or_introl eq_refl)) in Eb. discriminate.
    + destruct r as [[]| e |].
      * rewrite (IH rt (S i)) by (cbn in Hl; lia). split.
        -- intros [H1 H2]. split; [intros x [<-|Hx]; [exact Eb | apply H1; exact Hx] | intros x [<-|Hx]; [reflexivity | apply H2; exact Hx]].
        -- intros [H1 H2]. split; [intros x Hx; apply H1; right; exact Hx | intros x Hx; apply H2; right; exact Hx].
      * split; [discriminate|]. intros [_ H]. specialize (H _ (or_introl eq_refl)). discriminate.
      * split; [discriminate|]. intros [_ H]. specialize (H _ (or_introl eq_refl)). discriminate.
Qed.

Lemma first_failure_none rs : forall i, (forall r, In r rs -> r = Ok tt) -> first_failure rs i = None.
Proof.
  induction rs as [|r t IH]; intros i H; [reflexivity|]. cbn.
  rewrite (H r (or_introl eq_refl)). apply IH. intros x Hx. apply H. right. exact Hx.
Qed.

(* what "accepted by header-first import" means *)
Theorem validate_ok_iff c chain now hs seals bad :
  validate_with_seals c chain now hs seals bad = VOk <->
  contiguous_b hs = true /\
  (forall h, In h hs -> bad (h_hash h) = false) /\
  (forall i, i < length hs -> verify_worker c chain now hs seals i = Ok tt).
Proof.
  unfold validate_with_seals. destruct (contiguous_b hs); cbn [negb].
  2:{ split; [discriminate | intros [H _]; discriminate]. }
  rewrite read_results_ok by (rewrite map_length, seq_length; reflexivity).
  split.
  - intros [H1 H2]. split; [reflexivity|]. split; [exact H1|]. intros i Hi. apply H2.
    apply in_map_iff. exists i. split; [reflexivity|]. apply in_seq. lia.
  - intros [_ [H1 H2]]. split; [exact H1|]. intros r Hr. apply in_map_iff in Hr as [i [<- Hi]].
    apply in_seq in Hi. apply H2. lia.
Qed.

(* ... and on a batch of unknown headers it is what one-by-one VerifyHeader accepts, with the seal checked exactly
   on the sampled headers *)
Theorem validate_ok_sequential c chain now hs seals bad :
  batch_ok chain hs ->
  validate_with_seals c chain now hs seals bad = VOk ->
  sequential c chain now hs seals 0 = None.
Proof.
  intros Hok Hv. apply validate_ok_iff in Hv as [_ [_ Hw]].
  rewrite <- (workers_equal_sequential c chain now hs seals Hok).
  apply first_failure_none. intros r Hr. apply in_map_iff in Hr as [i [<- Hi]]. apply in_seq in Hi. apply Hw. lia.
Qed.

Theorem validate_header_chain_unfold c chain now hs freq rands bad :
  validate_header_chain c chain now hs freq rands bad =
  if negb (contiguous_b hs) then VNonContiguous
  else match pick_seals (length hs) freq rands with
       | None => VPanic
       | Some seals => validate_with_seals c chain now hs seals bad
       end.
Proof. reflexivity. Qed.

Lemma pick_seals_example :
  pick_seals 10 4 [3; 0; 7] = Some [false; false; false; true; true; false; false; false; false; true] /\
  pick_seals 8 4 [1; 2] = Some [false; true; false; false; false; false; true; true] /\
  pick_seals 0 4 [] = None /\ pick_seals 5 0 [] = None.
Proof. vm_compute. repeat split; reflexivity. Qed.

(* ValidateHeaderChain consumes exactly ONE result per header, known or not (the engine emits a result for a known header
   as well: its worker returns nil): with no blacklisted hash the verdict is the first failure of the result stream, at
   the position of the header it belongs to — in particular results are never skipped for headers already in the chain *)
Local Open Scope nat_scope.
Lemma read_results_first_failure hs : forall rs i,
  length rs = length hs ->
  read_results (fun _ => false) hs rs i =
  match first_failure rs i with
  | None => VOk
  | Some (j, Err e) => VFail j e
  | Some (j, _) => VPanic
  end.
Proof.
  induction hs as [|h ht IH]; intros rs i Hl; destruct rs as [|r rt]; try discriminate Hl; cbn [read_results first_failure].
  - reflexivity.
  - destruct r as [[]| e |]; try reflexivity. apply IH. cbn in Hl. lia.
Qed.

Theorem validate_is_first_failure c chain now hs seals :
  contiguous_b hs = true ->
  validate_with_seals c chain now hs seals (fun _ => false) =
  match first_failure (map (verify_worker c chain now hs seals) (seq 0 (length hs))) 0 with
  | None => VOk
  | Some (j, Err e) => VFail j e
  | Some (j, _) => VPanic
  end.
Proof.
  intros Hc. unfold validate_with_seals. rewrite Hc. cbn [negb].
  apply read_results_first_failure. rewrite map_length, seq_length. reflexivity.
Qed.

(* a header already known to the chain still has its own slot in the stream: its worker answers Ok *)
Lemma known_header_worker_ok c chain now hs seals i h p g :
  nth_error hs i = Some h -> (2 <= i)%nat ->
  nth_error hs (i - 1) = Some p -> nth_error hs (i - 2) = Some g ->
  h_parent h = h_hash p ->
  get_header chain (h_hash h) (big_uint64 (h_number h)) <> None ->
  verify_worker c chain now hs seals i = Ok tt.
Proof.
  intros Hh Hi Hp Hg Hpar Hk. unfold verify_worker. rewrite Hh.
  destruct i as [|[|k]]; try lia.
  replace (S (S k) - 1) with (S k) in Hp by lia. replace (S (S k) - 2) with k in Hg by lia.
  destruct (nth_error hs 0) as [h0|] eqn:E0.
  2:{ apply nth_error_None in E0. assert (length hs > 0) by (apply (nth_error_Some hs (S (S k))) in Hh || (destruct hs; [destruct k; discriminate | cbn; lia])). lia. }
  rewrite Hp, Hg, Hpar, bytes_eqb_refl.
  destruct (get_header chain (h_hash h) (big_uint64 (h_number h))); [reflexivity | contradiction].
Qed.
