(* Consensus/MinimumProofs.v — "never below the active minimum" (property C13), at full strength:
   an exact criterion (minimum_holds) for every fork configuration, every height and both shapes of
   the grandparent argument, and its value on every configuration of the generated parameters. *)
From AQ Require Import Lib.Bytes Generated.GenParamsConsensus Consensus.HeaderModel Consensus.HeaderSpec
  Consensus.HeaderProofs.
From Coq Require Import ZifyBool.
Local Open Scope Z_scope.
Set Default Timeout 120.

Definition is_some {A} (o : option A) : bool := match o with Some _ => true | None => false end.

(* does the rule in force at block `next` keep every result at or above the minimum selected for `next`?
   (has_gp: whether CalcDifficulty is given a grandparent; only the HF10 rule reads it) *)
Definition minimum_holds (c : cfg) (next : Z) (has_gp : bool) : bool :=
  match spec_algo c next with
  | AReset f => spec_minimum c next <=? reset_value f
  | ASimple => true
  | AGrandparent => has_gp && is_hf c 5 next
  | AHomestead hf1 =>
    (big_uint64 (chain_id c) =? 61717561) && (spec_minimum c next <=? (if hf1 then 100001792 else 99999999))
  end.

Lemma spec_minimum_ge c n : 46039386 <= spec_minimum c n.
Proof. unfold spec_minimum, pick. destruct (is_hf c 1 n), (is_hf c 3 n), (is_hf c 5 n); lia. Qed.

Lemma spec_minimum_no_hf5 c n : is_hf c 5 n = false -> 46039386 < spec_minimum c n.
Proof. intros H. unfold spec_minimum, pick. rewrite H. destruct (is_hf c 1 n), (is_hf c 3 n); lia. Qed.

Lemma spec_algo_homestead c n hf1 : spec_algo c n = AHomestead hf1 -> hf1 = is_hf c 1 n.
Proof.
  unfold spec_algo.
  destruct (is_hf c 10 _); [discriminate|]. destruct (fork_block c 8 _); [discriminate|].
  destruct (fork_block c 6 _ || fork_block c 7 _); [discriminate|].
  destruct (fork_block c 5 _); [discriminate|]. destruct (fork_block c 3 _); [discriminate|].
  destruct (is_hf c 2 _); [discriminate|]. destruct (fork_block c 1 _); [discriminate|].
  intros H. inversion H. reflexivity.
Qed.

(* the criterion of the partial theorem is a sufficient one *)
Lemma minimum_enforced_holds c next gp :
  minimum_enforced c next gp = true -> minimum_holds c next (is_some gp) = true.
Proof.
  unfold minimum_enforced, minimum_holds.
  destruct (spec_algo c next) as [| f | | hf1] eqn:Ea; try (intros H; exact H).
  - destruct gp; cbn; [intros H; exact H | discriminate].
  - intros H.
    assert (H3 : is_hf c 3 next = false) by lia. assert (H5 : is_hf c 5 next = false) by lia.
    rewrite (spec_minimum_early _ _ H3 H5). rewrite <- (spec_algo_homestead _ _ _ Ea).
    destruct hf1; lia.
Qed.

Definition witness_header (number time : Z) : header :=
  {| h_hash := []; h_parent := []; h_number := number; h_time := time; h_diff := 0;
     h_gas_limit := 5000; h_gas_used := 0; h_extra_len := 0; h_seal := 0 |}.

(* soundness: where the criterion holds the result is never below the minimum *)
Theorem minimum_holds_sound c time p gp d :
  minimum_holds c (h_number p + 1) (is_some gp) = true ->
  calc_difficulty c time p gp = Ok d ->
  spec_minimum c (h_number p + 1) <= d.
Proof.
  rewrite difficulty_is_spec. unfold difficulty_spec, minimum_holds.
  destruct (spec_algo c (h_number p + 1)) as [| f | | hf1] eqn:Ea.
  - destruct gp as [g|]; cbn; [|discriminate].
    destruct (h_time p <=? h_time g); [discriminate|].
    intros H5 Hd. inversion Hd; subst. pose proof (spec_minimum_hf5 _ _ H5) as E5. unfold at_least. lia.
  - intros Hm Hd. inversion Hd; subst. lia.
  - intros _ Hd. inversion Hd; subst. unfold at_least. lia.
  - intros Hm Hd.
    assert (Hmain : (big_uint64 (chain_id c) =? 61717561) = true) by lia.
    rewrite Hmain in Hd. inversion Hd; subst. unfold at_least. lia.
Qed.

(* completeness: where it does not hold, a parent with difficulty 0 (and, under the HF10 rule, a grandparent
   one second earlier) is sent below the minimum *)
Theorem minimum_holds_complete c next b :
  minimum_holds c next b = false ->
  exists time p gp d,
    h_number p + 1 = next /\ is_some gp = b /\ calc_difficulty c time p gp = Ok d /\ d < spec_minimum c next.
Proof.
  intros Hf.
  set (p := witness_header (next - 1) 1).
  set (gp := if b then Some (witness_header (next - 2) 0) else None).
  assert (Hn : h_number p + 1 = next) by (cbn; lia).
  assert (Hb : is_some gp = b) by (unfold gp; destruct b; reflexivity).
  pose proof (spec_minimum_ge c next) as Hge.
  exists 1, p, gp.
  assert (Hs : exists d, difficulty_spec c 1 p gp = Some d /\ d < spec_minimum c next).
  { unfold difficulty_spec. rewrite Hn. unfold minimum_holds in Hf.
    pose proof (spec_minimum_no_hf5 c next) as Hno.
    set (m := spec_minimum c next) in *. clearbody m.
    destruct (spec_algo c next) as [| f | | hf1] eqn:Ea.
    - unfold gp. destruct b; cbn in Hf |- *.
      + specialize (Hno Hf).
        destruct (is_hf c 8 (next - 1)); eexists; (split; [reflexivity|]); vm_compute at_least; lia.
      + eexists; split; [reflexivity|]. lia.
    - eexists; split; [reflexivity|]. lia.
    - discriminate.
    - cbn. destruct (big_uint64 (chain_id c) =? 61717561) eqn:Em; cbn in Hf.
      + destruct hf1; eexists; (split; [reflexivity|]); vm_compute at_least; lia.
      + eexists; split; [reflexivity|]. vm_compute homestead_formula. lia. }
  destruct Hs as [d [Hd Hlt]]. exists d. repeat split; try assumption.
  rewrite difficulty_is_spec, Hd. reflexivity.
Qed.

(* the full statement: for every fork configuration, height and grandparent shape, the calculator stays at or
   above the minimum for every parent and timestamp exactly when minimum_holds *)
Theorem difficulty_ge_minimum_full c next b :
  minimum_holds c next b = true <->
  (forall time p gp d, h_number p + 1 = next -> is_some gp = b ->
     calc_difficulty c time p gp = Ok d -> spec_minimum c next <= d).
Proof.
  split.
  - intros Hm time p gp d Hn Hb Hd. subst next b. exact (minimum_holds_sound _ _ _ _ _ Hm Hd).
  - intros H. destruct (minimum_holds c next b) eqn:Hm; [reflexivity|].
    destruct (minimum_holds_complete _ _ _ Hm) as [time [p [gp [d [Hn [Hb [Hd Hlt]]]]]]].
    specialize (H _ _ _ _ Hn Hb Hd). lia.
Qed.

(* ---------------------------------------------------------------- every configuration of the generated parameters *)

Definition devclique_cfg : cfg := {| chain_id := devclique_chain_id; hf := devclique_hf |}.

Definition generated_cfgs : list cfg := map (fun x => {| chain_id := fst x; hf := snd x |}) all_cfgs.

Lemma generated_cfgs_eq :
  generated_cfgs = [mainnet_cfg; testnet_cfg; testnet2_cfg; testnet3_cfg; dev_cfg; devclique_cfg; test_cfg].
Proof. reflexivity. Qed.

(* the value of the criterion on the generated configurations, at every height >= 1 *)
Definition generated_minimum_table (c : cfg) (next : Z) : bool :=
  if chain_id c =? testnet2_chain_id then next =? 8
  else if chain_id c =? testnet3_chain_id then false
  else true.

Ltac table_cases next :=
  unfold minimum_holds, spec_algo, fork_block, is_hf, spec_minimum, pick, is_hf; cbn;
  repeat match goal with |- context [?k <=? next] => destruct (k <=? next) eqn:?; try lia; cbn end;
  repeat match goal with |- context [next =? ?k] => destruct (next =? k) eqn:?; try lia; cbn end;
  try reflexivity; try lia.

Lemma mainnet_minimum_holds next b : minimum_holds mainnet_cfg next b = true.
Proof. table_cases next. Qed.
Lemma testnet_minimum_holds next b : 1 <= next -> minimum_holds testnet_cfg next b = true.
Proof. intros Hn. table_cases next. Qed.
Lemma dev_minimum_holds next b : 1 <= next -> minimum_holds dev_cfg next b = true.
Proof. intros Hn. table_cases next. Qed.
Lemma test_minimum_holds next b : 1 <= next -> minimum_holds test_cfg next b = true.
Proof. intros Hn. table_cases next. Qed.
Lemma testnet2_minimum_holds next b : 1 <= next -> minimum_holds testnet2_cfg next b = (next =? 8).
Proof. intros Hn. table_cases next. Qed.
Lemma testnet3_minimum_holds next b : 1 <= next -> minimum_holds testnet3_cfg next b = false.
Proof. intros Hn. table_cases next. Qed.

Theorem generated_cfgs_minimum_table c next b :
  In c generated_cfgs -> 1 <= next -> minimum_holds c next b = generated_minimum_table c next.
Proof.
  rewrite generated_cfgs_eq. intros Hin Hn.
  repeat (destruct Hin as [Hc | Hin]; [subst c|]); try contradiction.
  - rewrite mainnet_minimum_holds. reflexivity.
  - rewrite testnet_minimum_holds by assumption. reflexivity.
  - rewrite testnet2_minimum_holds by assumption. reflexivity.
  - rewrite testnet3_minimum_holds by assumption. reflexivity.
  - rewrite dev_minimum_holds by assumption. reflexivity.
  - change devclique_cfg with dev_cfg. rewrite dev_minimum_holds by assumption. reflexivity.
  - rewrite test_minimum_holds by assumption. reflexivity.
Qed.

(* hence, on every generated configuration and for every block number >= 1: the result is >= the minimum for every
   parent, timestamp and grandparent — except on testnet2 (every height but the HF8 reset at 8) and testnet3 (every
   height), where some parent is sent below it *)
Theorem generated_cfgs_difficulty_ge_minimum c :
  In c generated_cfgs ->
  forall next, 1 <= next ->
    if generated_minimum_table c next
    then forall time p gp d, h_number p + 1 = next -> calc_difficulty c time p gp = Ok d -> spec_minimum c next <= d
    else forall b, exists time p gp d,
           h_number p + 1 = next /\ is_some gp = b /\ calc_difficulty c time p gp = Ok d /\ d < spec_minimum c next.
Proof.
  intros Hin next Hn.
  destruct (generated_minimum_table c next) eqn:Et.
  - intros time p gp d Hp Hd.
    pose proof (generated_cfgs_minimum_table c next (is_some gp) Hin Hn) as Hm. rewrite Et in Hm.
    subst next. exact (minimum_holds_sound _ _ _ _ _ Hm Hd).
  - intros b. apply minimum_holds_complete. rewrite (generated_cfgs_minimum_table c next b Hin Hn). exact Et.
Qed.

(* a realistic witness on testnet3 (parent at the minimum, 1000 s later): replayed on CalcDifficulty by the
   directed case (1) of harness/cmd/c13, signature difficulty-below-active-minimum-no-hf2 *)
Lemma difficulty_ge_minimum_testnet3_refuted :
  exists time p gp d,
    In testnet3_cfg generated_cfgs /\
    calc_difficulty testnet3_cfg time p gp = Ok d /\ h_diff p = spec_minimum testnet3_cfg (h_number p) /\
    d < spec_minimum testnet3_cfg (h_number p + 1).
Proof.
  exists 1001000, {| h_hash := []; h_parent := []; h_number := 29; h_time := 1000000; h_diff := 46039386;
                     h_gas_limit := 5000; h_gas_used := 0; h_extra_len := 0; h_seal := 0 |}, None.
  eexists. split; [vm_compute; tauto|]. split; [vm_compute; reflexivity|]. split; vm_compute; reflexivity.
Qed.
