(* Consensus/HeaderModel.v — executable, code-shaped model of header / uncle /
   difficulty / batch verification of the aquahash engine (property C13).
   Definitions only (extracted); proofs are in HeaderProofs.v.

   Conventions: big.Int = Z; uint64 fields are Z in [0,2^64) with wrap-around
   written explicitly where the Go code can wrap; a Go panic / nil dereference
   is the result value [Panic]; hashes are byte strings handed in with the
   case (header hashes are oracle values computed by the implementation). *)
From AQ Require Import Lib.Bytes Generated.GenParamsConsensus.
Local Open Scope Z_scope.

(* ------------------------------------------------------------------ results *)

Inductive verr :=
| EExtra | ELargeTime | EFuture | EZeroTime | EDifficulty | EGasCap | EGasUsed
| EGasLimit | ENumber | ESeal (code : Z)
| EUnknownAncestor | EUnknownGrandparent
| ETooManyUncles | EDuplicateUncle | EUncleIsAncestor | EDanglingUncle | EVersionUnset.

Inductive res (A : Type) := Ok (a : A) | Err (e : verr) | Panic.
Arguments Ok {A} a. Arguments Err {A} e. Arguments Panic {A}.

(* ------------------------------------------------------------------ machine integers *)

Definition two64 : Z := 18446744073709551616.
Definition two63 : Z := 9223372036854775808.
Definition two256 : Z := 115792089237316195423570985008687907853269984665640564039457584007913129639936.

(* uint64 wrap-around *)
Definition u64 (z : Z) : Z := z mod two64.
(* big.Int Uint64(): low 64 bits of the absolute value *)
Definition big_uint64 (z : Z) : Z := Z.abs z mod two64.
(* int64(x) conversion / int64 arithmetic result *)
Definition to_int64 (z : Z) : Z := let m := z mod two64 in if m <? two63 then m else m - two64.

(* ------------------------------------------------------------------ chain configuration *)
(* params/config.go ChainConfig (ChainId, HF); params/hf.go ForkMap: only non-nil entries *)
Record cfg := { chain_id : Z; hf : list (Z * Z) }.

Fixpoint get_hf (m : list (Z * Z)) (n : Z) : option Z :=
  match m with
  | [] => None
  | (k, v) :: t => if k =? n then Some v else get_hf t n
  end.

(* params/hf.go IsHF + params/config.go isForked *)
Definition is_hf (c : cfg) (n : Z) (num : Z) : bool :=
  match get_hf (hf c) n with None => false | Some s => s <=? num end.

(* `config.IsHF(n, next) && next.Cmp(config.GetHF(n)) == 0` of calcDifficultyHFX *)
Definition fork_block (c : cfg) (n : Z) (next : Z) : bool :=
  is_hf c n next && match get_hf (hf c) n with None => false | Some s => next =? s end.

(* params/hf.go GetBlockVersion *)
Definition block_version (c : cfg) (height : Z) : Z :=
  if is_hf c 9 height then 4
  else if is_hf c 8 height then 3
  else if is_hf c 5 height then 2
  else 1.

(* ------------------------------------------------------------------ headers *)
(* core/types/block.go Header, restricted to the fields the rules read.  h_hash is
   Header.Hash() under the version selected by height; h_seal is the outcome of
   VerifySeal on this header (0 = nil, -1 = panic, other = an error code): the
   seal is property C14's business and enters here as an oracle value. *)
Record header := {
  h_hash : bytes; h_parent : bytes; h_number : Z; h_time : Z; h_diff : Z;
  h_gas_limit : Z; h_gas_used : Z; h_extra_len : Z; h_seal : Z }.

(* consensus.ChainReader.GetHeader(hash, number) over the headers known to the chain *)
Fixpoint get_header (chain : list header) (hash : bytes) (number : Z) : option header :=
  match chain with
  | [] => None
  | h :: t => if bytes_eqb (h_hash h) hash && (big_uint64 (h_number h) =? number) then Some h
              else get_header t hash number
  end.

(* ------------------------------------------------------------------ difficulty.go *)

(* common/math BigMax(x, y): if x.Cmp(y) < 0 { return y }; return x *)
Definition big_max (x y : Z) : Z := if x <? y then y else x.

(* shared body of calcDifficultyStarting / calcDifficultyHF1:
   x = parent_diff + parent_diff/2048 * max(1 - (time - parent_time)/10, -99)
   (big.Int Div is Euclidean; the divisors are positive so it is Z.div) *)
Definition homestead_adjust (time : Z) (p : header) : Z :=
  let x := 1 - (time - h_time p) / 10 in
  let x := if x <? -99 then -99 else x in
  h_diff p + (h_diff p / div_default) * x.

(* difficulty.go calcDifficultyStarting *)
Definition calc_starting (time : Z) (p : header) (chain : Z) : Z :=
  let x := homestead_adjust time p in
  if chain =? mainnet_chain_id then big_max x min_diff_genesis else x.

(* difficulty.go calcDifficultyHF1 *)
Definition calc_hf1 (time : Z) (p : header) (chain : Z) : Z :=
  let x := homestead_adjust time p in
  if chain =? mainnet_chain_id then big_max x min_diff_hf1 else x.

(* difficulty.go calcDifficultyGrandparent (HF10, experimental) *)
Definition calc_grandparent (c : cfg) (p : header) (gp : option header) (chain : Z) : res Z :=
  match gp with
  | None => Ok (h_diff p)
  | Some g =>
    if h_time p <=? h_time g then Panic (* panic("invalid code") *)
    else
      let divisor := if is_hf c 8 (h_number p) then div_hf8 else div_hf5 in
      let x := 1 - (h_time p - h_time g) / 240 in
      let x := if x <? -99 then -99 else x in
      let x := h_diff g + (h_diff g / divisor) * x in
      Ok (if chain =? mainnet_chain_id then big_max min_diff_hf5 x else big_max min_diff_hf5_testnet x)
  end.

(* the [adjust,min,limit] tail of calcDifficultyHFX *)
Definition simple_adjust (time : Z) (p : header) (adjust min limit : Z) : Z :=
  let diff := if (time - h_time p) <? limit then h_diff p + adjust else h_diff p - adjust in
  if diff <? min then min else diff.

(* difficulty.go calcDifficultyHFX (FAKEPOWTEST unset).  time is the uint64 argument. *)
Definition calc_difficulty (c : cfg) (time : Z) (p : header) (gp : option header) : res Z :=
  let next := h_number p + 1 in
  let chain := big_uint64 (chain_id c) in
  let adjust := h_diff p / div_default in
  let limit := duration_limit in
  let min := min_diff_genesis in
  let '(min, adjust) :=
    if is_hf c 5 next then (min_diff_hf5, h_diff p / div_hf5)
    else if is_hf c 3 next then (min_diff_hf3, adjust)
    else if is_hf c 1 next then (min_diff_hf1, adjust)
    else (min, adjust) in
  let limit := if is_hf c 6 next then duration_limit_hf6 else limit in
  let adjust :=
    if is_hf c 8 next then h_diff p / div_hf8
    else if is_hf c 6 next then h_diff p / div_hf6
    else adjust in
  let simple := Ok (simple_adjust time p adjust min limit) in
  if is_hf c 10 next then calc_grandparent c p gp chain
  else if fork_block c 8 next then Ok min_diff_hf5
  else if fork_block c 6 next then simple
  else if fork_block c 7 next then simple
  else if fork_block c 5 next then Ok min_diff_hf5
  else if fork_block c 3 next then Ok min_diff_hf3
  else if fork_block c 2 next then simple
  else if is_hf c 2 next then simple
  else if fork_block c 1 next then Ok min_diff_hf1
  else if is_hf c 1 next then Ok (calc_hf1 time p chain)
  else Ok (calc_starting time p chain).

(* consensus.go Aquahash.CalcDifficulty: fetches the grandparent when it was not given *)
Definition engine_calc_difficulty (c : cfg) (chain : list header) (time : Z) (p : header) (gp : option header) : res Z :=
  let gp :=
    match gp with
    | Some g => Some g
    | None => if h_number p =? 0 then None
              else get_header chain (h_parent p) (u64 (big_uint64 (h_number p) - 1))
    end in
  calc_difficulty c time p gp.

(* ------------------------------------------------------------------ consensus.go verifyHeader *)
Definition seal_result (h : header) : res unit :=
  if h_seal h =? 0 then Ok tt else if h_seal h =? -1 then Panic else Err (ESeal (h_seal h)).

Definition verify_header (c : cfg) (chain : list header) (now : Z) (h : header)
           (parent gp : option header) (uncle seal : bool) : res unit :=
  if h_extra_len h >? max_extra_data_size then Err EExtra
  else if uncle && (h_time h >? two256 - 1) then Err ELargeTime
  else if negb uncle && (h_time h >? now + allowed_future_secs) then Err EFuture
  else match parent with
  | None => Panic (* parent.Time: nil dereference *)
  | Some p =>
    if h_time h <=? h_time p then Err EZeroTime
    else match engine_calc_difficulty c chain (big_uint64 (h_time h)) p gp with
    | Panic => Panic
    | Err e => Err e
    | Ok expected =>
      if negb (expected =? h_diff h) then Err EDifficulty
      else if h_gas_limit h >? two63 - 1 then Err EGasCap
      else if h_gas_used h >? h_gas_limit h then Err EGasUsed
      else
        (* diff := int64(parent.GasLimit) - int64(header.GasLimit); if diff < 0 { diff *= -1 } *)
        let diff := to_int64 (to_int64 (h_gas_limit p) - to_int64 (h_gas_limit h)) in
        let diff := if diff <? 0 then to_int64 (diff * -1) else diff in
        let limit := h_gas_limit p / gas_limit_bound_divisor in
        if (u64 diff >=? limit) || (h_gas_limit h <? min_gas_limit) then Err EGasLimit
        else if negb (h_number h - h_number p =? 1) then Err ENumber
        else if seal then seal_result h else Ok tt
    end
  end.

(* consensus.go VerifyHeader (PowMode other than ModeFullFake) *)
Definition verify_header_top (c : cfg) (chain : list header) (now : Z) (h : header) (seal : bool) : res unit :=
  let number := big_uint64 (h_number h) in
  match get_header chain (h_hash h) number with
  | Some _ => Ok tt
  | None =>
    match get_header chain (h_parent h) (u64 (number - 1)) with
    | None => Err EUnknownAncestor
    | Some p =>
      if number >? 2 then
        match get_header chain (h_parent p) (u64 (number - 2)) with
        | None => Err EUnknownGrandparent
        | Some g => verify_header c chain now h (Some p) (Some g) false seal
        end
      else verify_header c chain now h (Some p) None false seal
    end
  end.

(* consensus.go verifyHeaderWorker *)
Definition verify_worker (c : cfg) (chain : list header) (now : Z) (hs : list header)
           (seals : list bool) (index : nat) : res unit :=
  match nth_error hs index, nth_error hs 0 with
  | Some h, Some h0 =>
    let n0 := big_uint64 (h_number h0) in
    let '(parent, gp) :=
      match index with
      | O =>
        let parent := get_header chain (h_parent h0) (u64 (n0 - 1)) in
        (parent,
         match parent with
         | Some p => if n0 >? 2 then get_header chain (h_parent p) (u64 (n0 - 2)) else None
         | None => None
         end)
      | S O => (Some h0, if n0 >? 1 then get_header chain (h_parent h0) (u64 (n0 - 1)) else None)
      | S (S k) =>
        match nth_error hs (S k), nth_error hs k with
        | Some h1, Some h2 => if bytes_eqb (h_hash h1) (h_parent h) then (Some h1, Some h2) else (None, None)
        | _, _ => (None, None)
        end
      end in
    match parent, gp with
    | None, _ =>
      if negb (n0 =? 0) then Err EUnknownAncestor
      else match get_header chain (h_hash h) (big_uint64 (h_number h)) with
           | Some _ => Ok tt
           | None => verify_header c chain now h None gp false (nth index seals false)
           end
    | Some p, None =>
      if big_uint64 (h_number p) >? 1 then Err EUnknownGrandparent
      else match get_header chain (h_hash h) (big_uint64 (h_number h)) with
           | Some _ => Ok tt
           | None => verify_header c chain now h parent gp false (nth index seals false)
           end
    | Some p, Some g =>
      match get_header chain (h_hash h) (big_uint64 (h_number h)) with
      | Some _ => Ok tt
      | None => verify_header c chain now h parent gp false (nth index seals false)
      end
    end
  | _, _ => Panic (* index out of range *)
  end.

(* ------------------------------------------------------------------ VerifyHeaders: the result collector *)
(* The goroutine of VerifyHeaders that feeds indices to the workers and delivers
   errors[out] in input order.  Events: the collector hands the next index to a
   free worker (Dispatch), or receives index i on `done` (Complete i: the worker
   stored errors[i] before sending).  Any dispatched index may complete next.
   The number of workers only restricts which Dispatch events are enabled; it is
   left unconstrained here, which covers every worker count. *)
Inductive event := Dispatch | Complete (i : nat).

Record bstate := {
  b_in : nat; b_out : nat;
  b_running : list nat;                   (* dispatched, not yet received on `done` *)
  b_done : list (nat * res unit);         (* checked[i] = true, errors[i] *)
  b_delivered : list (res unit);          (* sent on errorsOut, oldest first *)
  b_finished : bool }.

Definition b_init : bstate :=
  {| b_in := 0; b_out := 0; b_running := []; b_done := []; b_delivered := []; b_finished := false |}.

Fixpoint lookup_nat {A} (i : nat) (l : list (nat * A)) : option A :=
  match l with
  | [] => None
  | (k, v) :: t => if Nat.eqb k i then Some v else lookup_nat i t
  end.

Fixpoint remove_nat (i : nat) (l : list nat) : list nat :=
  match l with [] => [] | k :: t => if Nat.eqb k i then t else k :: remove_nat i t end.

Fixpoint mem_nat (i : nat) (l : list nat) : bool :=
  match l with [] => false | k :: t => Nat.eqb k i || mem_nat i t end.

(* for checked[index] = true; checked[out]; out++ { errorsOut <- errors[out]; if out == len-1 { return } } *)
Fixpoint flush_done (fuel : nat) (n : nat) (done : list (nat * res unit)) (out : nat)
         (delivered : list (res unit)) : nat * list (res unit) * bool :=
  match fuel with
  | O => (out, delivered, false)
  | S f =>
    match lookup_nat out done with
    | None => (out, delivered, false)
    | Some r =>
      if Nat.eqb out (n - 1) then (out, delivered ++ [r], true)
      else flush_done f n done (S out) (delivered ++ [r])
    end
  end.

Definition bstep (verify_one : nat -> res unit) (n : nat) (s : bstate) (e : event) : option bstate :=
  if b_finished s then None else
  match e with
  | Dispatch =>
    if Nat.ltb (b_in s) n then
      Some {| b_in := S (b_in s); b_out := b_out s; b_running := b_in s :: b_running s;
              b_done := b_done s; b_delivered := b_delivered s; b_finished := false |}
    else None
  | Complete i =>
    if mem_nat i (b_running s) then
      let done := (i, verify_one i) :: b_done s in
      let '(out, delivered, fin) := flush_done (S n) n done (b_out s) (b_delivered s) in
      Some {| b_in := b_in s; b_out := out; b_running := remove_nat i (b_running s);
              b_done := done; b_delivered := delivered; b_finished := fin |}
    else None
  end.

Fixpoint brun (verify_one : nat -> res unit) (n : nat) (s : bstate) (sched : list event) : option bstate :=
  match sched with
  | [] => Some s
  | e :: t => match bstep verify_one n s e with None => None | Some s' => brun verify_one n s' t end
  end.

(* what the caller reads from the results channel after the given schedule *)
Definition batch_results (c : cfg) (chain : list header) (now : Z) (hs : list header) (seals : list bool)
           (sched : list event) : option (list (res unit) * bool) :=
  match brun (verify_worker c chain now hs seals) (length hs) b_init sched with
  | None => None
  | Some s => Some (b_delivered s, b_finished s)
  end.

(* one-by-one verification: each accepted header joins the chain before the next is checked;
   stops at the first failure (index, result) *)
Fixpoint sequential (c : cfg) (chain : list header) (now : Z) (hs : list header) (seals : list bool)
         (idx : nat) : option (nat * res unit) :=
  match hs with
  | [] => None
  | h :: t =>
    match verify_header_top c chain now h (hd false seals) with
    | Ok _ => sequential c (h :: chain) now t (tl seals) (S idx)
    | r => Some (idx, r)
    end
  end.

Fixpoint first_failure (rs : list (res unit)) (idx : nat) : option (nat * res unit) :=
  match rs with
  | [] => None
  | Ok _ :: t => first_failure t (S idx)
  | r :: _ => Some (idx, r)
  end.

(* ------------------------------------------------------------------ consensus.go VerifyUncles *)

(* bl_uncles: the uncle headers, h_hash = their hash under the version of their OWN height (what
   uncle.SetVersion(GetBlockVersion(uncle.Number)) returns).  bl_uncles_stamped: the hashes of the same headers as the
   chain reader hands them over: core.BlockChain.GetBlock calls block.SetVersion(version of the INCLUDING block), which
   stamps that version on every uncle; the two differ when uncle and including block sit on opposite sides of a
   version-changing fork (HF5 / HF8 / HF9). *)
Record block := { bl_header : header; bl_version : Z; bl_uncles : list header; bl_uncles_stamped : list bytes }.

(* under which version VerifyUncles takes the identity of the uncles already included by the ancestors *)
Inductive uncle_identity :=
| OwnHeight   (* the code: uncles.Add(uncle.SetVersion(byte(chain.Config().GetBlockVersion(uncle.Number)))) *)
| AsStamped.  (* uncle.Hash() on the header as returned by GetBlock (the including block's version) *)

Definition past_uncle_hashes (m : uncle_identity) (a : block) : list bytes :=
  match m with OwnHeight => map h_hash (bl_uncles a) | AsStamped => bl_uncles_stamped a end.

(* consensus.ChainReader.GetBlock(hash, number) *)
Fixpoint get_block (blocks : list block) (hash : bytes) (number : Z) : option block :=
  match blocks with
  | [] => None
  | b :: t => if bytes_eqb (h_hash (bl_header b)) hash && (big_uint64 (h_number (bl_header b)) =? number) then Some b
              else get_block t hash number
  end.

Fixpoint lookup_hash {A} (k : bytes) (m : list (bytes * A)) : option A :=
  match m with
  | [] => None
  | (k', v) :: t => if bytes_eqb k' k then Some v else lookup_hash k t
  end.

Fixpoint mem_hash (k : bytes) (s : list bytes) : bool :=
  match s with [] => false | k' :: t => bytes_eqb k' k || mem_hash k t end.

(* the loop `for i := 0; i < 7; i++` gathering ancestors and their uncles; returns the
   decremented `number` as well, because the later `number > 15000` tests read it *)
Fixpoint gather_v (m : uncle_identity) (fuel : nat) (blocks : list block) (parent : bytes) (number : Z)
         (anc : list (bytes * header)) (unc : list bytes) : Z * list (bytes * header) * list bytes :=
  match fuel with
  | O => (number, anc, unc)
  | S f =>
    match get_block blocks parent number with
    | None => (number, anc, unc)
    | Some a =>
      gather_v m f blocks (h_parent (bl_header a)) (u64 (number - 1))
               ((h_hash (bl_header a), bl_header a) :: anc)
               (past_uncle_hashes m a ++ unc)
    end
  end.

(* the code re-stamps every past uncle with the version of its own height *)
Definition gather := gather_v OwnHeight.

(* a 32-byte hash written as a hexadecimal numeral *)
Definition h32 (n : N) : bytes := be_fixed 32 n.

(* the hard-coded historic exceptions of VerifyUncles (mainnet blocks below ~15008) *)
Definition dup_wl : list (bytes * Z) :=
  [ (h32 0xbac2283407b519ffbb8c47772d1b7cf740646dddf69744ff44219cb868b00548%N, 13313);
    (h32 0xa955c8499ce9c4fb00700a8d97db8600dc50c8a81275627a18e30cfb82c19ac2%N, 13315);
    (h32 0x7da0315b99e059f17b18bfd7f07c57b8e3be3aac261dbf470fb2d6cb0acb9899%N, 13998) ].
Definition dangling_parent_wl : list (bytes * Z) :=
  [ (h32 0x6b818656fb5059ab4dd070e2c2822a7774065090e74ff31515764212c88e2923%N, 14003);
    (h32 0x0afd1b00b8e1a49652beeb860e3b58dacc865dd3e3d9d303374ed3ffdfef8eea%N, 14001) ].
Definition dangling_hash_wl : list (bytes * Z) :=
  [ (h32 0xed6dae6d2d4f599d78429e127e8a654fe96c30f4b6c9bacb01cfa45d8a57b45e%N, 14004);
    (h32 0x13cb01d5d3566d076b5e128e5733f17968f95329fb1777ff38db53abdcca3e4c%N, 14008);
    (h32 0x822735d89d8493434d3ec1f504c9f103d7bb4761cd358370b00dd234621cf1b9%N, 14009) ].

Fixpoint in_wl (k : bytes) (n : Z) (wl : list (bytes * Z)) : bool :=
  match wl with [] => false | (k', n') :: t => (bytes_eqb k' k && (n' =? n)) || in_wl k n t end.

(* duplicate uncle tolerated? (number is the decremented loop variable) *)
Definition dup_allowed (number : Z) (block_hash : bytes) (unum : Z) : bool :=
  negb (number >? 15000) && in_wl block_hash (big_uint64 unum) dup_wl.

(* dangling uncle tolerated?  In that case VerifyUncles returns nil at once. *)
Definition dangling_allowed (number : Z) (uparent uhash : bytes) (unum : Z) : bool :=
  negb (number >? 15000) &&
  (in_wl uparent (big_uint64 unum) dangling_parent_wl || in_wl uhash (big_uint64 unum) dangling_hash_wl).

Fixpoint uncle_loop (c : cfg) (chain : list header) (now : Z) (number : Z) (block_hash block_parent : bytes)
         (us : list header) (anc : list (bytes * header)) (unc : list bytes) : res unit :=
  match us with
  | [] => Ok tt
  | u :: rest =>
    let hash := h_hash u in
    if mem_hash hash unc && negb (dup_allowed number block_hash (h_number u)) then Err EDuplicateUncle
    else
      let unc := hash :: unc in
      match lookup_hash hash anc with
      | Some _ => Err EUncleIsAncestor
      | None =>
        match lookup_hash (h_parent u) anc with
        | None => if dangling_allowed number (h_parent u) hash (h_number u) then Ok tt else Err EDanglingUncle
        | Some p =>
          if bytes_eqb (h_parent u) block_parent
          then (if dangling_allowed number (h_parent u) hash (h_number u) then Ok tt else Err EDanglingUncle)
          else
            match verify_header c chain now u (Some p) (lookup_hash (h_parent p) anc) true true with
            | Ok _ => uncle_loop c chain now number block_hash block_parent rest anc unc
            | r => r
            end
        end
      end
  end.

(* consensus.go VerifyUncles (PowMode other than ModeFullFake) *)
Definition verify_uncles_v (m : uncle_identity) (c : cfg) (chain : list header) (blocks : list block) (now : Z) (b : block) : res unit :=
  let n := Z.of_nat (length (bl_uncles b)) in
  let bh := bl_header b in
  if n >? max_uncles then Err ETooManyUncles
  else if (n >? max_uncles_hf5) && is_hf c 5 (h_number bh) then Err ETooManyUncles
  else
    let '(number, anc, unc) := gather_v m 7 blocks (h_parent bh) (u64 (big_uint64 (h_number bh) - 1)) [] [] in
    if bl_version b =? 0 then Err EVersionUnset
    else
      let anc := (h_hash bh, bh) :: anc in
      let unc := h_hash bh :: unc in
      uncle_loop c chain now number (h_hash bh) (h_parent bh) (bl_uncles b) anc unc.

Definition verify_uncles := verify_uncles_v OwnHeight.
