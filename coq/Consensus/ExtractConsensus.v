(* Extraction of the consensus models (C13 header/uncle/difficulty/batch, C14 seal)
   for ocaml/consensus/driver.ml.  ExtrOcamlBasic only. *)
From AQ Require Import Lib.Bytes Lib.ExtractBase Lib.Keccak Generated.GenParamsConsensus
  Consensus.HeaderModel Consensus.Seal Consensus.ChainModel Consensus.BlockModel Consensus.SealerModel Consensus.DifficultyExtraModel Consensus.AbortModel.
Require Extraction.
Require Import ExtrOcamlBasic.
Extraction "../ocaml/consensus/model.ml" base_anchor keccak256
  block_version is_hf calc_difficulty engine_calc_difficulty verify_header verify_header_top
  verify_worker batch_results sequential first_failure verify_uncles verify_uncles_v pick_seals validate_with_seals validate_header_chain
  new_block block_op block_run block_rlp seal_threads calc_testnet3 abatch_results
  hash_no_nonce header_hash verify_seal mine rlp_no_nonce rlp_full.
