(* Consensus/DifficultyExtraModel.v — difficulty.go calcDifficultyTestnet3 (unreferenced in this tree; exported for the
   harness by zz_verif_export2.go).  Definitions only. *)
From AQ Require Import Lib.Bytes Generated.GenParamsConsensus Consensus.HeaderModel.
Local Open Scope Z_scope.

(* big.Int Quo truncates toward zero: Z.quot *)
Definition calc_testnet3 (time : Z) (p : header) (gp : option header) : Z :=
  match gp with
  | None => h_diff p
  | Some g =>
    let difference := time - h_time p in
    let gdifference := h_time g - h_time p in      (* grandparent minus parent, as written in the code *)
    if (difference <? 10) && (gdifference <? 10) then h_diff p + 1000
    else if (difference >? 20) && (gdifference >? 20) then h_diff p - 1000
    else if (difference >? 100) && (gdifference >? 100) then Z.quot (h_diff p) 2
    else h_diff p
  end.
