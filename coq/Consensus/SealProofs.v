(* Consensus/SealProofs.v — proofs about Consensus/Seal.v (property C14). *)
From AQ Require Import Lib.Bytes Rlp.RlpSpec Generated.GenParamsConsensus Consensus.HeaderModel Consensus.Seal.
From Coq Require Import ZifyBool ZifyN ZifyNat.
Local Open Scope Z_scope.

(* ---------------------------------------------------------------- generated constants are the documented ones *)
Lemma pow_numerator_is : pow_numerator = 2 ^ 256. Proof. reflexivity. Qed.
Lemma epoch_params_are : epoch_length = 30000 /\ max_epoch = 2048. Proof. split; reflexivity. Qed.
Lemma known_version_is : known_version = 4. Proof. reflexivity. Qed.

(* ---------------------------------------------------------------- version by height *)
Lemma block_version_spec c n :
  block_version c n =
    if is_hf c 9 n then 4 else if is_hf c 8 n then 3 else if is_hf c 5 n then 2 else 1.
Proof. reflexivity. Qed.

Lemma block_version_range c n : 1 <= block_version c n <= 4.
Proof. unfold block_version. destruct (is_hf c 9 n), (is_hf c 8 n), (is_hf c 5 n); lia. Qed.

Lemma is_hf_iff c k n : is_hf c k n = true <-> exists s, get_hf (hf c) k = Some s /\ s <= n.
Proof.
  unfold is_hf. destruct (get_hf (hf c) k) as [s|].
  - split.
    + intros H. exists s. split; [reflexivity | lia].
    + intros [s' [E H]]. inversion E; subst. lia.
  - split; [discriminate | intros [s [E _]]; discriminate].
Qed.

(* the version depends on the height only through the fork schedule, and is monotone in the height
   when the schedule is *)
Lemma is_hf_mono c k n m : n <= m -> is_hf c k n = true -> is_hf c k m = true.
Proof. intros Hnm H. apply is_hf_iff in H as [s [E Hs]]. apply is_hf_iff. exists s. split; [exact E | lia]. Qed.

Lemma block_version_mono c n m : n <= m -> block_version c n <= block_version c m.
Proof.
  intros Hnm. unfold block_version.
  destruct (is_hf c 9 n) eqn:E9.
  - rewrite (is_hf_mono c 9 n m Hnm E9). lia.
  - destruct (is_hf c 8 n) eqn:E8.
    + rewrite (is_hf_mono c 8 n m Hnm E8). destruct (is_hf c 9 m); lia.
    + destruct (is_hf c 5 n) eqn:E5.
      * rewrite (is_hf_mono c 5 n m Hnm E5). destruct (is_hf c 9 m), (is_hf c 8 m); lia.
      * destruct (is_hf c 9 m), (is_hf c 8 m), (is_hf c 5 m); lia.
Qed.

(* probes generated from the Go code: GetBlockVersion and IsHF(1..10) at the heights around every fork of
   every built-in configuration agree with the model *)
Definition nth_cfg (i : nat) : cfg :=
  match nth_error all_cfgs i with
  | Some (id, m) => {| chain_id := id; hf := m |}
  | None => {| chain_id := 0; hf := [] |}
  end.

Definition probe_ok (p : nat * Z * Z * list bool) : bool :=
  let '(i, h, v, bits) := p in
  (block_version (nth_cfg i) h =? v) &&
  forallb (fun '(k, b) => Bool.eqb (is_hf (nth_cfg i) k h) b) (combine [1;2;3;4;5;6;7;8;9;10] bits) &&
  (Nat.eqb (length bits) 10).

Lemma version_probes_ok : forallb probe_ok version_probes = true.
Proof. vm_compute. reflexivity. Qed.

Lemma version_probe_sound i h v bits :
  In (i, h, v, bits) version_probes -> block_version (nth_cfg i) h = v.
Proof.
  intros Hin. pose proof version_probes_ok as H. rewrite forallb_forall in H.
  specialize (H _ Hin). unfold probe_ok in H. lia.
Qed.

Section SealProofs.
  Variables keccak argonA argonB argonC : bytes -> bytes.
  Variable hashimoto : Z -> bytes -> Z -> option (bytes * bytes).

  Notation vseal := (verify_seal keccak argonA argonB argonC hashimoto).
  Notation powf := (pow keccak argonA argonB argonC hashimoto).
  Notation hnn := (hash_no_nonce keccak argonB).
  Notation minef := (mine keccak argonA argonB argonC hashimoto).

  (* the expected (digest, result) of a header: ethash's pair for version 1, (0^32, argon2id_v(seed)) for 2..4 *)
  Definition expected_pow (h : sheader) : option (bytes * bytes) :=
    match powf (s_version h) (big_uint64 (s_number h)) (hnn h) (s_nonce h) with
    | SOk dr => Some dr
    | _ => None
    end.

  Lemma expected_pow_argon h :
    2 <= s_version h <= 4 ->
    expected_pow h =
      Some (zeros 32,
            (if s_version h =? 2 then argonA else if s_version h =? 3 then argonB else argonC)
              (seal_seed (hnn h) (s_nonce h))).
  Proof.
    intros Hv. unfold expected_pow, pow, version_hash.
    destruct (s_version h =? 0) eqn:E0; [lia|].
    destruct (s_version h =? 1) eqn:E1; [lia|].
    destruct (s_version h =? 2) eqn:E2; [reflexivity|].
    destruct (s_version h =? 3) eqn:E3; [reflexivity|].
    destruct (s_version h =? 4) eqn:E4; [reflexivity|lia].
  Qed.

  Lemma expected_pow_ethash h :
    s_version h = 1 ->
    expected_pow h = hashimoto (big_uint64 (s_number h)) (keccak (rlp_no_nonce h)) (s_nonce h).
  Proof.
    intros Hv. unfold expected_pow, pow, hash_no_nonce. rewrite Hv. cbn.
    destruct (hashimoto _ _ _) as [[d r]|]; reflexivity.
  Qed.

  Lemma expected_pow_none h : s_version h <= 0 \/ 5 <= s_version h -> expected_pow h = None.
  Proof.
    intros Hv. unfold expected_pow, pow, version_hash.
    destruct (s_version h =? 0) eqn:E0; [reflexivity|].
    destruct (s_version h =? 1) eqn:E1; [lia|].
    destruct (s_version h =? 2) eqn:E2; [lia|].
    destruct (s_version h =? 3) eqn:E3; [lia|].
    destruct (s_version h =? 4) eqn:E4; [lia|reflexivity].
  Qed.

  (* the acceptance predicate *)
  Theorem verify_seal_iff h :
    vseal h = SOk tt <->
    big_uint64 (s_number h) / 30000 < 2048 /\
    s_diff h > 0 /\
    exists digest result,
      expected_pow h = Some (digest, result) /\
      s_mix h = digest /\
      pow_value result <= 2 ^ 256 / s_diff h.
  Proof.
    unfold verify_seal, expected_pow.
    change epoch_length with 30000. change max_epoch with 2048. rewrite pow_numerator_is.
    destruct (big_uint64 (s_number h) / 30000 >=? 2048) eqn:Er.
    { split; [discriminate | intros [H _]; lia]. }
    destruct (s_diff h <=? 0) eqn:Ed.
    { split; [discriminate | intros [_ [H _]]; lia]. }
    destruct (powf (s_version h) (big_uint64 (s_number h)) (hnn h) (s_nonce h)) as [[d r]| e |].
    - destruct (bytes_eqb_spec (s_mix h) d) as [Em|Em]; cbn [negb].
      + destruct (pow_value r >? 2 ^ 256 / s_diff h) eqn:Ep.
        * split; [discriminate|]. intros [_ [_ [d' [r' [E [_ Hle]]]]]]. inversion E; subst. lia.
        * split; [|reflexivity]. intros _. split; [lia|]. split; [lia|].
          exists d, r. split; [reflexivity|]. split; [exact Em | lia].
      + split; [discriminate|]. intros [_ [_ [d' [r' [E [Hm _]]]]]]. inversion E; subst. contradiction.
    - split; [discriminate|]. intros [_ [_ [d' [r' [E _]]]]]. discriminate.
    - split; [discriminate|]. intros [_ [_ [d' [r' [E _]]]]]. discriminate.
  Qed.

  (* header hashing: the block hash is the version's algorithm over the RLP of the header *)
  Lemma header_hash_by_version h :
    header_hash keccak argonA argonB argonC h =
      if s_version h =? 1 then SOk (keccak (rlp_full h))
      else if s_version h =? 2 then SOk (argonA (rlp_full h))
      else if s_version h =? 3 then SOk (argonB (rlp_full h))
      else if s_version h =? 4 then SOk (argonC (rlp_full h))
      else SPanic.
  Proof.
    unfold header_hash, version_hash.
    destruct (s_version h =? 0) eqn:E0.
    - destruct (s_version h =? 1) eqn:E1; [lia|].
      destruct (s_version h =? 2) eqn:E2; [lia|].
      destruct (s_version h =? 3) eqn:E3; [lia|].
      destruct (s_version h =? 4) eqn:E4; [lia|reflexivity].
    - destruct (s_version h =? 1); reflexivity.
  Qed.

  (* the nonce loop only returns nonces meeting the target, with the digest pow gives *)
  Lemma mine_loop_sound fuel : forall v number hash target nonce n d,
    mine_loop keccak argonA argonB argonC hashimoto fuel v number hash target nonce = SOk (Some (n, d)) ->
    exists r, powf v number hash n = SOk (d, r) /\ pow_value r <= target.
  Proof.
    induction fuel as [|f IH]; intros v number hash target nonce n d H; cbn [mine_loop] in H.
    - discriminate.
    - destruct (powf v number hash nonce) as [[d' r']| e |] eqn:Ep; try discriminate.
      destruct (pow_value r' <=? target) eqn:El.
      + inversion H; subst. exists r'. split; [exact Ep | lia].
      + eapply IH. exact H.
  Qed.

  (* every seal the miner returns verifies — provided the header handed to Seal already carries
     the version of its height wherever that matters for the seal-free hash (version 3) *)
  Theorem mined_seal_verifies fuel v h seed h' :
    minef fuel v h seed = SOk (Some h') ->
    (s_version h = 3 <-> v = 3) ->
    big_uint64 (s_number h) / 30000 < 2048 ->
    s_diff h > 0 ->
    vseal h' = SOk tt /\ s_version h' = v /\ 1 <= v <= 4.
  Proof.
    intros Hm Hv Hr Hd. unfold mine in Hm.
    destruct (s_diff h =? 0) eqn:E0; [lia|].
    destruct ((v =? 0) || (v >? known_version)) eqn:Ev; [discriminate|].
    rewrite known_version_is in Ev.
    destruct (mine_loop _ _ _ _ _ _ _ _ _ _ _) as [[[n d]|]| e |] eqn:El; try discriminate.
    injection Hm as Hm. subst h'.
    apply mine_loop_sound in El as [r [Ep Hle]].
    assert (Hvr : 1 <= v <= 4).
    { split; [|lia]. unfold pow, version_hash in Ep. destruct (v =? 0) eqn:Ev0; [discriminate|].
      destruct (v =? 1) eqn:Ev1; [lia|].
      destruct (v =? 2) eqn:Ev2; [lia|]. destruct (v =? 3) eqn:Ev3; [lia|].
      destruct (v =? 4) eqn:Ev4; [lia|discriminate]. }
    split; [|split; [reflexivity | exact Hvr]].
    apply verify_seal_iff. cbn [s_number s_diff s_version s_mix s_nonce].
    split; [exact Hr|]. split; [exact Hd|].
    exists d, r. split; [|split; [reflexivity|]].
    - unfold expected_pow. cbn [s_number s_version s_nonce].
      assert (Eh : hash_no_nonce keccak argonB
                     {| s_parent := s_parent h; s_uncle := s_uncle h; s_coinbase := s_coinbase h; s_root := s_root h;
                        s_txhash := s_txhash h; s_rcpt := s_rcpt h; s_bloom := s_bloom h; s_diff := s_diff h;
                        s_number := s_number h; s_gas_limit := s_gas_limit h; s_gas_used := s_gas_used h;
                        s_time := s_time h; s_extra := s_extra h; s_mix := d; s_nonce := n; s_version := v |}
                   = hnn h).
      { unfold hash_no_nonce, rlp_no_nonce, fields_no_nonce. cbn.
        destruct (v =? 3) eqn:E3, (s_version h =? 3) eqn:E3'; try reflexivity; lia. }
      rewrite Eh, Ep. reflexivity.
    - unfold euclid_div in Hle. destruct (s_diff h <? 0) eqn:En; [lia|].
      rewrite pow_numerator_is in Hle. exact Hle.
  Qed.
End SealProofs.

(* Without the precondition the miner can return a seal that does not verify: with hash functions that
   separate the two seal-free hashes, a version-3 height mined from a header whose Version is unset. *)
Definition toy_keccak (_ : bytes) : bytes := zeros 32.
Definition toy_argonB' (b : bytes) : bytes :=
  match b with
  | x :: _ => if byte_eqb x x00 then zeros 32                (* seed from the Keccak seal-free hash: result 0, meets any target *)
              else if byte_eqb x x01 then repeat xff 32      (* seed from the argon2id-B seal-free hash: result 2^256-1 *)
              else x01 :: zeros 31                           (* the RLP pre-image: its hash starts with 0x01 *)
  | [] => zeros 32
  end.

Definition unversioned_header : sheader :=
  {| s_parent := zeros 32; s_uncle := zeros 32; s_coinbase := zeros 20; s_root := zeros 32; s_txhash := zeros 32;
     s_rcpt := zeros 32; s_bloom := zeros 256; s_diff := 2; s_number := 700; s_gas_limit := 5000; s_gas_used := 0;
     s_time := 1000; s_extra := []; s_mix := zeros 32; s_nonce := 0; s_version := 0 |}.

Lemma mine_without_version_refuted :
  exists keccak argonA argonB argonC hashimoto h h',
    mine keccak argonA argonB argonC hashimoto 1 3 h 0 = SOk (Some h') /\
    big_uint64 (s_number h) / 30000 < 2048 /\ s_diff h > 0 /\
    verify_seal keccak argonA argonB argonC hashimoto h' = SErr SPoW.
Proof.
  exists toy_keccak, toy_keccak, toy_argonB', toy_keccak, (fun _ _ _ => None), unversioned_header.
  eexists. split; [vm_compute; reflexivity|]. split; [vm_compute; reflexivity|]. split; [reflexivity|].
  vm_compute. reflexivity.
Qed.

(* non-vacuity example used by Properties/C14.v *)
Lemma seal_example :
  let keccak := fun _ : bytes => repeat x11 32 in
  let argon := fun _ : bytes => x00 :: x02 :: zeros 30 in    (* result = 2^241 *)
  let hm := fun (_ : Z) (_ : bytes) (_ : Z) => @None (bytes * bytes) in
  let h d := {| s_parent := zeros 32; s_uncle := zeros 32; s_coinbase := zeros 20; s_root := zeros 32; s_txhash := zeros 32;
                s_rcpt := zeros 32; s_bloom := zeros 256; s_diff := d; s_number := 22800; s_gas_limit := 4712388;
                s_gas_used := 21000; s_time := 1530000000; s_extra := [x61]; s_mix := zeros 32; s_nonce := 77; s_version := 2 |} in
  verify_seal keccak argon argon argon hm (h 1) = SOk tt /\
  verify_seal keccak argon argon argon hm (h (2 ^ 15)) = SOk tt /\
  verify_seal keccak argon argon argon hm (h (2 ^ 15 + 1)) = SErr SPoW /\
  verify_seal keccak argon argon argon hm (h 0) = SErr SInvalidDifficulty /\
  map (block_version {| chain_id := testnet2_chain_id; hf := testnet2_hf |}) [7; 8; 18; 19] = [2; 3; 3; 4] /\
  map (block_version {| chain_id := mainnet_chain_id; hf := mainnet_hf |}) [22799; 22800] = [1; 2].
Proof. vm_compute. repeat split; reflexivity. Qed.
