(* Consensus/BlockProofs.v — cache coherence of core/types/block.go Block (property C14). *)
From AQ Require Import Lib.Bytes Rlp.RlpSpec Generated.GenParamsConsensus Consensus.HeaderModel Consensus.Seal Consensus.BlockModel.
From Coq Require Import ZifyBool ZifyN ZifyNat.
Local Open Scope Z_scope.

Lemma rlp_full_with_version h v : rlp_full (with_version h v) = rlp_full h.
Proof. reflexivity. Qed.

Lemma with_version_same h : with_version h (s_version h) = h.
Proof. destruct h; reflexivity. Qed.

Section BlockProofs.
  Variables keccak argonA argonB argonC : bytes -> bytes.
  Notation hh := (header_hash keccak argonA argonB argonC).
  Notation bop_ := (block_op keccak argonA argonB argonC).
  Notation brun_ := (block_run keccak argonA argonB argonC).

  (* whatever is memoised is the value of the CURRENT content *)
  Definition coherent (b : mblock) : Prop :=
    (forall x, mb_hash b = Some x -> hh (mb_header b) = SOk x) /\
    (forall n, mb_size b = Some n -> n = lenN (block_rlp b)).

  Lemma new_block_coherent h t u : coherent (new_block h t u).
  Proof. split; cbn; intros; discriminate. Qed.

  Lemma block_op_coherent b o b' ob :
    coherent b -> op_safe b o = true -> bop_ b o = SOk (b', ob) -> coherent b'.
  Proof.
    intros [Hh Hs] Hsafe Hop. destruct o; cbn [block_op] in Hop.
    - destruct (mb_hash b) as [x|] eqn:Ec.
      + inversion Hop; subst. split; [intros y Hy; rewrite Ec in Hy; apply Hh; exact Hy | exact Hs].
      + destruct (hh (mb_header b)) as [x| e |] eqn:Eh; try discriminate. inversion Hop; subst.
        split; cbn; [intros y Hy; inversion Hy; subst; exact Eh | exact Hs].
    - destruct (mb_size b) as [n|] eqn:Ec.
      + inversion Hop; subst. split; [exact Hh | intros m Hm; rewrite Ec in Hm; apply Hs; exact Hm].
      + inversion Hop; subst. split; cbn; [exact Hh | intros n Hn; inversion Hn; reflexivity].
    - destruct (s_version (mb_header b) =? v); [discriminate|].
      destruct (hh (with_version (mb_header b) v)) as [x| e |] eqn:Eh; try discriminate. inversion Hop; subst.
      split; cbn; [intros y Hy; inversion Hy; subst; exact Eh|].
      intros n Hn. exact (Hs n Hn).
    - inversion Hop; subst. cbn [op_safe] in Hsafe. split; cbn.
      + intros x Hx. destruct (v =? s_version (mb_header b)) eqn:Ev.
        * assert (v = s_version (mb_header b)) by lia. subst v. rewrite with_version_same. apply Hh. exact Hx.
        * rewrite Hx in Hsafe. cbn in Hsafe. discriminate.
      + intros n Hn. exact (Hs n Hn).
    - inversion Hop; subst. apply new_block_coherent.
    - inversion Hop; subst. apply new_block_coherent.
    - inversion Hop; subst. split; assumption.
  Qed.

  Lemma block_run_coherent ops : forall b b' obs,
    coherent b -> run_safe keccak argonA argonB argonC b ops = true -> brun_ b ops = SOk (b', obs) -> coherent b'.
  Proof.
    induction ops as [|o t IH]; intros b b' obs Hc Hsafe Hr; cbn in Hr.
    - inversion Hr; subst. exact Hc.
    - cbn [run_safe] in Hsafe. apply andb_prop in Hsafe as [Hs1 Hs2].
      destruct (bop_ b o) as [[b1 ob]| e |] eqn:Eo; try discriminate.
      destruct (brun_ b1 t) as [[b2 obs2]| e |] eqn:Er; try discriminate. inversion Hr; subst.
      eapply IH; [eapply block_op_coherent; eassumption | exact Hs2 | exact Er].
  Qed.

  (* what Hash() / Size() show on a coherent block: the version-selected hash of the block's own, current header
     (a panic exactly when that header has no hash: version 0 or above 4), the size of its current encoding *)
  Lemma hash_observation b :
    coherent b ->
    match bop_ b BHash with
    | SOk (b', ob) => exists x, ob = ObsHash x /\ hh (mb_header b) = SOk x /\ mb_header b' = mb_header b
    | SErr _ => False
    | SPanic => hh (mb_header b) = SPanic
    end.
  Proof.
    intros [Hh _]. cbn [block_op]. destruct (mb_hash b) as [x|] eqn:Ec.
    - exists x. split; [reflexivity|]. split; [apply Hh; reflexivity | reflexivity].
    - destruct (hh (mb_header b)) as [x| e |] eqn:Eh.
      + exists x. repeat split.
      + unfold header_hash, version_hash in Eh.
        destruct (s_version (mb_header b) =? 0); [discriminate|]. destruct (s_version (mb_header b) =? 1); [discriminate|].
        destruct (s_version (mb_header b) =? 2); [discriminate|]. destruct (s_version (mb_header b) =? 3); [discriminate|].
        destruct (s_version (mb_header b) =? 4); discriminate.
      + reflexivity.
  Qed.

  Lemma size_observation b :
    coherent b -> exists b', bop_ b BSize = SOk (b', ObsSize (lenN (block_rlp b))) /\ mb_header b' = mb_header b.
  Proof.
    intros [_ Hs]. cbn [block_op]. destruct (mb_size b) as [n|] eqn:Ec.
    - exists b. rewrite (Hs n eq_refl). split; reflexivity.
    - eexists. split; reflexivity.
  Qed.

  (* cache coherence along every sequence of operations: start from any freshly constructed block, apply any operations
     (SetVersionConfig only where it cannot change the version under a memoised hash): Hash() then shows the
     version-selected hash of the CURRENT header and Size() the size of the CURRENT encoding *)
  Theorem block_hash_is_of_current_header h0 t0 u0 ops b obs :
    brun_ (new_block h0 t0 u0) ops = SOk (b, obs) ->
    run_safe keccak argonA argonB argonC (new_block h0 t0 u0) ops = true ->
    match bop_ b BHash with
    | SOk (b', ob) => exists x, ob = ObsHash x /\ hh (mb_header b) = SOk x /\ mb_header b' = mb_header b
    | SErr _ => False
    | SPanic => hh (mb_header b) = SPanic
    end /\
    exists b', bop_ b BSize = SOk (b', ObsSize (lenN (block_rlp b))) /\ mb_header b' = mb_header b.
  Proof.
    intros Hr Hs. pose proof (block_run_coherent ops _ _ _ (new_block_coherent h0 t0 u0) Hs Hr) as Hc.
    split; [apply hash_observation | apply size_observation]; exact Hc.
  Qed.

  (* the blocks WithSeal / WithBody return never inherit a memoised value *)
  Lemma with_seal_fresh b h b' ob : bop_ b (BWithSeal h) = SOk (b', ob) -> mb_hash b' = None /\ mb_size b' = None /\ mb_header b' = h.
  Proof. cbn. intros H. inversion H; subst. repeat split. Qed.
End BlockProofs.

(* SetVersionConfig on a block whose hash is memoised under another version leaves the stale hash in place *)
Definition toy_block_header : sheader :=
  {| s_parent := zeros 32; s_uncle := zeros 32; s_coinbase := zeros 20; s_root := zeros 32; s_txhash := zeros 32;
     s_rcpt := zeros 32; s_bloom := zeros 256; s_diff := 7; s_number := 5; s_gas_limit := 5000; s_gas_used := 0;
     s_time := 1000; s_extra := []; s_mix := zeros 32; s_nonce := 3; s_version := 1 |}.

Lemma set_version_config_stale_refuted :
  exists keccak argonA argonB argonC ops b obs x,
    block_run keccak argonA argonB argonC (new_block toy_block_header [xc0] [xc0]) ops = SOk (b, obs) /\
    block_op keccak argonA argonB argonC b BHash = SOk (b, ObsHash x) /\
    header_hash keccak argonA argonB argonC (mb_header b) <> SOk x.
Proof.
  exists (fun _ => [x01]), (fun _ => [x02]), (fun _ => [x03]), (fun _ => [x04]), [BHash; BSetVersionConfig 2].
  eexists. eexists. exists [x01]. split; [vm_compute; reflexivity|]. split; [vm_compute; reflexivity|].
  vm_compute. discriminate.
Qed.

(* non-vacuity: a work block hashed, sealed (WithSeal with another nonce), re-bodied, re-versioned: every Hash() is the
   hash of the header of the moment *)
Lemma block_ops_example :
  let keccak := fun b : bytes => [x01; n2b (lenN b)] in
  let argon := fun b : bytes => [x02; n2b (lenN b)] in
  let h1 := with_version toy_block_header 2 in
  match block_run keccak argon argon argon (new_block toy_block_header [xc0] [xc0])
                  [BHash; BSize; BWithSeal h1; BHash; BWithBody [xc0] [xc1; x80]; BSize; BHash; BSetVersion 1; BHash] with
  | SOk (b, obs) =>
    obs = [ObsHash [x01; n2b 500]; ObsSize 505; ObsNone; ObsHash [x02; n2b 500]; ObsNone; ObsSize 506; ObsHash [x02; n2b 500];
           ObsHash [x01; n2b 500]; ObsHash [x01; n2b 500]] /\ s_version (mb_header b) = 1
  | _ => False
  end.
Proof. vm_compute. split; reflexivity. Qed.
