(* Consensus/HeaderSpec.v — declarative statement of the header rules of property C13:
   rules_ok (the conjunction in the property statement) and the fork table of the
   difficulty adjustment (divisor / minimum / duration limit per fork, resets at
   the scheduled fork blocks).  Literal numbers here are the documented protocol
   values; HeaderProofs.v shows the generated constants equal them. *)
From AQ Require Import Lib.Bytes Generated.GenParamsConsensus Consensus.HeaderModel.
Local Open Scope Z_scope.

(* gas used <= gas limit <= 2^63-1, limit at least 5000 and moved by less than parent/1024 *)
Definition gas_ok (h p : header) : Prop :=
  h_gas_used h <= h_gas_limit h /\ h_gas_limit h <= 2 ^ 63 - 1 /\ 5000 <= h_gas_limit h /\
  Z.abs (h_gas_limit p - h_gas_limit h) < h_gas_limit p / 1024.

(* the timestamp bound: 15 s ahead of the clock for a header; for an uncle the code only requires 2^256-1 *)
Definition time_bound_ok (now : Z) (h : header) (uncle : bool) : Prop :=
  if uncle then h_time h <= 2 ^ 256 - 1 else h_time h <= now + 15.

(* the rules, relative to the parent; `expected` is the scheduled difficulty *)
Definition rules_ok (now : Z) (h p : header) (uncle : bool) (expected : Z) : Prop :=
  h_number h = h_number p + 1 /\
  h_time p < h_time h /\
  time_bound_ok now h uncle /\
  h_extra_len h <= 32 /\
  gas_ok h p /\
  h_diff h = expected.

(* ---- the fork table of the difficulty adjustment ---- *)
(* the value of the last row whose fork is active at `next`, rows in increasing precedence *)
Fixpoint pick (c : cfg) (next : Z) (rows : list (Z * Z)) (default : Z) : Z :=
  match rows with
  | [] => default
  | (fork, v) :: t => let d := if is_hf c fork next then v else default in pick c next t d
  end.

Definition spec_minimum (c : cfg) (next : Z) : Z := pick c next [(1, 100001792); (3, 30959185800); (5, 46039386)] 99999999.
Definition spec_divisor (c : cfg) (next : Z) : Z := pick c next [(5, 16); (6, 128); (8, 1024)] 2048.
Definition spec_limit   (c : cfg) (next : Z) : Z := pick c next [(6, 180)] 240.

(* which rule computes the difficulty of block `next` *)
Inductive algo := AGrandparent | AReset (fork : Z) | ASimple | AHomestead (fork1 : bool).

Definition spec_algo (c : cfg) (next : Z) : algo :=
  if is_hf c 10 next then AGrandparent
  else if fork_block c 8 next then AReset 8
  else if fork_block c 6 next || fork_block c 7 next then ASimple
  else if fork_block c 5 next then AReset 5
  else if fork_block c 3 next then AReset 3
  else if is_hf c 2 next then ASimple
  else if fork_block c 1 next then AReset 1
  else AHomestead (is_hf c 1 next).

Definition reset_value (fork : Z) : Z :=
  if fork =? 1 then 100001792 else if fork =? 3 then 30959185800 else 46039386.

(* max(lo, x) *)
Definition at_least (lo x : Z) : Z := Z.max lo x.

(* parent_diff + parent_diff/divisor * max(1 - delta/period, -99) *)
Definition homestead_formula (base delta period divisor : Z) : Z :=
  base + base / divisor * Z.max (-99) (1 - delta / period).

Definition difficulty_spec (c : cfg) (time : Z) (p : header) (gp : option header) : option Z :=
  let next := h_number p + 1 in
  let mainnet := big_uint64 (chain_id c) =? 61717561 in
  match spec_algo c next with
  | AReset f => Some (reset_value f)
  | ASimple =>
    let adj := h_diff p / spec_divisor c next in
    Some (at_least (spec_minimum c next)
                   (if time - h_time p <? spec_limit c next then h_diff p + adj else h_diff p - adj))
  | AHomestead hf1 =>
    let x := homestead_formula (h_diff p) (time - h_time p) 10 2048 in
    Some (if mainnet then at_least (if hf1 then 100001792 else 99999999) x else x)
  | AGrandparent =>
    match gp with
    | None => Some (h_diff p)
    | Some g =>
      if h_time p <=? h_time g then None (* no value: the code panics *)
      else Some (at_least 46039386
                   (homestead_formula (h_diff g) (h_time p - h_time g) 240 (if is_hf c 8 (h_number p) then 1024 else 16)))
    end
  end.

(* the minimum is enforced by the rule in force (false: the homestead-style rules of a chain that is not
   mainnet have no minimum; and under them the minimum selected by HF3/HF5 is not the one applied) *)
Definition minimum_enforced (c : cfg) (next : Z) (gp : option header) : bool :=
  match spec_algo c next with
  | AReset f => spec_minimum c next <=? reset_value f
  | ASimple => true
  | AGrandparent => match gp with Some _ => is_hf c 5 next | None => false end
  | AHomestead _ => (big_uint64 (chain_id c) =? 61717561) && negb (is_hf c 3 next) && negb (is_hf c 5 next)
  end.

(* ---- uncles ---- *)
Definition max_uncles_at (c : cfg) (number : Z) : Z := if is_hf c 5 number then 1 else 2.

(* the uncle rules: each uncle is not already included (by an ancestor within the window, as the block
   itself, or earlier in this block: `seen`), is not one of the ancestors, has its parent among the
   ancestors (the window of up to 7, plus — as in the code — the block itself) but not the block's own
   parent, and is a valid header on that parent *)
Fixpoint uncles_ok_from (c : cfg) (chain : list header) (now : Z) (block_parent : bytes)
         (anc : list (bytes * header)) (seen : list bytes) (us : list header) : Prop :=
  match us with
  | [] => True
  | u :: rest =>
    mem_hash (h_hash u) seen = false /\
    lookup_hash (h_hash u) anc = None /\
    (exists p, lookup_hash (h_parent u) anc = Some p /\ h_parent u <> block_parent /\
               verify_header c chain now u (Some p) (lookup_hash (h_parent p) anc) true true = Ok tt) /\
    uncles_ok_from c chain now block_parent anc (h_hash u :: seen) rest
  end.

(* the uncle rules at ANY height, with the hard-coded historic exceptions explicit: while the loop counter
   `number` is <= 15000, (a) an already-included uncle is tolerated when (block hash, uncle number) is in dup_wl,
   (b) an uncle that is not recent is tolerated when (its parent hash, its number) is in dangling_parent_wl or
   (its hash, its number) is in dangling_hash_wl — and then the block's uncles are accepted at once: the remaining
   uncles are not examined *)
Fixpoint uncles_spec (c : cfg) (chain : list header) (now : Z) (number : Z) (block_hash block_parent : bytes)
         (anc : list (bytes * header)) (seen : list bytes) (us : list header) : Prop :=
  match us with
  | [] => True
  | u :: rest =>
    (mem_hash (h_hash u) seen = false \/ dup_allowed number block_hash (h_number u) = true) /\
    lookup_hash (h_hash u) anc = None /\
    (((lookup_hash (h_parent u) anc = None \/ h_parent u = block_parent) /\
      dangling_allowed number (h_parent u) (h_hash u) (h_number u) = true)
     \/
     (exists p, lookup_hash (h_parent u) anc = Some p /\ h_parent u <> block_parent /\
                verify_header c chain now u (Some p) (lookup_hash (h_parent p) anc) true true = Ok tt /\
                uncles_spec c chain now number block_hash block_parent anc (h_hash u :: seen) rest))
  end.
