(* Consensus/KnownProofs.v — the "header already known" short cut of VerifyHeader / verifyHeaderWorker takes the set of
   stored headers as state: it fires only for a header that IS stored (same hash, same number); for any other header the
   verdict does not depend on what is stored at its height (property C13; and C14: no seal is accepted unverified). *)
From AQ Require Import Lib.Bytes Generated.GenParamsConsensus Consensus.HeaderModel Consensus.HeaderSpec
  Consensus.HeaderProofs Consensus.BatchProofs.
From Coq Require Import ZifyBool ZifyN ZifyNat.
Local Open Scope Z_scope.

(* the store without the headers of one height *)
Definition drop_height (chain : list header) (n : Z) : list header :=
  filter (fun x => negb (big_uint64 (h_number x) =? n)) chain.

Lemma get_header_drop chain hash m n : m <> n -> get_header (drop_height chain n) hash m = get_header chain hash m.
Proof.
  intros Hne. induction chain as [|x l IH]; [reflexivity|]. cbn [drop_height filter get_header].
  destruct (big_uint64 (h_number x) =? n) eqn:En; cbn [negb].
  - fold (drop_height l n). rewrite IH.
    assert (E : (big_uint64 (h_number x) =? m) = false) by lia. rewrite E, andb_false_r. reflexivity.
  - cbn [get_header]. fold (drop_height l n). rewrite IH. reflexivity.
Qed.

Lemma get_header_drop_same chain hash n : get_header (drop_height chain n) hash n = None.
Proof.
  induction chain as [|x l IH]; [reflexivity|]. cbn [drop_height filter].
  destruct (big_uint64 (h_number x) =? n) eqn:En; cbn [negb]; [exact IH|].
  cbn [get_header]. rewrite En, andb_false_r. exact IH.
Qed.

Lemma big_uint64_range z : 0 <= big_uint64 z < two64.
Proof. unfold big_uint64. apply Z.mod_pos_bound. reflexivity. Qed.

Lemma u64_cases z : - two64 <= z < two64 -> u64 z = if z <? 0 then z + two64 else z.
Proof.
  intros H. unfold u64. destruct (z <? 0) eqn:E.
  - symmetry. apply Z.mod_unique with (q := -1); unfold two64 in *; lia.
  - apply Z.mod_small. lia.
Qed.

Lemma pred_ne n : 0 <= n < two64 -> u64 (n - 1) <> n.
Proof. intros H. rewrite u64_cases by (unfold two64 in *; lia). destruct (n - 1 <? 0) eqn:E; unfold two64 in *; lia. Qed.

Lemma pred2_ne n : 0 <= n < two64 -> u64 (n - 2) <> n.
Proof. intros H. rewrite u64_cases by (unfold two64 in *; lia). destruct (n - 2 <? 0) eqn:E; unfold two64 in *; lia. Qed.

Lemma pred_pred_ne n : 0 <= n < two64 -> u64 (u64 (n - 1) - 1) <> n.
Proof.
  intros H. rewrite (u64_cases (n - 1)) by (unfold two64 in *; lia).
  destruct (n - 1 <? 0) eqn:E.
  - rewrite u64_cases by (unfold two64 in *; lia). destruct (n - 1 + two64 - 1 <? 0) eqn:E2; unfold two64 in *; lia.
  - rewrite u64_cases by (unfold two64 in *; lia). destruct (n - 1 - 1 <? 0) eqn:E2; unfold two64 in *; lia.
Qed.

(* VerifyHeader: for a header that is not stored, the headers stored at its own height are irrelevant *)
Theorem verify_header_top_ignores_height c chain now h seal :
  get_header chain (h_hash h) (big_uint64 (h_number h)) = None ->
  verify_header_top c chain now h seal =
  verify_header_top c (drop_height chain (big_uint64 (h_number h))) now h seal.
Proof.
  intros Hk. unfold verify_header_top. set (n := big_uint64 (h_number h)) in *.
  pose proof (big_uint64_range (h_number h)) as Hn. fold n in Hn.
  rewrite Hk, get_header_drop_same.
  rewrite (get_header_drop chain (h_parent h) (u64 (n - 1)) n (pred_ne n Hn)).
  destruct (get_header chain (h_parent h) (u64 (n - 1))) as [p|] eqn:Ep; [|reflexivity].
  apply get_header_some in Ep as [_ Hpn].
  destruct (n >? 2).
  - rewrite (get_header_drop chain (h_parent p) (u64 (n - 2)) n (pred2_ne n Hn)).
    destruct (get_header chain (h_parent p) (u64 (n - 2))); [|reflexivity].
    apply verify_header_chain_ext. intros E; discriminate.
  - apply verify_header_chain_ext. intros _ _. rewrite Hpn. symmetry. apply get_header_drop. apply pred_pred_ne. exact Hn.
Qed.

(* hence two stores that agree off that height give the same verdict: what a near-twin of a stored header gets is
   what it would get from a chain that only has its ancestors *)
Corollary twin_verdict_independent_of_store c chain1 chain2 now h seal :
  get_header chain1 (h_hash h) (big_uint64 (h_number h)) = None ->
  get_header chain2 (h_hash h) (big_uint64 (h_number h)) = None ->
  drop_height chain1 (big_uint64 (h_number h)) = drop_height chain2 (big_uint64 (h_number h)) ->
  verify_header_top c chain1 now h seal = verify_header_top c chain2 now h seal.
Proof.
  intros H1 H2 Hd. rewrite (verify_header_top_ignores_height c chain1 now h seal H1),
    (verify_header_top_ignores_height c chain2 now h seal H2), Hd. reflexivity.
Qed.

(* the short cut fires only for a stored header: with seal checking on, a header that is not stored is never accepted
   unless its seal verifies *)
Lemma verify_header_ok_seal c chain now h p gp uncle :
  verify_header c chain now h p gp uncle true = Ok tt -> h_seal h = 0.
Proof.
  unfold verify_header. intros H.
  repeat match type of H with
         | context [if ?b then _ else _] => destruct b; try discriminate
         | context [match ?x with _ => _ end] => destruct x; try discriminate
         end.
  unfold seal_result in H. destruct (h_seal h =? 0) eqn:E; [lia|]. destruct (h_seal h =? -1); discriminate.
Qed.

Theorem unknown_header_accepted_only_with_seal c chain now h :
  get_header chain (h_hash h) (big_uint64 (h_number h)) = None ->
  verify_header_top c chain now h true = Ok tt -> h_seal h = 0.
Proof.
  intros Hk. unfold verify_header_top. rewrite Hk.
  destruct (get_header chain (h_parent h) _) as [p|]; [|discriminate].
  destruct (big_uint64 (h_number h) >? 2).
  - destruct (get_header chain (h_parent p) _) as [g|]; [|discriminate]. apply verify_header_ok_seal.
  - apply verify_header_ok_seal.
Qed.

(* the batch worker: the same, for the lookups it makes (index 0: as VerifyHeader; index 1: the grandparent; index >= 2:
   none besides the known check) *)
Theorem verify_worker_ignores_height c chain now hs seals i h h0 :
  nth_error hs i = Some h -> nth_error hs 0 = Some h0 ->
  get_header chain (h_hash h) (big_uint64 (h_number h)) = None ->
  (i = 1%nat -> big_uint64 (h_number h) <> u64 (big_uint64 (h_number h0) - 1)) ->
  verify_worker c chain now hs seals i =
  verify_worker c (drop_height chain (big_uint64 (h_number h))) now hs seals i.
Proof.
  intros Hh H0 Hk H1. unfold verify_worker. rewrite Hh, H0. set (n := big_uint64 (h_number h)) in *.
  pose proof (big_uint64_range (h_number h)) as Hn. fold n in Hn.
  rewrite Hk, get_header_drop_same.
  destruct i as [|[|k]].
  - assert (h = h0) by congruence. subst h0. fold n.
    rewrite (get_header_drop chain (h_parent h) (u64 (n - 1)) n (pred_ne n Hn)).
    destruct (get_header chain (h_parent h) (u64 (n - 1))) as [p|] eqn:Ep; [|reflexivity].
    apply get_header_some in Ep as [_ Hpn].
    destruct (n >? 2).
    + rewrite (get_header_drop chain (h_parent p) (u64 (n - 2)) n (pred2_ne n Hn)).
      destruct (get_header chain (h_parent p) (u64 (n - 2))); [apply verify_header_chain_ext; intros E; discriminate|].
      destruct (big_uint64 (h_number p) >? 1); [reflexivity|].
      apply verify_header_chain_ext. intros _ _. rewrite Hpn. symmetry. apply get_header_drop. apply pred_pred_ne. exact Hn.
    + destruct (big_uint64 (h_number p) >? 1); [reflexivity|].
      apply verify_header_chain_ext. intros _ _. rewrite Hpn. symmetry. apply get_header_drop. apply pred_pred_ne. exact Hn.
  - specialize (H1 eq_refl).
    assert (Hd : get_header (drop_height chain n) (h_parent h0) (u64 (big_uint64 (h_number h0) - 1)) =
                 get_header chain (h_parent h0) (u64 (big_uint64 (h_number h0) - 1))) by (apply get_header_drop; congruence).
    destruct (big_uint64 (h_number h0) >? 1) eqn:E1.
    + rewrite Hd. destruct (get_header chain (h_parent h0) (u64 (big_uint64 (h_number h0) - 1)));
        [apply verify_header_chain_ext; intros E; discriminate | reflexivity].
    + apply verify_header_chain_ext. intros _ _. symmetry. exact Hd.
  - destruct (nth_error hs (S k)) as [h1|]; [|destruct (negb (big_uint64 (h_number h0) =? 0)); [reflexivity|]; reflexivity].
    destruct (nth_error hs k) as [h2|]; [|destruct (negb (big_uint64 (h_number h0) =? 0)); reflexivity].
    destruct (bytes_eqb (h_hash h1) (h_parent h)); [|destruct (negb (big_uint64 (h_number h0) =? 0)); reflexivity].
    apply verify_header_chain_ext. intros E; discriminate.
Qed.

(* non-vacuity: a stored block, its nonce-twin (another hash) with a failing seal, seal checking on: the stored header
   short-circuits, the twin is rejected at the seal exactly as on a chain that never saw the block *)
Lemma known_twin_example :
  let mk := fun hash parent num t d s => {| h_hash := hash; h_parent := parent; h_number := num; h_time := t; h_diff := d;
                                            h_gas_limit := 4712388; h_gas_used := 0; h_extra_len := 0; h_seal := s |} in
  let g := mk [x10] [x00] 20000 1000 46039386 0 in
  let a1 := mk [x11] [x10] 20001 1100 46399068 0 in
  let b := mk [x12] [x11] 20002 1200 46761560 1 in
  let twin := mk [x77] [x11] 20002 1200 46761560 1 in
  verify_header_top test_cfg [b; a1; g] 5000 b true = Ok tt /\
  verify_header_top test_cfg [b; a1; g] 5000 twin true = Err (ESeal 1) /\
  verify_header_top test_cfg [a1; g] 5000 twin true = Err (ESeal 1).
Proof. vm_compute. repeat split; reflexivity. Qed.
