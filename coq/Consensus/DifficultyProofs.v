(* Consensus/DifficultyProofs.v — bounds on the difficulty adjustment (property C13): size of one step per rule, the
   minimum on every built-in schedule, and what calcDifficultyTestnet3 computes. *)
From AQ Require Import Lib.Bytes Generated.GenParamsConsensus Consensus.HeaderModel Consensus.HeaderSpec
  Consensus.HeaderProofs Consensus.DifficultyExtraModel.
From Coq Require Import ZifyBool ZifyN ZifyNat.
Local Open Scope Z_scope.

(* ---------------------------------------------------------------- size of one adjustment step *)

Lemma spec_divisor_pos c n : 0 < spec_divisor c n.
Proof. unfold spec_divisor, pick. destruct (is_hf c 5 n), (is_hf c 6 n), (is_hf c 8 n); lia. Qed.

(* simple rule (HF2 on): one block moves the difficulty by at most parent/divisor, up or down, never below the minimum *)
Theorem simple_step_bound c time p gp d :
  spec_algo c (h_number p + 1) = ASimple ->
  calc_difficulty c time p gp = Ok d ->
  0 <= h_diff p ->
  spec_minimum c (h_number p + 1) <= d /\
  h_diff p - h_diff p / spec_divisor c (h_number p + 1) <= d /\
  d <= Z.max (spec_minimum c (h_number p + 1)) (h_diff p + h_diff p / spec_divisor c (h_number p + 1)) /\
  (spec_minimum c (h_number p + 1) <= h_diff p -> Z.abs (d - h_diff p) <= h_diff p / spec_divisor c (h_number p + 1)).
Proof.
  intros Ha Hc Hp. rewrite difficulty_is_spec in Hc. unfold difficulty_spec in Hc. rewrite Ha in Hc.
  inversion Hc; subst; clear Hc. unfold at_least.
  assert (Hq : 0 <= h_diff p / spec_divisor c (h_number p + 1)) by (apply Z.div_pos; [lia | apply spec_divisor_pos]).
  set (m := spec_minimum c (h_number p + 1)) in *. set (a := h_diff p / spec_divisor c (h_number p + 1)) in *.
  destruct (time - h_time p <? spec_limit c (h_number p + 1)); (split; [lia|]; split; [lia|]; split; [lia|]; intros; lia).
Qed.

(* homestead-style rules (before HF2): up by at most parent/2048, down by at most 99 * (parent/2048) per block *)
Theorem homestead_step_bound c time p gp d hf1 :
  spec_algo c (h_number p + 1) = AHomestead hf1 ->
  calc_difficulty c time p gp = Ok d ->
  0 <= h_diff p -> h_time p <= time ->
  h_diff p - 99 * (h_diff p / 2048) <= d /\
  d <= Z.max (if hf1 then 100001792 else 99999999) (h_diff p + h_diff p / 2048).
Proof.
  intros Ha Hc Hp Ht. rewrite difficulty_is_spec in Hc. unfold difficulty_spec in Hc. rewrite Ha in Hc.
  assert (Hq : 0 <= h_diff p / 2048) by (apply Z.div_pos; lia).
  assert (Hdl : 0 <= (time - h_time p) / 10) by (apply Z.div_pos; lia).
  assert (Hx : homestead_formula (h_diff p) (time - h_time p) 10 2048 <= h_diff p + h_diff p / 2048 /\
               h_diff p - 99 * (h_diff p / 2048) <= homestead_formula (h_diff p) (time - h_time p) 10 2048).
  { unfold homestead_formula. set (q := h_diff p / 2048) in *. set (k := (time - h_time p) / 10) in *.
    assert (Hm : -99 <= Z.max (-99) (1 - k) <= 1) by lia. nia. }
  destruct (big_uint64 (chain_id c) =? 61717561); inversion Hc; subst; unfold at_least; destruct hf1; lia.
Qed.

(* ---------------------------------------------------------------- the minimum on every built-in proof-of-work schedule *)

Lemma testnet_minimum_enforced next gp : 1 <= next -> minimum_enforced testnet_cfg next gp = true.
Proof.
  intros Hn. unfold minimum_enforced, spec_algo, fork_block, is_hf, spec_minimum, pick, is_hf. cbn.
  destruct (1 <=? next) eqn:E1, (2 <=? next) eqn:E2, (3 <=? next) eqn:E3, (5 <=? next) eqn:E5,
           (6 <=? next) eqn:E6, (25 <=? next) eqn:E7, (650 <=? next) eqn:E8; try lia; cbn;
  repeat match goal with |- context [next =? ?k] => destruct (next =? k) eqn:?; cbn end; try reflexivity; lia.
Qed.

Lemma test_minimum_enforced next gp : 1 <= next -> minimum_enforced test_cfg next gp = true.
Proof.
  intros Hn. unfold minimum_enforced, spec_algo, fork_block, is_hf, spec_minimum, pick, is_hf. cbn.
  destruct (1 <=? next) eqn:E1, (2 <=? next) eqn:E2, (3 <=? next) eqn:E3, (5 <=? next) eqn:E5,
           (6 <=? next) eqn:E6, (7 <=? next) eqn:E7; try lia; cbn;
  repeat match goal with |- context [next =? ?k] => destruct (next =? k) eqn:?; cbn end; try reflexivity; lia.
Qed.

Lemma dev_minimum_enforced next gp : 1 <= next -> minimum_enforced dev_cfg next gp = true.
Proof.
  intros Hn. unfold minimum_enforced, spec_algo, fork_block, is_hf, spec_minimum, pick, is_hf. cbn.
  destruct (0 <=? next) eqn:E0; try lia; cbn;
  repeat match goal with |- context [next =? ?k] => destruct (next =? k) eqn:?; cbn end; try reflexivity; lia.
Qed.

(* never below the active minimum: every height (>= 1) of mainnet, testnet, the test and the dev schedules, every parent,
   timestamp and grandparent *)
Theorem builtin_difficulty_ge_minimum time p gp d :
  0 <= h_number p ->
  (calc_difficulty mainnet_cfg time p gp = Ok d -> spec_minimum mainnet_cfg (h_number p + 1) <= d) /\
  (calc_difficulty testnet_cfg time p gp = Ok d -> spec_minimum testnet_cfg (h_number p + 1) <= d) /\
  (calc_difficulty test_cfg time p gp = Ok d -> spec_minimum test_cfg (h_number p + 1) <= d) /\
  (calc_difficulty dev_cfg time p gp = Ok d -> spec_minimum dev_cfg (h_number p + 1) <= d).
Proof.
  intros Hn. repeat split; intros H; eapply difficulty_ge_minimum; try exact H.
  - apply mainnet_minimum_enforced.
  - apply testnet_minimum_enforced. lia.
  - apply test_minimum_enforced. lia.
  - apply dev_minimum_enforced. lia.
Qed.

(* ---------------------------------------------------------------- calcDifficultyTestnet3 *)

(* the result is one of four values *)
Lemma testnet3_cases time p gp :
  calc_testnet3 time p gp = h_diff p \/ calc_testnet3 time p gp = h_diff p + 1000 \/
  calc_testnet3 time p gp = h_diff p - 1000 \/ calc_testnet3 time p gp = Z.quot (h_diff p) 2.
Proof.
  unfold calc_testnet3. destruct gp as [g|]; [|left; reflexivity].
  destruct ((time - h_time p <? 10) && (h_time g - h_time p <? 10)); [right; left; reflexivity|].
  destruct ((time - h_time p >? 20) && (h_time g - h_time p >? 20)); [right; right; left; reflexivity|].
  destruct ((time - h_time p >? 100) && (h_time g - h_time p >? 100)); [right; right; right; reflexivity | left; reflexivity].
Qed.

(* the halving branch can never be taken: its condition implies the one before it *)
Theorem testnet3_halving_unreachable time p g :
  calc_testnet3 time p (Some g) <> Z.quot (h_diff p) 2 \/ Z.quot (h_diff p) 2 = h_diff p \/
  Z.quot (h_diff p) 2 = h_diff p + 1000 \/ Z.quot (h_diff p) 2 = h_diff p - 1000.
Proof.
  unfold calc_testnet3.
  destruct ((time - h_time p <? 10) && (h_time g - h_time p <? 10)) eqn:E1.
  - destruct (Z.eq_dec (Z.quot (h_diff p) 2) (h_diff p + 1000)); [right; right; left; assumption | left; congruence].
  - destruct ((time - h_time p >? 20) && (h_time g - h_time p >? 20)) eqn:E2.
    + destruct (Z.eq_dec (Z.quot (h_diff p) 2) (h_diff p - 1000)); [right; right; right; assumption | left; congruence].
    + destruct ((time - h_time p >? 100) && (h_time g - h_time p >? 100)) eqn:E3; [lia|].
      destruct (Z.eq_dec (Z.quot (h_diff p) 2) (h_diff p)); [right; left; assumption | left; congruence].
Qed.

(* on a chain whose timestamps increase (grandparent before parent) the grandparent difference, taken as
   grandparent - parent, is negative: the rule only ever raises (block within 10 s) or keeps the difficulty;
   it has no minimum and no downward adjustment *)
Theorem testnet3_on_increasing_timestamps time p g :
  h_time g < h_time p ->
  calc_testnet3 time p (Some g) = if time - h_time p <? 10 then h_diff p + 1000 else h_diff p.
Proof.
  intros Hlt. unfold calc_testnet3.
  assert (E1 : (h_time g - h_time p <? 10) = true) by lia.
  assert (E2 : (h_time g - h_time p >? 20) = false) by lia.
  assert (E3 : (h_time g - h_time p >? 100) = false) by lia.
  rewrite E1, E2, E3, !andb_true_r, !andb_false_r. reflexivity.
Qed.

Lemma testnet3_example :
  let p := {| h_hash := []; h_parent := []; h_number := 9; h_time := 1000; h_diff := 5000; h_gas_limit := 0; h_gas_used := 0; h_extra_len := 0; h_seal := 0 |} in
  let g t := {| h_hash := []; h_parent := []; h_number := 8; h_time := t; h_diff := 7; h_gas_limit := 0; h_gas_used := 0; h_extra_len := 0; h_seal := 0 |} in
  map (fun '(t, gt) => calc_testnet3 t p (Some (g gt))) [(1005, 900); (1010, 900); (1030, 1030); (1030, 900); (1200, 1200); (1015, 1015)]
  = [6000; 5000; 4000; 5000; 4000; 5000] /\ calc_testnet3 1005 p None = 5000.
Proof. vm_compute. split; reflexivity. Qed.
