(* Net/Messages.v — what aqua/handler.go handleMsg decodes a payload into, per message code.
   The decode target types come from the translator (Generated/GenAquaMsgs.v: reflection over the
   Go types of each `msg.Decode(&v)` branch, as Rlp/Typed.v descriptors).  Msg.Decode is
   rlp.NewStream(msg.Payload, msg.Size).Decode(&v): the first RLP value of the first Size bytes,
   interpreted at the target type; bytes after that value are ignored (msg.Discard).
   Definitions only (extracted). *)
From AQ Require Import Lib.Bytes Rlp.RlpSpec Rlp.Typed Generated.GenAquaMsgs Net.Limits.
Local Open Scope N_scope.

Fixpoint lookup_ty (code : N) (l : list (N * ty)) : option ty :=
  match l with [] => None | (c, t) :: r => if c =? code then Some t else lookup_ty code r end.
Definition msg_decode_type (code : N) : option ty := lookup_ty code aqua_msg_types.

(* the stream is limited to msg.Size bytes of the payload *)
Definition limit_to (size : N) (payload : bytes) : bytes :=
  if size <=? lenN payload then firstn (N.to_nat size) payload else payload.

(* first value at type t: the value and the bytes it was decoded from *)
Definition dec_prefix (t : ty) (b : bytes) : option (val * bytes) :=
  match decode b with
  | Some (x, _) => match interp t x with Some v => Some (v, encode x) | None => None end
  | None => None
  end.

Inductive hdec :=
| HdTooLarge | HdExtraStatus | HdInvalidCode
| HdNotTyped                      (* hash streams (codes 5, 13, 15: Net/Limits.v serve) and GetBlockHeaders (serve_headers) *)
| HdReject                        (* errResp(ErrDecode, ...) *)
| HdAccept (v : val) (consumed : bytes).

Definition handle_decode (code size : N) (payload : bytes) : hdec :=
  match handle_gate code size with
  | GTooLarge => HdTooLarge
  | GExtraStatus => HdExtraStatus
  | GInvalidCode => HdInvalidCode
  | GDecode =>
    match msg_decode_type code with
    | None => HdNotTyped
    | Some t => match dec_prefix t (limit_to size payload) with
                | None => HdReject
                | Some (v, c) => HdAccept v c
                end
    end
  end.

(* the fetch limit of the three hash-stream requests *)
Definition fetch_limit (code : N) : option N :=
  if code =? 5 then Some max_block_fetch
  else if code =? 13 then Some max_state_fetch
  else if code =? 15 then Some max_receipt_fetch
  else None.

Definition max_known_txs : N := Eval compute in g_max_known_txs.
Definition max_known_blocks : N := Eval compute in g_max_known_blocks.
(* aqua/peer.go MarkTransaction / MarkBlock: `for set.Cardinality() >= max { set.Pop() }; set.Add(h)`.
   Pop removes an arbitrary element: popped_self says whether it was h itself (only matters when h
   was already known and the set is at its cap). *)
Definition mark_known (max card : N) (already popped_self : bool) : N :=
  if max <=? card then
    let c := max - 1 in                                   (* popped down to max-1 *)
    if already && negb popped_self then c else c + 1
  else if already then card else card + 1.
