From AQ Require Import Lib.Bytes Rlp.RlpSpec Rlp.RlpProofs Rlp.Typed Rlp.TypedProofs Generated.GenAquaMsgs Generated.GenParamsNet Net.Limits Net.NetProofs.
From AQ Require Import Net.Messages.
From Coq Require Import ZifyBool ZifyN ZifyNat.
Local Open Scope N_scope.

(* every generated decode target is in the fragment the typed theorems cover — re-checked on
   every run against the regenerated table *)
Lemma aqua_msg_types_wf : forallb (fun p => wf (snd p)) aqua_msg_types = true.
Proof. vm_compute. reflexivity. Qed.

Lemma lookup_ty_in code l t : lookup_ty code l = Some t -> In (code, t) l.
Proof.
  induction l as [|[c t0] r IH]; cbn [lookup_ty]; [discriminate|].
  destruct (N.eqb_spec c code) as [->|]; [intros E; injection E as ->; now left|intros E; right; auto].
Qed.

Lemma msg_type_wf code t : msg_decode_type code = Some t -> wf t = true.
Proof.
  intros E. apply lookup_ty_in in E.
  pose proof aqua_msg_types_wf as Hall. rewrite forallb_forall in Hall. exact (Hall _ E).
Qed.

Lemma limit_to_len size payload : lenN (limit_to size payload) <= size \/ limit_to size payload = payload.
Proof.
  unfold limit_to. destruct (N.leb_spec size (lenN payload)); [left|right; reflexivity].
  unfold lenN in *. rewrite firstn_length. lia.
Qed.

Lemma limit_to_prefix size payload : exists rest, payload = limit_to size payload ++ rest.
Proof.
  unfold limit_to. destruct (size <=? lenN payload).
  - exists (skipn (N.to_nat size) payload). now rewrite firstn_skipn.
  - exists []. now rewrite app_nil_r.
Qed.

Lemma encode_list_count (l : list item) : (length l <= length (encode_list l))%nat.
Proof.
  induction l as [|y t IH]; [cbn; lia|]. rewrite encode_list_cons, app_length. cbn [length].
  pose proof (encode_length_pos y). lia.
Qed.

(* Whatever the payload: a typed message is rejected, or decoded to a value v whose canonical
   encoding IS a prefix of the (size-limited) payload — v holds nothing that was not in the
   message, its encoded size is at most msg.Size <= ProtocolMaxMsgSize, and a decoded list has at
   most as many elements as the prefix has bytes. *)
Theorem handle_decode_bounded code size payload v c :
  handle_decode code size payload = HdAccept v c ->
  size <= protocol_max_msg_size /\ code <> 0 /\
  exists t rest, msg_decode_type code = Some t /\ wf t = true /\
    payload = c ++ rest /\ enc_typed t v = Some c /\ dec_typed t c = Some v /\
    lenN c <= lenN payload /\ (size <= lenN payload -> lenN c <= size) /\
    (forall l, v = VList l -> match t with TSlice _ => N.of_nat (length l) <= lenN c | _ => True end).
Proof.
  unfold handle_decode. destruct (handle_gate code size) eqn:Eg; try discriminate.
  apply gate_decodes_only_known in Eg as (Hsz & _ & Hc0).
  destruct (msg_decode_type code) as [t|] eqn:Et; [|discriminate].
  pose proof (msg_type_wf _ _ Et) as Hwf.
  unfold dec_prefix. destruct (decode (limit_to size payload)) as [[x rest0]|] eqn:Ed; [|discriminate].
  destruct (interp t x) as [v0|] eqn:Ei; [|discriminate].
  intros E. injection E as <- <-. split; [exact Hsz|]. split; [exact Hc0|].
  apply decode_canonical in Ed as [Hb Hfits].
  destruct (limit_to_prefix size payload) as (rest1 & Hp).
  exists t, (rest0 ++ rest1). split; [reflexivity|]. split; [exact Hwf|].
  assert (Hto : to_item t v0 = Some x) by (apply typed_canonical; assumption).
  split; [rewrite Hp, Hb; now rewrite app_assoc|].
  split; [unfold enc_typed; now rewrite Hto|].
  split; [unfold dec_typed; rewrite decode_exact_encode by exact Hfits; exact Ei|].
  assert (Hlen : lenN (encode x) <= lenN (limit_to size payload)) by (rewrite Hb, lenN_app; lia).
  split; [assert (Hpl : lenN payload = lenN (limit_to size payload) + lenN rest1) by (rewrite Hp at 1; apply lenN_app); lia|].
  split.
  - intros Hs. unfold limit_to in Hlen. destruct (N.leb_spec size (lenN payload)); [|lia].
    unfold lenN in Hlen at 2. rewrite firstn_length in Hlen. lia.
  - intros l ->. destruct t; try exact I. cbn [to_item] in Hto.
    destruct (map_opt (to_item t) l) as [items|] eqn:Em; [|discriminate]. injection Hto as <-.
    apply map_opt_length in Em. rewrite encode_Lst.
    pose proof (enc_KLst_length (encode_list items)). pose proof (encode_list_count items).
    unfold lenN. lia.
Qed.

(* a response to a hash-stream request (GetBlockBodies / GetNodeData / GetReceipts) never has more
   entries than the request's fetch limit and stops within one entry of the soft response limit *)
Theorem response_bounded code limit l c b k maxsz :
  fetch_limit code = Some limit ->
  (forall n, In (EHash (Some n)) l -> n <= maxsz) ->
  serve limit 0 0 0 l = SOk c b k ->
  c <= limit /\ limit <= 384 /\ b < soft_response_limit + maxsz /\ k <= lenN l.
Proof.
  intros Hl Hsz Hs.
  destruct (serve_bounded limit l 0 0 0 c b k maxsz (N.le_0_l _) ltac:(unfold soft_response_limit; lia) Hsz Hs) as (H1 & H2 & H3 & _).
  repeat split; try assumption; try lia.
  unfold fetch_limit in Hl.
  destruct (code =? 5); [injection Hl as <-; unfold max_block_fetch; lia|].
  destruct (code =? 13); [injection Hl as <-; unfold max_state_fetch; lia|].
  destruct (code =? 15); [injection Hl as <-; unfold max_receipt_fetch; lia|discriminate].
Qed.

(* the per-peer known-transaction / known-block sets never exceed their caps *)
Theorem mark_known_bounded max card already popped_self :
  0 < max -> card <= max -> mark_known max card already popped_self <= max.
Proof.
  intros Hm Hc. unfold mark_known.
  destruct (N.leb_spec max card); destruct already, popped_self; cbn [andb negb]; lia.
Qed.

Theorem aqua_msgs_pinned :
  map fst aqua_msg_types = [0; 1; 2; 4; 6; 7; 14; 16] /\ aqua_hash_stream_codes = [5; 13; 15] /\ aqua_custom_codes = [3] /\
  forallb (fun p => wf (snd p)) aqua_msg_types = true /\
  g_max_known_txs = 32768 /\ g_max_known_blocks = 1024 /\
  (* the dispatch of handleMsg (GenParamsNet.g_aqua_codes) and the decode table cover each other *)
  forallb (fun c => existsb (N.eqb c) (map fst aqua_msg_types ++ aqua_hash_stream_codes ++ aqua_custom_codes)) g_aqua_codes = true /\
  forallb (fun c => existsb (N.eqb c) g_aqua_codes) (map fst aqua_msg_types ++ aqua_hash_stream_codes ++ aqua_custom_codes) = true.
Proof. repeat split; vm_compute; reflexivity. Qed.
