(* Net/ProtoHs.v — p2p/rlpx.go rlpx.doProtoHandshake as an interleaving model.
   Two goroutines share rw.snappy:
     writer   go func() { werr <- Send(t.rw, handshakeMsg, our) }()
              WriteMsg samples rw.snappy once, at its start, then writes the frame
     reader   their := readProtocolHandshake(t.rw, our)      (their.Version = v)
              <-werr                                          (waits for the writer to finish)
              t.rw.snappy = their.Version >= snappyProtocolVersion
   The steps of each goroutine are atomic; the scheduler interleaves them arbitrarily.
   `early` = the flag is set BEFORE <-werr (the ordering a seeded bug introduced): kept as a
   second system to show that the order is what the guarantee rests on.  Definitions only. *)
From AQ Require Import Lib.Bytes.
Local Open Scope N_scope.

Definition snappy_protocol_version : N := 5.

Inductive wpc := W0 | W1 (sampled : bool) | WDone (sampled : bool).   (* sampled: was our handshake frame compressed *)
Inductive rpc := R0 | R1 | R2 | RDone.
Record hstate := mk_hs { hs_flag : bool; hs_w : wpc; hs_r : rpc }.
Definition hs_init : hstate := mk_hs false W0 R0.

(* the steps enabled in a state (their.Version = v) *)
Definition writer_steps (s : hstate) : list hstate :=
  match hs_w s with
  | W0 => [mk_hs (hs_flag s) (W1 (hs_flag s)) (hs_r s)]
  | W1 b => [mk_hs (hs_flag s) (WDone b) (hs_r s)]
  | WDone _ => []
  end.
Definition writer_done (s : hstate) : bool := match hs_w s with WDone _ => true | _ => false end.
Definition reader_steps_b (early : bool) (set : bool) (s : hstate) : list hstate :=
  match hs_r s with
  | R0 => [mk_hs (hs_flag s) (hs_w s) R1]                                   (* remote handshake read *)
  | R1 => if early then [mk_hs set (hs_w s) R2]                             (* bug: flag set first ... *)
          else if writer_done s then [mk_hs (hs_flag s) (hs_w s) R2] else [] (* <-werr *)
  | R2 => if early then (if writer_done s then [mk_hs (hs_flag s) (hs_w s) RDone] else [])   (* ... then <-werr *)
          else [mk_hs set (hs_w s) RDone]                                   (* t.rw.snappy = ... *)
  | RDone => []
  end.
Definition next_states_b (early set : bool) (s : hstate) : list hstate := writer_steps s ++ reader_steps_b early set s.
(* set = their.Version >= snappyProtocolVersion *)
Definition next_states (early : bool) (v : N) (s : hstate) : list hstate := next_states_b early (snappy_protocol_version <=? v) s.

(* all terminal states reachable within fuel steps (6 steps suffice) *)
Fixpoint explore (fuel : nat) (early : bool) (v : N) (s : hstate) : list hstate :=
  match fuel with
  | O => []
  | S f => match next_states early v s with
           | [] => [s]
           | l => flat_map (explore f early v) l
           end
  end.
(* (our handshake frame was compressed, final rw.snappy) over every interleaving *)
Definition handshake_outcomes (early : bool) (v : N) : list (bool * bool) :=
  map (fun s => (match hs_w s with WDone b => b | W1 b => b | W0 => false end, hs_flag s)) (explore 8 early v hs_init).
