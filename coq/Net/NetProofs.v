(* Net/NetProofs.v — proofs about Net/Frame.v, Net/Discover.v, Net/Limits.v. *)
From AQ Require Import Lib.Bytes Rlp.RlpSpec Rlp.RlpProofs Net.Frame.
From Coq Require Import ZifyBool ZifyN ZifyNat.
Local Open Scope N_scope.

(* ------------------------------------------------------------------ *)
(* generic list / byte facts                                          *)
(* ------------------------------------------------------------------ *)

Lemma bxor_invol a b : bxor (bxor a b) b = a.
Proof.
  unfold bxor.
  destruct (Byte.to_bits a) as [a0 [a1 [a2 [a3 [a4 [a5 [a6 a7]]]]]]] eqn:Ea.
  destruct (Byte.to_bits b) as [b0 [b1 [b2 [b3 [b4 [b5 [b6 b7]]]]]]] eqn:Eb.
  rewrite Byte.to_bits_of_bits.
  rewrite !xorb_assoc, !xorb_nilpotent, !xorb_false_r.
  rewrite <- Ea. apply Byte.of_bits_to_bits.
Qed.

Lemma bxor_inj_r a b c : bxor a b = bxor a c -> b = c.
Proof.
  unfold bxor.
  destruct (Byte.to_bits a) as [a0 [a1 [a2 [a3 [a4 [a5 [a6 a7]]]]]]] eqn:Ea.
  destruct (Byte.to_bits b) as [b0 [b1 [b2 [b3 [b4 [b5 [b6 b7]]]]]]] eqn:Eb.
  destruct (Byte.to_bits c) as [c0 [c1 [c2 [c3 [c4 [c5 [c6 c7]]]]]]] eqn:Ec.
  intros E. apply (f_equal Byte.to_bits) in E. rewrite !Byte.to_bits_of_bits in E.
  assert (X : forall x y z, xorb x y = xorb x z -> y = z) by (intros [] [] []; simpl; congruence).
  injection E as E0 E1 E2 E3 E4 E5 E6 E7.
  apply X in E0, E1, E2, E3, E4, E5, E6, E7. subst.
  rewrite <- (Byte.of_bits_to_bits b), <- (Byte.of_bits_to_bits c). now rewrite Eb, Ec.
Qed.

Lemma xor_bytes_inj_r : forall a b c, length b = length a -> length c = length a ->
  xor_bytes a b = xor_bytes a c -> b = c.
Proof.
  induction a as [|x a IH]; intros [|y b] [|z c] Hb Hc E; simpl in *; try discriminate; try reflexivity.
  injection E as E1 E2. apply bxor_inj_r in E1. subst. f_equal. apply IH; auto.
Qed.

Lemma xor_bytes_length : forall a b, (length a <= length b)%nat -> length (xor_bytes a b) = length a.
Proof.
  induction a as [|x a IH]; intros [|y b] Hl; simpl in *; try reflexivity; try lia.
  rewrite IH; lia.
Qed.

Lemma takeN_app' {A} n (a r : list A) : lenN a = n -> takeN n (a ++ r) = Some (a, r).
Proof. intros <-. apply takeN_app. Qed.

Lemma lenN_length {A} (l : list A) n : length l = n -> lenN l = N.of_nat n.
Proof. unfold lenN. now intros ->. Qed.

Lemma firstn_app_exact {A} (a b : list A) n : length a = n -> firstn n (a ++ b) = a.
Proof. intros <-. rewrite firstn_app, Nat.sub_diag, firstn_all. simpl. apply app_nil_r. Qed.

Lemma skipn_app_exact {A} (a b : list A) n : length a = n -> skipn n (a ++ b) = b.
Proof. intros <-. rewrite skipn_app, Nat.sub_diag, skipn_all. reflexivity. Qed.

Lemma app_inv_len {A} (a a' b b' : list A) : length a = length a' -> a ++ b = a' ++ b' -> a = a' /\ b = b'.
Proof.
  revert a'. induction a as [|x a IH]; intros [|y a'] Hl E; simpl in *; try discriminate.
  - auto.
  - injection E as -> E. destruct (IH a') as [-> ->]; auto.
Qed.

Lemma bytes_eqb_neq a b : a <> b -> bytes_eqb a b = false.
Proof. intros Hn. destruct (bytes_eqb_spec a b); congruence. Qed.

Lemma zeros_length n : length (zeros n) = n.
Proof. apply repeat_length. Qed.

(* pad16 arithmetic *)
Lemma pad16_lt n : pad16 n < 16.
Proof. unfold pad16. pose proof (N.mod_lt n 16). destruct (N.eqb_spec (n mod 16) 0); lia. Qed.

Lemma frame_buf_size_bound fsize : fsize <= max_uint24 -> frame_buf_size fsize <= 16777231.
Proof. unfold frame_buf_size, max_uint24. pose proof (pad16_lt fsize). lia. Qed.

Lemma frame_buf_size_mod16 fsize : frame_buf_size fsize mod 16 = 0.
Proof.
  unfold frame_buf_size, pad16. pose proof (N.div_mod fsize 16). pose proof (N.mod_lt fsize 16).
  destruct (N.eqb_spec (fsize mod 16) 0) as [E|E].
  - rewrite N.add_0_r. exact E.
  - replace (fsize + (16 - fsize mod 16)) with (16 * (fsize / 16 + 1)) by lia.
    rewrite N.mul_comm. apply N.mod_mul. lia.
Qed.

Lemma N_of_be_3_lt bs : (length bs <= 3)%nat -> N_of_be bs <= max_uint24.
Proof.
  intros Hl. pose proof (N_of_be_lt bs) as Hlt.
  assert (256 ^ lenN bs <= 256 ^ 3) by (apply N.pow_le_mono_r; unfold lenN; lia).
  unfold max_uint24. change (256 ^ 3) with 16777216 in *. lia.
Qed.

(* dec_uint64 inverts the message-code encoding *)
Lemma dec_uint64_encode code r : code < two64 -> dec_uint64 (encode_uint code ++ r) = Some (code, r).
Proof.
  intros Hc. unfold dec_uint64, encode_uint. rewrite encode_Str.
  assert (Hlen : lenN (be_of_N code) <= 8) by (apply be_of_N_len_le; rewrite <- two64_eq; exact Hc).
  rewrite split_enc by (unfold two64; lia).
  cbn [item_to_uint]. rewrite be_of_N_no_lead0, N_of_be_of_N. cbn [andb orb N.eqb].
  destruct (N.leb_spec (lenN (be_of_N code) * 8) 64); [reflexivity|lia].
Qed.

Lemma encode_uint_len code : code < two64 -> 1 <= lenN (encode_uint code) <= 9.
Proof.
  intros Hc. unfold encode_uint. rewrite encode_Str.
  assert (Hlen : lenN (be_of_N code) <= 8) by (apply be_of_N_len_le; rewrite <- two64_eq; exact Hc).
  unfold enc. destruct (is_single_low (be_of_N code)) eqn:E.
  - apply is_single_low_len in E as (c & -> & _). cbn. lia.
  - unfold enc_hdr. destruct (N.ltb_spec (lenN (be_of_N code)) 56); [|lia].
    rewrite lenN_app. unfold lenN in *. cbn [length]. lia.
Qed.

(* replace the byte at position i *)
Definition set_nth (i : nat) (b : byte) (l : bytes) : bytes := firstn i l ++ b :: skipn (S i) l.

Lemma set_nth_length i b l : (i < length l)%nat -> length (set_nth i b l) = length l.
Proof.
  intros Hi. unfold set_nth. rewrite app_length. cbn [length]. rewrite firstn_length, skipn_length. lia.
Qed.

Lemma set_nth_neq i b l : (i < length l)%nat -> nth i l x00 <> b -> set_nth i b l <> l.
Proof.
  intros Hi Hn E. apply Hn. rewrite <- E at 1. unfold set_nth.
  rewrite app_nth2; rewrite firstn_length; [|lia].
  replace (i - Nat.min i (length l))%nat with 0%nat by lia. reflexivity.
Qed.

Lemma set_nth_app_l i b (a r : bytes) : (i < length a)%nat -> set_nth i b (a ++ r) = set_nth i b a ++ r.
Proof.
  intros Hi. unfold set_nth. rewrite firstn_app, skipn_app.
  replace (i - length a)%nat with 0%nat by lia. replace (S i - length a)%nat with 0%nat by lia.
  cbn [firstn skipn]. rewrite app_nil_r, <- app_assoc. reflexivity.
Qed.

Lemma set_nth_app_r i b (a r : bytes) : (length a <= i)%nat -> set_nth i b (a ++ r) = a ++ set_nth (i - length a) b r.
Proof.
  intros Hi. unfold set_nth. rewrite firstn_app, skipn_app.
  rewrite firstn_all2 by lia. rewrite skipn_all2 by lia.
  replace (S i - length a)%nat with (S (i - length a)) by lia.
  cbn [app]. rewrite <- app_assoc. reflexivity.
Qed.

Lemma nth_app_r_shift (a r : bytes) i : (length a <= i)%nat -> nth i (a ++ r) x00 = nth (i - length a) r x00.
Proof. intros Hi. now apply app_nth2. Qed.

(* ------------------------------------------------------------------ *)
(* the frame codec                                                    *)
(* ------------------------------------------------------------------ *)
Section FrameProofs.
  Variable H : bytes -> bytes.
  Variable aes_block : bytes -> bytes.
  Variable ks : N -> byte.
  Variable snappy_enc : bytes -> bytes.
  Variable snappy_dec : bytes -> option bytes.

  Notation xor_ks := (xor_ks ks).
  Notation update_mac := (update_mac H aes_block).
  Notation write_msg := (write_msg H aes_block ks snappy_enc).
  Notation read_msg := (read_msg H aes_block ks snappy_dec).
  Notation write_all := (write_all H aes_block ks snappy_enc).
  Notation read_n := (read_n H aes_block ks snappy_dec).

  Lemma xor_ks_length : forall d pos, length (xor_ks pos d) = length d.
  Proof. induction d as [|x d IH]; intros pos; simpl; [reflexivity|now rewrite IH]. Qed.

  Lemma xor_ks_lenN d pos : lenN (xor_ks pos d) = lenN d.
  Proof. unfold lenN. now rewrite xor_ks_length. Qed.

  Lemma xor_ks_invol : forall d pos, xor_ks pos (xor_ks pos d) = d.
  Proof. induction d as [|x d IH]; intros pos; simpl; [reflexivity|]. now rewrite bxor_invol, IH. Qed.

  Lemma xor_ks_inj : forall d d' pos, xor_ks pos d = xor_ks pos d' -> d = d'.
  Proof. intros d d' pos E. rewrite <- (xor_ks_invol d pos), E. apply xor_ks_invol. Qed.

  (* the frame the writer emits for a body of fsize bytes (padded to `body`)
     from stream offset pos and MAC state mac: its four fields and the final MAC state *)
  Definition f_hc (pos fsize : N) : bytes := xor_ks pos (be_fixed 3 fsize ++ zero_header ++ zeros 10).
  Definition f_mac1 (pos : N) (mac : bytes) (fsize : N) : bytes := fst (update_mac mac (f_hc pos fsize)).
  Definition f_hm (pos : N) (mac : bytes) (fsize : N) : bytes := snd (update_mac mac (f_hc pos fsize)).
  Definition f_ct (pos : N) (body : bytes) : bytes := xor_ks (pos + 16) body.
  Definition f_mac2 pos mac fsize body : bytes := f_mac1 pos mac fsize ++ f_ct pos body.
  Definition f_mac3 pos mac fsize body : bytes :=
    fst (update_mac (f_mac2 pos mac fsize body) (H (f_mac2 pos mac fsize body))).
  Definition f_fm pos mac fsize body : bytes :=
    snd (update_mac (f_mac2 pos mac fsize body) (H (f_mac2 pos mac fsize body))).
  Definition frame pos mac fsize body : bytes :=
    f_hc pos fsize ++ f_hm pos mac fsize ++ f_ct pos body ++ f_fm pos mac fsize body.

  (* what WriteMsg did, in terms of `frame` *)
  Definition payload1 (snappy : bool) (payload : bytes) : bytes :=
    if snappy then snappy_enc payload else payload.
  Definition fsize_of (snappy : bool) (code : N) (payload : bytes) : N :=
    lenN (encode_uint code) + lenN (payload1 snappy payload).
  Definition body_of (snappy : bool) (code : N) (payload : bytes) : bytes :=
    encode_uint code ++ payload1 snappy payload ++ zeros (N.to_nat (pad16 (fsize_of snappy code payload))).

  (* a message the caller may legitimately hand to WriteMsg: the code is a
     uint64, Size = len(payload) fits uint32 and uint32(len(ptype))+Size does not wrap *)
  Definition msg_ok (snappy : bool) (m : N * bytes) : Prop :=
    fst m < two64 /\ lenN (snd m) < two32 /\ fsize_of snappy (fst m) (snd m) < two32.

  Lemma write_msg_frame snappy pos mac code payload out st' :
    msg_ok snappy (code, payload) ->
    write_msg snappy (mk_wstate pos mac) code payload = WOk out st' ->
    let fsize := fsize_of snappy code payload in
    let body := body_of snappy code payload in
    fsize <= max_uint24 /\
    out = frame pos mac fsize body /\
    st' = mk_wstate (pos + 16 + lenN body) (f_mac3 pos mac fsize body) /\
    (snappy = true -> lenN payload <= max_uint24).
  Proof.
    clear snappy_dec.
    intros (Hc & Hp & Hf). cbn [fst snd] in *. unfold Frame.write_msg. cbn [w_pos w_mac].
    rewrite (N.mod_small (lenN payload) two32) by exact Hp.
    destruct (snappy && (max_uint24 <? lenN payload)) eqn:Eg; [discriminate|].
    fold (payload1 snappy payload).
    assert (Hp1 : lenN (payload1 snappy payload) < two32) by (unfold fsize_of in Hf; lia).
    rewrite (N.mod_small (lenN (payload1 snappy payload)) two32) by exact Hp1.
    fold (fsize_of snappy code payload).
    rewrite (N.mod_small (fsize_of snappy code payload) two32) by exact Hf.
    destruct (N.ltb_spec max_uint24 (fsize_of snappy code payload)) as [|Hle]; [discriminate|].
    unfold Frame.update_mac. intros E. injection E as <- <-.
    repeat split; try assumption; try reflexivity.
    intros ->. cbn [andb] in Eg. lia.
  Qed.

  Lemma body_of_len snappy code payload :
    lenN (body_of snappy code payload) = frame_buf_size (fsize_of snappy code payload).
  Proof.
    unfold body_of, frame_buf_size. rewrite !lenN_app. unfold fsize_of at 2.
    unfold lenN at 3. rewrite zeros_length. lia.
  Qed.

  Section WithLen.
  Hypothesis H_len : forall m, length (H m) = 32%nat.

  Lemma f_hc_length pos fsize : length (f_hc pos fsize) = 16%nat.
  Proof. unfold f_hc. rewrite xor_ks_length, !app_length, be_fixed_length, zeros_length. reflexivity. Qed.

  Lemma tag_length m : length (firstn 16 (H m)) = 16%nat.
  Proof. rewrite firstn_length, H_len. reflexivity. Qed.

  Lemma update_mac_tag_length mac seed : length (snd (update_mac mac seed)) = 16%nat.
  Proof. unfold Frame.update_mac. cbn [snd]. apply tag_length. Qed.

  Lemma f_hm_length pos mac fsize : length (f_hm pos mac fsize) = 16%nat.
  Proof. unfold f_hm, Frame.update_mac. cbn [snd]. apply tag_length. Qed.

  Lemma f_fm_length pos mac fsize body : length (f_fm pos mac fsize body) = 16%nat.
  Proof. unfold f_fm, Frame.update_mac. cbn [snd]. apply tag_length. Qed.

  Lemma frame_length pos mac fsize body :
    length (frame pos mac fsize body) = (48 + length body)%nat.
  Proof.
    clear snappy_enc snappy_dec.
    unfold frame. rewrite !app_length, f_hc_length, f_hm_length, f_fm_length.
    unfold f_ct. rewrite xor_ks_length. lia.
  Qed.

  (* reading an arbitrary 4-field stream from the lockstep state: the generic
     unfolding used by the round-trip and by the tamper theorems *)
  Lemma read_fields snappy pos mac hc hm s1 :
    length hc = 16%nat -> length hm = 16%nat ->
    read_msg snappy (mk_rstate pos mac) (hc ++ hm ++ s1) =
      let '(mac1, should) := update_mac mac hc in
      if negb (bytes_eqb should hm) then RErr RHeaderMac else
      let fsize := N_of_be (firstn 3 (xor_ks pos hc)) in
      let rsize := frame_buf_size fsize in
      match takeN rsize s1 with
      | None => RErr RShort
      | Some (framebuf, s2) =>
        let mac2 := mac1 ++ framebuf in
        match takeN 16 s2 with
        | None => RErr RShort
        | Some (fm, s3) =>
          let '(mac3, should2) := update_mac mac2 (H mac2) in
          if negb (bytes_eqb should2 fm) then RErr RFrameMac else
          match dec_uint64 (firstn (N.to_nat fsize) (xor_ks (pos + 16) framebuf)) with
          | None => RErr RCode
          | Some (code, payload) =>
            deliver snappy_dec snappy code payload (mk_rstate (pos + 16 + rsize) mac3) s3
          end
        end
      end.
  Proof.
    intros Hhc Hhm. unfold Frame.read_msg. cbn [r_pos r_mac].
    rewrite app_assoc.
    rewrite (takeN_app' 32 (hc ++ hm) s1) by (unfold lenN; rewrite app_length, Hhc, Hhm; reflexivity).
    rewrite (firstn_app_exact hc hm 16 Hhc), (skipn_app_exact hc hm 16 Hhc).
    reflexivity.
  Qed.

  Lemma read_frame snappy pos mac fsize body rest :
    fsize <= max_uint24 -> lenN body = frame_buf_size fsize ->
    read_msg snappy (mk_rstate pos mac) (frame pos mac fsize body ++ rest) =
      match dec_uint64 (firstn (N.to_nat fsize) body) with
      | None => RErr RCode
      | Some (code, payload) =>
        deliver snappy_dec snappy code payload
          (mk_rstate (pos + 16 + lenN body) (f_mac3 pos mac fsize body)) rest
      end.
  Proof.
    intros Hfs Hbody. unfold frame. rewrite <- !app_assoc.
    rewrite read_fields by (apply f_hc_length || apply f_hm_length).
    unfold f_hm, f_fm, f_mac3, f_mac2, f_mac1.
    destruct (update_mac mac (f_hc pos fsize)) as [mac1 should] eqn:Eu. cbn [fst snd].
    rewrite bytes_eqb_refl. cbn [negb].
    assert (Efs : N_of_be (firstn 3 (xor_ks pos (f_hc pos fsize))) = fsize).
    { unfold f_hc. rewrite xor_ks_invol.
      rewrite firstn_app_exact by apply be_fixed_length.
      apply N_of_be_fixed. unfold max_uint24 in Hfs. change (256 ^ N.of_nat 3) with 16777216. lia. }
    rewrite Efs. cbv zeta.
    rewrite (takeN_app' (frame_buf_size fsize) (f_ct pos body)) by (unfold f_ct; rewrite xor_ks_lenN; exact Hbody).
    destruct (update_mac (mac1 ++ f_ct pos body) (H (mac1 ++ f_ct pos body))) as [mac3 should2] eqn:Eu2.
    cbn [fst snd].
    assert (Hl2 : lenN should2 = 16).
    { replace should2 with (snd (update_mac (mac1 ++ f_ct pos body) (H (mac1 ++ f_ct pos body)))) by (now rewrite Eu2).
      apply (lenN_length _ 16%nat). apply update_mac_tag_length. }
    rewrite (takeN_app' 16 should2 rest Hl2).
    rewrite bytes_eqb_refl. cbn [negb].
    unfold f_ct. rewrite xor_ks_invol. rewrite <- Hbody. reflexivity.
  Qed.

  Section WithSnappy.
  (* hypotheses about the compressor (only used when snappy = true) *)
  Hypothesis snappy_roundtrip : forall p, snappy_dec (snappy_enc p) = Some p.
  Hypothesis snappy_len : forall p, lenN p <= max_uint24 -> snappy_declen (snappy_enc p) = Some (lenN p).

  (* one frame: reading what was written, from the same state, yields the
     message, the writer's state and the untouched rest of the stream *)
  Lemma frame_roundtrip1 snappy pos mac code payload out st' rest :
    msg_ok snappy (code, payload) ->
    write_msg snappy (mk_wstate pos mac) code payload = WOk out st' ->
    read_msg snappy (mk_rstate pos mac) (out ++ rest) =
      ROk code payload (mk_rstate (w_pos st') (w_mac st')) rest.
  Proof.
    intros Hok Hw. pose proof Hok as (Hc & Hp & Hf). cbn [fst snd] in *.
    apply write_msg_frame in Hw; [|exact Hok]. destruct Hw as (Hfs & -> & -> & Hsn).
    rewrite read_frame by (exact Hfs || apply body_of_len).
    cbn [w_pos w_mac].
    assert (Efirst : firstn (N.to_nat (fsize_of snappy code payload)) (body_of snappy code payload)
                     = encode_uint code ++ payload1 snappy payload).
    { unfold body_of. rewrite app_assoc. apply firstn_app_exact.
      unfold fsize_of, lenN. rewrite app_length. lia. }
    rewrite Efirst, dec_uint64_encode by exact Hc.
    unfold deliver, payload1. destruct snappy.
    - rewrite snappy_len by (apply Hsn; reflexivity).
      destruct (N.ltb_spec max_uint24 (lenN payload)) as [Hgt|_].
      + specialize (Hsn eq_refl). lia.
      + now rewrite snappy_roundtrip.
    - reflexivity.
  Qed.

  (* the session invariant: after every message the reader's (offset, MAC) equals the writer's *)
  Theorem frame_roundtrip snappy : forall ms pos mac out st' rest,
    Forall (msg_ok snappy) ms ->
    write_all snappy (mk_wstate pos mac) ms = Some (out, st') ->
    read_n snappy (length ms) (mk_rstate pos mac) (out ++ rest) =
      (ms, None, mk_rstate (w_pos st') (w_mac st'), rest).
  Proof.
    induction ms as [|[c p] ms IH]; intros pos mac out st' rest Hall Hw.
    - cbn in Hw. injection Hw as <- <-. reflexivity.
    - inversion Hall as [|? ? Hm Hrest]; subst.
      cbn [Frame.write_all] in Hw.
      destruct (write_msg snappy (mk_wstate pos mac) c p) as [e|o st1] eqn:E1; [discriminate|].
      destruct (write_all snappy st1 ms) as [[o' st2]|] eqn:E2; [|discriminate].
      injection Hw as <- <-.
      cbn [length Frame.read_n]. rewrite <- app_assoc.
      rewrite (frame_roundtrip1 snappy pos mac c p o st1 (o' ++ rest) Hm E1).
      destruct st1 as [pos1 mac1]. cbn [w_pos w_mac].
      rewrite (IH pos1 mac1 o' st2 rest Hrest E2). reflexivity.
  Qed.

  End WithSnappy.

  (* ---------------- tamper detection ---------------- *)
  (* premises: the 16-byte MAC tag (truncated Keccak digest) is collision-free
     on the strings the two sides absorb; the AES block has 16 bytes *)
  Hypothesis tag_collision_free : forall a b, firstn 16 (H a) = firstn 16 (H b) -> a = b.
  Hypothesis aes_len : forall b, length (aes_block b) = 16%nat.

  Lemma update_mac_tag_inj mac seed seed' :
    length seed = 16%nat -> length seed' = 16%nat ->
    snd (update_mac mac seed) = snd (update_mac mac seed') -> seed = seed'.
  Proof.
    intros Hs Hs'. unfold Frame.update_mac. cbn [snd]. intros E.
    apply tag_collision_free in E. apply app_inv_head in E.
    apply xor_bytes_inj_r in E; auto; rewrite aes_len; auto.
  Qed.

  (* Field-wise statement.  The stream handed to the reader is any four fields
     of the right lengths followed by anything.  If it differs from the written
     frame in the header ciphertext only, or in the header tag only, the header
     MAC check fails; if the header is intact and it differs in the frame
     ciphertext only, or in the frame tag only, the frame MAC check fails.  In
     every case ReadMsg returns the error before decrypting or delivering. *)
  Theorem frame_field_tamper_detected snappy pos mac fsize body hc' hm' ct' fm' rest :
    fsize <= max_uint24 -> lenN body = frame_buf_size fsize ->
    length hc' = 16%nat -> length hm' = 16%nat -> length ct' = length body -> length fm' = 16%nat ->
    let hc := f_hc pos fsize in let hm := f_hm pos mac fsize in
    let ct := f_ct pos body in let fm := f_fm pos mac fsize body in
    let s' := hc' ++ hm' ++ ct' ++ fm' ++ rest in
    ((hc' <> hc /\ hm' = hm) \/ (hc' = hc /\ hm' <> hm) ->
       read_msg snappy (mk_rstate pos mac) s' = RErr RHeaderMac) /\
    (hc' = hc /\ hm' = hm /\ ((ct' <> ct /\ fm' = fm) \/ (ct' = ct /\ fm' <> fm)) ->
       read_msg snappy (mk_rstate pos mac) s' = RErr RFrameMac).
  Proof.
    clear snappy_enc.
    intros Hfs Hbody Lhc Lhm Lct Lfm hc hm ct fm s'. subst s'. split.
    - intros Hcase. rewrite read_fields by assumption.
      destruct (update_mac mac hc') as [mac1 should] eqn:Eu.
      assert (Hne : should <> hm').
      { destruct Hcase as [[Hn ->]|[-> Hn]].
        - intros Heq. apply Hn. subst hm hc. unfold f_hm in Heq.
          apply (update_mac_tag_inj mac); [assumption|apply f_hc_length|].
          rewrite Eu. cbn [snd]. exact Heq.
        - intros Heq. apply Hn. subst hm. unfold f_hm. fold hc. rewrite Eu. cbn [snd]. now symmetry. }
      now rewrite (bytes_eqb_neq _ _ Hne).
    - intros (-> & -> & Hcase). rewrite read_fields by (apply f_hc_length || apply f_hm_length).
      subst hc hm. unfold f_hm.
      destruct (update_mac mac (f_hc pos fsize)) as [mac1 should] eqn:Eu. cbn [snd].
      rewrite bytes_eqb_refl. cbn [negb].
      assert (Efs : N_of_be (firstn 3 (xor_ks pos (f_hc pos fsize))) = fsize).
      { unfold f_hc. rewrite xor_ks_invol.
        rewrite firstn_app_exact by apply be_fixed_length.
        apply N_of_be_fixed. unfold max_uint24 in Hfs. change (256 ^ N.of_nat 3) with 16777216. lia. }
      rewrite Efs. cbv zeta.
      rewrite (takeN_app' (frame_buf_size fsize) ct') by (unfold lenN; rewrite Lct; exact Hbody).
      rewrite (takeN_app' 16 fm' rest) by (unfold lenN; rewrite Lfm; reflexivity).
      destruct (update_mac (mac1 ++ ct') (H (mac1 ++ ct'))) as [mac3 should2] eqn:Eu2.
      assert (Hmac1 : mac1 = f_mac1 pos mac fsize) by (unfold f_mac1; now rewrite Eu).
      assert (Hne : should2 <> fm').
      { destruct Hcase as [[Hn ->]|[-> Hn]].
        - intros Heq. apply Hn. subst fm ct. unfold f_fm, f_mac2 in Heq. rewrite <- Hmac1 in Heq.
          unfold Frame.update_mac in Eu2, Heq. injection Eu2 as _ E2. cbn [snd] in Heq.
          rewrite <- E2 in Heq. apply tag_collision_free in Heq.
          apply app_inv_len in Heq as [Heq _].
          + now apply app_inv_head in Heq.
          + rewrite !app_length. unfold f_ct. rewrite xor_ks_length. lia.
        - intros Heq. apply Hn. subst fm ct. unfold f_fm, f_mac2. rewrite <- Hmac1, Eu2. cbn [snd]. now symmetry. }
      now rewrite (bytes_eqb_neq _ _ Hne).
  Qed.

  (* Any single byte of a written frame replaced by a different value — at any
     position, header, header tag, ciphertext or frame tag — makes ReadMsg fail
     at a MAC check, with nothing delivered. *)
  Theorem frame_byte_flip_detected snappy pos mac fsize body rest i b :
    fsize <= max_uint24 -> lenN body = frame_buf_size fsize ->
    (i < length (frame pos mac fsize body))%nat ->
    nth i (frame pos mac fsize body) x00 <> b ->
    exists e, read_msg snappy (mk_rstate pos mac) (set_nth i b (frame pos mac fsize body) ++ rest) = RErr e /\
              (e = RHeaderMac \/ e = RFrameMac).
  Proof.
    clear snappy_enc.
    intros Hfs Hbody Hi Hn. rewrite frame_length in Hi.
    pose proof (f_hc_length pos fsize) as Lhc. pose proof (f_hm_length pos mac fsize) as Lhm.
    pose proof (f_fm_length pos mac fsize body) as Lfm.
    assert (Lct : length (f_ct pos body) = length body) by (unfold f_ct; apply xor_ks_length).
    unfold frame in *.
    destruct (Nat.lt_ge_cases i 16) as [H1|H1].
    { (* header ciphertext *)
      rewrite set_nth_app_l by lia. rewrite app_nth1 in Hn by lia.
      exists RHeaderMac. split; [|now left]. rewrite <- !app_assoc.
      apply (proj1 (frame_field_tamper_detected snappy pos mac fsize body (set_nth i b (f_hc pos fsize)) (f_hm pos mac fsize) (f_ct pos body) (f_fm pos mac fsize body) rest
                      Hfs Hbody ltac:(rewrite set_nth_length; lia) Lhm Lct Lfm)).
      left. split; [apply set_nth_neq; [lia|exact Hn]|reflexivity]. }
    rewrite set_nth_app_r by lia. rewrite nth_app_r_shift in Hn by lia. rewrite Lhc in *.
    destruct (Nat.lt_ge_cases (i - 16) 16) as [H2|H2].
    { (* header tag *)
      rewrite set_nth_app_l by lia. rewrite app_nth1 in Hn by lia.
      exists RHeaderMac. split; [|now left]. rewrite <- !app_assoc.
      apply (proj1 (frame_field_tamper_detected snappy pos mac fsize body (f_hc pos fsize) (set_nth (i - 16) b (f_hm pos mac fsize)) (f_ct pos body) (f_fm pos mac fsize body) rest
                      Hfs Hbody Lhc ltac:(rewrite set_nth_length; lia) Lct Lfm)).
      right. split; [reflexivity|apply set_nth_neq; [lia|exact Hn]]. }
    rewrite set_nth_app_r by lia. rewrite nth_app_r_shift in Hn by lia. rewrite Lhm in *.
    destruct (Nat.lt_ge_cases (i - 16 - 16) (length body)) as [H3|H3].
    { (* frame ciphertext *)
      rewrite set_nth_app_l by lia. rewrite app_nth1 in Hn by lia.
      exists RFrameMac. split; [|now right]. rewrite <- !app_assoc.
      apply (proj2 (frame_field_tamper_detected snappy pos mac fsize body (f_hc pos fsize) (f_hm pos mac fsize) (set_nth (i - 16 - 16) b (f_ct pos body)) (f_fm pos mac fsize body) rest
                      Hfs Hbody Lhc Lhm ltac:(rewrite set_nth_length; lia) Lfm)).
      split; [reflexivity|]. split; [reflexivity|].
      left. split; [apply set_nth_neq; [lia|exact Hn]|reflexivity]. }
    (* frame tag *)
    rewrite set_nth_app_r by lia. rewrite nth_app_r_shift in Hn by lia. rewrite Lct in *.
    exists RFrameMac. split; [|now right]. rewrite <- !app_assoc.
    apply (proj2 (frame_field_tamper_detected snappy pos mac fsize body (f_hc pos fsize) (f_hm pos mac fsize) (f_ct pos body) (set_nth (i - 16 - 16 - length body) b (f_fm pos mac fsize body)) rest
                    Hfs Hbody Lhc Lhm Lct ltac:(rewrite set_nth_length; lia))).
    split; [reflexivity|]. split; [reflexivity|].
    right. split; [reflexivity|apply set_nth_neq; [lia|exact Hn]].
  Qed.

  (* ---------------- truncation ---------------- *)
  Lemma takeN_short {A} n (l : list A) : lenN l < n -> takeN n l = None.
  Proof. intros Hl. unfold takeN. destruct (N.leb_spec n (lenN l)); [lia|reflexivity]. Qed.

  (* Any strict prefix of a written frame (the connection dies, or bytes are
     withheld) makes ReadMsg fail with a short read: nothing is delivered. *)
  Theorem frame_truncation_detected snappy pos mac fsize body k :
    fsize <= max_uint24 -> lenN body = frame_buf_size fsize ->
    (k < length (frame pos mac fsize body))%nat ->
    read_msg snappy (mk_rstate pos mac) (firstn k (frame pos mac fsize body)) = RErr RShort.
  Proof.
    clear snappy_enc tag_collision_free aes_len.
    intros Hfs Hbody Hk. rewrite frame_length in Hk.
    pose proof (f_hc_length pos fsize) as Lhc. pose proof (f_hm_length pos mac fsize) as Lhm.
    pose proof (f_fm_length pos mac fsize body) as Lfm.
    assert (Lct : length (f_ct pos body) = length body) by (unfold f_ct; apply xor_ks_length).
    destruct (Nat.lt_ge_cases k 32) as [H1|H1].
    { unfold Frame.read_msg. rewrite takeN_short; [reflexivity|].
      unfold lenN. rewrite firstn_length. lia. }
    unfold frame.
    rewrite firstn_app, (firstn_all2 (f_hc pos fsize)) by lia. rewrite Lhc.
    rewrite firstn_app, (firstn_all2 (f_hm pos mac fsize)) by lia. rewrite Lhm.
    rewrite read_fields by assumption.
    unfold f_hm.
    destruct (update_mac mac (f_hc pos fsize)) as [mac1 should] eqn:Eu. cbn [snd].
    rewrite bytes_eqb_refl. cbn [negb].
    assert (Efs : N_of_be (firstn 3 (xor_ks pos (f_hc pos fsize))) = fsize).
    { unfold f_hc. rewrite xor_ks_invol.
      rewrite firstn_app_exact by apply be_fixed_length.
      apply N_of_be_fixed. unfold max_uint24 in Hfs. change (256 ^ N.of_nat 3) with 16777216. lia. }
    rewrite Efs. cbv zeta.
    destruct (Nat.lt_ge_cases (k - 16 - 16) (length body)) as [H2|H2].
    { rewrite takeN_short; [reflexivity|].
      unfold lenN. rewrite firstn_length, app_length, Lct. rewrite <- Hbody. unfold lenN. lia. }
    rewrite firstn_app, (firstn_all2 (f_ct pos body)) by lia. rewrite Lct.
    rewrite (takeN_app' (frame_buf_size fsize) (f_ct pos body)) by (unfold lenN; rewrite Lct; exact Hbody).
    rewrite takeN_short; [reflexivity|].
    unfold lenN. rewrite firstn_length. lia.
  Qed.

  (* ---------------- sessions ---------------- *)
  Section Session.
  Hypothesis snappy_roundtrip : forall p, snappy_dec (snappy_enc p) = Some p.
  Hypothesis snappy_len : forall p, lenN p <= max_uint24 -> snappy_declen (snappy_enc p) = Some (lenN p).

  (* reading past a written prefix: the first |ms| reads return ms and leave the
     reader in the writer's state; what happens next is decided by the rest *)
  Lemma read_n_prefix snappy : forall ms pos mac out st' k rest,
    Forall (msg_ok snappy) ms ->
    write_all snappy (mk_wstate pos mac) ms = Some (out, st') ->
    read_n snappy (length ms + k) (mk_rstate pos mac) (out ++ rest) =
      let '(ms', e, st2, r) := read_n snappy k (mk_rstate (w_pos st') (w_mac st')) rest in
      (ms ++ ms', e, st2, r).
  Proof.
    clear tag_collision_free aes_len.
    induction ms as [|[c p] ms IH]; intros pos mac out st' k rest Hall Hw.
    - cbn in Hw. injection Hw as <- <-. cbn [length Nat.add app w_pos w_mac].
      destruct (read_n snappy k (mk_rstate pos mac) rest) as [[[ms' e] st2] r]. reflexivity.
    - inversion Hall as [|? ? Hm Hrest]; subst.
      cbn [Frame.write_all] in Hw.
      destruct (write_msg snappy (mk_wstate pos mac) c p) as [e|o st1] eqn:E1; [discriminate|].
      destruct (write_all snappy st1 ms) as [[o' st2]|] eqn:E2; [|discriminate].
      injection Hw as <- <-.
      cbn [length Nat.add Frame.read_n]. rewrite <- app_assoc.
      rewrite (frame_roundtrip1 snappy_roundtrip snappy_len snappy pos mac c p o st1 (o' ++ rest) Hm E1).
      destruct st1 as [pos1 mac1]. cbn [w_pos w_mac].
      rewrite (IH pos1 mac1 o' st2 k rest Hrest E2).
      destruct (read_n snappy k (mk_rstate (w_pos st2) (w_mac st2)) rest) as [[[ms' e] st3] r]. reflexivity.
  Qed.

  (* A session in which one byte of frame i is altered (anything may follow it):
     the frames before i are delivered unchanged, frame i fails a MAC check, and
     nothing after it is delivered — however many reads are attempted. *)
  Theorem session_tamper_detected snappy ms1 c p pos mac out1 st1 F st2 i b rest n :
    Forall (msg_ok snappy) ms1 -> msg_ok snappy (c, p) ->
    write_all snappy (mk_wstate pos mac) ms1 = Some (out1, st1) ->
    write_msg snappy st1 c p = WOk F st2 ->
    (i < length F)%nat -> nth i F x00 <> b -> (length ms1 < n)%nat ->
    exists e, read_n snappy n (mk_rstate pos mac) (out1 ++ set_nth i b F ++ rest) =
                (ms1, Some e, mk_rstate (w_pos st1) (w_mac st1), set_nth i b F ++ rest) /\
              (e = RHeaderMac \/ e = RFrameMac).
  Proof.
    intros Hall Hm Hw1 Hw Hi Hn Hlen.
    replace n with (length ms1 + S (n - length ms1 - 1))%nat by lia.
    rewrite (read_n_prefix snappy ms1 pos mac out1 st1 _ _ Hall Hw1).
    destruct st1 as [pos1 mac1]. cbn [w_pos w_mac].
    apply write_msg_frame in Hw; [|exact Hm]. destruct Hw as (Hfs & -> & _ & _).
    destruct (frame_byte_flip_detected snappy pos1 mac1 _ _ rest i b Hfs (body_of_len snappy c p) Hi Hn)
      as (e & He & Hcls).
    exists e. split; [|exact Hcls].
    cbn [Frame.read_n]. rewrite He. now rewrite app_nil_r.
  Qed.

  (* the same for a session cut off inside frame i *)
  Theorem session_truncation_detected snappy ms1 c p pos mac out1 st1 F st2 k n :
    Forall (msg_ok snappy) ms1 -> msg_ok snappy (c, p) ->
    write_all snappy (mk_wstate pos mac) ms1 = Some (out1, st1) ->
    write_msg snappy st1 c p = WOk F st2 ->
    (k < length F)%nat -> (length ms1 < n)%nat ->
    read_n snappy n (mk_rstate pos mac) (out1 ++ firstn k F) =
      (ms1, Some RShort, mk_rstate (w_pos st1) (w_mac st1), firstn k F).
  Proof.
    clear tag_collision_free aes_len.
    intros Hall Hm Hw1 Hw Hk Hlen.
    replace n with (length ms1 + S (n - length ms1 - 1))%nat by lia.
    rewrite (read_n_prefix snappy ms1 pos mac out1 st1 _ _ Hall Hw1).
    destruct st1 as [pos1 mac1]. cbn [w_pos w_mac].
    apply write_msg_frame in Hw; [|exact Hm]. destruct Hw as (Hfs & -> & _ & _).
    cbn [Frame.read_n].
    rewrite (frame_truncation_detected snappy pos1 mac1 _ _ k Hfs (body_of_len snappy c p) Hk).
    now rewrite app_nil_r.
  Qed.
  End Session.
  End WithLen.
End FrameProofs.

(* ------------------------------------------------------------------ *)
(* size bounds of the reader                                          *)
(* ------------------------------------------------------------------ *)
Section FrameBounds.
  Variable H : bytes -> bytes.
  Variable aes_block : bytes -> bytes.
  Variable ks : N -> byte.
  Variable snappy_dec : bytes -> option bytes.

  (* the only buffer ReadMsg sizes from network input is framebuf = make([]byte, rsize),
     rsize computed from three header bytes: never more than 2^24 + 15 bytes *)
  Theorem frame_alloc_bounded : forall hp : bytes,
    frame_buf_size (N_of_be (firstn 3 hp)) <= 16777231.
  Proof.
    clear H aes_block ks snappy_dec.
    intros hp. apply frame_buf_size_bound. apply N_of_be_3_lt. rewrite firstn_length. lia.
  Qed.

  (* a snappy payload that declares more than 2^24-1 bytes is refused whatever the
     decompressor would do: the result does not depend on snappy_dec *)
  Theorem snappy_overlimit_refused : forall code payload st' rest n,
    snappy_declen payload = Some n -> max_uint24 < n ->
    deliver snappy_dec true code payload st' rest = RErr RTooLarge.
  Proof.
    clear H aes_block ks.
    intros code payload st' rest n Hd Hn. unfold deliver. rewrite Hd.
    destruct (N.ltb_spec max_uint24 n); [reflexivity|lia].
  Qed.

  (* whatever a snappy session delivers was declared within the limit *)
  Theorem snappy_delivered_bounded : forall code payload st' rest c p st'' r,
    deliver snappy_dec true code payload st' rest = ROk c p st'' r ->
    exists n, snappy_declen payload = Some n /\ n <= max_uint24 /\ snappy_dec payload = Some p.
  Proof.
    clear H aes_block ks.
    intros code payload st' rest c p st'' r. unfold deliver.
    destruct (snappy_declen payload) as [n|]; [|discriminate].
    destruct (N.ltb_spec max_uint24 n); [discriminate|].
    destruct (snappy_dec payload) as [q|]; [|discriminate].
    intros E. injection E as _ <- _ _. exists n. auto.
  Qed.

  (* an uncompressed message that ReadMsg delivers is shorter than 2^24 bytes *)
  Theorem plain_delivered_bounded : forall st s c p st' r,
    read_msg H aes_block ks snappy_dec false st s = ROk c p st' r -> lenN p <= max_uint24.
  Proof.
    intros st s c p st' r. unfold read_msg.
    destruct (takeN 32 s) as [[head s1]|]; [|discriminate].
    destruct (update_mac H aes_block (r_mac st) (firstn 16 head)) as [mac1 should].
    destruct (negb (bytes_eqb should (skipn 16 head))); [discriminate|].
    set (fsize := N_of_be (firstn 3 (xor_ks ks (r_pos st) (firstn 16 head)))).
    destruct (takeN (frame_buf_size fsize) s1) as [[fb s2]|]; [|discriminate].
    destruct (takeN 16 s2) as [[fm s3]|]; [|discriminate].
    destruct (update_mac H aes_block (mac1 ++ fb) (H (mac1 ++ fb))) as [mac3 should2].
    destruct (negb (bytes_eqb should2 fm)); [discriminate|].
    set (content := firstn (N.to_nat fsize) (xor_ks ks (r_pos st + 16) fb)).
    destruct (dec_uint64 content) as [[code payload]|] eqn:Ed; [|discriminate].
    unfold deliver. intros E. injection E as _ <- _ _.
    assert (Hfs : fsize <= max_uint24) by (apply N_of_be_3_lt; rewrite firstn_length; lia).
    assert (Hc : lenN content <= fsize).
    { unfold content, lenN. rewrite firstn_length. lia. }
    unfold dec_uint64 in Ed. destruct (split content) as [[[k s0] rest]|] eqn:Es; [|discriminate].
    destruct k; [|discriminate].
    destruct (item_to_uint 64 (Str s0)); [|discriminate]. injection Ed as _ <-.
    apply split_canon in Es as (-> & _). rewrite lenN_app in Hc. lia.
  Qed.
End FrameBounds.

(* ------------------------------------------------------------------ *)
(* discovery datagrams                                                *)
(* ------------------------------------------------------------------ *)
From AQ Require Import Net.Discover Net.Limits Lib.Keccak.

Section DiscoverProofs.
  Variable H : bytes -> bytes.
  Variable recover : bytes -> bytes -> option bytes.
  Variable sign : bytes -> bytes -> bytes.
  Notation decode_packet := (decode_packet H recover).
  Notation encode_packet := (encode_packet H sign).

  (* an accepted datagram passed the hash check and the signature recovery, and
     the identity returned is the recovered one *)
  Theorem packet_authentic netcompat buf m id hash :
    decode_packet netcompat buf = DOk m id hash ->
    hash = firstn 32 buf /\ H (skipn 32 buf) = hash /\
    recover (H (skipn 97 buf)) (firstn 65 (skipn 32 buf)) = Some id /\
    98 <= lenN buf.
  Proof.
    clear sign.
    unfold Discover.decode_packet.
    destruct (N.ltb_spec (lenN buf) (head_size + 1)) as [|Hlen]; [discriminate|].
    destruct (lenN (skipn 97 buf) =? 0); [discriminate|].
    destruct (bytes_eqb_spec (firstn 32 buf) (H (skipn 32 buf))) as [Eh|]; [|discriminate].
    cbn [negb].
    destruct (recover (H (skipn 97 buf)) (firstn 65 (skipn 32 buf))) as [id0|] eqn:Er; [|discriminate].
    destruct (skipn 97 buf) as [|t0 sd]; [discriminate|].
    match goal with |- context [if ?c then _ else DUnknownType _ _] => destruct c end; [|discriminate].
    match goal with |- context [if ?c then DTooSmallBody _ else _] => destruct c end; [discriminate|].
    match goal with |- context [match ?d with Some _ => _ | None => _ end] => destruct d end; [|discriminate].
    intros E. injection E as _ <- <-. unfold head_size in Hlen. repeat split; auto; lia.
  Qed.

  (* same for datagrams that are authenticated but then rejected for their type or body *)
  Theorem packet_identity_authentic netcompat buf id t :
    decode_packet netcompat buf = DUnknownType id t \/ decode_packet netcompat buf = DBadBody id t ->
    H (skipn 32 buf) = firstn 32 buf /\
    recover (H (skipn 97 buf)) (firstn 65 (skipn 32 buf)) = Some id.
  Proof.
    clear sign.
    unfold Discover.decode_packet.
    destruct (lenN buf <? head_size + 1); [intros [|]; discriminate|].
    destruct (lenN (skipn 97 buf) =? 0); [intros [|]; discriminate|].
    destruct (bytes_eqb_spec (firstn 32 buf) (H (skipn 32 buf))) as [Eh|]; [|intros [|]; discriminate].
    cbn [negb].
    destruct (recover (H (skipn 97 buf)) (firstn 65 (skipn 32 buf))) as [id0|] eqn:Er; [|intros [|]; discriminate].
    destruct (skipn 97 buf) as [|t0 sd]; [intros [|]; discriminate|].
    match goal with |- context [if ?c then _ else DUnknownType _ _] => destruct c end.
    - match goal with |- context [if ?c then DTooSmallBody _ else _] => destruct c end; [intros [|]; discriminate|].
      match goal with |- context [match ?d with Some _ => _ | None => _ end] => destruct d end;
        intros [E|E]; try discriminate. injection E as <- _. auto.
    - intros [E|E]; try discriminate. injection E as <- _. auto.
  Qed.

  Hypothesis H_len : forall m, length (H m) = 32%nat.

  (* the three slices of a well-formed datagram  hash || sig || sigdata *)
  Lemma datagram_slices (h sig sigdata : bytes) :
    length h = 32%nat -> length sig = 65%nat ->
    firstn 32 (h ++ sig ++ sigdata) = h /\ skipn 32 (h ++ sig ++ sigdata) = sig ++ sigdata /\
    firstn 65 (sig ++ sigdata) = sig /\ skipn 97 (h ++ sig ++ sigdata) = sigdata /\
    lenN (h ++ sig ++ sigdata) = 97 + lenN sigdata.
  Proof.
    clear H_len sign recover H.
    intros Hh Hs. repeat split.
    - now apply firstn_app_exact.
    - now apply skipn_app_exact.
    - now apply firstn_app_exact.
    - rewrite app_assoc. apply skipn_app_exact. rewrite app_length. lia.
    - rewrite !lenN_app. unfold lenN. rewrite Hh, Hs. lia.
  Qed.

  (* the former defect (sigdata[1+4:] sliced unchecked, fixed by commit f90a10c):
     a correctly hashed and signed datagram whose signed data has 1..4 bytes and a
     known type byte is now rejected as too small, with the signer identified *)
  Theorem decode_packet_short_sigdata_rejected sig sigdata t0 id :
    length sig = 65%nat -> hd_error sigdata = Some t0 -> (length sigdata < 5)%nat ->
    134 <= b2n t0 <= 137 ->
    recover (H sigdata) sig = Some id ->
    decode_packet false (H (sig ++ sigdata) ++ sig ++ sigdata) = DTooSmallBody id.
  Proof.
    clear sign.
    intros Hsig Hhd Hlen Ht Hrec.
    destruct (datagram_slices (H (sig ++ sigdata)) sig sigdata (H_len _) Hsig) as (E1 & E2 & E3 & E4 & E5).
    unfold Discover.decode_packet. rewrite E5, E1, E2, E3, E4.
    destruct sigdata as [|t sd]; [discriminate|]. injection Hhd as ->.
    rewrite lenN_cons in *.
    destruct (N.ltb_spec (97 + (1 + lenN sd)) (head_size + 1)) as [Hc|_]; [unfold head_size in Hc; lia|].
    destruct (N.eqb_spec (1 + lenN sd) 0) as [Hc|_]; [lia|].
    rewrite bytes_eqb_refl. cbn [negb]. rewrite Hrec. cbn [andb].
    destruct (N.leb_spec 134 (b2n t0)); [|lia]. destruct (N.leb_spec (b2n t0) 137); [|lia]. cbn [andb].
    destruct (N.ltb_spec (1 + lenN sd) (1 + 4)) as [_|Hc]; [reflexivity|].
    unfold lenN in Hc. cbn [length] in Hlen. lia.
  Qed.

  (* decodePacket never panics: for every byte string, both network modes, any H and recover *)
  Theorem decode_packet_never_panics netcompat buf : decode_packet netcompat buf <> DPanic.
  Proof.
    clear sign H_len.
    unfold Discover.decode_packet.
    destruct (N.ltb_spec (lenN buf) (head_size + 1)) as [|Hlen]; [discriminate|].
    destruct (N.eqb_spec (lenN (skipn 97 buf)) 0) as [|Hnz]; [discriminate|].
    destruct (negb _); [discriminate|].
    destruct (recover _ _); [|discriminate].
    destruct (skipn 97 buf) as [|t0 sd] eqn:Esd; [rewrite lenN_nil in Hnz; lia|].
    match goal with |- context [if ?c then _ else DUnknownType _ _] => destruct c end; [|discriminate].
    match goal with |- context [if ?c then DTooSmallBody _ else _] => destruct c end; [discriminate|].
    destruct (dec_msg _ _); discriminate.
  Qed.
End DiscoverProofs.

(* ------------------------------------------------------------------ *)
(* sub-protocol limits                                                *)
(* ------------------------------------------------------------------ *)
Theorem gate_rejects_oversize code size :
  protocol_max_msg_size < size -> handle_gate code size = GTooLarge.
Proof. intros Hs. unfold handle_gate. destruct (N.ltb_spec protocol_max_msg_size size); [reflexivity|lia]. Qed.

Theorem gate_decodes_only_known code size :
  handle_gate code size = GDecode -> size <= protocol_max_msg_size /\ known_code code = true /\ code <> 0.
Proof.
  unfold handle_gate. destruct (N.ltb_spec protocol_max_msg_size size); [discriminate|].
  destruct (N.eqb_spec code 0); [discriminate|]. destruct (known_code code); [|discriminate]. auto.
Qed.

(* the serving loops never return more than `limit` entries, never look up more
   than the request has elements, and stop within one entry of the soft limit *)
Theorem serve_bounded limit : forall l count bytes lookups c b k maxsz,
  count <= limit -> bytes < soft_response_limit + maxsz ->
  (forall n, In (EHash (Some n)) l -> n <= maxsz) ->
  serve limit count bytes lookups l = SOk c b k ->
  c <= limit /\ b < soft_response_limit + maxsz /\ k <= lookups + lenN l /\ count <= c.
Proof.
  induction l as [|e l IH]; intros count bytes lookups c b k maxsz Hc Hb Hsz.
  - cbn [serve]. destruct ((bytes <? soft_response_limit) && (count <? limit));
      intros E; injection E as <- <- <-; rewrite lenN_nil; lia.
  - cbn [serve].
    destruct (N.ltb_spec bytes soft_response_limit) as [Hlt|]; cbn [andb];
      [destruct (N.ltb_spec count limit) as [Hcl|]|];
      try (intros E; injection E as <- <- <-; rewrite lenN_cons; lia).
    destruct e as [|[n|]]; [discriminate| |].
    + intros E. apply (IH _ _ _ _ _ _ maxsz) in E.
      * rewrite lenN_cons. lia.
      * lia.
      * assert (n <= maxsz) by (apply Hsz; left; reflexivity). lia.
      * intros n' Hin. apply Hsz. now right.
    + intros E. apply (IH _ _ _ _ _ _ maxsz) in E.
      * rewrite lenN_cons. lia.
      * lia.
      * lia.
      * intros n' Hin. apply Hsz. now right.
Qed.

Theorem headers_served_bounded amount avail :
  headers_served amount avail <= max_header_fetch /\ headers_served amount avail <= avail.
Proof. unfold headers_served. destruct (two63N <=? amount); unfold max_header_fetch; lia. Qed.

(* ------------------------------------------------------------------ *)
(* translator-generated constants (Generated/GenParamsNet.v) pinned to the
   documented values and to the relations the models and theorems rely on:
   a changed limit in /repo regenerates the file and breaks this proof       *)
(* ------------------------------------------------------------------ *)
From AQ Require Import Generated.GenParamsNet.
Theorem net_params_pinned :
  (* frames *)
  g_max_uint24 = 2 ^ 24 - 1 /\ map n2b g_zero_header = [xc2; x80; x80] /\
  (* the sub-protocol gate and the handshake gate lie below the frame limit, responses too *)
  g_protocol_max_msg_size = 10 * 1024 * 1024 /\ g_protocol_max_msg_size <= g_max_uint24 /\
  g_base_protocol_max_msg_size = 2048 /\ g_base_protocol_length = 16 /\
  g_soft_response_limit = 2 * 1024 * 1024 /\ g_soft_response_limit + g_protocol_max_msg_size <= g_max_uint24 /\
  g_est_header_rlp_size = 500 /\
  g_max_hash_fetch = 512 /\ g_max_block_fetch = 128 /\ g_max_header_fetch = 192 /\
  g_max_receipt_fetch = 256 /\ g_max_state_fetch = 384 /\
  g_max_header_fetch * g_est_header_rlp_size <= g_soft_response_limit /\
  g_aqua_codes = [0; 1; 2; 3; 4; 5; 6; 7; 13; 14; 15; 16] /\
  Forall (fun l => Forall (fun c => c < l) g_aqua_codes) g_protocol_lengths /\
  (* discovery envelope: the literals 32 / 65 / 97 of Net/Discover.v *)
  g_mac_size = 32 /\ g_sig_size = 65 /\ g_head_size = g_mac_size + g_sig_size /\ g_head_size = 97 /\
  g_aqua_ping = 134 /\ g_aqua_pong = 135 /\ g_aqua_findnode = 136 /\ g_aqua_neighbors = 137 /\
  g_eth_ping + 133 = g_aqua_ping /\ g_eth_neighbors + 133 = g_aqua_neighbors /\
  g_expiration_ms = 4000 /\ g_resp_timeout_ms = 4000 /\ g_bond_expiration_ms = 3600 * 1000 /\
  g_max_neighbors = 12 /\
  (* RLPx handshake packet sizes *)
  g_auth_msg_len = 65 + 32 + 64 + 32 + 1 /\ g_auth_resp_len = 64 + 32 + 1 /\ g_ecies_overhead = 65 + 16 + 32 /\
  g_enc_auth_msg_len = g_auth_msg_len + g_ecies_overhead /\ g_enc_auth_resp_len = g_auth_resp_len + g_ecies_overhead /\
  g_enc_auth_msg_len = 307 /\ g_enc_auth_resp_len = 210 /\
  g_handshake_timeout_ms = 5000 /\ g_frame_read_timeout_ms = 30000 /\
  (* DiscSubprotocolError = 0x10 is the last named disconnect reason *)
  g_disc_table_len = 17.
Proof. vm_compute. repeat split; try reflexivity; try discriminate; repeat constructor. Qed.

(* ------------------------------------------------------------------ *)
(* handshake reader: what a remote can make the node buffer           *)
(* ------------------------------------------------------------------ *)
From AQ Require Import Net.Handshake.
(* Whatever the first bytes say and whatever decryption does, readHandshakeMsg
   never holds more than size+2 <= 65537 bytes, and the uint16 subtraction it
   performs cannot wrap (for the two packet sizes in use, indeed any 2..65535). *)
Theorem handshake_buffer_bounded :
  forall (dec_plain : bytes -> option bytes) (dec_eip8 : bytes -> bytes -> option bytes) (body_ok : bytes -> bool)
         (plain_size : N) (s : bytes) (c : hclass) (n : N),
  2 <= plain_size < two16 ->
  read_handshake_msg dec_plain dec_eip8 body_ok plain_size s = (c, n) ->
  n <= 65537 /\ plain_size <= n /\
  (c = HOk \/ c = HBadBody \/ c = HDecryptErr -> n <= lenN s /\ n = N_of_be (firstn 2 s) + 2).
Proof.
  intros dec_plain dec_eip8 body_ok plain_size s c n Hps. unfold read_handshake_msg, two16 in *.
  destruct (takeN plain_size s) as [[buf s1]|] eqn:Et.
  2:{ intros E; injection E as <- <-. split; [lia|split; [lia|intros [|[|]]; discriminate]]. }
  destruct (takeN_spec _ _ _ _ Et) as [Es Hlen]. subst s.
  destruct (dec_plain buf).
  { intros E; injection E as <- <-. split; [lia|split; [lia|intros [|[|]]; discriminate]]. }
  rewrite (N.mod_small plain_size 65536) by lia.
  assert (Hsz : N_of_be (firstn 2 buf) < 65536).
  { pose proof (N_of_be_lt (firstn 2 buf)) as Hlt.
    assert (256 ^ lenN (firstn 2 buf) <= 256 ^ 2) by (apply N.pow_le_mono_r; [lia|unfold lenN; rewrite firstn_length; lia]).
    change (256 ^ 2) with 65536 in *. lia. }
  destruct (N.ltb_spec (N_of_be (firstn 2 buf)) plain_size) as [|Hge].
  { intros E; injection E as <- <-. split; [lia|split; [lia|intros [|[|]]; discriminate]]. }
  assert (Hextra : (N_of_be (firstn 2 buf) + 65536 - plain_size + 2) mod 65536 = N_of_be (firstn 2 buf) - plain_size + 2).
  { replace (N_of_be (firstn 2 buf) + 65536 - plain_size + 2) with (N_of_be (firstn 2 buf) - plain_size + 2 + 1 * 65536) by lia.
    rewrite N.mod_add by lia. apply N.mod_small. lia. }
  rewrite Hextra.
  assert (Hpre : firstn 2 (buf ++ s1) = firstn 2 buf).
  { rewrite firstn_app. replace (2 - length buf)%nat with 0%nat by (unfold lenN in Hlen; lia).
    cbn [firstn]. apply app_nil_r. }
  set (sz := N_of_be (firstn 2 buf)) in *.
  destruct (takeN (sz - plain_size + 2) s1) as [[more s2]|] eqn:Et2.
  2:{ intros E; injection E as <- <-. split; [lia|split; [lia|intros [|[|]]; discriminate]]. }
  destruct (takeN_spec _ _ _ _ Et2) as [Es1 Hlen2]. subst s1.
  assert (Hall : forall c0, (c0, plain_size + (sz - plain_size + 2)) = (c, n) ->
            n <= 65537 /\ plain_size <= n /\
            (c = HOk \/ c = HBadBody \/ c = HDecryptErr ->
             n <= lenN (buf ++ more ++ s2) /\ n = N_of_be (firstn 2 (buf ++ more ++ s2)) + 2)).
  { intros c0 E; injection E as _ <-. rewrite Hpre. fold sz. rewrite !lenN_app. repeat split; lia. }
  destruct (dec_eip8 _ _); [destruct (body_ok _)|]; apply Hall.
Qed.

(* ------------------------------------------------------------------ *)
(* discovery: the typed codec round-trips, hence whole packets do     *)
(* ------------------------------------------------------------------ *)
Definition wf_endpoint (e : endpoint) : Prop :=
  lenN (ep_ip e) < two32 /\ ep_udp e < 65536 /\ ep_tcp e < 65536.
Definition wf_node (n : rpc_node) : Prop :=
  lenN (nd_ip n) < two32 /\ nd_udp n < 65536 /\ nd_tcp n < 65536 /\ lenN (nd_id n) = 64.
(* a forward-compatibility element: a non-empty value that Stream.Raw reads back as itself *)
Definition raw_ok (r : bytes) : Prop := r <> [] /\ forall x, s_raw (r ++ x) = Some (r, x).
Definition wf_msg (m : dmsg) : Prop :=
  match m with
  | Ping v f t e r => v < two64 /\ wf_endpoint f /\ wf_endpoint t /\ e < two64 /\ Forall raw_ok r
  | Pong t tok e r => wf_endpoint t /\ lenN tok < two32 /\ e < two64 /\ Forall raw_ok r
  | Findnode tg e r => lenN tg = 64 /\ e < two64 /\ Forall raw_ok r
  | Neighbors ns e r => Forall wf_node ns /\ e < two64 /\ Forall raw_ok r
  end /\ lenN (msg_payload m) < two64.

Lemma s_uint_enc bits n r : bits = 16 \/ bits = 64 -> n < 2 ^ bits ->
  s_uint bits (encode_uint n ++ r) = Some (n, r).
Proof.
  intros Hb Hn. unfold s_uint, encode_uint. rewrite encode_Str.
  assert (Hlen : lenN (be_of_N n) * 8 <= bits).
  { destruct Hb as [-> | ->].
    - assert (lenN (be_of_N n) <= 2) by (apply be_of_N_len_le; change (256 ^ 2) with (2 ^ 16); exact Hn). lia.
    - assert (lenN (be_of_N n) <= 8) by (apply be_of_N_len_le; change (256 ^ 8) with (2 ^ 64); exact Hn). lia. }
  rewrite split_enc by (unfold two64; destruct Hb as [-> | ->]; lia).
  cbn [item_to_uint]. rewrite be_of_N_no_lead0, N_of_be_of_N. cbn [andb].
  destruct (N.leb_spec (lenN (be_of_N n) * 8) bits); [|lia]. now rewrite orb_true_r.
Qed.

Lemma s_bytes_enc s r : lenN s < two64 -> s_bytes (enc_str s ++ r) = Some (s, r).
Proof. intros Hs. unfold s_bytes, enc_str. now rewrite split_enc. Qed.

Lemma s_arr_enc n s r : lenN s = n -> n < two64 -> s_arr n (enc_str s ++ r) = Some (s, r).
Proof.
  intros Hs Hn. unfold s_arr, enc_str. rewrite split_enc by lia.
  destruct (N.eqb_spec (lenN s) n); [reflexivity|contradiction].
Qed.

Lemma s_list_enc pl r : lenN pl < two64 -> s_list (enc_list pl ++ r) = Some (pl, r).
Proof. intros Hs. unfold s_list, enc_list. now rewrite split_enc. Qed.

Lemma enc_len k c : lenN c < two64 -> lenN (enc k c) <= lenN c + 9.
Proof.
  intros Hc. assert (Hh : forall off, lenN (enc_hdr off (lenN c)) <= 9).
  { intros off. unfold enc_hdr. destruct (N.ltb_spec (lenN c) 56) as [|H56]; [cbn; lia|].
    destruct (be_len_bounds (lenN c) H56 Hc). rewrite lenN_cons. lia. }
  destruct k; unfold enc.
  - destruct (is_single_low c); [lia|]. rewrite lenN_app. specialize (Hh 128). lia.
  - rewrite lenN_app. specialize (Hh 192). lia.
Qed.

Lemma uint_len n : n < two64 -> lenN (encode_uint n) <= 9.
Proof. intros Hn. apply encode_uint_len in Hn. lia. Qed.

Lemma lt16_lt64 n : n < 65536 -> n < two64.
Proof. unfold two64. lia. Qed.

Lemma s_endpoint_enc e r : wf_endpoint e -> s_endpoint (enc_endpoint e ++ r) = Some (e, r).
Proof.
  intros (Hip & Hu & Ht). unfold s_endpoint, enc_endpoint.
  pose proof (enc_len KStr (ep_ip e) ltac:(unfold two32, two64 in *; lia)) as L1.
  pose proof (uint_len _ (lt16_lt64 _ Hu)) as L2. pose proof (uint_len _ (lt16_lt64 _ Ht)) as L3.
  rewrite s_list_enc by (rewrite !lenN_app; unfold enc_str, two32, two64 in *; lia).
  rewrite s_bytes_enc by (unfold two32, two64 in *; lia).
  rewrite s_uint_enc by (auto; exact Hu).
  rewrite <- (app_nil_r (encode_uint (ep_tcp e))).
  rewrite s_uint_enc by (auto; exact Ht).
  destruct e; reflexivity.
Qed.

Lemma s_node_enc n r : wf_node n -> s_node (enc_node n ++ r) = Some (n, r).
Proof.
  intros (Hip & Hu & Ht & Hid). unfold s_node, enc_node.
  pose proof (enc_len KStr (nd_ip n) ltac:(unfold two32, two64 in *; lia)) as L1.
  pose proof (uint_len _ (lt16_lt64 _ Hu)) as L2. pose proof (uint_len _ (lt16_lt64 _ Ht)) as L3.
  pose proof (enc_len KStr (nd_id n) ltac:(unfold two64; lia)) as L4.
  rewrite s_list_enc by (rewrite !lenN_app; unfold enc_str, two32, two64 in *; lia).
  rewrite s_bytes_enc by (unfold two32, two64 in *; lia).
  rewrite s_uint_enc by (auto; exact Hu).
  rewrite s_uint_enc by (auto; exact Ht).
  rewrite <- (app_nil_r (enc_str (nd_id n))).
  rewrite s_arr_enc by (try exact Hid; unfold two64; lia).
  destruct n; reflexivity.
Qed.

Lemma s_raws_enc : forall rest fuel, Forall raw_ok rest -> (length (concat rest) <= fuel)%nat ->
  s_raws fuel (concat rest) = Some rest.
Proof.
  induction rest as [|r rest IH]; intros fuel Hall Hf.
  - destruct fuel; reflexivity.
  - inversion Hall as [|? ? [Hne Hr] Hrest]; subst. cbn [concat] in *.
    destruct r as [|h t]; [contradiction|].
    destruct fuel as [|f]; [rewrite app_length in Hf; cbn [length] in Hf; lia|].
    cbn [app s_raws].
    change (h :: t ++ concat rest) with ((h :: t) ++ concat rest). rewrite Hr.
    rewrite IH; [reflexivity|assumption|].
    rewrite app_length in Hf. cbn [length] in Hf. lia.
Qed.

Lemma enc_list_nonempty pl : exists h t, enc_list pl = h :: t.
Proof. apply enc_nonempty. Qed.

Lemma s_nodes_enc : forall ns fuel, Forall wf_node ns -> (length (flat_map enc_node ns) <= fuel)%nat ->
  s_nodes fuel (flat_map enc_node ns) = Some ns.
Proof.
  induction ns as [|n ns IH]; intros fuel Hall Hf.
  - destruct fuel; reflexivity.
  - inversion Hall as [|? ? Hn Hrest]; subst. cbn [flat_map] in *.
    destruct (enc_list_nonempty (enc_str (nd_ip n) ++ encode_uint (nd_udp n) ++ encode_uint (nd_tcp n) ++ enc_str (nd_id n)))
      as (h & t & Eh).
    assert (Elen : (1 <= length (enc_node n))%nat) by (unfold enc_node; rewrite Eh; cbn [length]; lia).
    destruct fuel as [|f]; [rewrite app_length in Hf; lia|].
    pose proof (s_node_enc n (flat_map enc_node ns) Hn) as Hs.
    unfold enc_node in *. rewrite Eh in *. cbn [app s_nodes] in *. rewrite Hs.
    rewrite IH; [reflexivity|assumption|].
    cbn [length] in Hf. rewrite app_length in Hf. lia.
Qed.

(* the typed decoder inverts the typed encoder on every well-formed request *)
Theorem dec_msg_encode m r : wf_msg m -> dec_msg (msg_type m) (encode_msg m ++ r) = Some m.
Proof.
  intros [Hwf Hlen]. unfold dec_msg, encode_msg. rewrite s_list_enc by exact Hlen.
  destruct m as [v f t e rest|t tok e rest|tg e rest|ns e rest]; cbn [msg_type msg_payload N.eqb Pos.eqb] in *.
  - destruct Hwf as (Hv & Hf & Ht & He & Hr).
    rewrite s_uint_enc by (auto; exact Hv). rewrite !s_endpoint_enc by assumption.
    rewrite s_uint_enc by (auto; exact He). rewrite s_raws_enc by auto. reflexivity.
  - destruct Hwf as (Ht & Htok & He & Hr).
    rewrite s_endpoint_enc by assumption.
    rewrite s_bytes_enc by (unfold two32, two64 in *; lia).
    rewrite s_uint_enc by (auto; exact He). rewrite s_raws_enc by auto. reflexivity.
  - destruct Hwf as (Htg & He & Hr).
    rewrite s_arr_enc by (try exact Htg; unfold two64; lia).
    rewrite s_uint_enc by (auto; exact He). rewrite s_raws_enc by auto. reflexivity.
  - destruct Hwf as (Hns & He & Hr).
    assert (Hnl : lenN (flat_map enc_node ns) < two64).
    { rewrite !lenN_app in Hlen. pose proof (enc_KLst_length (flat_map enc_node ns)) as Hk.
      unfold enc_list, lenN in *. lia. }
    rewrite s_list_enc by exact Hnl. rewrite s_nodes_enc by auto.
    rewrite s_uint_enc by (auto; exact He). rewrite s_raws_enc by auto. reflexivity.
Qed.

Section PacketRoundtrip.
  Variable H : bytes -> bytes.
  Variable recover : bytes -> bytes -> option bytes.
  Variable sign : bytes -> bytes -> bytes.
  Hypothesis H_len : forall m, length (H m) = 32%nat.

  Definition sigdata_of (netcompat : bool) (ptype : N) (m : dmsg) : bytes :=
    n2b ptype :: (if netcompat then [] else aqua_tag) ++ encode_msg m.

  Lemma msg_type_range m : 134 <= msg_type m <= 137.
  Proof. destruct m; cbn; lia. Qed.

  (* decodePacket(encodePacket(req)) returns req, the signer that `recover` finds for
     the signature `sign` made, and the packet hash — for every well-formed request of
     the four kinds, in aqua mode (type bytes 134..137) and in netcompat mode (134..137
     or the original 1..4). *)
  Theorem packet_roundtrip netcompat key ptype m id :
    wf_msg m ->
    ptype = msg_type m \/ (netcompat = true /\ ptype + 133 = msg_type m) ->
    let sigdata := sigdata_of netcompat ptype m in
    let sig := sign key (H sigdata) in
    length sig = 65%nat ->
    recover (H sigdata) sig = Some id ->
    decode_packet H recover netcompat (encode_packet H sign netcompat key ptype m) =
      DOk m id (H (sig ++ sigdata)).
  Proof.
    intros Hwf Hpt sigdata sig Hsig Hrec.
    pose proof (msg_type_range m) as Hr.
    assert (Hp256 : ptype < 256) by (destruct Hpt as [->|[_ E]]; lia).
    unfold Discover.encode_packet. fold (sigdata_of netcompat ptype m). fold sigdata. fold sig.
    destruct (datagram_slices (H (sig ++ sigdata)) sig sigdata (H_len _) Hsig) as (E1 & E2 & E3 & E4 & E5).
    unfold Discover.decode_packet. rewrite E5, E1, E2, E3, E4.
    assert (Hsd : sigdata = n2b ptype :: (if netcompat then [] else aqua_tag) ++ encode_msg m) by reflexivity.
    assert (Hl1 : 1 <= lenN sigdata) by (rewrite Hsd, lenN_cons; lia).
    destruct (N.ltb_spec (97 + lenN sigdata) (head_size + 1)) as [Hc|_]; [unfold head_size in Hc; lia|].
    destruct (N.eqb_spec (lenN sigdata) 0) as [Hc|_]; [lia|].
    rewrite bytes_eqb_refl. cbn [negb]. rewrite Hrec. rewrite Hsd.
    rewrite (b2n_n2b ptype Hp256).
    assert (Ht : (if netcompat && (ptype <? 133) then (ptype + 133) mod 256 else ptype) = msg_type m).
    { destruct Hpt as [->|[-> E]].
      - destruct (N.ltb_spec (msg_type m) 133); [lia|]. now rewrite andb_false_r.
      - cbn [andb]. destruct (N.ltb_spec ptype 133); [|lia]. rewrite E. apply N.mod_small. lia. }
    rewrite Ht.
    destruct (N.leb_spec 134 (msg_type m)); [|lia]. destruct (N.leb_spec (msg_type m) 137); [|lia]. cbn [andb].
    rewrite <- (app_nil_r (encode_msg m)).
    destruct netcompat.
    - cbn [app]. rewrite lenN_cons.
      destruct (N.ltb_spec (1 + lenN (encode_msg m ++ [])) (1 + 0)); [lia|].
      change (skipn (N.to_nat (1 + 0)) (n2b ptype :: encode_msg m ++ [])) with (encode_msg m ++ []).
      now rewrite dec_msg_encode.
    - unfold aqua_tag. cbn [app]. rewrite !lenN_cons.
      destruct (N.ltb_spec (1 + (1 + (1 + (1 + (1 + lenN (encode_msg m ++ [])))))) (1 + 4)); [lia|].
      change (skipn (N.to_nat (1 + 4)) (n2b ptype :: x61 :: x71 :: x75 :: x61 :: encode_msg m ++ [])) with (encode_msg m ++ []).
      now rewrite dec_msg_encode.
  Qed.
End PacketRoundtrip.

(* ------------------------------------------------------------------ *)
(* downloader deliveries                                              *)
(* ------------------------------------------------------------------ *)
(* Whatever a peer returns — more, fewer or other entries than requested — the
   accepted entries are a prefix of the request, all of them matching: never more
   than were requested, never more than were sent, nothing accepted unrequested. *)
Theorem deliver_rule_bounded : forall pending matches a c,
  deliver_rule pending matches = (a, c) ->
  match pending with
  | None => a = 0 /\ c = DlvNoFetch
  | Some req => a <= N.of_nat req /\ a <= lenN matches /\
                firstn (N.to_nat a) matches = repeat true (N.to_nat a) /\
                (c = DlvOk -> a = N.min (N.of_nat req) (lenN matches)) /\
                (c = DlvStale -> a = 0)
  end.
Proof.
  intros [req|] matches a c; unfold deliver_rule.
  2:{ intros E; injection E as <- <-. auto. }
  assert (Hloop : forall req matches n f, deliver_loop req matches = (n, f) ->
            (n <= req)%nat /\ (n <= length matches)%nat /\ firstn n matches = repeat true n /\
            (f = false -> n = Nat.min req (length matches))).
  { clear. induction req as [|r IH]; intros [|[|] t] n f; cbn [deliver_loop]; intros E;
      try (injection E as <- <-; cbn; repeat split; auto; try lia; discriminate).
    destruct (deliver_loop r t) as [a0 f0] eqn:El. injection E as <- <-.
    destruct (IH t a0 f0 El) as (H1 & H2 & H3 & H4). cbn [length firstn repeat].
    split; [lia|split; [lia|split; [now rewrite H3|intros Hf; rewrite (H4 Hf); lia]]]. }
  destruct (deliver_loop req matches) as [n f] eqn:El. destruct (Hloop _ _ _ _ El) as (H1 & H2 & H3 & H4).
  intros E. injection E as <- <-. rewrite Nat2N.id. unfold lenN.
  split; [lia|split; [lia|split; [assumption|split]]].
  - destruct f; cbn [negb]; [destruct (Nat.ltb 0 n); discriminate|]. intros _. rewrite (H4 eq_refl). lia.
  - destruct f; cbn [negb]; [|discriminate]. destruct (Nat.ltb_spec 0 n); [discriminate|]. intros _. lia.
Qed.

(* ------------------------------------------------------------------ *)
(* handshake staging and the protocol-handshake gate                  *)
(* ------------------------------------------------------------------ *)
(* receiverEncHandshake answers (RcOk) only for a packet readHandshakeMsg accepted AND
   whose initiator id, key agreement and signature all passed *)
Theorem receiver_handshake_ok : forall read id_on_curve ecdh_ok sig_recovers,
  receiver_handshake read id_on_curve ecdh_ok sig_recovers = RcOk ->
  (read = HPlain \/ read = HOk) /\ id_on_curve = true /\ ecdh_ok = true /\ sig_recovers = true.
Proof.
  intros read a b c. unfold receiver_handshake.
  destruct read; try discriminate; destruct a, b, c; cbn; try discriminate; auto.
Qed.

Lemma s_arr_len n b s r : s_arr n b = Some (s, r) -> lenN s = n.
Proof.
  unfold s_arr. destruct (split b) as [[[[] s0] r0]|]; try discriminate.
  destruct (N.eqb_spec (lenN s0) n); [|discriminate]. intros E. injection E as <- _. assumption.
Qed.

(* the protocol handshake is accepted only from a message of at most 2 KiB with code 0
   whose body decodes and carries a non-zero 64-byte node id *)
Theorem protocol_handshake_ok : forall code size payload id,
  read_protocol_handshake code size payload = PhOk id ->
  size <= 2048 /\ code = 0 /\ lenN id = 64 /\ exists b, In b id /\ b2n b <> 0.
Proof.
  intros code size payload id. unfold read_protocol_handshake, base_protocol_max_msg_size.
  destruct (N.ltb_spec 2048 size); [discriminate|].
  destruct (N.eqb_spec code 1); [discriminate|].
  destruct (N.eqb_spec code 0); [|discriminate]. cbn [negb].
  destruct (proto_body (firstn (N.to_nat size) payload)) as [id0|] eqn:Eb; [|discriminate].
  destruct (forallb (fun b => b2n b =? 0) id0) eqn:Ez; [discriminate|].
  intros E. injection E as <-. repeat split; auto.
  - unfold proto_body in Eb.
    destruct (s_list (firstn (N.to_nat size) payload)) as [[pl r0]|]; [|discriminate].
    destruct (s_uint 64 pl) as [[v p1]|]; [|discriminate].
    destruct (s_bytes p1) as [[nm p2]|]; [|discriminate].
    destruct (s_list p2) as [[caps p3]|]; [|discriminate].
    destruct (negb (s_caps (length caps) caps)); [discriminate|].
    destruct (s_uint 64 p3) as [[lp p4]|]; [|discriminate].
    destruct (s_arr 64 p4) as [[id1 p5]|] eqn:Ea; [|discriminate].
    destruct (s_raws (length p5) p5); [|discriminate]. injection Eb as <-.
    exact (s_arr_len _ _ _ _ Ea).
  - clear Eb. induction id0 as [|b t IH]; [discriminate|]. cbn [forallb] in Ez.
    destruct (N.eqb_spec (b2n b) 0).
    + cbn [andb] in Ez. destruct (IH Ez) as (b' & Hin & Hb). exists b'. split; [now right|assumption].
    + exists b. split; [now left|assumption].
Qed.

(* ------------------------------------------------------------------ *)
(* GetBlockHeaders serving and disconnect reasons                     *)
(* ------------------------------------------------------------------ *)
Lemma hdr_loop_bounded : forall fuel H hm rev amount skip cur count,
  count <= max_header_fetch ->
  lenN (hdr_loop fuel H hm rev amount skip cur count) + count <= max_header_fetch /\
  (Z.of_N (lenN (hdr_loop fuel H hm rev amount skip cur count) + count) <= Z.max (Z.of_N count) (int_of_u64 amount))%Z /\
  Forall (fun n => n <= H) (hdr_loop fuel H hm rev amount skip cur count).
Proof.
  induction fuel as [|f IH]; intros H hm rev amount skip cur count Hc; cbn [hdr_loop].
  - rewrite lenN_nil. repeat split; try lia. constructor.
  - destruct (Z.ltb_spec (Z.of_N count) (int_of_u64 amount)) as [Ha|Ha]; cbn [andb negb];
      [|rewrite lenN_nil; repeat split; try lia; constructor].
    destruct (count * est_header_rlp_size <? soft_response_limit); cbn [andb negb];
      [|rewrite lenN_nil; repeat split; try lia; constructor].
    destruct (N.ltb_spec count max_header_fetch) as [Hlt|]; cbn [andb negb];
      [|rewrite lenN_nil; repeat split; try lia; constructor].
    destruct (N.ltb_spec H cur) as [|Hle]; [rewrite lenN_nil; repeat split; try lia; constructor|].
    destruct (hdr_next H hm rev skip cur) as [c|].
    + destruct (IH H hm rev amount skip c (count + 1) ltac:(lia)) as (B1 & B2 & B3).
      rewrite lenN_cons. repeat split; try lia. constructor; [lia|exact B3].
    + rewrite lenN_cons, lenN_nil. repeat split; try lia. constructor; [lia|constructor].
Qed.

(* whatever the query fields are: at most MaxHeaderFetch headers, at most int(Amount), all of them existing *)
Theorem serve_headers_bounded : forall H hashmode origin amount skip reverse,
  lenN (serve_headers H hashmode origin amount skip reverse) <= max_header_fetch /\
  (Z.of_N (lenN (serve_headers H hashmode origin amount skip reverse)) <= Z.max 0 (int_of_u64 amount))%Z /\
  Forall (fun n => n <= H) (serve_headers H hashmode origin amount skip reverse).
Proof.
  intros H hm [o|] amount skip rev; unfold serve_headers.
  - destruct (hdr_loop_bounded 200 H hm rev amount skip o 0 (N.le_0_l _)) as (B1 & B2 & B3).
    rewrite N.add_0_r in *. repeat split; try lia; assumption.
  - rewrite lenN_nil. split; [apply N.le_0_l|split; [cbn; lia|constructor]].
Qed.

(* the reason handed to DiscReason.String is whatever uint64 the peer chose *)
Theorem disc_reason_range : forall payload, disc_reason payload < two64.
Proof.
  intros payload. unfold disc_reason. destruct (s_list payload) as [[pl r]|]; [|unfold two64; lia].
  unfold s_uint. destruct (split pl) as [[[[] s0] r0]|]; try (unfold two64; lia).
  cbn [item_to_uint]. destruct (no_lead0 s0 && ((64 =? 0) || (lenN s0 * 8 <=? 64))) eqn:E; [|unfold two64; lia].
  apply andb_prop in E as [_ E]. cbn [N.eqb orb] in E.
  pose proof (N_of_be_lt s0) as Hlt. assert (256 ^ lenN s0 <= 256 ^ 8) by (apply N.pow_le_mono_r; lia).
  rewrite two64_eq. lia.
Qed.

(* a skeleton fill is accepted only as a whole batch of exactly MaxHeaderFetch contiguous headers
   anchored at both ends; everything else is an error value (never a partial acceptance) *)
Theorem headers_fill_accept_only_full : forall pending count first_ok last_ok chain_ok n,
  headers_fill_rule pending count first_ok last_ok chain_ok = HfAccepted n ->
  pending = true /\ n = max_header_fetch /\ count = max_header_fetch /\ first_ok = true /\ last_ok = true /\ chain_ok = true.
Proof.
  intros pending count a b c n. unfold headers_fill_rule.
  destruct pending; cbn [negb]; [|discriminate].
  destruct (N.eqb_spec count max_header_fetch); destruct a, b, c; cbn [andb]; try discriminate.
  intros E. injection E as <-. repeat split; auto.
Qed.
