(* Net/Limits.v — the size gate and the serving limits of
   aqua/handler.go ProtocolManager.handleMsg as decision rules.  Definitions only.
   The constants are compared with the Go constants on every run (driver
   command `consts`). *)
From AQ Require Import Lib.Bytes Generated.GenParamsNet.
Local Open Scope N_scope.

Definition protocol_max_msg_size : N := Eval compute in g_protocol_max_msg_size.   (* aqua/protocol.go ProtocolMaxMsgSize = 10*1024*1024 *)
Definition soft_response_limit : N := Eval compute in g_soft_response_limit.      (* aqua/handler.go softResponseLimit *)
Definition est_header_rlp_size : N := Eval compute in g_est_header_rlp_size.          (* aqua/handler.go estHeaderRlpSize *)
Definition max_block_fetch : N := Eval compute in g_max_block_fetch.              (* downloader.MaxBlockFetch *)
Definition max_header_fetch : N := Eval compute in g_max_header_fetch.             (* downloader.MaxHeaderFetch *)
Definition max_receipt_fetch : N := Eval compute in g_max_receipt_fetch.            (* downloader.MaxReceiptFetch *)
Definition max_state_fetch : N := Eval compute in g_max_state_fetch.              (* downloader.MaxStateFetch *)
Definition base_protocol_max_msg_size : N := Eval compute in g_base_protocol_max_msg_size.  (* p2p/peer.go baseProtocolMaxMsgSize (protocol handshake) *)

(* message codes of aqua/protocol.go *)
Definition known_code (c : N) : bool := existsb (N.eqb c) (tl g_aqua_codes).   (* every code but StatusMsg *)

(* what handleMsg does with (msg.Code, msg.Size) before touching the payload *)
Inductive gate := GTooLarge | GExtraStatus | GInvalidCode | GDecode.
Definition handle_gate (code size : N) : gate :=
  if protocol_max_msg_size <? size then GTooLarge      (* errResp(ErrMsgTooLarge) *)
  else if code =? 0 then GExtraStatus                  (* StatusMsg after the handshake *)
  else if known_code code then GDecode                 (* payload decoded through rlp.NewStream(payload, size) *)
  else GInvalidCode.

(* GetBlockBodies / GetNodeData / GetReceipts serving loops:
     for bytes < softResponseLimit && len(out) < limit { decode next hash: EOL -> break, error -> return errResp;
                                                          look it up; if found { out = append(out, data); bytes += len(data) } }
   The request is the list of its elements: undecodable, or a hash whose
   lookup yields nothing / data of some size. *)
Inductive elem := EBad | EHash (found : option N).
Inductive sres := SErr | SOk (count bytes lookups : N).
Fixpoint serve (limit : N) (count bytes lookups : N) (l : list elem) : sres :=
  if (bytes <? soft_response_limit) && (count <? limit) then
    match l with
    | [] => SOk count bytes lookups
    | EBad :: _ => SErr
    | EHash None :: t => serve limit count bytes (lookups + 1) t
    | EHash (Some n) :: t => serve limit (count + 1) (bytes + n) (lookups + 1) t
    end
  else SOk count bytes lookups.

(* GetBlockHeaders: `for !unknown && len(headers) < int(query.Amount) && bytes < softResponseLimit
   && len(headers) < MaxHeaderFetch` with bytes += estHeaderRlpSize per header; `avail` = how many
   iterations find a header before `unknown`/nil. Amount is a uint64 converted with int(). *)
Definition two63N : N := 9223372036854775808.
Definition headers_served (amount avail : N) : N :=
  if two63N <=? amount then 0          (* int(query.Amount) is negative: the loop body never runs *)
  else N.min (N.min amount avail) max_header_fetch.

(* aqua/downloader/queue.go queue.deliver, shared by DeliverBodies and DeliverReceipts:
   how many entries of a response are accepted against the pending request.
     pending  = Some r : the peer has a request for r headers in flight (None: errNoFetchesPending)
     matches  = one flag per response entry: does entry i reconstruct against requested header i
                (tx root + uncle hash / receipt root); entries beyond the request have no header
   `for i, header := range request.Headers { if i >= results { break }; if reconstruct fails { failure; break }; accepted++ }`
   then: failure == nil -> (accepted, nil); useful -> partial failure; else errStaleDelivery. *)
Inductive dlv_class := DlvOk | DlvNoFetch | DlvStale | DlvPartial.
Fixpoint deliver_loop (req : nat) (matches : list bool) : nat * bool :=
  match req, matches with
  | O, _ => (O, false)
  | S _, [] => (O, false)                                  (* i >= results *)
  | S r, true :: t => let '(a, f) := deliver_loop r t in (S a, f)
  | S _, false :: _ => (O, true)                           (* reconstruct failed *)
  end.
Definition deliver_rule (pending : option nat) (matches : list bool) : N * dlv_class :=
  match pending with
  | None => (0, DlvNoFetch)
  | Some req =>
    let '(a, f) := deliver_loop req matches in
    (N.of_nat a, if negb f then DlvOk else if Nat.ltb 0 a then DlvPartial else DlvStale)
  end.

(* ---- aqua/handler.go handleMsg, GetBlockHeadersMsg: which headers are served, on the
   canonical chain 0..H (header n has hash "n"), for the four modes (origin by hash | number)
   x (forward | reverse).  uint64 / int conversions and wrap-arounds as in the code:
     loop guard  len(headers) < int(query.Amount) && bytes < softResponseLimit && len(headers) < MaxHeaderFetch
     hash, reverse   for i := 0; i < int(query.Skip)+1; i++ { walk one parent }   (int may be <= 0: no step)
     hash, forward   next = current + Skip + 1; next <= current => stop (overflow guard); header next must exist
     number, reverse if Number >= Skip+1 { Number -= Skip+1 } else stop           (Skip+1 wraps to 0)
     number, forward Number += Skip + 1                                           (wraps) *)
Definition two64N : N := 18446744073709551616.
Definition int_of_u64 (x : N) : Z := if x <? two63N then Z.of_N x else (Z.of_N x - Z.of_N two64N)%Z.
Definition i64 (z : Z) : Z := ((z + Z.of_N two63N) mod Z.of_N two64N - Z.of_N two63N)%Z.

Definition hdr_next (H : N) (hashmode reverse : bool) (skip cur : N) : option N :=
  let s1 := (skip + 1) mod two64N in
  if hashmode then
    if reverse then
      let k := i64 (int_of_u64 skip + 1) in
      if (k <=? 0)%Z then Some cur                       (* the parent walk does not run: same header again *)
      else if (k <=? Z.of_N cur)%Z then Some (cur - Z.to_N k)
      else None                                          (* walked past genesis *)
    else
      let next := (cur + s1) mod two64N in
      if next <=? cur then None                          (* "skip overflow attack" guard *)
      else if next <=? H then Some next else None
  else
    if reverse then (if s1 <=? cur then Some (cur - s1) else None)
    else Some ((cur + s1) mod two64N).

Fixpoint hdr_loop (fuel : nat) (H : N) (hashmode reverse : bool) (amount skip cur count : N) : list N :=
  match fuel with
  | O => []
  | S f =>
    if negb ((Z.of_N count <? int_of_u64 amount)%Z && (count * est_header_rlp_size <? soft_response_limit)
             && (count <? max_header_fetch)) then []
    else if H <? cur then []                              (* origin == nil *)
    else cur :: match hdr_next H hashmode reverse skip cur with
                | None => []
                | Some c => hdr_loop f H hashmode reverse amount skip c (count + 1)
                end
  end.
(* origin = None: a hash the node does not know *)
Definition serve_headers (H : N) (hashmode : bool) (origin : option N) (amount skip : N) (reverse : bool) : list N :=
  match origin with
  | None => []
  | Some o => hdr_loop 200 H hashmode reverse amount skip o 0
  end.

(* aqua/downloader/queue.go DeliverHeaders: a skeleton-fill delivery is accepted only if a request of
   that peer is pending, exactly MaxHeaderFetch headers came, the first has the requested number,
   the last is the skeleton's target header, and numbers and parent links are contiguous:
     pending   a fetchRequest of the peer is in headerPendPool (else errNoFetchesPending)
     count     len(headers)
     first_ok  headers[0].Number == request.From
     last_ok   headers[last].Hash() == the skeleton header's hash
     chain_ok  every headers[i+1] has number request.From+1+i and ParentHash == headers[i].Hash() *)
Inductive hfill := HfNoFetch | HfRejected | HfAccepted (n : N).
Definition headers_fill_rule (pending : bool) (count : N) (first_ok last_ok chain_ok : bool) : hfill :=
  if negb pending then HfNoFetch
  else if (count =? max_header_fetch) && first_ok && last_ok && chain_ok then HfAccepted count
  else HfRejected.
