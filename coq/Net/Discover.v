(* Net/Discover.v — discovery v4 datagrams of p2p/discover/udp.go
   (encodePacket / decodePacket / expired) in this fork: type bytes 134..137
   ("aqua" network) or 1..4 shifted by 133 (netcompat, chain id 1), and a
   4-byte tag after the type byte when not netcompat.  Definitions only.

   Primitives (section parameters): H = Keccak-256; recover = recoverNodeID
   (crypto.Ecrecover of hash and 65-byte signature, 64-byte id or error);
   sign = crypto.Sign.  The typed RLP layer follows rlp/decode.go's Stream
   decoders over the byte string (the stream is length-limited because the
   reader is a *bytes.Reader): values are taken with RlpSpec.split (= readKind +
   size checks + the canonical single-byte check of Bytes/uint/decodeByteArray);
   `rlp:"tail"` RawValues use Stream.Raw, which does NOT make that last check. *)
From AQ Require Import Lib.Bytes Rlp.RlpSpec Generated.GenParamsNet.
Local Open Scope N_scope.

(* from the translator; the slices below use the documented literals 32 / 65 / 97, pinned to
   these by C17_net_params_pinned *)
Definition mac_size : N := Eval compute in g_mac_size.
Definition sig_size : N := Eval compute in g_sig_size.
Definition head_size : N := Eval compute in g_head_size.

Record endpoint := mk_endpoint { ep_ip : bytes; ep_udp : N; ep_tcp : N }.
Record rpc_node := mk_node { nd_ip : bytes; nd_udp : N; nd_tcp : N; nd_id : bytes }.
Inductive dmsg :=
| Ping (version : N) (from to : endpoint) (expiration : N) (rest : list bytes)
| Pong (to : endpoint) (replytok : bytes) (expiration : N) (rest : list bytes)
| Findnode (target : bytes) (expiration : N) (rest : list bytes)
| Neighbors (nodes : list rpc_node) (expiration : N) (rest : list bytes).

(* ---- encoder (rlp/encode.go on the request structs) ---- *)
Definition enc_str (s : bytes) : bytes := enc KStr s.
Definition enc_list (payload : bytes) : bytes := enc KLst payload.
Definition enc_endpoint (e : endpoint) : bytes :=
  enc_list (enc_str (ep_ip e) ++ encode_uint (ep_udp e) ++ encode_uint (ep_tcp e)).
Definition enc_node (n : rpc_node) : bytes :=
  enc_list (enc_str (nd_ip n) ++ encode_uint (nd_udp n) ++ encode_uint (nd_tcp n) ++ enc_str (nd_id n)).
Definition msg_payload (m : dmsg) : bytes :=
  match m with
  | Ping v f t e r => encode_uint v ++ enc_endpoint f ++ enc_endpoint t ++ encode_uint e ++ concat r
  | Pong t tok e r => enc_endpoint t ++ enc_str tok ++ encode_uint e ++ concat r
  | Findnode tg e r => enc_str tg ++ encode_uint e ++ concat r
  | Neighbors ns e r => enc_list (flat_map enc_node ns) ++ encode_uint e ++ concat r
  end.
Definition encode_msg (m : dmsg) : bytes := enc_list (msg_payload m).

(* the packet type byte of a request on the aqua network *)
Definition msg_type (m : dmsg) : N :=
  match m with Ping _ _ _ _ _ => 134 | Pong _ _ _ _ => 135 | Findnode _ _ _ => 136 | Neighbors _ _ _ => 137 end.

(* ---- stream decoders: each takes the remaining bytes of the enclosing
        list (or of the input) and returns the value and what is left ---- *)
(* Stream.Bytes *)
Definition s_bytes (b : bytes) : option (bytes * bytes) :=
  match split b with Some (KStr, s, r) => Some (s, r) | _ => None end.
(* Stream.uint(bits) *)
Definition s_uint (bits : N) (b : bytes) : option (N * bytes) :=
  match split b with
  | Some (KStr, s, r) => match item_to_uint bits (Str s) with Some n => Some (n, r) | None => None end
  | _ => None
  end.
(* decodeByteArray for [n]byte, n > 1 *)
Definition s_arr (n : N) (b : bytes) : option (bytes * bytes) :=
  match split b with
  | Some (KStr, s, r) => if lenN s =? n then Some (s, r) else None
  | _ => None
  end.
(* Stream.List: the payload of the list and what follows it *)
Definition s_list (b : bytes) : option (bytes * bytes) :=
  match split b with Some (KLst, pl, r) => Some (pl, r) | _ => None end.
(* Stream.Raw: header re-built with puthead, content copied, no canonical single-byte check *)
Definition s_raw (b : bytes) : option (bytes * bytes) :=
  match b with
  | [] => None
  | h :: t =>
    let p := b2n h in
    if p <? 128 then Some ([h], t)
    else if p <? 184 then
      match takeN (p - 128) t with Some (s, r) => Some (enc_hdr 128 (lenN s) ++ s, r) | None => None end
    else if p <? 192 then
      match dec_size (p - 183) t with
      | None => None
      | Some (n, t') => match takeN n t' with Some (s, r) => Some (enc_hdr 128 (lenN s) ++ s, r) | None => None end
      end
    else if p <? 248 then
      match takeN (p - 192) t with Some (s, r) => Some (enc_hdr 192 (lenN s) ++ s, r) | None => None end
    else
      match dec_size (p - 247) t with
      | None => None
      | Some (n, t') => match takeN n t' with Some (s, r) => Some (enc_hdr 192 (lenN s) ++ s, r) | None => None end
      end
  end.

(* decodeSliceElems with decodeRawValue until EOL (fuel: every value has >= 1 byte) *)
Fixpoint s_raws (fuel : nat) (pl : bytes) : option (list bytes) :=
  match pl with
  | [] => Some []
  | _ => match fuel with
         | O => None
         | S f => match s_raw pl with
                  | None => None
                  | Some (v, r) => match s_raws f r with Some l => Some (v :: l) | None => None end
                  end
         end
  end.

(* rpcEndpoint: struct of 3 fields, no tail: ListEnd demands the payload is used up *)
Definition s_endpoint (b : bytes) : option (endpoint * bytes) :=
  match s_list b with
  | None => None
  | Some (pl, r) =>
    match s_bytes pl with None => None | Some (ip, p1) =>
    match s_uint 16 p1 with None => None | Some (udp, p2) =>
    match s_uint 16 p2 with None => None | Some (tcp, p3) =>
    match p3 with [] => Some (mk_endpoint ip udp tcp, r) | _ => None end end end end
  end.
(* rpcNode *)
Definition s_node (b : bytes) : option (rpc_node * bytes) :=
  match s_list b with
  | None => None
  | Some (pl, r) =>
    match s_bytes pl with None => None | Some (ip, p1) =>
    match s_uint 16 p1 with None => None | Some (udp, p2) =>
    match s_uint 16 p2 with None => None | Some (tcp, p3) =>
    match s_arr 64 p3 with None => None | Some (id, p4) =>
    match p4 with [] => Some (mk_node ip udp tcp id, r) | _ => None end end end end end
  end.
Fixpoint s_nodes (fuel : nat) (pl : bytes) : option (list rpc_node) :=
  match pl with
  | [] => Some []
  | _ => match fuel with
         | O => None
         | S f => match s_node pl with
                  | None => None
                  | Some (n, r) => match s_nodes f r with Some l => Some (n :: l) | None => None end
                  end
         end
  end.

(* Stream.Decode(req) for the four request types; bytes after the first value are not looked at *)
Definition dec_msg (t : N) (b : bytes) : option dmsg :=
  match s_list b with
  | None => None
  | Some (pl, _) =>
    if t =? 134 then
      match s_uint 64 pl with None => None | Some (v, p1) =>
      match s_endpoint p1 with None => None | Some (f, p2) =>
      match s_endpoint p2 with None => None | Some (to, p3) =>
      match s_uint 64 p3 with None => None | Some (e, p4) =>
      match s_raws (length p4) p4 with None => None | Some r => Some (Ping v f to e r) end end end end end
    else if t =? 135 then
      match s_endpoint pl with None => None | Some (to, p1) =>
      match s_bytes p1 with None => None | Some (tok, p2) =>
      match s_uint 64 p2 with None => None | Some (e, p3) =>
      match s_raws (length p3) p3 with None => None | Some r => Some (Pong to tok e r) end end end end
    else if t =? 136 then
      match s_arr 64 pl with None => None | Some (tg, p1) =>
      match s_uint 64 p1 with None => None | Some (e, p2) =>
      match s_raws (length p2) p2 with None => None | Some r => Some (Findnode tg e r) end end end
    else if t =? 137 then
      match s_list pl with None => None | Some (npl, p1) =>
      match s_nodes (length npl) npl with None => None | Some ns =>
      match s_uint 64 p1 with None => None | Some (e, p2) =>
      match s_raws (length p2) p2 with None => None | Some r => Some (Neighbors ns e r) end end end end
    else None
  end.

Inductive dres :=
| DTooSmall                         (* errPacketTooSmall *)
| DEmptySigdata                     (* "empty discovery packet sigdata" *)
| DBadHash                          (* errBadHash *)
| DBadSig                           (* recoverNodeID failed *)
| DUnknownType (id : bytes) (t : N)
| DBadBody (id : bytes) (t : N)     (* rlp error from s.Decode(req) *)
| DTooSmallBody (id : bytes)        (* errPacketTooSmall after authentication: signed data shorter than type byte + tag *)
| DPanic                            (* Go run-time panic (index / slice bounds out of range) *)
| DOk (m : dmsg) (id hash : bytes).

Definition aqua_tag : bytes := [x61; x71; x75; x61].  (* "aqua" *)

Section Discover.
  Variable H : bytes -> bytes.
  Variable recover : bytes -> bytes -> option bytes.
  Variable sign : bytes -> bytes -> bytes.       (* key, hash -> 65-byte signature *)

  (* udp.go encodePacket: headSpace, type byte, "aqua" unless netcompat, rlp(req);
     sig over Keccak(packet[headSize:]) copied to packet[macSize:]; hash of
     packet[macSize:] in front. *)
  Definition encode_packet (netcompat : bool) (key : bytes) (ptype : N) (m : dmsg) : bytes :=
    let sigdata := n2b ptype :: (if netcompat then [] else aqua_tag) ++ encode_msg m in
    let sig := sign key (H sigdata) in
    let tail := sig ++ sigdata in
    H tail ++ tail.

  (* udp.go decodePacket, branch for branch *)
  Definition decode_packet (netcompat : bool) (buf : bytes) : dres :=
    if lenN buf <? head_size + 1 then DTooSmall else
    let hash := firstn 32 buf in
    let sig := firstn 65 (skipn 32 buf) in
    let sigdata := skipn 97 buf in
    if lenN sigdata =? 0 then DEmptySigdata else
    if negb (bytes_eqb hash (H (skipn 32 buf))) then DBadHash else
    match recover (H sigdata) sig with
    | None => DBadSig
    | Some id =>
      match sigdata with
      | [] => DPanic                              (* sigdata[0]: index out of range (excluded by the checks above) *)
      | t0 :: _ =>
        (* `if netcompat && sigdata[0] < 133 { sigdata[0] += 133 }` — byte arithmetic *)
        let t := if netcompat && (b2n t0 <? 133) then (b2n t0 + 133) mod 256 else b2n t0 in
        if (134 <=? t) && (t <=? 137) then
          let x := if netcompat then 0 else 4 in
          (* `if len(sigdata) < 1+x { return nil, fromID, hash, errPacketTooSmall }`
             (fix: commit f90a10c; before it sigdata[1+x:] was sliced unchecked) *)
          if lenN sigdata <? 1 + x then DTooSmallBody id
          else
            match dec_msg t (skipn (N.to_nat (1 + x)) sigdata) with
            | None => DBadBody id t
            | Some m => DOk m id hash
            end
        else DUnknownType id t
      end
    end.
End Discover.

(* udp.go expired(ts): time.Since(time.Unix(int64(ts), 0)) < 0 means still valid.
   time.Unix adds unixToInternal = 62135596800 to the seconds in int64 (wraps);
   Sub saturates but keeps the sign of the comparison; so the packet is live
   iff now (seconds, as internal int64) is strictly before the wrapped deadline.
   now_s = Unix seconds of the clock (fractional part irrelevant: deadline is whole seconds). *)
Definition two63 : Z := 9223372036854775808%Z.
Definition wrap_i64 (z : Z) : Z := ((z + two63) mod (2 * two63) - two63)%Z.
Definition unix_to_internal : Z := 62135596800%Z.
Definition expired (ts : N) (now_s : Z) : bool :=
  let t_int := wrap_i64 (wrap_i64 (Z.of_N ts) + unix_to_internal) in
  let now_int := (now_s + unix_to_internal)%Z in
  negb (now_int <? t_int)%Z.
