From AQ Require Import Lib.Bytes Generated.GenParamsNet.
From AQ Require Import Net.DiscState.
From Coq Require Import ZifyBool ZifyN ZifyNat.
Local Open Scope N_scope.

Definition exp_of (p : inpkt) : N :=
  match p with InPing e => e | InPong _ e => e | InFindnode e => e | InNeighbors _ e => e end.

(* expired packets are rejected, whatever they are: no state change, no reply *)
Theorem expired_rejected s from p : pkt_expired s (exp_of p) = true -> step s (EvIn from p) = (s, VExpired, []).
Proof. destruct p; cbn [exp_of step]; intros ->; reflexivity. Qed.

(* findnode is answered only to a node with a valid bond; without one: errUnknownNode, nothing sent, nothing changed *)
Theorem findnode_needs_bond s from exp s' v o :
  step s (EvIn from (InFindnode exp)) = (s', v, o) ->
  s' = s /\
  (o <> [] -> has_bond s from = true /\ pkt_expired s exp = false /\ v = VOk) /\
  (pkt_expired s exp = false -> has_bond s from = false -> v = VUnknownNode /\ o = []).
Proof.
  cbn [step]. destruct (pkt_expired s exp); [intros E; injection E as <- <- <-; repeat split; congruence|].
  destruct (has_bond s from); cbn [negb]; intros E; injection E as <- <- <-; repeat split; congruence.
Qed.

(* a pong / neighbors packet with no matching outstanding request is errUnsolicitedReply and changes nothing *)
Theorem unsolicited_pong_ignored s from tok exp :
  pkt_expired s exp = false -> existsb (is_pong_wait from) (d_pending s) = false ->
  step s (EvIn from (InPong tok exp)) = (s, VUnsolicited, []).
Proof. intros He Hn. cbn [step]. now rewrite He, Hn. Qed.
Theorem unsolicited_neighbors_ignored s from n exp :
  pkt_expired s exp = false -> existsb (is_neigh_wait from) (d_pending s) = false ->
  step s (EvIn from (InNeighbors n exp)) = (s, VUnsolicited, []).
Proof. intros He Hn. cbn [step]. now rewrite He, Hn. Qed.

(* a bond is only ever created by a pong that answers one of OUR pings with its token *)
Theorem bond_only_by_solicited_pong s e s' v o id :
  step s e = (s', v, o) -> bond_time id (d_bonds s') <> bond_time id (d_bonds s) ->
  exists tok exp, e = EvIn id (InPong tok exp) /\ pkt_expired s exp = false /\
    existsb (fun p => is_pong_wait id p && match p_expect p with PxPong t => t =? tok | _ => false end) (d_pending s) = true.
Proof.
  destruct e as [dt|i|from p]; cbn [step].
  - intros E; injection E as <- _ _. cbn. congruence.
  - intros E; injection E as <- _ _. cbn. congruence.
  - destruct p as [exp|tok exp|exp|n exp]; cbn [step].
    + destruct (pkt_expired s exp); [intros E; injection E as <- _ _; congruence|].
      destruct (has_bond s from || mem from (d_bonding s)); intros E; injection E as <- _ _; cbn; congruence.
    + destruct (pkt_expired s exp) eqn:He; [intros E; injection E as <- _ _; congruence|].
      destruct (negb (existsb (is_pong_wait from) (d_pending s))); [intros E; injection E as <- _ _; congruence|].
      match goal with |- context [if existsb ?h _ then _ else _] => destruct (existsb h (d_pending s)) eqn:Eh end;
        [|intros E; injection E as <- _ _; congruence].
      intros E; injection E as <- _ _. cbn [d_bonds]. intros Hne.
      destruct (N.eqb_spec from id) as [->|Hd].
      * exists tok, exp. auto.
      * exfalso. apply Hne. clear -Hd. induction (d_bonds s) as [|[i t] r IH]; cbn [set_bond bond_time].
        -- destruct (N.eqb_spec from id); [contradiction|reflexivity].
        -- destruct (N.eqb_spec i from) as [->|]; cbn [bond_time].
           ++ destruct (N.eqb_spec from id); [contradiction|reflexivity].
           ++ destruct (i =? id); [reflexivity|exact IH].
    + destruct (pkt_expired s exp); [intros E; injection E as <- _ _; congruence|].
      destruct (negb (has_bond s from)); intros E; injection E as <- _ _; congruence.
    + destruct (pkt_expired s exp); [intros E; injection E as <- _ _; congruence|].
      destruct (negb (existsb (is_neigh_wait from) (d_pending s))); intros E; injection E as <- _ _; cbn; congruence.
Qed.

(* every neighbors packet the node sends carries at most maxNeighbors entries *)
Lemma chunks_bounded : forall fuel to k sent,
  Forall (fun o => match o with OutNeighbors _ c => c <= max_neighbors | _ => True end) (chunks fuel to k sent).
Proof.
  induction fuel as [|f IH]; intros to k sent; cbn [chunks]; [constructor|].
  destruct (N.leb_spec max_neighbors k); [constructor; [lia|apply IH]|].
  destruct ((0 <? k) || negb sent); constructor; [lia|constructor].
Qed.
Theorem outgoing_neighbors_bounded s e s' v o :
  step s e = (s', v, o) ->
  Forall (fun x => match x with OutNeighbors _ c => c <= max_neighbors | _ => True end) o.
Proof.
  destruct e as [dt|i|from p]; cbn [step].
  - intros E; injection E as _ _ <-. constructor.
  - intros E; injection E as _ _ <-. repeat constructor.
  - destruct p as [exp|tok exp|exp|n exp]; cbn [step].
    + destruct (pkt_expired s exp); [intros E; injection E as _ _ <-; constructor|].
      destruct (has_bond s from || mem from (d_bonding s)); intros E; injection E as _ _ <-; repeat constructor.
    + destruct (pkt_expired s exp); [intros E; injection E as _ _ <-; constructor|].
      destruct (negb (existsb (is_pong_wait from) (d_pending s))); [intros E; injection E as _ _ <-; constructor|].
      match goal with |- context [if ?c then _ else _] => destruct c end; intros E; injection E as _ _ <-; constructor.
    + destruct (pkt_expired s exp); [intros E; injection E as _ _ <-; constructor|].
      destruct (negb (has_bond s from)); intros E; injection E as _ _ <-; [constructor|apply chunks_bounded].
    + destruct (pkt_expired s exp); [intros E; injection E as _ _ <-; constructor|].
      destruct (negb (existsb (is_neigh_wait from) (d_pending s))); intros E; injection E as _ _ <-; constructor.
Qed.

(* the pending list only grows by requests the node itself sends *)
Lemma filter_lenN {A} (f : A -> bool) l : lenN (filter f l) <= lenN l.
Proof. unfold lenN. induction l as [|a l IH]; cbn [filter length]; [lia|]. destruct (f a); cbn [length]; lia. Qed.
Definition requests (o : list outpkt) : N := lenN (filter is_request o).
Lemma step_pending s e s' v o : step s e = (s', v, o) -> lenN (d_pending s') <= lenN (d_pending s) + requests o.
Proof.
  destruct e as [dt|i|from p]; cbn [step].
  - intros E; injection E as <- _ <-. cbn [d_pending]. pose proof (filter_lenN (fun p => d_now s + dt <? p_deadline p) (d_pending s)). unfold requests. cbn. lia.
  - intros E; injection E as <- _ <-. cbn [d_pending]. rewrite lenN_app. unfold requests. cbn. lia.
  - destruct p as [exp|tok exp|exp|n exp]; cbn [step].
    + destruct (pkt_expired s exp); [intros E; injection E as <- _ <-; unfold requests; cbn; lia|].
      destruct (has_bond s from || mem from (d_bonding s)); intros E; injection E as <- _ <-; cbn [d_pending]; unfold requests; cbn; [lia|].
      rewrite lenN_app. cbn. lia.
    + destruct (pkt_expired s exp); [intros E; injection E as <- _ <-; unfold requests; cbn; lia|].
      destruct (negb (existsb (is_pong_wait from) (d_pending s))); [intros E; injection E as <- _ <-; unfold requests; cbn; lia|].
      match goal with |- context [if ?c then _ else _] => destruct c end; intros E; injection E as <- _ <-; cbn [d_pending]; unfold requests; cbn; [|lia].
      match goal with |- context [filter ?f (d_pending s)] => pose proof (filter_lenN f (d_pending s)) end. lia.
    + destruct (pkt_expired s exp); [intros E; injection E as <- _ <-; unfold requests; cbn; lia|].
      destruct (negb (has_bond s from)); intros E; injection E as <- _ <-; unfold requests; [cbn; lia|].
      assert (Hz : filter is_request (neighbors_reply s from) = []).
      { unfold neighbors_reply. generalize (N.min (lenN (d_table s)) bucket_size) false. generalize 4%nat.
        induction n as [|f IH]; intros k sent; cbn [chunks filter]; [reflexivity|].
        destruct (max_neighbors <=? k); [cbn [filter is_request]; apply IH|].
        destruct ((0 <? k) || negb sent); reflexivity. }
      rewrite Hz. cbn. lia.
    + destruct (pkt_expired s exp); [intros E; injection E as <- _ <-; unfold requests; cbn; lia|].
      destruct (negb (existsb (is_neigh_wait from) (d_pending s))); intros E; injection E as <- _ <-; cbn [d_pending]; unfold requests; cbn; [lia|].
      match goal with |- context [filter ?f (map ?g (d_pending s))] => pose proof (filter_lenN f (map g (d_pending s))) end.
      unfold lenN in *. rewrite map_length in *. lia.
Qed.

Definition all_outs (r : list (verdict * list outpkt)) : list outpkt := flat_map snd r.
(* over EVERY history: the pending list never holds more entries than requests the node has sent *)
Theorem pending_bounded_by_own_requests : forall h s s' r,
  run s h = (s', r) -> lenN (d_pending s') <= lenN (d_pending s) + requests (all_outs r).
Proof.
  induction h as [|e t IH]; intros s s' r; cbn [run].
  - intros E; injection E as <- <-. unfold requests. cbn. lia.
  - destruct (step s e) as [[s1 v] o] eqn:Es. destruct (run s1 t) as [s2 r2] eqn:Er.
    intros E; injection E as <- <-. apply step_pending in Es. apply IH in Er.
    unfold all_outs, requests in *. cbn [flat_map snd]. rewrite filter_app, lenN_app. lia.
Qed.
