(* Net/Handshake.v — the framing logic of the RLPx encryption handshake reader,
   p2p/rlpx.go readHandshakeMsg: fixed-size "plain" (pre-EIP-8) packet or
   2-byte size prefix + EIP-8 packet, and the typed RLP bodies authMsgV4 /
   authRespV4.  ECIES decryption is a parameter (not modelled); what is modelled
   is what decides how many bytes are requested and buffered.  Definitions only. *)
From AQ Require Import Lib.Bytes Rlp.RlpSpec Generated.GenParamsNet Net.Discover.
Local Open Scope N_scope.

Definition enc_auth_msg_len : N := Eval compute in g_enc_auth_msg_len.    (* 307 *)
Definition enc_auth_resp_len : N := Eval compute in g_enc_auth_resp_len.  (* 210 *)
Definition two16 : N := 65536.

(* s.Decode(msg) for authMsgV4 {Signature [65]byte; InitiatorPubkey [64]byte; Nonce [32]byte; Version uint; Rest tail}
   (gotPlain is unexported: not an RLP field) and authRespV4 {RandomPubkey [64]byte; Nonce [32]byte; Version uint; Rest tail};
   trailing bytes after the list are ignored (rlp.NewStream + Decode, "forward compatibility") *)
Definition auth_body_ok (d : bytes) : bool :=
  match s_list d with None => false | Some (pl, _) =>
  match s_arr 65 pl with None => false | Some (_, p1) =>
  match s_arr 64 p1 with None => false | Some (_, p2) =>
  match s_arr 32 p2 with None => false | Some (_, p3) =>
  match s_uint 64 p3 with None => false | Some (_, p4) =>
  match s_raws (length p4) p4 with None => false | Some _ => true end end end end end end.
Definition ack_body_ok (d : bytes) : bool :=
  match s_list d with None => false | Some (pl, _) =>
  match s_arr 64 pl with None => false | Some (_, p1) =>
  match s_arr 32 p1 with None => false | Some (_, p2) =>
  match s_uint 64 p2 with None => false | Some (_, p3) =>
  match s_raws (length p3) p3 with None => false | Some _ => true end end end end end.

Inductive hclass := HShort | HPlain | HUnderflow | HDecryptErr | HBadBody | HOk.

Section Handshake.
  Variable dec_plain : bytes -> option bytes.            (* key.Decrypt(buf, nil, nil) *)
  Variable dec_eip8 : bytes -> bytes -> option bytes.    (* prefix, buf[2:]  ->  key.Decrypt(buf[2:], nil, prefix) *)
  Variable body_ok : bytes -> bool.

  (* readHandshakeMsg(msg, plainSize, prv, r) on the bytes s still to come: the
     outcome and len(buf), the buffer the function has requested so far. *)
  Definition read_handshake_msg (plain_size : N) (s : bytes) : hclass * N :=
    match takeN plain_size s with
    | None => (HShort, plain_size)                          (* io.ReadFull(r, buf) *)
    | Some (buf, s1) =>
      match dec_plain buf with
      | Some _ => (HPlain, plain_size)                      (* msg.decodePlain(dec) *)
      | None =>
        let prefix := firstn 2 buf in
        let size := N_of_be prefix in                       (* binary.BigEndian.Uint16 *)
        if size <? plain_size mod two16 then (HUnderflow, plain_size)
        else
          (* append(buf, make([]byte, size-uint16(plainSize)+2)...) — uint16 arithmetic *)
          let extra := (size + two16 - plain_size mod two16 + 2) mod two16 in
          match takeN extra s1 with
          | None => (HShort, plain_size + extra)
          | Some (more, _) =>
            match dec_eip8 prefix (skipn 2 (buf ++ more)) with
            | None => (HDecryptErr, plain_size + extra)
            | Some d => ((if body_ok d then HOk else HBadBody), plain_size + extra)
            end
          end
      end
    end.
End Handshake.

(* ---- the rest of the receiving side of the encryption handshake: p2p/rlpx.go
   receiverEncHandshake = readHandshakeMsg ; handleAuthMsg.  handleAuthMsg's checks,
   in the order of the code: the initiator id must be a curve point
   (remoteID.Pubkey()), the static ECDH must succeed, and the signature over
   xor(token, nonce) must recover a key.  The three are primitives (parameters):
     id_on_curve   discover.NodeID.Pubkey succeeds
     ecdh_ok       staticSharedSecret succeeds
     sig_recovers  crypto.Ecrecover(xor(token, nonce), signature) succeeds
   What is modelled is the staging: nothing of the packet is acted upon before
   readHandshakeMsg accepted it, and an ack is only sent after all three passed. *)
Inductive rclass := RcRead (c : hclass) | RcBadId | RcBadEcdh | RcBadSig | RcOk.
Definition receiver_handshake (read : hclass) (id_on_curve ecdh_ok sig_recovers : bool) : rclass :=
  match read with
  | HPlain | HOk =>
    if negb id_on_curve then RcBadId
    else if negb ecdh_ok then RcBadEcdh
    else if negb sig_recovers then RcBadSig
    else RcOk
  | c => RcRead c
  end.

(* ---- p2p/rlpx.go readProtocolHandshake: the first framed message of a connection.
   protoHandshake {Version uint64; Name string; Caps []Cap{Name string; Version uint}; ListenPort uint64; ID NodeID; Rest tail},
   decoded with Msg.Decode (stream limited to msg.Size). *)
Definition base_protocol_max_msg_size : N := Eval compute in g_base_protocol_max_msg_size.
Definition s_cap (b : bytes) : option (unit * bytes) :=
  match s_list b with None => None | Some (pl, r) =>
  match s_bytes pl with None => None | Some (_, p1) =>
  match s_uint 64 p1 with None => None | Some (_, p2) =>
  match p2 with [] => Some (tt, r) | _ => None end end end end.
Fixpoint s_caps (fuel : nat) (pl : bytes) : bool :=
  match pl with
  | [] => true
  | _ => match fuel with
         | O => false
         | S f => match s_cap pl with None => false | Some (_, r) => s_caps f r end
         end
  end.
(* Some id = the body decodes, id = the 64-byte node id it carries *)
Definition proto_body (d : bytes) : option bytes :=
  match s_list d with None => None | Some (pl, _) =>
  match s_uint 64 pl with None => None | Some (_, p1) =>
  match s_bytes p1 with None => None | Some (_, p2) =>
  match s_list p2 with None => None | Some (caps, p3) =>
  if negb (s_caps (length caps) caps) then None else
  match s_uint 64 p3 with None => None | Some (_, p4) =>
  match s_arr 64 p4 with None => None | Some (id, p5) =>
  match s_raws (length p5) p5 with None => None | Some _ => Some id end end end end end end end.

Inductive pclass := PhTooBig | PhDisc | PhWrongCode | PhBadBody | PhZeroId | PhOk (id : bytes).
(* (msg.Code, msg.Size, payload) as ReadMsg delivered it *)
Definition read_protocol_handshake (code size : N) (payload : bytes) : pclass :=
  if base_protocol_max_msg_size <? size then PhTooBig        (* "message too big" *)
  else if code =? 1 then PhDisc                              (* discMsg: the reason is returned as error *)
  else if negb (code =? 0) then PhWrongCode                  (* != handshakeMsg *)
  else match proto_body (firstn (N.to_nat size) payload) with
       | None => PhBadBody
       | Some id => if forallb (fun b => b2n b =? 0) id then PhZeroId else PhOk id
       end.

(* ---- p2p/peer.go handle / p2p/rlpx.go readProtocolHandshake, discMsg:
   `var reason [1]DiscReason; rlp.Decode(msg.Payload, &reason); return reason[0]` — the decode error is
   ignored, so the reason is the first element if the payload is a list whose first element is a
   canonical uint (more elements: "too many elements", but reason[0] is already set), else 0.
   Any uint64 can come out: DiscReason.String / Error must be total over uint64; the table has
   disc_table_len entries. *)
Definition disc_table_len : N := Eval compute in g_disc_table_len.
Definition disc_reason (payload : bytes) : N :=
  match s_list payload with
  | None => 0
  | Some (pl, _) => match s_uint 64 pl with Some (n, _) => n | None => 0 end
  end.
Definition disc_reason_named (n : N) : bool := n <? disc_table_len.   (* else "unknown disconnect reason %d" *)
