(* Net/DiscState.v — p2p/discover/udp.go + table.go as a packet-history state machine: the four
   handlers (ping / pong / findnode / neighbors .handle), the endpoint-proof table (db.hasBond:
   last pong within nodeDBNodeExpiration), the pending-reply matcher (udp.loop: gotreply is matched
   against pending entries by sender id and packet type; a callback decides whether the entry is
   done), bonding triggered by an inbound ping (Table.bond / pingpong / ping), findnode issued by
   the node (udp.findnode), packet expiration, the chunking of neighbors replies.
   Remote nodes are numbered (id = N); the authenticity of the id is decodePacket's business
   (Net/Discover.v).  Time is a logical clock in seconds.  Not modelled: findFails, waitping (bonds
   the node initiates itself), table buckets/eviction (the table is the list of nodes bonded so far,
   at most 16 are "closest"), IP relay filtering.  Definitions only. *)
From AQ Require Import Lib.Bytes Generated.GenParamsNet.
Local Open Scope N_scope.

Definition bond_expiration_s : N := Eval compute in g_bond_expiration_ms / 1000.   (* 3600 *)
Definition resp_timeout_s : N := Eval compute in g_resp_timeout_ms / 1000.         (* 4 *)
Definition max_neighbors : N := Eval compute in g_max_neighbors.                    (* 12 *)
Definition bucket_size : N := 16.

Inductive pexpect := PxPong (tok : N) | PxNeighbors (received : N).
Record pend := mk_pend { p_from : N; p_expect : pexpect; p_deadline : N }.
Record dstate := mk_dstate {
  d_now : N;
  d_bonds : list (N * N);        (* id, time of the last pong that answered one of our pings *)
  d_pending : list pend;         (* udp.loop's plist *)
  d_bonding : list N;            (* Table.bonding: ids with a ping/pong in flight *)
  d_table : list N;              (* nodes added to the table (after a successful bond) *)
  d_next_tok : N                 (* tokens of the pings we send (the ping packet's hash) *)
}.
Definition d_init : dstate := mk_dstate 0 [] [] [] [] 0.

Inductive inpkt := InPing (exp : N) | InPong (tok exp : N) | InFindnode (exp : N) | InNeighbors (n exp : N).
Inductive event :=
| EvTick (dt : N)                 (* the clock advances; requests past their deadline time out *)
| EvIssueFindnode (id : N)        (* udp.findnode towards id *)
| EvIn (from : N) (p : inpkt).    (* an authenticated datagram from `from` *)
Inductive outpkt := OutPong (to : N) | OutPing (to tok : N) | OutFindnode (to : N) | OutNeighbors (to count : N).
Inductive verdict := VOk | VExpired | VUnsolicited | VUnknownNode | VLocal.

Fixpoint bond_time (id : N) (l : list (N * N)) : option N :=
  match l with [] => None | (i, t) :: r => if i =? id then Some t else bond_time id r end.
(* db.hasBond: time.Since(bondTime) < nodeDBNodeExpiration (no entry: the epoch, never bonded) *)
Definition has_bond (s : dstate) (id : N) : bool :=
  match bond_time id (d_bonds s) with Some t => d_now s - t <? bond_expiration_s | None => false end.
(* udp.go expired(ts): live iff now < ts *)
Definition pkt_expired (s : dstate) (exp : N) : bool := exp <=? d_now s.
Fixpoint set_bond (id t : N) (l : list (N * N)) : list (N * N) :=
  match l with [] => [(id, t)] | (i, x) :: r => if i =? id then (i, t) :: r else (i, x) :: set_bond id t r end.
Definition mem (id : N) (l : list N) : bool := existsb (N.eqb id) l.
Definition remove_id (id : N) (l : list N) : list N := filter (fun x => negb (x =? id)) l.

Definition is_pong_wait (from : N) (p : pend) : bool :=
  (p_from p =? from) && match p_expect p with PxPong _ => true | _ => false end.
Definition is_neigh_wait (from : N) (p : pend) : bool :=
  (p_from p =? from) && match p_expect p with PxNeighbors _ => true | _ => false end.

(* neighbors reply: closest (at most bucketSize) table entries in chunks of maxNeighbors;
   `if len(p.Nodes) > 0 || !sent { send }` sends one (possibly empty) last packet *)
Fixpoint chunks (fuel : nat) (to k : N) (sent : bool) : list outpkt :=
  match fuel with
  | O => []
  | S f => if max_neighbors <=? k then OutNeighbors to max_neighbors :: chunks f to (k - max_neighbors) true
           else if (0 <? k) || negb sent then [OutNeighbors to k] else []
  end.
Definition neighbors_reply (s : dstate) (to : N) : list outpkt :=
  chunks 4 to (N.min (lenN (d_table s)) bucket_size) false.

Definition step (s : dstate) (e : event) : dstate * verdict * list outpkt :=
  match e with
  | EvTick dt =>
    let now := d_now s + dt in
    let live := filter (fun p => now <? p_deadline p) (d_pending s) in
    let dead := filter (fun p => negb (now <? p_deadline p)) (d_pending s) in
    (* a timed-out ping ends its bonding process *)
    let bonding := filter (fun id => negb (existsb (is_pong_wait id) dead)) (d_bonding s) in
    (mk_dstate now (d_bonds s) live bonding (d_table s) (d_next_tok s), VLocal, [])
  | EvIssueFindnode id =>
    (mk_dstate (d_now s) (d_bonds s) (d_pending s ++ [mk_pend id (PxNeighbors 0) (d_now s + resp_timeout_s)])
               (d_bonding s) (d_table s) (d_next_tok s), VLocal, [OutFindnode id])
  | EvIn from (InPing exp) =>
    if pkt_expired s exp then (s, VExpired, [])
    else
      (* pong first; then (no waitping pending) Table.bond(pinged=true): ping back unless bonded or bonding *)
      if has_bond s from || mem from (d_bonding s) then
        (mk_dstate (d_now s) (d_bonds s) (d_pending s) (d_bonding s)
                   (if has_bond s from && negb (mem from (d_table s)) then d_table s ++ [from] else d_table s) (d_next_tok s),
         VOk, [OutPong from])
      else
        (mk_dstate (d_now s) (d_bonds s)
                   (d_pending s ++ [mk_pend from (PxPong (d_next_tok s)) (d_now s + resp_timeout_s)])
                   (from :: d_bonding s) (d_table s) (d_next_tok s + 1),
         VOk, [OutPong from; OutPing from (d_next_tok s)])
  | EvIn from (InPong tok exp) =>
    if pkt_expired s exp then (s, VExpired, [])
    else if negb (existsb (is_pong_wait from) (d_pending s)) then (s, VUnsolicited, [])
    else
      (* every matching entry's callback runs; the one whose token matches is done: bond complete *)
      let hit p := is_pong_wait from p && match p_expect p with PxPong t => t =? tok | _ => false end in
      if existsb hit (d_pending s) then
        (mk_dstate (d_now s) (set_bond from (d_now s) (d_bonds s)) (filter (fun p => negb (hit p)) (d_pending s))
                   (remove_id from (d_bonding s)) (if mem from (d_table s) then d_table s else d_table s ++ [from]) (d_next_tok s),
         VOk, [])
      else (s, VOk, [])
  | EvIn from (InFindnode exp) =>
    if pkt_expired s exp then (s, VExpired, [])
    else if negb (has_bond s from) then (s, VUnknownNode, [])
    else (s, VOk, neighbors_reply s from)
  | EvIn from (InNeighbors n exp) =>
    if pkt_expired s exp then (s, VExpired, [])
    else if negb (existsb (is_neigh_wait from) (d_pending s)) then (s, VUnsolicited, [])
    else
      let upd p := if is_neigh_wait from p
                   then match p_expect p with PxNeighbors r => mk_pend (p_from p) (PxNeighbors (r + n)) (p_deadline p) | _ => p end
                   else p in
      let done p := is_neigh_wait from p && match p_expect p with PxNeighbors r => bucket_size <=? r | _ => false end in
      (mk_dstate (d_now s) (d_bonds s) (filter (fun p => negb (done p)) (map upd (d_pending s)))
                 (d_bonding s) (d_table s) (d_next_tok s), VOk, [])
  end.

(* a whole history *)
Fixpoint run (s : dstate) (h : list event) : dstate * list (verdict * list outpkt) :=
  match h with
  | [] => (s, [])
  | e :: t => let '(s1, v, o) := step s e in let '(s2, r) := run s1 t in (s2, (v, o) :: r)
  end.
Definition is_request (o : outpkt) : bool := match o with OutPing _ _ | OutFindnode _ => true | _ => false end.
