(* Net/Frame.v — the RLPx frame codec of p2p/rlpx.go (rlpxFrameRW.WriteMsg /
   ReadMsg / updateMAC) as a pair of state machines.  Definitions only (this
   file is extracted).

   Primitives are parameters of the section:
     H          Keccak-256 of everything a MAC hash has absorbed
                (hash.Hash state = list of absorbed bytes; Sum(nil) = H state)
     aes_block  macCipher.Encrypt on one 16-byte block (key = secrets.MAC)
     ks         the AES-CTR key stream (key = secrets.AES, IV = 0): byte at offset n;
                enc and dec are two cipher.Stream instances over the same
                key/IV, so both sides index the same function
     snappy_enc / snappy_dec   snappy.Encode / snappy.Decode (not modelled);
                snappy.DecodedLen IS modelled (snappy_declen), it is the size gate. *)
From AQ Require Import Lib.Bytes Rlp.RlpSpec Generated.GenParamsNet.
Local Open Scope N_scope.

(* ---- byte xor, bitwise ---- *)
Definition bxor (a b : byte) : byte :=
  let '(a0, (a1, (a2, (a3, (a4, (a5, (a6, a7))))))) := Byte.to_bits a in
  let '(b0, (b1, (b2, (b3, (b4, (b5, (b6, b7))))))) := Byte.to_bits b in
  Byte.of_bits (xorb a0 b0, (xorb a1 b1, (xorb a2 b2, (xorb a3 b3,
               (xorb a4 b4, (xorb a5 b5, (xorb a6 b6, xorb a7 b7))))))).

(* Go: for i := range a { a[i] ^= b[i] }  (callers guarantee len b >= len a;
   a shorter b would be an index panic in Go — see update_mac) *)
Fixpoint xor_bytes (a b : bytes) : bytes :=
  match a, b with
  | x :: a', y :: b' => bxor x y :: xor_bytes a' b'
  | _, _ => []
  end.

(* constants come from the translator (Generated/GenParamsNet.v, regenerated from /repo on every run) *)
Definition max_uint24 : N := Eval compute in g_max_uint24.   (* rlpx.go maxUint24 = ^uint32(0) >> 8 *)
Definition two32 : N := 4294967296.
Definition zero_header : bytes := Eval compute in map n2b g_zero_header. (* rlpx.go zeroHeader = C2 80 80 *)

(* bytes of zero padding after a frame of n bytes: rlpx.go `if padding := fsize % 16; padding > 0 { 16 - padding }` *)
Definition pad16 (n : N) : N := if n mod 16 =? 0 then 0 else 16 - n mod 16.
(* ReadMsg: rsize, the length of framebuf = make([]byte, rsize) *)
Definition frame_buf_size (fsize : N) : N := fsize + pad16 fsize.

(* rlp.Decode(content, &msg.Code): Stream.uint(64) on a length-limited stream
   (rlp/decode.go Stream.uint, readKind, readUint) — a string of at most 8 bytes,
   no leading zero, single bytes < 0x80 only as themselves.  Returns the rest
   of the content (the payload). *)
Definition dec_uint64 (b : bytes) : option (N * bytes) :=
  match split b with
  | Some (KStr, s, rest) =>
      match item_to_uint 64 (Str s) with Some n => Some (n, rest) | None => None end
  | _ => None
  end.

(* encoding/binary.Uvarint: (value, n) with n>0 bytes read; None for n <= 0
   (buffer too small or 64-bit overflow).  i = index of the current byte. *)
Fixpoint uvarint_go (buf : bytes) (i : N) (x : N) (s : N) : option N :=
  match buf with
  | [] => None                                   (* return 0, 0 *)
  | b :: t =>
    if i =? 10 then None                         (* i == MaxVarintLen64: overflow *)
    else if b2n b <? 128 then
      if (i =? 9) && (1 <? b2n b) then None      (* overflow *)
      else Some (N.lor x (N.shiftl (b2n b) s))
    else uvarint_go t (i + 1) (N.lor x (N.shiftl (N.land (b2n b) 127) s)) (s + 7)
  end.
(* snappy.DecodedLen (decode.go decodedLen, 64-bit word size): v > 0xffffffff is ErrCorrupt *)
Definition snappy_declen (src : bytes) : option N :=
  match uvarint_go src 0 0 0 with
  | Some v => if 4294967295 <? v then None else Some v
  | None => None
  end.

Record wstate := mk_wstate { w_pos : N; w_mac : bytes }.   (* enc stream offset, egressMAC *)
Record rstate := mk_rstate { r_pos : N; r_mac : bytes }.   (* dec stream offset, ingressMAC *)

Inductive werr := WTooLarge | WOverflow.
Inductive wres := WErr (e : werr) | WOk (out : bytes) (st : wstate).
Inductive rerr := RShort | RHeaderMac | RFrameMac | RCode | RSnappy | RTooLarge.
Inductive rres := RErr (e : rerr) | ROk (code : N) (payload : bytes) (st : rstate) (rest : bytes).

Section Frame.
  Variable H : bytes -> bytes.
  Variable aes_block : bytes -> bytes.
  Variable ks : N -> byte.
  Variable snappy_enc : bytes -> bytes.
  Variable snappy_dec : bytes -> option bytes.

  (* cipher.Stream.XORKeyStream at stream offset pos *)
  Fixpoint xor_ks (pos : N) (d : bytes) : bytes :=
    match d with
    | [] => []
    | x :: t => bxor x (ks pos) :: xor_ks (N.succ pos) t
    end.

  (* rlpx.go updateMAC: aesbuf = Encrypt(mac.Sum(nil)[:16]); aesbuf[i] ^= seed[i];
     mac.Write(aesbuf); return mac.Sum(nil)[:16].  Returns the new MAC state and the tag. *)
  Definition update_mac (mac seed : bytes) : bytes * bytes :=
    let aesbuf := xor_bytes (aes_block (firstn 16 (H mac))) seed in
    let mac' := mac ++ aesbuf in
    (mac', firstn 16 (H mac')).

  (* rlpx.go rlpxFrameRW.WriteMsg.  The message is (code, payload) with
     Msg.Size = uint32(len(payload)) (what p2p.Send passes).  uint32 wrap-around
     of `uint32(len(ptype)) + msg.Size` is explicit. *)
  Definition write_msg (snappy : bool) (st : wstate) (code : N) (payload : bytes) : wres :=
    let ptype := encode_uint code in
    if snappy && (max_uint24 <? lenN payload mod two32) then WErr WTooLarge else
    let payload1 := if snappy then snappy_enc payload else payload in
    let size := lenN payload1 mod two32 in
    let fsize := (lenN ptype + size) mod two32 in
    if max_uint24 <? fsize then WErr WOverflow else
    let head_plain := be_fixed 3 fsize ++ zero_header ++ zeros 10 in
    let hc := xor_ks (w_pos st) head_plain in
    let '(mac1, hm) := update_mac (w_mac st) hc in
    let body := ptype ++ payload1 ++ zeros (N.to_nat (pad16 fsize)) in
    let ct := xor_ks (w_pos st + 16) body in
    let mac2 := mac1 ++ ct in
    let fmacseed := H mac2 in
    let '(mac3, fm) := update_mac mac2 fmacseed in
    WOk (hc ++ hm ++ ct ++ fm) (mk_wstate (w_pos st + 16 + lenN body) mac3).

  (* tail of ReadMsg: `if rw.snappy { DecodedLen; size > maxUint24 => errPlainMessageTooLarge; Decode }` *)
  Definition deliver (snappy : bool) (code : N) (payload : bytes) (st' : rstate) (s3 : bytes) : rres :=
    if snappy then
      match snappy_declen payload with
      | None => RErr RSnappy
      | Some n =>
        if max_uint24 <? n then RErr RTooLarge      (* refused before snappy.Decode *)
        else match snappy_dec payload with
             | None => RErr RSnappy
             | Some p => ROk code p st' s3
             end
      end
    else ROk code payload st' s3.

  (* rlpx.go rlpxFrameRW.ReadMsg on the bytes s still to come from conn.
     Every error is returned before msg is handed to the caller; the header MAC
     is checked before the size is even decrypted, the frame MAC before the
     frame is decrypted. *)
  Definition read_msg (snappy : bool) (st : rstate) (s : bytes) : rres :=
    match takeN 32 s with
    | None => RErr RShort                                   (* io.ReadFull(conn, headbuf) *)
    | Some (head, s1) =>
      let hc := firstn 16 head in
      let hm := skipn 16 head in
      let '(mac1, should) := update_mac (r_mac st) hc in
      if negb (bytes_eqb should hm) then RErr RHeaderMac else
      let hp := xor_ks (r_pos st) hc in
      let fsize := N_of_be (firstn 3 hp) in                 (* readInt24 *)
      let rsize := frame_buf_size fsize in
      match takeN rsize s1 with
      | None => RErr RShort                                 (* io.ReadFull(conn, framebuf) *)
      | Some (framebuf, s2) =>
        let mac2 := mac1 ++ framebuf in
        let fmacseed := H mac2 in
        match takeN 16 s2 with
        | None => RErr RShort
        | Some (fm, s3) =>
          let '(mac3, should2) := update_mac mac2 fmacseed in
          if negb (bytes_eqb should2 fm) then RErr RFrameMac else
          let plain := xor_ks (r_pos st + 16) framebuf in
          let content := firstn (N.to_nat fsize) plain in
          match dec_uint64 content with
          | None => RErr RCode
          | Some (code, payload) =>
            deliver snappy code payload (mk_rstate (r_pos st + 16 + rsize) mac3) s3
          end
        end
      end
    end.

  (* a session: write a list of messages / read n messages *)
  Fixpoint write_all (snappy : bool) (st : wstate) (ms : list (N * bytes)) : option (bytes * wstate) :=
    match ms with
    | [] => Some ([], st)
    | (c, p) :: t =>
      match write_msg snappy st c p with
      | WErr _ => None
      | WOk out st1 =>
        match write_all snappy st1 t with
        | None => None
        | Some (out', st2) => Some (out ++ out', st2)
        end
      end
    end.

  (* read up to n messages: what was delivered, and how the session ended
     (None = n messages read without error; Some e = the error that killed it) *)
  Fixpoint read_n (snappy : bool) (n : nat) (st : rstate) (s : bytes)
    : list (N * bytes) * option rerr * rstate * bytes :=
    match n with
    | O => ([], None, st, s)
    | S n' =>
      match read_msg snappy st s with
      | RErr e => ([], Some e, st, s)
      | ROk c p st1 rest =>
        let '(ms, e, st2, r) := read_n snappy n' st1 rest in
        ((c, p) :: ms, e, st2, r)
      end
    end.
End Frame.
