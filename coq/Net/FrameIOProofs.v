(* Net/FrameIOProofs.v — totality and boundedness of the frame reader on EVERY byte stream. *)
From AQ Require Import Lib.Bytes Rlp.RlpSpec Rlp.RlpProofs Net.Frame Net.NetProofs.
From AQ Require Import Net.FrameIO.
From Coq Require Import ZifyBool ZifyN ZifyNat.
Local Open Scope N_scope.

Lemma dec_uint64_shorter content code payload :
  dec_uint64 content = Some (code, payload) -> lenN payload < lenN content.
Proof.
  unfold dec_uint64. destruct (split content) as [[[k s0] rest]|] eqn:Es; [|discriminate].
  destruct k; [|discriminate]. destruct (item_to_uint 64 (Str s0)); [|discriminate].
  intros E. injection E as _ <-. apply split_canon in Es as (-> & _).
  destruct (enc_nonempty KStr s0) as (h & t & ->). rewrite lenN_app, lenN_cons. lia.
Qed.

Section FrameIOProofs.
  Variable H : bytes -> bytes.
  Variable aes_block : bytes -> bytes.
  Variable ks : N -> byte.
  Variable snappy_dec : bytes -> option bytes.
  Notation read_msg_io := (read_msg_io H aes_block ks snappy_dec).
  Notation read_msg := (read_msg H aes_block ks snappy_dec).

  (* the instrumented reader computes exactly Frame.read_msg *)
  Lemma read_msg_io_result snappy st s : fst (read_msg_io snappy st s) = read_msg snappy st s.
  Proof.
    unfold FrameIO.read_msg_io, Frame.read_msg.
    destruct (takeN 32 s) as [[head s1]|]; [|reflexivity].
    destruct (update_mac H aes_block (r_mac st) (firstn 16 head)) as [mac1 should].
    destruct (negb (bytes_eqb should (skipn 16 head))); [reflexivity|].
    destruct (takeN _ s1) as [[fb s2]|]; [|reflexivity].
    destruct (takeN 16 s2) as [[fm s3]|]; [|reflexivity].
    destruct (update_mac H aes_block (mac1 ++ fb) (H (mac1 ++ fb))) as [mac3 should2].
    destruct (negb (bytes_eqb should2 fm)); [reflexivity|].
    destruct (dec_uint64 _) as [[code payload]|]; [|reflexivity].
    unfold deliver_io, deliver. destruct snappy; [|reflexivity].
    destruct (snappy_declen payload) as [n|]; [|reflexivity].
    destruct (max_uint24 <? n); [reflexivity|]. destruct (snappy_dec payload); reflexivity.
  Qed.

  (* what an outcome says about the stream, the buffers and the delivered message *)
  Definition outcome_ok (snappy : bool) (st : rstate) (s : bytes) (res : rres) (io : rio) : Prop :=
    match res with
    | RErr RShort => io_consumed io = lenN s                       (* the connection ran dry: everything was taken *)
    | RErr RHeaderMac => io_consumed io = 32 /\ io_declared io = None /\ io_alloc io = 32
    | RErr _ => exists f, io_declared io = Some f /\ io_consumed io = 32 + frame_buf_size f + 16
    | ROk code payload st' rest =>
      exists f, io_declared io = Some f /\ f <= max_uint24 /\
        io_consumed io = 32 + frame_buf_size f + 16 /\
        s = firstn (N.to_nat (io_consumed io)) s ++ rest /\
        r_pos st' = r_pos st + 16 + frame_buf_size f /\
        (snappy = false -> lenN payload < f) /\
        (snappy = true -> exists c n, lenN c < f /\ snappy_declen c = Some n /\ n <= max_uint24 /\
                                      snappy_dec c = Some payload /\ io_alloc io = 32 + frame_buf_size f + lenN c + n)
    end.

  Theorem read_msg_total_bounded snappy st s :
    let res := fst (read_msg_io snappy st s) in
    let io := snd (read_msg_io snappy st s) in
    io_consumed io <= lenN s /\
    io_consumed io <= 32 + 16777231 + 16 /\
    io_alloc io <= 32 + 16777231 + (if snappy then 2 * max_uint24 else 0) /\
    (forall f, io_declared io = Some f -> f <= max_uint24 /\ io_alloc io >= 32 + frame_buf_size f) /\
    outcome_ok snappy st s res io.
  Proof.
    Local Ltac red5 := cbv zeta; cbn [fst snd io_consumed io_alloc io_declared outcome_ok].
    Local Ltac five t4 t5 := split; [try lia|split; [try lia|split; [try lia; try (match goal with |- context [if ?b then _ else _] => destruct b end; lia)|split; [t4|t5]]]].
    unfold FrameIO.read_msg_io.
    destruct (takeN 32 s) as [[head s1]|] eqn:E0.
    2:{ red5. unfold takeN in E0. destruct (N.leb_spec 32 (lenN s)); [discriminate|].
        five ltac:(intros f Ef; discriminate) ltac:(reflexivity). }
    destruct (takeN_spec _ _ _ _ E0) as [-> Lh].
    destruct (update_mac H aes_block (r_mac st) (firstn 16 head)) as [mac1 should].
    destruct (negb (bytes_eqb should (skipn 16 head))).
    { red5. rewrite lenN_app. five ltac:(intros f Ef; discriminate) ltac:(auto). }
    set (fsize := N_of_be (firstn 3 (xor_ks ks (r_pos st) (firstn 16 head)))).
    assert (Hfs : fsize <= max_uint24) by (apply N_of_be_3_lt; rewrite firstn_length; lia).
    pose proof (frame_buf_size_bound fsize Hfs) as Hrs.
    assert (Hm : max_uint24 = 16777215) by reflexivity.
    assert (Hdecl : forall a f, Some fsize = Some f -> 32 + frame_buf_size fsize <= a -> f <= max_uint24 /\ a >= 32 + frame_buf_size f).
    { intros a f Ef Ha. injection Ef as <-. lia. }
    destruct (takeN (frame_buf_size fsize) s1) as [[fb s2]|] eqn:E1.
    2:{ red5. unfold takeN in E1. destruct (N.leb_spec (frame_buf_size fsize) (lenN s1)); [discriminate|].
        rewrite lenN_app in *. five ltac:(intros f Ef; apply (Hdecl _ _ Ef); lia) ltac:(reflexivity). }
    destruct (takeN_spec _ _ _ _ E1) as [-> Lf].
    destruct (takeN 16 s2) as [[fm s3]|] eqn:E2.
    2:{ red5. unfold takeN in E2. destruct (N.leb_spec 16 (lenN s2)); [discriminate|].
        rewrite !lenN_app in *. five ltac:(intros f Ef; apply (Hdecl _ _ Ef); lia) ltac:(reflexivity). }
    destruct (takeN_spec _ _ _ _ E2) as [-> Lm].
    assert (Hlen : lenN (head ++ fb ++ fm ++ s3) = 32 + frame_buf_size fsize + 16 + lenN s3) by (rewrite !lenN_app; lia).
    destruct (update_mac H aes_block (mac1 ++ fb) (H (mac1 ++ fb))) as [mac3 should2].
    destruct (negb (bytes_eqb should2 fm)).
    { red5. rewrite Hlen. five ltac:(intros f Ef; apply (Hdecl _ _ Ef); lia) ltac:(exists fsize; auto). }
    set (content := firstn (N.to_nat fsize) (xor_ks ks (r_pos st + 16) fb)).
    assert (Hc : lenN content <= fsize) by (unfold content, lenN; rewrite firstn_length; lia).
    destruct (dec_uint64 content) as [[code payload]|] eqn:Ed.
    2:{ red5. rewrite Hlen. five ltac:(intros f Ef; apply (Hdecl _ _ Ef); lia) ltac:(exists fsize; auto). }
    apply dec_uint64_shorter in Ed.
    assert (Hsplit : head ++ fb ++ fm ++ s3 =
              firstn (N.to_nat (32 + frame_buf_size fsize + 16)) (head ++ fb ++ fm ++ s3) ++ s3).
    { rewrite !app_assoc. rewrite firstn_app_exact; [reflexivity|].
      rewrite !app_length. unfold lenN in Lh, Lf, Lm. lia. }
    unfold deliver_io. destruct snappy.
    - destruct (snappy_declen payload) as [n|] eqn:En.
      2:{ red5. rewrite Hlen. five ltac:(intros f Ef; apply (Hdecl _ _ Ef); lia) ltac:(exists fsize; auto). }
      destruct (N.ltb_spec max_uint24 n).
      { red5. rewrite Hlen. five ltac:(intros f Ef; apply (Hdecl _ _ Ef); lia) ltac:(exists fsize; auto). }
      destruct (snappy_dec payload) as [p|] eqn:Es; red5; rewrite Hlen.
      + five ltac:(intros f Ef; apply (Hdecl _ _ Ef); lia) ltac:(idtac).
        exists fsize. split; [reflexivity|split; [exact Hfs|split; [reflexivity|split; [exact Hsplit|split; [reflexivity|split; [discriminate|]]]]]].
        intros _. exists payload, n. repeat split; auto; lia.
      + five ltac:(intros f Ef; apply (Hdecl _ _ Ef); lia) ltac:(exists fsize; auto).
    - red5. rewrite Hlen. five ltac:(intros f Ef; apply (Hdecl _ _ Ef); lia) ltac:(idtac).
      exists fsize. split; [reflexivity|split; [exact Hfs|split; [reflexivity|split; [exact Hsplit|split; [reflexivity|split; [intros _; lia|discriminate]]]]]].
  Qed.
End FrameIOProofs.
