(* Extraction of the network models for ocaml/net/driver.ml.  ExtrOcamlBasic only. *)
From AQ Require Import Lib.Bytes Lib.ExtractBase Lib.Keccak Rlp.RlpSpec Net.Frame Net.FrameIO Net.Discover Net.Limits Net.Handshake Net.Messages Net.ProtoHs Net.DiscState.
Require Extraction.
Require Import ExtrOcamlBasic.
Extraction "../ocaml/net/model.ml" base_anchor keccak256
  write_msg read_msg read_msg_io write_all read_n snappy_declen frame_buf_size max_uint24
  encode_packet decode_packet encode_msg dec_msg expired
  read_handshake_msg auth_body_ok ack_body_ok enc_auth_msg_len enc_auth_resp_len receiver_handshake read_protocol_handshake
  step d_init has_bond run
  handshake_outcomes handle_decode fetch_limit mark_known max_known_txs max_known_blocks
  handle_gate serve headers_served deliver_rule headers_fill_rule serve_headers disc_reason disc_reason_named
  protocol_max_msg_size soft_response_limit est_header_rlp_size max_block_fetch
  max_header_fetch max_receipt_fetch max_state_fetch base_protocol_max_msg_size.
