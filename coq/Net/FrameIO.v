(* Net/FrameIO.v — rlpxFrameRW.ReadMsg (p2p/rlpx.go) as a function of the bytes still to
   come from the connection, instrumented with what the Go function does to its
   environment: how many bytes it takes from conn (io.ReadFull takes whatever is there
   when the stream ends early) and the sizes it passes to make / the decompressor.
   The result component is Frame.read_msg (proved in FrameIOProofs.v); this file adds
   the I/O account.  Definitions only (extracted). *)
From AQ Require Import Lib.Bytes Rlp.RlpSpec Net.Frame.
Local Open Scope N_scope.

Record rio := mk_rio {
  io_consumed : N;          (* bytes read from conn *)
  io_alloc : N;             (* sum of the buffer sizes requested: headbuf, framebuf, ReadAll copy, snappy output *)
  io_declared : option N    (* the frame size the (authenticated) header declared, once it was decrypted *)
}.

Section FrameIO.
  Variable H : bytes -> bytes.
  Variable aes_block : bytes -> bytes.
  Variable ks : N -> byte.
  Variable snappy_dec : bytes -> option bytes.

  (* tail of ReadMsg with snappy: ioutil.ReadAll(msg.Payload) copies the payload, DecodedLen,
     the limit check, snappy.Decode(nil, payload) allocates the declared length *)
  Definition deliver_io (snappy : bool) (code : N) (payload : bytes) (st' : rstate) (s3 : bytes)
             (consumed alloc fsize : N) : rres * rio :=
    if snappy then
      let alloc1 := alloc + lenN payload in
      match snappy_declen payload with
      | None => (RErr RSnappy, mk_rio consumed alloc1 (Some fsize))
      | Some n =>
        if max_uint24 <? n then (RErr RTooLarge, mk_rio consumed alloc1 (Some fsize))
        else match snappy_dec payload with
             | None => (RErr RSnappy, mk_rio consumed (alloc1 + n) (Some fsize))
             | Some p => (ROk code p st' s3, mk_rio consumed (alloc1 + n) (Some fsize))
             end
      end
    else (ROk code payload st' s3, mk_rio consumed alloc (Some fsize)).

  Definition read_msg_io (snappy : bool) (st : rstate) (s : bytes) : rres * rio :=
    match takeN 32 s with
    | None => (RErr RShort, mk_rio (lenN s) 32 None)        (* headbuf := make([]byte, 32); io.ReadFull *)
    | Some (head, s1) =>
      let hc := firstn 16 head in
      let hm := skipn 16 head in
      let '(mac1, should) := update_mac H aes_block (r_mac st) hc in
      if negb (bytes_eqb should hm) then (RErr RHeaderMac, mk_rio 32 32 None) else
      let hp := xor_ks ks (r_pos st) hc in
      let fsize := N_of_be (firstn 3 hp) in
      let rsize := frame_buf_size fsize in                  (* framebuf := make([]byte, rsize) *)
      match takeN rsize s1 with
      | None => (RErr RShort, mk_rio (lenN s) (32 + rsize) (Some fsize))
      | Some (framebuf, s2) =>
        let mac2 := mac1 ++ framebuf in
        match takeN 16 s2 with
        | None => (RErr RShort, mk_rio (lenN s) (32 + rsize) (Some fsize))
        | Some (fm, s3) =>
          let consumed := 32 + rsize + 16 in
          let '(mac3, should2) := update_mac H aes_block mac2 (H mac2) in
          if negb (bytes_eqb should2 fm) then (RErr RFrameMac, mk_rio consumed (32 + rsize) (Some fsize)) else
          let plain := xor_ks ks (r_pos st + 16) framebuf in
          let content := firstn (N.to_nat fsize) plain in
          match dec_uint64 content with
          | None => (RErr RCode, mk_rio consumed (32 + rsize) (Some fsize))
          | Some (code, payload) =>
            deliver_io snappy code payload (mk_rstate (r_pos st + 16 + rsize) mac3) s3 consumed (32 + rsize) fsize
          end
        end
      end
    end.
End FrameIO.
