From AQ Require Import Lib.Bytes.
From AQ Require Import Net.ProtoHs.
Local Open Scope N_scope.

Inductive reach (early : bool) (v : N) : hstate -> Prop :=
| reach_init : reach early v hs_init
| reach_step s s' : reach early v s -> In s' (next_states early v s) -> reach early v s'.

Definition sampled_of (s : hstate) : option bool :=
  match hs_w s with W0 => None | W1 b => Some b | WDone b => Some b end.

(* the invariant, as a boolean over the (finite) state space *)
Definition hs_inv (set : bool) (s : hstate) : bool :=
  match sampled_of s with Some true => false | _ => true end &&
  match hs_r s with
  | RDone => Bool.eqb (hs_flag s) set && writer_done s
  | R2 => negb (hs_flag s) && writer_done s
  | _ => negb (hs_flag s)
  end.

Lemma hs_inv_step set s : hs_inv set s = true -> forallb (hs_inv set) (next_states_b false set s) = true.
Proof.
  destruct set; destruct s as [f w r]; destruct f; destruct w as [|[]|[]]; destruct r;
    vm_compute; intros H; try discriminate H; reflexivity.
Qed.

Lemma reach_inv v s : reach false v s -> hs_inv (snappy_protocol_version <=? v) s = true.
Proof.
  induction 1 as [|s s' Hr IH Hin]; [destruct (snappy_protocol_version <=? v); reflexivity|].
  pose proof (hs_inv_step _ _ IH) as Hall. rewrite forallb_forall in Hall. exact (Hall _ Hin).
Qed.

(* In EVERY interleaving of the code as written: our handshake frame is never compressed, the flag
   stays false until the reader's last step, and when the handshake has completed the writer has
   finished and rw.snappy = (their.Version >= 5). *)
Theorem proto_handshake_safe v s : reach false v s ->
  (forall b, sampled_of s = Some b -> b = false) /\
  (hs_r s <> RDone -> hs_flag s = false) /\
  (hs_r s = RDone -> writer_done s = true /\ hs_flag s = (snappy_protocol_version <=? v)).
Proof.
  intros Hr. apply reach_inv in Hr. revert Hr. generalize (snappy_protocol_version <=? v) as set.
  intros set. destruct s as [f w r]. destruct set, f, w as [|[]|[]], r; vm_compute; intros H; try discriminate H;
    repeat split; intros; try discriminate; try reflexivity; try congruence.
Qed.

(* the whole outcome set, computed: one outcome — plain handshake, snappy on iff v >= 5 *)
Lemma handshake_outcomes_v5 : forall o, In o (handshake_outcomes false 5) -> o = (false, true).
Proof. vm_compute. intuition. Qed.
Lemma handshake_outcomes_v4 : forall o, In o (handshake_outcomes false 4) -> o = (false, false).
Proof. vm_compute. intuition. Qed.

(* with the flag set before <-werr there IS an interleaving in which our handshake goes out compressed *)
Lemma early_set_breaks_it : In (true, true) (handshake_outcomes true 5).
Proof. vm_compute. auto 20. Qed.
